package main

func genParse() {}
