package main

import (
	"fmt"
	"go/ast"
	"go/token"
	"sort"
	"strings"
)

// NodeType constant block of parse/ntypes.go, in order
func extractNodeTypes() []string {
	_, f := parseFile("parse/ntypes.go")
	var names []string
	if f == nil {
		return nil
	}
	for _, d := range f.Decls {
		gd, ok := d.(*ast.GenDecl)
		if !ok || gd.Tok != token.CONST {
			continue
		}
		first := gd.Specs[0].(*ast.ValueSpec)
		if first.Names[0].Name != "NodeUnknown" {
			continue
		}
		for _, sp := range gd.Specs {
			names = append(names, sp.(*ast.ValueSpec).Names[0].Name)
		}
	}
	if len(names) == 0 {
		fail("ntypes.go: NodeType const block not found")
	}
	return names
}

// nodeNames: array literal indexed by constant
func extractNodeNames() map[string]string {
	_, f := parseFile("parse/ntypes.go")
	out := map[string]string{}
	cl, ok := findVar(f, "nodeNames").(*ast.CompositeLit)
	if !ok {
		fail("ntypes.go: nodeNames not a composite literal")
		return out
	}
	for _, el := range cl.Elts {
		kv, ok := el.(*ast.KeyValueExpr)
		if !ok {
			fail("nodeNames: element without key")
			continue
		}
		s, ok := unquote(kv.Value)
		if !ok {
			fail("nodeNames[%s]: not a string", exprString(kv.Key))
		}
		out[exprString(kv.Key)] = s
	}
	return out
}

type cardCell struct{ child, start, end string }

// cardinalities: map literal NodeX: { NodeY: {'0','n'}, … }
func extractCardinalities() map[string][]cardCell {
	_, f := parseFile("parse/cardinality.go")
	out := map[string][]cardCell{}
	cl, ok := findVar(f, "cardinalities").(*ast.CompositeLit)
	if !ok {
		fail("cardinality.go: cardinalities not a composite literal")
		return out
	}
	for _, el := range cl.Elts {
		kv := el.(*ast.KeyValueExpr)
		parent := exprString(kv.Key)
		row, ok := kv.Value.(*ast.CompositeLit)
		if !ok {
			fail("cardinalities[%s]: not a literal", parent)
			continue
		}
		for _, ce := range row.Elts {
			ckv := ce.(*ast.KeyValueExpr)
			cell, ok := ckv.Value.(*ast.CompositeLit)
			if !ok || len(cell.Elts) != 2 {
				fail("cardinalities[%s][%s]: unexpected cell", parent, exprString(ckv.Key))
				continue
			}
			s, ok1 := unquote(cell.Elts[0])
			e, ok2 := unquote(cell.Elts[1])
			if !ok1 || !ok2 {
				fail("cardinalities[%s][%s]: cell not two rune literals", parent, exprString(ckv.Key))
			}
			out[parent] = append(out[parent], cardCell{exprString(ckv.Key), s, e})
		}
		sort.Slice(out[parent], func(i, j int) bool { return out[parent][i].child < out[parent][j].child })
	}
	return out
}

// getArgByType: case lists → argument kind (the constructor name in the return statement)
func extractArgKinds() map[string]string {
	_, f := parseFile("parse/arg.go")
	fd := findFunc(f, "", "getArgByType")
	out := map[string]string{}
	if fd == nil {
		fail("arg.go: getArgByType not found")
		return out
	}
	ast.Inspect(fd.Body, func(n ast.Node) bool {
		cc, ok := n.(*ast.CaseClause)
		if !ok {
			return true
		}
		kind := ""
		for _, st := range cc.Body {
			if rs, ok := st.(*ast.ReturnStmt); ok && len(rs.Results) == 1 {
				e := rs.Results[0]
				if u, ok := e.(*ast.UnaryExpr); ok {
					e = u.X
				}
				if cl, ok := e.(*ast.CompositeLit); ok {
					kind = exprString(cl.Type)
				}
			}
		}
		if kind == "" {
			// no direct `return &X{…}`: name every argument type constructed in the clause, or "panic"
			var kinds []string
			for _, st := range cc.Body {
				ast.Inspect(st, func(m ast.Node) bool {
					if cl, ok := m.(*ast.CompositeLit); ok {
						kinds = append(kinds, exprString(cl.Type))
					}
					if ce, ok := m.(*ast.CallExpr); ok && exprString(ce.Fun) == "panic" {
						kinds = append(kinds, "panic")
					}
					return true
				})
			}
			kind = strings.Join(kinds, "|")
		}
		if kind == "" && len(cc.List) > 0 {
			fail("getArgByType: case %s without a recognisable return", exprString(cc.List[0]))
		}
		for _, e := range cc.List {
			out[exprString(e)] = kind
		}
		if len(cc.List) == 0 && kind != "" {
			out["default"] = kind
		}
		return true
	})
	return out
}

// Is*Node range predicates of ntypes.go: "(t > A) && (t < B)" → [A, B]
func extractRangePreds() map[string][]string {
	_, f := parseFile("parse/ntypes.go")
	out := map[string][]string{}
	if f == nil {
		return out
	}
	for _, d := range f.Decls {
		fd, ok := d.(*ast.FuncDecl)
		if !ok || fd.Recv == nil || !strings.HasPrefix(fd.Name.Name, "Is") {
			continue
		}
		var idents []string
		ast.Inspect(fd.Body, func(n ast.Node) bool {
			if id, ok := n.(*ast.Ident); ok && strings.HasPrefix(id.Name, "Node") {
				idents = append(idents, id.Name)
			}
			if ce, ok := n.(*ast.CallExpr); ok {
				idents = append(idents, "call:"+exprString(ce.Fun))
			}
			return true
		})
		out[fd.Name.Name] = idents
	}
	return out
}

// parse/parse.go: the integer constants that bound the parser's recursion (a constant that is gone, or is no
// integer literal, is a failed extraction)
func extractParseLimits() map[string]string {
	_, f := parseFile("parse/parse.go")
	out := map[string]string{}
	if f == nil {
		return out
	}
	for _, d := range f.Decls {
		gd, ok := d.(*ast.GenDecl)
		if !ok || gd.Tok != token.CONST {
			continue
		}
		for _, sp := range gd.Specs {
			vs := sp.(*ast.ValueSpec)
			for i, nm := range vs.Names {
				if (nm.Name == "maxStmtDepth" || nm.Name == "maxArgPieces") && i < len(vs.Values) {
					if lit, ok := vs.Values[i].(*ast.BasicLit); ok && lit.Kind == token.INT {
						out[nm.Name] = lit.Value
					}
				}
			}
		}
	}
	for _, want := range []string{"maxStmtDepth", "maxArgPieces"} {
		if _, ok := out[want]; !ok {
			fail("parse.go: constant " + want + " not found (the parser's recursion has no bound)")
		}
	}
	return out
}

// checkModule: the section of each case list (by order of appearance: header, linkage, meta, revision)
func extractModuleSections() [][]string {
	_, f := parseFile("parse/module.go")
	fd := findFunc(f, "", "checkModule")
	var out [][]string
	if fd == nil {
		fail("module.go: checkModule not found")
		return nil
	}
	ast.Inspect(fd.Body, func(n ast.Node) bool {
		cc, ok := n.(*ast.CaseClause)
		if !ok {
			return true
		}
		var g []string
		for _, e := range cc.List {
			g = append(g, exprString(e))
		}
		if len(cc.List) == 0 {
			g = []string{"default"}
		}
		out = append(out, g)
		return true
	})
	return out
}

func genParse() {
	var b strings.Builder
	types := extractNodeTypes()
	fmt.Fprintf(&b, "/-- parse/ntypes.go: the NodeType constants in declaration order (the Is*Node predicates are ranges over it) -/\ndef nodeTypes : List String := %s\n\n", leanStrList(types))
	names := extractNodeNames()
	b.WriteString("/-- parse/ntypes.go `nodeNames`: constant ↦ keyword -/\ndef nodeNames : List (String × String) := [\n")
	ks := sortedKeys(names)
	for i, k := range ks {
		sep := ","
		if i == len(ks)-1 {
			sep = ""
		}
		fmt.Fprintf(&b, "  (%s, %s)%s\n", leanStr(k), leanStr(names[k]), sep)
	}
	b.WriteString("]\n\n")
	cards := extractCardinalities()
	b.WriteString("/-- parse/cardinality.go `cardinalities`: parent ↦ [(child, start, end)] sorted by child -/\ndef cardinalities : List (String × List (String × String × String)) := [\n")
	ps := sortedKeys(cards)
	for i, p := range ps {
		var cells []string
		for _, c := range cards[p] {
			cells = append(cells, fmt.Sprintf("(%s, %s, %s)", leanStr(c.child), leanStr(c.start), leanStr(c.end)))
		}
		sep := ","
		if i == len(ps)-1 {
			sep = ""
		}
		fmt.Fprintf(&b, "  (%s, [%s])%s\n", leanStr(p), strings.Join(cells, ", "), sep)
	}
	b.WriteString("]\n\n")
	ak := extractArgKinds()
	b.WriteString("/-- parse/arg.go `getArgByType`: node type ↦ argument kind -/\ndef argKinds : List (String × String) := [\n")
	aks := sortedKeys(ak)
	for i, k := range aks {
		sep := ","
		if i == len(aks)-1 {
			sep = ""
		}
		fmt.Fprintf(&b, "  (%s, %s)%s\n", leanStr(k), leanStr(ak[k]), sep)
	}
	b.WriteString("]\n\n")
	rp := extractRangePreds()
	b.WriteString("/-- the identifiers each Is*Node predicate mentions (range bounds / calls) -/\ndef rangePreds : List (String × List String) := [\n")
	rks := sortedKeys(rp)
	for i, k := range rks {
		sep := ","
		if i == len(rks)-1 {
			sep = ""
		}
		fmt.Fprintf(&b, "  (%s, %s)%s\n", leanStr(k), leanStrList(rp[k]), sep)
	}
	b.WriteString("]\n\n")
	pl := extractParseLimits()
	b.WriteString("/-- parse/parse.go: the bounds of the statement parser's two recursions -/\ndef parseLimits : List (String × Nat) := [")
	for i, k := range sortedKeys(pl) {
		if i > 0 {
			b.WriteString(", ")
		}
		fmt.Fprintf(&b, "(%s, %s)", leanStr(k), pl[k])
	}
	b.WriteString("]\n\n")
	ms := extractModuleSections()
	b.WriteString("/-- parse/module.go `checkModule`: the case lists in order -/\ndef moduleSections : List (List String) := [\n")
	for i, g := range ms {
		sep := ","
		if i == len(ms)-1 {
			sep = ""
		}
		fmt.Fprintf(&b, "  %s%s\n", leanStrList(g), sep)
	}
	b.WriteString("]\n")
	writeLean("Parse", b.String())
}
