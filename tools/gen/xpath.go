package main

import (
	"bytes"
	"fmt"
	"go/ast"
	"go/token"
	"os"
	"os/exec"
	"path/filepath"
	"regexp"
	"sort"
	"strconv"
	"strings"
)

var checkerKind = map[string]string{"TypeIsObject": "obj", "TypeIsNumber": "num", "TypeIsLiteral": "lit", "TypeIsBool": "bool", "TypeIsNodeset": "nodeset"}

// fntable: composite literal xpathFunctionTable in xpath/symbol.go
func extractFnTable() string {
	_, f := parseFile("xpath/symbol.go")
	v := findVar(f, "xpathFunctionTable")
	cl, ok := v.(*ast.CompositeLit)
	if !ok {
		fail("xpathFunctionTable: not a composite literal")
		return "def fnTable : List (String × List String × String) := []\n"
	}
	type row struct {
		name string
		args []string
		ret  string
	}
	var rows []row
	for _, el := range cl.Elts {
		kv, ok := el.(*ast.KeyValueExpr)
		if !ok {
			fail("xpathFunctionTable: element is not key:value")
			continue
		}
		key, ok := unquote(kv.Key)
		call, ok2 := kv.Value.(*ast.CallExpr)
		if !ok || !ok2 || len(call.Args) != 4 || (exprString(call.Fun) != "NewFnSym") {
			fail("xpathFunctionTable[%s]: unexpected value shape %s", key, exprString(kv.Value))
			continue
		}
		nm, _ := unquote(call.Args[0])
		if nm != key {
			fail("xpathFunctionTable[%s]: symbol name %q differs from key", key, nm)
		}
		r := row{name: key}
		argl, ok := call.Args[2].(*ast.CompositeLit)
		if !ok {
			fail("xpathFunctionTable[%s]: arg checkers not a literal", key)
			continue
		}
		for _, a := range argl.Elts {
			k, ok := checkerKind[exprString(a)]
			if !ok {
				fail("xpathFunctionTable[%s]: unknown checker %s", key, exprString(a))
			}
			r.args = append(r.args, k)
		}
		k, ok := checkerKind[exprString(call.Args[3])]
		if !ok {
			fail("xpathFunctionTable[%s]: unknown return checker %s", key, exprString(call.Args[3]))
		}
		r.ret = k
		rows = append(rows, r)
	}
	sort.Slice(rows, func(i, j int) bool { return rows[i].name < rows[j].name })
	var b strings.Builder
	b.WriteString("/-- xpath/symbol.go `xpathFunctionTable`: (name, argument kinds, return kind), sorted by name -/\n")
	b.WriteString("def fnTable : List (String × List String × String) := [\n")
	for i, r := range rows {
		sep := ","
		if i == len(rows)-1 {
			sep = ""
		}
		fmt.Fprintf(&b, "  (%s, %s, %s)%s\n", leanStr(r.name), leanStrList(r.args), leanStr(r.ret), sep)
	}
	b.WriteString("]\n")
	return b.String()
}

// tokens: const block of xutils/tokens.go (EOF = 0; ERR = 0xF000 + iota; …)
func extractTokens() (string, map[string]int) {
	_, f := parseFile("xpath/xutils/tokens.go")
	vals := map[string]int{}
	var order []string
	if f != nil {
		for _, d := range f.Decls {
			gd, ok := d.(*ast.GenDecl)
			if !ok || gd.Tok != token.CONST {
				continue
			}
			base, off := -1, 0
			for i, sp := range gd.Specs {
				vs := sp.(*ast.ValueSpec)
				name := vs.Names[0].Name
				if len(vs.Values) == 1 {
					switch v := vs.Values[0].(type) {
					case *ast.BasicLit:
						n, _ := strconv.ParseInt(v.Value, 0, 64)
						vals[name] = int(n)
						base = -1
					case *ast.BinaryExpr:
						// 0xF000 + iota
						l, ok1 := v.X.(*ast.BasicLit)
						r, ok2 := v.Y.(*ast.Ident)
						if ok1 && ok2 && r.Name == "iota" && v.Op == token.ADD {
							n, _ := strconv.ParseInt(l.Value, 0, 64)
							base, off = int(n), 0
							vals[name] = base + i
							_ = off
						} else {
							fail("tokens.go: unexpected const expression for %s", name)
						}
					default:
						fail("tokens.go: unexpected const value for %s", name)
					}
				} else if base >= 0 {
					vals[name] = base + i
				} else {
					fail("tokens.go: const %s without value", name)
				}
				order = append(order, name)
			}
		}
	}
	var b strings.Builder
	b.WriteString("/-- xpath/xutils/tokens.go: the common token constants, in declaration order -/\n")
	b.WriteString("def tokenConsts : List (String × Nat) := [")
	for i, n := range order {
		if i > 0 {
			b.WriteString(", ")
		}
		fmt.Fprintf(&b, "(%s, %d)", leanStr(n), vals[n])
	}
	b.WriteString("]\n")
	return b.String(), vals
}

// token maps: keys of commonTo<G>TokenMap (selector xutils.X)
func extractTokenMap(rel, varName, leanName string) string {
	_, f := parseFile(rel)
	cl, ok := findVar(f, varName).(*ast.CompositeLit)
	if !ok {
		fail("%s: %s not a composite literal", rel, varName)
		return fmt.Sprintf("def %s : List String := []\n", leanName)
	}
	var keys []string
	for _, el := range cl.Elts {
		kv := el.(*ast.KeyValueExpr)
		k := exprString(kv.Key)
		v := exprString(kv.Value)
		if !strings.HasPrefix(k, "xutils.") || strings.TrimPrefix(k, "xutils.") != v {
			fail("%s: %s maps %s to %s (expected the grammar token of the same name)", rel, varName, k, v)
		}
		keys = append(keys, strings.TrimPrefix(k, "xutils."))
	}
	sort.Strings(keys)
	return fmt.Sprintf("/-- %s `%s`: the common tokens the grammar translates (the rest reach the parser raw) -/\ndef %s : List String := %s\n", rel, varName, leanName, leanStrList(keys))
}

// string cases of a switch inside a method that return `true` / a token
func extractSwitchStrings(rel, fn string) [][]string {
	_, f := parseFile(rel)
	fd := findFunc(f, "x", fn)
	var groups [][]string
	if fd == nil {
		fail("%s: func %s not found", rel, fn)
		return nil
	}
	ast.Inspect(fd.Body, func(n ast.Node) bool {
		cc, ok := n.(*ast.CaseClause)
		if !ok {
			return true
		}
		var g []string
		for _, e := range cc.List {
			if s, ok := unquote(e); ok {
				g = append(g, s)
			} else {
				g = append(g, exprString(e))
			}
		}
		if len(g) > 0 {
			groups = append(groups, g)
		}
		return true
	})
	return groups
}

func flatten(gs [][]string) []string {
	var out []string
	for _, g := range gs {
		out = append(out, g...)
	}
	sort.Strings(out)
	return out
}

// yacc: run goyacc on the grammar; conflicts; and (for grammars whose .go is checked in) whether the
// checked-in tables are those goyacc produces from the current .y
func yaccFacts(goyacc, y, prefix, checkedIn string) (conflicts string, fresh string, prods []string) {
	tmp, _ := os.MkdirTemp("", "yvgen")
	defer os.RemoveAll(tmp)
	og, ov := filepath.Join(tmp, "y.go"), filepath.Join(tmp, "y.output")
	cmd := exec.Command(goyacc, "-o", og, "-v", ov, "-p", prefix, filepath.Join(repo, y))
	cmd.Dir = tmp
	outb, err := cmd.CombinedOutput()
	if err != nil {
		fail("goyacc %s: %v %s", y, err, outb)
		return "unknown", "unknown", nil
	}
	vo, _ := os.ReadFile(ov)
	m := regexp.MustCompile(`(\d+) shift/reduce, (\d+) reduce/reduce conflicts reported`).FindSubmatch(vo)
	conflicts = "unknown"
	if m != nil {
		conflicts = string(m[1]) + "/" + string(m[2])
	}
	// productions: lines "   N  lhs: rhs" of state 0 preamble are not listed by goyacc -v; take them from the .y
	fresh = "n/a"
	if checkedIn != "" {
		a, _ := os.ReadFile(og)
		b, err := os.ReadFile(filepath.Join(repo, checkedIn))
		strip := func(s []byte) string {
			i := bytes.Index(s, []byte(prefix+"Exca"))
			if i < 0 {
				return ""
			}
			var keep []string
			for _, l := range strings.Split(string(s[i:]), "\n") {
				if !strings.HasPrefix(l, "//line") {
					keep = append(keep, l)
				}
			}
			return strings.Join(keep, "\n")
		}
		if err != nil {
			fresh = "missing"
		} else if strip(a) != "" && strip(a) == strip(b) {
			fresh = "fresh"
		} else {
			fresh = "stale"
		}
	}
	return
}

// grammar rules of a .y file: "lhs: alt | alt ;" with actions stripped; each alt as symbols + action calls
func extractRules(y string) []string {
	src, err := os.ReadFile(filepath.Join(repo, y))
	if err != nil {
		fail("read %s: %v", y, err)
		return nil
	}
	s := string(src)
	i := strings.Index(s, "\n%%")
	j := strings.LastIndex(s, "\n%%")
	if i < 0 || j <= i {
		fail("%s: no rules section", y)
		return nil
	}
	body := s[i+3 : j]
	// strip comments
	body = regexp.MustCompile(`(?s)/\*.*?\*/`).ReplaceAllString(body, " ")
	body = regexp.MustCompile(`//[^\n]*`).ReplaceAllString(body, " ")
	// replace actions { … } (balanced) by @act(<builder calls>)
	var b strings.Builder
	depth := 0
	var act strings.Builder
	for k := 0; k < len(body); k++ {
		c := body[k]
		switch {
		case c == '{':
			depth++
			if depth == 1 {
				act.Reset()
				continue
			}
		case c == '}':
			depth--
			if depth == 0 {
				calls := regexp.MustCompile(`\)\.([A-Za-z]+)\(`).FindAllStringSubmatch(act.String(), -1)
				var names []string
				for _, m := range calls {
					names = append(names, m[1])
				}
				tags := regexp.MustCompile(`"([A-Za-z ]+)"\)`).FindAllStringSubmatch(act.String(), -1)
				for _, m := range tags {
					names = append(names, "'"+m[1]+"'")
				}
				b.WriteString(" @act(" + strings.Join(names, ",") + ") ")
				continue
			}
		}
		if depth > 0 {
			act.WriteByte(c)
		} else {
			b.WriteByte(c)
		}
	}
	text := strings.Join(strings.Fields(b.String()), " ")
	var rules []string
	// split into "lhs : alts ;"  — rules without a terminating ';' end at the next "ident :"
	re := regexp.MustCompile(`([A-Za-z0-9_]+) ?: `)
	idx := re.FindAllStringSubmatchIndex(text, -1)
	for n, m := range idx {
		end := len(text)
		if n+1 < len(idx) {
			end = idx[n+1][0]
		}
		lhs := text[m[2]:m[3]]
		rhs := strings.TrimSpace(strings.TrimSuffix(strings.TrimSpace(text[m[1]:end]), ";"))
		for _, alt := range strings.Split(rhs, " | ") {
			rules = append(rules, lhs+" -> "+strings.TrimSpace(strings.TrimSuffix(strings.TrimSpace(alt), ";")))
		}
	}
	return rules
}

func genXPath() {
	var b strings.Builder
	b.WriteString(extractFnTable())
	b.WriteString("\n")
	ts, _ := extractTokens()
	b.WriteString(ts)
	b.WriteString("\n")
	b.WriteString(extractTokenMap("xpath/grammars/expr/expr_lexer.go", "commonToExprTokenMap", "exprTokenMap"))
	b.WriteString(extractTokenMap("xpath/grammars/leafref/leafref_lexer.go", "commonToLeafrefTokenMap", "leafrefTokenMap"))
	b.WriteString(extractTokenMap("xpath/grammars/path_eval/path_eval_lexer.go", "commonToPathEvalTokenMap", "pathEvalTokenMap"))
	b.WriteString("\n")
	fmt.Fprintf(&b, "/-- `nameIsNodeType` -/\ndef nodeTypeNames : List String := %s\n", leanStrList(flatten(extractSwitchStrings("xpath/common_lexer.go", "nameIsNodeType"))))
	fmt.Fprintf(&b, "/-- `nameIsAxisName` -/\ndef axisNames : List String := %s\n", leanStrList(flatten(extractSwitchStrings("xpath/common_lexer.go", "nameIsAxisName"))))
	fmt.Fprintf(&b, "/-- `getOperatorName` -/\ndef operatorNames : List String := %s\n", leanStrList(flatten(extractSwitchStrings("xpath/common_lexer.go", "getOperatorName"))))
	fmt.Fprintf(&b, "/-- `tokenCanBeOperator`: preceding tokens after which a name / '*' is NOT an operator -/\ndef notOperatorAfter : List String := %s\n",
		leanStrList(flatten(extractSwitchStrings("xpath/common_lexer.go", "tokenCanBeOperator"))))
	// goyacc sits next to this binary (build/)
	goyacc := "/verif/build/goyacc"
	if exe, err := os.Executable(); err == nil {
		if cand := filepath.Join(filepath.Dir(exe), "goyacc"); fileExists(cand) {
			goyacc = cand
		}
	}
	c1, f1, _ := yaccFacts(goyacc, "xpath/grammars/expr/xpath.y", "expr", "xpath/grammars/expr/xpath.go")
	c2, _, _ := yaccFacts(goyacc, "xpath/grammars/leafref/leafref.y", "leafref", "")
	c3, f3, _ := yaccFacts(goyacc, "xpath/grammars/path_eval/path_eval.y", "pathEval", "xpath/grammars/path_eval/path_eval.go")
	fmt.Fprintf(&b, "\n/-- goyacc on the current grammars: \"shift-reduce/reduce-reduce\" conflicts -/\ndef yaccConflicts : List (String × String) := [(\"xpath.y\", %s), (\"leafref.y\", %s), (\"path_eval.y\", %s)]\n", leanStr(c1), leanStr(c2), leanStr(c3))
	fmt.Fprintf(&b, "/-- are the checked-in parser tables those goyacc generates from the current .y? -/\ndef yaccFresh : List (String × String) := [(\"xpath.go\", %s), (\"path_eval.go\", %s)]\n", leanStr(f1), leanStr(f3))
	fmt.Fprintf(&b, "\n/-- productions of xpath.y with the ProgBuilder calls of their actions -/\ndef exprRules : List String := [\n  %s\n]\n", strings.Join(quoteAll(extractRules("xpath/grammars/expr/xpath.y")), ",\n  "))
	fmt.Fprintf(&b, "\n/-- productions of leafref.y -/\ndef leafrefRules : List String := [\n  %s\n]\n", strings.Join(quoteAll(extractRules("xpath/grammars/leafref/leafref.y")), ",\n  "))
	writeLean("XPath", b.String())
}

func fileExists(p string) bool { _, err := os.Stat(p); return err == nil }

func quoteAll(l []string) []string {
	q := make([]string, len(l))
	for i, s := range l {
		q[i] = leanStr(s)
	}
	return q
}
