package main

import (
	"go/ast"
	"go/token"
	"os"
	"path/filepath"
	"sort"
	"strings"
)

// genConc — C06: the mutable state the xpath package has, and who writes a compiled Machine.
//   concGlobals       : every package-level var of package xpath (non-test files)
//   concGlobalWrites  : "func: var" for every assignment / inc-dec / map or index store whose target is rooted
//                       at a package-level var, and every delete / append-assign on one
//   concMachineWrites : "func: field" for every store through a value of type Machine / *Machine
//                       (receiver or parameter or local named in a declaration with that type)
//   concLockedFuncs   : functions whose first statements take the package mutex (mu.Lock / defer mu.Unlock)
func genConc() {
	dir := filepath.Join(repo, "xpath")
	ents, err := os.ReadDir(dir)
	if err != nil {
		fail("conc: %v", err)
		return
	}
	var files []*ast.File
	for _, e := range ents {
		n := e.Name()
		if e.IsDir() || !strings.HasSuffix(n, ".go") || strings.HasSuffix(n, "_test.go") {
			continue
		}
		_, f := parseFile(filepath.Join("xpath", n))
		if f != nil {
			files = append(files, f)
		}
	}
	globals := map[string]bool{}
	for _, f := range files {
		for _, d := range f.Decls {
			if gd, ok := d.(*ast.GenDecl); ok && gd.Tok == token.VAR {
				for _, sp := range gd.Specs {
					for _, n := range sp.(*ast.ValueSpec).Names {
						if n.Name != "_" {
							globals[n.Name] = true
						}
					}
				}
			}
		}
	}
	root := func(e ast.Expr) string {
		for {
			switch v := e.(type) {
			case *ast.Ident:
				return v.Name
			case *ast.SelectorExpr:
				e = v.X
			case *ast.IndexExpr:
				e = v.X
			case *ast.StarExpr:
				e = v.X
			case *ast.ParenExpr:
				e = v.X
			default:
				return ""
			}
		}
	}
	isMachineType := func(t ast.Expr) bool {
		if s, ok := t.(*ast.StarExpr); ok {
			t = s.X
		}
		id, ok := t.(*ast.Ident)
		return ok && id.Name == "Machine"
	}
	var gw, mw, locked []string
	for _, f := range files {
		for _, d := range f.Decls {
			fd, ok := d.(*ast.FuncDecl)
			if !ok || fd.Body == nil {
				continue
			}
			fname := fd.Name.Name
			machVars := map[string]bool{}
			shadow := map[string]bool{}
			addParams := func(fl *ast.FieldList) {
				if fl == nil {
					return
				}
				for _, p := range fl.List {
					for _, n := range p.Names {
						shadow[n.Name] = true
						if isMachineType(p.Type) {
							machVars[n.Name] = true
						}
					}
				}
			}
			addParams(fd.Recv)
			addParams(fd.Type.Params)
			store := func(lhs ast.Expr) {
				r := root(lhs)
				if r == "" {
					return
				}
				if _, isIdent := lhs.(*ast.Ident); machVars[r] && !isIdent {
					mw = append(mw, fname+": "+exprString(lhs))
				}
				if globals[r] && !shadow[r] {
					gw = append(gw, fname+": "+r)
				}
			}
			ast.Inspect(fd.Body, func(n ast.Node) bool {
				switch v := n.(type) {
				case *ast.AssignStmt:
					if v.Tok == token.DEFINE {
						for _, l := range v.Lhs {
							if id, ok := l.(*ast.Ident); ok {
								shadow[id.Name] = true
							}
						}
						return true
					}
					for _, l := range v.Lhs {
						store(l)
					}
				case *ast.IncDecStmt:
					store(v.X)
				case *ast.CallExpr:
					if id, ok := v.Fun.(*ast.Ident); ok && id.Name == "delete" && len(v.Args) > 0 {
						store(v.Args[0])
					}
				}
				return true
			})
			if len(fd.Body.List) > 0 {
				if es, ok := fd.Body.List[0].(*ast.ExprStmt); ok {
					if x := exprString(es.X); x == "mu.Lock(...)" {
						locked = append(locked, fname)
					} else if strings.HasSuffix(x, ".Lock(...)") {
						// another package-level mutex: "function: mutex"
						locked = append(locked, fname+": "+strings.TrimSuffix(x, ".Lock(...)"))
					}
				}
			}
		}
	}
	uniq := func(l []string) []string {
		sort.Strings(l)
		var out []string
		for i, s := range l {
			if i == 0 || s != l[i-1] {
				out = append(out, s)
			}
		}
		return out
	}
	writeLean("Conc", "def concGlobals : List String := "+leanStrList(sortedKeys(globals))+"\n\n"+
		"def concGlobalWrites : List String := "+leanStrList(uniq(gw))+"\n\n"+
		"def concMachineWrites : List String := "+leanStrList(uniq(mw))+"\n\n"+
		"def concLockedFuncs : List String := "+leanStrList(uniq(locked))+"\n")
}
