package main

import (
	"fmt"
	"go/ast"
	"sort"
	"strings"
)

// schema/types.go: inttab, uinttab (integer literals), fdtab (float literals kept as decimal text);
// compile/compile.go: validRestrictionsType
func genTypes() {
	var b strings.Builder
	_, f := parseFile("schema/types.go")
	for _, name := range []string{"inttab", "uinttab", "fdtab"} {
		cl, ok := findVar(f, name).(*ast.CompositeLit)
		if !ok {
			fail("types.go: %s not a composite literal", name)
			continue
		}
		var rows []string
		for _, el := range cl.Elts {
			kv := el.(*ast.KeyValueExpr)
			cell, ok := kv.Value.(*ast.CompositeLit)
			if !ok || len(cell.Elts) != 2 {
				fail("types.go: %s[%s] unexpected cell", name, exprString(kv.Key))
				continue
			}
			lit := func(e ast.Expr) string {
				switch v := e.(type) {
				case *ast.BasicLit:
					return v.Value
				case *ast.UnaryExpr:
					if bl, ok := v.X.(*ast.BasicLit); ok {
						return v.Op.String() + bl.Value
					}
				}
				fail("types.go: %s[%s]: bound is not a numeric literal", name, exprString(kv.Key))
				return "?"
			}
			rows = append(rows, fmt.Sprintf("(%s, %s, %s)", leanStr(exprString(kv.Key)), leanStr(lit(cell.Elts[0])), leanStr(lit(cell.Elts[1]))))
		}
		fmt.Fprintf(&b, "/-- schema/types.go `%s`: key ↦ (start, end) as written -/\ndef %s : List (String × String × String) := [%s]\n\n", name, name, strings.Join(rows, ", "))
	}
	_, cf := parseFile("compile/compile.go")
	cl, ok := findVar(cf, "validRestrictionsType").(*ast.CompositeLit)
	if !ok {
		fail("compile.go: validRestrictionsType not a composite literal")
	} else {
		var rows []string
		for _, el := range cl.Elts {
			kv := el.(*ast.KeyValueExpr)
			row, ok := kv.Value.(*ast.CompositeLit)
			if !ok {
				fail("validRestrictionsType[%s]: not a literal", exprString(kv.Key))
				continue
			}
			var kinds []string
			for _, ce := range row.Elts {
				kinds = append(kinds, strings.TrimPrefix(exprString(ce.(*ast.KeyValueExpr).Key), "parse."))
			}
			sort.Strings(kinds)
			rows = append(rows, fmt.Sprintf("(%s, %s)", leanStr(exprString(kv.Key)), leanStrList(kinds)))
		}
		sort.Strings(rows)
		fmt.Fprintf(&b, "/-- compile/compile.go `validRestrictionsType`: schema type ↦ restriction statements that apply -/\ndef validRestrictions : List (String × List String) := [\n  %s\n]\n", strings.Join(rows, ",\n  "))
	}
	writeLean("Types", b.String())
}
