module yvgen

go 1.23
