/*
Derived from Inferno's utils/iyacc/yacc.c
http://code.google.com/p/inferno-os/source/browse/utils/iyacc/yacc.c

This copyright NOTICE applies to all files in this directory and
subdirectories, unless another copyright notice appears in a given
file or subdirectory.  If you take substantial code from this software to use in
other programs, you must somehow include with it an appropriate
copyright notice that includes the copyright notice and the other
notices below.  It is fine (and often tidier) to do that in a separate
file such as NOTICE, LICENCE or COPYING.

	Copyright © 1994-1999 Lucent Technologies Inc.  All rights reserved.
	Portions Copyright © 1995-1997 C H Forsyth (forsyth@terzarima.net)
	Portions Copyright © 1997-1999 Vita Nuova Limited
	Portions Copyright © 2000-2007 Vita Nuova Holdings Limited (www.vitanuova.com)
	Portions Copyright © 2004,2006 Bruce Ellis
	Portions Copyright © 2005-2007 C H Forsyth (forsyth@terzarima.net)
	Revisions Copyright © 2000-2007 Lucent Technologies Inc. and others
	Portions Copyright © 2009 The Go Authors. All rights reserved.

Permission is hereby granted, free of charge, to any person obtaining a copy
of this software and associated documentation files (the "Software"), to deal
in the Software without restriction, including without limitation the rights
to use, copy, modify, merge, publish, distribute, sublicense, and/or sell
copies of the Software, and to permit persons to whom the Software is
furnished to do so, subject to the following conditions:

The above copyright notice and this permission notice shall be included in
all copies or substantial portions of the Software.

THE SOFTWARE IS PROVIDED "AS IS", WITHOUT WARRANTY OF ANY KIND, EXPRESS OR
IMPLIED, INCLUDING BUT NOT LIMITED TO THE WARRANTIES OF MERCHANTABILITY,
FITNESS FOR A PARTICULAR PURPOSE AND NONINFRINGEMENT.  IN NO EVENT SHALL THE
AUTHORS OR COPYRIGHT HOLDERS BE LIABLE FOR ANY CLAIM, DAMAGES OR OTHER
LIABILITY, WHETHER IN AN ACTION OF CONTRACT, TORT OR OTHERWISE, ARISING FROM,
OUT OF OR IN CONNECTION WITH THE SOFTWARE OR THE USE OR OTHER DEALINGS IN
THE SOFTWARE.
*/

package main

// yacc
// major difference is lack of stem ("y" variable)
//

import (
	"bufio"
	"bytes"
	"flag"
	"fmt"
	"go/format"
	"math"
	"os"
	"strconv"
	"strings"
	"unicode"
)

// the following are adjustable
// according to memory size
const (
	ACTSIZE  = 240000
	NSTATES  = 16000
	TEMPSIZE = 16000

	SYMINC   = 50  // increase for non-term or term
	RULEINC  = 50  // increase for max rule length prodptr[i]
	PRODINC  = 100 // increase for productions     prodptr
	WSETINC  = 50  // increase for working sets    wsets
	STATEINC = 200 // increase for states          statemem

	PRIVATE = 0xE000 // unicode private use

	// relationships which must hold:
	//	TEMPSIZE >= NTERMS + NNONTERM + 1;
	//	TEMPSIZE >= NSTATES;
	//

	NTBASE     = 010000
	ERRCODE    = 8190
	ACCEPTCODE = 8191
	YYLEXUNK   = 3
	TOKSTART   = 4 //index of first defined token
)

// no, left, right, binary assoc.
const (
	NOASC = iota
	LASC
	RASC
	BASC
)

// flags for state generation
const (
	DONE = iota
	MUSTDO
	MUSTLOOKAHEAD
)

// flags for a rule having an action, and being reduced
const (
	ACTFLAG = 1 << (iota + 2)
	REDFLAG
)

// output parser flags
const yyFlag = -1000

// parse tokens
const (
	IDENTIFIER = PRIVATE + iota
	MARK
	TERM
	LEFT
	RIGHT
	BINARY
	PREC
	LCURLY
	IDENTCOLON
	NUMBER
	START
	TYPEDEF
	TYPENAME
	UNION
	ERROR
)

const ENDFILE = 0
const EMPTY = 1
const WHOKNOWS = 0
const OK = 1
const NOMORE = -1000

// macros for getting associativity and precedence levels
func ASSOC(i int) int { return i & 3 }

func PLEVEL(i int) int { return (i >> 4) & 077 }

func TYPE(i int) int { return (i >> 10) & 077 }

// macros for setting associativity and precedence levels
func SETASC(i, j int) int { return i | j }

func SETPLEV(i, j int) int { return i | (j << 4) }

func SETTYPE(i, j int) int { return i | (j << 10) }

// I/O descriptors
var finput *bufio.Reader // input file
var stderr *bufio.Writer
var ftable *bufio.Writer    // y.go file
var fcode = &bytes.Buffer{} // saved code
var foutput *bufio.Writer   // y.output file

var fmtImported bool // output file has recorded an import of "fmt"

var oflag string  // -o [y.go]		- y.go file
var vflag string  // -v [y.output]	- y.output file
var lflag bool    // -l			- disable line directives
var prefix string // name prefix for identifiers, default yy

func init() {
	flag.StringVar(&oflag, "o", "y.go", "parser output")
	flag.StringVar(&prefix, "p", "yy", "name prefix to use in generated code")
	flag.StringVar(&vflag, "v", "y.output", "create parsing tables")
	flag.BoolVar(&lflag, "l", false, "disable line directives")
}

var initialstacksize = 16

// communication variables between various I/O routines
var infile string  // input file name
var numbval int    // value of an input number
var tokname string // input token name, slop for runes and 0
var tokflag = false

// structure declarations
type Lkset []int

type Pitem struct {
	prod   []int
	off    int // offset within the production
	first  int // first term or non-term in item
	prodno int // production number for sorting
}

type Item struct {
	pitem Pitem
	look  Lkset
}

type Symb struct {
	name    string
	noconst bool
	value   int
}

type Wset struct {
	pitem Pitem
	flag  int
	ws    Lkset
}

// storage of types
var ntypes int                     // number of types defined
var typeset = make(map[int]string) // pointers to type tags

// token information

var ntokens = 0 // number of tokens
var tokset []Symb
var toklev []int // vector with the precedence of the terminals

// nonterminal information

var nnonter = -1 // the number of nonterminals
var nontrst []Symb
var start int // start symbol

// state information

var nstate = 0                      // number of states
var pstate = make([]int, NSTATES+2) // index into statemem to the descriptions of the states
var statemem []Item
var tystate = make([]int, NSTATES) // contains type information about the states
var tstates []int                  // states generated by terminal gotos
var ntstates []int                 // states generated by nonterminal gotos
var mstates = make([]int, NSTATES) // chain of overflows of term/nonterm generation lists
var lastred int                    // number of last reduction of a state
var defact = make([]int, NSTATES)  // default actions of states

// lookahead set information

var nolook = 0  // flag to turn off lookahead computations
var tbitset = 0 // size of lookahead sets
var clset Lkset // temporary storage for lookahead computations

// working set information

var wsets []Wset
var cwp int

// storage for action table

var amem []int                   // action table storage
var memp int                     // next free action table position
var indgo = make([]int, NSTATES) // index to the stored goto table

// temporary vector, indexable by states, terms, or ntokens

var temp1 = make([]int, TEMPSIZE) // temporary storage, indexed by terms + ntokens or states
var lineno = 1                    // current input line number
var fatfl = 1                     // if on, error is fatal
var nerrors = 0                   // number of errors

// assigned token type values

var extval = 0

// grammar rule information

var nprod = 1      // number of productions
var prdptr [][]int // pointers to descriptions of productions
var levprd []int   // precedence levels for the productions
var rlines []int   // line number for this rule

// statistics collection variables

var zzgoent = 0
var zzgobest = 0
var zzacent = 0
var zzexcp = 0
var zzclose = 0
var zzrrconf = 0
var zzsrconf = 0
var zzstate = 0

// optimizer arrays

var yypgo [][]int
var optst [][]int
var ggreed []int
var pgo []int

var maxspr int // maximum spread of any entry
var maxoff int // maximum offset into a array
var maxa int

// storage for information about the nonterminals

var pres [][][]int // vector of pointers to productions yielding each nonterminal
var pfirst []Lkset
var pempty []int // vector of nonterminals nontrivially deriving e

// random stuff picked out from between functions

var indebug = 0 // debugging flag for cpfir
var pidebug = 0 // debugging flag for putitem
var gsdebug = 0 // debugging flag for stagen
var cldebug = 0 // debugging flag for closure
var pkdebug = 0 // debugging flag for apack
var g2debug = 0 // debugging for go2gen
var adb = 0     // debugging for callopt

type Resrv struct {
	name  string
	value int
}

var resrv = []Resrv{
	{"binary", BINARY},
	{"left", LEFT},
	{"nonassoc", BINARY},
	{"prec", PREC},
	{"right", RIGHT},
	{"start", START},
	{"term", TERM},
	{"token", TERM},
	{"type", TYPEDEF},
	{"union", UNION},
	{"struct", UNION},
	{"error", ERROR},
}

type Error struct {
	lineno int
	tokens []string
	msg    string
}

var errors []Error

type Row struct {
	actions       []int
	defaultAction int
}

var stateTable []Row

var zznewstate = 0

const EOF = -1

func main() {

	setup() // initialize and read productions

	tbitset = (ntokens + 32) / 32
	cpres()  // make table of which productions yield a given nonterminal
	cempty() // make a table of which nonterminals can match the empty string
	cpfir()  // make a table of firsts of nonterminals

	stagen() // generate the states

	yypgo = make([][]int, nnonter+1)
	optst = make([][]int, nstate)
	output() // write the states and the tables
	go2out()

	hideprod()
	summary()

	callopt()

	others()

	exit(0)
}

func setup() {
	var j, ty int

	stderr = bufio.NewWriter(os.Stderr)
	foutput = nil

	flag.Parse()
	if flag.NArg() != 1 {
		usage()
	}
	if initialstacksize < 1 {
		// never set so cannot happen
		fmt.Fprintf(stderr, "yacc: stack size too small\n")
		usage()
	}
	yaccpar = strings.Replace(yaccpartext, "$$", prefix, -1)
	openup()

	fmt.Fprintf(ftable, "// Code generated by goyacc %s. DO NOT EDIT.\n", strings.Join(os.Args[1:], " "))

	defin(0, "$end")
	extval = PRIVATE // tokens start in unicode 'private use'
	defin(0, "error")
	defin(1, "$accept")
	defin(0, "$unk")
	i := 0

	t := gettok()

outer:
	for {
		switch t {
		default:
			errorf("syntax error tok=%v", t-PRIVATE)

		case MARK, ENDFILE:
			break outer

		case ';':
			// Do nothing.

		case START:
			t = gettok()
			if t != IDENTIFIER {
				errorf("bad %%start construction")
			}
			start = chfind(1, tokname)

		case ERROR:
			lno := lineno
			var tokens []string
			for {
				t := gettok()
				if t == ':' {
					break
				}
				if t != IDENTIFIER && t != IDENTCOLON {
					errorf("bad syntax in %%error")
				}
				tokens = append(tokens, tokname)
				if t == IDENTCOLON {
					break
				}
			}
			if gettok() != IDENTIFIER {
				errorf("bad syntax in %%error")
			}
			errors = append(errors, Error{lno, tokens, tokname})

		case TYPEDEF:
			t = gettok()
			if t != TYPENAME {
				errorf("bad syntax in %%type")
			}
			ty = numbval
			for {
				t = gettok()
				switch t {
				case IDENTIFIER:
					t = chfind(1, tokname)
					if t < NTBASE {
						j = TYPE(toklev[t])
						if j != 0 && j != ty {
							errorf("type redeclaration of token %s",
								tokset[t].name)
						} else {
							toklev[t] = SETTYPE(toklev[t], ty)
						}
					} else {
						j = nontrst[t-NTBASE].value
						if j != 0 && j != ty {
							errorf("type redeclaration of nonterminal %v",
								nontrst[t-NTBASE].name)
						} else {
							nontrst[t-NTBASE].value = ty
						}
					}
					continue

				case ',':
					continue
				}
				break
			}
			continue

		case UNION:
			cpyunion()

		case LEFT, BINARY, RIGHT, TERM:
			// nonzero means new prec. and assoc.
			lev := t - TERM
			if lev != 0 {
				i++
			}
			ty = 0

			// get identifiers so defined
			t = gettok()

			// there is a type defined
			if t == TYPENAME {
				ty = numbval
				t = gettok()
			}
			for {
				switch t {
				case ',':
					t = gettok()
					continue

				case ';':
					// Do nothing.

				case IDENTIFIER:
					j = chfind(0, tokname)
					if j >= NTBASE {
						errorf("%v defined earlier as nonterminal", tokname)
					}
					if lev != 0 {
						if ASSOC(toklev[j]) != 0 {
							errorf("redeclaration of precedence of %v", tokname)
						}
						toklev[j] = SETASC(toklev[j], lev)
						toklev[j] = SETPLEV(toklev[j], i)
					}
					if ty != 0 {
						if TYPE(toklev[j]) != 0 {
							errorf("redeclaration of type of %v", tokname)
						}
						toklev[j] = SETTYPE(toklev[j], ty)
					}
					t = gettok()
					if t == NUMBER {
						tokset[j].value = numbval
						t = gettok()
					}

					continue
				}
				break
			}
			continue

		case LCURLY:
			cpycode()
		}
		t = gettok()
	}

	if t == ENDFILE {
		errorf("unexpected EOF before %%")
	}

	fmt.Fprintf(fcode, "switch %snt {\n", prefix)

	moreprod()
	prdptr[0] = []int{NTBASE, start, 1, 0}

	nprod = 1
	curprod := make([]int, RULEINC)
	t = gettok()
	if t != IDENTCOLON {
		errorf("bad syntax on first rule")
	}

	if start == 0 {
		prdptr[0][1] = chfind(1, tokname)
	}

	// read rules
	// put into prdptr array in the format
	// target
	// followed by id's of terminals and non-terminals
	// followed by -nprod

	for t != MARK && t != ENDFILE {
		mem := 0

		// process a rule
		rlines[nprod] = lineno
		ruleline := lineno
		if t == '|' {
			curprod[mem] = prdptr[nprod-1][0]
			mem++
		} else if t == IDENTCOLON {
			curprod[mem] = chfind(1, tokname)
			if curprod[mem] < NTBASE {
				lerrorf(ruleline, "token illegal on LHS of grammar rule")
			}
			mem++
		} else {
			lerrorf(ruleline, "illegal rule: missing semicolon or | ?")
		}

		// read rule body
		t = gettok()
		for {
			for t == IDENTIFIER {
				curprod[mem] = chfind(1, tokname)
				if curprod[mem] < NTBASE {
					levprd[nprod] = toklev[curprod[mem]]
				}
				mem++
				if mem >= len(curprod) {
					ncurprod := make([]int, mem+RULEINC)
					copy(ncurprod, curprod)
					curprod = ncurprod
				}
				t = gettok()
			}
			if t == PREC {
				if gettok() != IDENTIFIER {
					lerrorf(ruleline, "illegal %%prec syntax")
				}
				j = chfind(2, tokname)
				if j >= NTBASE {
					lerrorf(ruleline, "nonterminal %s illegal after %%prec", nontrst[j-NTBASE].name)
				}
				levprd[nprod] = toklev[j]
				t = gettok()
			}
			if t != '=' {
				break
			}
			levprd[nprod] |= ACTFLAG
			fmt.Fprintf(fcode, "\n\tcase %v:", nprod)
			fmt.Fprintf(fcode, "\n\t\t%sDollar = %sS[%spt-%v:%spt+1]", prefix, prefix, prefix, mem-1, prefix)
			cpyact(curprod, mem)

			// action within rule...
			t = gettok()
			if t == IDENTIFIER {
				// make it a nonterminal
				j = chfind(1, fmt.Sprintf("$$%v", nprod))

				//
				// the current rule will become rule number nprod+1
				// enter null production for action
				//
				prdptr[nprod] = make([]int, 2)
				prdptr[nprod][0] = j
				prdptr[nprod][1] = -nprod

				// update the production information
				nprod++
				moreprod()
				levprd[nprod] = levprd[nprod-1] & ^ACTFLAG
				levprd[nprod-1] = ACTFLAG
				rlines[nprod] = lineno

				// make the action appear in the original rule
				curprod[mem] = j
				mem++
				if mem >= len(curprod) {
					ncurprod := make([]int, mem+RULEINC)
					copy(ncurprod, curprod)
					curprod = ncurprod
				}
			}
		}

		for t == ';' {
			t = gettok()
		}
		curprod[mem] = -nprod
		mem++

		// check that default action is reasonable
		if ntypes != 0 && (levprd[nprod]&ACTFLAG) == 0 &&
			nontrst[curprod[0]-NTBASE].value != 0 {
			// no explicit action, LHS has value
			tempty := curprod[1]
			if tempty < 0 {
				lerrorf(ruleline, "must return a value, since LHS has a type")
			}
			if tempty >= NTBASE {
				tempty = nontrst[tempty-NTBASE].value
			} else {
				tempty = TYPE(toklev[tempty])
			}
			if tempty != nontrst[curprod[0]-NTBASE].value {
				lerrorf(ruleline, "default action causes potential type clash")
			}
		}
		moreprod()
		prdptr[nprod] = make([]int, mem)
		copy(prdptr[nprod], curprod)
		nprod++
		moreprod()
		levprd[nprod] = 0
	}

	if TEMPSIZE < ntokens+nnonter+1 {
		errorf("too many tokens (%d) or non-terminals (%d)", ntokens, nnonter)
	}

	//
	// end of all rules
	// dump out the prefix code
	//

	fmt.Fprintf(fcode, "\n\t}")

	// put out non-literal terminals
	for i := TOKSTART; i <= ntokens; i++ {
		// non-literals
		if !tokset[i].noconst {
			fmt.Fprintf(ftable, "const %v = %v\n", tokset[i].name, tokset[i].value)
		}
	}

	// put out names of tokens
	ftable.WriteRune('\n')
	fmt.Fprintf(ftable, "var %sToknames = [...]string{\n", prefix)
	for i := 1; i <= ntokens; i++ {
		fmt.Fprintf(ftable, "\t%q,\n", tokset[i].name)
	}
	fmt.Fprintf(ftable, "}\n")

	// put out names of states.
	// commented out to avoid a huge table just for debugging.
	// re-enable to have the names in the binary.
	ftable.WriteRune('\n')
	fmt.Fprintf(ftable, "var %sStatenames = [...]string{\n", prefix)
	//	for i:=TOKSTART; i<=ntokens; i++ {
	//		fmt.Fprintf(ftable, "\t%q,\n", tokset[i].name);
	//	}
	fmt.Fprintf(ftable, "}\n")

	ftable.WriteRune('\n')
	fmt.Fprintf(ftable, "const %sEofCode = 1\n", prefix)
	fmt.Fprintf(ftable, "const %sErrCode = 2\n", prefix)
	fmt.Fprintf(ftable, "const %sInitialStackSize = %v\n", prefix, initialstacksize)

	//
	// copy any postfix code
	//
	if t == MARK {
		if !lflag {
			fmt.Fprintf(ftable, "\n//line %v:%v\n", infile, lineno)
		}
		for {
			c := getrune(finput)
			if c == EOF {
				break
			}
			ftable.WriteRune(c)
		}
	}
}

// allocate enough room to hold another production
func moreprod() {
	n := len(prdptr)
	if nprod >= n {
		nn := n + PRODINC
		aprod := make([][]int, nn)
		alevprd := make([]int, nn)
		arlines := make([]int, nn)

		copy(aprod, prdptr)
		copy(alevprd, levprd)
		copy(arlines, rlines)

		prdptr = aprod
		levprd = alevprd
		rlines = arlines
	}
}

// define s to be a terminal if nt==0
// or a nonterminal if nt==1
func defin(nt int, s string) int {
	val := 0
	if nt != 0 {
		nnonter++
		if nnonter >= len(nontrst) {
			anontrst := make([]Symb, nnonter+SYMINC)
			copy(anontrst, nontrst)
			nontrst = anontrst
		}
		nontrst[nnonter] = Symb{name: s}
		return NTBASE + nnonter
	}

	// must be a token
	ntokens++
	if ntokens >= len(tokset) {
		nn := ntokens + SYMINC
		atokset := make([]Symb, nn)
		atoklev := make([]int, nn)

		copy(atoklev, toklev)
		copy(atokset, tokset)

		tokset = atokset
		toklev = atoklev
	}
	tokset[ntokens].name = s
	toklev[ntokens] = 0

	// establish value for token
	// single character literal
	if s[0] == '\'' || s[0] == '"' {
		q, err := strconv.Unquote(s)
		if err != nil {
			errorf("invalid token: %s", err)
		}
		rq := []rune(q)
		if len(rq) != 1 {
			errorf("character token too long: %s", s)
		}
		val = int(rq[0])
		if val == 0 {
			errorf("token value 0 is illegal")
		}
		tokset[ntokens].noconst = true
	} else {
		val = extval
		extval++
		if s[0] == '$' {
			tokset[ntokens].noconst = true
		}
	}

	tokset[ntokens].value = val
	return ntokens
}

var peekline = 0

func gettok() int {
	var i int
	var match, c rune

	tokname = ""
	for {
		lineno += peekline
		peekline = 0
		c = getrune(finput)
		for c == ' ' || c == '\n' || c == '\t' || c == '\v' || c == '\r' {
			if c == '\n' {
				lineno++
			}
			c = getrune(finput)
		}

		// skip comment -- fix
		if c != '/' {
			break
		}
		lineno += skipcom()
	}

	switch c {
	case EOF:
		if tokflag {
			fmt.Printf(">>> ENDFILE %v\n", lineno)
		}
		return ENDFILE

	case '{':
		ungetrune(finput, c)
		if tokflag {
			fmt.Printf(">>> ={ %v\n", lineno)
		}
		return '='

	case '<':
		// get, and look up, a type name (union member name)
		c = getrune(finput)
		for c != '>' && c != EOF && c != '\n' {
			tokname += string(c)
			c = getrune(finput)
		}

		if c != '>' {
			errorf("unterminated < ... > clause")
		}

		for i = 1; i <= ntypes; i++ {
			if typeset[i] == tokname {
				numbval = i
				if tokflag {
					fmt.Printf(">>> TYPENAME old <%v> %v\n", tokname, lineno)
				}
				return TYPENAME
			}
		}
		ntypes++
		numbval = ntypes
		typeset[numbval] = tokname
		if tokflag {
			fmt.Printf(">>> TYPENAME new <%v> %v\n", tokname, lineno)
		}
		return TYPENAME

	case '"', '\'':
		match = c
		tokname = string(c)
		for {
			c = getrune(finput)
			if c == '\n' || c == EOF {
				errorf("illegal or missing ' or \"")
			}
			if c == '\\' {
				tokname += string('\\')
				c = getrune(finput)
			} else if c == match {
				if tokflag {
					fmt.Printf(">>> IDENTIFIER \"%v\" %v\n", tokname, lineno)
				}
				tokname += string(c)
				return IDENTIFIER
			}
			tokname += string(c)
		}

	case '%':
		c = getrune(finput)
		switch c {
		case '%':
			if tokflag {
				fmt.Printf(">>> MARK %%%% %v\n", lineno)
			}
			return MARK
		case '=':
			if tokflag {
				fmt.Printf(">>> PREC %%= %v\n", lineno)
			}
			return PREC
		case '{':
			if tokflag {
				fmt.Printf(">>> LCURLY %%{ %v\n", lineno)
			}
			return LCURLY
		}

		getword(c)
		// find a reserved word
		for i := range resrv {
			if tokname == resrv[i].name {
				if tokflag {
					fmt.Printf(">>> %%%v %v %v\n", tokname,
						resrv[i].value-PRIVATE, lineno)
				}
				return resrv[i].value
			}
		}
		errorf("invalid escape, or illegal reserved word: %v", tokname)

	case '0', '1', '2', '3', '4', '5', '6', '7', '8', '9':
		numbval = int(c - '0')
		for {
			c = getrune(finput)
			if !isdigit(c) {
				break
			}
			numbval = numbval*10 + int(c-'0')
		}
		ungetrune(finput, c)
		if tokflag {
			fmt.Printf(">>> NUMBER %v %v\n", numbval, lineno)
		}
		return NUMBER

	default:
		if isword(c) || c == '.' || c == '$' {
			getword(c)
			break
		}
		if tokflag {
			fmt.Printf(">>> OPERATOR %v %v\n", string(c), lineno)
		}
		return int(c)
	}

	// look ahead to distinguish IDENTIFIER from IDENTCOLON
	c = getrune(finput)
	for c == ' ' || c == '\t' || c == '\n' || c == '\v' || c == '\r' || c == '/' {
		if c == '\n' {
			peekline++
		}
		// look for comments
		if c == '/' {
			peekline += skipcom()
		}
		c = getrune(finput)
	}
	if c == ':' {
		if tokflag {
			fmt.Printf(">>> IDENTCOLON %v: %v\n", tokname, lineno)
		}
		return IDENTCOLON
	}

	ungetrune(finput, c)
	if tokflag {
		fmt.Printf(">>> IDENTIFIER %v %v\n", tokname, lineno)
	}
	return IDENTIFIER
}

func getword(c rune) {
	tokname = ""
	for isword(c) || isdigit(c) || c == '.' || c == '$' {
		tokname += string(c)
		c = getrune(finput)
	}
	ungetrune(finput, c)
}

// determine the type of a symbol
func fdtype(t int) int {
	var v int
	var s string

	if t >= NTBASE {
		v = nontrst[t-NTBASE].value
		s = nontrst[t-NTBASE].name
	} else {
		v = TYPE(toklev[t])
		s = tokset[t].name
	}
	if v <= 0 {
		errorf("must specify type for %v", s)
	}
	return v
}

func chfind(t int, s string) int {
	if s[0] == '"' || s[0] == '\'' {
		t = 0
	}
	for i := 0; i <= ntokens; i++ {
		if s == tokset[i].name {
			return i
		}
	}
	for i := 0; i <= nnonter; i++ {
		if s == nontrst[i].name {
			return NTBASE + i
		}
	}

	// cannot find name
	if t > 1 {
		errorf("%v should have been defined earlier", s)
	}
	return defin(t, s)
}

// copy the union declaration to the output, and the define file if present
func cpyunion() {

	if !lflag {
		fmt.Fprintf(ftable, "\n//line %v:%v\n", infile, lineno)
	}
	fmt.Fprintf(ftable, "type %sSymType struct", prefix)

	level := 0

out:
	for {
		c := getrune(finput)
		if c == EOF {
			errorf("EOF encountered while processing %%union")
		}
		ftable.WriteRune(c)
		switch c {
		case '\n':
			lineno++
		case '{':
			if level == 0 {
				fmt.Fprintf(ftable, "\n\tyys int")
			}
			level++
		case '}':
			level--
			if level == 0 {
				break out
			}
		}
	}
	fmt.Fprintf(ftable, "\n\n")
}

// saves code between %{ and %}
// adds an import for __fmt__ the first time
func cpycode() {
	lno := lineno

	c := getrune(finput)
	if c == '\n' {
		c = getrune(finput)
		lineno++
	}
	if !lflag {
		fmt.Fprintf(ftable, "\n//line %v:%v\n", infile, lineno)
	}
	// accumulate until %}
	code := make([]rune, 0, 1024)
	for c != EOF {
		if c == '%' {
			c = getrune(finput)
			if c == '}' {
				emitcode(code, lno+1)
				return
			}
			code = append(code, '%')
		}
		code = append(code, c)
		if c == '\n' {
			lineno++
		}
		c = getrune(finput)
	}
	lineno = lno
	errorf("eof before %%}")
}

// emits code saved up from between %{ and %}
// called by cpycode
// adds an import for __yyfmt__ after the package clause
func emitcode(code []rune, lineno int) {
	for i, line := range lines(code) {
		writecode(line)
		if !fmtImported && isPackageClause(line) {
			fmt.Fprintln(ftable, `import __yyfmt__ "fmt"`)
			if !lflag {
				fmt.Fprintf(ftable, "//line %v:%v\n\t\t", infile, lineno+i)
			}
			fmtImported = true
		}
	}
}

// does this line look like a package clause?  not perfect: might be confused by early comments.
func isPackageClause(line []rune) bool {
	line = skipspace(line)

	// must be big enough.
	if len(line) < len("package X\n") {
		return false
	}

	// must start with "package"
	for i, r := range []rune("package") {
		if line[i] != r {
			return false
		}
	}
	line = skipspace(line[len("package"):])

	// must have another identifier.
	if len(line) == 0 || (!unicode.IsLetter(line[0]) && line[0] != '_') {
		return false
	}
	for len(line) > 0 {
		if !unicode.IsLetter(line[0]) && !unicode.IsDigit(line[0]) && line[0] != '_' {
			break
		}
		line = line[1:]
	}
	line = skipspace(line)

	// eol, newline, or comment must follow
	if len(line) == 0 {
		return true
	}
	if line[0] == '\r' || line[0] == '\n' {
		return true
	}
	if len(line) >= 2 {
		return line[0] == '/' && (line[1] == '/' || line[1] == '*')
	}
	return false
}

// skip initial spaces
func skipspace(line []rune) []rune {
	for len(line) > 0 {
		if line[0] != ' ' && line[0] != '\t' {
			break
		}
		line = line[1:]
	}
	return line
}

// break code into lines
func lines(code []rune) [][]rune {
	l := make([][]rune, 0, 100)
	for len(code) > 0 {
		// one line per loop
		var i int
		for i = range code {
			if code[i] == '\n' {
				break
			}
		}
		l = append(l, code[:i+1])
		code = code[i+1:]
	}
	return l
}

// writes code to ftable
func writecode(code []rune) {
	for _, r := range code {
		ftable.WriteRune(r)
	}
}

// skip over comments
// skipcom is called after reading a '/'
func skipcom() int {
	c := getrune(finput)
	if c == '/' {
		for c != EOF {
			if c == '\n' {
				return 1
			}
			c = getrune(finput)
		}
		errorf("EOF inside comment")
		return 0
	}
	if c != '*' {
		errorf("illegal comment")
	}

	nl := 0 // lines skipped
	c = getrune(finput)

l1:
	switch c {
	case '*':
		c = getrune(finput)
		if c == '/' {
			break
		}
		goto l1

	case '\n':
		nl++
		fallthrough

	default:
		c = getrune(finput)
		goto l1
	}
	return nl
}

// copy action to the next ; or closing }
func cpyact(curprod []int, max int) {

	if !lflag {
		fmt.Fprintf(fcode, "\n//line %v:%v", infile, lineno)
	}
	fmt.Fprint(fcode, "\n\t\t")

	lno := lineno
	brac := 0

loop:
	for {
		c := getrune(finput)

	swt:
		switch c {
		case ';':
			if brac == 0 {
				fcode.WriteRune(c)
				return
			}

		case '{':
			brac++

		case '$':
			s := 1
			tok := -1
			c = getrune(finput)

			// type description
			if c == '<' {
				ungetrune(finput, c)
				if gettok() != TYPENAME {
					errorf("bad syntax on $<ident> clause")
				}
				tok = numbval
				c = getrune(finput)
			}
			if c == '$' {
				fmt.Fprintf(fcode, "%sVAL", prefix)

				// put out the proper tag...
				if ntypes != 0 {
					if tok < 0 {
						tok = fdtype(curprod[0])
					}
					fmt.Fprintf(fcode, ".%v", typeset[tok])
				}
				continue loop
			}
			if c == '-' {
				s = -s
				c = getrune(finput)
			}
			j := 0
			if isdigit(c) {
				for isdigit(c) {
					j = j*10 + int(c-'0')
					c = getrune(finput)
				}
				ungetrune(finput, c)
				j = j * s
				if j >= max {
					errorf("Illegal use of $%v", j)
				}
			} else if isword(c) || c == '.' {
				// look for $name
				ungetrune(finput, c)
				if gettok() != IDENTIFIER {
					errorf("$ must be followed by an identifier")
				}
				tokn := chfind(2, tokname)
				fnd := -1
				c = getrune(finput)
				if c != '@' {
					ungetrune(finput, c)
				} else if gettok() != NUMBER {
					errorf("@ must be followed by number")
				} else {
					fnd = numbval
				}
				for j = 1; j < max; j++ {
					if tokn == curprod[j] {
						fnd--
						if fnd <= 0 {
							break
						}
					}
				}
				if j >= max {
					errorf("$name or $name@number not found")
				}
			} else {
				fcode.WriteRune('$')
				if s < 0 {
					fcode.WriteRune('-')
				}
				ungetrune(finput, c)
				continue loop
			}
			fmt.Fprintf(fcode, "%sDollar[%v]", prefix, j)

			// put out the proper tag
			if ntypes != 0 {
				if j <= 0 && tok < 0 {
					errorf("must specify type of $%v", j)
				}
				if tok < 0 {
					tok = fdtype(curprod[j])
				}
				fmt.Fprintf(fcode, ".%v", typeset[tok])
			}
			continue loop

		case '}':
			brac--
			if brac != 0 {
				break
			}
			fcode.WriteRune(c)
			return

		case '/':
			nc := getrune(finput)
			if nc != '/' && nc != '*' {
				ungetrune(finput, nc)
				break
			}
			// a comment
			fcode.WriteRune(c)
			fcode.WriteRune(nc)
			c = getrune(finput)
			for c != EOF {
				switch {
				case c == '\n':
					lineno++
					if nc == '/' { // end of // comment
						break swt
					}
				case c == '*' && nc == '*': // end of /* comment?
					nnc := getrune(finput)
					if nnc == '/' {
						fcode.WriteRune('*')
						fcode.WriteRune('/')
						continue loop
					}
					ungetrune(finput, nnc)
				}
				fcode.WriteRune(c)
				c = getrune(finput)
			}
			errorf("EOF inside comment")

		case '\'', '"':
			// character string or constant
			match := c
			fcode.WriteRune(c)
			c = getrune(finput)
			for c != EOF {
				if c == '\\' {
					fcode.WriteRune(c)
					c = getrune(finput)
					if c == '\n' {
						lineno++
					}
				} else if c == match {
					break swt
				}
				if c == '\n' {
					errorf("newline in string or char const")
				}
				fcode.WriteRune(c)
				c = getrune(finput)
			}
			errorf("EOF in string or character constant")

		case EOF:
			lineno = lno
			errorf("action does not terminate")

		case '\n':
			fmt.Fprint(fcode, "\n\t")
			lineno++
			continue loop
		}

		fcode.WriteRune(c)
	}
}

func openup() {
	infile = flag.Arg(0)
	finput = open(infile)
	if finput == nil {
		errorf("cannot open %v", infile)
	}

	foutput = nil
	if vflag != "" {
		foutput = create(vflag)
		if foutput == nil {
			errorf("can't create file %v", vflag)
		}
	}

	ftable = nil
	if oflag == "" {
		oflag = "y.go"
	}
	ftable = create(oflag)
	if ftable == nil {
		errorf("can't create file %v", oflag)
	}

}

// return a pointer to the name of symbol i
func symnam(i int) string {
	var s string

	if i >= NTBASE {
		s = nontrst[i-NTBASE].name
	} else {
		s = tokset[i].name
	}
	return s
}

// set elements 0 through n-1 to c
func aryfil(v []int, n, c int) {
	for i := 0; i < n; i++ {
		v[i] = c
	}
}

// compute an array with the beginnings of productions yielding given nonterminals
// The array pres points to these lists
// the array pyield has the lists: the total size is only NPROD+1
func cpres() {
	pres = make([][][]int, nnonter+1)
	curres := make([][]int, nprod)

	if false {
		for j := 0; j <= nnonter; j++ {
			fmt.Printf("nnonter[%v] = %v\n", j, nontrst[j].name)
		}
		for j := 0; j < nprod; j++ {
			fmt.Printf("prdptr[%v][0] = %v+NTBASE\n", j, prdptr[j][0]-NTBASE)
		}
	}

	fatfl = 0 // make undefined symbols nonfatal
	for i := 0; i <= nnonter; i++ {
		n := 0
		c := i + NTBASE
		for j := 0; j < nprod; j++ {
			if prdptr[j][0] == c {
				curres[n] = prdptr[j][1:]
				n++
			}
		}
		if n == 0 {
			errorf("nonterminal %v not defined", nontrst[i].name)
			continue
		}
		pres[i] = make([][]int, n)
		copy(pres[i], curres)
	}
	fatfl = 1
	if nerrors != 0 {
		summary()
		exit(1)
	}
}

// mark nonterminals which derive the empty string
// also, look for nonterminals which don't derive any token strings
func cempty() {
	var i, p, np int
	var prd []int

	pempty = make([]int, nnonter+1)

	// first, use the array pempty to detect productions that can never be reduced
	// set pempty to WHONOWS
	aryfil(pempty, nnonter+1, WHOKNOWS)

	// now, look at productions, marking nonterminals which derive something
more:
	for {
		for i = 0; i < nprod; i++ {
			prd = prdptr[i]
			if pempty[prd[0]-NTBASE] != 0 {
				continue
			}
			np = len(prd) - 1
			for p = 1; p < np; p++ {
				if prd[p] >= NTBASE && pempty[prd[p]-NTBASE] == WHOKNOWS {
					break
				}
			}
			// production can be derived
			if p == np {
				pempty[prd[0]-NTBASE] = OK
				continue more
			}
		}
		break
	}

	// now, look at the nonterminals, to see if they are all OK
	for i = 0; i <= nnonter; i++ {
		// the added production rises or falls as the start symbol ...
		if i == 0 {
			continue
		}
		if pempty[i] != OK {
			fatfl = 0
			errorf("nonterminal %s never derives any token string", nontrst[i].name)
		}
	}

	if nerrors != 0 {
		summary()
		exit(1)
	}

	// now, compute the pempty array, to see which nonterminals derive the empty string
	// set pempty to WHOKNOWS
	aryfil(pempty, nnonter+1, WHOKNOWS)

	// loop as long as we keep finding empty nonterminals

again:
	for {
	next:
		for i = 1; i < nprod; i++ {
			// not known to be empty
			prd = prdptr[i]
			if pempty[prd[0]-NTBASE] != WHOKNOWS {
				continue
			}
			np = len(prd) - 1
			for p = 1; p < np; p++ {
				if prd[p] < NTBASE || pempty[prd[p]-NTBASE] != EMPTY {
					continue next
				}
			}

			// we have a nontrivially empty nonterminal
			pempty[prd[0]-NTBASE] = EMPTY

			// got one ... try for another
			continue again
		}
		return
	}
}

// compute an array with the first of nonterminals
func cpfir() {
	var s, n, p, np, ch, i int
	var curres [][]int
	var prd []int

	wsets = make([]Wset, nnonter+WSETINC)
	pfirst = make([]Lkset, nnonter+1)
	for i = 0; i <= nnonter; i++ {
		wsets[i].ws = mkset()
		pfirst[i] = mkset()
		curres = pres[i]
		n = len(curres)

		// initially fill the sets
		for s = 0; s < n; s++ {
			prd = curres[s]
			np = len(prd) - 1
			for p = 0; p < np; p++ {
				ch = prd[p]
				if ch < NTBASE {
					setbit(pfirst[i], ch)
					break
				}
				if pempty[ch-NTBASE] == 0 {
					break
				}
			}
		}
	}

	// now, reflect transitivity
	changes := 1
	for changes != 0 {
		changes = 0
		for i = 0; i <= nnonter; i++ {
			curres = pres[i]
			n = len(curres)
			for s = 0; s < n; s++ {
				prd = curres[s]
				np = len(prd) - 1
				for p = 0; p < np; p++ {
					ch = prd[p] - NTBASE
					if ch < 0 {
						break
					}
					changes |= setunion(pfirst[i], pfirst[ch])
					if pempty[ch] == 0 {
						break
					}
				}
			}
		}
	}

	if indebug == 0 {
		return
	}
	if foutput != nil {
		for i = 0; i <= nnonter; i++ {
			fmt.Fprintf(foutput, "\n%v: %v %v\n",
				nontrst[i].name, pfirst[i], pempty[i])
		}
	}
}

// generate the states
func stagen() {
	// initialize
	nstate = 0
	tstates = make([]int, ntokens+1)  // states generated by terminal gotos
	ntstates = make([]int, nnonter+1) // states generated by nonterminal gotos
	amem = make([]int, ACTSIZE)
	memp = 0

	clset = mkset()
	pstate[0] = 0
	pstate[1] = 0
	aryfil(clset, tbitset, 0)
	putitem(Pitem{prdptr[0], 0, 0, 0}, clset)
	tystate[0] = MUSTDO
	nstate = 1
	pstate[2] = pstate[1]

	//
	// now, the main state generation loop
	// first pass generates all of the states
	// later passes fix up lookahead
	// could be sped up a lot by remembering
	// results of the first pass rather than recomputing
	//
	first := 1
	for more := 1; more != 0; first = 0 {
		more = 0
		for i := 0; i < nstate; i++ {
			if tystate[i] != MUSTDO {
				continue
			}

			tystate[i] = DONE
			aryfil(temp1, nnonter+1, 0)

			// take state i, close it, and do gotos
			closure(i)

			// generate goto's
			for p := 0; p < cwp; p++ {
				pi := wsets[p]
				if pi.flag != 0 {
					continue
				}
				wsets[p].flag = 1
				c := pi.pitem.first
				if c <= 1 {
					if pstate[i+1]-pstate[i] <= p {
						tystate[i] = MUSTLOOKAHEAD
					}
					continue
				}

				// do a goto on c
				putitem(wsets[p].pitem, wsets[p].ws)
				for q := p + 1; q < cwp; q++ {
					// this item contributes to the goto
					if c == wsets[q].pitem.first {
						putitem(wsets[q].pitem, wsets[q].ws)
						wsets[q].flag = 1
					}
				}

				if c < NTBASE {
					state(c) // register new state
				} else {
					temp1[c-NTBASE] = state(c)
				}
			}

			if gsdebug != 0 && foutput != nil {
				fmt.Fprintf(foutput, "%v: ", i)
				for j := 0; j <= nnonter; j++ {
					if temp1[j] != 0 {
						fmt.Fprintf(foutput, "%v %v,", nontrst[j].name, temp1[j])
					}
				}
				fmt.Fprintf(foutput, "\n")
			}

			if first != 0 {
				indgo[i] = apack(temp1[1:], nnonter-1) - 1
			}

			more++
		}
	}
}

// generate the closure of state i
func closure(i int) {
	zzclose++

	// first, copy kernel of state i to wsets
	cwp = 0
	q := pstate[i+1]
	for p := pstate[i]; p < q; p++ {
		wsets[cwp].pitem = statemem[p].pitem
		wsets[cwp].flag = 1 // this item must get closed
		copy(wsets[cwp].ws, statemem[p].look)
		cwp++
	}

	// now, go through the loop, closing each item
	work := 1
	for work != 0 {
		work = 0
		for u := 0; u < cwp; u++ {
			if wsets[u].flag == 0 {
				continue
			}

			// dot is before c
			c := wsets[u].pitem.first
			if c < NTBASE {
				wsets[u].flag = 0
				// only interesting case is where . is before nonterminal
				continue
			}

			// compute the lookahead
			aryfil(clset, tbitset, 0)

			// find items involving c
			for v := u; v < cwp; v++ {
				if wsets[v].flag != 1 || wsets[v].pitem.first != c {
					continue
				}
				pi := wsets[v].pitem.prod
				ipi := wsets[v].pitem.off + 1

				wsets[v].flag = 0
				if nolook != 0 {
					continue
				}

				ch := pi[ipi]
				ipi++
				for ch > 0 {
					// terminal symbol
					if ch < NTBASE {
						setbit(clset, ch)
						break
					}

					// nonterminal symbol
					setunion(clset, pfirst[ch-NTBASE])
					if pempty[ch-NTBASE] == 0 {
						break
					}
					ch = pi[ipi]
					ipi++
				}
				if ch <= 0 {
					setunion(clset, wsets[v].ws)
				}
			}

			//
			// now loop over productions derived from c
			//
			curres := pres[c-NTBASE]
			n := len(curres)

		nexts:
			// initially fill the sets
			for s := 0; s < n; s++ {
				prd := curres[s]

				//
				// put these items into the closure
				// is the item there
				//
				for v := 0; v < cwp; v++ {
					// yes, it is there
					if wsets[v].pitem.off == 0 &&
						aryeq(wsets[v].pitem.prod, prd) != 0 {
						if nolook == 0 &&
							setunion(wsets[v].ws, clset) != 0 {
							wsets[v].flag = 1
							work = 1
						}
						continue nexts
					}
				}

				//  not there; make a new entry
				if cwp >= len(wsets) {
					awsets := make([]Wset, cwp+WSETINC)
					copy(awsets, wsets)
					wsets = awsets
				}
				wsets[cwp].pitem = Pitem{prd, 0, prd[0], -prd[len(prd)-1]}
				wsets[cwp].flag = 1
				wsets[cwp].ws = mkset()
				if nolook == 0 {
					work = 1
					copy(wsets[cwp].ws, clset)
				}
				cwp++
			}
		}
	}

	// have computed closure; flags are reset; return
	if cldebug != 0 && foutput != nil {
		fmt.Fprintf(foutput, "\nState %v, nolook = %v\n", i, nolook)
		for u := 0; u < cwp; u++ {
			if wsets[u].flag != 0 {
				fmt.Fprintf(foutput, "flag set\n")
			}
			wsets[u].flag = 0
			fmt.Fprintf(foutput, "\t%v", writem(wsets[u].pitem))
			prlook(wsets[u].ws)
			fmt.Fprintf(foutput, "\n")
		}
	}
}

// sorts last state,and sees if it equals earlier ones. returns state number
func state(c int) int {
	zzstate++
	p1 := pstate[nstate]
	p2 := pstate[nstate+1]
	if p1 == p2 {
		return 0 // null state
	}

	// sort the items
	var k, l int
	for k = p1 + 1; k < p2; k++ { // make k the biggest
		for l = k; l > p1; l-- {
			if statemem[l].pitem.prodno < statemem[l-1].pitem.prodno ||
				statemem[l].pitem.prodno == statemem[l-1].pitem.prodno &&
					statemem[l].pitem.off < statemem[l-1].pitem.off {
				s := statemem[l]
				statemem[l] = statemem[l-1]
				statemem[l-1] = s
			} else {
				break
			}
		}
	}

	size1 := p2 - p1 // size of state

	var i int
	if c >= NTBASE {
		i = ntstates[c-NTBASE]
	} else {
		i = tstates[c]
	}

look:
	for ; i != 0; i = mstates[i] {
		// get ith state
		q1 := pstate[i]
		q2 := pstate[i+1]
		size2 := q2 - q1
		if size1 != size2 {
			continue
		}
		k = p1
		for l = q1; l < q2; l++ {
			if aryeq(statemem[l].pitem.prod, statemem[k].pitem.prod) == 0 ||
				statemem[l].pitem.off != statemem[k].pitem.off {
				continue look
			}
			k++
		}

		// found it
		pstate[nstate+1] = pstate[nstate] // delete last state

		// fix up lookaheads
		if nolook != 0 {
			return i
		}
		k = p1
		for l = q1; l < q2; l++ {
			if setunion(statemem[l].look, statemem[k].look) != 0 {
				tystate[i] = MUSTDO
			}
			k++
		}
		return i
	}

	// state is new
	zznewstate++
	if nolook != 0 {
		errorf("yacc state/nolook error")
	}
	pstate[nstate+2] = p2
	if nstate+1 >= NSTATES {
		errorf("too many states")
	}
	if c >= NTBASE {
		mstates[nstate] = ntstates[c-NTBASE]
		ntstates[c-NTBASE] = nstate
	} else {
		mstates[nstate] = tstates[c]
		tstates[c] = nstate
	}
	tystate[nstate] = MUSTDO
	nstate++
	return nstate - 1
}

func putitem(p Pitem, set Lkset) {
	p.off++
	p.first = p.prod[p.off]

	if pidebug != 0 && foutput != nil {
		fmt.Fprintf(foutput, "putitem(%v), state %v\n", writem(p), nstate)
	}
	j := pstate[nstate+1]
	if j >= len(statemem) {
		asm := make([]Item, j+STATEINC)
		copy(asm, statemem)
		statemem = asm
	}
	statemem[j].pitem = p
	if nolook == 0 {
		s := mkset()
		copy(s, set)
		statemem[j].look = s
	}
	j++
	pstate[nstate+1] = j
}

// creates output string for item pointed to by pp
func writem(pp Pitem) string {
	var i int

	p := pp.prod
	q := chcopy(nontrst[prdptr[pp.prodno][0]-NTBASE].name) + ": "
	npi := pp.off

	pi := aryeq(p, prdptr[pp.prodno])

	for {
		c := ' '
		if pi == npi {
			c = '.'
		}
		q += string(c)

		i = p[pi]
		pi++
		if i <= 0 {
			break
		}
		q += chcopy(symnam(i))
	}

	// an item calling for a reduction
	i = p[npi]
	if i < 0 {
		q += fmt.Sprintf("    (%v)", -i)
	}

	return q
}

// pack state i from temp1 into amem
func apack(p []int, n int) int {
	//
	// we don't need to worry about checking because
	// we will only look at entries known to be there...
	// eliminate leading and trailing 0's
	//
	off := 0
	pp := 0
	for ; pp <= n && p[pp] == 0; pp++ {
		off--
	}

	// no actions
	if pp > n {
		return 0
	}
	for ; n > pp && p[n] == 0; n-- {
	}
	p = p[pp : n+1]

	// now, find a place for the elements from p to q, inclusive
	r := len(amem) - len(p)

nextk:
	for rr := 0; rr <= r; rr++ {
		qq := rr
		for pp = 0; pp < len(p); pp++ {
			if p[pp] != 0 {
				if p[pp] != amem[qq] && amem[qq] != 0 {
					continue nextk
				}
			}
			qq++
		}

		// we have found an acceptable k
		if pkdebug != 0 && foutput != nil {
			fmt.Fprintf(foutput, "off = %v, k = %v\n", off+rr, rr)
		}
		qq = rr
		for pp = 0; pp < len(p); pp++ {
			if p[pp] != 0 {
				if qq > memp {
					memp = qq
				}
				amem[qq] = p[pp]
			}
			qq++
		}
		if pkdebug != 0 && foutput != nil {
			for pp = 0; pp <= memp; pp += 10 {
				fmt.Fprintf(foutput, "\n")
				for qq = pp; qq <= pp+9; qq++ {
					fmt.Fprintf(foutput, "%v ", amem[qq])
				}
				fmt.Fprintf(foutput, "\n")
			}
		}
		return off + rr
	}
	errorf("no space in action table")
	return 0
}

// print the output for the states
func output() {
	var c, u, v int

	if !lflag {
		fmt.Fprintf(ftable, "\n//line yacctab:1")
	}
	var actions []int

	if len(errors) > 0 {
		stateTable = make([]Row, nstate)
	}

	noset := mkset()

	// output the stuff for state i
	for i := 0; i < nstate; i++ {
		nolook = 0
		if tystate[i] != MUSTLOOKAHEAD {
			nolook = 1
		}
		closure(i)

		// output actions
		nolook = 1
		aryfil(temp1, ntokens+nnonter+1, 0)
		for u = 0; u < cwp; u++ {
			c = wsets[u].pitem.first
			if c > 1 && c < NTBASE && temp1[c] == 0 {
				for v = u; v < cwp; v++ {
					if c == wsets[v].pitem.first {
						putitem(wsets[v].pitem, noset)
					}
				}
				temp1[c] = state(c)
			} else if c > NTBASE {
				c -= NTBASE
				if temp1[c+ntokens] == 0 {
					temp1[c+ntokens] = amem[indgo[i]+c]
				}
			}
		}
		if i == 1 {
			temp1[1] = ACCEPTCODE
		}

		// now, we have the shifts; look at the reductions
		lastred = 0
		for u = 0; u < cwp; u++ {
			c = wsets[u].pitem.first

			// reduction
			if c > 0 {
				continue
			}
			lastred = -c
			us := wsets[u].ws
			for k := 0; k <= ntokens; k++ {
				if bitset(us, k) == 0 {
					continue
				}
				if temp1[k] == 0 {
					temp1[k] = c
				} else if temp1[k] < 0 { // reduce/reduce conflict
					if foutput != nil {
						fmt.Fprintf(foutput,
							"\n %v: reduce/reduce conflict  (red'ns "+
								"%v and %v) on %v",
							i, -temp1[k], lastred, symnam(k))
					}
					if -temp1[k] > lastred {
						temp1[k] = -lastred
					}
					zzrrconf++
				} else {
					// potential shift/reduce conflict
					precftn(lastred, k, i)
				}
			}
		}
		actions = addActions(actions, i)
	}

	arrayOutColumns("Exca", actions, 2, false)
	fmt.Fprintf(ftable, "\n")
	ftable.WriteRune('\n')
	fmt.Fprintf(ftable, "const %sPrivate = %v\n", prefix, PRIVATE)
}

// decide a shift/reduce conflict by precedence.
// r is a rule number, t a token number
// the conflict is in state s
// temp1[t] is changed to reflect the action
func precftn(r, t, s int) {
	action := NOASC

	lp := levprd[r]
	lt := toklev[t]
	if PLEVEL(lt) == 0 || PLEVEL(lp) == 0 {
		// conflict
		if foutput != nil {
			fmt.Fprintf(foutput,
				"\n%v: shift/reduce conflict (shift %v(%v), red'n %v(%v)) on %v",
				s, temp1[t], PLEVEL(lt), r, PLEVEL(lp), symnam(t))
		}
		zzsrconf++
		return
	}
	if PLEVEL(lt) == PLEVEL(lp) {
		action = ASSOC(lt)
	} else if PLEVEL(lt) > PLEVEL(lp) {
		action = RASC // shift
	} else {
		action = LASC
	} // reduce
	switch action {
	case BASC: // error action
		temp1[t] = ERRCODE
	case LASC: // reduce
		temp1[t] = -r
	}
}

// output state i
// temp1 has the actions, lastred the default
func addActions(act []int, i int) []int {
	var p, p1 int

	// find the best choice for lastred
	lastred = 0
	ntimes := 0
	for j := 0; j <= ntokens; j++ {
		if temp1[j] >= 0 {
			continue
		}
		if temp1[j]+lastred == 0 {
			continue
		}
		// count the number of appearances of temp1[j]
		count := 0
		tred := -temp1[j]
		levprd[tred] |= REDFLAG
		for p = 0; p <= ntokens; p++ {
			if temp1[p]+tred == 0 {
				count++
			}
		}
		if count > ntimes {
			lastred = tred
			ntimes = count
		}
	}

	//
	// for error recovery, arrange that, if there is a shift on the
	// error recovery token, `error', that the default be the error action
	//
	if temp1[2] > 0 {
		lastred = 0
	}

	// clear out entries in temp1 which equal lastred
	// count entries in optst table
	n := 0
	for p = 0; p <= ntokens; p++ {
		p1 = temp1[p]
		if p1+lastred == 0 {
			temp1[p] = 0
			p1 = 0
		}
		if p1 > 0 && p1 != ACCEPTCODE && p1 != ERRCODE {
			n++
		}
	}

	wrstate(i)
	defact[i] = lastred
	flag := 0
	os := make([]int, n*2)
	n = 0
	for p = 0; p <= ntokens; p++ {
		p1 = temp1[p]
		if p1 != 0 {
			if p1 < 0 {
				p1 = -p1
			} else if p1 == ACCEPTCODE {
				p1 = -1
			} else if p1 == ERRCODE {
				p1 = 0
			} else {
				os[n] = p
				n++
				os[n] = p1
				n++
				zzacent++
				continue
			}
			if flag == 0 {
				act = append(act, -1, i)
			}
			flag++
			act = append(act, p, p1)
			zzexcp++
		}
	}
	if flag != 0 {
		defact[i] = -2
		act = append(act, -2, lastred)
	}
	optst[i] = os
	return act
}

// writes state i
func wrstate(i int) {
	var j0, j1, u int
	var pp, qq int

	if len(errors) > 0 {
		actions := append([]int(nil), temp1...)
		defaultAction := ERRCODE
		if lastred != 0 {
			defaultAction = -lastred
		}
		stateTable[i] = Row{actions, defaultAction}
	}

	if foutput == nil {
		return
	}
	fmt.Fprintf(foutput, "\nstate %v\n", i)
	qq = pstate[i+1]
	for pp = pstate[i]; pp < qq; pp++ {
		fmt.Fprintf(foutput, "\t%v\n", writem(statemem[pp].pitem))
	}
	if tystate[i] == MUSTLOOKAHEAD {
		// print out empty productions in closure
		for u = pstate[i+1] - pstate[i]; u < cwp; u++ {
			if wsets[u].pitem.first < 0 {
				fmt.Fprintf(foutput, "\t%v\n", writem(wsets[u].pitem))
			}
		}
	}

	// check for state equal to another
	for j0 = 0; j0 <= ntokens; j0++ {
		j1 = temp1[j0]
		if j1 != 0 {
			fmt.Fprintf(foutput, "\n\t%v  ", symnam(j0))

			// shift, error, or accept
			if j1 > 0 {
				if j1 == ACCEPTCODE {
					fmt.Fprintf(foutput, "accept")
				} else if j1 == ERRCODE {
					fmt.Fprintf(foutput, "error")
				} else {
					fmt.Fprintf(foutput, "shift %v", j1)
				}
			} else {
				fmt.Fprintf(foutput, "reduce %v (src line %v)", -j1, rlines[-j1])
			}
		}
	}

	// output the final production
	if lastred != 0 {
		fmt.Fprintf(foutput, "\n\t.  reduce %v (src line %v)\n\n",
			lastred, rlines[lastred])
	} else {
		fmt.Fprintf(foutput, "\n\t.  error\n\n")
	}

	// now, output nonterminal actions
	j1 = ntokens
	for j0 = 1; j0 <= nnonter; j0++ {
		j1++
		if temp1[j1] != 0 {
			fmt.Fprintf(foutput, "\t%v  goto %v\n", symnam(j0+NTBASE), temp1[j1])
		}
	}
}

// output the gotos for the nontermninals
func go2out() {
	for i := 1; i <= nnonter; i++ {
		go2gen(i)

		// find the best one to make default
		best := -1
		times := 0

		// is j the most frequent
		for j := 0; j < nstate; j++ {
			if tystate[j] == 0 {
				continue
			}
			if tystate[j] == best {
				continue
			}

			// is tystate[j] the most frequent
			count := 0
			cbest := tystate[j]
			for k := j; k < nstate; k++ {
				if tystate[k] == cbest {
					count++
				}
			}
			if count > times {
				best = cbest
				times = count
			}
		}

		// best is now the default entry
		zzgobest += times - 1
		n := 0
		for j := 0; j < nstate; j++ {
			if tystate[j] != 0 && tystate[j] != best {
				n++
			}
		}
		goent := make([]int, 2*n+1)
		n = 0
		for j := 0; j < nstate; j++ {
			if tystate[j] != 0 && tystate[j] != best {
				goent[n] = j
				n++
				goent[n] = tystate[j]
				n++
				zzgoent++
			}
		}

		// now, the default
		if best == -1 {
			best = 0
		}

		zzgoent++
		goent[n] = best
		yypgo[i] = goent
	}
}

// output the gotos for nonterminal c
func go2gen(c int) {
	var i, cc, p, q int

	// first, find nonterminals with gotos on c
	aryfil(temp1, nnonter+1, 0)
	temp1[c] = 1
	work := 1
	for work != 0 {
		work = 0
		for i = 0; i < nprod; i++ {
			// cc is a nonterminal with a goto on c
			cc = prdptr[i][1] - NTBASE
			if cc >= 0 && temp1[cc] != 0 {
				// thus, the left side of production i does too
				cc = prdptr[i][0] - NTBASE
				if temp1[cc] == 0 {
					work = 1
					temp1[cc] = 1
				}
			}
		}
	}

	// now, we have temp1[c] = 1 if a goto on c in closure of cc
	if g2debug != 0 && foutput != nil {
		fmt.Fprintf(foutput, "%v: gotos on ", nontrst[c].name)
		for i = 0; i <= nnonter; i++ {
			if temp1[i] != 0 {
				fmt.Fprintf(foutput, "%v ", nontrst[i].name)
			}
		}
		fmt.Fprintf(foutput, "\n")
	}

	// now, go through and put gotos into tystate
	aryfil(tystate, nstate, 0)
	for i = 0; i < nstate; i++ {
		q = pstate[i+1]
		for p = pstate[i]; p < q; p++ {
			cc = statemem[p].pitem.first
			if cc >= NTBASE {
				// goto on c is possible
				if temp1[cc-NTBASE] != 0 {
					tystate[i] = amem[indgo[i]+c]
					break
				}
			}
		}
	}
}

// in order to free up the mem and amem arrays for the optimizer,
// and still be able to output yyr1, etc., after the sizes of
// the action array is known, we hide the nonterminals
// derived by productions in levprd.
func hideprod() {
	nred := 0
	levprd[0] = 0
	for i := 1; i < nprod; i++ {
		if (levprd[i] & REDFLAG) == 0 {
			if foutput != nil {
				fmt.Fprintf(foutput, "Rule not reduced: %v\n",
					writem(Pitem{prdptr[i], 0, 0, i}))
			}
			fmt.Printf("rule %v never reduced\n", writem(Pitem{prdptr[i], 0, 0, i}))
			nred++
		}
		levprd[i] = prdptr[i][0] - NTBASE
	}
	if nred != 0 {
		fmt.Printf("%v rules never reduced\n", nred)
	}
}

func callopt() {
	var j, k, p, q, i int
	var v []int

	pgo = make([]int, nnonter+1)
	pgo[0] = 0
	maxoff = 0
	maxspr = 0
	for i = 0; i < nstate; i++ {
		k = 32000
		j = 0
		v = optst[i]
		q = len(v)
		for p = 0; p < q; p += 2 {
			if v[p] > j {
				j = v[p]
			}
			if v[p] < k {
				k = v[p]
			}
		}

		// nontrivial situation
		if k <= j {
			// j is now the range
			//			j -= k;			// call scj
			if k > maxoff {
				maxoff = k
			}
		}
		tystate[i] = q + 2*j
		if j > maxspr {
			maxspr = j
		}
	}

	// initialize ggreed table
	ggreed = make([]int, nnonter+1)
	for i = 1; i <= nnonter; i++ {
		ggreed[i] = 1
		j = 0

		// minimum entry index is always 0
		v = yypgo[i]
		q = len(v) - 1
		for p = 0; p < q; p += 2 {
			ggreed[i] += 2
			if v[p] > j {
				j = v[p]
			}
		}
		ggreed[i] = ggreed[i] + 2*j
		if j > maxoff {
			maxoff = j
		}
	}

	// now, prepare to put the shift actions into the amem array
	for i = 0; i < ACTSIZE; i++ {
		amem[i] = 0
	}
	maxa = 0
	for i = 0; i < nstate; i++ {
		if tystate[i] == 0 && adb > 1 {
			fmt.Fprintf(ftable, "State %v: null\n", i)
		}
		indgo[i] = yyFlag
	}

	i = nxti()
	for i != NOMORE {
		if i >= 0 {
			stin(i)
		} else {
			gin(-i)
		}
		i = nxti()
	}

	// print amem array
	if adb > 2 {
		for p = 0; p <= maxa; p += 10 {
			fmt.Fprintf(ftable, "%v  ", p)
			for i = 0; i < 10; i++ {
				fmt.Fprintf(ftable, "%v  ", amem[p+i])
			}
			ftable.WriteRune('\n')
		}
	}

	aoutput()
	osummary()
}

// finds the next i
func nxti() int {
	max := 0
	maxi := 0
	for i := 1; i <= nnonter; i++ {
		if ggreed[i] >= max {
			max = ggreed[i]
			maxi = -i
		}
	}
	for i := 0; i < nstate; i++ {
		if tystate[i] >= max {
			max = tystate[i]
			maxi = i
		}
	}
	if max == 0 {
		return NOMORE
	}
	return maxi
}

func gin(i int) {
	var s int

	// enter gotos on nonterminal i into array amem
	ggreed[i] = 0

	q := yypgo[i]
	nq := len(q) - 1

	// now, find amem place for it
nextgp:
	for p := 0; p < ACTSIZE; p++ {
		if amem[p] != 0 {
			continue
		}
		for r := 0; r < nq; r += 2 {
			s = p + q[r] + 1
			if s > maxa {
				maxa = s
				if maxa >= ACTSIZE {
					errorf("a array overflow")
				}
			}
			if amem[s] != 0 {
				continue nextgp
			}
		}

		// we have found amem spot
		amem[p] = q[nq]
		if p > maxa {
			maxa = p
		}
		for r := 0; r < nq; r += 2 {
			s = p + q[r] + 1
			amem[s] = q[r+1]
		}
		pgo[i] = p
		if adb > 1 {
			fmt.Fprintf(ftable, "Nonterminal %v, entry at %v\n", i, pgo[i])
		}
		return
	}
	errorf("cannot place goto %v\n", i)
}

func stin(i int) {
	var s int

	tystate[i] = 0

	// enter state i into the amem array
	q := optst[i]
	nq := len(q)

nextn:
	// find an acceptable place
	for n := -maxoff; n < ACTSIZE; n++ {
		flag := 0
		for r := 0; r < nq; r += 2 {
			s = q[r] + n
			if s < 0 || s > ACTSIZE {
				continue nextn
			}
			if amem[s] == 0 {
				flag++
			} else if amem[s] != q[r+1] {
				continue nextn
			}
		}

		// check the position equals another only if the states are identical
		for j := 0; j < nstate; j++ {
			if indgo[j] == n {

				// we have some disagreement
				if flag != 0 {
					continue nextn
				}
				if nq == len(optst[j]) {

					// states are equal
					indgo[i] = n
					if adb > 1 {
						fmt.Fprintf(ftable, "State %v: entry at"+
							"%v equals state %v\n",
							i, n, j)
					}
					return
				}

				// we have some disagreement
				continue nextn
			}
		}

		for r := 0; r < nq; r += 2 {
			s = q[r] + n
			if s > maxa {
				maxa = s
			}
			if amem[s] != 0 && amem[s] != q[r+1] {
				errorf("clobber of a array, pos'n %v, by %v", s, q[r+1])
			}
			amem[s] = q[r+1]
		}
		indgo[i] = n
		if adb > 1 {
			fmt.Fprintf(ftable, "State %v: entry at %v\n", i, indgo[i])
		}
		return
	}
	errorf("Error; failure to place state %v", i)
}

// this version is for limbo
// write out the optimized parser
func aoutput() {
	ftable.WriteRune('\n')
	fmt.Fprintf(ftable, "const %sLast = %v\n", prefix, maxa+1)
	arout("Act", amem, maxa+1)
	arout("Pact", indgo, nstate)
	arout("Pgo", pgo, nnonter+1)
}

// put out other arrays, copy the parsers
func others() {
	var i, j int

	arout("R1", levprd, nprod)
	aryfil(temp1, nprod, 0)

	//
	//yyr2 is the number of rules for each production
	//
	for i = 1; i < nprod; i++ {
		temp1[i] = len(prdptr[i]) - 2
	}
	arout("R2", temp1, nprod)

	aryfil(temp1, nstate, -1000)
	for i = 0; i <= ntokens; i++ {
		for j := tstates[i]; j != 0; j = mstates[j] {
			temp1[j] = i
		}
	}
	for i = 0; i <= nnonter; i++ {
		for j = ntstates[i]; j != 0; j = mstates[j] {
			temp1[j] = -i
		}
	}
	arout("Chk", temp1, nstate)
	arrayOutColumns("Def", defact[:nstate], 10, false)

	// put out token translation tables
	// table 1 has 0-256
	aryfil(temp1, 256, 0)
	c := 0
	for i = 1; i <= ntokens; i++ {
		j = tokset[i].value
		if j >= 0 && j < 256 {
			if temp1[j] != 0 {
				fmt.Print("yacc bug -- cannot have 2 different Ts with same value\n")
				fmt.Printf("	%s and %s\n", tokset[i].name, tokset[temp1[j]].name)
				nerrors++
			}
			temp1[j] = i
			if j > c {
				c = j
			}
		}
	}
	for i = 0; i <= c; i++ {
		if temp1[i] == 0 {
			temp1[i] = YYLEXUNK
		}
	}
	arout("Tok1", temp1, c+1)

	// table 2 has PRIVATE-PRIVATE+256
	aryfil(temp1, 256, 0)
	c = 0
	for i = 1; i <= ntokens; i++ {
		j = tokset[i].value - PRIVATE
		if j >= 0 && j < 256 {
			if temp1[j] != 0 {
				fmt.Print("yacc bug -- cannot have 2 different Ts with same value\n")
				fmt.Printf("	%s and %s\n", tokset[i].name, tokset[temp1[j]].name)
				nerrors++
			}
			temp1[j] = i
			if j > c {
				c = j
			}
		}
	}
	arout("Tok2", temp1, c+1)

	// table 3 has everything else
	ftable.WriteRune('\n')
	var v []int
	for i = 1; i <= ntokens; i++ {
		j = tokset[i].value
		if j >= 0 && j < 256 {
			continue
		}
		if j >= PRIVATE && j < 256+PRIVATE {
			continue
		}

		v = append(v, j, i)
	}
	v = append(v, 0)
	arout("Tok3", v, len(v))
	fmt.Fprintf(ftable, "\n")

	// Custom error messages.
	fmt.Fprintf(ftable, "\n")
	fmt.Fprintf(ftable, "var %sErrorMessages = [...]struct {\n", prefix)
	fmt.Fprintf(ftable, "\tstate int\n")
	fmt.Fprintf(ftable, "\ttoken int\n")
	fmt.Fprintf(ftable, "\tmsg   string\n")
	fmt.Fprintf(ftable, "}{\n")
	for _, error := range errors {
		lineno = error.lineno
		state, token := runMachine(error.tokens)
		fmt.Fprintf(ftable, "\t{%v, %v, %s},\n", state, token, error.msg)
	}
	fmt.Fprintf(ftable, "}\n")

	// copy parser text
	ch := getrune(finput)
	for ch != EOF {
		ftable.WriteRune(ch)
		ch = getrune(finput)
	}

	// copy yaccpar
	if !lflag {
		fmt.Fprintf(ftable, "\n//line yaccpar:1\n")
	}

	parts := strings.SplitN(yaccpar, prefix+"run()", 2)
	fmt.Fprintf(ftable, "%v", parts[0])
	ftable.Write(fcode.Bytes())
	fmt.Fprintf(ftable, "%v", parts[1])
}

func runMachine(tokens []string) (state, token int) {
	var stack []int
	i := 0
	token = -1

Loop:
	if token < 0 {
		token = chfind(2, tokens[i])
		i++
	}

	row := stateTable[state]

	c := token
	if token >= NTBASE {
		c = token - NTBASE + ntokens
	}
	action := row.actions[c]
	if action == 0 {
		action = row.defaultAction
	}

	switch {
	case action == ACCEPTCODE:
		errorf("tokens are accepted")
		return
	case action == ERRCODE:
		if token >= NTBASE {
			errorf("error at non-terminal token %s", symnam(token))
		}
		return
	case action > 0:
		// Shift to state action.
		stack = append(stack, state)
		state = action
		token = -1
		goto Loop
	default:
		// Reduce by production -action.
		prod := prdptr[-action]
		if rhsLen := len(prod) - 2; rhsLen > 0 {
			n := len(stack) - rhsLen
			state = stack[n]
			stack = stack[:n]
		}
		if token >= 0 {
			i--
		}
		token = prod[0]
		goto Loop
	}
}

func minMax(v []int) (min, max int) {
	if len(v) == 0 {
		return
	}
	min = v[0]
	max = v[0]
	for _, i := range v {
		if i < min {
			min = i
		}
		if i > max {
			max = i
		}
	}
	return
}

// return the smaller integral base type to store the values in v
func minType(v []int, allowUnsigned bool) (typ string) {
	typ = "int"
	typeLen := 8
	min, max := minMax(v)
	checkType := func(name string, size, minType, maxType int) {
		if min >= minType && max <= maxType && typeLen > size {
			typ = name
			typeLen = size
		}
	}
	checkType("int32", 4, math.MinInt32, math.MaxInt32)
	checkType("int16", 2, math.MinInt16, math.MaxInt16)
	checkType("int8", 1, math.MinInt8, math.MaxInt8)
	if allowUnsigned {
		// Do not check for uint32, not worth and won't compile on 32 bit systems
		checkType("uint16", 2, 0, math.MaxUint16)
		checkType("uint8", 1, 0, math.MaxUint8)
	}
	return
}

func arrayOutColumns(s string, v []int, columns int, allowUnsigned bool) {
	s = prefix + s
	ftable.WriteRune('\n')
	minType := minType(v, allowUnsigned)
	fmt.Fprintf(ftable, "var %v = [...]%s{", s, minType)
	for i, val := range v {
		if i%columns == 0 {
			fmt.Fprintf(ftable, "\n\t")
		} else {
			ftable.WriteRune(' ')
		}
		fmt.Fprintf(ftable, "%d,", val)
	}
	fmt.Fprintf(ftable, "\n}\n")
}

func arout(s string, v []int, n int) {
	arrayOutColumns(s, v[:n], 10, true)
}

// output the summary on y.output
func summary() {
	if foutput != nil {
		fmt.Fprintf(foutput, "\n%v terminals, %v nonterminals\n", ntokens, nnonter+1)
		fmt.Fprintf(foutput, "%v grammar rules, %v/%v states\n", nprod, nstate, NSTATES)
		fmt.Fprintf(foutput, "%v shift/reduce, %v reduce/reduce conflicts reported\n", zzsrconf, zzrrconf)
		fmt.Fprintf(foutput, "%v working sets used\n", len(wsets))
		fmt.Fprintf(foutput, "memory: parser %v/%v\n", memp, ACTSIZE)
		fmt.Fprintf(foutput, "%v extra closures\n", zzclose-2*nstate)
		fmt.Fprintf(foutput, "%v shift entries, %v exceptions\n", zzacent, zzexcp)
		fmt.Fprintf(foutput, "%v goto entries\n", zzgoent)
		fmt.Fprintf(foutput, "%v entries saved by goto default\n", zzgobest)
	}
	if zzsrconf != 0 || zzrrconf != 0 {
		fmt.Printf("\nconflicts: ")
		if zzsrconf != 0 {
			fmt.Printf("%v shift/reduce", zzsrconf)
		}
		if zzsrconf != 0 && zzrrconf != 0 {
			fmt.Printf(", ")
		}
		if zzrrconf != 0 {
			fmt.Printf("%v reduce/reduce", zzrrconf)
		}
		fmt.Printf("\n")
	}
}

// write optimizer summary
func osummary() {
	if foutput == nil {
		return
	}
	i := 0
	for p := maxa; p >= 0; p-- {
		if amem[p] == 0 {
			i++
		}
	}

	fmt.Fprintf(foutput, "Optimizer space used: output %v/%v\n", maxa+1, ACTSIZE)
	fmt.Fprintf(foutput, "%v table entries, %v zero\n", maxa+1, i)
	fmt.Fprintf(foutput, "maximum spread: %v, maximum offset: %v\n", maxspr, maxoff)
}

// copies and protects "'s in q
func chcopy(q string) string {
	s := ""
	i := 0
	j := 0
	for i = 0; i < len(q); i++ {
		if q[i] == '"' {
			s += q[j:i] + "\\"
			j = i
		}
	}
	return s + q[j:i]
}

func usage() {
	fmt.Fprintf(stderr, "usage: yacc [-o output] [-v parsetable] input\n")
	exit(1)
}

func bitset(set Lkset, bit int) int { return set[bit>>5] & (1 << uint(bit&31)) }

func setbit(set Lkset, bit int) { set[bit>>5] |= (1 << uint(bit&31)) }

func mkset() Lkset { return make([]int, tbitset) }

// set a to the union of a and b
// return 1 if b is not a subset of a, 0 otherwise
func setunion(a, b []int) int {
	sub := 0
	for i := 0; i < tbitset; i++ {
		x := a[i]
		y := x | b[i]
		a[i] = y
		if y != x {
			sub = 1
		}
	}
	return sub
}

func prlook(p Lkset) {
	if p == nil {
		fmt.Fprintf(foutput, "\tNULL")
		return
	}
	fmt.Fprintf(foutput, " { ")
	for j := 0; j <= ntokens; j++ {
		if bitset(p, j) != 0 {
			fmt.Fprintf(foutput, "%v ", symnam(j))
		}
	}
	fmt.Fprintf(foutput, "}")
}

// utility routines
var peekrune rune

func isdigit(c rune) bool { return c >= '0' && c <= '9' }

func isword(c rune) bool {
	return c >= 0xa0 || c == '_' || (c >= 'a' && c <= 'z') || (c >= 'A' && c <= 'Z')
}

// return 1 if 2 arrays are equal
// return 0 if not equal
func aryeq(a []int, b []int) int {
	n := len(a)
	if len(b) != n {
		return 0
	}
	for ll := 0; ll < n; ll++ {
		if a[ll] != b[ll] {
			return 0
		}
	}
	return 1
}

func getrune(f *bufio.Reader) rune {
	var r rune

	if peekrune != 0 {
		if peekrune == EOF {
			return EOF
		}
		r = peekrune
		peekrune = 0
		return r
	}

	c, n, err := f.ReadRune()
	if n == 0 {
		return EOF
	}
	if err != nil {
		errorf("read error: %v", err)
	}
	//fmt.Printf("rune = %v n=%v\n", string(c), n);
	return c
}

func ungetrune(f *bufio.Reader, c rune) {
	if f != finput {
		panic("ungetc - not finput")
	}
	if peekrune != 0 {
		panic("ungetc - 2nd unget")
	}
	peekrune = c
}

func open(s string) *bufio.Reader {
	fi, err := os.Open(s)
	if err != nil {
		errorf("error opening %v: %v", s, err)
	}
	//fmt.Printf("open %v\n", s);
	return bufio.NewReader(fi)
}

func create(s string) *bufio.Writer {
	fo, err := os.Create(s)
	if err != nil {
		errorf("error creating %v: %v", s, err)
	}
	//fmt.Printf("create %v mode %v\n", s);
	return bufio.NewWriter(fo)
}

// write out error comment
func lerrorf(lineno int, s string, v ...interface{}) {
	nerrors++
	fmt.Fprintf(stderr, s, v...)
	fmt.Fprintf(stderr, ": %v:%v\n", infile, lineno)
	if fatfl != 0 {
		summary()
		exit(1)
	}
}

func errorf(s string, v ...interface{}) {
	lerrorf(lineno, s, v...)
}

func exit(status int) {
	if ftable != nil {
		ftable.Flush()
		ftable = nil
		gofmt()
	}
	if foutput != nil {
		foutput.Flush()
		foutput = nil
	}
	if stderr != nil {
		stderr.Flush()
		stderr = nil
	}
	os.Exit(status)
}

func gofmt() {
	src, err := os.ReadFile(oflag)
	if err != nil {
		return
	}
	src, err = format.Source(src)
	if err != nil {
		return
	}
	os.WriteFile(oflag, src, 0666)
}

var yaccpar string // will be processed version of yaccpartext: s/$$/prefix/g
var yaccpartext = `
/*	parser for yacc output	*/

var (
	$$Debug        = 0
	$$ErrorVerbose = false
)

type $$Lexer interface {
	Lex(lval *$$SymType) int
	Error(s string)
}

type $$Parser interface {
	Parse($$Lexer) int
	Lookahead() int
}

type $$ParserImpl struct {
	lval  $$SymType
	stack [$$InitialStackSize]$$SymType
	char  int
}

func (p *$$ParserImpl) Lookahead() int {
	return p.char
}

func $$NewParser() $$Parser {
	return &$$ParserImpl{}
}

const $$Flag = -1000

func $$Tokname(c int) string {
	if c >= 1 && c-1 < len($$Toknames) {
		if $$Toknames[c-1] != "" {
			return $$Toknames[c-1]
		}
	}
	return __yyfmt__.Sprintf("tok-%v", c)
}

func $$Statname(s int) string {
	if s >= 0 && s < len($$Statenames) {
		if $$Statenames[s] != "" {
			return $$Statenames[s]
		}
	}
	return __yyfmt__.Sprintf("state-%v", s)
}

func $$ErrorMessage(state, lookAhead int) string {
	const TOKSTART = 4

	if !$$ErrorVerbose {
		return "syntax error"
	}

	for _, e := range $$ErrorMessages {
		if e.state == state && e.token == lookAhead {
			return "syntax error: " + e.msg
		}
	}

	res := "syntax error: unexpected " + $$Tokname(lookAhead)

	// To match Bison, suggest at most four expected tokens.
	expected := make([]int, 0, 4)

	// Look for shiftable tokens.
	base := int($$Pact[state])
	for tok := TOKSTART; tok-1 < len($$Toknames); tok++ {
		if n := base + tok; n >= 0 && n < $$Last && int($$Chk[int($$Act[n])]) == tok {
			if len(expected) == cap(expected) {
				return res
			}
			expected = append(expected, tok)
		}
	}

	if $$Def[state] == -2 {
		i := 0
		for $$Exca[i] != -1 || int($$Exca[i+1]) != state {
			i += 2
		}

		// Look for tokens that we accept or reduce.
		for i += 2; $$Exca[i] >= 0; i += 2 {
			tok := int($$Exca[i])
			if tok < TOKSTART || $$Exca[i+1] == 0 {
				continue
			}
			if len(expected) == cap(expected) {
				return res
			}
			expected = append(expected, tok)
		}

		// If the default action is to accept or reduce, give up.
		if $$Exca[i+1] != 0 {
			return res
		}
	}

	for i, tok := range expected {
		if i == 0 {
			res += ", expecting "
		} else {
			res += " or "
		}
		res += $$Tokname(tok)
	}
	return res
}

func $$lex1(lex $$Lexer, lval *$$SymType) (char, token int) {
	token = 0
	char = lex.Lex(lval)
	if char <= 0 {
		token = int($$Tok1[0])
		goto out
	}
	if char < len($$Tok1) {
		token = int($$Tok1[char])
		goto out
	}
	if char >= $$Private {
		if char < $$Private+len($$Tok2) {
			token = int($$Tok2[char-$$Private])
			goto out
		}
	}
	for i := 0; i < len($$Tok3); i += 2 {
		token = int($$Tok3[i+0])
		if token == char {
			token = int($$Tok3[i+1])
			goto out
		}
	}

out:
	if token == 0 {
		token = int($$Tok2[1]) /* unknown char */
	}
	if $$Debug >= 3 {
		__yyfmt__.Printf("lex %s(%d)\n", $$Tokname(token), uint(char))
	}
	return char, token
}

func $$Parse($$lex $$Lexer) int {
	return $$NewParser().Parse($$lex)
}

func ($$rcvr *$$ParserImpl) Parse($$lex $$Lexer) int {
	var $$n int
	var $$VAL $$SymType
	var $$Dollar []$$SymType
	_ = $$Dollar // silence set and not used
	$$S := $$rcvr.stack[:]

	Nerrs := 0   /* number of errors */
	Errflag := 0 /* error recovery flag */
	$$state := 0
	$$rcvr.char = -1
	$$token := -1 // $$rcvr.char translated into internal numbering
	defer func() {
		// Make sure we report no lookahead when not parsing.
		$$state = -1
		$$rcvr.char = -1
		$$token = -1
	}()
	$$p := -1
	goto $$stack

ret0:
	return 0

ret1:
	return 1

$$stack:
	/* put a state and value onto the stack */
	if $$Debug >= 4 {
		__yyfmt__.Printf("char %v in %v\n", $$Tokname($$token), $$Statname($$state))
	}

	$$p++
	if $$p >= len($$S) {
		nyys := make([]$$SymType, len($$S)*2)
		copy(nyys, $$S)
		$$S = nyys
	}
	$$S[$$p] = $$VAL
	$$S[$$p].yys = $$state

$$newstate:
	$$n = int($$Pact[$$state])
	if $$n <= $$Flag {
		goto $$default /* simple state */
	}
	if $$rcvr.char < 0 {
		$$rcvr.char, $$token = $$lex1($$lex, &$$rcvr.lval)
	}
	$$n += $$token
	if $$n < 0 || $$n >= $$Last {
		goto $$default
	}
	$$n = int($$Act[$$n])
	if int($$Chk[$$n]) == $$token { /* valid shift */
		$$rcvr.char = -1
		$$token = -1
		$$VAL = $$rcvr.lval
		$$state = $$n
		if Errflag > 0 {
			Errflag--
		}
		goto $$stack
	}

$$default:
	/* default state action */
	$$n = int($$Def[$$state])
	if $$n == -2 {
		if $$rcvr.char < 0 {
			$$rcvr.char, $$token = $$lex1($$lex, &$$rcvr.lval)
		}

		/* look through exception table */
		xi := 0
		for {
			if $$Exca[xi+0] == -1 && int($$Exca[xi+1]) == $$state {
				break
			}
			xi += 2
		}
		for xi += 2; ; xi += 2 {
			$$n = int($$Exca[xi+0])
			if $$n < 0 || $$n == $$token {
				break
			}
		}
		$$n = int($$Exca[xi+1])
		if $$n < 0 {
			goto ret0
		}
	}
	if $$n == 0 {
		/* error ... attempt to resume parsing */
		switch Errflag {
		case 0: /* brand new error */
			$$lex.Error($$ErrorMessage($$state, $$token))
			Nerrs++
			if $$Debug >= 1 {
				__yyfmt__.Printf("%s", $$Statname($$state))
				__yyfmt__.Printf(" saw %s\n", $$Tokname($$token))
			}
			fallthrough

		case 1, 2: /* incompletely recovered error ... try again */
			Errflag = 3

			/* find a state where "error" is a legal shift action */
			for $$p >= 0 {
				$$n = int($$Pact[$$S[$$p].yys]) + $$ErrCode
				if $$n >= 0 && $$n < $$Last {
					$$state = int($$Act[$$n]) /* simulate a shift of "error" */
					if int($$Chk[$$state]) == $$ErrCode {
						goto $$stack
					}
				}

				/* the current p has no shift on "error", pop stack */
				if $$Debug >= 2 {
					__yyfmt__.Printf("error recovery pops state %d\n", $$S[$$p].yys)
				}
				$$p--
			}
			/* there is no state on the stack with an error shift ... abort */
			goto ret1

		case 3: /* no shift yet; clobber input char */
			if $$Debug >= 2 {
				__yyfmt__.Printf("error recovery discards %s\n", $$Tokname($$token))
			}
			if $$token == $$EofCode {
				goto ret1
			}
			$$rcvr.char = -1
			$$token = -1
			goto $$newstate /* try again in the same state */
		}
	}

	/* reduction by production $$n */
	if $$Debug >= 2 {
		__yyfmt__.Printf("reduce %v in:\n\t%v\n", $$n, $$Statname($$state))
	}

	$$nt := $$n
	$$pt := $$p
	_ = $$pt // guard against "declared and not used"

	$$p -= int($$R2[$$n])
	// $$p is now the index of $0. Perform the default action. Iff the
	// reduced production is ε, $1 is possibly out of range.
	if $$p+1 >= len($$S) {
		nyys := make([]$$SymType, len($$S)*2)
		copy(nyys, $$S)
		$$S = nyys
	}
	$$VAL = $$S[$$p+1]

	/* consult goto table to find next state */
	$$n = int($$R1[$$n])
	$$g := int($$Pgo[$$n])
	$$j := $$g + $$S[$$p].yys + 1

	if $$j >= $$Last {
		$$state = int($$Act[$$g])
	} else {
		$$state = int($$Act[$$j])
		if int($$Chk[$$state]) != -$$n {
			$$state = int($$Act[$$g])
		}
	}
	// dummy call; replaced with literal code
	$$run()
	goto $$stack /* stack new state and value */
}
`
