module goyacc

go 1.23
