package main

import (
	"fmt"
	"sort"
	"strings"

	"github.com/danos/mgmterror"
)

// ---- C16 (second stream): patterns, unions, identityrefs, what a rejection carries ----------------------

var reAlpha = []string{"a", "b", "c", "0", "1", "é"}

func genRe(r *Rng, depth int) map[string]any {
	k := r.Intn(100)
	if depth <= 0 && k >= 45 {
		k = r.Intn(45)
	}
	switch {
	case k < 25:
		return map[string]any{"o": "chr", "c": pick(r, reAlpha)}
	case k < 32:
		return map[string]any{"o": "any"}
	case k < 45:
		var rs []any
		for i := 0; i < 1+r.Intn(2); i++ {
			p := pick(r, [][2]string{{"a", "c"}, {"a", "a"}, {"0", "1"}, {"b", "c"}, {"0", "9"}, {"a", "z"}})
			rs = append(rs, []any{p[0], p[1]})
		}
		return map[string]any{"o": "cls", "neg": r.Chance(25), "rs": rs}
	case k < 65:
		return map[string]any{"o": "seq", "a": genRe(r, depth-1), "b": genRe(r, depth-1)}
	case k < 80:
		return map[string]any{"o": "alt", "a": genRe(r, depth-1), "b": genRe(r, depth-1)}
	case k < 90:
		return map[string]any{"o": "star", "a": genRe(r, depth-1)}
	case k < 95:
		return map[string]any{"o": "plus", "a": genRe(r, depth-1)}
	default:
		return map[string]any{"o": "opt", "a": genRe(r, depth-1)}
	}
}

func renderRe(re map[string]any, ctx int) string { // ctx: 0 top/alt operand, 1 seq operand, 2 postfix operand
	switch cstr(re, "o") {
	case "chr":
		return cstr(re, "c")
	case "any":
		return "."
	case "cls":
		s := "["
		if cbool(re, "neg") {
			s += "^"
		}
		for _, p := range carr(re, "rs") {
			pp := p.([]any)
			if pp[0] == pp[1] {
				s += pp[0].(string)
			} else {
				s += pp[0].(string) + "-" + pp[1].(string)
			}
		}
		return s + "]"
	case "seq":
		s := renderRe(cmap(re, "a"), 1) + renderRe(cmap(re, "b"), 1)
		if ctx == 2 {
			return "(" + s + ")"
		}
		return s
	case "alt":
		s := renderRe(cmap(re, "a"), 0) + "|" + renderRe(cmap(re, "b"), 0)
		if ctx != 0 {
			return "(" + s + ")"
		}
		return s
	case "star", "plus", "opt":
		s := renderRe(cmap(re, "a"), 2) + map[string]string{"star": "*", "plus": "+", "opt": "?"}[cstr(re, "o")]
		if ctx == 2 {
			return "(" + s + ")" // a quantifier applies to an atom, not to a quantified piece
		}
		return s
	}
	return ""
}

// strings the pattern language is probed with: short words over the alphabet
func reProbes(r *Rng, add func(string)) {
	for _, s := range []string{"", "a", "b", "ab", "ba", "aa", "abc", "0", "01", "a0", "é", "aé", "ééé", "c", "cc", "abab", "x", "ax", "xa", "a b"} {
		add(s)
	}
	for i := 0; i < 10; i++ {
		n := r.Intn(5)
		var b strings.Builder
		for j := 0; j < n; j++ {
			b.WriteString(pick(r, reAlpha))
		}
		add(b.String())
	}
}

type vgen struct {
	r      *Rng
	idents []map[string]any
	msgs   map[string]bool
	nmsg   int
}

func (g *vgen) ei(lv map[string]any) {
	if g.r.Chance(40) {
		g.nmsg++
		m := fmt.Sprintf("custom message %d", g.nmsg)
		lv["msg"] = m
		g.msgs[m] = true
	}
	if g.r.Chance(40) {
		g.nmsg++
		lv["tag"] = fmt.Sprintf("tag-%d", g.nmsg)
	}
}

func (g *vgen) genChain(depth int) map[string]any {
	r := g.r
	base := pick(r, []string{"int8", "int32", "uint8", "uint64", "int64", "decimal64:2", "string", "string", "string", "boolean", "empty", "enumeration:a:b:c-d"})
	nlev := 1 + r.Intn(3)
	var levels []any
	for i := 0; i < nlev; i++ {
		lv := map[string]any{}
		isStr := base == "string"
		numeric := strings.HasPrefix(base, "int") || strings.HasPrefix(base, "uint") || strings.HasPrefix(base, "decimal")
		if (isStr || numeric) && r.Chance(50) {
			// nested, always-valid restrictions: level i narrows level i-1
			if isStr {
				lv["restr"] = []any{[]any{fmt.Sprint(i), fmt.Sprint(6 - i)}}
				lv["isLength"] = true
			} else if strings.HasPrefix(base, "decimal") {
				lv["restr"] = []any{[]any{fmt.Sprintf("%d.5", i), fmt.Sprintf("%d.25", 40-i)}}
				lv["isLength"] = false
			} else {
				lv["restr"] = []any{[]any{fmt.Sprint(1 + i), fmt.Sprint(20 - i)}, []any{fmt.Sprint(30 + i), fmt.Sprint(50 - i)}}
				lv["isLength"] = false
			}
			g.ei(lv)
		}
		if isStr && r.Chance(60) {
			var pats []any
			for j := 0; j < 1+r.Intn(2); j++ {
				re := genRe(r, 3)
				p := map[string]any{"re": re, "src": renderRe(re, 0)}
				g.ei(p)
				pats = append(pats, p)
			}
			lv["pats"] = pats
		}
		levels = append(levels, lv)
	}
	return map[string]any{"t": "chain", "base": base, "levels": levels}
}

func (g *vgen) genType(depth int) map[string]any {
	r := g.r
	k := r.Intn(100)
	switch {
	case k < 55 || depth <= 0 && k < 80:
		return g.genChain(depth)
	case k < 80:
		var ms []any
		for i := 0; i < 1+r.Intn(3); i++ {
			ms = append(ms, g.genType(depth-1))
		}
		return map[string]any{"t": "union", "members": ms}
	default:
		id := pick(r, g.idents)
		return map[string]any{"t": "identityref", "base": cstr(id, "mod") + ":" + cstr(id, "name")}
	}
}

func genYValsCase(r *Rng) Case {
	g := &vgen{r: r, msgs: map[string]bool{}}
	// identity forest over three modules: ma <- mb <- mc (mc holds the leaf)
	mods := []string{"ma", "mb", "mc"}
	rank := map[string]int{"ma": 0, "mb": 1, "mc": 2}
	n := 3 + r.Intn(7)
	for i := 0; i < n; i++ {
		m := pick(r, mods)
		// local names may coincide between modules: an identity is identified by module and name
		nm := fmt.Sprintf("i%d", r.Intn(4))
		for _, o := range g.idents {
			if cstr(o, "mod") == m && cstr(o, "name") == nm {
				nm = fmt.Sprintf("i%d", 10+i)
			}
		}
		id := map[string]any{"mod": m, "name": nm, "base": ""}
		var cands []map[string]any
		for _, o := range g.idents {
			if rank[cstr(o, "mod")] <= rank[m] {
				cands = append(cands, o)
			}
		}
		if len(cands) > 0 && r.Chance(75) {
			b := pick(r, cands)
			id["base"] = cstr(b, "mod") + ":" + cstr(b, "name")
		}
		g.idents = append(g.idents, id)
	}
	t := g.genType(2)
	probeSet := map[string]bool{}
	add := func(s string) { probeSet[s] = true }
	reProbes(r, add)
	for _, s := range []string{"0", "1", "2", "19", "20", "21", "29", "30", "31", "50", "51", "-1", "+5", "128", "256", "true", "false", "c-d", "e",
		"0.5", "0.49", "40.25", "40.26", "1.5", "39.25", "abcdefg", "abcdef", "éééééé", "ééééééé", "18446744073709551615", "18446744073709551616"} {
		add(s)
	}
	for _, id := range g.idents {
		add(cstr(id, "name"))
		add(cstr(id, "mod") + ":" + cstr(id, "name"))
		add("mc:" + cstr(id, "name"))
	}
	keys := make([]string, 0, len(probeSet))
	for k := range probeSet {
		keys = append(keys, k)
	}
	sort.Strings(keys)
	var idents []any
	for _, id := range g.idents {
		idents = append(idents, id)
	}
	// the typedefs of a chain in ma, mb (which knows ma as q) and mc, or all of them in mc
	c := Case{"k": "yvals", "idents": idents, "type": t, "probes": toAny(keys), "spread": r.Intn(4)}
	// the whole type (a union, an identityref, a chain) behind 0-2 further typedefs, each of which — and the leaf — may
	// state a default: the nearest one is the leaf's, and every one of them has to be a value of the type
	if r.Chance(40) {
		var wrap []any
		for i, n := 0, r.Intn(3); i < n; i++ {
			if r.Chance(60) {
				wrap = append(wrap, keys[r.Intn(len(keys))])
			} else {
				wrap = append(wrap, nil)
			}
		}
		c["wrap"] = wrap
		if r.Chance(40) {
			c["ldef"] = keys[r.Intn(len(keys))]
		}
		c["defs"] = true
	}
	return c
}

func genYVals(r *Rng, tier string, n int, emit func(Case)) {
	for i := 0; i < n; i++ {
		emit(genYValsCase(r))
	}
}

// ---- rendering ---------------------------------------------------------------------------------------------

type vrender struct {
	typedefs []string          // those of module mc
	inMod    map[string][]string // those placed in ma / mb
	n        int
	spread   int // how the typedefs of a chain are spread over the modules (0: all in mc)
}

// how module `from` names a typedef of module `to`: mb imports ma under the prefix q, which mc does not know
func tdRef(from, to, name string) string {
	if from == to {
		return name
	}
	if from == "mb" && to == "ma" {
		return "q:" + name
	}
	return to + ":" + name
}

func eiStmts(m map[string]any) string {
	s := ""
	if v, ok := m["msg"].(string); ok {
		s += " error-message " + yq(v) + ";"
	}
	if v, ok := m["tag"].(string); ok {
		s += " error-app-tag " + yq(v) + ";"
	}
	return s
}

func (v *vrender) typeStmt(t map[string]any) string {
	switch cstr(t, "t") {
	case "union":
		s := "type union {"
		for _, m := range carr(t, "members") {
			s += " " + v.typeStmt(m.(map[string]any))
		}
		return s + " }"
	case "identityref":
		b := cstr(t, "base")
		b = strings.TrimPrefix(b, "mc:")
		return "type identityref { base " + b + "; }"
	}
	base := cstr(t, "base")
	levels := carr(t, "levels")
	prev := strings.Split(base, ":")[0]
	prevMod := "" // the module of the typedef `prev` ("" = a built-in type)
	out := ""
	for i, l := range levels {
		lv := l.(map[string]any)
		var body strings.Builder
		if i == 0 {
			if strings.HasPrefix(base, "decimal64:") {
				body.WriteString(" fraction-digits " + strings.TrimPrefix(base, "decimal64:") + ";")
			}
			if strings.HasPrefix(base, "enumeration:") {
				for _, e := range strings.Split(base, ":")[1:] {
					body.WriteString(" enum " + e + ";")
				}
			}
		}
		if rs, ok := lv["restr"].([]any); ok {
			var parts []string
			for _, p := range rs {
				pp := p.([]any)
				parts = append(parts, pp[0].(string)+".."+pp[1].(string))
			}
			kw := "range"
			if cbool(lv, "isLength") {
				kw = "length"
			}
			ei := eiStmts(lv)
			if ei != "" {
				body.WriteString(" " + kw + " " + yq(strings.Join(parts, " | ")) + " {" + ei + " }")
			} else {
				body.WriteString(" " + kw + " " + yq(strings.Join(parts, " | ")) + ";")
			}
		}
		for _, p := range carr(lv, "pats") {
			pm := p.(map[string]any)
			ei := eiStmts(pm)
			if ei != "" {
				body.WriteString(" pattern '" + cstr(pm, "src") + "' {" + ei + " }")
			} else {
				body.WriteString(" pattern '" + cstr(pm, "src") + "';")
			}
		}
		// where this level is written: the leaf in mc; a typedef in ma, mb or mc, never before the one it refers to
		here := "mc"
		if i < len(levels)-1 && v.spread > 0 {
			rank := map[string]int{"": 0, "ma": 0, "mb": 1, "mc": 2}[prevMod]
			pos := i + v.spread - 1
			if pos < rank {
				pos = rank
			}
			if pos > 2 {
				pos = 2
			}
			here = []string{"ma", "mb", "mc"}[pos]
		}
		ref := prev
		if prevMod != "" {
			ref = tdRef(here, prevMod, prev)
		}
		stmt := "type " + ref + ";"
		if body.Len() > 0 {
			stmt = "type " + ref + " {" + body.String() + " }"
		}
		if i == len(levels)-1 {
			out = stmt
		} else {
			v.n++
			tn := fmt.Sprintf("t%d", v.n)
			if here == "mc" {
				v.typedefs = append(v.typedefs, "  typedef "+tn+" { "+stmt+" }\n")
			} else {
				if v.inMod == nil {
					v.inMod = map[string][]string{}
				}
				v.inMod[here] = append(v.inMod[here], "  typedef "+tn+" { "+stmt+" }\n")
			}
			prev, prevMod = tn, here
		}
	}
	return out
}

func yvalsModules(c Case) []string {
	var ma, mb, mc strings.Builder
	ma.WriteString("module ma { namespace \"urn:ma\"; prefix ma;\n")
	mb.WriteString("module mb { namespace \"urn:mb\"; prefix mb; import ma { prefix q; }\n")
	mc.WriteString("module mc { namespace \"urn:mc\"; prefix mc; import ma { prefix ma; } import mb { prefix mb; }\n")
	for _, i := range carr(c, "idents") {
		id := i.(map[string]any)
		w := map[string]*strings.Builder{"ma": &ma, "mb": &mb, "mc": &mc}[cstr(id, "mod")]
		b := cstr(id, "base")
		if b == "" {
			w.WriteString("  identity " + cstr(id, "name") + ";\n")
		} else {
			b = strings.TrimPrefix(b, cstr(id, "mod")+":")
			if cstr(id, "mod") == "mb" && strings.HasPrefix(b, "ma:") {
				b = "q:" + strings.TrimPrefix(b, "ma:")
			}
			w.WriteString("  identity " + cstr(id, "name") + " { base " + b + "; }\n")
		}
	}
	v := &vrender{spread: cint(c, "spread")}
	stmt := v.typeStmt(cmap(c, "type"))
	for _, td := range v.inMod["ma"] {
		ma.WriteString(td)
	}
	for _, td := range v.inMod["mb"] {
		mb.WriteString(td)
	}
	for _, td := range v.typedefs {
		mc.WriteString(td)
	}
	for i, d := range carr(c, "wrap") {
		dflt := ""
		if ds, ok := d.(string); ok {
			dflt = " default " + yq(ds) + ";"
		}
		mc.WriteString(fmt.Sprintf("  typedef w%d { %s%s }\n", i, stmt, dflt))
		stmt = fmt.Sprintf("type w%d;", i)
	}
	if ds, ok := c["ldef"].(string); ok {
		stmt += " default " + yq(ds) + ";"
	}
	mc.WriteString("  leaf x { " + stmt + " }\n")
	ma.WriteString("}\n")
	mb.WriteString("}\n")
	mc.WriteString("}\n")
	return []string{ma.String(), mb.String(), mc.String()}
}

func collectMsgs(v any, out map[string]bool) {
	switch x := v.(type) {
	case map[string]any:
		for k, e := range x {
			if k == "msg" {
				if s, ok := e.(string); ok {
					out[s] = true
				}
			}
			collectMsgs(e, out)
		}
	case []any:
		for _, e := range x {
			collectMsgs(e, out)
		}
	}
}

func runYVals(c Case) string {
	texts := yvalsModules(c)
	ms, err := compileTexts(nil, texts...)
	if err != nil {
		if strings.HasPrefix(err.Error(), "PANIC") {
			return err.Error()
		}
		return "compile-err"
	}
	x := ms.Child("x")
	if x == nil {
		return "no-leaf"
	}
	msgs := map[string]bool{}
	collectMsgs(map[string]any(c), msgs)
	t := x.Type()
	var out []string
	if cbool(c, "defs") {
		if d, has := t.Default(); has {
			out = append(out, "D="+hexTok(d))
		} else {
			out = append(out, "D=none")
		}
	}
	for _, p := range carr(c, "probes") {
		e := t.Validate(nil, []string{"x", p.(string)}, p.(string))
		if e == nil {
			out = append(out, "ok")
			continue
		}
		f, ok := e.(mgmterror.Formattable)
		if !ok {
			out = append(out, "plain")
			continue
		}
		raw := rawMessage(e, f)
		m := "-"
		if msgs[raw] {
			m = raw
		}
		path := "path-ok"
		if f.GetTag() != "unknown-element" && pathToks(f.GetPath()) != "x"+hexTok("x")+".x"+hexTok(p.(string)) {
			path = "path=" + f.GetPath()
		}
		out = append(out, "rej tag="+f.GetAppTag()+" msg="+m+" "+path)
	}
	return strings.Join(out, ";")
}

func init() {
	register(&Stream{Name: "yvals", Prop: "C16", Gen: genYVals, Run: runYVals})
}
