package main

import (
	"fmt"
	"os"
	"strings"
)

// ---- C12: uses / refine / augment = the inline definition ------------------------------------------------------
//
// The generator writes the *inline* module first and then factors parts of it out into groupings (with
// refines and augments under the uses) and into augment statements (of the same module or of another one),
// so that the two modules are equivalent by construction.

type ufac struct {
	r        *Rng
	n        int
	mGroup   []any // groupings of module m
	bGroup   []any // groupings of module b (imported by m)
	mAug     []any // augments written in m
	aAug     []any // augments written in module a2 (imports m)
	a2names  map[string]bool
	plain    []any
	holder   map[string]any
	dup      map[string]bool // groupings used twice
	features []string
	noDup    bool // no second use of a grouping
	noScoped bool // no groupings defined inside data nodes
	noStatus bool // no status on uses / augments
	// steering of the next group() call (a chain of scoped groupings of one name through a module-level grouping)
	want       map[string]any // a child that must be among the nodes moved
	wantScoped *bool          // scoped or not, instead of by chance
	chainNode  map[string]any // the node the last scoped grouping was defined in
	lastUse    map[string]any // the uses statement the last group() call wrote
	lastParent map[string]any
}

func findByName(kids []any, name string) map[string]any {
	for _, k := range kids {
		n := k.(map[string]any)
		if cstr(n, "n") == name {
			return n
		}
		if r := findByName(carr(n, "kids"), name); r != nil {
			return r
		}
	}
	return nil
}

func findAllByName(kids []any, name string, out *[]map[string]any) {
	for _, k := range kids {
		n := k.(map[string]any)
		if cstr(n, "n") == name {
			*out = append(*out, n)
		}
		findAllByName(carr(n, "kids"), name, out)
	}
}

func (u *ufac) addIffPlain(name, f string) {
	var ns []map[string]any
	findAllByName(u.plain, name, &ns)
	for _, pn := range ns {
		pn["iff"] = append(carr(pn, "iff"), f)
	}
}

func isMandatoryAST(n map[string]any) bool {
	switch cstr(n, "k") {
	case "leaf", "choice":
		return cbool(n, "mandatory")
	case "list", "leaf-list":
		return cint(n, "min") > 0
	case "container":
		if cbool(n, "presence") {
			return false
		}
	}
	for _, k := range carr(n, "kids") {
		if isMandatoryAST(k.(map[string]any)) {
			return true
		}
	}
	return false
}

func markNs(n map[string]any, set map[string]bool) {
	set[cstr(n, "n")] = true
	for _, k := range carr(n, "kids") {
		markNs(k.(map[string]any), set)
	}
}

// descendants of the moved nodes that can carry a refine, with their relative paths
func refineCands(kids []any, prefix []string, out *[]astRef) {
	for _, k := range kids {
		n := k.(map[string]any)
		if cstr(n, "k") == "uses" {
			continue
		}
		p := append(append([]string{}, prefix...), cstr(n, "n"))
		*out = append(*out, astRef{p, n})
		refineCands(carr(n, "kids"), p, out)
	}
}

// factor a range of the children of one node into a grouping
func (u *ufac) group(parent map[string]any, kidsKey string, depth int, forceB bool) {
	r := u.r
	kids := carr(parent, kidsKey)
	lo := 0
	if cstr(parent, "k") == "list" {
		lo = 1 // the key stays
	}
	if cstr(parent, "k") == "choice" || len(kids)-lo < 1 {
		return
	}
	i := lo + r.Intn(len(kids)-lo)
	j := i + 1 + r.Intn(len(kids)-i)
	steered := u.want != nil
	wantScoped := u.wantScoped
	u.wantScoped = nil
	if steered {
		w := -1
		for x, k := range kids {
			if fmt.Sprintf("%p", k) == fmt.Sprintf("%p", u.want) {
				w = x
			}
		}
		u.want = nil
		if w < lo {
			return
		}
		i = lo + r.Intn(w-lo+1)
		j = w + 1 + r.Intn(len(kids)-w)
	}
	for _, k := range kids[i:j] {
		if cstr(k.(map[string]any), "k") == "uses" && ((!steered && r.Chance(50)) || cbool(k.(map[string]any), "_scopedUse")) {
			return
		}
	}
	moved := append([]any{}, kids[i:j]...)
	u.n++
	gname := fmt.Sprintf("g%d", u.n)
	use := map[string]any{"k": "uses", "n": "uses-" + gname, "g": gname}
	inB := r.Chance(30) || forceB
	// a grouping defined in the body of the node that uses it (a scoped grouping): its name may be taken again
	// in the body of a sibling, but not above or below
	scopedIn := ""
	if pk := cstr(parent, "k"); !forceB && depth == 0 && !u.noScoped && (pk == "container" || pk == "list") &&
		!cbool(parent, "_inb") && ((wantScoped == nil && r.Chance(u.scopedChance())) || (wantScoped != nil && *wantScoped)) {
		scopedIn = cstr(parent, "n")
		inB = false
	}
	for _, k := range moved { // a grouping of module b cannot use groupings or features of m
		if !forceB && (hasUses(k.(map[string]any), "m") || hasIff(k.(map[string]any)) || hasMWhen(k.(map[string]any))) {
			inB = false
		}
	}
	if scopedIn != "" && inB {
		scopedIn = ""
	}
	// refines
	var cands []astRef
	refineCands(moved, nil, &cands)
	var refines []any
	for t := 0; t < 2 && len(cands) > 0; t++ {
		if !r.Chance(45) {
			continue
		}
		c := cands[r.Intn(len(cands))]
		n := c.node
		if cbool(n, "_refined") {
			continue // one refine per node: a second one would see what the first one left in the grouping
		}
		// the refined statement is either absent from the grouping, or written there with another argument
		// (refine replaces it); the substatements of the target may be written in any order
		repl := r.Bool()
		before := len(refines)
		if v, ok := n["config"].(bool); ok && !v && cstr(n, "k") != "case" && r.Chance(30) {
			if repl {
				n["config"] = true
			} else {
				delete(n, "config")
			}
			refines = append(refines, map[string]any{"path": toAny(c.path), "prop": "config", "val": "false"})
		} else {
			switch cstr(n, "k") {
			case "leaf":
				if d, ok := n["dflt"].(string); ok && r.Bool() {
					delete(n, "dflt")
					if repl {
						for _, v := range carr(cmap(n, "type"), "valid") {
							if v.(string) != d {
								n["dflt"] = v
								break
							}
						}
					}
					refines = append(refines, map[string]any{"path": toAny(c.path), "prop": "default", "val": d})
				} else if cbool(n, "mandatory") {
					delete(n, "mandatory")
					if repl {
						n["_mandFalse"] = true
					}
					refines = append(refines, map[string]any{"path": toAny(c.path), "prop": "mandatory", "val": "true"})
				}
			case "container":
				if cbool(n, "presence") {
					n["presence"] = repl
					refines = append(refines, map[string]any{"path": toAny(c.path), "prop": "presence", "val": "p"})
				}
			case "list", "leaf-list":
				if _, ok := n["min"]; ok && r.Bool() {
					refines = append(refines, map[string]any{"path": toAny(c.path), "prop": "min-elements", "val": fmt.Sprint(cint(n, "min"))})
					delete(n, "min")
					if repl {
						n["min"] = 0
					}
				} else if _, ok := n["max"]; ok {
					refines = append(refines, map[string]any{"path": toAny(c.path), "prop": "max-elements", "val": fmt.Sprint(cint(n, "max"))})
					mx := cint(n, "max")
					delete(n, "max")
					if repl {
						n["max"] = mx + 1 + r.Intn(2)
					}
				}
			case "choice":
				if cbool(n, "mandatory") {
					delete(n, "mandatory")
					if repl {
						n["_mandFalse"] = true
					}
					refines = append(refines, map[string]any{"path": toAny(c.path), "prop": "mandatory", "val": "true"})
				}
			}
		}
		if len(refines) > before {
			n["_refined"] = true
			if r.Chance(65) {
				n["_rot"] = r.Intn(7)
			}
		}
	}
	// must statements (any number per node): some stay in the grouping, the others are added by a refine
	for _, c := range cands {
		n := c.node
		if cstr(n, "k") != "leaf" || cbool(n, "_refined") || cbool(n, "_musted") || !r.Chance(22) {
			continue
		}
		n["_musted"] = true // once per node: a nested grouping level sees the node again
		all := []string{pick(r, []string{". != 7", "string-length(.) < 10", "../x or true()"})}
		if r.Bool() {
			all = append(all, pick(r, []string{"not(. = 'zz')", "count(../*) >= 0"}))
		}
		if r.Chance(40) {
			all = append(all, ". = .")
		}
		keep := r.Intn(len(all) + 1)
		// the inline module has all of them on the node, in this order
		var qs []map[string]any
		findAllByName(u.plain, cstr(n, "n"), &qs)
		for _, pq := range qs {
			pq["musts"] = toAny(all)
		}
		if keep > 0 {
			n["musts"] = toAny(all[:keep])
		}
		if keep < len(all) {
			n["_refined"] = true
			refines = append(refines, map[string]any{"path": toAny(c.path), "prop": "must", "musts": toAny(all[keep:])})
		}
	}
	// an augment under the uses: part of the children of a node of the grouping
	var augs []any
	if r.Chance(35) {
		var tc []astRef
		for _, c := range cands {
			k := cstr(c.node, "k")
			nk := carr(c.node, "kids")
			if (k == "container" || k == "list" || k == "case") && len(nk) >= 2 {
				tc = append(tc, c)
			}
		}
		if len(tc) > 0 {
			c := tc[r.Intn(len(tc))]
			nk := carr(c.node, "kids")
			cut := 1 + r.Intn(len(nk)-1)
			// preferably a node whose later children contain a uses: "uses inside an augment inside a uses"
			var withUses []astRef
			for _, x := range tc {
				xk := carr(x.node, "kids")
				if lk := xk[len(xk)-1].(map[string]any); cstr(lk, "k") == "uses" && !cbool(lk, "_scopedUse") {
					withUses = append(withUses, x)
				}
			}
			if len(withUses) > 0 && r.Chance(60) {
				c = withUses[r.Intn(len(withUses))]
				nk = carr(c.node, "kids")
				cut = 1 + r.Intn(len(nk)-1)
			}
			if cstr(c.node, "k") == "list" && cut < 1 {
				cut = 1
			}
			taken := append([]any{}, nk[cut:]...)
			ok := true
			for _, tk := range taken {
				if cbool(tk.(map[string]any), "_scopedUse") {
					ok = false
				}
			}
			// a uses among the nodes the augment adds ("uses inside an augment inside a uses") is written in the
			// using module whatever module the outer grouping comes from
			// a refine must not point into what the augment is about to add
			for _, rf := range refines {
				rp := rf.(map[string]any)["path"].([]any)
				if len(rp) > len(c.path) {
					same := true
					for x := range c.path {
						if rp[x].(string) != c.path[x] {
							same = false
						}
					}
					if same {
						ok = false
					}
				}
			}
			if ok {
				c.node["kids"] = nk[:cut]
				ag := map[string]any{"path": toAny(c.path), "kids": taken}
				if r.Chance(40) || (hasUses(map[string]any{"kids": taken}, "") && r.Chance(60)) {
					if w := u.pickWhen(taken, !forceB, true); w != "" {
						ag["when"] = w
					}
				}
				if !forceB && !u.noStatus && r.Chance(20) {
					if st := u.pickStatus(taken, false); st != "" {
						ag["status"] = st
					}
				}
				augs = append(augs, ag)
			}
		}
	}
	if len(refines) > 0 {
		use["refines"] = refines
	}
	if len(augs) > 0 {
		use["augments"] = augs
	}
	// if-feature on the uses: every node it introduces gets it
	dupInside := false
	for _, k := range moved {
		if u.usesDup(k.(map[string]any), 0) {
			dupInside = true // the inline copies are told apart by name only: no if-feature on one of two uses
		}
	}
	if len(u.features) > 0 && r.Chance(20) && !forceB && !dupInside {
		var fl []any
		for _, f := range u.pickIffs(r) { // one or two if-feature statements: all of them apply
			fl = append(fl, f)
			for _, k := range moved {
				kn := k.(map[string]any)
				if cstr(kn, "k") == "uses" {
					continue
				}
				u.addIffPlain(cstr(kn, "n"), f)
			}
			for _, k := range moved { // nodes introduced by a nested uses get it as well
				u.iffThroughUses(k.(map[string]any), f)
			}
		}
		use["iff"] = fl
	}
	g := map[string]any{"n": gname, "kids": moved}
	if scopedIn != "" {
		tn := u.scopedName(parent)
		g["scope"] = scopedIn
		g["tn"] = tn
		use["tg"] = tn
		use["_scopedUse"] = true
		parent["_sg"] = append(carr(parent, "_sg"), tn)
		u.chainNode = parent
	}
	if !inB && !forceB && r.Chance(25) {
		use["ownpfx"] = true
	}
	u.lastUse, u.lastParent = use, parent
	whenLater := !forceB && !dupInside && r.Chance(25)
	if inB {
		// the status, description and reference of a grouping are the grouping's (another module's may be deprecated)
		if r.Chance(40) {
			g["gstatus"] = pick(r, []string{"deprecated", "obsolete", "current"})
		}
		if r.Chance(30) {
			g["gdesc"] = true
		}
		use["g"] = "b:" + gname
		for _, k := range moved {
			markInB(k.(map[string]any))
		}
		u.bGroup = append(u.bGroup, g)
	} else {
		u.mGroup = append(u.mGroup, g)
	}
	if whenLater {
		if w := u.pickWhen(moved, true, false); w != "" {
			use["when"] = w
		}
	}
	if !forceB && !dupInside && !u.noStatus && r.Chance(20) {
		if st := u.pickStatus(moved, len(refines) == 0 && len(augs) == 0); st != "" {
			use["status"] = st
		}
	}
	nk := append([]any{}, kids[:i]...)
	nk = append(nk, use)
	nk = append(nk, kids[j:]...)
	parent[kidsKey] = nk
	// a second use of the same grouping somewhere else, without the refines and augments of the first:
	// the inline module gets a copy of the grouping body as it is now
	if !forceB && !u.noDup && scopedIn == "" && r.Chance(30) {
		clean := true
		for _, k := range moved {
			if anyUses(k.(map[string]any)) {
				clean = false
			}
		}
		var places []astRef
		augTargets(carr(u.holder, "kids"), nil, &places)
		var ok []astRef
		for _, pl := range places {
			k := cstr(pl.node, "k")
			if (k == "container" || k == "list" || k == "case") && pl.node["n"] != parent["n"] && !cbool(pl.node, "_inb") {
				ok = append(ok, pl)
			}
		}
		if clean && len(ok) > 0 {
			q := ok[r.Intn(len(ok))]
			q.node["kids"] = append(carr(q.node, "kids"), map[string]any{"k": "uses", "n": "uses2-" + gname, "g": cstr(use, "g")})
			u.dup[gname] = true
			var qs []map[string]any
			findAllByName(u.plain, cstr(q.node, "n"), &qs)
			for _, pq := range qs {
				pq["kids"] = append(carr(pq, "kids"), deepCopy(moved).([]any)...)
			}
		}
	}
	// factor further inside the grouping
	if depth < 2 && r.Chance(40) {
		u.group(g, "kids", depth+1, inB)
	}
}

// more often once there is one: two scopes are what it takes for a name to be taken twice
func (u *ufac) scopedChance() int {
	for _, g := range u.mGroup {
		if cstr(g.(map[string]any), "scope") != "" {
			return 90
		}
	}
	return 50
}

// the text name of a new grouping scoped to `parent`: the first of sg1, sg2, ... that no scope lexically above or
// below `parent` (or `parent` itself) defines.  Lexically: the body of a grouping scoped to a node lies inside that node.
// what is written in the body of a node: its children, and for a uses the nodes its augments add
func lexKids(n map[string]any) []any {
	out := append([]any{}, carr(n, "kids")...)
	for _, a := range carr(n, "augments") {
		out = append(out, carr(a.(map[string]any), "kids")...)
	}
	return out
}

func (u *ufac) scopedName(parent map[string]any) string {
	taken := map[string]bool{}
	all := append(append([]any{}, u.mGroup...), u.bGroup...)
	scopedTo := func(name string) []map[string]any {
		var out []map[string]any
		for _, g := range all {
			if gm := g.(map[string]any); cstr(gm, "scope") == name {
				out = append(out, gm)
			}
		}
		return out
	}
	var below func(n map[string]any)
	below = func(n map[string]any) {
		for _, t := range carr(n, "_sg") {
			taken[t.(string)] = true
		}
		for _, g := range scopedTo(cstr(n, "n")) {
			for _, k := range carr(g, "kids") {
				below(k.(map[string]any))
			}
		}
		for _, k := range lexKids(n) {
			below(k.(map[string]any))
		}
	}
	below(parent)
	// upwards: the path from the root that holds the node; from a scoped grouping on to the node it is scoped to
	var path func(n, target map[string]any) bool
	path = func(n, target map[string]any) bool {
		if cstr(n, "n") == cstr(target, "n") && cstr(n, "k") == cstr(target, "k") {
			return true
		}
		for _, k := range lexKids(n) {
			if path(k.(map[string]any), target) {
				for _, t := range carr(n, "_sg") {
					taken[t.(string)] = true
				}
				return true
			}
		}
		return false
	}
	cur := parent
	for hops := 0; hops < 50 && cur != nil; hops++ {
		if path(u.holder, cur) {
			break
		}
		var next map[string]any
		for _, g := range all {
			gm := g.(map[string]any)
			if path(gm, cur) {
				if sc := cstr(gm, "scope"); sc != "" {
					var found []map[string]any
					findAllByName(carr(u.holder, "kids"), sc, &found)
					for _, g2 := range all {
						findAllByName(carr(g2.(map[string]any), "kids"), sc, &found)
					}
					if len(found) > 0 {
						next = found[0]
						for _, t := range carr(next, "_sg") {
							taken[t.(string)] = true
						}
					}
				}
				break
			}
		}
		cur = next
	}
	for k := 1; ; k++ {
		if nm := fmt.Sprintf("sg%d", k); !taken[nm] {
			return nm
		}
	}
}

func (u *ufac) usesDup(n map[string]any, depth int) bool {
	if depth > 20 {
		return true
	}
	if cstr(n, "k") == "uses" {
		gn := strings.TrimPrefix(cstr(n, "g"), "b:")
		if u.dup[gn] {
			return true
		}
		if g := u.groupingByName(gn); g != nil {
			for _, k := range carr(g, "kids") {
				if u.usesDup(k.(map[string]any), depth+1) {
					return true
				}
			}
		}
		for _, a := range carr(n, "augments") {
			for _, k := range carr(a.(map[string]any), "kids") {
				if u.usesDup(k.(map[string]any), depth+1) {
					return true
				}
			}
		}
	}
	for _, k := range carr(n, "kids") {
		if u.usesDup(k.(map[string]any), depth+1) {
			return true
		}
	}
	return false
}

func (u *ufac) groupingByName(name string) map[string]any {
	name = strings.TrimPrefix(name, "b:")
	for _, gs := range [][]any{u.mGroup, u.bGroup} {
		for _, g := range gs {
			if cstr(g.(map[string]any), "n") == name {
				return g.(map[string]any)
			}
		}
	}
	return nil
}

// one if-feature, or (two times in five, when there are two features) two different ones
func (u *ufac) pickIffs(r *Rng) []string {
	f := pick(r, u.features)
	if len(u.features) > 1 && r.Chance(40) {
		for {
			g := pick(r, u.features)
			if g != f {
				return []string{f, g}
			}
		}
	}
	return []string{f}
}

// when a uses that carries an if-feature contains (top-level) another uses, the nodes that one introduces
// inherit it too
func (u *ufac) iffThroughUses(n map[string]any, f string) {
	if cstr(n, "k") != "uses" {
		return
	}
	g := u.groupingByName(cstr(n, "g"))
	if g == nil {
		return
	}
	for _, k := range carr(g, "kids") {
		kn := k.(map[string]any)
		if cstr(kn, "k") == "uses" {
			u.iffThroughUses(kn, f)
			continue
		}
		u.addIffPlain(cstr(kn, "n"), f)
	}
}

func hasPinned(n map[string]any) bool {
	if cbool(n, "_pinned") {
		return true
	}
	for _, k := range carr(n, "kids") {
		if hasPinned(k.(map[string]any)) {
			return true
		}
	}
	return false
}

func markInB(n map[string]any) {
	n["_inb"] = true
	for _, k := range carr(n, "kids") {
		markInB(k.(map[string]any))
	}
	for _, a := range carr(n, "augments") {
		for _, k := range carr(a.(map[string]any), "kids") {
			markInB(k.(map[string]any))
		}
	}
}

// a `when` on a uses (or on an augment under it) that mentions the prefix m can only be written where m is known
func hasMWhen(n map[string]any) bool {
	if strings.Contains(cstr(n, "when"), "m:") {
		return true
	}
	for _, a := range carr(n, "augments") {
		am := a.(map[string]any)
		if strings.Contains(cstr(am, "when"), "m:") {
			return true
		}
		for _, k := range carr(am, "kids") {
			if hasMWhen(k.(map[string]any)) {
				return true
			}
		}
	}
	for _, k := range carr(n, "kids") {
		if hasMWhen(k.(map[string]any)) {
			return true
		}
	}
	return false
}

func hasIff(n map[string]any) bool {
	if len(carr(n, "iff")) > 0 {
		return true
	}
	for _, k := range carr(n, "kids") {
		if hasIff(k.(map[string]any)) {
			return true
		}
	}
	for _, a := range carr(n, "augments") {
		for _, k := range carr(a.(map[string]any), "kids") {
			if hasIff(k.(map[string]any)) {
				return true
			}
		}
	}
	return false
}

func anyUses(n map[string]any) bool {
	if cstr(n, "k") == "uses" {
		return true
	}
	for _, k := range carr(n, "kids") {
		if anyUses(k.(map[string]any)) {
			return true
		}
	}
	return false
}

func hasUses(n map[string]any, _ string) bool {
	if cstr(n, "k") == "uses" && !strings.HasPrefix(cstr(n, "g"), "b:") {
		return true
	}
	for _, k := range carr(n, "kids") {
		if hasUses(k.(map[string]any), "") {
			return true
		}
	}
	for _, a := range carr(n, "augments") {
		for _, k := range carr(a.(map[string]any), "kids") {
			if hasUses(k.(map[string]any), "") {
				return true
			}
		}
	}
	return false
}

// nodes of the body that can be the target of a module-level augment, with absolute paths
func augTargets(kids []any, prefix []string, out *[]astRef) {
	for _, k := range kids {
		n := k.(map[string]any)
		if cstr(n, "k") == "uses" {
			continue
		}
		p := append(append([]string{}, prefix...), cstr(n, "n"))
		kind := cstr(n, "k")
		if kind == "container" || kind == "list" || kind == "choice" || kind == "case" {
			*out = append(*out, astRef{p, n})
		}
		augTargets(carr(n, "kids"), p, out)
	}
}

func (u *ufac) augment(body []any) {
	r := u.r
	var ts []astRef
	augTargets(body, nil, &ts)
	var cands []astRef
	for _, t := range ts {
		lo := 0
		if cstr(t.node, "k") == "list" {
			lo = 1
		}
		if len(carr(t.node, "kids"))-lo >= 1 {
			cands = append(cands, t)
		}
	}
	if len(cands) == 0 {
		return
	}
	t := cands[r.Intn(len(cands))]
	for _, e := range t.path { // a current augment may not refer to a deprecated node of its own module
		if pn := findByName(u.plain, e); pn != nil && pn["status"] != nil {
			return
		}
	}
	kids := carr(t.node, "kids")
	lo := 0
	if cstr(t.node, "k") == "list" {
		lo = 1
	}
	cut := lo + r.Intn(len(kids)-lo)
	taken := append([]any{}, kids[cut:]...)
	cross := r.Chance(45)
	for _, k := range taken {
		kn := k.(map[string]any)
		if cstr(kn, "k") == "uses" || hasPinned(kn) {
			return // augments are applied in the order written: an earlier one must not target what a later one adds
		}
		if cross && (isMandatoryAST(kn) || anyUses(kn) || hasIff(kn)) {
			cross = false
		}
	}
	t.node["kids"] = kids[:cut]
	// a case with one data definition may be written as that definition alone (the case then takes its name)
	if cstr(t.node, "k") == "choice" {
		for _, k := range taken {
			kn := k.(map[string]any)
			ck := carr(kn, "kids")
			if cstr(kn, "k") != "case" || len(ck) != 1 || cstr(t.node, "dflt") == cstr(kn, "n") || !r.Chance(60) {
				continue
			}
			only := ck[0].(map[string]any)
			if kk := cstr(only, "k"); kk != "container" && kk != "leaf" && kk != "leaf-list" && kk != "list" {
				continue
			}
			if len(carr(kn, "iff")) > 0 || len(carr(kn, "whens")) > 0 || kn["status"] != nil {
				continue // the implicit case has no substatements of its own
			}
			if pn := findByName(u.plain, cstr(kn, "n")); pn != nil && cstr(pn, "k") == "case" {
				pn["n"] = cstr(only, "n")
				kn["n"] = cstr(only, "n")
				kn["_shorthand"] = true
			}
		}
	}
	for _, e := range t.path {
		if pn := findByName(body, e); pn != nil {
			pn["_pinned"] = true
		}
	}
	a := map[string]any{"path": toAny(t.path), "kids": taken}
	dupInside := false
	for _, k := range taken {
		if u.usesDup(k.(map[string]any), 0) {
			dupInside = true
		}
	}
	short := false // an if-feature on the augment lands on the node, not on its implicit case: not modelled
	for _, k := range taken {
		if cbool(k.(map[string]any), "_shorthand") {
			short = true
		}
	}
	if len(u.features) > 0 && r.Chance(20) && !cross && !dupInside && !short {
		var fl []any
		for _, f := range u.pickIffs(r) {
			fl = append(fl, f)
			for _, k := range taken {
				pn := findByName(u.plain, cstr(k.(map[string]any), "n"))
				pn["iff"] = append(carr(pn, "iff"), f)
			}
		}
		a["iff"] = fl
	}
	if !dupInside && r.Chance(25) {
		if w := u.pickWhen(taken, true, true); w != "" {
			a["when"] = w
		}
	}
	if !dupInside && !u.noStatus && r.Chance(20) {
		if st := u.pickStatus(taken, false); st != "" {
			a["status"] = st
		}
	}
	if cross {
		for _, k := range taken {
			markNs(k.(map[string]any), u.a2names)
		}
		u.aAug = append(u.aAug, a)
	} else {
		u.mAug = append(u.mAug, a)
	}
}

// two definitions of one name among the children of a node: a clash the factored module inherits by construction
// (two uses that bring the same grouping); such a case says nothing about the expansion
func dupSiblings(kids []any) bool {
	seen := map[string]bool{}
	for _, k := range kids {
		kn := k.(map[string]any)
		if seen[cstr(kn, "n")] {
			return true
		}
		seen[cstr(kn, "n")] = true
		if dupSiblings(carr(kn, "kids")) {
			return true
		}
	}
	return false
}

// a grouping scoped to a node under the name of one scoped to a node around it (however the two came to lie
// inside each other): refused by every YANG parser, and not what the case is about
func shadowing(c Case) bool {
	all := append(append([]any{}, carr(c, "mgroupings")...), carr(c, "bgroupings")...)
	bad := false
	var walk func(n map[string]any, names map[string]bool)
	walk = func(n map[string]any, names map[string]bool) {
		mine := names
		if sg := carr(n, "_sg"); len(sg) > 0 {
			mine = map[string]bool{}
			for k := range names {
				mine[k] = true
			}
			for _, t := range sg {
				if mine[t.(string)] {
					bad = true
				}
				mine[t.(string)] = true
			}
		}
		for _, g := range all {
			if gm := g.(map[string]any); cstr(gm, "scope") != "" && cstr(gm, "scope") == cstr(n, "n") {
				for _, k := range carr(gm, "kids") {
					walk(k.(map[string]any), mine)
				}
			}
		}
		for _, k := range lexKids(n) {
			walk(k.(map[string]any), mine)
		}
	}
	for _, k := range carr(c, "body") {
		walk(k.(map[string]any), map[string]bool{})
	}
	for _, g := range all {
		if gm := g.(map[string]any); cstr(gm, "scope") == "" {
			for _, k := range carr(gm, "kids") {
				walk(k.(map[string]any), map[string]bool{})
			}
		}
	}
	return bad
}

// a refine or an augment whose path goes through (or ends at) a node that has a status: a current statement may
// not refer to a deprecated definition of its own module, which the inline module has no counterpart for
func statusOnPath(c Case) bool {
	withStatus := map[string]bool{}
	var mark func(kids []any)
	mark = func(kids []any) {
		for _, k := range kids {
			kn := k.(map[string]any)
			if kn["status"] != nil {
				withStatus[cstr(kn, "n")] = true
			}
			mark(carr(kn, "kids"))
		}
	}
	mark(carr(c, "plain"))
	if len(withStatus) == 0 {
		return false
	}
	bad := false
	onPath := func(p []any) {
		for _, e := range p {
			if withStatus[e.(string)] {
				bad = true
			}
		}
	}
	var walk func(kids []any)
	walk = func(kids []any) {
		for _, k := range kids {
			kn := k.(map[string]any)
			for _, rf := range carr(kn, "refines") {
				onPath(carr(rf.(map[string]any), "path"))
			}
			for _, a := range carr(kn, "augments") {
				onPath(carr(a.(map[string]any), "path"))
				walk(carr(a.(map[string]any), "kids"))
			}
			walk(carr(kn, "kids"))
		}
	}
	walk(carr(c, "body"))
	for _, key := range []string{"mgroupings", "bgroupings"} {
		for _, g := range carr(c, key) {
			walk(carr(g.(map[string]any), "kids"))
		}
	}
	for _, key := range []string{"maugments", "aaugments"} {
		for _, a := range carr(c, key) {
			onPath(carr(a.(map[string]any), "path"))
			walk(carr(a.(map[string]any), "kids"))
		}
	}
	return bad
}

func genYUsesCase(r *Rng, tier string) Case {
	for {
		c := genYUsesCase1(r, tier)
		if !dupSiblings(carr(c, "plain")) && !shadowing(c) && !statusOnPath(c) {
			if r.Chance(4) {
				injectClash(r, c)
			}
			return c
		}
	}
}

// a deliberate clash: a uses that brings a node of a name its new siblings have already - a data node, or a
// choice whose data nodes are all new (only the name of the choice is taken twice).  Factored and inline module
// must both be refused.
func injectClash(r *Rng, c Case) {
	body := carr(c, "body")
	plain := carr(c, "plain")
	type place struct {
		b, p  map[string]any
		path  []string
		noIff bool // no if-feature on the way: the node is there whatever is enabled
	}
	var places []place
	var walk func(bk, pk []any, path []string, noIff bool)
	walk = func(bk, pk []any, path []string, noIff bool) {
		for _, k := range bk {
			bn := k.(map[string]any)
			kind := cstr(bn, "k")
			if kind != "container" && kind != "list" {
				continue
			}
			var pn map[string]any
			for _, q := range pk {
				if qm := q.(map[string]any); cstr(qm, "n") == cstr(bn, "n") {
					pn = qm
				}
			}
			if pn == nil {
				continue
			}
			inA2 := false
			for _, a := range carr(c, "a2names") {
				if a.(string) == cstr(bn, "n") {
					inA2 = true // nodes of module a2: what is added here would belong to m in one module and to a2 in the other
				}
			}
			if inA2 {
				continue
			}
			here := append(append([]string{}, path...), cstr(bn, "n"))
			ni := noIff && len(carr(pn, "iff")) == 0 && len(carr(bn, "iff")) == 0
			places = append(places, place{bn, pn, here, ni})
			walk(carr(bn, "kids"), carr(pn, "kids"), here, ni)
		}
	}
	walk(body, plain, nil, true)
	if len(places) == 0 {
		return
	}
	pl := places[r.Intn(len(places))]
	var victim map[string]any
	for _, k := range carr(pl.p, "kids") { // a sibling-to-be in the inline module: prefer a choice
		km := k.(map[string]any)
		if cstr(km, "k") == "choice" && (victim == nil || r.Bool()) {
			victim = km
		}
	}
	if victim == nil {
		for _, k := range carr(pl.p, "kids") {
			km := k.(map[string]any)
			if kk := cstr(km, "k"); kk == "leaf" || kk == "container" || kk == "leaf-list" {
				victim = km
			}
		}
	}
	if victim == nil {
		return
	}
	for _, a := range carr(c, "a2names") {
		if a.(string) == cstr(victim, "n") {
			return // the module of a node is looked up by its name: no second node of the name of one that a2 adds
		}
	}
	var dup map[string]any
	mixed := r.Chance(35) && cstr(pl.b, "k") == "container" // (in a list the name could be that of the key)
	if mixed && cstr(victim, "k") == "choice" {
		// a data node of the name of a choice: one namespace by RFC 6020 6.2.1 (the code keeps the two apart)
		dup = map[string]any{"k": "leaf", "n": cstr(victim, "n"), "type": map[string]any{"base": "string"}}
	} else if mixed {
		dup = map[string]any{"k": "choice", "n": cstr(victim, "n"), "kids": []any{
			map[string]any{"k": "case", "n": "cazz", "kids": []any{
				map[string]any{"k": "leaf", "n": "fzz", "type": map[string]any{"base": "string"}}}}}}
	} else if cstr(victim, "k") == "choice" {
		dup = map[string]any{"k": "choice", "n": cstr(victim, "n"), "kids": []any{
			map[string]any{"k": "case", "n": "cazz", "kids": []any{
				map[string]any{"k": "leaf", "n": "fzz", "type": map[string]any{"base": "string"}}}}}}
	} else {
		dup = map[string]any{"k": "leaf", "n": cstr(victim, "n"), "type": map[string]any{"base": "string"}}
	}
	// (across modules only where target and victim are there whatever is enabled: an augment of another module into a node
	// that a disabled feature removes is an invalid path, and a victim that is not there is no clash)
	if !mixed && pl.noIff && len(carr(victim, "iff")) == 0 && r.Chance(30) {
		// the second node of the name comes from another module (an augment written in a2): the children of a node are
		// told apart by their names alone, so the two cannot both be there
		c["aaugments"] = append(carr(c, "aaugments"), map[string]any{"path": toAny(pl.path), "kids": []any{dup}})
		pl.p["kids"] = append(carr(pl.p, "kids"), deepCopy(dup))
		c["clash"] = "cross-" + cstr(victim, "k")
		return
	}
	c["mgroupings"] = append(carr(c, "mgroupings"), map[string]any{"n": "gclash", "kids": []any{dup}})
	pl.b["kids"] = append(carr(pl.b, "kids"), map[string]any{"k": "uses", "n": "uses-gclash", "g": "gclash"})
	pl.p["kids"] = append(carr(pl.p, "kids"), deepCopy(dup))
	c["clash"] = cstr(victim, "k")
	if mixed {
		c["clash"] = "mixed"
	}
}

func genYUsesCase1(r *Rng, tier string) Case {
	g := &sgen{r: r, forData: true, maxDepth: 2 + r.Intn(2)}
	if tier == "thorough" {
		g.maxDepth = 2 + r.Intn(3)
	}
	plain := g.genKids(0, false)
	for len(plain) < 2 {
		plain = append(plain, g.genNode(0, false))
	}
	u := &ufac{r: r, a2names: map[string]bool{}, plain: plain, dup: map[string]bool{}}
	u.noDup = r.Chance(40)    // the copies a second uses makes share their names: no when / if-feature can be told apart on them
	u.noScoped = r.Chance(35) // module-level groupings only: what uses of uses, augments with uses inside and second uses need
	nf := r.Intn(3)
	var feats, enabled []any
	for i := 0; i < nf; i++ {
		n := fmt.Sprintf("ft%d", i)
		u.features = append(u.features, n)
		feats = append(feats, map[string]any{"n": n})
		if r.Chance(65) {
			enabled = append(enabled, "m:"+n)
		}
	}
	body := deepCopy(plain).([]any)
	holder := map[string]any{"k": "module", "kids": body}
	u.holder = holder
	var all []astRef
	collectNodes(body, nil, &all)
	ng := 1 + r.Intn(3)
	for i := 0; i < ng; i++ {
		// a random place: the module body or a container / list / case somewhere below
		target := holder
		if len(all) > 0 && r.Chance(70) {
			c := all[r.Intn(len(all))]
			k := cstr(c.node, "k")
			if k == "container" || k == "list" || k == "case" {
				target = c.node
			}
		}
		u.group(target, "kids", 0, cbool(target, "_inb"))
	}
	// now and then: the node a scoped grouping was defined in goes into a module-level grouping, and the uses of
	// that one into another scoped grouping one level up (which takes the same name: the two scopes are unrelated)
	if u.chainNode != nil && r.Chance(70) {
		var x map[string]any
		var find func(n map[string]any)
		find = func(n map[string]any) {
			for _, k := range carr(n, "kids") {
				km := k.(map[string]any)
				if fmt.Sprintf("%p", km) == fmt.Sprintf("%p", u.chainNode) {
					x = n
				}
				find(km)
			}
		}
		find(holder)
		if x == nil && r.Chance(60) {
			for _, k := range carr(holder, "kids") { // the node stands at the top of the module
				if fmt.Sprintf("%p", k) == fmt.Sprintf("%p", u.chainNode) {
					x = holder
				}
			}
		}
		if x != nil && r.Chance(50) {
			// ... or a sibling of that node defines a grouping of its own (it takes the same name)
			yes := true
			for _, k := range carr(x, "kids") {
				km := k.(map[string]any)
				if kk := cstr(km, "k"); (kk == "container" || kk == "list") && fmt.Sprintf("%p", km) != fmt.Sprintf("%p", u.chainNode) &&
					len(carr(km, "_sg")) == 0 && !cbool(km, "_inb") {
					u.wantScoped = &yes
					u.group(km, "kids", 0, false)
					u.wantScoped = nil
					break
				}
			}
		} else if x != nil && (cstr(x, "k") == "container" || cstr(x, "k") == "list") && !cbool(x, "_inb") {
			no, yes := false, true
			u.want, u.wantScoped, u.lastUse = u.chainNode, &no, nil
			u.group(x, "kids", 0, false)
			if u.lastUse != nil && fmt.Sprintf("%p", u.lastParent) == fmt.Sprintf("%p", x) && cstr(u.lastUse, "tg") == "" {
				u.want, u.wantScoped = u.lastUse, &yes
				u.group(x, "kids", 0, false)
			}
			u.want, u.wantScoped = nil, nil
		}
	}
	na := r.Intn(3)
	for i := 0; i < na; i++ {
		u.augment(carr(holder, "kids"))
	}
	var a2 []any
	for n := range u.a2names {
		a2 = append(a2, n)
	}
	// a grouping of module b that another grouping of b uses keeps the default status (a current definition may
	// not refer to a deprecated one of its own module)
	usedInB := map[string]bool{}
	var scan func(kids []any)
	scan = func(kids []any) {
		for _, k := range kids {
			kn := k.(map[string]any)
			if cstr(kn, "k") == "uses" {
				usedInB[strings.TrimPrefix(cstr(kn, "g"), "b:")] = true
				for _, a := range carr(kn, "augments") {
					scan(carr(a.(map[string]any), "kids"))
				}
			}
			scan(carr(kn, "kids"))
		}
	}
	for _, g := range u.bGroup {
		scan(carr(g.(map[string]any), "kids"))
	}
	var hasStatus func(kids []any) bool
	hasStatus = func(kids []any) bool {
		for _, k := range kids {
			kn := k.(map[string]any)
			if kn["status"] != nil {
				return true
			}
			for _, a := range carr(kn, "augments") {
				if a.(map[string]any)["status"] != nil || hasStatus(carr(a.(map[string]any), "kids")) {
					return true
				}
			}
			if hasStatus(carr(kn, "kids")) {
				return true
			}
		}
		return false
	}
	anyStatus := hasStatus(carr(holder, "kids"))
	for _, g := range append(append([]any{}, u.mGroup...), u.bGroup...) {
		if hasStatus(carr(g.(map[string]any), "kids")) {
			anyStatus = true
		}
	}
	for _, g := range u.bGroup {
		// ... and not next to status statements on uses / augments / nodes (a statement in the body of a grouping, also
		// one that arrives through a uses, may not have a better status than the grouping)
		if gm := g.(map[string]any); usedInB[cstr(gm, "n")] || anyStatus {
			delete(gm, "gstatus")
		}
	}
	return Case{"k": "yuses", "plain": u.plain, "body": carr(holder, "kids"), "mgroupings": u.mGroup, "bgroupings": u.bGroup,
		"maugments": u.mAug, "aaugments": u.aAug, "a2names": a2, "features": feats, "enabled": enabled}
}

func genYUses(r *Rng, tier string, n int, emit func(Case)) {
	for i := 0; i < n; i++ {
		emit(genYUsesCase(r, tier))
	}
}

// ---- rendering -----------------------------------------------------------------------------------------------

var whenExprs = []string{"1 = 1", "'a' != 'b'", "true()", "not(false())", "2 > 1"}

// the names of the nodes a list of definitions introduces at its top level, looking through uses
func (u *ufac) introduced(kids []any, out *[]string, depth int) {
	if depth > 20 {
		return
	}
	for _, k := range kids {
		kn := k.(map[string]any)
		if cstr(kn, "k") == "uses" {
			if g := u.groupingByName(cstr(kn, "g")); g != nil {
				u.introduced(carr(g, "kids"), out, depth+1)
			}
			continue
		}
		*out = append(*out, cstr(kn, "n"))
	}
}

// a `when` for a uses / augment that introduces `kids`: written on every node introduced in the inline module
// (a node takes one `when` only); "" when some node has one already
func (u *ufac) pickWhen(kids []any, inM bool, asParent bool) string {
	var names []string
	u.introduced(kids, &names, 0)
	if len(names) == 0 {
		return ""
	}
	var all []map[string]any
	for _, nm := range names {
		var ns []map[string]any
		findAllByName(u.plain, nm, &ns)
		if len(ns) != 1 || len(carr(ns[0], "whens")) > 0 {
			return ""
		}
		all = append(all, ns[0])
	}
	w := pick(u.r, whenExprs)
	if inM && u.r.Chance(50) {
		// written in a module that knows the prefix m (m itself, or a2 which imports it): the nodes the expression
		// ends up on may come from a grouping of module b, which does not
		w = pick(u.r, []string{"count(../m:f1) >= 0", "m:zz or true()", "not(../m:k = 'no')"})
	}
	for _, pn := range all {
		pn["whens"] = []any{w}
		// the when of an augment is evaluated at the node the augment targets — for every node the augment adds, also those a
		// uses inside it brings in; the when of a uses (as the code has it) at the node itself
		pn["whenAsParent"] = asParent
	}
	return w
}

// a `status` for a uses / augment that introduces `kids`: every node introduced that has no status of its own takes
// it in the inline module.  With `own`, some of the leaves written directly among `kids` get a status of their own
// first (which they keep).
func (u *ufac) pickStatus(kids []any, own bool) string {
	var names []string
	u.introduced(kids, &names, 0)
	if len(names) == 0 {
		return ""
	}
	var all []map[string]any
	for _, nm := range names {
		var ns []map[string]any
		findAllByName(u.plain, nm, &ns)
		if len(ns) != 1 || ns[0]["status"] != nil {
			return "" // (of two statuses that reach a node through nested uses the inner one counts: not played here)
		}
		all = append(all, ns[0])
	}
	st := pick(u.r, []string{"deprecated", "obsolete"})
	// a status statement further down — on a node, a uses, an augment, also inside the groupings used — that is better
	// than this one would be an error of its own ("Cannot override status of parent"), whatever the nodes end up with
	if u.betterStatusBelow(kids, st, 0) {
		return ""
	}
	if own {
		for _, k := range kids {
			kn := k.(map[string]any)
			if kk := cstr(kn, "k"); (kk == "leaf" || kk == "leaf-list") && kn["status"] == nil && u.r.Chance(40) {
				o := pick(u.r, []string{"current", "deprecated", "obsolete"})
				kn["status"] = o
				if pn := findByName(u.plain, cstr(kn, "n")); pn != nil {
					pn["status"] = o
				}
			}
		}
	}
	for _, pn := range all {
		if pn["status"] == nil {
			pn["status"] = st
		}
	}
	return st
}

func statusRank(s string) int {
	return map[string]int{"current": 0, "deprecated": 1, "obsolete": 2}[s]
}

func (u *ufac) betterStatusBelow(kids []any, st string, depth int) bool {
	if depth > 20 {
		return false
	}
	for _, k := range kids {
		kn := k.(map[string]any)
		if s, ok := kn["status"].(string); ok && statusRank(s) < statusRank(st) {
			return true
		}
		if cstr(kn, "k") == "uses" {
			if g := u.groupingByName(cstr(kn, "g")); g != nil && u.betterStatusBelow(carr(g, "kids"), st, depth+1) {
				return true
			}
			for _, a := range carr(kn, "augments") {
				am := a.(map[string]any)
				if s, ok := am["status"].(string); ok && statusRank(s) < statusRank(st) {
					return true
				}
				if u.betterStatusBelow(carr(am, "kids"), st, depth+1) {
					return true
				}
			}
		}
		if u.betterStatusBelow(carr(kn, "kids"), st, depth+1) {
			return true
		}
	}
	return false
}

func renderUses(b *strings.Builder, n map[string]any, ind string) {
	var body strings.Builder
	for _, f := range carr(n, "iff") {
		body.WriteString(ind + "  if-feature " + f.(string) + ";\n")
	}
	if w := cstr(n, "when"); w != "" {
		body.WriteString(ind + "  when " + yq(w) + ";\n")
	}
	if st := cstr(n, "status"); st != "" {
		body.WriteString(ind + "  status " + st + ";\n")
	}
	for _, rf := range carr(n, "refines") {
		rm := rf.(map[string]any)
		var p []string
		for _, e := range carr(rm, "path") {
			p = append(p, e.(string))
		}
		if cstr(rm, "prop") == "must" {
			body.WriteString(ind + "  refine " + strings.Join(p, "/") + " {")
			for _, m := range carr(rm, "musts") {
				body.WriteString(" must " + yq(m.(string)) + ";")
			}
			body.WriteString(" }\n")
			continue
		}
		body.WriteString(ind + "  refine " + strings.Join(p, "/") + " { " + cstr(rm, "prop") + " " + yq(cstr(rm, "val")) + "; }\n")
	}
	for _, a := range carr(n, "augments") {
		am := a.(map[string]any)
		var p []string
		for _, e := range carr(am, "path") {
			p = append(p, e.(string))
		}
		body.WriteString(ind + "  augment " + strings.Join(p, "/") + " {\n")
		if w := cstr(am, "when"); w != "" {
			body.WriteString(ind + "    when " + yq(w) + ";\n")
		}
		if st := cstr(am, "status"); st != "" {
			body.WriteString(ind + "    status " + st + ";\n")
		}
		for _, k := range carr(am, "kids") {
			renderAny(&body, k.(map[string]any), ind+"    ")
		}
		body.WriteString(ind + "  }\n")
	}
	gn := cstr(n, "g")
	if t := cstr(n, "tg"); t != "" {
		gn = t
	}
	if cbool(n, "ownpfx") && !strings.Contains(gn, ":") {
		gn = "m:" + gn // the module's own prefix: the same grouping, scoped ones included
	}
	if body.Len() == 0 {
		b.WriteString(ind + "uses " + gn + ";\n")
	} else {
		b.WriteString(ind + "uses " + gn + " {\n" + body.String() + ind + "}\n")
	}
}

// renderAny: data definitions, with uses among them
func renderAny(b *strings.Builder, n map[string]any, ind string) {
	if cstr(n, "k") == "uses" {
		renderUses(b, n, ind)
		return
	}
	if !containsUses(n) {
		renderNode(b, n, ind)
		return
	}
	if cstr(n, "k") == "case" && cbool(n, "_shorthand") {
		renderAny(b, carr(n, "kids")[0].(map[string]any), ind)
		return
	}
	// a node with a uses somewhere below: render its own line with renderNode on a copy without children
	hdr := map[string]any{}
	for k, v := range n {
		if k != "kids" {
			hdr[k] = v
		}
	}
	var hb strings.Builder
	renderNode(&hb, hdr, ind)
	s := strings.TrimRight(hb.String(), "\n")
	s = strings.TrimSuffix(s, "}")
	b.WriteString(strings.TrimRight(s, " \n") + "\n")
	renderScoped(b, n, ind+"  ")
	for _, k := range carr(n, "kids") {
		renderAny(b, k.(map[string]any), ind+"  ")
	}
	b.WriteString(ind + "}\n")
}

func containsUses(n map[string]any) bool {
	for _, k := range carr(n, "kids") {
		kn := k.(map[string]any)
		if cstr(kn, "k") == "uses" || containsUses(kn) {
			return true
		}
	}
	return false
}

// groupings scoped to a node (by its name): set by yusesTexts for the rendering of one case
var scopedGroupings map[string][]map[string]any

func renderGroupings(b *strings.Builder, gs []any) {
	for _, g := range gs {
		gm := g.(map[string]any)
		if cstr(gm, "scope") != "" {
			continue // written in the body of the node it is scoped to
		}
		b.WriteString("  grouping " + cstr(gm, "n") + " {\n")
		if st := cstr(gm, "gstatus"); st != "" {
			b.WriteString("    status " + st + ";\n")
		}
		if cbool(gm, "gdesc") {
			b.WriteString("    description \"about the grouping\";\n    reference \"nowhere\";\n")
		}
		for _, k := range carr(gm, "kids") {
			renderAny(b, k.(map[string]any), "    ")
		}
		b.WriteString("  }\n")
	}
}

func renderScoped(b *strings.Builder, n map[string]any, ind string) {
	for _, gm := range scopedGroupings[cstr(n, "n")] {
		b.WriteString(ind + "grouping " + cstr(gm, "tn") + " {\n")
		for _, k := range carr(gm, "kids") {
			renderAny(b, k.(map[string]any), ind+"  ")
		}
		b.WriteString(ind + "}\n")
	}
}

func renderAugments(b *strings.Builder, as []any) {
	for _, a := range as {
		am := a.(map[string]any)
		var p []string
		for _, e := range carr(am, "path") {
			p = append(p, "m:"+e.(string))
		}
		b.WriteString("  augment /" + strings.Join(p, "/") + " {\n")
		for _, f := range carr(am, "iff") {
			b.WriteString("    if-feature " + f.(string) + ";\n")
		}
		if w := cstr(am, "when"); w != "" {
			b.WriteString("    when " + yq(w) + ";\n")
		}
		if st := cstr(am, "status"); st != "" {
			b.WriteString("    status " + st + ";\n")
		}
		for _, k := range carr(am, "kids") {
			renderAny(b, k.(map[string]any), "    ")
		}
		b.WriteString("  }\n")
	}
}

func yusesTexts(c Case) (factored []string, plain []string) {
	scopedGroupings = map[string][]map[string]any{}
	for _, g := range append(append([]any{}, carr(c, "mgroupings")...), carr(c, "bgroupings")...) {
		if gm := g.(map[string]any); cstr(gm, "scope") != "" {
			scopedGroupings[cstr(gm, "scope")] = append(scopedGroupings[cstr(gm, "scope")], gm)
		}
	}
	var m, bm, am, pm strings.Builder
	bm.WriteString("module b { namespace \"urn:b\"; prefix b;\n")
	renderGroupings(&bm, carr(c, "bgroupings"))
	bm.WriteString("}\n")
	m.WriteString("module m { namespace \"urn:m\"; prefix m; import b { prefix b; }\n")
	m.WriteString(renderFeatures(carr(c, "features")))
	renderGroupings(&m, carr(c, "mgroupings"))
	for _, k := range carr(c, "body") {
		renderAny(&m, k.(map[string]any), "  ")
	}
	renderAugments(&m, carr(c, "maugments"))
	m.WriteString("}\n")
	am.WriteString("module a2 { namespace \"urn:a2\"; prefix a2; import m { prefix m; }\n")
	renderAugments(&am, carr(c, "aaugments"))
	am.WriteString("}\n")
	pm.WriteString("module m { namespace \"urn:m\"; prefix m;\n")
	pm.WriteString(renderFeatures(carr(c, "features")))
	for _, k := range carr(c, "plain") {
		renderNode(&pm, k.(map[string]any), "  ")
	}
	pm.WriteString("}\n")
	return []string{bm.String(), m.String(), am.String()}, []string{pm.String()}
}

// the dump without namespace / module, and the namespace of every node by name
func stripNs(d *dnode, ns map[string]string) *dnode {
	out := &dnode{kind: d.kind, name: d.name, core: d.core, cfg: d.cfg}
	var keep []string
	for _, f := range strings.Fields(d.attrs) {
		switch {
		case strings.HasPrefix(f, "ns="):
			ns[d.kind+" "+d.name] = strings.TrimPrefix(f, "ns=")
		case strings.HasPrefix(f, "mod="):
		case strings.HasPrefix(f, "when="):
			// written on a uses / augment a `when` is evaluated at the parent, written in place at the node: the
			// inline module cannot say the former, so the comparison is of the expressions
			keep = append(keep, strings.SplitN(f, "/", 2)[0])
		default:
			keep = append(keep, f)
		}
	}
	out.attrs = strings.Join(keep, " ")
	for _, k := range d.kids {
		out.kids = append(out.kids, stripNs(k, ns))
	}
	return out
}

// where the when of every node of the factored module is evaluated (at the node or at its parent) against what the
// generator knows about where the expression was written
func whenContexts(d *dnode, plain []any) string {
	for _, f := range strings.Fields(d.attrs) {
		if strings.HasPrefix(f, "when=") {
			parts := strings.SplitN(f, "/", 2)
			if pn := findByName(plain, d.name); pn != nil && len(parts) == 2 {
				if want, ok := pn["whenAsParent"].(bool); ok && fmt.Sprint(want) != parts[1] {
					return fmt.Sprintf("the when of %s is evaluated at the parent: %s, expected %v", d.name, parts[1], want)
				}
			}
		}
	}
	for _, k := range d.kids {
		if r := whenContexts(k, plain); r != "" {
			return r
		}
	}
	return ""
}

func runYUses(c Case) string {
	fact, plain := yusesTexts(c)
	if os.Getenv("YV_SHOW") != "" {
		fmt.Fprintln(os.Stderr, strings.Join(fact, "\n"), "\n--- plain ---\n", strings.Join(plain, "\n"))
	}
	var enabled []string
	for _, e := range carr(c, "enabled") {
		enabled = append(enabled, e.(string))
	}
	fms, ferr := compileWith(enabled, nil, fact...)
	pms, perr := compileWith(enabled, nil, plain...)
	out := []string{"F:" + classify(ferr), "P:" + classify(perr)}
	detail := ""
	if ferr == nil && perr == nil {
		fns, pns := map[string]string{}, map[string]string{}
		fd := stripNs(dumpModelSet(fms), fns)
		pd := stripNs(dumpModelSet(pms), pns)
		whenBad := whenContexts(dumpModelSet(fms), carr(c, "plain"))
		if fd.String() == pd.String() && whenBad == "" {
			out = append(out, "tree:equal")
		} else if whenBad != "" {
			out = append(out, "tree:DIFF")
			detail = whenBad
		} else {
			out = append(out, "tree:DIFF")
			detail = firstDiff(fd.String(), pd.String())
		}
		a2 := map[string]bool{}
		for _, n := range carr(c, "a2names") {
			a2[n.(string)] = true
		}
		bad := ""
		for key, ns := range fns {
			name := key[strings.Index(key, " ")+1:]
			want := "urn:m"
			if a2[name] {
				want = "urn:a2"
			}
			if name != "" && ns != want {
				bad = fmt.Sprintf("%s has %s, expected %s", name, ns, want)
			}
		}
		if bad == "" {
			out = append(out, "ns:ok")
		} else {
			out = append(out, "ns:BAD")
			detail += " " + bad
		}
		out = append(out, "dump:\n"+dumpModelSet(fms).Core())
		if detail != "" {
			out = append(out, "detail: "+detail)
		}
	}
	return strings.Join(out, "\n")
}

func init() {
	register(&Stream{Name: "yuses", Prop: "C12", Gen: genYUses, Run: runYUses})
}
