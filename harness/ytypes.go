package main

import (
	"fmt"
	"sort"
	"strings"

	"github.com/sdcio/yang-parser/compile"
	"github.com/sdcio/yang-parser/parse"
	"github.com/sdcio/yang-parser/schema"
)

// ---- compile helper ---------------------------------------------------------------------------------

// compileTexts parses and compiles modules given as texts (name = statement argument).
func compileTexts(filter compile.SchemaFilter, texts ...string) (ms schema.ModelSet, err error) {
	defer func() {
		if r := recover(); r != nil {
			ms, err = nil, fmt.Errorf("PANIC: %v", r)
		}
	}()
	mods := map[string]*parse.Tree{}
	for i, t := range texts {
		tr, e := parse.Parse(fmt.Sprintf("mod%d.yang", i), t, nil)
		if e != nil {
			return nil, fmt.Errorf("parse: %w", e)
		}
		mods[tr.Root.Argument().String()] = tr
	}
	if filter == nil {
		filter = compile.Include(compile.IsConfig, compile.IncludeState(true))
	}
	ms, _, err = compile.CompileModulesWithWarnings(nil, mods, "", false, filter)
	return ms, err
}

// compileTextsRaw hands the filter on as it is (nil = the API's "no filter")
func compileTextsRaw(filter compile.SchemaFilter, texts ...string) (ms schema.ModelSet, err error) {
	defer func() {
		if r := recover(); r != nil {
			ms, err = nil, fmt.Errorf("PANIC: %v", r)
		}
	}()
	mods := map[string]*parse.Tree{}
	for i, t := range texts {
		tr, e := parse.Parse(fmt.Sprintf("mod%d.yang", i), t, nil)
		if e != nil {
			return nil, fmt.Errorf("parse: %w", e)
		}
		mods[tr.Root.Argument().String()] = tr
	}
	ms, _, err = compile.CompileModulesWithWarnings(nil, mods, "", false, filter)
	return ms, err
}

// ---- C13 / C16: derived types, value validation -------------------------------------------------------

var typeBases = []string{"int8", "int16", "int32", "int64", "uint8", "uint16", "uint32", "uint64", "decimal64:1", "decimal64:3", "decimal64:12", "decimal64:18", "string", "boolean", "empty", "enumeration:a:b:c-d"}

func baseBounds(base string) (lo, hi string, dec bool, fd int) {
	switch base {
	case "int8":
		return "-128", "127", false, 0
	case "int16":
		return "-32768", "32767", false, 0
	case "int32":
		return "-2147483648", "2147483647", false, 0
	case "int64":
		return "-9223372036854775808", "9223372036854775807", false, 0
	case "uint8":
		return "0", "255", false, 0
	case "uint16":
		return "0", "65535", false, 0
	case "uint32":
		return "0", "4294967295", false, 0
	case "uint64":
		return "0", "18446744073709551615", false, 0
	case "string":
		return "0", "4294967295", false, 0
	}
	if strings.HasPrefix(base, "decimal64:") {
		fmt.Sscanf(base, "decimal64:%d", &fd)
		return "", "", true, fd
	}
	return "", "", false, 0
}

func smallVal(r *Rng, base string) string {
	_, _, dec, fd := baseBounds(base)
	v := r.Intn(60) - 20
	if strings.HasPrefix(base, "uint") || base == "string" {
		v = r.Intn(50)
	}
	if dec {
		if r.Bool() {
			f := r.Intn(10)
			if fd >= 2 && r.Bool() {
				return fmt.Sprintf("%d.%d%d", v, f, r.Intn(10))
			}
			return fmt.Sprintf("%d.%d", v, f)
		}
	}
	return fmt.Sprint(v)
}

func boundaryVal(r *Rng, base string) string {
	lo, hi, dec, fd := baseBounds(base)
	if dec {
		// ±(2^63 | 2^63-1)/10^fd and neighbours
		digits := pick(r, []string{"9223372036854775807", "9223372036854775808", "9223372036854775806", "9223372036854775810", "922337203685477580"})
		for len(digits) <= fd {
			digits = "0" + digits
		}
		s := digits[:len(digits)-fd] + "." + digits[len(digits)-fd:]
		if r.Bool() {
			s = "-" + s
		}
		return s
	}
	if lo == "" {
		return "0"
	}
	return pick(r, []string{lo, hi})
}

func genRestr(r *Rng, base string) []any {
	n := 1 + r.Intn(3)
	var vals []string
	for i := 0; i < 2*n; i++ {
		if r.Chance(12) {
			vals = append(vals, boundaryVal(r, base))
		} else {
			vals = append(vals, smallVal(r, base))
		}
	}
	_, _, dec, _ := baseBounds(base)
	if r.Chance(80) { // mostly ascending
		sort.Slice(vals, func(i, j int) bool {
			var a, b float64
			fmt.Sscan(vals[i], &a)
			fmt.Sscan(vals[j], &b)
			return a < b
		})
	}
	_ = dec
	var parts []any
	for i := 0; i < n; i++ {
		lo, hi := vals[2*i], vals[2*i+1]
		if r.Chance(25) {
			hi = lo
		}
		if i == 0 && r.Chance(25) {
			lo = "min"
		}
		if i == n-1 && r.Chance(25) {
			hi = "max"
		}
		if r.Chance(4) {
			lo = pick(r, []string{"max", "1.5", "-1", "007", "min"})
		}
		// the keyword alone: the single value min (first part) or max (last part) of the base — or misplaced
		if i == n-1 && r.Chance(12) {
			lo, hi = "max", "max"
		} else if i == 0 && r.Chance(8) {
			lo, hi = "min", "min"
		} else if r.Chance(2) {
			lo = pick(r, []string{"max", "min"})
			hi = lo
		}
		parts = append(parts, []any{lo, hi})
	}
	return parts
}

func genTypesCase(r *Rng) Case {
	base := pick(r, typeBases)
	if r.Chance(12) {
		base = "string" // (length restrictions have a path of their own through the compiler)
	}
	nlev := 1 + r.Intn(3)
	var levels []any
	for i := 0; i < nlev; i++ {
		lv := map[string]any{}
		isStr := base == "string"
		if r.Chance(65) {
			lv["restr"] = genRestr(r, base)
			lv["isLength"] = isStr
			if r.Chance(4) {
				lv["isLength"] = !isStr // restriction kind that does not apply
			}
		}
		if r.Chance(35) {
			switch {
			case base == "boolean":
				lv["dflt"] = pick(r, []string{"true", "false", "TRUE", "1"})
			case base == "empty":
				lv["dflt"] = pick(r, []string{"", "x"})
			case strings.HasPrefix(base, "enumeration"):
				lv["dflt"] = pick(r, []string{"a", "b", "c-d", "e"})
			case isStr:
				lv["dflt"] = pick(r, []string{"", "a", "abc", "éé", "hello world", "0123456789"})
			default:
				lv["dflt"] = smallVal(r, base)
			}
		}
		if i > 0 && strings.HasPrefix(base, "decimal64:") && r.Chance(25) {
			// a derived type statement that restates fraction-digits: the digits of a decimal64 are those of
			// its definition, whatever a derived type says
			lv["fd"] = 1 + r.Intn(18)
		}
		if i > 0 && r.Chance(40) {
			// a restriction written against the one below: single values just above, just below, inside, in a gap
			if prev, ok := levels[i-1].(map[string]any)["restr"].([]any); ok && cbool(levels[i-1].(map[string]any), "isLength") == isStr {
				if r.Chance(70) {
					// ... which is mostly put in order first (ascending, apart), so that the one above is what decides
					if t := tidyRestr(prev); t != nil {
						prev = t
						levels[i-1].(map[string]any)["restr"] = t
					}
				}
				if d := deriveRestr(r, prev); d != nil {
					lv["restr"], lv["isLength"] = d, isStr
				}
			}
		}
		levels = append(levels, lv)
	}
	// probes: small values, every written bound ±1, base bounds ±1, lexical oddities
	probeSet := map[string]bool{}
	add := func(s string) { probeSet[s] = true }
	for _, l := range levels {
		if rs, ok := l.(map[string]any)["restr"].([]any); ok {
			for _, p := range rs {
				for _, b := range p.([]any) {
					bs := b.(string)
					add(bs)
					var v int64
					if n, _ := fmt.Sscan(bs, &v); n == 1 && !strings.Contains(bs, ".") {
						add(fmt.Sprint(v - 1))
						add(fmt.Sprint(v + 1))
					}
				}
			}
		}
	}
	lo, hi, dec, fd := baseBounds(base)
	if dec && fd <= 12 {
		// every written bound one unit of the last fraction digit up and down (few enough digits for the binary64
		// boundaries of the code to tell them apart: the comparison is exact there)
		for _, l := range levels {
			if rs, ok := l.(map[string]any)["restr"].([]any); ok {
				for _, p := range rs {
					for _, b := range p.([]any) {
						if up, down, ok := decNeighbours(b.(string), fd); ok {
							add(up)
							add(down)
						}
					}
				}
			}
		}
	}
	for _, s := range []string{lo, hi, "0", "-1", "1", "+5", "-0", "-00", "-", "+-0", "-+0", "007", "", " 1", "1 ", "1.0", "1.5", "0x10", "1e3", "abc", "true", "a", "c-d", "éé", "aé€", "--1", "+", "1.", ".5", "1_0", "NaN", "Inf", "9223372036854775808", "-9223372036854775809", "18446744073709551616", "256", "-129", "128"} {

		add(s)
	}
	if dec {
		for i := 0; i < 6; i++ {
			add(boundaryVal(r, base))
			add(smallVal(r, base))
		}
		add("1.123456789012345678")
		add("0.1234567890123456789")
	}
	for i := 0; i < 8; i++ {
		add(smallVal(r, base))
	}
	// lexical forms: random sequences of up to four tokens over signs, digits, the dot, blanks and letters
	// (every short sequence is reached over the cases of a run)
	for i := 0; i < 24; i++ {
		n := 1 + r.Intn(4)
		var sb strings.Builder
		for j := 0; j < n; j++ {
			sb.WriteString(pick(r, []string{"+", "-", "0", "1", "5", "9", ".", " ", "e", "x", "true", "a"}))
		}
		if v := sb.String(); !(strings.HasPrefix(base, "uint") && strings.HasPrefix(v, "-")) {
			add(v)
		}
	}
	if base == "string" {
		for _, n := range []int{0, 1, 2, 3, 5, 10, 20, 49, 50} {
			add(strings.Repeat("x", n))
			add(strings.Repeat("é", n))
		}
	}
	var probes []any
	keys := make([]string, 0, len(probeSet))
	for k := range probeSet {
		keys = append(keys, k)
	}
	sort.Strings(keys)
	for _, k := range keys {
		probes = append(probes, k)
	}
	return Case{"k": "ytypes", "base": base, "levels": levels, "probes": probes}
}

// the decimal text ± 10^-fd
func decNeighbours(txt string, fd int) (string, string, bool) {
	neg := strings.HasPrefix(txt, "-")
	t := strings.TrimPrefix(strings.TrimPrefix(txt, "-"), "+")
	ip, fp, _ := strings.Cut(t, ".")
	if ip == "" || len(fp) > fd || strings.Trim(ip+fp, "0123456789") != "" || len(ip) > 6 {
		return "", "", false
	}
	var v int64
	fmt.Sscan(ip+fp+strings.Repeat("0", fd-len(fp)), &v)
	if neg {
		v = -v
	}
	show := func(x int64) string {
		sign := ""
		if x < 0 {
			sign, x = "-", -x
		}
		d := fmt.Sprint(x)
		for len(d) <= fd {
			d = "0" + d
		}
		return sign + d[:len(d)-fd] + "." + d[len(d)-fd:]
	}
	return show(v + 1), show(v - 1), true
}

// the integer bounds of a restriction, sorted, as parts that lie apart
func tidyRestr(prev []any) []any {
	var vs []int64
	seen := map[int64]bool{}
	for _, p := range prev {
		for _, b := range p.([]any) {
			var x int64
			if n, _ := fmt.Sscan(b.(string), &x); n == 1 && fmt.Sprint(x) == b.(string) && !seen[x] && !seen[x-1] && !seen[x+1] && x < 1000 && x > -1000 {
				seen[x] = true
				vs = append(vs, x)
			}
		}
	}
	sort.Slice(vs, func(i, j int) bool { return vs[i] < vs[j] })
	if len(vs) < 2 {
		return nil
	}
	var out []any
	for i := 0; i+1 < len(vs); i += 2 {
		out = append(out, []any{fmt.Sprint(vs[i]), fmt.Sprint(vs[i+1])})
	}
	return out
}

func deriveRestr(r *Rng, prev []any) []any {
	var b [][2]int64
	for _, p := range prev {
		var lo, hi int64
		pp := p.([]any)
		for k, x := range []*int64{&lo, &hi} {
			t := pp[k].(string)
			if n, _ := fmt.Sscan(t, x); n != 1 || fmt.Sprint(*x) != t {
				return nil
			}
		}
		b = append(b, [2]int64{lo, hi})
	}
	one := func(v int64) []any { return []any{fmt.Sprint(v), fmt.Sprint(v)} }
	first, last := b[0], b[len(b)-1]
	num := func(v int64) string { return fmt.Sprint(v) }
	switch r.Intn(11) {
	// the keywords stand for the bounds of the restriction below, not of the built-in type
	case 6:
		return []any{[]any{"min", num(first[1])}}
	case 7:
		return []any{[]any{"min", "min"}}
	case 8:
		return []any{[]any{num(last[0]), "max"}}
	case 9:
		return []any{[]any{"min", num(first[0])}, []any{num(last[1]), "max"}}
	case 10:
		return []any{[]any{"min", "max"}}
	case 0:
		return append(deepCopy(prev).([]any), one(last[1]+1+int64(r.Intn(3))))
	case 1:
		return append([]any{one(first[0] - 1 - int64(r.Intn(3)))}, deepCopy(prev).([]any)...)
	case 2:
		return []any{one(last[1] + 1 + int64(r.Intn(2)))}
	case 3:
		return []any{one(first[0]), one(last[1])}
	case 4:
		if len(b) > 1 && b[0][1]+1 < b[1][0] {
			return []any{one(b[0][1] + 1)}
		}
		return []any{one(first[0] + (first[1]-first[0])/2)}
	default:
		return []any{[]any{fmt.Sprint(first[0]), fmt.Sprint(first[1])}, one(last[1] + 1)}
	}
}

func genYTypes(r *Rng, tier string, n int, emit func(Case)) {
	for i := 0; i < n; i++ {
		emit(genTypesCase(r))
	}
}

func yq(s string) string {
	return "\"" + strings.NewReplacer("\\", "\\\\", "\"", "\\\"").Replace(s) + "\""
}

func typesModule(c Case) string {
	base := cstr(c, "base")
	levels := carr(c, "levels")
	var b strings.Builder
	b.WriteString("module m { namespace \"urn:m\"; prefix m;\n")
	typeStmt := func(i int, name string) string {
		lv := levels[i].(map[string]any)
		var body strings.Builder
		if i == 0 {
			if strings.HasPrefix(base, "decimal64:") {
				body.WriteString(" fraction-digits " + strings.TrimPrefix(base, "decimal64:") + ";")
			}
			if strings.HasPrefix(base, "enumeration:") {
				for _, e := range strings.Split(base, ":")[1:] {
					body.WriteString(" enum " + e + ";")
				}
			}
		}
		if fd, ok := lv["fd"]; ok {
			body.WriteString(fmt.Sprintf(" fraction-digits %v;", fd))
		}
		if rs, ok := lv["restr"].([]any); ok {
			var parts []string
			for _, p := range rs {
				pp := p.([]any)
				if pp[0] == pp[1] {
					parts = append(parts, pp[0].(string))
				} else {
					parts = append(parts, pp[0].(string)+".."+pp[1].(string))
				}
			}
			kw := "range"
			if cbool(lv, "isLength") {
				kw = "length"
			}
			body.WriteString(" " + kw + " " + yq(strings.Join(parts, " | ")) + ";")
		}
		if body.Len() == 0 {
			return "type " + name + ";"
		}
		return "type " + name + " {" + body.String() + " }"
	}
	baseName := strings.Split(base, ":")[0]
	prev := baseName
	for i := 0; i < len(levels); i++ {
		lv := levels[i].(map[string]any)
		def := ""
		if d, ok := lv["dflt"].(string); ok {
			def = " default " + yq(d) + ";"
		}
		if i == len(levels)-1 {
			b.WriteString("  leaf x { " + typeStmt(i, prev) + def + " }\n")
		} else {
			tn := fmt.Sprintf("t%d", i)
			b.WriteString("  typedef " + tn + " { " + typeStmt(i, prev) + def + " }\n")
			prev = tn
		}
	}
	b.WriteString("}\n")
	return b.String()
}

func runYTypes(c Case) string {
	text := typesModule(c)
	ms, err := compileTexts(nil, text)
	if err != nil {
		if strings.HasPrefix(err.Error(), "PANIC") {
			return err.Error()
		}
		return "compile-err"
	}
	x := ms.Child("x")
	if x == nil {
		return "no-leaf"
	}
	t := x.Type()
	d := "d=none"
	if dv, ok := t.Default(); ok {
		d = "d=" + fmt.Sprintf("%x", dv)
	}
	var bits strings.Builder
	for _, p := range carr(c, "probes") {
		if t.Validate(nil, []string{"x"}, p.(string)) == nil {
			bits.WriteByte('1')
		} else {
			bits.WriteByte('0')
		}
	}
	return "ok " + d + " probes=" + bits.String()
}

func init() {
	register(&Stream{Name: "ytypes", Prop: "C13", Gen: genYTypes, Run: runYTypes})
}
