package main

import (
	"strings"
)

// ---- C19: several modules — nodes augmented in by (or defined at the top of) another module -------------------

var encMods = []string{"m", "a", "b"} // a imports m; b imports m and a: a node's module is never earlier than its parent's

func assignMods(r *Rng, kids []any, parentRank int, keys map[string]bool, pct int) {
	for _, k := range kids {
		n := k.(map[string]any)
		rank := parentRank
		if !keys[cstr(n, "n")] && rank < 2 && r.Chance(pct) {
			rank += 1 + r.Intn(2-rank)
			n["mod"] = encMods[rank]
		}
		if rank > 0 {
			// an unqualified identity name is one of the leaf's own module: `local` lives in m
			if ty, ok := n["type"].(map[string]any); ok && strings.HasPrefix(cstr(ty, "base"), "identityref") {
				var vs []any
				for _, v := range carr(ty, "valid") {
					if strings.Contains(v.(string), ":") {
						vs = append(vs, v)
					}
				}
				ty["valid"] = vs
			}
		}
		ks := map[string]bool{}
		for _, kk := range carr(n, "keys") {
			ks[kk.(string)] = true
		}
		assignMods(r, carr(n, "kids"), rank, ks, pct)
	}
}

type encForeign struct {
	node map[string]any
	mod  string
	path string // schema path of the augment target; "" = top level of the module
}

func collectForeign(kids []any, effMod, parentPath string, top bool, out *[]encForeign) {
	for _, k := range kids {
		n := k.(map[string]any)
		kmod := effMod
		if m := cstr(n, "mod"); m != "" {
			kmod = m
		}
		if top || kmod != effMod {
			n["removed"] = true
			p := parentPath
			if top {
				p = ""
			}
			*out = append(*out, encForeign{n, kmod, p})
		}
		collectForeign(carr(n, "kids"), kmod, parentPath+"/"+kmod+":"+cstr(n, "n"), false, out)
	}
}

// the module texts for a schema whose nodes carry "mod"
func renderEncModules(top []any) []string {
	var recs []encForeign
	collectForeign(top, "m", "", true, &recs)
	bodies := map[string]*strings.Builder{}
	for _, m := range encMods {
		bodies[m] = &strings.Builder{}
	}
	for _, rec := range recs {
		b := bodies[rec.mod]
		delete(rec.node, "removed")
		if rec.path == "" {
			renderNode(b, rec.node, "  ")
		} else {
			b.WriteString("  augment " + yq(rec.path) + " {\n")
			renderNode(b, rec.node, "    ")
			b.WriteString("  }\n")
		}
		rec.node["removed"] = true
	}
	for _, rec := range recs {
		delete(rec.node, "removed")
	}
	heads := map[string]string{
		"m": "module m { namespace \"urn:m\"; prefix m; import idm { prefix idm; }\n  identity local { base idm:base; }\n",
		"a": "module a { namespace \"urn:a\"; prefix a; import idm { prefix idm; } import m { prefix m; }\n",
		"b": "module b { namespace \"urn:b\"; prefix b; import idm { prefix idm; } import m { prefix m; } import a { prefix a; }\n",
	}
	var texts []string
	for _, m := range encMods {
		texts = append(texts, heads[m]+bodies[m].String()+"}\n")
	}
	return texts
}
