// yvharness — generates cases, runs the real sdcio/yang-parser code on them in-process, and prints
// canonical observations, one JSON object per line.  The Lean driver (yvdrv) consumes the same case
// lines; bin/check diffs the two output streams.
package main

import (
	"bufio"
	"encoding/json"
	"flag"
	"fmt"
	"os"
	"sort"
	"strings"
)

type Case map[string]any

// Stream is one correspondence stream of one property.
type Stream struct {
	Name string
	Prop string
	// Gen emits n (or, for exhaustive streams, all) cases.
	Gen func(r *Rng, tier string, n int, emit func(Case))
	// Run executes the real code on one case and returns the canonical observation.
	Run func(c Case) string
}

var streams = map[string]*Stream{}

func register(s *Stream) { streams[s.Name] = s }

func main() {
	if len(os.Args) < 3 {
		fmt.Fprintln(os.Stderr, "usage: yvharness gen|run|list <stream> [flags]")
		os.Exit(2)
	}
	cmd, name := os.Args[1], os.Args[2]
	fs := flag.NewFlagSet(cmd, flag.ExitOnError)
	seed := fs.Uint64("seed", 1, "PRNG seed")
	n := fs.Int("n", 1000, "number of cases")
	tier := fs.String("tier", "quick", "quick|thorough")
	corpus := fs.String("corpus", "", "corpus file whose cases are emitted first")
	fs.Parse(os.Args[3:])
	if cmd == "list" {
		var names []string
		for k, s := range streams {
			if name == "all" || s.Prop == name {
				names = append(names, k)
			}
		}
		sort.Strings(names)
		fmt.Println(strings.Join(names, " "))
		return
	}
	s, ok := streams[name]
	if !ok {
		fmt.Fprintln(os.Stderr, "unknown stream", name)
		os.Exit(2)
	}
	out := bufio.NewWriterSize(os.Stdout, 1<<20)
	defer out.Flush()
	enc := json.NewEncoder(out)
	enc.SetEscapeHTML(false)
	switch cmd {
	case "gen":
		id := 0
		emit := func(c Case) {
			id++
			c["id"] = id
			if _, ok := c["k"]; !ok {
				c["k"] = s.Name
			}
			enc.Encode(c)
		}
		if *corpus != "" {
			if f, err := os.Open(*corpus); err == nil {
				sc := bufio.NewScanner(f)
				sc.Buffer(make([]byte, 1<<20), 1<<26)
				for sc.Scan() {
					var c Case
					if json.Unmarshal(sc.Bytes(), &c) == nil {
						emit(c)
					}
				}
				f.Close()
			}
		}
		s.Gen(NewRng(*seed^hashName(s.Name)), *tier, *n, emit)
	case "dump":
		// development aid: yvharness dump <stream> file.yang ... : compile the files and print the schema dump
		var texts []string
		for _, f := range fs.Args() {
			b, err := os.ReadFile(f)
			if err != nil {
				fmt.Fprintln(os.Stderr, err)
				os.Exit(2)
			}
			texts = append(texts, string(b))
		}
		ms, err := compileWith(nil, nil, texts...)
		if err != nil {
			fmt.Println("error:", err)
			return
		}
		fmt.Print(dumpModelSet(ms).String())
	case "run":
		sc := bufio.NewScanner(os.Stdin)
		sc.Buffer(make([]byte, 1<<20), 1<<26)
		for sc.Scan() {
			var c Case
			dec := json.NewDecoder(strings.NewReader(sc.Text()))
			dec.UseNumber()
			if err := dec.Decode(&c); err != nil {
				continue
			}
			obs := safeRun(s, c)
			enc.Encode(map[string]any{"id": c["id"], "i": obs})
			out.Flush()
			if strings.Contains(obs, "DIVERGED") {
				// the call that did not return is still running (it cannot be stopped) and eats the processor:
				// after a few of them this process is of no use any more; the cases left are run by a fresh one
				divergedSeen++
				if divergedSeen >= 3 {
					os.Exit(7)
				}
			}
		}
	default:
		fmt.Fprintln(os.Stderr, "unknown command", cmd)
		os.Exit(2)
	}
}

var divergedSeen int

// safeRun turns a panic that escapes the code under test into an observation.
func safeRun(s *Stream, c Case) (obs string) {
	defer func() {
		if r := recover(); r != nil {
			obs = fmt.Sprintf("PANIC:%v", r)
		}
	}()
	return s.Run(c)
}

func hashName(s string) uint64 {
	var h uint64 = 1469598103934665603
	for i := 0; i < len(s); i++ {
		h ^= uint64(s[i])
		h *= 1099511628211
	}
	return h
}

// Rng is splitmix64: every random choice of a run derives from VERIF_SEED.
type Rng struct{ s uint64 }

func NewRng(seed uint64) *Rng { return &Rng{s: seed} }
func (r *Rng) U64() uint64 {
	r.s += 0x9e3779b97f4a7c15
	z := r.s
	z = (z ^ (z >> 30)) * 0xbf58476d1ce4e5b9
	z = (z ^ (z >> 27)) * 0x94d049bb133111eb
	return z ^ (z >> 31)
}
func (r *Rng) Intn(n int) int {
	if n <= 0 {
		return 0
	}
	return int(r.U64() % uint64(n))
}
func (r *Rng) Bool() bool     { return r.U64()&1 == 1 }
func (r *Rng) Chance(p int) bool { return r.Intn(100) < p }
func pick[T any](r *Rng, xs []T) T { return xs[r.Intn(len(xs))] }

// helpers for reading cases
func cstr(c map[string]any, k string) string {
	if v, ok := c[k].(string); ok {
		return v
	}
	return ""
}
func cint(c map[string]any, k string) int {
	switch v := c[k].(type) {
	case json.Number:
		i, _ := v.Int64()
		return int(i)
	case float64:
		return int(v)
	case int:
		return v
	}
	return 0
}
func cbool(c map[string]any, k string) bool {
	v, _ := c[k].(bool)
	return v
}
func cmap(c map[string]any, k string) map[string]any {
	v, _ := c[k].(map[string]any)
	return v
}
func carr(c map[string]any, k string) []any {
	v, _ := c[k].([]any)
	return v
}
