package main

import (
	gocontext "context"

	sdcpb "github.com/sdcio/sdc-protos/sdcpb"
	"github.com/sdcio/yang-parser/xpath"
)

// datumEntry: an Entry whose every node has the given datum as value (used to feed exact doubles).
type datumEntry struct{ d xpath.Datum }

func (e *datumEntry) Navigate(path *sdcpb.Path) (xpath.Entry, error) { return e, nil }
func (e *datumEntry) GetValue() (xpath.Datum, error)                  { return e.d, nil }
func (e *datumEntry) Copy() xpath.Entry                               { return e }
func (e *datumEntry) FollowLeafRef() (xpath.Entry, error)             { return e, nil }
func (e *datumEntry) GetSdcpbPath() *sdcpb.Path                       { return &sdcpb.Path{} }
func (e *datumEntry) BreadthSearch(ctx gocontext.Context, path *sdcpb.Path) ([]xpath.Entry, error) {
	return nil, nil
}
