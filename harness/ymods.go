package main

import (
	"fmt"
	"github.com/sdcio/yang-parser/compile"
	"github.com/sdcio/yang-parser/parse"
	"github.com/sdcio/yang-parser/schema"
	"os"
	"sort"
	"strings"
)

// ---- C11: compilation is total and deterministic ------------------------------------------------------------
//
// Three modules ma <- mb <- mc (mc also imports ma) full of cross references: features depending on
// features, identities on identities, typedef chains, groupings using groupings, augments and deviations of
// ma's nodes from mb and mc.  One fault (a cycle of some kind, a dangling reference, a duplicate) may be
// injected.  The set is compiled several times; the verdict and the dump must not change.

type mspec = map[string]any

func q(mod, n string) string { return mod + ":" + n }

func genYModsCase(r *Rng) Case {
	mods := []string{"ma", "mb", "mc"}
	imports := map[string][]string{"ma": {}, "mb": {"ma"}, "mc": {"ma", "mb"}}
	visible := func(from string) []string { return append([]string{from}, imports[from]...) }
	var specs []any
	all := map[string]mspec{}
	// half of the cases use the same local names for the features, identities and typedefs of every module
	// (a definition is identified by module and name, never by its name alone)
	shared := r.Chance(50)
	for _, m := range mods {
		s := mspec{"name": m}
		nf, ni, nt, ng := 2+r.Intn(2), 2+r.Intn(2), 2+r.Intn(2), 2+r.Intn(2)
		dn := m
		if shared {
			dn = "x"
		}
		var feats, idents, tdefs, groups []any
		for i := 0; i < nf; i++ {
			feats = append(feats, mspec{"n": fmt.Sprintf("%sf%d", dn, i)})
		}
		for i := 0; i < ni; i++ {
			idents = append(idents, mspec{"n": fmt.Sprintf("%si%d", dn, i), "base": ""})
		}
		for i := 0; i < nt; i++ {
			tdefs = append(tdefs, mspec{"n": fmt.Sprintf("%st%d", dn, i), "base": pick(r, []string{"int8", "string", "uint16"})})
		}
		for i := 0; i < ng; i++ {
			groups = append(groups, mspec{"n": fmt.Sprintf("%sg%d", dn, i), "leaf": fmt.Sprintf("%sgl%d", m, i)})
		}
		s["features"], s["identities"], s["typedefs"], s["groupings"] = feats, idents, tdefs, groups
		all[m] = s
		specs = append(specs, s)
	}
	// acyclic cross references: only to definitions of an earlier module, or earlier in the same module
	for mi, m := range mods {
		s := all[m]
		earlier := func(kind string, self int) []string {
			var out []string
			for _, vm := range visible(m) {
				for j, d := range carr(all[vm], kind) {
					if vm != m || j < self {
						out = append(out, q(vm, cstr(d.(mspec), "n")))
					}
				}
			}
			return out
		}
		for i, f := range carr(s, "features") {
			var deps []any
			for _, c := range earlier("features", i) {
				if r.Chance(30) {
					deps = append(deps, c)
				}
			}
			f.(mspec)["iff"] = deps
		}
		for i, d := range carr(s, "identities") {
			if c := earlier("identities", i); len(c) > 0 && r.Chance(70) {
				d.(mspec)["base"] = pick(r, c)
			}
		}
		for i, d := range carr(s, "typedefs") {
			if c := earlier("typedefs", i); len(c) > 0 && r.Chance(60) {
				d.(mspec)["base"] = pick(r, c)
			}
		}
		for i, d := range carr(s, "groupings") {
			var uses []any
			for _, c := range earlier("groupings", i) {
				if r.Chance(35) {
					uses = append(uses, c)
				}
			}
			d.(mspec)["uses"] = uses
			d.(mspec)["nest"] = "container" // two direct uses that share a grouping would clash on its leaf
		}
		// data: a container with leaves of the module's typedefs, identityrefs, a uses, if-features
		var leaves []any
		for i, t := range earlier("typedefs", 99) {
			if r.Chance(50) {
				leaves = append(leaves, mspec{"n": fmt.Sprintf("%sl%d", m, i), "type": t, "iff": pickSome(r, earlier("features", 99), 25)})
			}
		}
		for i, id := range earlier("identities", 99) {
			if r.Chance(30) {
				leaves = append(leaves, mspec{"n": fmt.Sprintf("%sr%d", m, i), "type": "identityref", "base": id})
			}
		}
		s["leaves"] = leaves
		s["uses"] = pickSome(r, earlier("groupings", 99), 40)
		if mi > 0 { // augment and deviate ma
			s["augleaf"] = fmt.Sprintf("%saug", m)
			if m == "mc" && r.Chance(50) {
				s["noteaug"] = true // ... and a container inside ma's notification
			}
			if r.Chance(60) {
				s["deviate"] = map[string]string{"mb": "add-default", "mc": "add-config"}[m]
			}
		}
	}
	// submodules (of mc): mc includes mcs1, which may include mcs2; mc may or may not list mcs2 itself
	if r.Chance(50) {
		s1 := mspec{"name": "mcs1", "includes": []any{}}
		s2 := mspec{"name": "mcs2", "includes": []any{}}
		inc := []any{"mcs1"}
		if r.Chance(60) {
			s1["includes"] = []any{"mcs2"}
			if r.Chance(50) {
				inc = append(inc, "mcs2")
			}
		} else {
			inc = append(inc, "mcs2")
		}
		if r.Chance(40) {
			s1["imports"] = []any{"ma"} // a module mc imports anyway
		}
		all["mc"]["subs"] = []any{s1, s2}
		if len(inc) == 1 && len(carr(s1, "includes")) == 1 && r.Chance(60) {
			// a chain of three: mc includes mcs1 only, mcs1 mcs2, mcs2 mcs3 — what mcs3 imports reaches mc through two others
			s3 := mspec{"name": "mcs3", "includes": []any{}}
			s2["includes"] = []any{"mcs3"}
			all["mc"]["subs"] = []any{s1, s2, s3}
		}
		all["mc"]["includes"] = inc
		if cstr(all["mc"], "deviate") == "add-config" && r.Chance(50) {
			// the deviation of mc written in its submodule mcs1 (which imports ma for it): a deviation of the module all the same
			s1["deviate"] = "add-config"
			s1["imports"] = []any{"ma"}
			delete(all["mc"], "deviate")
		}
		if r.Chance(50) {
			s1["subrpc"] = true // an rpc and a notification written in the submodule: the module's
		}
		if r.Chance(60) {
			// groupings in the submodules: one of mcs2 whose body uses another of its own, used from the other files of the
			// module (whichever of them is walked first)
			s2["grp"] = true
			if len(carr(s1, "includes")) == 1 {
				s1["usesSub"] = "mcs2"
			}
			if len(inc) == 2 && r.Chance(70) {
				all["mc"]["usesSub"] = "mcs2"
			}
		}
	}
	c := Case{"k": "ymods", "mods": specs, "extraImports": []any{}, "fault": "none"}
	// one fault in 45 % of the cases
	if r.Chance(45) {
		m := pick(r, mods)
		s := all[m]
		first := func(kind string) mspec { return carr(s, kind)[0].(mspec) }
		last := func(kind string) mspec { l := carr(s, kind); return l[len(l)-1].(mspec) }
		f := pick(r, []string{"feature-cycle", "identity-cycle", "typedef-cycle-used", "typedef-cycle-unused", "grouping-cycle", "grouping-cycle-nested",
			"import-cycle", "import-self", "import-missing", "unknown-prefix", "unknown-typedef", "unknown-grouping", "unknown-feature", "unknown-identity",
			"dup-feature", "dup-identity", "dup-typedef", "dup-grouping", "bad-augment-path", "dev-race", "include-cycle", "include-missing",
			"sub-import-missing", "sub-import-cycle", "orphan-submodule", "orphan-submodule", "ref-status", "ref-status", "ref-status", "sub-identity",
			"sub-import-missing", "sub-import-cycle", "sub-import-missing", "sub-import-cycle", "sub-feature-cycle", "uses-augment-abs"})
		if modsOnlyStatus {
			f = "ref-status"
		}
		if (f == "include-cycle" || f == "include-missing" || f == "sub-import-missing" || f == "sub-import-cycle" || f == "sub-identity" || f == "sub-feature-cycle") && all["mc"]["subs"] == nil {
			f = "feature-cycle"
		}
		c["fault"] = f
		c["faultMod"] = m
		switch f {
		case "feature-cycle":
			first("features")["iff"] = append(carr(first("features"), "iff"), q(m, cstr(last("features"), "n")))
			last("features")["iff"] = append(carr(last("features"), "iff"), q(m, cstr(first("features"), "n")))
		case "identity-cycle":
			first("identities")["base"] = q(m, cstr(last("identities"), "n"))
			last("identities")["base"] = q(m, cstr(first("identities"), "n"))
		case "typedef-cycle-used", "typedef-cycle-unused":
			first("typedefs")["base"] = q(m, cstr(last("typedefs"), "n"))
			last("typedefs")["base"] = q(m, cstr(first("typedefs"), "n"))
			var keep []any
			for _, l := range carr(s, "leaves") {
				if !strings.Contains(cstr(l.(mspec), "type"), ":") || strings.HasPrefix(cstr(l.(mspec), "type"), "identityref") {
					keep = append(keep, l)
				}
			}
			for _, om := range mods { // nobody else may reach into the cycle either
				var k2 []any
				for _, l := range carr(all[om], "leaves") {
					t := cstr(l.(mspec), "type")
					if t == "identityref" || !strings.HasPrefix(t, m+":") {
						k2 = append(k2, l)
					}
				}
				all[om]["leaves"] = k2
				for _, td := range carr(all[om], "typedefs") {
					if om != m && strings.HasPrefix(cstr(td.(mspec), "base"), m+":") {
						td.(mspec)["base"] = "string"
					}
				}
			}
			keep = carr(s, "leaves")
			if f == "typedef-cycle-used" {
				keep = append(keep, mspec{"n": m + "cyc", "type": q(m, cstr(first("typedefs"), "n"))})
			}
			s["leaves"] = keep
			// the other typedefs of the module must not sit on the cycle's tail
			for _, td := range carr(s, "typedefs")[1 : len(carr(s, "typedefs"))-1] {
				td.(mspec)["base"] = "string"
			}
		case "grouping-cycle", "grouping-cycle-nested":
			first("groupings")["uses"] = append(carr(first("groupings"), "uses"), q(m, cstr(last("groupings"), "n")))
			last("groupings")["uses"] = append(carr(last("groupings"), "uses"), q(m, cstr(first("groupings"), "n")))
			if f == "grouping-cycle-nested" {
				first("groupings")["nest"] = "container"
				last("groupings")["nest"] = "container"
			} else {
				first("groupings")["nest"] = "direct"
				last("groupings")["nest"] = "direct"
			}
		case "import-cycle":
			c["extraImports"] = []any{[]any{"ma", "mc"}}
		case "sub-import-missing":
			// an import written only in a submodule is an import of the module
			deep := carr(all["mc"], "subs")[len(carr(all["mc"], "subs"))-1].(mspec) // the one furthest from the module
			if r.Chance(40) {
				deep = carr(all["mc"], "subs")[0].(mspec)
			}
			deep["imports"] = []any{"nowhere"}
			if r.Chance(50) {
				// ... under a prefix the module itself uses for another import (prefixes are per file)
				deep["pfxAs"] = "ma"
			}
		case "sub-import-cycle":
			// md imports mc, and only mc's submodule imports md
			deep := carr(all["mc"], "subs")[len(carr(all["mc"], "subs"))-1].(mspec)
			if r.Chance(40) {
				deep = carr(all["mc"], "subs")[0].(mspec)
			}
			deep["imports"] = []any{"md"}
			if r.Chance(50) {
				deep["pfxAs"] = "ma"
			}
			md := mspec{"name": "md"}
			specs = append(specs, md)
			c["mods"] = specs
			c["extraImports"] = []any{[]any{"md", "mc"}}
		case "ref-status":
			// status statements on typedefs and on the leaves that use them: a definition may refer to one of its own module
			// that is as obsolete as itself or less, never to a more obsolete one; across modules anything goes
			for _, om := range mods {
				for _, td := range carr(all[om], "typedefs") {
					if r.Chance(50) {
						td.(mspec)["st"] = pick(r, []string{"current", "deprecated", "obsolete"})
					}
				}
				// a grouping with a status, used some levels below a container with one (what lies between says nothing: the
				// status is inherited all the way down), the uses with or without a status of its own — never a better one
				var gst []any
				for i := r.Intn(3); i > 0; i-- {
					sts := []string{"current", "deprecated", "obsolete"}
					o := r.Intn(4) - 1 // -1: no statement
					e := mspec{"i": i, "g": pick(r, sts), "o": "", "u": "", "depth": r.Intn(3)}
					if o >= 0 {
						e["o"] = sts[o]
					} else {
						o = 0
					}
					if r.Chance(30) {
						e["u"] = sts[o+r.Intn(3-o)]
					}
					gst = append(gst, e)
				}
				all[om]["gst"] = gst
				if subs := carr(all[om], "subs"); len(subs) > 0 && r.Chance(60) {
					// a typedef of the submodule the module includes, used by a leaf of the module: one module, one rule
					sts := []string{"", "current", "deprecated", "obsolete"}
					subs[0].(mspec)["tdst"] = pick(r, sts[1:])
					all[om]["subleafst"] = pick(r, sts)
					all[om]["subleaf"] = cstr(subs[0].(mspec), "name") + "td"
				}
				for _, l := range carr(all[om], "leaves") {
					if cstr(l.(mspec), "type") != "identityref" && r.Chance(50) {
						l.(mspec)["st"] = pick(r, []string{"current", "deprecated", "obsolete"})
					}
				}
			}
		case "sub-identity":
			// an identity defined in a submodule, and an identityref to it there: the identities of submodules are not
			// collected, the reference is an error (before the repair: a nil dereference)
			carr(all["mc"], "subs")[r.Intn(len(carr(all["mc"], "subs")))].(mspec)["ident"] = true
		case "sub-feature-cycle":
			// two features of a submodule that depend on each other, and a leaf under one of them
			carr(all["mc"], "subs")[0].(mspec)["featcycle"] = true
		case "uses-augment-abs":
			// the augment of a uses written with an absolute path: an error (the parser lets either form through)
			s["usesAugAbs"] = true
		case "orphan-submodule":
			// a submodule of a module that is not supplied (alone it would be the only text of a set: here it comes with others)
			c["orphan"] = pick(r, []string{"nowhere", "mz"})
		case "import-self":
			c["extraImports"] = []any{[]any{m, m}}
		case "import-missing":
			c["extraImports"] = []any{[]any{m, "nowhere"}}
		case "unknown-prefix":
			s["leaves"] = append(carr(s, "leaves"), mspec{"n": m + "bad", "type": "zz:t0"})
		case "unknown-typedef":
			s["leaves"] = append(carr(s, "leaves"), mspec{"n": m + "bad", "type": q(m, "nosuch")})
		case "unknown-grouping":
			s["uses"] = append(carr(s, "uses"), q(m, "nosuch"))
		case "unknown-feature":
			first("features")["iff"] = append(carr(first("features"), "iff"), q(m, "nosuch"))
		case "unknown-identity":
			first("identities")["base"] = q(m, "nosuch")
		case "dup-feature":
			s["features"] = append(carr(s, "features"), mspec{"n": cstr(first("features"), "n"), "iff": []any{}})
		case "dup-identity":
			s["identities"] = append(carr(s, "identities"), mspec{"n": cstr(first("identities"), "n"), "base": ""})
		case "dup-typedef":
			s["typedefs"] = append(carr(s, "typedefs"), mspec{"n": cstr(first("typedefs"), "n"), "base": "string"})
		case "dup-grouping":
			s["groupings"] = append(carr(s, "groupings"), mspec{"n": cstr(first("groupings"), "n"), "leaf": m + "dupl", "uses": []any{}, "nest": "direct"})
		case "include-cycle": // between the two submodules, whether or not mc lists the second one itself
			subs := carr(all["mc"], "subs")
			subs[0].(mspec)["includes"] = []any{"mcs2"}
			subs[1].(mspec)["includes"] = []any{"mcs1"}
		case "include-missing":
			subs := carr(all["mc"], "subs")
			subs[r.Intn(2)].(mspec)["includes"] = []any{"nosub"}
		case "bad-augment-path":
			all["mc"]["augpath"] = "/ma:nosuch"
		case "dev-race":
			all["mb"]["deviate"] = "add-default"
			all["mc"]["deviate"] = "replace-default"
		}
	}
	return c
}

func pickSome(r *Rng, xs []string, p int) []any {
	var out []any
	for _, x := range xs {
		if r.Chance(p) {
			out = append(out, x)
		}
	}
	return out
}

// the same modules with no other fault than status statements on typedefs and leaves (C14: references within a module)
var modsOnlyStatus bool

func genYModsStatus(r *Rng, tier string, n int, emit func(Case)) {
	modsOnlyStatus = true
	defer func() { modsOnlyStatus = false }()
	for i := 0; i < n; i++ {
		c := genYModsCase(r)
		c["k"] = "ymods"
		emit(c)
	}
}

func genYMods(r *Rng, tier string, n int, emit func(Case)) {
	for i := 0; i < n; i++ {
		emit(genYModsCase(r))
	}
}

// a reference as written inside module `from`: own definitions without prefix
func ref(from, qn string) string {
	if strings.HasPrefix(qn, from+":") {
		return strings.TrimPrefix(qn, from+":")
	}
	return qn
}

func renderMod(c Case, s mspec) string {
	m := cstr(s, "name")
	var b strings.Builder
	fmt.Fprintf(&b, "module %s { namespace \"urn:%s\"; prefix %s;\n", m, m, m)
	imps := map[string]bool{}
	switch m {
	case "mb":
		imps["ma"] = true
	case "mc":
		imps["ma"], imps["mb"] = true, true
	}
	var extraSelf bool
	for _, e := range carr(c, "extraImports") {
		ee := e.([]any)
		if ee[0].(string) == m {
			if ee[1].(string) == m {
				extraSelf = true
			} else {
				imps[ee[1].(string)] = true
			}
		}
	}
	var in []string
	for i := range imps {
		in = append(in, i)
	}
	sort.Strings(in)
	for _, i := range in {
		fmt.Fprintf(&b, "  import %s { prefix %s; }\n", i, i)
	}
	if extraSelf {
		fmt.Fprintf(&b, "  import %s { prefix self; }\n", m)
	}
	for _, i := range carr(s, "includes") {
		fmt.Fprintf(&b, "  include %s;\n", i.(string))
	}
	for _, f := range carr(s, "features") {
		fm := f.(mspec)
		b.WriteString("  feature " + cstr(fm, "n") + " {")
		for _, d := range carr(fm, "iff") {
			b.WriteString(" if-feature " + ref(m, d.(string)) + ";")
		}
		b.WriteString(" }\n")
	}
	for _, d := range carr(s, "identities") {
		dm := d.(mspec)
		if cstr(dm, "base") == "" {
			b.WriteString("  identity " + cstr(dm, "n") + ";\n")
		} else {
			b.WriteString("  identity " + cstr(dm, "n") + " { base " + ref(m, cstr(dm, "base")) + "; }\n")
		}
	}
	for _, d := range carr(s, "typedefs") {
		dm := d.(mspec)
		st := ""
		if x := cstr(dm, "st"); x != "" {
			st = " status " + x + ";"
		}
		b.WriteString("  typedef " + cstr(dm, "n") + " { type " + ref(m, cstr(dm, "base")) + ";" + st + " }\n")
	}
	for _, d := range carr(s, "groupings") {
		dm := d.(mspec)
		b.WriteString("  grouping " + cstr(dm, "n") + " {\n    leaf " + cstr(dm, "leaf") + " { type string; }\n")
		for i, u := range carr(dm, "uses") {
			if cstr(dm, "nest") == "container" {
				fmt.Fprintf(&b, "    container %sc%d { uses %s; }\n", cstr(dm, "leaf"), i, ref(m, u.(string)))
			} else {
				fmt.Fprintf(&b, "    container %sd%d { presence \"x\"; }\n    uses %s;\n", cstr(dm, "leaf"), i, ref(m, u.(string)))
			}
		}
		b.WriteString("  }\n")
	}
	fmt.Fprintf(&b, "  container %stop {\n", m)
	if m == "ma" {
		b.WriteString("    leaf target { type string; }\n    container slot { }\n")
	}
	for _, l := range carr(s, "leaves") {
		lm := l.(mspec)
		b.WriteString("    leaf " + cstr(lm, "n") + " {")
		if cstr(lm, "type") == "identityref" {
			b.WriteString(" type identityref { base " + ref(m, cstr(lm, "base")) + "; }")
		} else {
			b.WriteString(" type " + ref(m, cstr(lm, "type")) + ";")
		}
		for _, f := range carr(lm, "iff") {
			b.WriteString(" if-feature " + ref(m, f.(string)) + ";")
		}
		if x := cstr(lm, "st"); x != "" {
			b.WriteString(" status " + x + ";")
		}
		b.WriteString(" }\n")
	}
	for i, u := range carr(s, "uses") {
		fmt.Fprintf(&b, "    container %su%d { uses %s; }\n", m, i, ref(m, u.(string)))
	}
	b.WriteString("  }\n")
	if x := cstr(s, "usesSub"); x != "" {
		fmt.Fprintf(&b, "  container %ssubu { uses %sgb; }\n", m, x)
	}
	if cbool(s, "usesAugAbs") {
		fmt.Fprintf(&b, "  grouping %sgabs { container gc; }\n  container %suabs { uses %sgabs { augment \"/gc\" { leaf x { type string; } } } }\n", m, m, m)
	}
	if t := cstr(s, "subleaf"); t != "" {
		st := ""
		if x := cstr(s, "subleafst"); x != "" {
			st = " status " + x + ";"
		}
		fmt.Fprintf(&b, "  leaf %ssubl { type %s;%s }\n", m, t, st)
	}
	for _, e := range carr(s, "gst") {
		em := e.(mspec)
		i := cint(em, "i")
		stmt := func(k string) string {
			if x := cstr(em, k); x != "" {
				return " status " + x + ";"
			}
			return ""
		}
		fmt.Fprintf(&b, "  grouping %ssg%d {%s leaf %ssgl%d { type string; } }\n  container %sso%d {%s", m, i, stmt("g"), m, i, m, i, stmt("o"))
		for d := 0; d < cint(em, "depth"); d++ {
			fmt.Fprintf(&b, " container %ssm%d%d {", m, i, d)
		}
		fmt.Fprintf(&b, " uses %ssg%d", m, i)
		if cstr(em, "u") != "" {
			b.WriteString(" {" + stmt("u") + " }")
		} else {
			b.WriteString(";")
		}
		b.WriteString(strings.Repeat(" }", cint(em, "depth")+1) + "\n")
	}
	if m == "ma" {
		b.WriteString("  notification manote { container nc { leaf nl { type string; } } }\n")
	}
	if cbool(s, "noteaug") {
		fmt.Fprintf(&b, "  augment /ma:manote/ma:nc { leaf %snote { type string; } }\n", m)
	}
	if a := cstr(s, "augleaf"); a != "" {
		p := "/ma:matop/ma:slot"
		if ap := cstr(s, "augpath"); ap != "" {
			p = ap
		}
		fmt.Fprintf(&b, "  augment %s { leaf %s { type string; } }\n", p, a)
	}
	switch cstr(s, "deviate") {
	case "add-default":
		b.WriteString("  deviation /ma:matop/ma:target { deviate add { default \"one\"; } }\n")
	case "replace-default":
		b.WriteString("  deviation /ma:matop/ma:target { deviate replace { default \"two\"; } }\n")
	case "add-config":
		b.WriteString("  deviation /ma:matop/ma:slot { deviate add { config false; } }\n")
	}
	b.WriteString("}\n")
	return b.String()
}

func renderSub(parent string, s mspec) string {
	n := cstr(s, "name")
	var b strings.Builder
	fmt.Fprintf(&b, "submodule %s { belongs-to %s { prefix %s; }\n", n, parent, parent)
	for k, i := range carr(s, "imports") {
		pfx := i.(string)
		if p := cstr(s, "pfxAs"); p != "" && k == 0 {
			pfx = p
		}
		fmt.Fprintf(&b, "  import %s { prefix %s; }\n", i.(string), pfx)
	}
	for _, i := range carr(s, "includes") {
		fmt.Fprintf(&b, "  include %s;\n", i.(string))
	}
	if cbool(s, "ident") {
		fmt.Fprintf(&b, "  identity %sbase;\n  identity %sder { base %sbase; }\n  leaf %sidl { type identityref { base %sbase; } }\n", n, n, n, n, n)
	}
	if cbool(s, "subrpc") {
		fmt.Fprintf(&b, "  rpc %srpc { input { leaf x { type string; } } }\n  notification %snote { leaf y { type string; } }\n", n, n)
	}
	if cbool(s, "featcycle") {
		fmt.Fprintf(&b, "  feature %sfa { if-feature %sfb; }\n  feature %sfb { if-feature %sfa; }\n  leaf %sfl { if-feature %sfa; type string; }\n", n, n, n, n, n, n)
	}
	if x := cstr(s, "tdst"); x != "" {
		fmt.Fprintf(&b, "  typedef %std { type string; status %s; }\n", n, x)
	}
	if cstr(s, "deviate") == "add-config" {
		b.WriteString("  deviation /ma:matop/ma:slot { deviate add { config false; } }\n")
	}
	if cbool(s, "grp") {
		fmt.Fprintf(&b, "  grouping %sga { leaf %sgal { type string; } }\n  grouping %sgb { uses %sga; container %sgbc { uses %sga; } }\n", n, n, n, n, n, n)
	}
	if x := cstr(s, "usesSub"); x != "" {
		fmt.Fprintf(&b, "  grouping %sgu { uses %sgb; }\n  container %sgtop { uses %sgu; }\n", n, x, n, n)
	}
	fmt.Fprintf(&b, "  container %stop { leaf %sl { type string; } }\n}\n", n, n)
	return b.String()
}

// the identities an identityref leaf admits, in the order the compiled type lists them
func identListing(n schema.Node, path string) string {
	out := ""
	kids := append([]schema.Node{}, n.Children()...)
	sort.Slice(kids, func(i, j int) bool { return kids[i].Name() < kids[j].Name() })
	for _, c := range kids {
		p := path + "/" + c.Name()
		if l, ok := c.(schema.Leaf); ok {
			if ir, ok := l.Type().(schema.Identityref); ok {
				var ids []string
				for _, id := range ir.Identities() {
					ids = append(ids, id.Module+":"+id.Val)
				}
				out += "\nidentities " + p + " = " + strings.Join(ids, " ")
			}
		}
		out += identListing(c, p)
	}
	return out
}

var modsClasses = []struct{ sub, cls string }{
	{"Feature cyclic reference", "err:feature-cycle"}, {"Identity cyclic reference", "err:identity-cycle"},
	{"Typedef cyclic reference", "err:typedef-cycle"}, {"Grouping cycle detected", "err:grouping-cycle"},
	{"cycle detected", "err:import-cycle"}, {"module not found", "err:ref"}, {"unknown submodule", "err:ref"}, {"unknown import", "err:ref"}, {"non-existent module", "err:ref"}, {"cannot reference", "err:status"},
	{"unknown type", "err:ref"}, {"Unknown grouping", "err:ref"}, {"not valid", "err:ref"}, {"Can't find base", "err:ref"},
	{"Invalid path", "err:ref"}, {"expected descendant schema id", "err:ref"}, {"cannot shadow", "err:dup"}, {"Duplicate", "err:dup"}, {"redefinition", "err:dup"}, {"already defined", "err:dup"},
	{"Property being added", "err:dev"}, {"Only existing", "err:dev"},
}

func modsClass(err error) string {
	if err == nil {
		return "ok"
	}
	s := err.Error()
	if strings.HasPrefix(s, "PANIC") {
		return s
	}
	for _, c := range modsClasses {
		if strings.Contains(s, c.sub) {
			return c.cls
		}
	}
	return "err:other:" + s
}

// what every module lists: its enabled features, the modules that deviate it, its rpcs and notifications — as listed
func modelListings(ms schema.ModelSet) string {
	var names []string
	for n := range ms.Modules() {
		names = append(names, n)
	}
	sort.Strings(names)
	out := ""
	for _, n := range names {
		m := ms.Modules()[n]
		var rpcs, notes []string
		for r := range m.Rpcs() {
			rpcs = append(rpcs, r)
		}
		for r := range m.Notifications() {
			notes = append(notes, r)
		}
		sort.Strings(rpcs)
		sort.Strings(notes)
		out += fmt.Sprintf("\nmodule %s features=%v deviations=%v rpcs=%v notifications=%v", n, m.Features(), m.Deviations(), rpcs, notes)
	}
	return out
}

func devObserved(ms schema.ModelSet) string {
	top := ms.Child("matop")
	if top == nil {
		return "dev:no-matop"
	}
	out := "dev:"
	if sl := top.Child("slot"); sl != nil {
		out += fmt.Sprintf("slot-config=%v", sl.Config())
	} else {
		out += "slot-absent"
	}
	if tg, ok := top.Child("target").(schema.Leaf); ok {
		if dv, has := tg.Default(); has {
			out += " target-default=" + dv
		} else {
			out += " target-default-none"
		}
	}
	if n, ok := ms.Notifications()["urn:ma"]["manote"]; ok && n.Schema().Child("nc") != nil {
		out += fmt.Sprintf(" note-aug=%v", n.Schema().Child("nc").Child("mcnote") != nil)
	}
	if m, ok := ms.Modules()["mc"]; ok {
		_, hasR := m.Rpcs()["mcs1rpc"]
		_, hasN := m.Notifications()["mcs1note"]
		out += fmt.Sprintf(" sub-rpc=%v sub-note=%v", hasR, hasN)
	}
	// every node belongs to one of the modules: what is written in a submodule belongs to the module it belongs to
	var bad func(n schema.Node) string
	bad = func(n schema.Node) string {
		for _, c := range n.Children() {
			if strings.HasPrefix(c.Module(), "mcs") {
				return " module-of-" + c.Name() + "=" + c.Module()
			}
			if b := bad(c); b != "" {
				return b
			}
		}
		return ""
	}
	return out + bad(ms)
}

// a compilation that skips unknown modules does not panic either (what it makes of the set is not compared)
func skipUnknownRun(texts []string) (out string) {
	defer func() {
		if r := recover(); r != nil {
			out = fmt.Sprintf("skip:PANIC %v", r)
		}
	}()
	mods := map[string]*parse.Tree{}
	for i, t := range texts {
		tr, e := parse.Parse(fmt.Sprintf("mod%d.yang", i), t, nil)
		if e != nil {
			return "skip:no-panic"
		}
		mods[tr.Root.Argument().String()] = tr
	}
	compile.CompileParseTrees(nil, mods, compile.FeaturesFromNames(true), true, func(schema.Node) bool { return true })
	return "skip:no-panic"
}

func runYMods(c Case) string {
	var texts []string
	for _, s := range carr(c, "mods") {
		texts = append(texts, renderMod(c, s.(mspec)))
		for _, sub := range carr(s.(mspec), "subs") {
			texts = append(texts, renderSub(cstr(s.(mspec), "name"), sub.(mspec)))
		}
	}
	if o := cstr(c, "orphan"); o != "" {
		texts = append(texts, "submodule orph { belongs-to "+o+" { prefix "+o+"; }\n  container orphtop { leaf orphl { type string; } }\n}\n")
	}
	first, firstDump := "", ""
	unstable := ""
	devSeen := ""
	for run := 0; run < 8; run++ {
		// a different order of supply every time
		order := append([]string{}, texts...)
		for i := range order {
			j := (i*7 + run*3) % len(order)
			order[i], order[j] = order[j], order[i]
		}
		ms, err := compileWith(nil, nil, order...)
		v := modsClass(err)
		if os.Getenv("YV_DEBUG") != "" {
			fmt.Fprintf(os.Stderr, "run %d: %v\n", run, err)
		}
		if strings.HasPrefix(v, "err") {
			v = "err" // which of several errors is reported is not fixed; that it is an error is
		}
		d := ""
		if err == nil {
			d = dumpModelSet(ms).String() + identListing(ms, "") + modelListings(ms)
			if run == 0 {
				devSeen = devObserved(ms)
			}
		}
		if run == 0 {
			first, firstDump = modsClass(err), d
			if strings.HasPrefix(first, "err") {
				firstDump = ""
			}
		} else {
			f0 := first
			if strings.HasPrefix(f0, "err") {
				f0 = "err"
			}
			if v != f0 || d != firstDump {
				unstable = fmt.Sprintf("run %d: %s vs %s", run, v, f0)
				if os.Getenv("YV_DEBUG") != "" {
					fmt.Fprintf(os.Stderr, "---- first\n%s\n---- now\n%s\n", firstDump, d)
				}
			}
		}
	}
	out := []string{"V:" + first}
	if cstr(c, "fault") == "dev-race" || cstr(c, "fault") == "import-self" {
		out[0] = "V:any"
	}
	if out[0] == "V:ok" {
		// what the deviations (of mb, of mc or of mc's submodule) have made of ma's nodes
		out = append(out, devSeen)
	}
	out = append(out, skipUnknownRun(texts))
	if unstable == "" {
		out = append(out, "det:stable")
	} else {
		out = append(out, "det:UNSTABLE "+unstable)
	}
	return strings.Join(out, "\n")
}

func init() {
	register(&Stream{Name: "ymods", Prop: "C11", Gen: genYMods, Run: runYMods})
	register(&Stream{Name: "ymodsst", Prop: "C14", Gen: genYModsStatus, Run: runYMods})
}
