package main

import (
	"fmt"
	"net/url"
	"reflect"
	"strings"

	"github.com/danos/mgmterror"
	"github.com/sdcio/yang-parser/schema"
)

// ---- schema generator shared by C17 (paths) and C18 (data validation, defaults) -----------------------

type tyMenu struct {
	base    string
	levels  []any
	valid   []string
	invalid []string
	keyable bool
}

func lvRange(parts ...[2]string) []any {
	var ps []any
	for _, p := range parts {
		ps = append(ps, []any{p[0], p[1]})
	}
	return []any{map[string]any{"restr": ps, "isLength": false}}
}
func lvLength(parts ...[2]string) []any {
	var ps []any
	for _, p := range parts {
		ps = append(ps, []any{p[0], p[1]})
	}
	return []any{map[string]any{"restr": ps, "isLength": true}}
}

var tyMenus = []tyMenu{
	{"int8", lvRange([2]string{"1", "10"}, [2]string{"20", "30"}), []string{"1", "5", "10", "20", "30", "+7"}, []string{"0", "11", "15", "31", "abc", "", "1.0", "-1"}, true},
	{"uint8", []any{map[string]any{}}, []string{"0", "255", "17"}, []string{"256", "-1", "x", ""}, true},
	{"int64", []any{map[string]any{}}, []string{"-9223372036854775808", "9223372036854775807", "0"}, []string{"9223372036854775808", "1e3", ""}, true},
	{"string", lvLength([2]string{"1", "3"}), []string{"a", "abc", "ééé", "a b"}, []string{"", "abcd", "éééé"}, true},
	{"string", []any{map[string]any{}}, []string{"", "x", "hello world", "a/b", "é€"}, nil, true},
	{"boolean", []any{map[string]any{}}, []string{"true", "false"}, []string{"TRUE", "1", ""}, true},
	{"enumeration:a:b:c-d", []any{map[string]any{}}, []string{"a", "b", "c-d"}, []string{"c", "", "A"}, true},
	{"decimal64:2", lvRange([2]string{"1.5", "9.25"}), []string{"1.5", "9.25", "2", "3.14"}, []string{"1.49", "9.26", "3.141", "x", ""}, true},
	{"empty", []any{map[string]any{}}, []string{""}, []string{"x", "true"}, false},
}

type sgen struct {
	r        *Rng
	n        int
	forData  bool // C18: mandatory / defaults / min-max / unique are generated
	maxDepth int
	withCfg  bool // C20 / C14: config and status statements are generated
	noStatus bool // ... config only (a uses may not refer to a definition of lesser status: not for factored modules)
}

// config / status statements on a data definition
func (g *sgen) cfgStatus(n map[string]any, allowCfg bool) {
	if !g.withCfg {
		return
	}
	if allowCfg && g.r.Chance(22) {
		n["config"] = g.r.Chance(90) == false // mostly config false; sometimes an explicit config true
	}
	if !g.noStatus && g.r.Chance(8) {
		n["status"] = pick(g.r, []string{"current", "current", "deprecated", "obsolete"})
	}
}

func (g *sgen) name(kind string) string { g.n++; return fmt.Sprintf("%s%d", kind, g.n) }

func (g *sgen) leafType(key bool) map[string]any {
	for {
		m := pick(g.r, tyMenus)
		if key && !m.keyable || key && m.base == "string" && len(m.valid) > 0 && m.valid[0] == "" {
			continue
		}
		return map[string]any{"base": m.base, "levels": m.levels, "valid": toAny(m.valid), "invalid": toAny(m.invalid)}
	}
}

func toAny(xs []string) []any {
	out := make([]any, 0, len(xs))
	for _, x := range xs {
		out = append(out, x)
	}
	return out
}

// genKids: the children of a container / list / case at the given depth
func (g *sgen) genKids(depth int, inChoice bool) []any {
	var kids []any
	n := 1 + g.r.Intn(4)
	for i := 0; i < n; i++ {
		kids = append(kids, g.genNode(depth, inChoice))
	}
	return kids
}

func (g *sgen) genNode(depth int, inChoice bool) map[string]any {
	k := g.r.Intn(100)
	if depth >= g.maxDepth && k < 55 {
		k = 60 + g.r.Intn(40)
	}
	switch {
	case k < 22:
		n := map[string]any{"k": "container", "n": g.name("c"), "presence": g.r.Chance(35)}
		g.cfgStatus(n, true)
		n["kids"] = g.genKids(depth+1, false)
		return n
	case k < 37:
		n := map[string]any{"k": "list", "n": g.name("l")}
		g.cfgStatus(n, true)
		keyLeaf := map[string]any{"k": "leaf", "n": g.name("k"), "type": g.leafType(true)}
		g.cfgStatus(keyLeaf, true) // the compiler does not insist that a key has the config of its list
		kids := []any{keyLeaf}
		kids = append(kids, g.genKids(depth+1, false)...)
		n["keys"] = []any{keyLeaf["n"]}
		n["kids"] = kids
		if g.forData {
			if g.r.Chance(30) {
				n["min"] = 1 + g.r.Intn(2)
			}
			if g.r.Chance(30) {
				n["max"] = cintDefault(n, "min", 0) + g.r.Intn(3)
				if n["max"].(int) == 0 {
					n["max"] = 1
				}
			}
			if g.r.Chance(30) {
				n["ordby"] = "user"
			}
		}
		return n
	case k < 55:
		n := map[string]any{"k": "choice", "n": g.name("ch")}
		g.cfgStatus(n, true)
		nc := 1 + g.r.Intn(3)
		var cases []any
		for i := 0; i < nc; i++ {
			ca := map[string]any{"k": "case", "n": g.name("ca")}
			g.cfgStatus(ca, false)
			ca["kids"] = g.genKids(depth+1, true)
			cases = append(cases, ca)
		}
		n["kids"] = cases
		if g.forData {
			if g.r.Chance(30) {
				n["mandatory"] = true
			} else if g.r.Chance(40) {
				n["dflt"] = cases[g.r.Intn(len(cases))].(map[string]any)["n"]
			}
		}
		return n
	case k < 88:
		n := map[string]any{"k": "leaf", "n": g.name("f"), "type": g.leafType(false)}
		g.cfgStatus(n, true)
		if g.forData {
			ty := n["type"].(map[string]any)
			if g.r.Chance(25) {
				n["mandatory"] = true
			} else if g.r.Chance(45) && ty["base"] != "empty" {
				vs := ty["valid"].([]any)
				n["dflt"] = vs[g.r.Intn(len(vs))]
			}
		}
		return n
	default:
		n := map[string]any{"k": "leaf-list", "n": g.name("ll"), "type": g.leafType(true)}
		g.cfgStatus(n, true)
		if g.forData {
			if g.r.Chance(30) {
				n["min"] = 1 + g.r.Intn(2)
			}
			if g.r.Chance(30) {
				n["max"] = cintDefault(n, "min", 0) + 1 + g.r.Intn(2)
			}
			if g.r.Chance(30) {
				n["ordby"] = "user"
			}
		}
		return n
	}
}

func cintDefault(m map[string]any, k string, d int) int {
	if v, ok := m[k]; ok {
		switch x := v.(type) {
		case int:
			return x
		case float64:
			return int(x)
		}
	}
	return d
}

// ---- rendering ------------------------------------------------------------------------------------------

func renderType(t map[string]any) string {
	base := cstr(t, "base")
	if base == "union" {
		var ms []string
		for _, m := range carr(t, "members") {
			ms = append(ms, renderType(m.(map[string]any)))
		}
		return "type union { " + strings.Join(ms, " ") + " }"
	}
	var body strings.Builder
	if strings.HasPrefix(base, "decimal64:") {
		body.WriteString(" fraction-digits " + strings.TrimPrefix(base, "decimal64:") + ";")
	}
	if strings.HasPrefix(base, "enumeration:") {
		for _, e := range strings.Split(base, ":")[1:] {
			body.WriteString(" enum " + e + ";")
		}
	}
	if strings.HasPrefix(base, "identityref:") {
		body.WriteString(" base " + strings.TrimPrefix(base, "identityref:") + ";")
	}
	for _, l := range carr(t, "levels") {
		lv := l.(map[string]any)
		if rs, ok := lv["restr"].([]any); ok {
			var parts []string
			for _, p := range rs {
				pp := p.([]any)
				parts = append(parts, pp[0].(string)+".."+pp[1].(string))
			}
			kw := "range"
			if cbool(lv, "isLength") {
				kw = "length"
			}
			body.WriteString(" " + kw + " " + yq(strings.Join(parts, " | ")) + ";")
		}
	}
	name := strings.Split(base, ":")[0]
	if body.Len() == 0 {
		return "type " + name + ";"
	}
	return "type " + name + " {" + body.String() + " }"
}

func cfgStatusStmts(n map[string]any) string {
	s := ""
	if v, ok := n["config"].(bool); ok {
		s += fmt.Sprintf(" config %v;", v)
	}
	if v, ok := n["status"].(string); ok {
		s += " status " + v + ";"
	}
	for _, f := range carr(n, "iff") {
		s += " if-feature " + f.(string) + ";"
	}
	for _, w := range carr(n, "whens") {
		s += " when " + yq(w.(string)) + ";"
	}
	return s
}

// the substatements of a node other than its children, one string each
func nodeItems(n map[string]any) []string {
	var items []string
	cfg := func() {
		if v, ok := n["config"].(bool); ok {
			items = append(items, fmt.Sprintf("config %v;", v))
		}
		if v, ok := n["status"].(string); ok {
			items = append(items, "status "+v+";")
		}
		for _, f := range carr(n, "iff") {
			items = append(items, "if-feature "+f.(string)+";")
		}
		for _, w := range carr(n, "whens") {
			items = append(items, "when "+yq(w.(string))+";")
		}
	}
	minmax := func() {
		if _, ok := n["min"]; ok {
			items = append(items, fmt.Sprintf("min-elements %d;", cint(n, "min")))
		}
		if _, ok := n["max"]; ok {
			items = append(items, fmt.Sprintf("max-elements %d;", cint(n, "max")))
		}
		if o := cstr(n, "ordby"); o != "" {
			items = append(items, "ordered-by "+o+";")
		}
	}
	mand := func() {
		if cbool(n, "mandatory") {
			items = append(items, "mandatory true;")
		} else if cbool(n, "_mandFalse") {
			items = append(items, "mandatory false;")
		}
	}
	switch cstr(n, "k") {
	case "container":
		cfg()
		if cbool(n, "presence") {
			items = append(items, "presence \"p\";")
		}
	case "list":
		cfg()
		var ks []string
		for _, k := range carr(n, "keys") {
			ks = append(ks, k.(string))
		}
		items = append(items, "key "+yq(strings.Join(ks, " "))+";")
		minmax()
		for _, u := range carr(n, "uniques") {
			var ps []string
			for _, p := range u.([]any) {
				ps = append(ps, p.(string))
			}
			items = append(items, "unique "+yq(strings.Join(ps, " "))+";")
		}
	case "leaf":
		items = append(items, strings.TrimSpace(renderType(cmap(n, "type"))))
		cfg()
		mand()
		if d, ok := n["dflt"].(string); ok {
			items = append(items, "default "+yq(d)+";")
		}
		if ms := carr(n, "musts"); len(ms) > 0 { // one item: their relative order is what the compiled node shows
			var parts []string
			for _, m := range ms {
				parts = append(parts, "must "+yq(m.(string))+";")
			}
			items = append(items, strings.Join(parts, " "))
		}
	case "leaf-list":
		items = append(items, strings.TrimSpace(renderType(cmap(n, "type"))))
		cfg()
		minmax()
	case "choice":
		cfg()
		mand()
		if d, ok := n["dflt"].(string); ok {
			items = append(items, "default "+d+";")
		}
	case "case":
		cfg()
	}
	return items
}

// the same node with its substatements written in another order (each on its own line, rotated by _rot)
func renderNodeRot(b *strings.Builder, n map[string]any, ind string, rot int) {
	items := nodeItems(n)
	if len(items) > 0 {
		k := rot % len(items)
		items = append(append([]string{}, items[k:]...), items[:k]...)
	}
	kind := cstr(n, "k")
	if kind == "leaf" || kind == "leaf-list" {
		b.WriteString(ind + kind + " " + cstr(n, "n") + " { " + strings.Join(items, " ") + " }\n")
		return
	}
	b.WriteString(ind + kind + " " + cstr(n, "n") + " {\n")
	for _, it := range items {
		b.WriteString(ind + "  " + it + "\n")
	}
	for _, k := range carr(n, "kids") {
		renderNode(b, k.(map[string]any), ind+"  ")
	}
	b.WriteString(ind + "}\n")
}

func renderNode(b *strings.Builder, n map[string]any, ind string) {
	if cbool(n, "removed") {
		return
	}
	if rot, ok := n["_rot"]; ok {
		_ = rot
		renderNodeRot(b, n, ind, cint(n, "_rot"))
		return
	}
	kind := cstr(n, "k")
	name := cstr(n, "n")
	switch kind {
	case "container":
		b.WriteString(ind + "container " + name + " {" + cfgStatusStmts(n) + "\n")
		if cbool(n, "presence") {
			b.WriteString(ind + "  presence \"p\";\n")
		}
	case "list":
		b.WriteString(ind + "list " + name + " {" + cfgStatusStmts(n) + "\n")
		var ks []string
		for _, k := range carr(n, "keys") {
			ks = append(ks, k.(string))
		}
		b.WriteString(ind + "  key " + yq(strings.Join(ks, " ")) + ";\n")
		if _, ok := n["min"]; ok {
			fmt.Fprintf(b, "%s  min-elements %d;\n", ind, cint(n, "min"))
		}
		if _, ok := n["max"]; ok {
			fmt.Fprintf(b, "%s  max-elements %d;\n", ind, cint(n, "max"))
		}
		if o := cstr(n, "ordby"); o != "" {
			b.WriteString(ind + "  ordered-by " + o + ";\n")
		}
		for _, u := range carr(n, "uniques") {
			var ps []string
			for _, p := range u.([]any) {
				ps = append(ps, p.(string))
			}
			b.WriteString(ind + "  unique " + yq(strings.Join(ps, " ")) + ";\n")
		}
	case "leaf":
		b.WriteString(ind + "leaf " + name + " { " + renderType(cmap(n, "type")) + cfgStatusStmts(n))
		if cbool(n, "mandatory") {
			b.WriteString(" mandatory true;")
		}
		if d, ok := n["dflt"].(string); ok {
			b.WriteString(" default " + yq(d) + ";")
		}
		for _, m := range carr(n, "musts") {
			b.WriteString(" must " + yq(m.(string)) + ";")
		}
		b.WriteString(" }\n")
		return
	case "leaf-list":
		b.WriteString(ind + "leaf-list " + name + " { " + renderType(cmap(n, "type")) + cfgStatusStmts(n))
		if _, ok := n["min"]; ok {
			fmt.Fprintf(b, " min-elements %d;", cint(n, "min"))
		}
		if _, ok := n["max"]; ok {
			fmt.Fprintf(b, " max-elements %d;", cint(n, "max"))
		}
		if o := cstr(n, "ordby"); o != "" {
			b.WriteString(" ordered-by " + o + ";")
		}
		b.WriteString(" }\n")
		return
	case "choice":
		b.WriteString(ind + "choice " + name + " {" + cfgStatusStmts(n) + "\n")
		if cbool(n, "mandatory") {
			b.WriteString(ind + "  mandatory true;\n")
		}
		if d, ok := n["dflt"].(string); ok {
			b.WriteString(ind + "  default " + d + ";\n")
		}
	case "case":
		if cbool(n, "_shorthand") { // the case written as its single data definition
			renderNode(b, carr(n, "kids")[0].(map[string]any), ind)
			return
		}
		b.WriteString(ind + "case " + name + " {" + cfgStatusStmts(n) + "\n")
	}
	for _, k := range carr(n, "kids") {
		renderNode(b, k.(map[string]any), ind+"  ")
	}
	if d := cstr(n, "_descAfter"); d != "" { // a statement written after the children
		b.WriteString(ind + "  description " + yq(d) + ";\n")
	}
	b.WriteString(ind + "}\n")
}

func renderSchema(top []any) string {
	var b strings.Builder
	b.WriteString("module m { namespace \"urn:m\"; prefix m;\n")
	for _, k := range top {
		renderNode(&b, k.(map[string]any), "  ")
	}
	b.WriteString("}\n")
	return b.String()
}

// ---- C17: token paths ---------------------------------------------------------------------------------------

// data children of a node, choices and cases being transparent (the generator's own view of the AST)
func dataKidsOf(kids []any) []map[string]any {
	var out []map[string]any
	for _, k := range kids {
		n := k.(map[string]any)
		switch cstr(n, "k") {
		case "choice", "case":
			out = append(out, dataKidsOf(carr(n, "kids"))...)
		default:
			out = append(out, n)
		}
	}
	return out
}

func allNames(kids []any, out *[]string) {
	for _, k := range kids {
		n := k.(map[string]any)
		*out = append(*out, cstr(n, "n"))
		allNames(carr(n, "kids"), out)
	}
}

func valueFor(r *Rng, t map[string]any, good bool) string {
	vs := carr(t, "valid")
	if !good && len(carr(t, "invalid")) > 0 {
		vs = carr(t, "invalid")
	}
	return vs[r.Intn(len(vs))].(string)
}

// a random walk from the top: a complete valid path
func randomWalk(r *Rng, kids []any, stopP int) []string {
	var p []string
	cur := dataKidsOf(kids)
	for len(cur) > 0 {
		n := cur[r.Intn(len(cur))]
		p = append(p, cstr(n, "n"))
		switch cstr(n, "k") {
		case "leaf", "leaf-list":
			t := cmap(n, "type")
			if cstr(t, "base") != "empty" || r.Chance(20) {
				p = append(p, valueFor(r, t, true))
			}
			return p
		case "list":
			key := carr(n, "kids")[0].(map[string]any)
			p = append(p, valueFor(r, cmap(key, "type"), true))
		}
		if r.Chance(stopP) {
			return p
		}
		cur = dataKidsOf(carr(n, "kids"))
	}
	return p
}

func genYPathCase(r *Rng, tier string) Case {
	g := &sgen{r: r, maxDepth: 2 + r.Intn(2)}
	if tier == "thorough" {
		g.maxDepth = 2 + r.Intn(3)
	}
	// statements that path validation must not look at (defaults, mandatory, min/max-elements, ordered-by)
	// are present in most schemas
	g.forData = r.Chance(65)
	top := g.genKids(0, false)
	unionize(r, top, map[string]bool{})
	var names []string
	allNames(top, &names)
	junk := []string{"zz", "", "0", "true", " ", "é", "a/b", "<any child>"}
	var paths []any
	np := 12
	for i := 0; i < np; i++ {
		p := randomWalk(r, top, 15)
		switch r.Intn(8) {
		case 0: // as is
		case 1: // truncate
			if len(p) > 0 {
				p = p[:r.Intn(len(p)+1)]
			}
		case 2: // extra token
			p = append(p, pick(r, append(junk, names...)))
		case 3: // replace a token by a name from elsewhere (choice / case names included) or junk
			if len(p) > 0 {
				p[r.Intn(len(p))] = pick(r, append(junk, names...))
			}
		case 4: // replace the last token by a value of some type
			if len(p) > 0 {
				m := pick(r, tyMenus)
				vs := append(append([]string{}, m.valid...), m.invalid...)
				p[len(p)-1] = pick(r, vs)
			}
		case 5: // insert
			i := r.Intn(len(p) + 1)
			p = append(p[:i], append([]string{pick(r, append(junk, names...))}, p[i:]...)...)
		case 6: // delete
			if len(p) > 0 {
				i := r.Intn(len(p))
				p = append(p[:i], p[i+1:]...)
			}
		case 7: // two extra
			p = append(p, pick(r, append(junk, names...)), pick(r, append(junk, names...)))
		}
		paths = append(paths, toAny(p))
	}
	return Case{"k": "ypath", "top": top, "paths": paths}
}

// unions of two members of one base with different restrictions: a value may be one of the later member only
var unionMenus = []map[string]any{
	{"base": "union", "members": []any{
		map[string]any{"base": "uint8", "levels": lvRange([2]string{"1", "10"})},
		map[string]any{"base": "uint8", "levels": lvRange([2]string{"20", "30"})}},
		"valid": toAny([]string{"1", "10", "20", "25", "30"}), "invalid": toAny([]string{"0", "11", "15", "31", "x", ""})},
	{"base": "union", "members": []any{
		map[string]any{"base": "string", "levels": lvLength([2]string{"1", "2"})},
		map[string]any{"base": "string", "levels": lvLength([2]string{"5", "5"})}},
		"valid": toAny([]string{"a", "ab", "abcde", "ééééé"}), "invalid": toAny([]string{"", "abc", "abcd", "abcdef"})},
	{"base": "union", "members": []any{
		map[string]any{"base": "int8", "levels": lvRange([2]string{"-5", "-1"})},
		map[string]any{"base": "boolean", "levels": []any{map[string]any{}}},
		map[string]any{"base": "int8", "levels": lvRange([2]string{"100", "127"})}},
		"valid": toAny([]string{"-5", "-1", "true", "false", "100", "127"}), "invalid": toAny([]string{"0", "99", "128", "TRUE", ""})},
}

func unionize(r *Rng, kids []any, keys map[string]bool) {
	for _, k := range kids {
		n := k.(map[string]any)
		switch cstr(n, "k") {
		case "leaf", "leaf-list":
			if !keys[cstr(n, "n")] && r.Chance(20) {
				n["type"] = deepCopy(pick(r, unionMenus))
				delete(n, "dflt")
			}
		case "list":
			ks := map[string]bool{}
			for _, kn := range carr(n, "keys") {
				ks[kn.(string)] = true
			}
			unionize(r, carr(n, "kids"), ks)
		default:
			unionize(r, carr(n, "kids"), map[string]bool{})
		}
	}
}

func genYPath(r *Rng, tier string, n int, emit func(Case)) {
	for i := 0; i < n; i++ {
		emit(genYPathCase(r, tier))
	}
}

type vctx struct{ allow bool }

func (v vctx) ErrorHelpText() []string    { return nil }
func (v vctx) AllowIncompletePaths() bool { return v.allow }

func hexTok(s string) string { return fmt.Sprintf("%x", s) }

func pathToks(p string) string {
	if p == "" {
		return ""
	}
	var out []string
	for _, e := range strings.Split(strings.TrimPrefix(p, "/"), "/") {
		u, err := url.QueryUnescape(e)
		if err != nil {
			u = "?" + e
		}
		out = append(out, "x"+hexTok(u))
	}
	return strings.Join(out, ".")
}

// canonical form of a validation error: tag | path tokens (hex) | first info value (hex) | message class
func canonErr(err error) string {
	if err == nil {
		return "ok"
	}
	f, ok := err.(mgmterror.Formattable)
	if !ok {
		return "plain|" + err.Error()
	}
	info := ""
	if len(f.GetInfo()) > 0 {
		info = hexTok(f.GetInfo()[0].Value)
	}
	msg := "type"
	raw := rawMessage(err, f)
	switch raw {
	case "Path is invalid":
		msg = "path"
	case "Node requires a child":
		msg = "child"
	case "Node requires a value":
		msg = "novalue"
	case "Value found for empty leaf":
		msg = "emptyleaf"
	}
	if msg == "type" {
		info = "" // the info of a type error is the type's own text (C16), not the walker's
	}
	return f.GetTag() + "|" + pathToks(f.GetPath()) + "|" + info + "|" + msg
}

// the Message field itself (GetMessage of some error kinds rewrites it)
func rawMessage(err error, f mgmterror.Formattable) string {
	raw := f.GetMessage()
	if v := reflect.ValueOf(err); v.Kind() == reflect.Ptr && v.Elem().Kind() == reflect.Struct {
		if fld := v.Elem().FieldByName("MgmtError"); fld.IsValid() {
			if me, ok := fld.Interface().(*mgmterror.MgmtError); ok && me != nil {
				raw = me.Message
			}
		}
	}
	return raw
}

func runYPath(c Case) string {
	text := renderSchema(carr(c, "top"))
	ms, err := compileTexts(nil, text)
	if err != nil {
		if strings.HasPrefix(err.Error(), "PANIC") {
			return err.Error()
		}
		return "compile-err " + err.Error()
	}
	var out []string
	for _, p := range carr(c, "paths") {
		var toks []string
		for _, t := range p.([]any) {
			toks = append(toks, t.(string))
		}
		for _, allow := range []bool{false, true} {
			func() {
				defer func() {
					if r := recover(); r != nil {
						out = append(out, fmt.Sprintf("PANIC %v", r))
					}
				}()
				out = append(out, canonErr(ms.Validate(vctx{allow}, nil, toks)))
			}()
		}
	}
	return strings.Join(out, ";")
}

var _ schema.ValidateCtx = vctx{}

func init() {
	register(&Stream{Name: "ypath", Prop: "C17", Gen: genYPath, Run: runYPath})
}
