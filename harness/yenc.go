package main

import (
	"encoding/json"
	"fmt"
	"sort"
	"strings"

	"github.com/sdcio/yang-parser/data/datanode"
	"github.com/sdcio/yang-parser/data/encoding"
	"github.com/sdcio/yang-parser/schema"
)

// ---- C19: encoders and decoders round-trip; decoding is total ------------------------------------------------

var encMenus = []tyMenu{
	{"int8", []any{map[string]any{}}, []string{"-128", "127", "0", "5"}, nil, true},
	{"int32", []any{map[string]any{}}, []string{"-2147483648", "2147483647", "7"}, nil, true},
	{"int64", []any{map[string]any{}}, []string{"-9223372036854775808", "9223372036854775807", "9007199254740993", "0", "-1"}, nil, true},
	{"uint32", []any{map[string]any{}}, []string{"0", "4294967295"}, nil, true},
	{"uint64", []any{map[string]any{}}, []string{"0", "18446744073709551615", "9007199254740993", "42"}, nil, true},
	{"decimal64:2", []any{map[string]any{}}, []string{"1.5", "-0.25", "92233720368547758.07", "3", "-92233720368547758.08"}, nil, true},
	{"string", []any{map[string]any{}}, []string{"", "x", "a b", "é€", "quote\"back\\slash", "<&>'", "tab\there", "line\nbreak", "  lead", "trail  ", "{\"j\":1}", "\u2028", "del\x7f", "\U000F0000z", "\u200bzw", "\U0001F600"}, nil, false},
	{"string", lvLength([2]string{"1", "8"}), []string{"a", "key one", "k<2>", "é"}, nil, true},
	{"boolean", []any{map[string]any{}}, []string{"true", "false"}, nil, true},
	{"enumeration:a:b:c-d", []any{map[string]any{}}, []string{"a", "b", "c-d"}, nil, true},
	{"empty", []any{map[string]any{}}, []string{""}, nil, false},
	{"identityref:idm:base", []any{map[string]any{}}, []string{"idm:one", "idm:two", "local"}, nil, true},
}

func genYEncCase(r *Rng, tier string) Case {
	saved := tyMenus
	tyMenus = encMenus
	noEmptyMulti = true
	emptyMultiOnly = r.Chance(30)
	keepEmpty := emptyMultiOnly
	defer func() { tyMenus = saved; noEmptyMulti, emptyMultiOnly = false, false }()
	g := &sgen{r: r, maxDepth: 2 + r.Intn(2)}
	if tier == "thorough" {
		g.maxDepth = 2 + r.Intn(3)
	}
	top := g.genKids(0, false)
	// ordered-by user on some lists / leaf-lists
	var refs []astRef
	collectNodes(top, nil, &refs)
	for _, ref := range refs {
		k := cstr(ref.node, "k")
		if (k == "list" || k == "leaf-list") && r.Chance(40) {
			ref.node["ordby"] = "user"
		}
	}
	// several modules: some nodes are augmented in by (or defined at the top of) modules a and b
	if r.Chance(60) {
		assignMods(r, top, 0, nil, pick(r, []int{12, 25, 45}))
	}
	data := map[string]any{"n": "root", "kids": genDataKids(r, top, pick(r, []int{55, 80, 95}))}
	if !keepEmpty {
		dropEmptyMulti(data)
	}
	return Case{"k": "yenc", "top": top, "data": data}
}

// a list or leaf-list node without entries is not part of a valid tree
func dropEmptyMulti(d map[string]any) {
	var keep []any
	for _, k := range carr(d, "kids") {
		kn := k.(map[string]any)
		_, hasVals := kn["vals"]
		if hasVals && len(carr(kn, "vals")) == 0 {
			continue
		}
		dropEmptyMulti(kn)
		keep = append(keep, kn)
	}
	d["kids"] = keep
}

func genYEnc(r *Rng, tier string, n int, emit func(Case)) {
	for i := 0; i < n; i++ {
		emit(genYEncCase(r, tier))
	}
}

const idmModule = `module idm { namespace "urn:idm"; prefix idm; identity base; identity one { base base; } identity two { base one; } }`

func renderEncSchema(top []any) string {
	var b strings.Builder
	b.WriteString("module m { namespace \"urn:m\"; prefix m; import idm { prefix idm; }\n  identity local { base idm:base; }\n")
	for _, k := range top {
		renderNode(&b, k.(map[string]any), "  ")
	}
	b.WriteString("}\n")
	return b.String()
}

// canonical walk: order is kept where the schema says ordered-by user, sorted elsewhere
func walkOrd(sn schema.Node, n datanode.DataNode) string {
	var b strings.Builder
	if _, isRoot := sn.(schema.Tree); isRoot {
		b.WriteString("root") // the decoders name the root after the schema's (nameless) root
	} else {
		b.WriteString(hexTok(n.YangDataName()))
	}
	kids := n.YangDataChildren()
	if len(kids) > 0 {
		ks := []string{}
		for _, k := range kids {
			var csn schema.Node
			if sn != nil {
				csn = sn.Child(k.YangDataName())
			}
			// a list or leaf-list node without entries says what its absence says: nothing (XML has no way to write one)
			switch csn.(type) {
			case schema.List:
				if len(k.YangDataChildren()) == 0 {
					continue
				}
			case schema.LeafList:
				if len(k.YangDataValues()) == 0 {
					continue
				}
			}
			ks = append(ks, walkOrd(csn, k))
		}
		keep := false
		if l, ok := sn.(schema.List); ok && l.OrdBy() == "user" {
			keep = true
		}
		if !keep {
			sort.Strings(ks)
		}
		if len(ks) > 0 {
			b.WriteString("(" + strings.Join(ks, ",") + ")")
		}
	}
	vals := n.YangDataValues()
	if len(vals) > 0 {
		vs := make([]string, len(vals))
		for i, v := range vals {
			vs[i] = hexTok(v)
		}
		if ll, ok := sn.(schema.LeafList); ok && ll.OrdBy() != "user" {
			sort.Strings(vs)
		}
		b.WriteString("[" + strings.Join(vs, ",") + "]")
	}
	return b.String()
}

func canonJSON(v any) string {
	switch x := v.(type) {
	case map[string]any:
		var ps []string
		for k, v := range x {
			ps = append(ps, hexTok(k)+":"+canonJSON(v))
		}
		sort.Strings(ps)
		return "{" + strings.Join(ps, ",") + "}"
	case []any:
		var ps []string
		for _, e := range x {
			ps = append(ps, canonJSON(e))
		}
		return "[" + strings.Join(ps, ",") + "]"
	case string:
		return "s" + hexTok(x)
	case json.Number:
		return "n" + x.String()
	case bool:
		return fmt.Sprint(x)
	case nil:
		return "null"
	}
	return fmt.Sprintf("?%T", v)
}

func runYEnc(c Case) string {
	ms, err := compileTexts(nil, append([]string{idmModule}, renderEncModules(carr(c, "top"))...)...)
	if err != nil {
		return "compile-err " + err.Error()
	}
	data := toDataNode(cmap(c, "data"))
	want := walkOrd(ms, data)
	out := []string{"tree:" + want}
	for _, e := range []struct {
		name string
		enc  encoding.EncType
		fn   func(schema.Node, datanode.DataNode) []byte
	}{{"rfc7951", encoding.RFC7951, encoding.ToRFC7951}, {"json", encoding.JSON, encoding.ToJSON}, {"xml", encoding.XML, encoding.ToXML}} {
		func() {
			defer func() {
				if r := recover(); r != nil {
					out = append(out, fmt.Sprintf("%s:PANIC %v", e.name, r))
				}
			}()
			bs := e.fn(ms, data)
			if e.name != "xml" {
				dec := json.NewDecoder(strings.NewReader(string(bs)))
				dec.UseNumber()
				var v any
				if err := dec.Decode(&v); err != nil {
					out = append(out, e.name+":bytes:INVALID-JSON "+err.Error())
				} else {
					out = append(out, e.name+":bytes:"+canonJSON(v))
				}
			}
			back, derr := encoding.NewUnmarshaller(e.enc).SetValidation(schema.DontValidate).Unmarshal(ms, bs)
			if derr != nil {
				out = append(out, e.name+":decode-err "+firstLine(derr.Error()))
				return
			}
			if got := walkOrd(ms, back); got == want {
				out = append(out, e.name+":same")
			} else {
				out = append(out, e.name+":DIFF "+got)
			}
			// the tree a decoder hands back is a tree like any other: its encodings decode to it again (its root has no name)
			for _, e2 := range []struct {
				name string
				enc  encoding.EncType
				fn   func(schema.Node, datanode.DataNode) []byte
			}{{"rfc7951", encoding.RFC7951, encoding.ToRFC7951}, {"xml", encoding.XML, encoding.ToXML}} {
				again, err2 := encoding.NewUnmarshaller(e2.enc).SetValidation(schema.DontValidate).Unmarshal(ms, e2.fn(ms, back))
				if err2 != nil {
					out = append(out, e.name+">"+e2.name+":decode-err "+firstLine(err2.Error()))
				} else if got := walkOrd(ms, again); got != want {
					out = append(out, e.name+">"+e2.name+":DIFF "+got)
				}
			}
		}()
	}
	return strings.Join(out, "\n")
}

// ---- lists with several keys: outside the Lean model (an entry is named by its first key there as in the code); a fixed
// set of documents: entries that agree on the first key only are different entries, entries that agree on all are one too many

const mkeyModule = `module m { namespace "urn:m"; prefix m; container c { list mk { key "a b"; leaf a { type string; } leaf b { type uint8; } leaf v { type string; } }
  list sk { key k; leaf k { type string; } leaf v { type string; } } } }`

func genYMKey(r *Rng, tier string, n int, emit func(Case)) {
	for _, c := range []Case{
		{"doc": `{"c":{"mk":[{"a":"1","b":1,"v":"x"},{"a":"1","b":2,"v":"y"}]}}`, "expect": "ok"},
		{"doc": `{"c":{"mk":[{"a":"1","b":2},{"a":"2","b":1},{"a":"2","b":2}]}}`, "expect": "ok"},
		{"doc": `{"c":{"mk":[{"a":"1","b":1,"v":"x"},{"a":"1","b":1,"v":"y"}]}}`, "expect": "refused"},
		{"doc": `{"c":{"mk":[{"a":"1","b":1},{"a":"2","b":1},{"a":"1","b":1}]}}`, "expect": "refused"},
		{"doc": `{"c":{"sk":[{"k":"1","v":"x"},{"k":"2","v":"x"}]}}`, "expect": "ok"},
		{"doc": `{"c":{"sk":[{"k":"1","v":"x"},{"k":"1","v":"y"}]}}`, "expect": "refused"},
	} {
		c["k"] = "ymkey"
		emit(c)
	}
}

func runYMKey(c Case) string {
	ms, err := compileTexts(nil, mkeyModule)
	if err != nil {
		return "compile-err " + err.Error()
	}
	dec := func(enc encoding.EncType, bs []byte) (datanode.DataNode, error) {
		return encoding.NewUnmarshaller(enc).SetValidation(schema.DontValidate).Unmarshal(ms, bs)
	}
	tr, err := dec(encoding.JSON, []byte(cstr(c, "doc")))
	if err != nil {
		return "mk:refused"
	}
	want := walkOrd(ms, tr)
	for _, e := range []struct {
		name string
		enc  encoding.EncType
		fn   func(schema.Node, datanode.DataNode) []byte
	}{{"rfc7951", encoding.RFC7951, encoding.ToRFC7951}, {"json", encoding.JSON, encoding.ToJSON}, {"xml", encoding.XML, encoding.ToXML}} {
		back, derr := dec(e.enc, e.fn(ms, tr))
		if derr != nil {
			return "mk:" + e.name + " does not decode: " + firstLine(derr.Error())
		}
		if got := walkOrd(ms, back); got != want {
			return "mk:" + e.name + " DIFF " + got + " instead of " + want
		}
	}
	return "mk:ok"
}

func init() {
	register(&Stream{Name: "ymkey", Prop: "C19", Gen: genYMKey, Run: runYMKey})
	register(&Stream{Name: "yenc", Prop: "C19", Gen: genYEnc, Run: runYEnc})
}
