package main

import (
	"encoding/hex"
	"fmt"
	"sort"
	"strings"
)

// ---- C09: statement grammar — cardinality, ordering, argument syntax --------------------------------

type kwInfo struct {
	arg  string   // a valid argument ("" = none)
	need []string // mandatory substatement keywords
}

var kwTable = map[string]kwInfo{
	"module": {"m1", []string{"namespace", "prefix"}}, "submodule": {"s1", []string{"belongs-to"}},
	"import": {"other", []string{"prefix"}}, "include": {"sub1", nil}, "belongs-to": {"m1", []string{"prefix"}},
	"revision": {"2020-01-02", nil}, "revision-date": {"2019-05-06", nil},
	"namespace": {"urn:x:y", nil}, "prefix": {"pf", nil}, "yang-version": {"1", nil},
	"organization": {"org", nil}, "contact": {"me", nil}, "description": {"text", nil}, "reference": {"ref", nil},
	"typedef": {"td1", []string{"type"}}, "type": {"string", nil},
	"container": {"c1", nil}, "leaf": {"l1", []string{"type"}}, "leaf-list": {"ll1", []string{"type"}},
	"list": {"li1", []string{"key", "leaf"}}, "choice": {"ch1", nil}, "case": {"ca1", nil}, "anyxml": {"ax1", nil},
	"grouping": {"g1", nil}, "uses": {"g1", nil}, "rpc": {"r1", nil}, "input": {"", []string{"leaf"}}, "output": {"", []string{"leaf"}},
	"notification": {"n1", nil}, "augment": {"/a/b", nil}, "identity": {"id1", nil}, "extension": {"e1", nil},
	"argument": {"arg1", nil}, "feature": {"f1", nil}, "deviation": {"/a/b", []string{"deviate"}}, "deviate": {"add", nil},
	"range": {"1..10", nil}, "length": {"1..10", nil}, "pattern": {"[a-z]+", nil}, "enum": {"en1", nil}, "bit": {"b1", nil},
	"path": {"/a/b", nil}, "fraction-digits": {"2", nil}, "require-instance": {"true", nil},
	"default": {"dflt", nil}, "status": {"current", nil}, "units": {"u", nil}, "config": {"true", nil},
	"if-feature": {"f1", nil}, "presence": {"p", nil}, "when": {"a", nil}, "error-app-tag": {"tag", nil},
	"error-message": {"msg", nil}, "mandatory": {"false", nil}, "min-elements": {"1", nil}, "max-elements": {"5", nil},
	"ordered-by": {"user", nil}, "key": {"l1", nil}, "unique": {"l1", nil}, "refine": {"a/b", nil}, "base": {"id0", nil},
	"yin-element": {"true", nil}, "value": {"3", nil}, "position": {"3", nil}, "must": {"a", nil},
}

var rfcKeywords []string

func init() {
	for k := range kwTable {
		rfcKeywords = append(rfcKeywords, k)
	}
	sort.Strings(rfcKeywords)
}

var sectionRank = map[string]int{"yang-version": 0, "namespace": 0, "prefix": 0, "belongs-to": 0, "import": 1, "include": 1,
	"organization": 2, "contact": 2, "description": 2, "reference": 2, "revision": 3}

func rankOf(kw string) int {
	if r, ok := sectionRank[kw]; ok {
		return r
	}
	return 4
}

var nameCounter int

// stmtText: a statement of keyword kw that passes its own checks, with `extra` additional children
var suppressNeed string // triple generation: do not auto-add this mandatory child (to test "missing")

func stmtText(kw string, arg string, extra []string, depth int) string {
	info := kwTable[kw]
	if arg == "\x00" {
		arg = info.arg
		// distinct names for repeated definitions (typedef/grouping shadowing is not C09's subject)
		switch kw {
		case "typedef", "grouping", "leaf", "container", "list", "leaf-list", "choice", "case", "anyxml", "feature", "identity", "extension", "rpc", "notification", "enum", "bit":
			nameCounter++
			arg = fmt.Sprintf("%s-%d", info.arg, nameCounter)
		case "revision":
			// several revisions: strictly descending dates
			nameCounter++
			arg = fmt.Sprintf("2020-01-%02d", 28-nameCounter)
		}
	}
	kids := append([]string{}, extra...)
	have := map[string]bool{}
	for _, e := range extra {
		have[strings.Fields(e)[0]] = true
	}
	if depth < 4 {
		for _, n := range info.need {
			if !have[n] && !(depth == 0 && n == suppressNeed) {
				kids = append(kids, stmtText(n, "\x00", nil, depth+1))
			}
		}
	}
	if kw == "module" || kw == "submodule" {
		sort.SliceStable(kids, func(i, j int) bool { return rankOf(strings.Fields(kids[i])[0]) < rankOf(strings.Fields(kids[j])[0]) })
	}
	var b strings.Builder
	b.WriteString(kw)
	if arg != "" {
		b.WriteString(" \"" + strings.NewReplacer("\\", "\\\\", "\"", "\\\"").Replace(arg) + "\"")
	}
	if len(kids) == 0 {
		b.WriteString(";")
	} else {
		b.WriteString(" { " + strings.Join(kids, " ") + " }")
	}
	return b.String()
}

func mkCheckCase(text string, extra Case) Case {
	c := Case{"k": "yparse", "hex": hex.EncodeToString([]byte(text)), "text": text, "verdict": true}
	for k, v := range extra {
		c[k] = v
	}
	return c
}

var parentsForTriples = []string{"module", "submodule", "import", "include", "belongs-to", "revision", "typedef", "type", "container", "leaf",
	"leaf-list", "list", "choice", "case", "anyxml", "grouping", "uses", "rpc", "input", "output", "notification", "augment", "identity",
	"extension", "argument", "feature", "deviation", "range", "length", "pattern", "must", "enum", "bit", "when",
	// statements without substatements
	"description", "config", "key", "namespace", "prefix", "status", "default", "mandatory", "units", "presence", "path", "base", "value"}

// every (parent keyword, child keyword, multiplicity 0/1/2): the complete space the cardinality table encodes
func genYTriples(r *Rng, tier string, n int, emit func(Case)) {
	for _, p := range parentsForTriples {
		for _, c := range rfcKeywords {
			for m := 0; m <= 2; m++ {
				nameCounter = 0
				var extra []string
				for i := 0; i < m; i++ {
					extra = append(extra, stmtText(c, "\x00", nil, 1))
				}
				if p == "list" && c == "key" && m == 2 {
					extra[1] = strings.Replace(extra[1], "l1", "l1", 1)
				}
				suppressNeed = c
				text := stmtText(p, "\x00", extra, 0)
				suppressNeed = ""
				emit(mkCheckCase(text, Case{"triple": []any{p, c, m}}))
			}
		}
		// unknown keywords: prefixed extension statements are accepted anywhere, unprefixed ones never
		// (no extension cardinality is handed to Parse: the statements the package knows by name are extension statements too)
		for _, c := range []string{"ex:foo", "foo", "deviate-add", "unknown", "configd:help", "opd:help", "configd:validate", "opd:inherit", "opd:on-enter", "configd:error-message"} {
			text := stmtText(p, "\x00", []string{c + " \"add\";"}, 0)
			emit(mkCheckCase(text, Case{"ext": []any{p, c}}))
		}
	}
}

func perms(a []string) [][]string {
	if len(a) <= 1 {
		return [][]string{append([]string{}, a...)}
	}
	var out [][]string
	for i := range a {
		rest := append(append([]string{}, a[:i]...), a[i+1:]...)
		for _, p := range perms(rest) {
			out = append(out, append([]string{a[i]}, p...))
		}
	}
	return out
}

// all orders of the five sections (with optional sections dropped), and revision-date sequences
func genYOrder(r *Rng, tier string, n int, emit func(Case)) {
	secs := map[string]string{
		"hdr":  "namespace \"urn:x\"; prefix p;",
		"link": "import other { prefix o; }",
		"meta": "organization \"o\"; description \"d\";",
		"rev":  "revision 2020-01-02;",
		"body": "leaf l { type string; }",
	}
	names := []string{"hdr", "link", "meta", "rev", "body"}
	for mask := 0; mask < 32; mask++ {
		if mask&1 == 0 {
			continue // header is mandatory
		}
		var present []string
		for i, nm := range names {
			if mask&(1<<i) != 0 {
				present = append(present, nm)
			}
		}
		for _, p := range perms(present) {
			var parts []string
			for _, nm := range p {
				parts = append(parts, secs[nm])
			}
			text := "module m { " + strings.Join(parts, " ") + " }"
			emit(mkCheckCase(text, Case{"order": strings.Join(p, ",")}))
			// prefixed extension statements are accepted anywhere: before, between and after the sections
			for k := 0; k <= len(parts); k++ {
				for _, marker := range []string{"ex:marker \"x\";", "configd:help \"x\";", "opd:help \"x\";"} {
					withExt := append(append(append([]string{}, parts[:k]...), marker), parts[k:]...)
					emit(mkCheckCase("module m { "+strings.Join(withExt, " ")+" }", Case{"order": fmt.Sprintf("ext@%d,%s", k, strings.Join(p, ","))}))
				}
			}
			// interleaved: split the header around another section
			text2 := "module m { namespace \"urn:x\"; " + strings.Join(parts[1:], " ") + " prefix p; }"
			if p[0] == "hdr" && len(p) > 1 {
				emit(mkCheckCase(text2, Case{"order": "split-header," + strings.Join(p, ",")}))
			}
		}
	}
	dates := []string{"2020-01-02", "2020-01-01", "2019-12-31", "2020-02-29", "2019-02-29", "2020-13-01", "2020-00-10", "2020-04-31", "0000-01-01", "9999-12-31", "2020-1-02", "+020-01-01", "2020-01-0x", "20200102"}
	for i := 0; i < len(dates); i++ {
		emit(mkCheckCase("module m { namespace \"urn:x\"; prefix p; revision "+dates[i]+"; }", Case{"revs": dates[i]}))
		for j := 0; j < len(dates); j++ {
			emit(mkCheckCase("module m { namespace \"urn:x\"; prefix p; revision "+dates[i]+"; revision "+dates[j]+"; }", Case{"revs": dates[i] + "," + dates[j]}))
			if i < 6 && j < 6 { // an extension statement may stand anywhere, also between two revisions
				emit(mkCheckCase("module m { namespace \"urn:x\"; prefix p; revision "+dates[i]+"; x:note \"n\"; revision "+dates[j]+"; }", Case{"revs": dates[i] + ",ext," + dates[j]}))
			}
		}
	}
	for i := 0; i < n; i++ {
		var seq []string
		for k := 0; k < 1+r.Intn(4); k++ {
			seq = append(seq, fmt.Sprintf("%04d-%02d-%02d", 2015+r.Intn(6), 1+r.Intn(12), 1+r.Intn(28)))
		}
		if r.Bool() {
			sort.Sort(sort.Reverse(sort.StringSlice(seq)))
		}
		text := "submodule s { belongs-to m { prefix p; } "
		for _, d := range seq {
			text += "revision " + d + "; "
			if r.Chance(25) {
				text += "x:note \"n\"; "
			}
		}
		emit(mkCheckCase(text+"}", Case{"revs": strings.Join(seq, ",")}))
	}
}

// argument syntax per kind: a grammar-directed valid stream and a one-edit-away invalid stream
var argProbe = map[string][]string{
	"id":       {"a", "_a", "a-b.c_9", "A1", "1a", "-a", ".a", "xml", "XMLa", "xMl-x", "xm", "a b", "a:b", "é", "aé", "a/b", "", "a\tb"},
	"idref":    {"a", "p:a", "p:a:b", ":a", "p:", "1p:a", "p:1a", "xml:a", "p:xmla", "p :a", ""},
	"bool":     {"true", "false", "TRUE", "True", "1", "0", "t", "f", "T", "F", "yes", "", " true"},
	"uint":     {"0", "1", "10", "4294967295", "4294967296", "007", "010", "0x10", "0b1", "1_0", "+5", "-1", "1.0", "", "1e3", " 1"},
	"int":      {"0", "-1", "2147483647", "2147483648", "-2147483648", "-2147483649", "+5", "0x10", "010", "-0", "-01", "1_0", "--1", "", "1.5"},
	"max":      {"unbounded", "1", "0", "4294967295", "4294967296", "Unbounded", "010", "0x1", "-1", ""},
	"date":     {"2020-01-02", "2020-1-02", "+020-01-02", "-020-01-02", "2020-+1-02", "2020-01-+2", "2020-01-2x", "20200102", "2020/01/02", "2020-01-02 ", "", "2020-13-45"},
	"status":   {"current", "obsolete", "deprecated", "Current", "old", ""},
	"ordby":    {"system", "user", "User", ""},
	"deviate":  {"add", "delete", "replace", "not-supported", "remove", "Add", ""},
	"yangver":  {"1", "1.0", "1.1", "2", "01", ""},
	"key":      {"a", "a b", "a  b\tc", "p:a b", "1a", "a 1b", "a,b", "", " ", "a/b", "xmla"},
	"unique":   {"a", "a/b c/d", "p:a/q:b", "/a", "a//b", "a/", "1a", "", " ", "a b/"},
	"absschema": {"/a", "/p:a/b", "/a/b/c", "a/b", "//a", "/a/", "/", "", "/1a", "/a:b:c"},
	"descschema": {"a", "a/b", "p:a/q:b", "/a", "a//b", "a/", "", "1a"},
	"augment":  {"/a", "/p:a/b", "a/b", "a", "//a", "/a/", "", "1a", "/1a"},
	"fracdig":  {"1", "9", "10", "18", "19", "0", "05", "5 ", "+5", "-1", "1.0", "", "100"},
	"range":    {"1..10", "min..max", "1", "min", "max", "1 | 5..7", "-5..5", "1.5..2.5", "1..2..3", "a..b", "1..", "..2", "", "|", "1|", "1 .. 2", "0x1..2", "+1..2", "1e3", "max..min", "m in..max", "1 0..2 0", "1..5|\n7", "1..5 |\r\n7..9", "1\n..\n5", "1\r\n..5", "1..5\r|7", "1\r\n0", "1. .5", "1 . 5", "- 5", "mi n", "5..min", "max..max", "\n1..5\n", "1.\n5"},
	"length":   {"1..10", "min..max", "0", "min", "1 | 5..7", "18446744073709551615", "18446744073709551616", "-1..2", "1.5", "0x10", "010", "1_0", "1..2..3", "", "a", "1 0", "1..5|\n7", "1\r\n..5", "1\r0", "ma x", "min .. max", "5..min"},
	"empty":    {""},
}

var argKindKeywords = map[string][]string{
	"id": {"leaf", "container", "typedef", "grouping", "feature", "identity", "extension", "module", "import", "include", "belongs-to", "enum-SKIP"},
	"idref": {"base", "if-feature", "uses", "type"}, "bool": {"config", "mandatory", "require-instance", "yin-element"},
	"uint": {"min-elements", "position"}, "int": {"value"}, "max": {"max-elements"}, "date": {"revision", "revision-date"},
	"status": {"status"}, "ordby": {"ordered-by"}, "deviate": {"deviate"}, "yangver": {"yang-version"}, "key": {"key"},
	"unique": {"unique"}, "absschema": {"deviation"}, "descschema": {"refine"}, "augment": {"augment"}, "fracdig": {"fraction-digits"},
	"range": {"range"}, "length": {"length"}, "id2": {"prefix"},
}

// token alphabets per argument kind: every sequence of up to three (thorough: four) tokens is tried
var argAlphabets = map[string][]string{
	"range":   {"1", "0", "5", ".", "..", "-", "|", " ", "min", "max", "+", "e", "\t", "\f"},
	"length":  {"1", "0", "5", ".", "..", "-", "|", " ", "min", "max", "+", "\u00a0"},
	"date":    {"2020", "-", "01", "12", "13", "00", "31", "32", "1", "a", " "},
	"uint":    {"0", "1", "9", "-", "+", " ", ".", "x"},
	"int":     {"0", "1", "9", "-", "+", " ", ".", "x"},
	"max":     {"0", "1", "9", "-", "+", " ", "unbounded", "x"},
	"fracdig": {"0", "1", "8", "9", "-", "+", " ", "."},
	"id":      {"a", "1", "-", ".", "_", ":", "xml", "X", "é", " "},
	"idref":   {"a", "1", "-", ".", ":", "p", "xml", " "},
	"key":     {"a", "b", " ", ":", "p", "1", "/", "\t", "\f", "\v", "\u00a0", "\u0085"},
	"unique":  {"a", "b", " ", ":", "p", "1", "/", "\t", "\f", "\u00a0"},
	"absschema": {"a", "/", ":", "p", "1", " "},
	"descschema": {"a", "/", ":", "p", "1", " "},
	"augment": {"a", "/", ":", "p", "1", " "},
	"bool":    {"true", "false", "t", "T", " ", "1"},
}

// characters tried in place of each character of a valid argument
var substChars = map[string]string{
	"date": "-+ 09a/", "uint": "-+ 09ax._", "int": "-+ 09ax._", "fracdig": "-+ 091.", "max": "-+ 09ua",
	"range": "-+ 09.|ae", "length": "-+ 09.|ae", "bool": "tTeE 1", "key": " \t:/a1", "unique": " \t:/a1",
}

func enumArgs(alpha []string, maxLen int, emit func(string)) {
	var rec func(prefix string, depth int)
	rec = func(prefix string, depth int) {
		if depth > 0 {
			emit(prefix)
		}
		if depth == maxLen {
			return
		}
		for _, t := range alpha {
			rec(prefix+t, depth+1)
		}
	}
	rec("", 0)
}

func genYArgs(r *Rng, tier string, n int, emit func(Case)) {
	kinds := make([]string, 0, len(argKindKeywords))
	for k := range argKindKeywords {
		kinds = append(kinds, k)
	}
	sort.Strings(kinds)
	for _, kind := range kinds {
		probes := argProbe[kind]
		if kind == "id2" {
			probes = argProbe["id"]
		}
		for _, kw := range argKindKeywords[kind] {
			if strings.HasSuffix(kw, "-SKIP") {
				continue
			}
			for _, a := range probes {
				nameCounter = 0
				text := stmtTextWithArg(kw, a)
				emit(mkCheckCase(text, Case{"argkind": kind, "kw": kw, "arg": a}))
			}
			// every keyword of the kind has its own call site of the argument check (and some a second check
			// behind it): the first gets the longer sequences, the others one token less
			if alpha, ok := argAlphabets[kind]; ok {
				maxLen := 3
				if tier == "thorough" {
					maxLen = 4
				}
				if kw != argKindKeywords[kind][0] {
					maxLen--
				}
				seen := map[string]bool{}
				enumArgs(alpha, maxLen, func(a string) {
					if seen[a] {
						return
					}
					seen[a] = true
					nameCounter = 0
					emit(mkCheckCase(stmtTextWithArg(kw, a), Case{"argkind": kind, "kw": kw, "arg": a}))
				})
			}
			// every one-character substitution (for dates also every pair) in the first, valid, probe
			if len(probes) > 0 && len(probes[0]) > 0 && len(probes[0]) <= 12 {
				subs := substChars[kind]
				if subs == "" {
					subs = "-+ 0a."
				}
				base := []byte(probes[0])
				seen := map[string]bool{}
				put := func(a string) {
					if seen[a] || a == probes[0] {
						return
					}
					seen[a] = true
					nameCounter = 0
					emit(mkCheckCase(stmtTextWithArg(kw, a), Case{"argkind": kind, "kw": kw, "arg": a}))
				}
				for i := range base {
					for _, ch := range []byte(subs) {
						b := append([]byte{}, base...)
						b[i] = ch
						put(string(b))
						if kind == "date" && (tier == "thorough" || r.Chance(25)) {
							for j := i + 1; j < len(base); j++ {
								for _, ch2 := range []byte(subs) {
									b2 := append([]byte{}, b...)
									b2[j] = ch2
									put(string(b2))
								}
							}
						}
					}
					// one character dropped, one doubled
					put(string(append(append([]byte{}, base[:i]...), base[i+1:]...)))
					put(string(append(append(append([]byte{}, base[:i+1]...), base[i]), base[i+1:]...)))
				}
			}
			// random mutations of valid probes
			for i := 0; i < n/200+1; i++ {
				a := mutate(r, pick(r, probes))
				if strings.ContainsAny(a, "\x00") {
					continue
				}
				text := stmtTextWithArg(kw, a)
				emit(mkCheckCase(text, Case{"argkind": kind, "kw": kw, "arg": a}))
			}
		}
	}
}

// like stmtText, but the argument may be empty (then it is written as "")
func stmtTextWithArg(kw, a string) string {
	t := stmtText(kw, "\x01", nil, 0)
	q := "\"" + strings.NewReplacer("\\", "\\\\", "\"", "\\\"").Replace(a) + "\""
	return strings.Replace(t, "\"\x01\"", q, 1)
}

func init() {
	register(&Stream{Name: "ytriples", Prop: "C09", Gen: genYTriples, Run: runYParse})
	register(&Stream{Name: "yorder", Prop: "C09", Gen: genYOrder, Run: runYParse})
	register(&Stream{Name: "yargs", Prop: "C09", Gen: genYArgs, Run: runYParse})
}
