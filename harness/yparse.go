package main

import (
	"encoding/hex"
	"fmt"
	"runtime"
	"strings"
	"time"

	"github.com/sdcio/yang-parser/parse"
)

// ---- YANG lexer/parser streams: yfuzz (C07), yarg (C08), ytree (C10) ------------------------------

// lexerGoroutines counts goroutines running parse.(*lexer).run.  The filtered dump is exact but costs
// O(goroutines); once many have leaked (a broken tree) the plain goroutine count is used instead.
func lexerGoroutines() int {
	if n := runtime.NumGoroutine(); n > 64 {
		return n
	}
	buf := make([]byte, 1<<20)
	n := runtime.Stack(buf, true)
	return strings.Count(string(buf[:n]), "parse.(*lexer).run")
}

type parseOut struct {
	tree *parse.Tree
	err  error
	pan  any
}

// parseWatched runs parse.Parse under a watchdog and reports goroutines of the lexer that survive the call.
func parseWatched(name, text string) (out parseOut, leaked int, diverged bool) {
	many := runtime.NumGoroutine() > 60
	before := lexerGoroutines()
	if many {
		before = runtime.NumGoroutine()
	}
	ch := make(chan parseOut, 1)
	go func() {
		defer func() {
			if r := recover(); r != nil {
				ch <- parseOut{pan: r}
			}
		}()
		t, err := parse.Parse(name, text, nil)
		ch <- parseOut{tree: t, err: err}
	}()
	select {
	case out = <-ch:
	case <-time.After(3 * time.Second):
		return out, 0, true
	}
	for i := 0; i < 200; i++ {
		runtime.Gosched()
		if many {
			leaked = runtime.NumGoroutine() - before
		} else {
			leaked = lexerGoroutines() - before
		}
		if leaked <= 0 {
			break
		}
		time.Sleep(50 * time.Microsecond)
	}
	if leaked < 0 {
		leaked = 0
	}
	return out, leaked, false
}

func lineColOf(text string, pos int) (int, int) {
	before := text[:pos]
	line := 1 + strings.Count(before, "\n")
	col := pos
	if i := strings.LastIndex(before, "\n"); i >= 0 {
		col = pos - (i + 1)
	}
	return line, col
}

func dumpNode(n parse.Node) string {
	loc, _ := n.ErrorContext() // "name:L:C: stmt arg"
	var l, c int
	parts := strings.SplitN(loc, ":", 4)
	if len(parts) >= 3 {
		fmt.Sscan(parts[1], &l)
		fmt.Sscan(parts[2], &c)
	}
	var kids []string
	for _, ch := range n.Children() {
		kids = append(kids, dumpNode(ch))
	}
	return fmt.Sprintf("%s|%s|%d:%d{%s}", hex.EncodeToString([]byte(n.Statement())), hex.EncodeToString([]byte(n.Argument().String())), l, c, strings.Join(kids, ","))
}

// canonical observation of one parse.Parse call
func observeParse(name, text string, argOnly bool) string {
	out, leaked, diverged := parseWatched(name, text)
	if diverged {
		return "DIVERGED"
	}
	if out.pan != nil {
		return fmt.Sprintf("PANIC:%v", out.pan)
	}
	if out.err != nil {
		// "yang: in.yang:L:C: …" (parser) or "in.yang:L:C: …" (statement checks)
		msg := out.err.Error()
		i := strings.Index(msg, name+":")
		var l, c int
		if i < 0 {
			return "err-unlocated leak=" + fmt.Sprint(leaked)
		}
		if n, _ := fmt.Sscanf(msg[i+len(name)+1:], "%d:%d", &l, &c); n != 2 {
			return "err-unlocated leak=" + fmt.Sprint(leaked)
		}
		if out.tree != nil && out.tree.Root != nil {
			return "err-with-root"
		}
		return fmt.Sprintf("err:%d:%d leak=%d", l, c, leaked)
	}
	if out.tree == nil || out.tree.Root == nil {
		return "ok-without-root"
	}
	if argOnly {
		ch := out.tree.Root.Children()
		if len(ch) == 0 {
			return "arg:none"
		}
		return "arg:" + hex.EncodeToString([]byte(ch[0].Argument().String()))
	}
	return fmt.Sprintf("ok leak=%d %s", leaked, dumpNode(out.tree.Root))
}

func runYParse(c Case) string {
	b, _ := hex.DecodeString(cstr(c, "hex"))
	_, argOnly := c["pieces"]
	name := "in.yang"
	if nm := cstr(c, "name"); nm != "" {
		name = nm // the name of the input, which every error has to carry as it is
	}
	out := observeParse(name, string(b), argOnly)
	if cbool(c, "verdict") && strings.HasPrefix(out, "ok ") {
		// statement-grammar streams (C09) compare the verdict and the error location only
		return "ok"
	}
	return out
}

// ---- generators ----

var extKeywords = []string{"x:a", "x:b", "y:stmt", "ex:long-keyword", "p:q", "x:c1"}

func leadWidthGo(s string) int {
	w := 0
	for _, r := range s {
		if r == '\t' {
			w += 8
		} else {
			w++
		}
	}
	return w
}

func indentTo(r *Rng, col int) string {
	// exact-width indentation out of blanks and tabs
	var b strings.Builder
	w := 0
	for w < col {
		if col-w >= 8 && r.Chance(40) {
			b.WriteByte('\t')
			w += 8
		} else {
			b.WriteByte(' ')
			w++
		}
	}
	return b.String()
}

var argAlphabet = []string{"a", "b", "Z", "0", "9", " ", " ", "\t", "\n", "\n", "\"", "'", "\\", "/", "*", "+", ";", "{", "}", "é", "€", "//", "/*", "*/", ":", ".", "-", "_", "\r\n", "x y", "word", "\f", "\v", "\u00a0", "\u3000", "\u0085", "\r", "\r"}

func genArgValue(r *Rng) string {
	n := r.Intn(8)
	var b strings.Builder
	for i := 0; i < n; i++ {
		b.WriteString(pick(r, argAlphabet))
	}
	return b.String()
}

func unquotable(s string) bool {
	if s == "" || strings.HasPrefix(s, "//") || strings.HasPrefix(s, "/*") || s[0] == '+' || s[0] == '\'' {
		return false
	}
	return !strings.ContainsAny(s, " \t\r\n;{}\"")
}

// spellPiece writes one piece of the value in the given quoting; linePrefix is what precedes the piece on its
// source line (to know the column of the opening quote).  Returns source text and the piece descriptor.
func spellPiece(r *Rng, v string, linePrefix string, mode int) (string, map[string]any) {
	switch {
	case mode == 0 && unquotable(v):
		return v, map[string]any{"q": "u", "raw": hex.EncodeToString([]byte(v))}
	case mode <= 1 && !strings.Contains(v, "'"):
		return "'" + v + "'", map[string]any{"q": "s", "raw": hex.EncodeToString([]byte(v))}
	}
	col := leadWidthGo(linePrefix) + 1
	var raw strings.Builder
	lines := strings.Split(v, "\n")
	for i, ln := range lines {
		if i > 0 {
			raw.WriteString("\n")
			// continuation line: exact indentation (blank lines may stay empty)
			if ln != "" && ln != "\r" || r.Chance(50) {
				raw.WriteString(indentTo(r, col))
			}
		}
		// a line of the value must not end in blanks before a real line break: write those with escapes? no:
		// trailing blanks would be stripped, so such values take the escaped-newline route below
		for _, ch := range ln {
			switch ch {
			case '"':
				raw.WriteString("\\\"")
			case '\\':
				raw.WriteString("\\\\")
			default:
				raw.WriteRune(ch)
			}
		}
	}
	return "\"" + raw.String() + "\"", map[string]any{"q": "d", "col": col, "raw": hex.EncodeToString([]byte(raw.String()))}
}

// representable with real line breaks: no line (but the last) ends in a blank, no continuation line begins
// with a blank that the indentation would swallow … (exact indentation keeps them, so only trailing blanks matter)
func multilineSafe(v string) bool {
	lines := strings.Split(v, "\n")
	for i, ln := range lines {
		if i != len(lines)-1 {
			t := strings.TrimSuffix(ln, "\r")
			if strings.HasSuffix(t, " ") || strings.HasSuffix(t, "\t") {
				return false
			}
		}
	}
	return true
}

func genTrivia(r *Rng, must bool) string {
	var b strings.Builder
	n := r.Intn(3)
	if must && n == 0 {
		n = 1
	}
	for i := 0; i < n; i++ {
		switch r.Intn(6) {
		case 0:
			b.WriteString("\n")
		case 1:
			b.WriteString("\t")
		case 2:
			b.WriteString(pick(r, []string{" /* c; { \" */ ", " /**/", " /*/ x ; */ ", " /*** } ***/", " /* // */ ", " /* * / */", " /*\n multi\n line */", " /* é */ ", " /*日本語*/", " /* €€ */"}))
		case 3:
			b.WriteString(pick(r, []string{" // line ; } comment\n", " //\n", " /// /* x\n", " // */ \r\n"}))
		case 4:
			b.WriteString("\r\n  ")
		default:
			b.WriteString(" ")
		}
	}
	return b.String()
}

// genTriviaA: trivia after a token that ends by itself (a delimiter, a closing quote, '+', start of text):
// a comment may then follow with nothing in between ("a;/*c*/b;", "'x'+// c"), which after an unquoted
// word it may not (the word would swallow it)
func genTriviaA(r *Rng, must bool) string {
	t := genTrivia(r, must)
	if strings.HasPrefix(t, " /") && r.Chance(50) {
		return t[1:]
	}
	return t
}

// a line comment as the very last thing of a text, its line not ended by a line break
func lastLineComment(r *Rng) string {
	if !r.Chance(10) {
		return ""
	}
	return pick(r, []string{" // end", "//", "// é ; } \" x", "\n// last line", " ///* x"})
}

func genYArg(r *Rng, tier string, n int, emit func(Case)) {
	for i := 0; i < n; i++ {
		v := genArgValue(r)
		var src strings.Builder
		src.WriteString("x:m {" + genTriviaA(r, false))
		if r.Chance(50) {
			src.WriteString("\n" + indentTo(r, r.Intn(12)))
		}
		src.WriteString("x:s" + genTrivia(r, true))
		// the value as 1-3 pieces joined by '+'; a later piece may repeat an earlier one verbatim (the decoder
		// must find *its own* opening quote, not that of an identical piece elsewhere)
		np := 1
		if r.Chance(45) {
			np = 2 + r.Intn(2)
		}
		var pvs []string
		for k := 0; k < np; k++ {
			if k > 0 && r.Chance(35) {
				pvs = append(pvs, pvs[r.Intn(k)])
			} else if k == 0 {
				pvs = append(pvs, v)
			} else {
				pvs = append(pvs, genArgValue(r))
			}
		}
		v = strings.Join(pvs, "")
		var pieces []any
		var dqTexts []string
		lastQuoted := false
		for k := 0; k < np; k++ {
			pv := pvs[k]
			mode := r.Intn(4)
			if mode == 3 {
				mode = 2 // favour double-quoted pieces
			}
			if np > 1 && mode == 0 {
				mode = 1 // only quoted strings may be concatenated
			}
			if !multilineSafe(pv) && mode == 2 {
				mode = 1
			}
			if !strings.Contains(pv, "\n") && strings.ContainsAny(pv, "\t\\\"") && r.Chance(40) {
				mode = 3 // a single-line value written with \t \\ \" escapes: the RFC value is definite
			}
			if mode <= 1 && strings.Contains(pv, "'") {
				mode = 2
				if !multilineSafe(pv) {
					// write the offending blanks so that they survive: fall back to an escaped rendering
					mode = 3
				}
			}
			// current line prefix
			s := src.String()
			lp := s[strings.LastIndex(s, "\n")+1:]
			var txt string
			var desc map[string]any
			if k > 0 && len(dqTexts) > 0 && r.Chance(30) {
				// the source text of an earlier double-quoted piece once more, character for character, wherever this
				// piece happens to start: its value is what that text means at *this* column
				txt = dqTexts[r.Intn(len(dqTexts))]
				desc = map[string]any{"q": "d", "col": leadWidthGo(lp) + 1, "raw": hex.EncodeToString([]byte(txt[1 : len(txt)-1]))}
			} else if r.Chance(12) {
				// the source text of a double-quoted piece written directly: every backslash pair, defined or not
				// (RFC 6020 substitutes four of them; the others stay as they are)
				var raw strings.Builder
				for x, nx := 0, 1+r.Intn(6); x < nx; x++ {
					raw.WriteString(pick(r, []string{"a", "b", " ", "\t", "'", "/", "*", "é", ".", "\\n", "\\t", "\\\"", "\\\\", "\\'", "\\.", "\\x", "\\*", "\\/",
						"\\ ", "\\a", "\\0", "\\é", "\\N", "\\T", "\\;", "\\{", "\\+", "\\'x", "x\\'"}))
				}
				txt = "\"" + raw.String() + "\""
				desc = map[string]any{"q": "d", "col": leadWidthGo(lp) + 1, "raw": hex.EncodeToString([]byte(raw.String()))}
				pvs[k] = "?"
			} else if mode == 3 {
				esc := strings.NewReplacer("\\", "\\\\", "\"", "\\\"", "\n", "\\n", "\t", "\\t").Replace(pv)
				txt = "\"" + esc + "\""
				desc = map[string]any{"q": "d", "col": leadWidthGo(lp) + 1, "raw": hex.EncodeToString([]byte(esc))}
			} else {
				txt, desc = spellPiece(r, pv, lp, mode)
			}
			src.WriteString(txt)
			if strings.HasPrefix(txt, "\"") {
				dqTexts = append(dqTexts, txt)
			}
			lastQuoted = strings.HasPrefix(txt, "'") || strings.HasPrefix(txt, "\"")
			pieces = append(pieces, desc)
			if k != np-1 {
				src.WriteString(genTriviaA(r, false) + "+" + genTriviaA(r, false))
				if r.Chance(40) {
					src.WriteString("\n" + indentTo(r, r.Intn(14)))
				}
			}
		}
		if lastQuoted {
			src.WriteString(genTriviaA(r, false))
		} else {
			src.WriteString(genTrivia(r, false))
		}
		src.WriteString(";" + genTriviaA(r, false) + "}")
		src.WriteString(lastLineComment(r))
		text := src.String()
		emit(Case{"k": "yparse", "hex": hex.EncodeToString([]byte(text)), "text": text, "pieces": pieces, "value": hex.EncodeToString([]byte(v))})
	}
}

type genNode struct {
	kw, arg string
	kids    []*genNode
	pos     int
}

func genTree(r *Rng, depth int) *genNode {
	n := &genNode{kw: pick(r, extKeywords)}
	if r.Chance(70) {
		n.arg = genArgValue(r)
		if n.arg == "" && r.Chance(50) {
			n.arg = "v"
		}
	}
	if depth > 0 && r.Chance(60) {
		k := 1 + r.Intn(4)
		for i := 0; i < k; i++ {
			n.kids = append(n.kids, genTree(r, depth-1))
		}
	}
	return n
}

func (n *genNode) spell(r *Rng, b *strings.Builder, hasArg bool) {
	n.pos = b.Len()
	b.WriteString(n.kw)
	quoted := false
	if n.arg != "" || r.Chance(20) {
		b.WriteString(genTrivia(r, true))
		s := b.String()
		lp := s[strings.LastIndex(s, "\n")+1:]
		mode := r.Intn(3)
		if !multilineSafe(n.arg) || strings.Contains(n.arg, "'") {
			esc := strings.NewReplacer("\\", "\\\\", "\"", "\\\"", "\n", "\\n", "\t", "\\t").Replace(n.arg)
			b.WriteString("\"" + esc + "\"")
			quoted = true
		} else if rs := []rune(n.arg); len(rs) >= 2 && r.Chance(25) {
			// the same value as two single-quoted pieces joined by '+', trivia on both sides of the '+'
			i := 1 + r.Intn(len(rs)-1)
			b.WriteString("'" + string(rs[:i]) + "'" + genTriviaA(r, false) + "+" + genTriviaA(r, false) + "'" + string(rs[i:]) + "'")
			quoted = true
		} else {
			txt, _ := spellPiece(r, n.arg, lp, mode)
			b.WriteString(txt)
			quoted = strings.HasPrefix(txt, "'") || strings.HasPrefix(txt, "\"")
		}
	}
	if quoted {
		b.WriteString(genTriviaA(r, false))
	} else {
		b.WriteString(genTrivia(r, false))
	}
	if len(n.kids) == 0 && r.Chance(70) {
		b.WriteString(";")
		return
	}
	b.WriteString("{")
	for _, k := range n.kids {
		b.WriteString(genTriviaA(r, false))
		k.spell(r, b, true)
	}
	b.WriteString(genTriviaA(r, false) + "}")
}

func (n *genNode) dump(text string) string {
	l, c := lineColOf(text, n.pos)
	var kids []string
	for _, k := range n.kids {
		kids = append(kids, k.dump(text))
	}
	return fmt.Sprintf("%s|%s|%d:%d{%s}", hex.EncodeToString([]byte(n.kw)), hex.EncodeToString([]byte(n.arg)), l, c, strings.Join(kids, ","))
}

func hasEscWS(n *genNode) bool { // values that needed \n / \t escapes are order-sensitive (see Spec.YArg)
	if (!multilineSafe(n.arg) || strings.Contains(n.arg, "'")) && strings.ContainsAny(n.arg, "\n\t") {
		return true
	}
	for _, k := range n.kids {
		if hasEscWS(k) {
			return true
		}
	}
	return false
}

func genYTree(r *Rng, tier string, n int, emit func(Case)) {
	maxDepth := 3
	if tier == "thorough" {
		maxDepth = 6
	}
	for i := 0; i < n; i++ {
		t := genTree(r, 1+r.Intn(maxDepth))
		for hasEscWS(t) {
			t = genTree(r, 1+r.Intn(maxDepth))
		}
		var b strings.Builder
		b.WriteString(genTriviaA(r, false))
		t.spell(r, &b, true)
		b.WriteString(genTriviaA(r, false))
		text := b.String() + lastLineComment(r)
		emit(Case{"k": "yparse", "hex": hex.EncodeToString([]byte(text)), "text": text, "expect": "ok leak=0 " + t.dump(text)})
	}
}

// real YANG modules (containers, lists, leaves, choices with explicit and short-hand cases, statements after the
// children): the tree walk of the real parser against the model's tree with the parser's one normalisation
// (a short-hand case is wrapped in a case node of the same name and position)
func genYReal(r *Rng, tier string, n int, emit func(Case)) {
	for i := 0; i < n; i++ {
		g := &sgen{r: r, forData: true, withCfg: true, maxDepth: 2 + r.Intn(2)}
		top := g.genKids(0, false)
		var refs []astRef
		collectNodes(top, nil, &refs)
		for _, ref := range refs {
			switch cstr(ref.node, "k") {
			case "case":
				if ks := carr(ref.node, "kids"); len(ks) == 1 && cstr(ks[0].(map[string]any), "k") != "choice" && r.Chance(60) {
					ref.node["_shorthand"] = true
				}
			case "choice", "container", "list":
				if r.Chance(35) {
					ref.node["_descAfter"] = pick(r, []string{"d", "after the children", "x y"})
				}
			}
		}
		text := renderSchema(top) + lastLineComment(r)
		emit(Case{"k": "yparse", "hex": hex.EncodeToString([]byte(text)), "text": text, "real": true})
	}
}

func genYFuzz(r *Rng, tier string, n int, emit0 func(Case)) {
	emit := func(c Case) {
		if r.Chance(10) {
			c["name"] = pick(r, []string{"a%sb%d.yang", "100%.yang", "%!x(.yang", "dir/in put.yang", "%v", "é.yang"})
		}
		emit0(c)
	}
	alpha := []byte{'a', ' ', '\n', '"', '\'', '{', '}', ';', '+', '/', '*', '\\', ':', 0xc3, 0xa9, '\t'}
	var rec func(prefix []byte, depth int)
	maxLen := 3
	if tier == "thorough" {
		maxLen = 4
	}
	rec = func(prefix []byte, depth int) {
		emit(Case{"k": "yparse", "hex": hex.EncodeToString(prefix), "text": string(prefix)})
		if depth == maxLen {
			return
		}
		for _, a := range alpha {
			rec(append(append([]byte{}, prefix...), a), depth+1)
		}
	}
	rec(nil, 0)
	// every prefix of generated modules
	for i := 0; i < n/40+1; i++ {
		t := genTree(r, 2)
		var b strings.Builder
		t.spell(r, &b, true)
		text := b.String()
		for k := 0; k <= len(text); k++ {
			emit(Case{"k": "yparse", "hex": hex.EncodeToString([]byte(text[:k])), "text": text[:k]})
		}
	}
	for i := 0; i < n; i++ {
		l := 1 + r.Intn(24)
		b := make([]byte, l)
		for j := range b {
			if r.Chance(92) {
				b[j] = alpha[r.Intn(len(alpha))]
			} else {
				b[j] = byte(r.Intn(256))
			}
		}
		emit(Case{"k": "yparse", "hex": hex.EncodeToString(b), "text": string(b)})
	}
}

// ---- C07: texts that nest (or concatenate) a million times: refused, not a stack that runs into its limit -------

func genYDeep(r *Rng, tier string, n int, emit func(Case)) {
	for _, c := range []Case{
		{"shape": "blocks", "n": 1000000}, {"shape": "blocks", "n": 10001}, {"shape": "blocks", "n": 10000}, {"shape": "blocks", "n": 300},
		{"shape": "closed", "n": 10001}, {"shape": "closed", "n": 10000}, {"shape": "closed", "n": 2000},
		{"shape": "pieces", "n": 2000000}, {"shape": "pieces", "n": 10001}, {"shape": "pieces", "n": 10000}, {"shape": "pieces", "n": 50},
		{"shape": "wide", "n": 300000},
	} {
		c["k"] = "ydeep"
		emit(c)
	}
}

func runYDeep(c Case) string {
	n := cint(c, "n")
	var text string
	switch cstr(c, "shape") {
	case "blocks": // never closed
		text = strings.Repeat("x:a {", n)
	case "closed":
		text = strings.Repeat("x:a { ", n-1) + "x:a;" + strings.Repeat(" }", n-1)
	case "pieces": // n '+' signs
		text = "x:a " + strings.Repeat("'a' + ", n) + "'a';"
	default: // siblings: no depth at all
		text = "x:a { " + strings.Repeat("x:b;", n) + " }"
	}
	_, err := parse.Parse("deep.yang", text, nil)
	switch {
	case err == nil:
		return "deep:ok"
	case strings.Contains(err.Error(), "nested more than") || strings.Contains(err.Error(), "pieces in"):
		return "deep:refused"
	}
	return "deep:err"
}

func init() {
	register(&Stream{Name: "ydeep", Prop: "C07", Gen: genYDeep, Run: runYDeep})
	register(&Stream{Name: "yfuzz", Prop: "C07", Gen: genYFuzz, Run: runYParse})
	register(&Stream{Name: "yarg", Prop: "C08", Gen: genYArg, Run: runYParse})
	register(&Stream{Name: "ytree", Prop: "C10", Gen: genYTree, Run: runYParse})
	register(&Stream{Name: "yreal", Prop: "C10", Gen: genYReal, Run: runYParse})
}
