package main

import (
	"fmt"
	"sort"
	"strings"

	"github.com/sdcio/yang-parser/schema"
)

// ---- C15: embedded XPath is checked at compile time in the prefix scope of the text it is written in ---------
//
// c, d: plain modules.  b imports c as "x".  m imports b as "b", c as "y", d as "x" (the same prefix as in b,
// another module).  a2 imports m as "m", c as "z".  Expressions sit in a grouping and a typedef of b (used
// from m), directly in m, and under an augment of m written in a2.

var scopePrefixes = map[string][]string{"b": {"b", "x"}, "m": {"m", "b", "y", "x"}, "a2": {"a2", "m", "z"}, "ms": {"w"}}
var scopeNs = map[string]map[string]string{
	"b":  {"b": "urn:b", "x": "urn:c"},
	"m":  {"m": "urn:m", "b": "urn:b", "y": "urn:c", "x": "urn:d"},
	"a2": {"a2": "urn:a2", "m": "urn:m", "z": "urn:c"},
	"ms": {"w": "urn:e"}, // submodule ms of m: its own import only (the prefix of its belongs-to statement cannot be used)
}

func genXPathText(r *Rng, scope string, leafref bool) (string, string) {
	saved := knownPrefixes
	defer func() { knownPrefixes = saved }()
	knownPrefixes = scopePrefixes[scope]
	fault := "none"
	if r.Chance(3) {
		// a prefix that is not imported where the text is written (it may well be known where it is used)
		// — a prefix bound in another module, or the name of a module that is imported here under another prefix
		knownPrefixes = []string{pick(r, map[string][]string{"b": {"y", "c"}, "m": {"z", "c", "d"}, "a2": {"y", "c"}, "ms": {"y", "e", "b"}}[scope])}
		fault = "prefix"
	}
	var s string
	if leafref {
		s = genLeafrefPath(r)
	} else {
		p := genPathExprAST(r, 1)
		switch r.Intn(4) {
		case 0:
			s = renderMin(r, p)
		case 1:
			s = renderMin(r, map[string]any{"t": "bin", "op": "eq", "a": p, "b": map[string]any{"t": "lit", "s": "v", "q": r.Intn(2)}})
		case 2:
			s = renderMin(r, map[string]any{"t": "call", "f": "not", "args": []any{p}})
		default:
			s = renderMin(r, map[string]any{"t": "bin", "op": pick(r, []string{"and", "or"}), "a": p, "b": genPathExprAST(r, 1)})
		}
	}
	if fault == "prefix" && !strings.Contains(s, knownPrefixes[0]+":") {
		fault = "none"
	}
	if fault == "none" && r.Chance(2) {
		s = strings.NewReplacer("\n", " ", "\r", " ").Replace(mutate(r, s)) // the listing is compared line by line
		fault = "maybe-syntax"
	}
	return s, fault
}

func genYXPCase(r *Rng) Case {
	mk := func(scope string, leafref bool) map[string]any {
		s, f := genXPathText(r, scope, leafref)
		return map[string]any{"scope": scope, "text": s, "fault": f}
	}
	c := Case{"k": "yxp"}
	// which expressions are present
	ex := map[string]any{}
	if r.Chance(70) {
		ex["b.must"] = mk("b", false)
	}
	if r.Chance(35) { // a second must on the same leaf: every one of them is compiled
		ex["b.must2"] = mk("b", false)
	}
	if r.Chance(50) {
		ex["b.when"] = mk("b", false)
	}
	if r.Chance(50) {
		ex["b.path"] = mk("b", true)
	}
	if r.Chance(40) {
		ex["b.tpath"] = mk("b", true)
	}
	if r.Chance(60) {
		ex["m.must"] = mk("m", false)
	}
	if r.Chance(35) {
		ex["m.must2"] = mk("m", false)
	}
	if r.Chance(30) { // a must a refine adds to the leaf copied from b's grouping (which may have musts of its own)
		ex["m.refmust"] = mk("m", false)
	}
	if r.Chance(40) {
		ex["m.useswhen"] = mk("m", false) // written on the uses in m, carried by the nodes copied from b's grouping
	}
	if r.Chance(40) {
		ex["m.path"] = mk("m", true)
	}
	if r.Chance(30) { // on the key leaf of a list
		ex["m.keywhen"] = mk("m", false)
	}
	if r.Chance(30) {
		ex["m.keymust"] = mk("m", false)
	}
	if r.Chance(30) { // on a uses that supplies the key leaf of a list
		ex["m.kuwhen"] = mk("m", false)
	}
	if r.Chance(50) {
		ex["a2.must"] = mk("a2", false)
	}
	if r.Chance(35) {
		ex["a2.must2"] = mk("a2", false)
	}
	if r.Chance(40) {
		ex["a2.when"] = mk("a2", false)
	}
	if r.Chance(30) {
		ex["a2.augwhen"] = mk("a2", false)
	}
	if r.Chance(35) { // on a leaf-list of b's grouping, and one more added by a refine in m: both are kept
		ex["b.llmust"] = mk("b", false)
	}
	if r.Chance(30) {
		ex["m.llrefmust"] = mk("m", false)
	}
	if r.Chance(25) { // in an rpc written in a submodule of m: an expression of the module
		ex["s.rpcmust"] = mk("ms", false)
	}
	if r.Chance(25) { // in a grouping of m that nothing uses: an expression of the module all the same
		ex["u.must"] = mk("m", false)
	}
	// the when of a uses / augment may read exactly like the when the node has of its own (both are kept: they are
	// written in different places, possibly in modules that bind the prefixes differently)
	same := func(own, handed string) {
		o, ok1 := ex[own].(map[string]any)
		h, ok2 := ex[handed].(map[string]any)
		if ok1 && ok2 && o["fault"] == "none" && h["fault"] == "none" && r.Chance(35) {
			h["text"] = o["text"]
		}
	}
	same("b.when", "m.useswhen")
	same("a2.when", "a2.augwhen")
	c["exprs"] = ex
	return c
}

func genYXP(r *Rng, tier string, n int, emit func(Case)) {
	for i := 0; i < n; i++ {
		emit(genYXPCase(r))
	}
}

func yxpTexts(c Case) []string {
	ex := cmap(c, "exprs")
	get := func(k, stmt string) string {
		if e, ok := ex[k].(map[string]any); ok {
			return " " + stmt + " " + yq(cstr(e, "text")) + ";"
		}
		return ""
	}
	typeOr := func(k string) string {
		if e, ok := ex[k].(map[string]any); ok {
			return "type leafref { path " + yq(cstr(e, "text")) + "; }"
		}
		return "type string;"
	}
	cm := `module c { namespace "urn:c"; prefix c; container ctop { leaf a { type string; } leaf b { type string; } } }`
	dm := `module d { namespace "urn:d"; prefix d; container dtop { leaf a { type string; } } }`
	bm := "module b { namespace \"urn:b\"; prefix b; import c { prefix x; }\n" +
		"  typedef bt { " + typeOr("b.tpath") + " }\n" +
		"  grouping bg {\n    leaf bl { type string;" + get("b.must", "must") + get("b.must2", "must") + get("b.when", "when") + " }\n" +
		"    leaf br { " + typeOr("b.path") + " }\n    leaf-list bll { type string;" + get("b.llmust", "must") + " }\n  }\n  grouping kg { leaf bk { type string; } }\n}\n"
	unused := ""
	if _, ok := ex["u.must"]; ok {
		unused = "  grouping ug { leaf ul { type string;" + get("u.must", "must") + " } }\n"
	}
	include, sub := "", ""
	if _, ok := ex["s.rpcmust"]; ok {
		include = " include ms;"
		sub = "submodule ms { belongs-to m { prefix m; } import e { prefix w; }\n  rpc subr { input { leaf sx { type string;" + get("s.rpcmust", "must") + " } } }\n}\n"
	}
	mm := "module m { namespace \"urn:m\"; prefix m; import b { prefix b; } import c { prefix y; } import d { prefix x; }" + include + "\n" + unused +
		"  container mtop {\n    uses b:bg" + usesBody(get("m.useswhen", "when")+refineBody(get("m.refmust", "must"))+strings.Replace(refineBody(get("m.llrefmust", "must")), "refine bl ", "refine bll ", 1)) + "\n    leaf ml { type string;" + get("m.must", "must") + get("m.must2", "must") + " }\n" +
		"    leaf mt { type b:bt; }\n    leaf mr { " + typeOr("m.path") + " }\n" +
		"    list mlist { key mk; leaf mk { type string;" + get("m.keymust", "must") + get("m.keywhen", "when") + " } leaf mv { type string; } }\n" +
		"    list blist { key bk; uses b:kg" + usesBody(get("m.kuwhen", "when")) + " }\n  }\n}\n"
	am := "module a2 { namespace \"urn:a2\"; prefix a2; import m { prefix m; } import c { prefix z; }\n" +
		"  augment /m:mtop {" + get("a2.augwhen", "when") + "\n    leaf al { type string;" + get("a2.must", "must") + get("a2.must2", "must") + get("a2.when", "when") + " }\n  }\n}\n"
	if sub != "" {
		em := `module e { namespace "urn:e"; prefix e; container etop { leaf a { type string; } } }`
		return []string{cm, dm, bm, mm, am, em, sub}
	}
	return []string{cm, dm, bm, mm, am}
}

func refineBody(s string) string {
	if s == "" {
		return ""
	}
	return " refine bl {" + s + " }"
}

func usesBody(s string) string {
	if s == "" {
		return ";"
	}
	return " {" + s + " }"
}

func machObs(kind string, m interface {
	GetExpr() string
	PrintMachine() string
}) string {
	return kind + "|" + hexTok(m.GetExpr()) + "|" + canonListingNs(m.PrintMachine())
}

// like canonListing, but the namespace of a name test is kept as it is
func canonListingNs(l string) string {
	var out []string
	for _, line := range strings.Split(l, "\n") {
		if line == "" || strings.HasPrefix(line, "---") {
			continue
		}
		if strings.HasPrefix(line, "Name-Push\t{") {
			body := strings.TrimSuffix(strings.TrimPrefix(line, "Name-Push\t{"), "}")
			sp := strings.LastIndex(body, " ")
			out = append(out, "name "+body[:sp]+" "+runesCSV(body[sp+1:]))
			continue
		}
		out = append(out, canonListing(line))
	}
	return strings.Join(out, ";")
}

func runYXP(c Case) string {
	texts := yxpTexts(c)
	ms, err := compileWith(nil, nil, texts...)
	if err != nil {
		s := err.Error()
		if strings.HasPrefix(s, "PANIC") {
			return s
		}
		// does the error say where: the statement (or the node that carries it) and the expression
		named := "unnamed"
		for _, e := range cmap(c, "exprs") {
			if strings.Contains(s, cstr(e.(map[string]any), "text")) {
				named = "names-expression"
			}
		}
		for _, n := range []string{"leaf bl", "leaf br", "leaf ml", "leaf mt", "leaf mr", "leaf al", "leaf mk", "leaf bk", "leaf sx", "leaf-list bll", "uses b:kg", "typedef bt", "type leafref", "must ", "when ", "path "} {
			if strings.Contains(s, ": "+n) {
				named += "+statement"
				break
			}
		}
		return "err " + named
	}
	top := ms.Child("mtop")
	var out []string
	for _, ln := range []string{"bl", "br", "ml", "mt", "mr", "al", "mlist/mk", "blist/bk", "bll"} {
		n := top
		for _, seg := range strings.Split(ln, "/") {
			if _, isList := n.(schema.List); isList && n != nil {
				n = n.Child("x") // the entry
			}
			if n != nil {
				n = n.Child(seg)
			}
		}
		if i := strings.LastIndex(ln, "/"); i >= 0 {
			ln = ln[i+1:]
		}
		if n == nil {
			out = append(out, ln+":absent")
			continue
		}
		var obs []string
		for _, m := range n.Musts() {
			obs = append(obs, machObs("must", m.Mach))
		}
		for _, w := range n.Whens() {
			obs = append(obs, machObs(fmt.Sprintf("when/%v", w.RunAsParent), w.Mach))
		}
		if lr, ok := n.Type().(schema.Leafref); ok {
			obs = append(obs, machObs("path", lr.Mach()))
		}
		sort.Strings(obs)
		out = append(out, ln+":"+strings.Join(obs, ","))
	}
	// the leaf in the input of the rpc that the submodule of m defines
	sx := "sx:"
	if _, ok := cmap(c, "exprs")["s.rpcmust"]; ok {
		sx = "sx:absent"
		if rp, ok := ms.Rpcs()["urn:m"]["subr"]; ok && rp.Input().Child("sx") != nil {
			var obs []string
			for _, m := range rp.Input().Child("sx").Musts() {
				obs = append(obs, machObs("must", m.Mach))
			}
			sx = "sx:" + strings.Join(obs, ",")
		}
	}
	out = append(out, sx)
	return "ok\n" + strings.Join(out, "\n")
}

func init() {
	register(&Stream{Name: "yxp", Prop: "C15", Gen: genYXP, Run: runYXP})
}
