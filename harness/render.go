package main

import (
	"fmt"
	"strings"
)

// ---- expression ASTs → token lists → text ----------------------------------------------------

var opLevel = map[string]int{"or": 0, "and": 1, "eq": 2, "ne": 2, "lt": 3, "gt": 3, "le": 3, "ge": 3,
	"add": 4, "sub": 4, "mul": 5, "div": 5, "mod": 5, "union": 7}

func exprLevel(e map[string]any) int {
	switch cstr(e, "t") {
	case "bin":
		return opLevel[cstr(e, "op")]
	case "neg":
		return 6
	}
	return 8
}

// exprTokens renders e as a token list; extra = probability (percent) of a redundant pair of parentheses
// around any sub-expression; full = parenthesise every compound operand.
func exprTokens(r *Rng, e map[string]any, extra int, full bool) []string {
	var toks []string
	wrap := func(sub map[string]any, need bool) []string {
		t := exprTokens(r, sub, extra, full)
		compound := cstr(sub, "t") == "bin" || cstr(sub, "t") == "neg"
		if need || (full && compound) || (extra > 0 && r != nil && r.Chance(extra)) {
			return append(append([]string{"("}, t...), ")")
		}
		return t
	}
	switch cstr(e, "t") {
	case "num":
		toks = []string{cstr(e, "txt")}
	case "lit":
		toks = []string{quoteLit(cstr(e, "s"), cint(e, "q"))}
	case "env":
		name := fmt.Sprintf("n%d", cint(e, "id"))
		switch cint(e, "form") {
		case 0:
			toks = []string{"/", name}
		case 1:
			toks = []string{name}
		default:
			toks = []string{"..", "/", name}
		}
	case "neg":
		a := cmap(e, "a")
		toks = append([]string{"-"}, wrap(a, exprLevel(a) < 6)...)
	case "bin":
		lv := exprLevel(e)
		a, b := cmap(e, "a"), cmap(e, "b")
		toks = append(toks, wrap(a, exprLevel(a) < lv)...)
		toks = append(toks, binOpText[cstr(e, "op")])
		toks = append(toks, wrap(b, exprLevel(b) <= lv)...)
	case "call":
		toks = []string{cstr(e, "f"), "("}
		for i, a := range carr(e, "args") {
			if i > 0 {
				toks = append(toks, ",")
			}
			toks = append(toks, wrap(a.(map[string]any), false)...)
		}
		toks = append(toks, ")")
	case "path":
		toks = pathTokens(r, e, extra, full)
	}
	return toks
}

func pathTokens(r *Rng, p map[string]any, extra int, full bool) []string {
	var toks []string
	steps := carr(p, "steps")
	switch cstr(p, "root") {
	case "abs":
		toks = append(toks, "/")
	case "cur":
		toks = append(toks, "current", "(", ")")
		if len(steps) > 0 {
			toks = append(toks, "/")
		}
	case "deref":
		toks = append(toks, "deref", "(")
		toks = append(toks, pathTokens(r, cmap(p, "inner"), extra, full)...)
		toks = append(toks, ")")
		if len(steps) > 0 {
			toks = append(toks, "/")
		}
	}
	for i, s := range steps {
		st := s.(map[string]any)
		if i > 0 {
			toks = append(toks, "/")
		}
		if cbool(st, "up") {
			toks = append(toks, "..")
			continue
		}
		name := cstr(st, "name")
		if pf := cstr(st, "pfx"); pf != "" {
			name = pf + ":" + name
		}
		toks = append(toks, name)
		for _, pr := range carr(st, "preds") {
			pm := pr.(map[string]any)
			toks = append(toks, "[", cstr(pm, "key"), "=")
			toks = append(toks, exprTokens(r, cmap(pm, "val"), extra, full)...)
			toks = append(toks, "]")
		}
	}
	return toks
}

func isWordy(b byte) bool {
	return b == '_' || b == '.' || (b >= '0' && b <= '9') || (b >= 'a' && b <= 'z') || (b >= 'A' && b <= 'Z') || b >= 0x80
}

// needSep: would the two adjacent tokens fuse or be read differently without whitespace?
func needSep(prev, next string) bool {
	if prev == "" || next == "" {
		return false
	}
	p, n := prev[len(prev)-1], next[0]
	if isNumeral(prev) && (n >= 'a' && n <= 'z') && n != 'e' {
		// a numeral ends where its digits and points end: "4div 2" is 4, div, 2
		return false
	}
	if isWordy(p) && (isWordy(n) || n == '-' || n == ':') {
		return true
	}
	if p == '/' && n == '/' {
		return true
	}
	if (p == '<' || p == '>' || p == '!') && n == '=' {
		return true
	}
	if p == ':' && n == ':' {
		return true
	}
	if p == '.' && n == '.' {
		return true
	}
	// a quoted literal never fuses
	return false
}

// isNumeral: digits and points only, beginning with a digit
func isNumeral(t string) bool {
	if t == "" || t[0] < '0' || t[0] > '9' {
		return false
	}
	for i := 0; i < len(t); i++ {
		if !(t[i] >= '0' && t[i] <= '9') && t[i] != '.' {
			return false
		}
	}
	return true
}

var wsChoices = []string{" ", "\t", "\n", "\r\n", "  ", " \t "}

// randWS: one of the fixed choices, or (half of the time) any run of one to four of the four XPath
// whitespace characters in any order (a look-ahead must skip all of them, wherever they stand in the run)
func randWS(r *Rng) string {
	if r.Chance(50) {
		return pick(r, wsChoices)
	}
	n := 1 + r.Intn(4)
	var b strings.Builder
	for i := 0; i < n; i++ {
		b.WriteString(pick(r, []string{" ", "\t", "\n", "\r"}))
	}
	return b.String()
}

// spell joins tokens: mode 0 = minimal (whitespace only where needed), 1 = single spaces everywhere,
// 2 = random whitespace at random boundaries (always where needed)
func spell(r *Rng, toks []string, mode int) string {
	var b strings.Builder
	for i, t := range toks {
		if i > 0 {
			need := needSep(toks[i-1], t)
			switch {
			case mode == 1:
				b.WriteString(" ")
			case mode == 2 && (need || r.Chance(40)):
				b.WriteString(randWS(r))
			case need:
				b.WriteString(" ")
			}
		} else if mode == 2 && r.Chance(20) {
			b.WriteString(randWS(r))
		}
		b.WriteString(t)
	}
	if mode == 2 && r.Chance(20) {
		b.WriteString(randWS(r))
	}
	return b.String()
}

func renderMin(r *Rng, e map[string]any) string {
	return spell(r, exprTokens(r, e, 0, false), 0)
}

// ---- location-path ASTs of the supported grammar (C02) -------------------------------------------

var pathNames = []string{"a", "b", "c", "ll", "ab", "k", "x", "if-name", "n0", "n1"}
var keyNames = []string{"k", "k1", "k2", "name", "id"}

// a predicate-free path: absolute, current()-rooted or starting with '..'
func genOperandPath(r *Rng) map[string]any {
	p := map[string]any{"t": "path"}
	var steps []any
	switch r.Intn(3) {
	case 0:
		p["root"] = "abs"
	case 1:
		p["root"] = "cur"
	default:
		p["root"] = "rel"
		steps = append(steps, map[string]any{"up": true})
	}
	n := 1 + r.Intn(2)
	for i := 0; i < n; i++ {
		if r.Chance(20) {
			steps = append(steps, map[string]any{"up": true})
		} else {
			steps = append(steps, map[string]any{"name": pick(r, []string{"a", "b", "c", "k", "x", "n0", "n1"})})
		}
	}
	p["steps"] = steps
	return p
}

func genOperand(r *Rng, depth int) map[string]any {
	switch r.Intn(6) {
	case 0:
		return map[string]any{"t": "lit", "s": pick(r, []string{"v", "", "a b", "1", "é", "x/y", "07", "1.0", "1.50", " 5 ", "-0", "0100", "+3", ".5", "1e2", "NaN", "Infinity"}), "q": r.Intn(2)}
	case 1:
		return map[string]any{"t": "num", "txt": pick(r, []string{"1", "2.5", "10", "0", "1000000"})}
	case 2:
		f := pick(r, []string{"concat", "string", "normalize-space", "substring-before"})
		switch f {
		case "concat", "substring-before":
			if depth > 0 && r.Chance(40) {
				// the arguments are paths themselves (one, the other, or both): each is resolved, the function sees their values
				a := []any{map[string]any{"t": "lit", "s": pick(r, []string{"ab", "-", ""}), "q": 0}, map[string]any{"t": "lit", "s": pick(r, []string{"-", "b"}), "q": 1}}
				switch r.Intn(3) {
				case 0:
					a[0] = genOperandPath(r)
				case 1:
					a[1] = genOperandPath(r)
				default:
					a[0], a[1] = genOperandPath(r), genOperandPath(r)
				}
				return map[string]any{"t": "call", "f": f, "args": a}
			}
			return map[string]any{"t": "call", "f": f, "args": []any{
				map[string]any{"t": "lit", "s": pick(r, []string{"ab", "x-y", "", "0", "1.0/24"}), "q": 0},
				map[string]any{"t": "lit", "s": pick(r, []string{"-", "b", "z", "7", "/"}), "q": 1}}}
		default:
			if depth > 0 && r.Chance(30) {
				return map[string]any{"t": "call", "f": f, "args": []any{genOperandPath(r)}}
			}
			return map[string]any{"t": "call", "f": f, "args": []any{map[string]any{"t": "num", "txt": pick(r, []string{"1", "2.50", "007"})}}}
		}
	default:
		if depth <= 0 {
			return map[string]any{"t": "lit", "s": "leaf", "q": 0}
		}
		// predicate-free path: absolute, current()-rooted or starting with '..'
		p := map[string]any{"t": "path"}
		var steps []any
		switch r.Intn(3) {
		case 0:
			p["root"] = "abs"
		case 1:
			p["root"] = "cur"
		default:
			p["root"] = "rel"
			steps = append(steps, map[string]any{"up": true})
		}
		n := 1 + r.Intn(3)
		for i := 0; i < n; i++ {
			if r.Chance(25) {
				steps = append(steps, map[string]any{"up": true})
			} else {
				st := map[string]any{"name": pick(r, pathNames)}
				if r.Chance(20) {
					st["pfx"] = pick(r, knownPrefixes)
				}
				steps = append(steps, st)
			}
		}
		p["steps"] = steps
		return p
	}
}

func genSteps(r *Rng, n, maxPreds, depth int, first bool) []any {
	var steps []any
	for i := 0; i < n; i++ {
		if r.Chance(20) {
			steps = append(steps, map[string]any{"up": true})
			continue
		}
		st := map[string]any{"name": pick(r, pathNames)}
		if r.Chance(20) {
			st["pfx"] = pick(r, knownPrefixes)
		}
		if maxPreds > 0 && r.Chance(45) {
			np := 1 + r.Intn(maxPreds)
			var preds []any
			used := map[string]bool{}
			for j := 0; j < np; j++ {
				k := pick(r, keyNames)
				if used[k] {
					continue
				}
				used[k] = true
				preds = append(preds, map[string]any{"key": k, "val": genOperand(r, depth)})
			}
			st["preds"] = preds
		}
		steps = append(steps, st)
	}
	return steps
}

func genPathExprAST(r *Rng, depth int) map[string]any {
	p := map[string]any{"t": "path"}
	nsteps := 1 + r.Intn(4)
	switch r.Intn(8) {
	case 0, 1, 2:
		p["root"] = "abs"
	case 3, 4:
		p["root"] = "rel"
	case 5, 6:
		p["root"] = "cur"
		nsteps = r.Intn(4)
	default:
		p["root"] = "deref"
		inner := map[string]any{"t": "path", "root": pick(r, []string{"abs", "rel", "cur"})}
		inner["steps"] = genSteps(r, 1+r.Intn(2), 1, depth-1, true)
		p["inner"] = inner
		nsteps = r.Intn(3)
	}
	p["steps"] = genSteps(r, nsteps, 2, depth, true)
	return p
}
