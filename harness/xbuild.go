package main

import (
	"encoding/hex"
	"fmt"
	"math"
	"regexp"
	"strconv"
	"strings"

	"github.com/sdcio/yang-parser/xpath"
	"github.com/sdcio/yang-parser/xpath/grammars/expr"
	"github.com/sdcio/yang-parser/xpath/grammars/leafref"
	"github.com/sdcio/yang-parser/xpath/grammars/path_eval"
)

// ---- xbuild: New*Machine on arbitrary byte strings (C03 listing, C04 accept/reject, C05 totality) ----

var knownPrefixes = []string{"p", "q"}

func testMapFn(prefix string) (string, error) {
	if prefix == "" {
		return "", nil
	}
	for _, p := range knownPrefixes {
		if p == prefix {
			return "ns-" + p, nil
		}
	}
	return "", fmt.Errorf("unknown prefix %q", prefix)
}

var markRe = regexp.MustCompile(`(?s)\nGot to approx \[X\] in '(.*)'\n$`)

func canonBuild(text string, mach *xpath.Machine, err error, withProg bool) string {
	if err != nil {
		msg := err.Error()
		if strings.HasPrefix(msg, "Empty XPATH expression") {
			if text == "" {
				return "err:empty"
			}
			return "err:-1:E-unquoted" // the fixed message for an expression that is not empty: nothing quoted, no mark
		}
		m := markRe.FindStringSubmatch(msg)
		mark := -1
		if m != nil {
			body := m[1]
			for k := 0; k <= len(text); k++ {
				if body == text[:k]+" [X] "+text[k:] {
					mark = k
					break
				}
			}
		}
		quoted := strings.Contains(msg, "'"+text+"'")
		flags := ""
		if strings.Contains(msg, "Lexer Error:") {
			flags += "L"
		}
		if strings.Contains(msg, "Parse Error:") {
			flags += "P"
		}
		if !quoted {
			flags += "-unquoted"
		}
		return fmt.Sprintf("err:%d:%s", mark, flags)
	}
	if mach == nil {
		return "nil-machine-nil-error"
	}
	if !withProg {
		return "ok"
	}
	return "ok " + canonListing(mach.PrintMachine())
}

func runesCSV(s string) string {
	var parts []string
	for _, r := range s {
		parts = append(parts, strconv.Itoa(int(r)))
	}
	return strings.Join(parts, ",")
}

func canonListing(l string) string {
	var out []string
	for _, line := range strings.Split(l, "\n") {
		if line == "" || strings.HasPrefix(line, "---") {
			continue
		}
		switch {
		case strings.HasPrefix(line, "numpush\t\t"):
			f, err := strconv.ParseFloat(strings.TrimPrefix(line, "numpush\t\t"), 64)
			if err != nil && !math.IsInf(f, 0) {
				out = append(out, "num ?"+line)
			} else {
				out = append(out, "num "+fmt.Sprint(canonBits(f)))
			}
		case strings.HasPrefix(line, "litpush\t\t'"):
			s := strings.TrimSuffix(strings.TrimPrefix(line, "litpush\t\t'"), "'")
			out = append(out, "lit "+runesCSV(s))
		case strings.HasPrefix(line, "bltin\t\t"):
			out = append(out, "bltin "+strings.TrimSuffix(strings.TrimPrefix(line, "bltin\t\t"), "()"))
		case strings.HasPrefix(line, "PathOper-Push\t"):
			if strings.Contains(line, "..") {
				out = append(out, "dotdot")
			} else {
				out = append(out, "root")
			}
		case strings.HasPrefix(line, "Name-Push\t{"):
			body := strings.TrimSuffix(strings.TrimPrefix(line, "Name-Push\t{"), "}")
			sp := strings.LastIndex(body, " ")
			ns, local := body[:sp], body[sp+1:]
			out = append(out, "name "+runesCSV(strings.TrimPrefix(ns, "ns-"))+":"+runesCSV(local))
		default:
			out = append(out, line)
		}
	}
	return strings.Join(out, ";")
}

func runXBuild(c Case) string {
	b, _ := hex.DecodeString(cstr(c, "hex"))
	text := string(b)
	var mapFn xpath.PfxMapFn
	if _, ok := c["pm"]; ok {
		mapFn = testMapFn
	}
	var mach *xpath.Machine
	var err error
	switch cstr(c, "g") {
	case "leafref":
		mach, err = leafref.NewLeafrefMachine(text, mapFn)
	case "pathEval":
		mach, err = path_eval.NewPathEvalMachine(text, mapFn, "loc")
	default:
		mach, err = expr.NewExprMachine(text, mapFn)
	}
	out := canonBuild(text, mach, err, cbool(c, "prog"))
	if cstr(c, "g") == "pathEval" && out != "err:empty" {
		// only totality is claimed for this grammar: a machine, or an error that quotes the
		// expression and marks a position inside it
		if out == "ok" {
			return "total"
		}
		var k int
		var fl string
		if n, _ := fmt.Sscanf(out, "err:%d:%s", &k, &fl); n == 2 && k >= 0 && k <= len(text) && !strings.Contains(fl, "unquoted") {
			return "total"
		}
	}
	return out
}

var exprLexemes = []string{
	"1", ".5", "12.5", "'s'", "\"\"", "a", "p:a", "z:a", "*", "p:*", "and", "or", "div", "mod", "+", "-", "(", ")", "[", "]", ",", "|",
	"/", "//", ".", "..", "@", "::", "=", "!=", "<", "<=", ">", ">=", "not", "concat", "true", "current", "deref", "text", "node",
	"child", "$v", "!", ":", "count", "foo",
}

var leafrefLexemes = []string{
	"/", "..", "a", "p:a", "z:a", "[", "]", "=", "current", "(", ")", "*", ".", "xmlfoo", "1", "'s'", "//", "deref", "a-b.c", "_x",
}

func mkBuildCase(g, text string, prog bool, pm bool) Case {
	c := Case{"k": "xbuild", "g": g, "hex": hex.EncodeToString([]byte(text)), "text": text, "fixed": true}
	if prog {
		c["prog"] = true
	}
	if pm {
		c["pm"] = knownPrefixes
	}
	return c
}

// every token sequence up to maxLen over the alphabet, spelled with the given separator
func enumSeqs(alpha []string, maxLen int, sep string, f func(string)) {
	var rec func(prefix []string, depth int)
	rec = func(prefix []string, depth int) {
		if len(prefix) > 0 {
			f(strings.Join(prefix, sep))
		}
		if depth == maxLen {
			return
		}
		for _, a := range alpha {
			rec(append(prefix, a), depth+1)
		}
	}
	rec(nil, 0)
}

func genXSmall(r *Rng, tier string, n int, emit func(Case)) {
	maxLen := 3
	if tier == "thorough" {
		maxLen = 4
	}
	enumSeqs(exprLexemes, maxLen, " ", func(s string) { emit(mkBuildCase("expr", s, false, true)) })
	enumSeqs(exprLexemes, maxLen-1, "", func(s string) { emit(mkBuildCase("expr", s, false, true)) })
	enumSeqs(leafrefLexemes, maxLen+1, "", func(s string) { emit(mkBuildCase("leafref", s, false, true)) })
	enumSeqs(leafrefLexemes, maxLen, " ", func(s string) { emit(mkBuildCase("leafref", s, false, true)) })
}

func randBytes(r *Rng, n int) string {
	alpha := "abz01.:/*()[]'\"=<>!|,+-@ \t\n$xe\x00\x80\xff\xc3\xa9\xe2\x82\xac\xf0\x9f\x98\x80\xee\x80\x80\xef\xbf\xbd"
	b := make([]byte, n)
	for i := range b {
		if r.Chance(90) {
			b[i] = alpha[r.Intn(len(alpha))]
		} else {
			b[i] = byte(r.Intn(256))
		}
	}
	return string(b)
}

func mutate(r *Rng, s string) string {
	b := []byte(s)
	for k := 0; k < 1+r.Intn(2); k++ {
		if len(b) == 0 {
			return randBytes(r, 1+r.Intn(3))
		}
		i := r.Intn(len(b))
		switch r.Intn(4) {
		case 0:
			b = append(b[:i], b[i+1:]...)
		case 1:
			ins := randBytes(r, 1)
			b = append(b[:i], append([]byte(ins), b[i:]...)...)
		case 2:
			b[i] = randBytes(r, 1)[0]
		default:
			b = b[:i]
		}
	}
	return string(b)
}

// random leafref path-arg (valid by construction), with optional whitespace between tokens
func genLeafrefPath(r *Rng) string {
	ws := func() string {
		if r.Chance(25) {
			return pick(r, []string{" ", "\t", "  ", "\n"})
		}
		return ""
	}
	nid := func() string {
		n := pick(r, []string{"a", "b", "if-name", "x_1", "A.b", "_u"})
		if r.Chance(30) {
			n = pick(r, knownPrefixes) + ":" + n
		}
		return n
	}
	pred := func() string {
		s := "[" + ws() + nid() + ws() + "=" + ws() + "current" + ws() + "(" + ws() + ")" + ws() + "/" + ws()
		for i := 0; i <= r.Intn(3); i++ {
			s += ".." + ws() + "/" + ws()
		}
		for i := 0; i < r.Intn(3); i++ {
			s += nid() + ws() + "/" + ws()
		}
		return s + nid() + ws() + "]"
	}
	steps := func() string {
		s := nid()
		for i := 0; i < r.Intn(3); i++ {
			s += pred()
		}
		for i := 0; i < r.Intn(4); i++ {
			s += ws() + "/" + ws() + nid()
			for j := 0; j < r.Intn(2); j++ {
				s += pred()
			}
		}
		return s
	}
	if r.Bool() {
		return "/" + steps()
	}
	s := ""
	for i := 0; i <= r.Intn(3); i++ {
		s += ".." + ws() + "/" + ws()
	}
	return s + steps()
}

func genXFuzz(r *Rng, tier string, n int, emit func(Case)) {
	// all 1- and 2-byte inputs over a reduced byte alphabet for the three grammars
	bytesAlpha := []byte{0, ' ', '!', '"', '\'', '(', ')', '*', '+', ',', '-', '.', '/', '0', '9', ':', '<', '=', '>', '@', 'a', 'e', '[', ']', '|', '$', 0x80, 0xc3, 0xa9, 0xe2, 0xf0, 0xff, 0xee}
	for _, g := range []string{"expr", "leafref", "pathEval"} {
		for _, a := range bytesAlpha {
			emit(mkBuildCase(g, string([]byte{a}), false, false))
			for _, b := range bytesAlpha {
				emit(mkBuildCase(g, string([]byte{a, b}), false, false))
			}
		}
	}
	// every function name in every near-miss spelling, with 0-3 arguments: only the names of the table are functions
	fnames := []string{"count", "current", "deref", "local-name", "re-match", "sum", "name", "lang", "id", "namespace-uri"}
	for _, f := range c01Fns {
		fnames = append(fnames, f.name)
	}
	for _, f := range fnames {
		vars := []string{f, strings.ReplaceAll(f, "-", "_"), strings.ReplaceAll(f, "-", ""), strings.ReplaceAll(f, "-", "."), strings.ReplaceAll(f, "-", " -"),
			strings.ToUpper(f[:1]) + f[1:], strings.ToUpper(f), f[:len(f)-1], f + "x", f + "s", "x" + f, f + "-", "-" + f, f + "_", "_" + f, strings.ReplaceAll(f, "-", "--")}
		seen := map[string]bool{}
		for _, v := range vars {
			if seen[v] {
				continue
			}
			seen[v] = true
			for _, args := range []string{"", "'a'", "'a','b'", "'a','b','c'", "1,2", "a"} {
				for _, g := range []string{"expr", "pathEval"} {
					emit(mkBuildCase(g, v+"("+args+")", false, false))
				}
			}
		}
	}
	// blanks inside a prefixed name, an exponent, empty parentheses: always among the inputs
	for _, t := range []string{"a : b", "a: b", "a :b", "p :*", "p : *", "/a : b", "1e3", "1E3", "1.e1", ".5e1", "()", "( )", "boolean(())", "a:b", "p:*",
		// two-character operators are one token: no blank inside
		"1 ! = 2", "1 !\t= 2", "a[b ! = 'x']", "1 != 2", "1 < = 2", "1 > = 2", "1 <= 2", "1 >= 2", "a / / b", "a : : b", ". . / a", "../a", ". ./a"} {
		for _, g := range []string{"expr", "leafref", "pathEval"} {
			emit(mkBuildCase(g, t, false, true))
			emit(mkBuildCase(g, t, false, false))
		}
	}
	for i := 0; i < n; i++ {
		g := pick(r, []string{"expr", "expr", "leafref", "pathEval"})
		var text string
		switch r.Intn(4) {
		case 0:
			text = randBytes(r, 1+r.Intn(12))
		case 1, 2:
			if g == "leafref" {
				text = genLeafrefPath(r)
			} else {
				e := genExpr(r, 1+r.Intn(4), 'o', 2)
				text = renderMin(r, e)
			}
			if r.Chance(70) {
				text = mutate(r, text)
			}
		default:
			if g == "leafref" {
				text = genLeafrefPath(r)
			} else {
				text = renderMin(r, genPathExprAST(r, 2))
			}
			if r.Chance(50) {
				text = mutate(r, text)
			}
		}
		emit(mkBuildCase(g, text, false, r.Chance(50)))
	}
}

func init() {
	register(&Stream{Name: "xsmall", Prop: "C04", Gen: genXSmall, Run: runXBuild})
	register(&Stream{Name: "xfuzz", Prop: "C05", Gen: genXFuzz, Run: runXBuild})
}
