package main

import (
	"fmt"
	"regexp"
	"strings"

	"github.com/sdcio/yang-parser/data/datanode"
	"github.com/sdcio/yang-parser/data/encoding"
	"github.com/sdcio/yang-parser/schema"
)

// ---- C19 (second stream): decoding is total, yields conforming trees, never alters a value ------------------

var tamperTypes = []string{"int8", "uint8", "int64", "uint64", "decimal64:2", "string", "boolean", "empty", "enumeration:a:b:c-d"}

// literal text of a JSON value and its structure for the Lean side
var tamperLits = [][2]string{
	{"1.5", "n"}, {"1.0", "n"}, {"1e2", "n"}, {"300", "n"}, {"-0", "n"}, {"0", "n"}, {"127", "n"}, {"128", "n"}, {"-129", "n"},
	{"9223372036854775807", "n"}, {"9223372036854775808", "n"}, {"18446744073709551615", "n"}, {"18446744073709551616", "n"},
	{"9007199254740993", "n"}, {"1.25", "n"}, {"1.255", "n"}, {"5.0000000000000001", "n"}, {"1E400", "n"},
	{"true", "b"}, {"false", "b"}, {"null", "null"}, {"[null]", "arrnull"},
	{"\"x\"", "s"}, {"\"5\"", "s"}, {"\" 5\"", "s"}, {"\"\"", "s"}, {"\"a\"", "s"}, {"\"true\"", "s"}, {"\"1.5\"", "s"},
}

// named types with identityrefs / unions: a value qualified with the leaf's own module name is accepted in
// its simple form when — and only when — that simple form is an identity of an identityref member
var tamperNamed = map[string]string{
	"idref":       "type identityref { base idm:base; }",
	"union-id-u16": "type union { type identityref { base idm:base; } type uint16; }",
	"union-u8-str": "type union { type uint8; type string { length \"1..2\"; } }",
	"union-nested": "type union { type boolean; type union { type identityref { base idm:base; } type int8; } }",
}
var tamperNamedLits = []string{"m:local", "m:80", "m:idm:one", "idm:one", "idm:two", "idm:base", "local", "80", "m:ab", "ab", "zz:one", "m:", "m:m:local", "m:true", "true", "m:-5", "-5", "x:local"}

func genYEncFuzz(r *Rng, tier string, n int, emit func(Case)) {
	for _, t := range []string{"idref", "union-id-u16", "union-u8-str", "union-nested"} {
		for _, l := range tamperNamedLits {
			for _, enc := range []string{"rfc7951", "json", "xml"} {
				if n <= 0 {
					return
				}
				emit(Case{"k": "yencfuzz", "mode": "tamper2", "type": t, "val": l, "enc": enc})
				n--
			}
		}
	}
	// the whole tamper table first (small, exhaustive), then mutated encodings
	for _, t := range tamperTypes {
		for _, l := range tamperLits {
			for _, enc := range []string{"rfc7951", "json"} {
				if n <= 0 {
					return
				}
				emit(Case{"k": "yencfuzz", "mode": "tamper", "type": t, "lit": l[0], "shape": l[1], "enc": enc})
				n--
			}
		}
	}
	// a complete JSON document followed by something: only white space may follow
	for i := 0; i < 120 && i < n; i++ {
		c := genYEncCase(r, tier)
		emit(Case{"k": "yencfuzz", "mode": "trail", "top": c["top"], "data": c["data"], "enc": pick(r, []string{"rfc7951", "json"}),
			"tail": pick(r, []string{"", " ", "\n", "\t \r\n", "}", "]", " }", "\n]", "}}", "] garbage", "x", "1", "{}", ",", "null", "\"a\"", " {\"a\":1}", "\x00", "//"})})
	}
	for i := 0; i < n; i++ {
		c := genYEncCase(r, tier)
		emit(Case{"k": "yencfuzz", "mode": "bytes", "top": c["top"], "data": c["data"], "enc": pick(r, []string{"rfc7951", "json", "xml"}),
			"nmut": 1 + r.Intn(3), "mseed": int(r.U64() % 1000000)})
	}
}

func tamperSchema(t string) string {
	ty := map[string]any{"base": t, "levels": []any{map[string]any{}}}
	return "module m { namespace \"urn:m\"; prefix m;\n  leaf x { " + renderType(ty) + " }\n}\n"
}

func encTypeOf(s string) encoding.EncType {
	switch s {
	case "rfc7951":
		return encoding.RFC7951
	case "json":
		return encoding.JSON
	}
	return encoding.XML
}

// does the decoded tree conform to the schema (structure and values)?
func conforms(sn schema.Node, n datanode.DataNode, path string) string {
	seen := map[string]bool{}
	for _, k := range n.YangDataChildren() {
		if seen[k.YangDataName()] {
			return path + "/" + k.YangDataName() + ": two nodes of one name"
		}
		seen[k.YangDataName()] = true
		csn := sn.Child(k.YangDataName())
		if csn == nil {
			return path + "/" + k.YangDataName() + ": not in the schema"
		}
		p := path + "/" + k.YangDataName()
		switch t := csn.(type) {
		case schema.Leaf:
			vs := k.YangDataValues()
			if len(vs) != 1 {
				return fmt.Sprintf("%s: a leaf with %d values", p, len(vs))
			}
			if len(k.YangDataChildren()) != 0 {
				return p + ": a leaf with children"
			}
			if err := t.Type().Validate(nil, []string{}, vs[0]); err != nil {
				return p + ": value " + hexTok(vs[0]) + " is not a value of the type"
			}
		case schema.LeafList:
			for _, v := range k.YangDataValues() {
				if err := t.Type().Validate(nil, []string{}, v); err != nil {
					return p + ": value " + hexTok(v) + " is not a value of the type"
				}
			}
		case schema.List:
			if len(k.YangDataValues()) != 0 {
				return p + ": a list with values"
			}
			entries := map[string]bool{}
			for _, e := range k.YangDataChildren() {
				if entries[e.YangDataName()] {
					return p + "/" + e.YangDataName() + ": two entries of one key"
				}
				entries[e.YangDataName()] = true
				esn := t.Child(e.YangDataName())
				var keyVal *string
				for _, ek := range e.YangDataChildren() {
					if ek.YangDataName() == t.Keys()[0] && len(ek.YangDataValues()) == 1 {
						v := ek.YangDataValues()[0]
						keyVal = &v
					}
				}
				if keyVal == nil || *keyVal != e.YangDataName() {
					return p + "/" + e.YangDataName() + ": entry not named by its key"
				}
				if r := conforms(esn, e, p+"/"+e.YangDataName()); r != "" {
					return r
				}
			}
		default:
			if len(k.YangDataValues()) != 0 {
				return p + ": a container with values"
			}
			if r := conforms(csn, k, p); r != "" {
				return r
			}
		}
	}
	return ""
}

func runYEncFuzz(c Case) (out string) {
	defer func() {
		if r := recover(); r != nil {
			out = fmt.Sprintf("PANIC %v", r)
		}
	}()
	if cstr(c, "mode") == "tamper2" {
		schemaText := "module m { namespace \"urn:m\"; prefix m; import idm { prefix idm; }\n  identity local { base idm:base; }\n  leaf x { " + tamperNamed[cstr(c, "type")] + " }\n}\n"
		ms, err := compileTexts(nil, idmModule, schemaText)
		if err != nil {
			return "compile-err " + err.Error()
		}
		v := cstr(c, "val")
		var doc string
		switch cstr(c, "enc") {
		case "rfc7951":
			doc = "{\"m:x\": " + fmt.Sprintf("%q", v) + "}"
		case "json":
			doc = "{\"x\": " + fmt.Sprintf("%q", v) + "}"
		default:
			doc = "<data><x xmlns=\"urn:m\">" + v + "</x></data>"
		}
		dn, derr := encoding.NewUnmarshaller(encTypeOf(cstr(c, "enc"))).SetValidation(schema.DontValidate).Unmarshal(ms, []byte(doc))
		if derr != nil {
			return "err"
		}
		for _, k := range dn.YangDataChildren() {
			if k.YangDataName() == "x" {
				var vs []string
				for _, v := range k.YangDataValues() {
					vs = append(vs, hexTok(v))
				}
				return "ok:" + strings.Join(vs, ",")
			}
		}
		return "ok:absent"
	}
	if cstr(c, "mode") == "tamper" {
		ms, err := compileTexts(nil, tamperSchema(cstr(c, "type")))
		if err != nil {
			return "compile-err " + err.Error()
		}
		name := "x"
		if cstr(c, "enc") == "rfc7951" {
			name = "m:x"
		}
		doc := "{\"" + name + "\": " + cstr(c, "lit") + "}"
		dn, derr := encoding.NewUnmarshaller(encTypeOf(cstr(c, "enc"))).SetValidation(schema.DontValidate).Unmarshal(ms, []byte(doc))
		if derr != nil {
			return "err"
		}
		for _, k := range dn.YangDataChildren() {
			if k.YangDataName() == "x" {
				var vs []string
				for _, v := range k.YangDataValues() {
					vs = append(vs, hexTok(v))
				}
				return "ok:" + strings.Join(vs, ",")
			}
		}
		return "ok:absent"
	}
	ms, err := compileTexts(nil, idmModule, renderEncSchema(carr(c, "top")))
	if err != nil {
		return "compile-err " + err.Error()
	}
	data := toDataNode(cmap(c, "data"))
	var bs []byte
	switch cstr(c, "enc") {
	case "rfc7951":
		bs = encoding.ToRFC7951(ms, data)
	case "json":
		bs = encoding.ToJSON(ms, data)
	default:
		bs = encoding.ToXML(ms, data)
	}
	if cstr(c, "mode") == "trail" {
		_, derr := encoding.NewUnmarshaller(encTypeOf(cstr(c, "enc"))).SetValidation(schema.DontValidate).Unmarshal(ms, append(bs, []byte(cstr(c, "tail"))...))
		if derr != nil {
			return "trail:err"
		}
		return "trail:ok"
	}
	r := NewRng(uint64(cint(c, "mseed")) + 1)
	s := string(bs)
	for i := 0; i < cint(c, "nmut"); i++ {
		s = mutateEnc(r, s)
	}
	dn, derr := encoding.NewUnmarshaller(encTypeOf(cstr(c, "enc"))).SetValidation(schema.DontValidate).Unmarshal(ms, []byte(s))
	if derr != nil {
		return "err"
	}
	if why := conforms(ms, dn, ""); why != "" {
		return "NONCONFORMING " + why + " <- " + hexTok(s)
	}
	return "ok"
}

// mutations that keep the document mostly well-formed: the interesting failures are past the parser
func mutateEnc(r *Rng, s string) string {
	if len(s) == 0 {
		return s
	}
	switch r.Intn(13) {
	case 11: // an entry of a JSON list once more: the first object of an array
		if i := strings.Index(s, "[{"); i >= 0 {
			depth, j := 0, i+1
			for ; j < len(s); j++ {
				if s[j] == '{' {
					depth++
				} else if s[j] == '}' {
					depth--
					if depth == 0 {
						break
					}
				}
			}
			if j < len(s) {
				return s[:j+1] + "," + s[i+1:j+1] + s[j+1:]
			}
		}
		return s
	case 12: // an XML element with children (a list entry, a container) once more, next to itself
		if m := xmlOpenRe.FindAllStringSubmatchIndex(s, -1); len(m) > 0 {
			e := m[r.Intn(len(m))]
			name := s[e[2]:e[3]]
			if j := strings.Index(s[e[1]:], "</"+name+">"); j >= 0 {
				end := e[1] + j + len(name) + 3
				return s[:end] + s[e[0]:end] + s[end:]
			}
		}
		return s
	case 9: // a whole XML element once more (as it is, or with another text), next to itself or at the end of its parent
		if m := xmlLeafRe.FindAllStringIndex(s, -1); len(m) > 0 {
			e := m[r.Intn(len(m))]
			el := s[e[0]:e[1]]
			if r.Chance(50) {
				if a, b := strings.Index(el, ">"), strings.LastIndex(el, "<"); a >= 0 && b > a {
					el = el[:a+1] + pick(r, []string{"zz", "1", "", "true"}) + el[b:]
				}
			}
			if r.Chance(50) {
				return s[:e[1]] + el + s[e[1]:]
			}
			if j := strings.Index(s[e[1]:], "</"); j >= 0 {
				return s[:e[1]+j] + el + s[e[1]+j:]
			}
		}
		return s
	case 10: // a JSON member once more under its other name: qualified with the module / unqualified
		if m := jsonMemberRe.FindAllStringSubmatchIndex(s, -1); len(m) > 0 {
			e := m[r.Intn(len(m))]
			name := s[e[2]:e[3]]
			other := "m:" + name
			if i := strings.Index(name, ":"); i >= 0 {
				other = name[i+1:]
			}
			val := s[e[4]:e[5]]
			if r.Chance(50) {
				val = pick(r, []string{"\"zz\"", "1", "null", "true"})
			}
			return s[:e[0]] + "\"" + other + "\":" + val + "," + s[e[0]:]
		}
		return s
	case 0: // delete a byte
		i := r.Intn(len(s))
		return s[:i] + s[i+1:]
	case 1: // duplicate a span
		i := r.Intn(len(s))
		j := i + r.Intn(len(s)-i)
		return s[:j] + s[i:j] + s[j:]
	case 2: // replace a quoted string by a number / a number by a string / a value by a structure
		return replaceValue(r, s)
	case 3:
		i := r.Intn(len(s))
		return s[:i] + pick(r, []string{"null", "[null]", "[]", "{}", "1.5", "\"\"", "true", "[1,2]", "<x/>", "</", "&amp;", "-"}) + s[i:]
	case 4: // truncate
		return s[:r.Intn(len(s))]
	case 5: // swap two bytes
		i, j := r.Intn(len(s)), r.Intn(len(s))
		b := []byte(s)
		b[i], b[j] = b[j], b[i]
		return string(b)
	case 6: // duplicate a key / element: repeat the first member
		if i := strings.Index(s, ","); i > 0 {
			return s[:i] + s[:i][1:] + s[i:]
		}
		return s + s
	case 7: // a digit becomes another
		b := []byte(s)
		for k := 0; k < 20; k++ {
			i := r.Intn(len(b))
			if b[i] >= '0' && b[i] <= '9' {
				b[i] = byte('0' + r.Intn(10))
				break
			}
		}
		return string(b)
	default:
		return s + pick(r, []string{" ", "}", "x", "\n{}", "<a/>"})
	}
}

var xmlOpenRe = regexp.MustCompile(`<([A-Za-z_][A-Za-z0-9_.-]*)( [^<>]*)?><`)
var xmlLeafRe = regexp.MustCompile(`<([A-Za-z_][A-Za-z0-9_.-]*)( [^<>]*)?>[^<>]*</[A-Za-z_][A-Za-z0-9_.-]*>`)
var jsonMemberRe = regexp.MustCompile(`"([A-Za-z_][A-Za-z0-9_.:-]*)":("[^"]*"|[0-9.eE+-]+|true|false|null|\[null\])`)

func replaceValue(r *Rng, s string) string {
	// find a ':' (JSON) or '>' (XML) and replace what follows up to the next delimiter
	var idx []int
	for i := 0; i < len(s); i++ {
		if s[i] == ':' || s[i] == '>' {
			idx = append(idx, i)
		}
	}
	if len(idx) == 0 {
		return s
	}
	i := idx[r.Intn(len(idx))] + 1
	j := i
	for j < len(s) && !strings.ContainsRune(",}]<", rune(s[j])) {
		j++
	}
	return s[:i] + pick(r, []string{"1.5", "\"zz\"", "null", "[1,2]", "{\"a\":1}", "99999999999999999999", "-1", "true", "", "zz"}) + s[j:]
}

func init() {
	register(&Stream{Name: "yencfuzz", Prop: "C19", Gen: genYEncFuzz, Run: runYEncFuzz})
}
