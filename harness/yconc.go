package main

import (
	gocontext "context"
	"encoding/hex"
	"fmt"
	"strings"
	"sync"

	"github.com/sdcio/yang-parser/xpath"
	"github.com/sdcio/yang-parser/xpath/xutils"
	"github.com/sdcio/yang-parser/xpath/grammars/expr"
)

// ---- C06: a compiled machine is immutable and safe under concurrency -----------------------------------------
//
// Each case holds a few expressions (scalar ones over leaf values, location paths over the recording mock
// tree).  Every machine is compiled once, run once in isolation (the observation the Lean model predicts),
// then run again several times sequentially and from several goroutines at once, while other goroutines
// compile and run the same and other expressions.  With the race-detector build, any report fails the run.

func genYConc(r *Rng, tier string, n int, emit func(Case)) {
	for i := 0; i < n; i++ {
		var subs []any
		k := 2 + r.Intn(3)
		for j := 0; j < k; j++ {
			if r.Bool() {
				genC01(r, "quick", 1, func(c Case) { subs = append(subs, map[string]any(c)) })
			} else {
				genC02(r, "quick", 1, func(c Case) { subs = append(subs, map[string]any(c)) })
			}
		}
		// re-match() with patterns that differ between the expressions of one case (plain alphanumeric
		// patterns: the result is "the subject contains the pattern")
		if r.Chance(35) {
			words := []string{"ab", "abc", "bc", "x1", "eth", "eth0", "0", "zz"}
			for j := 0; j < 2+r.Intn(2); j++ {
				subs = append(subs, map[string]any{"k": "rm", "s": pick(r, words) + pick(r, words), "p": pick(r, words)})
			}
		}
		// a union of node sets the tree hands out as slices of its own arrays: the result is a new set, the arrays stay as they are
		if r.Chance(30) {
			ns := []string{"nsa", "nsb", "nsc"}
			subs = append(subs, map[string]any{"k": "un", "a": pick(r, ns), "b": pick(r, ns)})
		}
		emit(Case{"k": "yconc", "subs": subs})
	}
}

type concJob struct {
	text string
	run  func(m *xpath.Machine) string
	fail func(m *xpath.Machine, k int) // a run that the data tree makes fail at its k-th callback
}

func subJob(sub map[string]any) concJob {
	if cstr(sub, "k") == "un" {
		run := func(m *xpath.Machine) string {
			tree := &mockTree{hash: true, backing: map[string][]xutils.XpathNode{}}
			res := xpath.NewCtxFromCurrent(gocontext.Background(), m, &mockEntry{t: tree}).Run()
			if res.GetError() != nil {
				return "un:error " + firstLine(res.GetError().Error())
			}
			for _, b := range tree.backing {
				if b[:cap(b)][1] != nil {
					return "un:TREE-WRITTEN"
				}
			}
			return "un:tree-untouched"
		}
		return concJob{"count(../" + cstr(sub, "a") + " | ../" + cstr(sub, "b") + "/x/nsd)", run, func(m *xpath.Machine, k int) { run(m) }}
	}
	if cstr(sub, "k") == "rm" {
		run := func(m *xpath.Machine) string {
			res := xpath.NewCtxFromCurrent(gocontext.Background(), m, &mockEntry{t: &mockTree{hash: true}}).Run()
			b, err := res.GetBoolResult()
			if err != nil {
				return "rm:error"
			}
			return fmt.Sprintf("rm:%v", b)
		}
		return concJob{"re-match('" + cstr(sub, "s") + "', '" + cstr(sub, "p") + "')", run, func(m *xpath.Machine, k int) { run(m) }}
	}
	if cstr(sub, "k") == "c01" {
		env := carr(sub, "env")
		return concJob{renderFull(cmap(sub, "e")), func(m *xpath.Machine) string {
			return showResult(xpath.NewCtxFromCurrent(gocontext.Background(), m, &mockEntry{t: envToTree(env)}).Run())
		}, func(m *xpath.Machine, k int) {
			t := envToTree(env)
			t.failAt, t.failErr = k, fmt.Errorf("injected-fault-%d", k)
			xpath.NewCtxFromCurrent(gocontext.Background(), m, &mockEntry{t: t}).Run()
		}}
	}
	b, _ := hex.DecodeString(cstr(sub, "hex"))
	pair := cstr(sub, "mode") == "pair"
	return concJob{string(b), func(m *xpath.Machine) string {
		out := runPathOnce(m, 0, "")
		if i := strings.Index(out, " => "); pair && i >= 0 {
			out = "pair:" + out[:i] // (two paths under one operator: the requests, see stream c02)
		}
		return out
	},
		func(m *xpath.Machine, k int) { runPathOnce(m, k, "") }}
}

func runYConc(c Case) string {
	var jobs []concJob
	for _, s := range carr(c, "subs") {
		jobs = append(jobs, subJob(s.(map[string]any)))
	}
	machs := make([]*xpath.Machine, len(jobs))
	iso := make([]string, len(jobs))
	for i, j := range jobs {
		m, err := expr.NewExprMachine(j.text, nil)
		if err != nil {
			if k := cstr(carr(c, "subs")[i].(map[string]any), "k"); k == "c01" || k == "rm" || k == "un" {
				iso[i] = "compile-error:" + firstLine(err.Error())
			} else {
				iso[i] = "build:" + canonBuild(j.text, nil, err, false)
			}
			continue
		}
		machs[i] = m
		iso[i] = j.run(m)
	}
	var mu sync.Mutex
	diff := ""
	note := func(i int, how, got string) {
		if got != iso[i] {
			mu.Lock()
			if diff == "" {
				diff = how + " expr " + jobs[i].text + ": " + got + " instead of " + iso[i]
			}
			mu.Unlock()
		}
	}
	// sequential reuse
	for i, j := range jobs {
		if machs[i] != nil && strings.Contains(j.text, "deref") && !strings.HasPrefix(iso[i], "pair:") && !strings.Contains(iso[i], "error") && cstr(carr(c, "subs")[i].(map[string]any), "k") == "c02" {
			// ... on ONE data tree that keeps its entries and hands out the paths it stores: a run leaves the tree as it found it
			tree := &mockTree{hash: true, keeps: true}
			for k := 0; k < 3; k++ {
				tree.calls, tree.ncalls = nil, 0
				res := xpath.NewCtxFromCurrent(gocontext.Background(), machs[i], &mockEntry{t: tree}).Run()
				note(i, "rerun on a tree that keeps its entries", strings.Join(tree.calls, ";")+" => "+showResult(res))
			}
		}
		if machs[i] != nil {
			for k := 0; k < 3; k++ {
				note(i, "sequential rerun", j.run(machs[i]))
			}
			// a run that fails part way through leaves nothing behind for the next one
			for k := 1; k <= 4; k++ {
				j.fail(machs[i], k)
				note(i, "run after a failed run", j.run(machs[i]))
			}
		}
	}
	// concurrent runs of the same machines, while the same and other expressions are compiled and run
	var wg sync.WaitGroup
	for i, j := range jobs {
		if machs[i] == nil {
			continue
		}
		for g := 0; g < 4; g++ {
			wg.Add(1)
			go func(g, i int, j concJob) {
				defer wg.Done()
				for k := 0; k < 5; k++ {
					if g == 3 {
						j.fail(machs[i], 1+k%3)
					}
					note(i, "concurrent run", j.run(machs[i]))
				}
			}(g, i, j)
		}
	}
	// runs in validation mode (type checks of function arguments, every function called is noted in a package-level
	// table) next to the others: their results are not compared, their memory accesses are watched
	for i := range jobs {
		if machs[i] == nil {
			continue
		}
		wg.Add(1)
		go func(i int) {
			defer wg.Done()
			for k := 0; k < 3; k++ {
				xpath.NewCtxFromCurrent(gocontext.Background(), machs[i], &mockEntry{t: &mockTree{hash: true}}).EnableValidation().Run()
			}
		}(i)
	}
	// a plugin function registered while expressions are compiled and run
	wg.Add(1)
	go func() {
		defer wg.Done()
		for k := 0; k < 3; k++ {
			xpath.RegisterCustomFunctions([]xpath.CustomFunctionInfo{{Name: "yv-plugin-fn", FnPtr: func(args []xpath.Datum) xpath.Datum { return xpath.NewLiteralDatum("x") },
				Args: []xpath.DatumTypeChecker{xpath.TypeIsLiteral}, RetType: xpath.TypeIsLiteral, DefaultRetVal: xpath.NewLiteralDatum("")}})
		}
	}()
	for g := 0; g < 3; g++ {
		wg.Add(1)
		go func(g int) {
			defer wg.Done()
			for k := 0; k < 6; k++ {
				i := (g + k) % len(jobs)
				m, err := expr.NewExprMachine(jobs[i].text, nil)
				if err == nil {
					note(i, "fresh compile during runs", jobs[i].run(m))
				} else if machs[i] != nil {
					note(i, "fresh compile during runs", "compile failed: "+firstLine(err.Error()))
				}
				expr.NewExprMachine("count(/a/b[k = current()/../x]) + string-length('é') > 2 or not(../c)", nil)
			}
		}(g)
	}
	wg.Wait()
	out := append([]string{}, iso...)
	if diff == "" {
		out = append(out, "conc:same")
	} else {
		out = append(out, "conc:DIFF "+diff)
	}
	return strings.Join(out, "\n")
}

func init() {
	register(&Stream{Name: "yconc", Prop: "C06", Gen: genYConc, Run: runYConc})
}
