package main

import (
	gocontext "context"
	"fmt"
	"math"
	"strings"

	"github.com/sdcio/yang-parser/xpath"
	"github.com/sdcio/yang-parser/xpath/grammars/expr"
)

// ---- C01: XPath scalar evaluation -------------------------------------------------------------

type fnSig struct {
	name string
	args string // one letter per argument: o n l b
	ret  byte
}

// functions of the scalar sub-language (generator vocabulary only — the table obligations are in Lean)
var c01Fns = []fnSig{
	{"boolean", "o", 'b'}, {"ceiling", "n", 'n'}, {"concat", "ll", 'l'}, {"contains", "ll", 'b'},
	{"false", "", 'b'}, {"floor", "n", 'n'}, {"normalize-space", "l", 'l'}, {"not", "b", 'b'},
	{"number", "o", 'n'}, {"round", "n", 'n'}, {"starts-with", "ll", 'b'}, {"string", "o", 'l'},
	{"string-length", "l", 'n'}, {"substring", "lnn", 'l'}, {"substring-after", "ll", 'l'},
	{"substring-before", "ll", 'l'}, {"translate", "lll", 'l'}, {"true", "", 'b'},
	{"last", "", 'n'}, {"position", "", 'n'},
}

var c01NumLits = []string{
	"0", "1", "2", "3", "0.5", "1.5", "2.5", "0.25", ".5", "10", "100", "7", "0.1", "0.2", "0.3",
	"0.49999999999999994", "4503599627370496", "4503599627370497", "9007199254740992",
	"9007199254740993", "1000000", "100000000000000000000", "1000000000000000000000",
	"123456789012345678", "0.000001", "0.0000001", "0.00001234", "5e-324x"[:1], "3.0", "1.", "12345.678",
	"179769313486231570000000000000000000000000000000000000000000000000000000000000000000000000000000000000000000000000000000000000000000000000000000000000000000000000000000000000000000000000000000000000000000000000000000000000000000000000000000000000000000000000000000000000000000000000000000000000000000000000000000000",
	"0.000000000000000000000000000000000000000000000000000000000000000000000000000000000000000000000000000000000000000000000000000000000000000000000000000000000000000000000000000000000000000000000000000000000000000000000000000000000000000000000000000000000000000000000000000000000000000000000000000000000000000000000000000000000005",
	"2147483648", "4294967296", "9223372036854775807", "18446744073709551616", "0.1000000000000000055511151231257827",
}

var c01StrLits = []string{
	"", "a", "abc", "12345", "hello world", " 12 ", "\t3.5\n", "+1", "1e3", "0x10", "Infinity", "-Infinity",
	"NaN", "-0", "-.5", "1.", ".", "-", "1 2", "é", "€uro", "日本語", "a😀b", " 1 ", "\u00851", "1 ",
	"  a  b  ", "a\tb\nc", "aaa", "abab", "true", "false", "0", "00", "007", "1.50", "-1", "--1", "1-",
	"9007199254740993", "0.30000000000000004", "xyz", "The quick", "ab cd", "INF", "inf", "nan", "1_000", "0b1", "1E3", "1e", ".e1",
}

var c01Leafs = []string{"", "1", "2", "abc", "1.5", "-3", " 4 ", "x", "é", "true", "0", "NaN", "Infinity", "10", "a b"}

func genExpr(r *Rng, depth int, want byte, nenv int) map[string]any {
	// leaves
	if depth <= 0 || r.Chance(15) {
		switch {
		case r.Chance(20) && nenv > 0:
			return map[string]any{"t": "env", "id": r.Intn(nenv), "form": r.Intn(3)}
		case want == 'l' || (want != 'n' && r.Chance(40)):
			return map[string]any{"t": "lit", "s": pick(r, c01StrLits), "q": r.Intn(2)}
		default:
			return map[string]any{"t": "num", "txt": pick(r, c01NumLits)}
		}
	}
	k := r.Intn(100)
	switch {
	case k < 10:
		return map[string]any{"t": "neg", "a": genExpr(r, depth-1, 'n', nenv)}
	case k < 30:
		op := pick(r, []string{"add", "sub", "mul", "div", "mod"})
		return map[string]any{"t": "bin", "op": op, "a": genExpr(r, depth-1, 'n', nenv), "b": genExpr(r, depth-1, 'n', nenv)}
	case k < 45:
		op := pick(r, []string{"eq", "ne", "lt", "gt", "le", "ge"})
		w := pick(r, []byte{'n', 'l', 'b', 'o'})
		w2 := w
		if r.Chance(40) {
			w2 = pick(r, []byte{'n', 'l', 'b', 'o'})
		}
		return map[string]any{"t": "bin", "op": op, "a": genExpr(r, depth-1, w, nenv), "b": genExpr(r, depth-1, w2, nenv)}
	case k < 52:
		op := pick(r, []string{"and", "or"})
		return map[string]any{"t": "bin", "op": op, "a": genExpr(r, depth-1, 'b', nenv), "b": genExpr(r, depth-1, 'b', nenv)}
	default:
		// a function, preferably one returning the wanted kind
		var f fnSig
		for tries := 0; tries < 6; tries++ {
			f = pick(r, c01Fns)
			if want == 'o' || f.ret == want {
				break
			}
		}
		// string functions with a pattern that does occur in the subject (multi-byte characters included)
		if (f.name == "contains" || f.name == "starts-with" || f.name == "substring-before" || f.name == "substring-after" || f.name == "translate") && r.Chance(45) {
			subj := []rune(pick(r, []string{"10€20", "a°b°c", "日本語テキスト", "x→y→z", "naïve café", "a😀b😀c", "abcabc", "é", "€€", "key=värde"}))
			i := r.Intn(len(subj))
			j := i + 1 + r.Intn(len(subj)-i)
			pat := string(subj[i:j])
			args := []any{map[string]any{"t": "lit", "s": string(subj), "q": r.Intn(2)}, map[string]any{"t": "lit", "s": pat, "q": r.Intn(2)}}
			if f.name == "translate" {
				args = append(args, map[string]any{"t": "lit", "s": pick(r, []string{"", "X", "→ü", "12345"}), "q": r.Intn(2)})
			}
			return map[string]any{"t": "call", "f": f.name, "args": args}
		}
		args := []any{}
		for i := 0; i < len(f.args); i++ {
			w := f.args[i]
			if r.Chance(25) { // force a conversion
				w = pick(r, []byte{'n', 'l', 'b', 'o'})
			}
			args = append(args, genExpr(r, depth-1, w, nenv))
		}
		return map[string]any{"t": "call", "f": f.name, "args": args}
	}
}

func quoteLit(s string, q int) string {
	if strings.Contains(s, "'") {
		return "\"" + s + "\""
	}
	if strings.Contains(s, "\"") || q == 0 {
		return "'" + s + "'"
	}
	return "\"" + s + "\""
}

var binOpText = map[string]string{"add": "+", "sub": "-", "mul": "*", "div": "div", "mod": "mod", "and": "and",
	"or": "or", "eq": "=", "ne": "!=", "lt": "<", "gt": ">", "le": "<=", "ge": ">="}

// renderFull renders with every compound operand parenthesised (C01 does not rely on precedence).
func renderFull(e map[string]any) string {
	switch cstr(e, "t") {
	case "num":
		return cstr(e, "txt")
	case "lit":
		return quoteLit(cstr(e, "s"), cint(e, "q"))
	case "env":
		name := fmt.Sprintf("n%d", cint(e, "id"))
		switch cint(e, "form") {
		case 0:
			return "/" + name
		case 1:
			return name
		default:
			return "../" + name
		}
	case "neg":
		return "- (" + renderFull(cmap(e, "a")) + ")"
	case "bin":
		return "(" + renderFull(cmap(e, "a")) + ") " + binOpText[cstr(e, "op")] + " (" + renderFull(cmap(e, "b")) + ")"
	case "call":
		var as []string
		for _, a := range carr(e, "args") {
			as = append(as, renderFull(a.(map[string]any)))
		}
		return cstr(e, "f") + "(" + strings.Join(as, ", ") + ")"
	}
	return "?"
}

func envToTree(env []any) *mockTree {
	t := &mockTree{byName: map[string]mockVal{}}
	for i, d := range env {
		m := d.(map[string]any)
		v := mockVal{Kind: cstr(m, "t")}
		v.S = cstr(m, "s")
		for _, x := range carr(m, "l") {
			v.L = append(v.L, x.(string))
		}
		t.byName[fmt.Sprintf("n%d", i)] = v
	}
	return t
}

func canonBits(f float64) uint64 {
	if math.IsNaN(f) {
		return 0x7ff8000000000001
	}
	return math.Float64bits(f)
}

func showResult(res *xpath.Result) string {
	if err := res.GetError(); err != nil {
		return "error:" + firstLine(err.Error())
	}
	pr := res.PrintResult()
	kind := "other"
	switch {
	case strings.HasPrefix(pr, "BOOLEAN:"):
		kind = "bool"
	case strings.HasPrefix(pr, "NUMBER:"):
		kind = "num"
	case strings.HasPrefix(pr, "LITERAL:"):
		kind = "lit"
	case strings.HasPrefix(pr, "NODESET:"):
		kind = "nodeset"
	case strings.HasPrefix(pr, "Unable to print"):
		kind = "slice"
	}
	b, errB := res.GetBoolResult()
	n, errN := res.GetNumResult()
	l, errL := res.GetLiteralResult()
	bs, ns, ls := fmt.Sprint(b), fmt.Sprint(canonBits(n)), l
	if errB != nil {
		bs = "err"
	}
	if errN != nil {
		ns = "err"
	}
	if errL != nil {
		ls = "err"
	}
	// the fourth getter: the node-set of a node-set, an error for every other kind of value — never a panic
	nsOK := func() (r string) {
		defer func() {
			if p := recover(); p != nil {
				r = fmt.Sprintf("|NODESET-GETTER-PANIC:%v", p)
			}
		}()
		_, err := res.GetNodeSetResult()
		if (err == nil) != (kind == "nodeset") {
			return "|NODESET-GETTER:" + fmt.Sprint(err)
		}
		return ""
	}()
	return fmt.Sprintf("%s|B=%s|N=%s|L=%s", kind, bs, ns, ls) + nsOK
}

func firstLine(s string) string {
	if i := strings.IndexByte(s, '\n'); i >= 0 {
		return s[:i]
	}
	return s
}

func runC01(c Case) string {
	text := renderFull(cmap(c, "e"))
	mach, err := expr.NewExprMachine(text, nil)
	if err != nil {
		return "compile-error:" + firstLine(err.Error())
	}
	first := showResult(xpath.NewCtxFromCurrent(gocontext.Background(), mach, &mockEntry{t: envToTree(carr(c, "env"))}).Run())
	second := showResult(xpath.NewCtxFromCurrent(gocontext.Background(), mach, &mockEntry{t: envToTree(carr(c, "env"))}).Run())
	if first != second {
		return "RERUN-DIFFERS: " + first + " || " + second
	}
	return first
}

func genC01(r *Rng, tier string, n int, emit func(Case)) {
	maxDepth := 5
	if tier == "thorough" {
		maxDepth = 9
	}
	for i := 0; i < n; i++ {
		nenv := r.Intn(4)
		env := []any{}
		for j := 0; j < nenv; j++ {
			switch r.Intn(4) {
			case 0:
				env = append(env, map[string]any{"t": "absent"})
			case 1, 2:
				env = append(env, map[string]any{"t": "leaf", "s": pick(r, c01Leafs)})
			default:
				k := 1 + r.Intn(3)
				l := []any{}
				for x := 0; x < k; x++ {
					l = append(l, pick(r, c01Leafs))
				}
				env = append(env, map[string]any{"t": "ll", "l": l})
			}
		}
		d := 1 + r.Intn(maxDepth)
		e := genExpr(r, d, pick(r, []byte{'n', 'l', 'b', 'o'}), nenv)
		emit(Case{"k": "c01", "e": e, "env": env, "text": renderFull(e)})
	}
}

// ---- SF64 primitives vs Go float64 ---------------------------------------------------------------

var sfSpecials = []uint64{
	0, 1 << 63, 0x7ff0000000000000, 0xfff0000000000000, 0x7ff8000000000001, 1, 2, 0x000fffffffffffff, 0x0010000000000000,
	0x7fefffffffffffff, 0x3ff0000000000000, 0xbff0000000000000, 0x3fe0000000000000, 0xbfe0000000000000, 0x3fdfffffffffffff,
	0x4330000000000000, 0x4330000000000001, 0x4340000000000000, 0x433fffffffffffff, 0x3fb999999999999a, 0x3fc999999999999a,
	0x3fd3333333333333, 0x4000000000000000, 0x4008000000000000, 0x4004000000000000, 0xc004000000000000, 0x3ff8000000000000,
}

func randBits(r *Rng) uint64 {
	switch r.Intn(6) {
	case 0:
		return pick(r, sfSpecials)
	case 1: // small integers and halves
		return math.Float64bits(float64(r.Intn(41)-20) / float64(1+r.Intn(4)))
	case 2: // near 2^52..2^54
		return math.Float64bits(float64(uint64(1)<<52) + float64(r.Intn(4096)) - 2048 + float64(r.Intn(2))/2)
	case 3: // subnormal-ish
		return r.U64() & 0x800fffffffffffff | uint64(r.Intn(3))<<52
	case 4: // same exponent neighbourhood
		return 0x3ff0000000000000 ^ (r.U64() & 0x800fffffffffffff) ^ (uint64(r.Intn(8)) << 52)
	default:
		return r.U64()
	}
}

func genSF(r *Rng, tier string, n int, emit func(Case)) {
	ops := []string{"add", "sub", "mul", "div", "mod", "floor", "ceil", "trunc", "lt", "le", "eq", "fmt", "round", "round"}
	for i := 0; i < n; i++ {
		if r.Chance(15) {
			s := pick(r, c01StrLits)
			if r.Chance(50) {
				s = pick(r, c01NumLits)
			}
			if r.Chance(30) {
				s = fmt.Sprintf("%d.%d", r.U64()%100000, r.U64())
			}
			emit(Case{"k": "sf", "op": "parse", "s": s})
			continue
		}
		emit(Case{"k": "sf", "op": pick(r, ops), "a": fmt.Sprint(randBits(r)), "b": fmt.Sprint(randBits(r))})
	}
}

func u64of(c Case, k string) uint64 {
	var v uint64
	fmt.Sscan(cstr(c, k), &v)
	return v
}

func runSF(c Case) string {
	a := math.Float64frombits(u64of(c, "a"))
	b := math.Float64frombits(u64of(c, "b"))
	bits := func(f float64) string { return fmt.Sprint(canonBits(f)) }
	switch cstr(c, "op") {
	case "add":
		return bits(a + b)
	case "sub":
		return bits(a - b)
	case "mul":
		return bits(a * b)
	case "div":
		return bits(a / b)
	case "mod":
		return bits(math.Mod(a, b))
	case "floor":
		return bits(math.Floor(a))
	case "ceil":
		return bits(math.Ceil(a))
	case "trunc":
		return bits(math.Trunc(a))
	case "lt":
		return fmt.Sprint(a < b)
	case "le":
		return fmt.Sprint(a <= b)
	case "eq":
		return fmt.Sprint(a == b)
	case "fmt", "round", "rounds", "parse", "parses":
		// routed through the real XPath engine
		var text string
		switch cstr(c, "op") {
		case "fmt":
			text = "string(/n0)"
		case "round", "rounds":
			text = "round(/n0)"
		default:
			text = "number(/n0)"
		}
		mach, err := expr.NewExprMachine(text, nil)
		if err != nil {
			return "compile-error"
		}
		var d xpath.Datum
		if strings.HasPrefix(cstr(c, "op"), "parse") {
			d = xpath.NewLiteralDatum(cstr(c, "s"))
		} else {
			d = xpath.NewNumDatum(a)
		}
		res := xpath.NewCtxFromCurrent(gocontext.Background(), mach, &datumEntry{d: d}).Run()
		if err := res.GetError(); err != nil {
			return "error:" + firstLine(err.Error())
		}
		if cstr(c, "op") == "fmt" {
			l, _ := res.GetLiteralResult()
			return l
		}
		n, _ := res.GetNumResult()
		return bits(n)
	}
	return "bad-op"
}

func init() {
	register(&Stream{Name: "c01", Prop: "C01", Gen: genC01, Run: runC01})
	register(&Stream{Name: "sf", Prop: "C01", Gen: genSF, Run: runSF})
}
