package main

import (
	"fmt"
	"sort"
	"strings"

	"github.com/sdcio/yang-parser/compile"
	"github.com/sdcio/yang-parser/schema"
)

// ---- canonical dump of a compiled schema (C11, C12, C14, C15, C20) ----------------------------------------

type dnode struct {
	kind, name string
	attrs      string
	core       string // the attributes the Lean compile model has
	cfg        bool
	opd        bool // an opd:command / opd:option / opd:argument node (outside the Lean compile model)
	aux        bool // the tree of an rpc's input or output, or of a notification: a root, not a node a filter sees
	kids       []*dnode
}

func kindOf(n schema.Node) string {
	switch n.(type) {
	case schema.Container:
		return "container"
	case schema.List:
		return "list"
	case schema.LeafList:
		return "leaf-list"
	case schema.Leaf:
		return "leaf"
	case schema.Choice:
		return "choice"
	case schema.Case:
		return "case"
	case schema.Tree:
		return "tree"
	}
	return fmt.Sprintf("%T", n)
}

func maxStr(m uint) string {
	if m == ^uint(0) {
		return "unbounded"
	}
	return fmt.Sprint(m)
}

func underChoice(p schema.Node, name string) bool {
	for _, cd := range p.Choices() {
		if _, ok := cd.(schema.Choice); ok && cd.Child(name) != nil {
			return true
		}
	}
	return false
}

func dumpOf(n schema.Node) *dnode {
	d := &dnode{kind: kindOf(n), name: n.Name(), cfg: n.Config()}
	switch n.(type) {
	case schema.OpdCommand, schema.OpdArgument, schema.OpdOption:
		d.opd = true
	}
	var a []string
	a = append(a, "ns="+n.Namespace(), "mod="+n.Module(), fmt.Sprintf("cfg=%v", n.Config()), "st="+n.Status().String())
	switch v := n.(type) {
	case schema.Container:
		if v.Presence() {
			a = append(a, "presence")
		}
	case schema.List:
		a = append(a, "keys="+strings.Join(v.Keys(), ","), fmt.Sprintf("min=%d max=%d", v.Limit().Min, v.Limit().Max), "ord="+v.OrdBy())
		for _, u := range v.Uniques() {
			var ps []string
			for _, p := range u {
				var es []string
				for _, e := range p {
					es = append(es, e.Local)
				}
				ps = append(ps, strings.Join(es, "/"))
			}
			a = append(a, "unique="+strings.Join(ps, " "))
		}
	case schema.LeafList:
		a = append(a, fmt.Sprintf("min=%d max=%d", v.Limit().Min, v.Limit().Max), "ord="+v.OrdBy(), "type="+v.Type().Name().Local)
	case schema.Leaf:
		if v.Mandatory() {
			a = append(a, "mandatory")
		}
		if dv, ok := v.Default(); ok {
			a = append(a, "def="+hexTok(dv))
		}
		a = append(a, "type="+v.Type().Name().Local)
	case schema.Choice:
		if v.Mandatory() {
			a = append(a, "mandatory")
		}
		if v.DefaultCase() != "" {
			a = append(a, "defcase="+v.DefaultCase())
		}
	}
	for _, w := range n.Whens() {
		a = append(a, fmt.Sprintf("when=%s/%v", hexTok(w.Mach.GetExpr()), w.RunAsParent))
	}
	for _, m := range n.Musts() {
		a = append(a, "must="+hexTok(m.Mach.GetExpr()))
	}
	d.attrs = strings.Join(a, " ")
	core := []string{"ns=" + n.Module(), fmt.Sprintf("cfg=%v", n.Config()), fmt.Sprintf("st=%d", int(n.Status()))}
	switch v := n.(type) {
	case schema.Container:
		core = append(core, fmt.Sprintf("flag=%v", v.Presence()))
	case schema.List:
		core = append(core, "keys="+strings.Join(v.Keys(), ","), "min="+fmt.Sprint(v.Limit().Min), "max="+maxStr(v.Limit().Max))
	case schema.LeafList:
		core = append(core, "min="+fmt.Sprint(v.Limit().Min), "max="+maxStr(v.Limit().Max))
	case schema.Leaf:
		core = append(core, fmt.Sprintf("flag=%v", v.Mandatory()))
		if dv, ok := v.Default(); ok {
			core = append(core, "def="+hexTok(dv))
		}
	case schema.Choice:
		core = append(core, fmt.Sprintf("flag=%v", v.Mandatory()))
		if v.DefaultCase() != "" {
			core = append(core, "def="+hexTok(v.DefaultCase()))
		}
	}
	d.core = strings.Join(core, " ")
	switch n.(type) {
	case schema.Leaf, schema.LeafList:
		return d
	case schema.Choice:
		for _, ca := range n.Choices() { // the cases
			d.kids = append(d.kids, dumpOf(ca))
		}
	default:
		for _, ch := range n.Children() {
			if !underChoice(n, ch.Name()) {
				d.kids = append(d.kids, dumpOf(ch))
			}
		}
		for _, cd := range n.Choices() {
			if _, ok := cd.(schema.Choice); ok {
				d.kids = append(d.kids, dumpOf(cd))
			}
		}
	}
	sort.Slice(d.kids, func(i, j int) bool { return d.kids[i].kind+" "+d.kids[i].name < d.kids[j].kind+" "+d.kids[j].name })
	return d
}

func (d *dnode) render(b *strings.Builder, ind string) {
	b.WriteString(ind + d.kind + " " + d.name + " " + d.attrs + "\n")
	for _, k := range d.kids {
		k.render(b, ind+" ")
	}
}

func (d *dnode) renderCore(b *strings.Builder, ind string) {
	if d.opd {
		return
	}
	if d.aux {
		// the tree of an rpc's input / output or of a notification: a label, then its nodes
		b.WriteString(ind + d.kind + " " + d.name + "\n")
	} else {
		b.WriteString(ind + d.kind + " " + d.name + " " + d.core + "\n")
	}
	for _, k := range d.kids {
		k.renderCore(b, ind+" ")
	}
}

func (d *dnode) Core() string {
	var b strings.Builder
	d.renderCore(&b, "")
	return b.String()
}

func (d *dnode) String() string {
	var b strings.Builder
	d.render(&b, "")
	return b.String()
}

func (d *dnode) prune(keep func(*dnode) bool) *dnode {
	out := &dnode{kind: d.kind, name: d.name, attrs: d.attrs, core: d.core, cfg: d.cfg, opd: d.opd, aux: d.aux}
	for _, k := range d.kids {
		if k.aux || keep(k) {
			out.kids = append(out.kids, k.prune(keep))
		}
	}
	return out
}

func dumpModelSet(ms schema.ModelSet) *dnode {
	d := dumpOf(ms)
	// the trees of the rpcs and notifications, after the data tree, in the order of their names
	auxOf := func(kind, ns, name string, t schema.Tree) {
		a := dumpOf(t)
		a.kind, a.name, a.aux = kind, ns+" "+name, true
		d.kids = append(d.kids, a)
	}
	var nss []string
	for ns := range ms.Rpcs() {
		nss = append(nss, ns)
	}
	sort.Strings(nss)
	for _, ns := range nss {
		var names []string
		for n := range ms.Rpcs()[ns] {
			names = append(names, n)
		}
		sort.Strings(names)
		for _, n := range names {
			auxOf("rpc-input", ns, n, ms.Rpcs()[ns][n].Input())
			auxOf("rpc-output", ns, n, ms.Rpcs()[ns][n].Output())
		}
	}
	nss = nil
	for ns := range ms.Notifications() {
		nss = append(nss, ns)
	}
	sort.Strings(nss)
	for _, ns := range nss {
		var names []string
		for n := range ms.Notifications()[ns] {
			names = append(names, n)
		}
		sort.Strings(names)
		for _, n := range names {
			auxOf("notification", ns, n, ms.Notifications()[ns][n].Schema())
		}
	}
	return d
}

// ---- C20: filters ------------------------------------------------------------------------------------------------

type namedFilter struct {
	name string
	f    compile.SchemaFilter
	keep func(*dnode) bool
}

// every node is exactly one of: configuration, operational state (config false, not opd), operational command
var filters = []namedFilter{
	{"config", compile.IsConfig, func(d *dnode) bool { return d.cfg }},
	{"state", compile.IsState, func(d *dnode) bool { return !d.cfg && !d.opd }},
	{"excl-state", compile.Exclude(compile.IsState), func(d *dnode) bool { return d.cfg || d.opd }},
	{"excl-config", compile.Exclude(compile.IsConfig), func(d *dnode) bool { return !d.cfg }},
	{"config+state", compile.Include(compile.IsConfig, compile.IncludeState(true)), func(d *dnode) bool { return !d.opd }},
	{"config+nostate", compile.Include(compile.IsConfig, compile.IncludeState(false)), func(d *dnode) bool { return d.cfg || d.opd }},
	{"config-or-state", compile.IsConfigOrState(), func(d *dnode) bool { return !d.opd }},
	{"opd", compile.IsOpd, func(d *dnode) bool { return d.opd }},
	{"excl-opd", compile.Exclude(compile.IsOpd), func(d *dnode) bool { return !d.opd }},
	{"none", compile.Include(), func(d *dnode) bool { return false }},
	{"nostate", compile.IncludeState(false), func(d *dnode) bool { return d.cfg || d.opd }},
	{"opd+state", compile.Include(compile.IsOpd, compile.IsState), func(d *dnode) bool { return !d.cfg }},
	{"excl-opd-state", compile.Exclude(compile.IsOpd, compile.IsState), func(d *dnode) bool { return d.cfg }},
	{"keep-all", func(schema.Node) bool { return true }, func(d *dnode) bool { return true }},
}

const opdExtModule = `module vyatta-opd-extensions-v1 { namespace "urn:vyatta.com:mgmt:vyatta-opd-extensions:1"; prefix opd;
  extension command { argument text; } extension option { argument text; } extension argument { argument text; } }`

// an operational-command subtree at the top of module m
func renderOpd(v int) string {
	s := "  opd:command show" + fmt.Sprint(v) + " {\n    opd:command version { description \"v\"; }\n"
	if v%2 == 0 {
		s += "    opd:option level { type string; }\n"
	}
	if v%3 != 0 {
		s += "    opd:command sub { opd:argument what { type string; } }\n"
	}
	return s + "  }\n"
}

func renderOps(ops []any) string {
	var b strings.Builder
	body := func(kw string, kids []any, ind string) {
		b.WriteString(ind + kw + " {\n")
		for _, k := range kids {
			renderNode(&b, k.(map[string]any), ind+"  ")
		}
		b.WriteString(ind + "}\n")
	}
	for _, o := range ops {
		op := o.(map[string]any)
		if cstr(op, "k") == "notification" {
			body("notification "+cstr(op, "n"), carr(op, "in"), "  ")
			continue
		}
		b.WriteString("  rpc " + cstr(op, "n") + " {\n")
		if _, ok := op["in"]; ok {
			body("input", carr(op, "in"), "    ")
		}
		if _, ok := op["out"]; ok {
			body("output", carr(op, "out"), "    ")
		}
		b.WriteString("  }\n")
	}
	return b.String()
}

func genYFilterCase(r *Rng, tier string) Case {
	g := &sgen{r: r, forData: true, withCfg: true, maxDepth: 2 + r.Intn(2)}
	if tier == "thorough" {
		g.maxDepth = 2 + r.Intn(3)
	}
	factored := r.Chance(25)
	g.noStatus = factored
	top := g.genKids(0, false)
	c := Case{"k": "yfilter", "top": top}
	if r.Chance(35) { // rpcs and notifications: their trees are filtered like the data tree
		var ops []any
		for i := 1 + r.Intn(2); i > 0; i-- {
			og := &sgen{r: r, forData: true, withCfg: true, maxDepth: 1 + r.Intn(2), noStatus: true}
			if r.Chance(50) {
				op := map[string]any{"k": "rpc", "n": fmt.Sprintf("op%d", i)}
				if r.Chance(80) {
					op["in"] = og.genKids(0, false)
				}
				if r.Chance(80) {
					op["out"] = og.genKids(0, false)
				}
				ops = append(ops, op)
			} else {
				ops = append(ops, map[string]any{"k": "notification", "n": fmt.Sprintf("ev%d", i), "in": og.genKids(0, false)})
			}
		}
		c["ops"] = ops
	}
	if !factored && r.Chance(40) { // operational commands next to the data nodes
		c["opd"] = 1 + r.Intn(6)
	} else if factored && len(top) >= 2 {
		// the same module written with groupings, refines and augments (stream yuses builds them so that the
		// inline module is equivalent): the filter sees the nodes a uses or an augment introduces
		if fc, ok := factorForFilter(r, top); ok {
			c["top"] = fc["plain"]
			c["fact"] = map[string]any(fc)
		}
	}
	return c
}

func genYFilter(r *Rng, tier string, n int, emit func(Case)) {
	for i := 0; i < n; i++ {
		emit(genYFilterCase(r, tier))
	}
}

func compileAll(texts ...string) (schema.ModelSet, error) {
	// "without a filter" is what the API calls it: a nil filter (a filter that keeps everything is one of the
	// filters compared with it)
	return compileTextsRaw(nil, texts...)
}

func errClass(err error) string {
	s := err.Error()
	if strings.HasPrefix(s, "PANIC") {
		return s
	}
	// mod0.yang:LINE:COL: kind name: message  -> message
	if i := strings.LastIndex(s, ": "); i >= 0 {
		s = s[i+2:]
	}
	return "compile-err " + s
}

// factorForFilter: the groupings / augments factoring of stream yuses without features and without a second
// augmenting module (the nodes keep the namespace the model gives them)
func factorForFilter(r *Rng, plain []any) (Case, bool) {
	u := &ufac{r: r, a2names: map[string]bool{}, plain: plain, dup: map[string]bool{}, noDup: true, noStatus: true}
	body := deepCopy(plain).([]any)
	holder := map[string]any{"k": "module", "kids": body}
	u.holder = holder
	var all []astRef
	collectNodes(body, nil, &all)
	ng := 1 + r.Intn(3)
	for i := 0; i < ng; i++ {
		target := holder
		if len(all) > 0 && r.Chance(70) {
			c := all[r.Intn(len(all))]
			k := cstr(c.node, "k")
			if k == "container" || k == "list" || k == "case" {
				target = c.node
			}
		}
		u.group(target, "kids", 0, cbool(target, "_inb"))
	}
	for i := r.Intn(3); i > 0; i-- {
		u.augment(carr(holder, "kids"))
	}
	if len(u.aAug) > 0 {
		return nil, false
	}
	for _, g := range u.bGroup { // (stream yuses keeps the status of a grouping only where no grouping of b uses it)
		delete(g.(map[string]any), "gstatus")
	}
	fc := Case{"plain": u.plain, "body": carr(holder, "kids"), "mgroupings": u.mGroup, "bgroupings": u.bGroup,
		"maugments": u.mAug, "aaugments": []any{}, "features": []any{}}
	if dupSiblings(u.plain) || shadowing(fc) {
		return nil, false
	}
	return fc, true
}

func runYFilter(c Case) string {
	texts := []string{renderSchema(carr(c, "top"))}
	if f, ok := c["fact"].(map[string]any); ok {
		// only when the inline module compiles: which of two errors a factored module reports first is not the
		// inline module's business
		if _, err := compileAll(texts...); err == nil {
			fact, _ := yusesTexts(Case(f))
			texts = fact[:2]
		}
	}
	if ops := carr(c, "ops"); len(ops) > 0 {
		// (kept only where the module still compiles with them: which error comes first is the data tree's business)
		mi := 0 // (the factored form comes with module b first)
		for i, t := range texts {
			if strings.HasPrefix(t, "module m ") {
				mi = i
			}
		}
		end := strings.LastIndex(texts[mi], "}")
		rest := append([]string{}, texts...)
		rest[mi] = texts[mi][:end] + renderOps(ops) + texts[mi][end:]
		if _, err := compileAll(rest...); err == nil {
			texts = rest
		}
	}
	if v := cint(c, "opd"); v > 0 {
		texts[0] = strings.Replace(texts[0], "prefix m;\n", "prefix m; import vyatta-opd-extensions-v1 { prefix opd; }\n"+renderOpd(v), 1)
		texts = append(texts, opdExtModule)
	}
	var out []string
	ms, err := compileAll(texts...)
	if err != nil {
		out = append(out, "all:"+errClass(err))
	} else {
		out = append(out, "all:ok")
	}
	var full *dnode
	if err == nil {
		full = dumpModelSet(ms)
	}
	for _, nf := range filters {
		fms, ferr := compileTexts(nf.f, texts...)
		switch {
		case ferr != nil && err != nil:
			if errClass(ferr) == errClass(err) {
				out = append(out, nf.name+":same-error")
			} else {
				out = append(out, nf.name+":"+errClass(ferr))
			}
		case ferr != nil:
			out = append(out, nf.name+":"+errClass(ferr))
		case err != nil:
			out = append(out, nf.name+":ok-but-unfiltered-fails")
		default:
			got := dumpModelSet(fms).String()
			want := full.prune(nf.keep).String()
			if got == want {
				out = append(out, nf.name+":pruned")
			} else {
				out = append(out, nf.name+":DIFF\n"+firstDiff(got, want))
			}
		}
	}
	if full != nil {
		out = append(out, "dump:\n"+full.Core())
	}
	return strings.Join(out, "\n")
}

func firstDiff(a, b string) string {
	al, bl := strings.Split(a, "\n"), strings.Split(b, "\n")
	for i := 0; i < len(al) || i < len(bl); i++ {
		x, y := "", ""
		if i < len(al) {
			x = al[i]
		}
		if i < len(bl) {
			y = bl[i]
		}
		if x != y {
			return fmt.Sprintf("line %d: filtered=%q pruned=%q", i, x, y)
		}
	}
	return ""
}

func init() {
	register(&Stream{Name: "yfilter", Prop: "C20", Gen: genYFilter, Run: runYFilter})
}
