package main

import (
	gocontext "context"
	"encoding/hex"
	"strings"

	"github.com/sdcio/yang-parser/xpath"
	"github.com/sdcio/yang-parser/xpath/grammars/expr"
)

// ---- C03: precedence / associativity / whitespace: two renderings of one tree -------------------

func genOpExpr(r *Rng, depth int) map[string]any {
	if depth <= 0 || r.Chance(20) {
		switch r.Intn(5) {
		case 0:
			return map[string]any{"t": "num", "txt": pick(r, []string{"1", "2", "3.5", ".5", "10", "0"})}
		case 1:
			return map[string]any{"t": "lit", "s": pick(r, []string{"a", "", "x y", "1", "and", "div"}), "q": r.Intn(2)}
		case 2:
			f := pick(r, []fnSig{{"true", "", 'b'}, {"not", "b", 'b'}, {"concat", "ll", 'l'}, {"string-length", "l", 'n'}, {"substring", "lnn", 'l'}, {"floor", "n", 'n'}})
			args := []any{}
			for range f.args {
				args = append(args, genOpExpr(r, depth-1))
			}
			return map[string]any{"t": "call", "f": f.name, "args": args}
		default:
			p := genPathExprAST(r, 1)
			stripPrefixes(p)
			return p
		}
	}
	if r.Chance(12) {
		return map[string]any{"t": "neg", "a": genOpExpr(r, depth-1)}
	}
	op := pick(r, []string{"or", "and", "eq", "ne", "lt", "gt", "le", "ge", "add", "sub", "mul", "div", "mod"})
	return map[string]any{"t": "bin", "op": op, "a": genOpExpr(r, depth-1), "b": genOpExpr(r, depth-1)}
}

func stripPrefixes(p map[string]any) {
	for _, s := range carr(p, "steps") {
		st := s.(map[string]any)
		delete(st, "pfx")
		for _, pr := range carr(st, "preds") {
			if v := cmap(pr.(map[string]any), "val"); cstr(v, "t") == "path" {
				stripPrefixes(v)
			}
		}
	}
	if in := cmap(p, "inner"); in != nil {
		stripPrefixes(in)
	}
}

func genC03(r *Rng, tier string, n int, emit func(Case)) {
	maxDepth := 4
	if tier == "thorough" {
		maxDepth = 7
	}
	for i := 0; i < n; i++ {
		e := genOpExpr(r, 1+r.Intn(maxDepth))
		var a, b string
		switch r.Intn(3) {
		case 0: // minimal vs fully parenthesised
			a = spell(r, exprTokens(r, e, 0, false), 0)
			b = spell(r, exprTokens(r, e, 0, true), 0)
		case 1: // two random admissible parenthesisations
			a = spell(r, exprTokens(r, e, 30, false), 1)
			b = spell(r, exprTokens(r, e, 30, false), 1)
		default: // same tokens, different whitespace
			toks := exprTokens(r, e, 10, false)
			a = spell(r, toks, 0)
			b = spell(r, toks, 2)
		}
		emit(Case{"k": "c03", "e": e, "ta": a, "tb": b, "a": hex.EncodeToString([]byte(a)), "b": hex.EncodeToString([]byte(b))})
	}
}

func oneC03(text string) string {
	mach, err := expr.NewExprMachine(text, nil)
	if err != nil {
		return "build:" + canonBuild(text, nil, err, false)
	}
	listing := canonListing(mach.PrintMachine())
	run := func() string {
		tree := &mockTree{hash: true}
		res := xpath.NewCtxFromCurrent(gocontext.Background(), mach, &mockEntry{t: tree}).Run()
		out := strings.Join(tree.calls, ";") + " => "
		if e := res.GetError(); e != nil {
			return out + "error:internal"
		}
		return out + showResult(res)
	}
	out := run()
	if again := run(); again != out {
		out = "RERUN-DIFFERS: " + out + " || " + again
	}
	return listing + " ## " + out
}

func runC03(c Case) string {
	a, _ := hex.DecodeString(cstr(c, "a"))
	b, _ := hex.DecodeString(cstr(c, "b"))
	return oneC03(string(a)) + " || " + oneC03(string(b))
}

func init() {
	register(&Stream{Name: "c03", Prop: "C03", Gen: genC03, Run: runC03})
}
