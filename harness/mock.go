package main

import (
	gocontext "context"
	"fmt"
	"sort"
	"strings"

	sdcpb "github.com/sdcio/sdc-protos/sdcpb"
	"github.com/sdcio/yang-parser/xpath"
	"github.com/sdcio/yang-parser/xpath/xpathtest"
	"github.com/sdcio/yang-parser/xpath/xutils"
)

// mockTree is the data tree contract of DESIGN §4: a node is addressed by the canonical rendering
// of the path it is asked for; values are absent / leaf / leaf-list.
type mockVal struct {
	Kind string   // "absent" | "leaf" | "ll"
	S    string   // leaf value
	L    []string // leaf-list values
}

type mockTree struct {
	byName map[string]mockVal // value by last element name (C01) …
	byPath map[string]mockVal // … or by canonical path (C02)
	calls  []string           // recorded requests
	// fault injection: fail the k-th callback (1-based; 0 = never)
	failAt  int
	failErr error
	// how the fault shows: "" = the callback returns failErr; otherwise it panics — with the error, its text,
	// a value that prints as the text, or a value that says nothing ("int", "struct")
	failPanic string
	ncalls  int
	leafref map[string]string // canonical path → canonical target path for FollowLeafRef
	hash    bool              // deterministic hash-valued tree shared with the Lean driver (Drv/C02.lean)
	// a tree that keeps its entries: following a leafref from one place yields the same entry every time, and that entry
	// hands out the path it stores, not a copy (what an engine appends to it stays there)
	keeps   bool
	targets map[string]*mockEntry
	// node sets the tree hands out as slices of arrays it keeps (names starting with "ns"): there is room behind the
	// slice, and what is written there is written into the tree
	backing map[string][]xutils.XpathNode
}

func hashStr(s string) uint32 {
	var h uint64 = 7
	for i := 0; i < len(s); i++ {
		h = (h*31 + uint64(s[i])) % 4294967296
	}
	return uint32(h)
}

func hashValue(p *sdcpb.Path) mockVal {
	if p == nil || len(p.Elem) == 0 {
		return mockVal{Kind: "leaf", S: "root"}
	}
	last := p.Elem[len(p.Elem)-1].Name
	h := hashStr(canonPath(p)) % 1000
	switch {
	case strings.HasPrefix(last, "ll"):
		return mockVal{Kind: "ll", L: []string{fmt.Sprint(h % 7), fmt.Sprintf("w%d", h)}}
	case strings.HasPrefix(last, "ab"):
		return mockVal{Kind: "absent"}
	case strings.HasPrefix(last, "n"):
		return mockVal{Kind: "leaf", S: fmt.Sprint(h % 50)}
	case strings.HasPrefix(last, "x"):
		// a value that reads as a number but is not written the way numbers print: as a key it has to stay as it is
		return mockVal{Kind: "leaf", S: fmt.Sprintf("0%d.0", h%100)}
	}
	return mockVal{Kind: "leaf", S: fmt.Sprintf("v%d", h)}
}

type mockEntry struct {
	t    *mockTree
	path *sdcpb.Path
}

func canonPath(p *sdcpb.Path) string {
	if p == nil {
		return "<nil>"
	}
	var b strings.Builder
	if p.IsRootBased {
		b.WriteString("ROOT")
	} else {
		b.WriteString("CTX")
	}
	for _, e := range p.Elem {
		b.WriteString("/")
		b.WriteString(e.Name)
		keys := make([]string, 0, len(e.Key))
		for k := range e.Key {
			keys = append(keys, k)
		}
		sort.Strings(keys)
		for _, k := range keys {
			fmt.Fprintf(&b, "[%s=%s]", k, e.Key[k])
		}
	}
	return b.String()
}

func (t *mockTree) tick(what string) error {
	t.ncalls++
	t.calls = append(t.calls, what)
	if t.failAt != 0 && t.ncalls == t.failAt {
		switch t.failPanic {
		case "":
			return t.failErr
		case "error":
			panic(t.failErr)
		case "string":
			panic(t.failErr.Error())
		case "stringer":
			panic(faultStringer{t.failErr.Error()})
		case "int":
			panic(1000 + t.failAt)
		default:
			panic(&faultOpaque{t.failAt})
		}
	}
	return nil
}

type faultStringer struct{ s string }

func (f faultStringer) String() string { return f.s }

type faultOpaque struct{ k int }

func (e *mockEntry) Navigate(path *sdcpb.Path) (xpath.Entry, error) {
	if err := e.t.tick("Navigate(" + canonPath(path) + ")"); err != nil {
		return nil, err
	}
	return &mockEntry{t: e.t, path: path.DeepCopy()}, nil
}

func (e *mockEntry) lookup() mockVal {
	if e.t.hash {
		return hashValue(e.path)
	}
	if e.t.byPath != nil {
		if v, ok := e.t.byPath[canonPath(e.path)]; ok {
			return v
		}
	}
	if e.t.byName != nil && e.path != nil && len(e.path.Elem) > 0 {
		if v, ok := e.t.byName[e.path.Elem[len(e.path.Elem)-1].Name]; ok {
			return v
		}
	}
	return mockVal{Kind: "absent"}
}

func (e *mockEntry) GetValue() (xpath.Datum, error) {
	if err := e.t.tick("GetValue(" + canonPath(e.path) + ")"); err != nil {
		return nil, err
	}
	if e.t.backing != nil && e.path != nil && len(e.path.Elem) > 0 && strings.HasPrefix(e.path.Elem[len(e.path.Elem)-1].Name, "ns") {
		k := canonPath(e.path)
		b := e.t.backing[k]
		if b == nil {
			b = make([]xutils.XpathNode, 1, 4)
			b[0] = xpathtest.NewTLeaf(nil, xutils.PathType{}, "m", e.path.Elem[len(e.path.Elem)-1].Name, "v")
			e.t.backing[k] = b
		}
		return xpath.NewNodesetDatum(b[:1]), nil
	}
	v := e.lookup()
	switch v.Kind {
	case "leaf":
		return xpath.NewLiteralDatum(v.S), nil
	case "ll":
		ds := make([]xpath.Datum, 0, len(v.L))
		for _, s := range v.L {
			ds = append(ds, xpath.NewLiteralDatum(s))
		}
		return xpath.NewDatumSliceDatum(ds), nil
	}
	return xpath.NewNodesetDatum([]xutils.XpathNode{}), nil
}

func (e *mockEntry) Copy() xpath.Entry { return &mockEntry{t: e.t, path: e.path} }

func (e *mockEntry) FollowLeafRef() (xpath.Entry, error) {
	if err := e.t.tick("FollowLeafRef(" + canonPath(e.path) + ")"); err != nil {
		return nil, err
	}
	// target: fixed, derived from the path so that the model can compute it too
	tgt := &sdcpb.Path{IsRootBased: true}
	tgt.Elem = append(tgt.Elem, sdcpb.NewPathElem("deref-target", nil))
	if e.path != nil {
		for _, pe := range e.path.Elem {
			tgt.Elem = append(tgt.Elem, pe.DeepCopy())
		}
	}
	if e.t.keeps {
		if e.t.targets == nil {
			e.t.targets = map[string]*mockEntry{}
		}
		k := canonPath(e.path)
		if have, ok := e.t.targets[k]; ok {
			return have, nil
		}
		ne := &mockEntry{t: e.t, path: tgt}
		e.t.targets[k] = ne
		return ne, nil
	}
	return &mockEntry{t: e.t, path: tgt}, nil
}

func (e *mockEntry) GetSdcpbPath() *sdcpb.Path {
	if e.path == nil {
		return &sdcpb.Path{}
	}
	if e.t.keeps {
		return e.path
	}
	return e.path.DeepCopy()
}

func (e *mockEntry) BreadthSearch(ctx gocontext.Context, path *sdcpb.Path) ([]xpath.Entry, error) {
	if err := e.t.tick("BreadthSearch(" + canonPath(path) + ")"); err != nil {
		return nil, err
	}
	return nil, nil
}
