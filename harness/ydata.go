package main

import (
	"fmt"
	"sort"
	"strings"

	"github.com/danos/mgmterror"
	"github.com/sdcio/yang-parser/data/datanode"
	"github.com/sdcio/yang-parser/schema"
)

// ---- C18: structural validation of data trees, default decoration -----------------------------------------

// leaves reachable from a list entry through non-presence containers (candidates for `unique`)
func uniqueCands(kids []any, prefix string, out *[]string) {
	for _, kk := range kids { // not through choices: a schema node identifier would have to name the choice and the case
		k := kk.(map[string]any)
		switch cstr(k, "k") {
		case "leaf":
			if cstr(cmap(k, "type"), "base") != "empty" {
				*out = append(*out, prefix+cstr(k, "n"))
			}
		case "container":
			if !cbool(k, "presence") {
				uniqueCands(carr(k, "kids"), prefix+cstr(k, "n")+"/", out)
			}
		}
	}
}

func addUniques(r *Rng, kids []any) {
	for _, k := range kids {
		n := k.(map[string]any)
		if cstr(n, "k") == "list" && r.Chance(20) {
			// a unique set over two leaves that can hold any string
			m := tyMenus[4]
			var u []any
			for _, sfx := range []string{"ua", "ub"} {
				nm := cstr(n, "n") + sfx
				n["kids"] = append(carr(n, "kids"), map[string]any{"k": "leaf", "n": nm,
					"type": map[string]any{"base": m.base, "levels": m.levels, "valid": toAny(m.valid), "invalid": toAny(m.invalid)}})
				u = append(u, nm)
			}
			n["uniques"] = []any{u}
		} else if cstr(n, "k") == "list" && r.Chance(50) {
			var cands []string
			uniqueCands(carr(n, "kids")[1:], "", &cands)
			if len(cands) > 0 {
				var us []any
				for i := 0; i < 1+r.Intn(2); i++ {
					var u []any
					seen := map[string]bool{}
					for j := 0; j < 1+r.Intn(2); j++ {
						c := pick(r, cands)
						if !seen[c] {
							seen[c] = true
							u = append(u, c)
						}
					}
					us = append(us, u)
				}
				n["uniques"] = us
			}
		}
		addUniques(r, carr(n, "kids"))
	}
}

// a list or leaf-list node without entries is not part of a valid tree (C19 generates valid trees only)
var noEmptyMulti bool

// ... but lists and leaf-lists without entries all the same (stream yenc: they are encoded as empty arrays)
var emptyMultiOnly bool

// genData: a data tree for the children `kids` of an existing parent
func genDataKids(r *Rng, kids []any, pInclude int) []any {
	var out []any
	for _, k := range kids {
		n := k.(map[string]any)
		switch cstr(n, "k") {
		case "choice":
			cases := carr(n, "kids")
			if r.Chance(pInclude) {
				ca := cases[r.Intn(len(cases))].(map[string]any)
				out = append(out, genDataKids(r, carr(ca, "kids"), pInclude)...)
				if r.Chance(3) && len(cases) > 1 { // data in two cases at once (not valid data; the validator has no rule for it)
					cb := cases[r.Intn(len(cases))].(map[string]any)
					if cstr(cb, "n") != cstr(ca, "n") {
						out = append(out, genDataKids(r, carr(cb, "kids"), pInclude)...)
					}
				}
			}
		case "container":
			if r.Chance(pInclude) {
				out = append(out, map[string]any{"n": cstr(n, "n"), "kids": genDataKids(r, carr(n, "kids"), pInclude)})
			}
		case "list":
			if r.Chance(pInclude) {
				key := carr(n, "kids")[0].(map[string]any)
				vals := carr(cmap(key, "type"), "valid")
				ne := r.Intn(4)
				seen := map[string]bool{}
				var entries []any
				for i := 0; i < ne; i++ {
					v := vals[r.Intn(len(vals))].(string)
					if seen[v] || strings.Contains(v, " ") { // the unique error lists the entry names separated by blanks
						continue
					}
					seen[v] = true
					ek := []any{map[string]any{"n": cstr(key, "n"), "vals": []any{v}}}
					ek = append(ek, genDataKids(r, carr(n, "kids")[1:], pInclude)...)
					entries = append(entries, map[string]any{"n": v, "kids": ek})
				}
				if len(entries) > 0 || ((!noEmptyMulti || emptyMultiOnly) && r.Chance(20)) {
					out = append(out, map[string]any{"n": cstr(n, "n"), "kids": entries})
				}
			}
		case "leaf":
			if r.Chance(pInclude) {
				if !noEmptyMulti && r.Chance(4) {
					// a leaf node that carries no value (the API allows it): present for mandatory, nothing to compare for unique
					out = append(out, map[string]any{"n": cstr(n, "n"), "vals": []any{}})
				} else {
					out = append(out, map[string]any{"n": cstr(n, "n"), "vals": []any{valueFor(r, cmap(n, "type"), true)}})
				}
			}
		case "leaf-list":
			if r.Chance(pInclude) {
				vals := carr(cmap(n, "type"), "valid")
				nv := r.Intn(4)
				seen := map[string]bool{}
				var vs []any
				for i := 0; i < nv; i++ {
					v := vals[r.Intn(len(vals))].(string)
					if !seen[v] {
						seen[v] = true
						vs = append(vs, v)
					}
				}
				if len(vs) > 0 || ((!noEmptyMulti || emptyMultiOnly) && r.Chance(20)) {
					out = append(out, map[string]any{"n": cstr(n, "n"), "vals": vs})
				}
			}
		}
	}
	return out
}

// confuseUniques: where a unique set has two leaves of unrestricted string type, two entries sometimes get
// tuples that differ in every leaf but look alike once written next to each other ("x·x","x" / "x","x·x"):
// agreeing on a unique set means agreeing leaf by leaf
func confuseUniques(r *Rng, schema []any, data []any) {
	find := func(name string) map[string]any {
		for _, d := range data {
			if cstr(d.(map[string]any), "n") == name {
				return d.(map[string]any)
			}
		}
		return nil
	}
	var walk func(schema []any)
	walk = func(schema []any) {
		for _, k := range schema {
			n := k.(map[string]any)
			switch cstr(n, "k") {
			case "choice", "case":
				walk(carr(n, "kids"))
			case "container":
				if d := find(cstr(n, "n")); d != nil {
					confuseUniques(r, carr(n, "kids"), carr(d, "kids"))
				}
			case "list":
				d := find(cstr(n, "n"))
				if d == nil {
					continue
				}
				entries := carr(d, "kids")
				for _, e := range entries {
					confuseUniques(r, carr(n, "kids")[1:], carr(e.(map[string]any), "kids"))
				}
				if len(entries) < 2 {
					continue
				}
				for _, uu := range carr(n, "uniques") {
					u := uu.([]any)
					ok := len(u) >= 2
					for _, pth := range u {
						var leaf map[string]any
						for _, lk := range carr(n, "kids")[1:] {
							if cstr(lk.(map[string]any), "n") == pth.(string) && cstr(lk.(map[string]any), "k") == "leaf" {
								leaf = lk.(map[string]any)
							}
						}
						if leaf == nil || cstr(cmap(leaf, "type"), "base") != "string" || carr(cmap(leaf, "type"), "valid")[0].(string) != "" {
							ok = false
						}
					}
					if !ok || !r.Chance(50) {
						continue
					}
					set := func(e map[string]any, name, v string) {
						ks := carr(e, "kids")
						for _, lk := range ks {
							if cstr(lk.(map[string]any), "n") == name {
								lk.(map[string]any)["vals"] = []any{v}
								return
							}
						}
						e["kids"] = append(ks, map[string]any{"n": name, "vals": []any{v}})
					}
					e0, e1 := entries[0].(map[string]any), entries[1].(map[string]any)
					if r.Chance(40) {
						// two entries that agree on the first leaf of the set and both lack the last one: an entry without all
						// the leaves of a unique set is not compared at all
						drop := func(e map[string]any, name string) {
							var keep []any
							for _, lk := range carr(e, "kids") {
								if cstr(lk.(map[string]any), "n") != name {
									keep = append(keep, lk)
								}
							}
							e["kids"] = keep
						}
						for i, pth := range u {
							if i == len(u)-1 {
								drop(e0, pth.(string))
								drop(e1, pth.(string))
							} else {
								set(e0, pth.(string), "same")
								set(e1, pth.(string), "same")
							}
						}
						continue
					}
					for i, pth := range u {
						a, b := "x", "x"
						if i == 0 {
							a = "x·x"
						}
						if i == 1 {
							b = "x·x"
						}
						set(e0, pth.(string), a)
						set(e1, pth.(string), b)
					}
				}
			}
		}
	}
	walk(schema)
}

func genYDataCase(r *Rng, tier string) Case {
	g := &sgen{r: r, forData: true, maxDepth: 2 + r.Intn(2)}
	if tier == "thorough" {
		g.maxDepth = 2 + r.Intn(3)
	}
	top := g.genKids(0, false)
	addUniques(r, top)
	p := pick(r, []int{30, 55, 80, 95})
	dk := genDataKids(r, top, p)
	confuseUniques(r, top, dk)
	data := map[string]any{"n": "root", "kids": dk}
	return Case{"k": "ydata", "top": top, "data": data}
}

func genYData(r *Rng, tier string, n int, emit func(Case)) {
	for i := 0; i < n; i++ {
		emit(genYDataCase(r, tier))
	}
}

func toDataNode(d map[string]any) datanode.DataNode {
	var kids []datanode.DataNode
	for _, k := range carr(d, "kids") {
		kids = append(kids, toDataNode(k.(map[string]any)))
	}
	var vals []string
	for _, v := range carr(d, "vals") {
		vals = append(vals, v.(string))
	}
	return datanode.CreateDataNode(cstr(d, "n"), kids, vals)
}

// canonical walk: children sorted by name (a Go map decides the order in which defaults are appended)
func walkData(n datanode.DataNode) string {
	var b strings.Builder
	b.WriteString(hexTok(n.YangDataName()))
	kids := n.YangDataChildren()
	if len(kids) > 0 {
		var ks []string
		for _, k := range kids {
			ks = append(ks, walkData(k))
		}
		sort.Strings(ks)
		b.WriteString("(" + strings.Join(ks, ",") + ")")
	}
	vals := n.YangDataValues()
	if len(vals) > 0 {
		var vs []string
		for _, v := range vals {
			vs = append(vs, hexTok(v))
		}
		b.WriteString("[" + strings.Join(vs, ",") + "]")
	}
	return b.String()
}

func canonDataErr(e error) string {
	f, ok := e.(mgmterror.Formattable)
	if !ok {
		return "plain:" + e.Error()
	}
	raw := rawMessage(e, f)
	path := f.GetPath()
	switch {
	case strings.HasPrefix(raw, "Missing mandatory node requires one of"):
		return "choice|" + pathToks(path)
	case strings.HasPrefix(raw, "Missing mandatory node "):
		return "mand|" + pathToks(path) + "|" + strings.TrimPrefix(raw, "Missing mandatory node ")
	case strings.HasPrefix(raw, "Invalid number of nodes"):
		return "card|" + path
	case strings.HasPrefix(raw, "The following"):
		i := strings.LastIndex(raw, "[")
		keys := strings.Fields(strings.Trim(raw[i:], "[]"))
		sort.Strings(keys)
		return "unique|" + pathToks(path) + "|" + strings.Join(keys, " ")
	}
	return "other|" + path + "|" + raw
}

func runYData(c Case) string {
	text := renderSchema(carr(c, "top"))
	ms, err := compileTexts(nil, text)
	if err != nil {
		if strings.HasPrefix(err.Error(), "PANIC") {
			return err.Error()
		}
		return "compile-err " + err.Error()
	}
	data := toDataNode(cmap(c, "data"))
	var out []string
	func() {
		defer func() {
			if r := recover(); r != nil {
				out = append(out, fmt.Sprintf("V:PANIC %v", r))
			}
		}()
		_, errs, _ := schema.ValidateSchema(ms, data, false)
		var es []string
		for _, e := range errs {
			es = append(es, canonDataErr(e))
		}
		sort.Strings(es)
		out = append(out, "V:"+strings.Join(es, ";"))
	}()
	func() {
		defer func() {
			if r := recover(); r != nil {
				out = append(out, fmt.Sprintf("D:PANIC %v", r))
			}
		}()
		d1 := walkData(schema.AddDefaults(ms, data))
		d2 := walkData(schema.AddDefaults(ms, schema.AddDefaults(ms, data)))
		out = append(out, "D:"+d1)
		if d1 == d2 {
			out = append(out, "idem")
		} else {
			out = append(out, "NOT-idem:"+d2)
		}
	}()
	return strings.Join(out, "\n")
}

func init() {
	register(&Stream{Name: "ydata", Prop: "C18", Gen: genYData, Run: runYData})
}
