package main

import (
	gocontext "context"
	"encoding/hex"
	"fmt"
	"strings"

	"github.com/sdcio/yang-parser/xpath"
	"github.com/sdcio/yang-parser/xpath/grammars/expr"
)

// ---- C02: location paths → navigation requests (recording mock), C05: fault at every callback ----

// runPathCase compiles once and runs the machine twice on fresh trees: a compiled machine carries no state
// from one run to the next (C06), so both runs must give the observation the model gives for one.
func runPathCase(text string, failAt int, failPanic string) string {
	mach, err := expr.NewExprMachine(text, nil)
	if err != nil {
		return "build:" + canonBuild(text, nil, err, false)
	}
	first := runPathOnce(mach, failAt, failPanic)
	second := runPathOnce(mach, failAt, failPanic)
	if first != second {
		return "RERUN-DIFFERS: " + first + " || " + second
	}
	if failAt == 0 && strings.Contains(text, "deref") {
		// the same machine twice on one tree that keeps its entries and hands out the paths it stores: the second run
		// finds the tree as the first one did
		tree := &mockTree{hash: true, keeps: true}
		var outs [2]string
		for i := range outs {
			tree.calls, tree.ncalls = nil, 0
			res := xpath.NewCtxFromCurrent(gocontext.Background(), mach, &mockEntry{t: tree}).Run()
			outs[i] = strings.Join(tree.calls, ";") + " => " + showResult(res)
		}
		if outs[0] != first || outs[1] != first {
			return "KEEPING-TREE-DIFFERS: " + outs[0] + " || " + outs[1] + " || isolated: " + first
		}
	}
	return first
}

func runPathOnce(mach *xpath.Machine, failAt int, failPanic string) string {
	tree := &mockTree{hash: true, failAt: failAt, failErr: fmt.Errorf("injected-fault-%d", failAt), failPanic: failPanic}
	res := xpath.NewCtxFromCurrent(gocontext.Background(), mach, &mockEntry{t: tree}).Run()
	out := strings.Join(tree.calls, ";") + " => "
	if e := res.GetError(); e != nil {
		if strings.Contains(e.Error(), "injected-fault") {
			// the error identity that reaches the caller: must be the tree's error
			_, e1 := res.GetBoolResult()
			_, e2 := res.GetNumResult()
			_, e3 := res.GetLiteralResult()
			if e1 == nil || e2 == nil || e3 == nil {
				return out + "error-but-value"
			}
			return out + "error:tree:" + strings.TrimSpace(firstLine(e.Error()))
		}
		return out + "error:internal"
	}
	return out + showResult(res)
}

func runC02(c Case) string {
	b, _ := hex.DecodeString(cstr(c, "hex"))
	out := runPathCase(string(b), cint(c, "failAt"), cstr(c, "panic"))
	if cstr(c, "mode") == "pair" && !strings.HasPrefix(out, "build:") {
		// what the two paths ask the tree for; what the operator makes of the two values is C01's
		if i := strings.Index(out, " => "); i >= 0 && !strings.Contains(out, "DIFFERS") {
			out = "pair:" + out[:i]
		}
	}
	return out
}

func genC02(r *Rng, tier string, n int, emit func(Case)) {
	depth := 1
	if tier == "thorough" {
		depth = 2
	}
	for i := 0; i < n; i++ {
		p := genPathExprAST(r, depth)
		toks := exprTokens(r, p, 0, false)
		text := spell(r, toks, r.Intn(3))
		emit(Case{"k": "c02", "p": p, "text": text, "hex": hex.EncodeToString([]byte(text)), "failAt": 0, "fixroot": true})
		if i%4 == 0 {
			// two location paths in one expression: each asks for its own node, the first leaves nothing behind for the second
			p2 := genPathExprAST(r, depth)
			if i%8 == 0 {
				p2 = map[string]any{"t": "path", "root": "rel", "steps": genSteps(r, 1+r.Intn(3), 1, depth, true)}
			}
			t1, t2 := spell(r, exprTokens(r, p, 0, false), r.Intn(2)), spell(r, exprTokens(r, p2, 0, false), r.Intn(2))
			text := pick(r, []string{"%s = %s", "%s != %s", "concat(%s, %s)", "%s < %s", "%s + %s", "substring-before(%s, %s)"})
			text = fmt.Sprintf(text, t1, t2)
			emit(Case{"k": "c02", "mode": "pair", "p": p, "p2": p2, "text": text, "hex": hex.EncodeToString([]byte(text)), "failAt": 0, "fixroot": true})
		}
	}
}

// C05 stream: the same paths, with the k-th data-tree callback failing, for every k
func genC05Fault(r *Rng, tier string, n int, emit func(Case)) {
	// expressions without a value ('( )' is accepted: a known finding of C04): running them has to end in an error
	for _, text := range []string{"()", "( )", "(())", "boolean(())", "1 + ()", "() = ()", "not(())", "-()"} {
		emit(Case{"k": "c02", "p": map[string]any{"t": "path", "root": "rel", "steps": []any{}}, "text": text, "hex": hex.EncodeToString([]byte(text)),
			"failAt": 0, "fixroot": true, "nospec": true})
	}
	for i := 0; i < n; i++ {
		p := genPathExprAST(r, 1)
		text := spell(r, exprTokens(r, p, 0, false), 0)
		for k := 1; k <= 8; k++ {
			emit(Case{"k": "c02", "p": p, "text": text, "hex": hex.EncodeToString([]byte(text)), "failAt": k, "fixroot": true})
			// the same fault as a panic of the callback: a run still ends in an error, never in neither
			emit(Case{"k": "c02", "p": p, "text": text, "hex": hex.EncodeToString([]byte(text)), "failAt": k, "fixroot": true,
				"panic": pick(r, []string{"error", "string", "stringer", "int", "struct"})})
		}
	}
}

func init() {
	register(&Stream{Name: "c02", Prop: "C02", Gen: genC02, Run: runC02})
	register(&Stream{Name: "c05fault", Prop: "C05", Gen: genC05Fault, Run: runC02})
}
