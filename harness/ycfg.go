package main

import (
	"encoding/json"
	"fmt"
	"regexp"
	"strings"

	"github.com/sdcio/yang-parser/compile"
	"github.com/sdcio/yang-parser/parse"
	"github.com/sdcio/yang-parser/schema"
)

// ---- C14: config / status / if-feature / deviations ---------------------------------------------------------

func compileWith(features []string, filter compile.SchemaFilter, texts ...string) (ms schema.ModelSet, err error) {
	defer func() {
		if r := recover(); r != nil {
			ms, err = nil, fmt.Errorf("PANIC: %v", r)
		}
	}()
	mods := map[string]*parse.Tree{}
	for i, t := range texts {
		tr, e := parse.Parse(fmt.Sprintf("mod%d.yang", i), t, nil)
		if e != nil {
			return nil, fmt.Errorf("parse: %w", e)
		}
		mods[tr.Root.Argument().String()] = tr
	}
	if filter == nil {
		filter = func(schema.Node) bool { return true }
	}
	return compile.CompileParseTrees(nil, mods, compile.FeaturesFromNames(true, features...), false, filter)
}

// every node of the AST with its schema-node-identifier path (choices and cases are path elements)
type astRef struct {
	path []string
	node map[string]any
}

func collectNodes(kids []any, prefix []string, out *[]astRef) {
	for _, k := range kids {
		n := k.(map[string]any)
		p := append(append([]string{}, prefix...), cstr(n, "n"))
		*out = append(*out, astRef{p, n})
		collectNodes(carr(n, "kids"), p, out)
	}
}

func genYCfgCase(r *Rng, tier string) Case {
	g := &sgen{r: r, forData: true, withCfg: true, maxDepth: 2 + r.Intn(2)}
	if tier == "thorough" {
		g.maxDepth = 2 + r.Intn(3)
	}
	top := g.genKids(0, false)
	// features: a dependency graph over two modules (b is imported by m), mostly acyclic
	// cycles and status conflicts among features are confined to one of the two modules per case: with an
	// error in each, which one is reported depends on Go's map order over the modules (that is C11's subject)
	faulty := pick(r, []string{"bt", "ft"})
	mkFeats := func(prefix string, n int, foreign []string) ([]any, []string) {
		var feats []any
		var names []string
		for i := 0; i < n; i++ {
			names = append(names, fmt.Sprintf("%s%d", prefix, i))
		}
		for i := 0; i < n; i++ {
			f := map[string]any{"n": names[i]}
			var deps []any
			for j := 0; j < n; j++ {
				if j > i && r.Chance(35) || j < i && prefix == faulty && r.Chance(1) { // forward edges; rarely a back edge (cycle)
					deps = append(deps, names[j])
				}
			}
			for _, fn := range foreign {
				if r.Chance(20) {
					deps = append(deps, fn)
				}
			}
			if len(deps) > 0 {
				f["iff"] = deps
			}
			if prefix == faulty && r.Chance(3) {
				f["status"] = pick(r, []string{"deprecated", "obsolete"})
			}
			feats = append(feats, f)
		}
		return feats, names
	}
	bfeats, bnames := mkFeats("bt", r.Intn(4), nil)
	var bq []string
	for _, n := range bnames {
		bq = append(bq, "b:"+n)
	}
	feats, names0 := mkFeats("ft", r.Intn(6), bq)
	names := append(append([]string{}, names0...), bq...)
	nf := len(names)
	var enabled []any
	for _, n := range names0 {
		if r.Chance(72) {
			enabled = append(enabled, "m:"+n)
		}
	}
	for _, n := range bq {
		if r.Chance(72) {
			enabled = append(enabled, n)
		}
	}
	var refs []astRef
	collectNodes(top, nil, &refs)
	if nf > 0 {
		for _, ref := range refs {
			if cstr(ref.node, "k") == "leaf" && strings.HasPrefix(cstr(ref.node, "n"), "k") {
				continue // list keys carry no if-feature
			}
			if r.Chance(18) {
				var iff []any
				for i := 0; i < 1+r.Intn(2); i++ {
					iff = append(iff, pick(r, names))
				}
				ref.node["iff"] = iff
			}
		}
	}
	// deviations
	var devs []any
	nd := 0
	if r.Chance(70) {
		nd = 1 + r.Intn(3)
	}
	for i := 0; i < nd && len(refs) > 0; i++ {
		ref := refs[r.Intn(len(refs))]
		kind := cstr(ref.node, "k")
		if kind == "case" || kind == "leaf" && strings.HasPrefix(cstr(ref.node, "n"), "k") {
			continue
		}
		// one deviation per node, and none inside another one's target: how several deviations of one
		// subtree combine is not what is compared here
		clash := false
		me := strings.Join(ref.path, "/") + "/"
		for _, o := range devs {
			var op []string
			for _, e := range carr(o.(map[string]any), "path") {
				op = append(op, e.(string))
			}
			other := strings.Join(op, "/") + "/"
			if strings.HasPrefix(me, other) || strings.HasPrefix(other, me) {
				clash = true
			}
		}
		if clash {
			continue
		}
		d := map[string]any{"path": toAny(ref.path)}
		if r.Chance(12) {
			d["kind"] = "not-supported"
		} else {
			props := []string{"default", "config", "mandatory"}
			if kind == "list" || kind == "leaf-list" {
				props = []string{"config", "min-elements", "max-elements"}
			}
			if kind == "container" {
				props = []string{"config"}
			}
			if kind == "choice" {
				props = []string{"config", "mandatory"}
			}
			p := pick(r, props)
			d["prop"] = p
			_, has := ref.node[propField[p]]
			// mostly what the RFC allows for the node as it is written
			switch {
			case has && p == "default" && r.Chance(50):
				d["kind"] = "delete"
			case has:
				d["kind"] = "replace"
			default:
				d["kind"] = "add"
			}
			if r.Chance(12) {
				d["kind"] = pick(r, []string{"add", "replace", "delete"})
			}
			switch p {
			case "default":
				vs := carr(cmap(ref.node, "type"), "valid")
				d["val"] = vs[r.Intn(len(vs))]
				if cur, ok := ref.node["dflt"].(string); ok && d["kind"] == "delete" && r.Chance(85) {
					d["val"] = cur // delete needs the same argument
				}
			case "config":
				d["val"] = pick(r, []string{"false", "false", "false", "true"})
			case "mandatory":
				d["val"] = pick(r, []string{"true", "false"})
			case "min-elements":
				d["val"] = fmt.Sprint(r.Intn(2))
			case "max-elements":
				d["val"] = fmt.Sprint(3 + r.Intn(3))
			}
		}
		devs = append(devs, d)
		// several deviate statements in one deviation: a second property, and / or not-supported among others
		if r.Chance(11) {
			grp := []map[string]any{d}
			if d["kind"] != "not-supported" && r.Chance(50) {
				e := map[string]any{"path": d["path"], "kind": pick(r, []string{"add", "replace"}), "prop": "config", "val": pick(r, []string{"false", "true"})}
				if d["prop"] != "config" {
					grp = append(grp, e)
				}
			}
			if d["kind"] != "not-supported" && (len(grp) == 1 || r.Chance(50)) {
				ns := map[string]any{"path": d["path"], "kind": "not-supported"}
				at := r.Intn(len(grp) + 1)
				grp = append(grp[:at], append([]map[string]any{ns}, grp[at:]...)...)
			}
			if d["kind"] == "not-supported" {
				e := map[string]any{"path": d["path"], "kind": pick(r, []string{"add", "replace"}), "prop": "config", "val": "false"}
				if r.Chance(50) {
					grp = append(grp, e)
				} else {
					grp = []map[string]any{e, d}
				}
			}
			if len(grp) > 1 {
				devs = devs[:len(devs)-1]
				for gi, g := range grp {
					g["alone"] = false
					g["cont"] = gi > 0
					devs = append(devs, g)
				}
			}
		}
	}
	return Case{"k": "ycfg", "features": feats, "bfeatures": bfeats, "enabled": enabled, "top": top, "devs": devs}
}

func genYCfg(r *Rng, tier string, n int, emit func(Case)) {
	for i := 0; i < n; i++ {
		emit(genYCfgCase(r, tier))
	}
}

func renderFeatures(feats []any) string {
	var b strings.Builder
	for _, f := range feats {
		fm := f.(map[string]any)
		b.WriteString("  feature " + cstr(fm, "n") + " {")
		for _, d := range carr(fm, "iff") {
			b.WriteString(" if-feature " + d.(string) + ";")
		}
		if s := cstr(fm, "status"); s != "" {
			b.WriteString(" status " + s + ";")
		}
		b.WriteString(" }\n")
	}
	return b.String()
}

func renderCfgModule(c Case, top []any) string {
	var b strings.Builder
	b.WriteString("module m { namespace \"urn:m\"; prefix m; import b { prefix b; }\n")
	b.WriteString(renderFeatures(carr(c, "features")))
	for _, k := range top {
		renderNode(&b, k.(map[string]any), "  ")
	}
	b.WriteString("}\n")
	return b.String()
}

func renderBaseModule(c Case) string {
	return "module b { namespace \"urn:b\"; prefix b;\n" + renderFeatures(carr(c, "bfeatures")) + "}\n"
}

func renderDevModule(devs []any) string {
	var b strings.Builder
	b.WriteString("module d { namespace \"urn:d\"; prefix d; import m { prefix m; }\n")
	for di, dd := range devs {
		d := dd.(map[string]any)
		var p []string
		for _, e := range carr(d, "path") {
			p = append(p, "m:"+e.(string))
		}
		if !cbool(d, "cont") {
			b.WriteString("  deviation /" + strings.Join(p, "/") + " {\n")
		}
		if cstr(d, "kind") == "not-supported" {
			b.WriteString("    deviate not-supported;\n")
		} else {
			b.WriteString("    deviate " + cstr(d, "kind") + " { " + cstr(d, "prop") + " " + yq(cstr(d, "val")) + "; }\n")
		}
		if di+1 >= len(devs) || !cbool(devs[di+1].(map[string]any), "cont") {
			b.WriteString("  }\n")
		}
	}
	b.WriteString("}\n")
	return b.String()
}

func deepCopy(v any) any {
	b, _ := json.Marshal(v)
	var out any
	json.Unmarshal(b, &out)
	return out
}

func findByPath(kids []any, path []any) map[string]any {
	for _, k := range kids {
		n := k.(map[string]any)
		if cstr(n, "n") == path[0].(string) {
			if len(path) == 1 {
				return n
			}
			return findByPath(carr(n, "kids"), path[1:])
		}
	}
	return nil
}

var propField = map[string]string{"default": "dflt", "config": "config", "mandatory": "mandatory", "min-elements": "min", "max-elements": "max"}

func propValue(prop, val string) any {
	switch prop {
	case "config", "mandatory":
		return val == "true"
	case "min-elements", "max-elements":
		var n int
		fmt.Sscan(val, &n)
		return n
	}
	return val
}

// applyDevsToAST: "editing the target's source accordingly"; ok=false when the RFC forbids the deviation
func applyDevsToAST(top []any, devs []any) (edited []any, ok bool) {
	edited = deepCopy(top).([]any)
	for _, dd := range devs {
		d := dd.(map[string]any)
		n := findByPath(edited, carr(d, "path"))
		if n == nil {
			return nil, false
		}
		kind := cstr(d, "kind")
		if kind == "not-supported" {
			if a, ok := d["alone"].(bool); ok && !a {
				return nil, false // RFC 6020 7.18.3.2: not-supported must be the only deviate statement
			}
			n["removed"] = true
			continue
		}
		prop := cstr(d, "prop")
		fld := propField[prop]
		_, has := n[fld]
		if prop == "mandatory" && n[fld] == false {
			has = true
		}
		switch kind {
		case "add":
			if has {
				return nil, false
			}
			n[fld] = propValue(prop, cstr(d, "val"))
		case "replace":
			if !has {
				return nil, false
			}
			n[fld] = propValue(prop, cstr(d, "val"))
		case "delete":
			if prop != "default" { // only units, must, unique, default may be deleted
				return nil, false
			}
			cur, isStr := n[fld].(string)
			if !has || !isStr || cur != cstr(d, "val") {
				return nil, false
			}
			delete(n, fld)
		}
	}
	return edited, true
}

var errClasses = []struct {
	re  *regexp.Regexp
	cls string
}{
	{regexp.MustCompile(`config true node can't have a config false parent`), "cfg-under-false"},
	{regexp.MustCompile(`Cannot override status of parent`), "status-override"},
	{regexp.MustCompile(`node cannot reference .* node within same module`), "ref-status"},
	{regexp.MustCompile(`Feature cyclic reference`), "feature-cycle"},
	{regexp.MustCompile(`Property being added to node already exists`), "dev-add-exists"},
	{regexp.MustCompile(`Only existing proprties can be replaced`), "dev-replace-missing"},
	{regexp.MustCompile(`Property being deleted by deviation must exist`), "dev-delete-missing"},
	{regexp.MustCompile(`Property not allowed in deviate|Property '.*' not allowed on node`), "dev-not-allowed"},
	{regexp.MustCompile(`No other deviate statements allowed`), "dev-notsup-others"},
	{regexp.MustCompile(`Invalid path`), "dev-bad-path"},
	{regexp.MustCompile(`redefinition of name`), "name-clash"},
	{regexp.MustCompile(`Choice default .* not found`), "choice-default"},
	{regexp.MustCompile(`Leaf cannot have default and be mandatory`), "leaf-default-mandatory"},
	{regexp.MustCompile(`Choice cannot have default and be mandatory`), "choice-default-mandatory"},
	{regexp.MustCompile(`Grouping cycle detected`), "grouping-cycle"},
	{regexp.MustCompile(`Unknown grouping`), "unknown-grouping"},
}

func classify(err error) string {
	if err == nil {
		return "ok"
	}
	s := err.Error()
	if strings.HasPrefix(s, "PANIC") {
		return s
	}
	for _, c := range errClasses {
		if c.re.MatchString(s) {
			return "err:" + c.cls
		}
	}
	if i := strings.LastIndex(s, ": "); i >= 0 {
		s = s[i+2:]
	}
	return "err:other:" + s
}

func runYCfg(c Case) string {
	top := carr(c, "top")
	devs := carr(c, "devs")
	var enabled []string
	for _, e := range carr(c, "enabled") {
		enabled = append(enabled, e.(string))
	}
	texts := []string{renderBaseModule(c), renderCfgModule(c, top)}
	if len(devs) > 0 {
		texts = append(texts, renderDevModule(devs))
	}
	ms, err := compileWith(enabled, nil, texts...)
	out := []string{"V:" + classify(err)}
	got := ""
	if err == nil {
		got = dumpModelSet(ms).Core()
	}
	// the same module with the deviations written into the source
	if len(devs) > 0 {
		edited, ok := applyDevsToAST(top, devs)
		switch {
		case !ok && err == nil:
			out = append(out, "meta:forbidden-deviation-accepted")
		case !ok:
			out = append(out, "meta:rejected")
		default:
			ems, eerr := compileWith(enabled, nil, renderBaseModule(c), renderCfgModule(c, edited))
			switch {
			case eerr != nil && err != nil:
				out = append(out, "meta:both-fail")
			case eerr != nil:
				out = append(out, "meta:edited-fails:"+classify(eerr))
			case err != nil:
				out = append(out, "meta:deviated-fails-edited-ok")
			default:
				if e := dumpModelSet(ems).String(); e == dumpModelSet(ms).String() {
					out = append(out, "meta:equal")
				} else {
					out = append(out, "meta:DIFF "+firstDiff(dumpModelSet(ms).String(), e))
				}
			}
		}
	}
	if err == nil {
		out = append(out, "dump:\n"+got)
	}
	return strings.Join(out, "\n")
}

func init() {
	register(&Stream{Name: "ycfg", Prop: "C14", Gen: genYCfg, Run: runYCfg})
}
