import YV.Drv.T
import YV.Spec.YValuesS
namespace YV.Drv.V
open Lean YV YV.Y YV.T YV.TS YV.V YV.VS YV.Drv YV.Drv.T

def cpOf (s : String) : Nat := match s.toList with | c :: _ => c.toNat | [] => 0

instance : Inhabited Re := ⟨.empty⟩
instance : Inhabited VT := ⟨.plain .bool⟩
instance : Inhabited SVT := ⟨.union []⟩

partial def loadRe (j : Json) : Re :=
  match jstr j "o" with
  | "chr" => .chr (cpOf (jstr j "c"))
  | "any" => .any
  | "cls" => .cls (jbool j "neg") ((jarr j "rs").map fun p => match p with
      | .arr #[a, b] => (cpOf (strOf a), cpOf (strOf b))
      | _ => (0, 0))
  | "seq" => .seq (loadRe (jobj j "a")) (loadRe (jobj j "b"))
  | "alt" => .alt (loadRe (jobj j "a")) (loadRe (jobj j "b"))
  | "star" => .star (loadRe (jobj j "a"))
  | "plus" => let a := loadRe (jobj j "a"); .seq a (.star a)
  | "opt" => .alt (loadRe (jobj j "a")) .eps
  | _ => .empty

def eiOf (j : Json) : EI :=
  { msg := if jhas j "msg" then some (jstr j "msg") else none,
    tag := if jhas j "tag" then some (jstr j "tag") else none }

def keyOf (s : String) : Bytes × Bytes :=
  match s.splitOn ":" with
  | [m, n] => (bytesOf m, bytesOf n)
  | _ => ([], [])

def loadIdents (j : Json) : List V.Ident :=
  (jarr j "idents").map fun i =>
    { mod := bytesOf (jstr i "mod"), name := bytesOf (jstr i "name"),
      base := if jstr i "base" = "" then none else some (keyOf (jstr i "base")) }

def leafMod : Bytes := bytesOf "mc"

/-- the nearest level that carries a range / length statement decides the error information -/
def nearestEI (levels : List Json) : EI :=
  match (levels.reverse.find? fun l => jhas l "restr") with
  | some l => eiOf l
  | none => {}

partial def loadM (ids : List V.Ident) (j : Json) : Option VT :=
  match jstr j "t" with
  | "union" => ((jarr j "members").mapM (loadM ids)).map .union
  | "identityref" => some (.ident (identVals ids leafMod ids.length (keyOf (jstr j "base"))))
  | _ =>
    let base := jstr j "base"
    let levels := jarr j "levels"
    match build (baseOf base) (levels.map levelOf) with
    | none => none
    | some (t, _) =>
      if base = "string" then
        some (.str t (nearestEI levels) (levels.flatMap fun l => (jarr l "pats").map fun p => (loadRe (jobj p "re"), eiOf p)))
      else if base.startsWith "int" || base.startsWith "uint" || base.startsWith "decimal64" then
        some (.num t (nearestEI levels))
      else some (.plain t)

partial def loadS (ids : List V.Ident) (j : Json) : Option SVT :=
  match jstr j "t" with
  | "union" => ((jarr j "members").mapM (loadS ids)).map .union
  | "identityref" => some (.ident ids leafMod (keyOf (jstr j "base")))
  | _ =>
    let levels := jarr j "levels"
    (buildS (baseOf (jstr j "base")) (levels.map levelOf)).map fun (t, _) =>
      .scalar t (levels.flatMap fun l => (jarr l "pats").map fun p => loadRe (jobj p "re"))

def showRej (r : Rej) : String := s!"rej tag={r.tag} msg={r.msg.getD "-"} path-ok"

def hexOf (b : Bytes) : String :=
  String.join (b.map fun x =>
    let d (n : Nat) : Char := if n < 10 then Char.ofNat (48 + n) else Char.ofNat (87 + n)
    String.ofList [d (x / 16), d (x % 16)])

/-- the defaults written on the way to the leaf, nearest first: the leaf's own, then the typedefs from the outermost in -/
def defaultsOf (j : Json) : List Bytes :=
  let ofJ (d : Json) : Option Bytes := match d with | .str s => some (bytesOf s) | _ => none
  ((if jhas j "ldef" then [jobj j "ldef"] else []) ++ (jarr j "wrap").reverse).filterMap ofJ

def showDefault (j : Json) : List String :=
  if jbool j "defs" then [match (defaultsOf j).head? with | some d => "D=" ++ hexOf d | none => "D=none"] else []

def handle (j : Json) : List (String × Json) :=
  let ids := loadIdents j
  let probes := (jarr j "probes").map fun p => bytesOf (strOf p)
  let m := match loadM ids (jobj j "type") with
    | none => "compile-err"
    | some t =>
      -- `validateDefault` at every level: each default written has to be a value of the type
      if (defaultsOf j).any fun d => (check t d).isSome then "compile-err"
      else ";".intercalate (showDefault j ++ probes.map fun p => match check t p with | none => "ok" | some r => showRej r)
  -- the specification decides accept / reject; what a rejection must carry (the error-message / error-app-tag of the
  -- restriction the type gives for it, the path) is the model's account of it wherever both reject
  let s := match loadS ids (jobj j "type") with
    | none => "compile-err"
    | some t =>
      if (defaultsOf j).any fun d => !acceptsV t d then "compile-err"
      else ";".intercalate (showDefault j ++ probes.map fun p =>
        if acceptsV t p then "ok"
        else match (loadM ids (jobj j "type")).bind fun mt => check mt p with
          | some r => showRej r
          | none => "rej")
  [("m", m), ("s", s)]

end YV.Drv.V
