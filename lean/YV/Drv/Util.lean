/- JSON helpers for the line-protocol driver (core `Lean.Data.Json`, no Mathlib). -/
import Lean.Data.Json
namespace YV.Drv
open Lean

def jstr (j : Json) (k : String) : String :=
  match j.getObjVal? k with
  | .ok (.str s) => s
  | _ => ""

def jnat (j : Json) (k : String) : Nat :=
  match j.getObjVal? k with
  | .ok v => (match v.getNat? with | .ok n => n | _ => (match v with | .str s => s.toNat! | _ => 0))
  | _ => 0

def jint (j : Json) (k : String) : Int :=
  match j.getObjVal? k with
  | .ok v => (match v.getInt? with | .ok n => n | _ => 0)
  | _ => 0

def jbool (j : Json) (k : String) : Bool :=
  match j.getObjVal? k with
  | .ok (.bool b) => b
  | _ => false

def jarr (j : Json) (k : String) : List Json :=
  match j.getObjVal? k with
  | .ok (.arr a) => a.toList
  | _ => []

def jobj (j : Json) (k : String) : Json :=
  match j.getObjVal? k with
  | .ok v => v
  | _ => Json.null

def jhas (j : Json) (k : String) : Bool :=
  match j.getObjVal? k with | .ok _ => true | _ => false

def strOf (j : Json) : String := match j with | .str s => s | _ => ""

def mkOut (id : Nat) (fields : List (String × Json)) : Json :=
  Json.mkObj (("id", Json.num id) :: fields)

end YV.Drv
