import YV.Drv.T
import YV.Spec.YPathS
import YV.Spec.YDataS
import YV.Proofs.YIdem
namespace YV.Drv.S
open Lean YV YV.Y YV.T YV.TS YV.SC YV.SS YV.Drv YV.Drv.T

def optNat (j : Json) (k : String) : Option Nat := if jhas j k then some (jnat j k) else none
def optStr (j : Json) (k : String) : Option Bytes :=
  if jhas j k then (match jobj j k with | .str s => some (bytesOf s) | _ => none) else none

/-- load the generator's schema AST; `mkTy` builds the leaf type from {"base","levels"} -/
partial def loadSN {τ : Type} (mkTy : Json → Option τ) (j : Json) : Option (SN τ) := do
  let name := bytesOf (jstr j "n")
  let kids ← (jarr j "kids").mapM (loadSN mkTy)
  match jstr j "k" with
  | "container" => pure (.container name (jbool j "presence") kids)
  | "list" =>
    let uniques := (jarr j "uniques").map fun u => (match u with
      | .arr a => a.toList.map fun p => ((strOf p).splitOn "/").map bytesOf
      | _ => [])
    pure (.list name ((jarr j "keys").map fun k => bytesOf (strOf k)) (jnat j "min") (optNat j "max") uniques kids)
  | "leaf" => do
    let ty ← mkTy (jobj j "type")
    pure (.leaf name ty (optStr j "dflt") (jbool j "mandatory"))
  | "leaf-list" => do
    let ty ← mkTy (jobj j "type")
    pure (.leafList name ty (jnat j "min") (optNat j "max"))
  | "choice" => pure (.choice name (jbool j "mandatory") (optStr j "dflt") kids)
  | "case" => pure (.case name kids)
  | _ => none

def mkTyM (j : Json) : Option Ty :=
  (build (baseOf (jstr j "base")) ((jarr j "levels").map levelOf)).map (·.1)
def mkTyS (j : Json) : Option STy :=
  (buildS (baseOf (jstr j "base")) ((jarr j "levels").map levelOf)).map (·.1)

def specSem : TySem STy := { accepts := accepts, isEmpty := fun t => match t with | .empty => true | _ => false }

def showPath (p : List Tok) : String := ".".intercalate (p.map fun t => "x" ++ Y.hexOf t)

def showErr : Except VErr Unit → String
  | .ok () => "ok"
  | .error (.pathInvalid path e) => s!"unknown-element|{showPath path}|{Y.hexOf e}|path"
  | .error (.missingChild path) => s!"missing-element|{showPath path}|{Y.hexOf (msg "<any child>")}|child"
  | .error (.missingValue path) => s!"invalid-value|{showPath path}||novalue"
  | .error (.badValue path) => s!"invalid-value|{showPath path}||type"
  | .error (.emptyValue path v) => s!"unknown-element|{showPath path}|{Y.hexOf v}|emptyleaf"
  | .error (.internal m) => s!"internal|{m}"

def showVerdict : Verdict → String
  | .ok => "ok"
  | .bad k .unknown => s!"bad {k} unknown"
  | .bad k .value => s!"bad {k} value"
  | .bad k .incomplete => s!"bad {k} incomplete"
  | .internal => "internal"

/-- a leaf type of the path stream: a plain type, or a union of plain types (accepted iff a member accepts) -/
def mkTyMU (j : Json) : Option (List Ty) :=
  if jstr j "base" = "union" then (jarr j "members").mapM mkTyM else (mkTyM j).map fun t => [t]
def mkTySU (j : Json) : Option (List STy) :=
  if jstr j "base" = "union" then (jarr j "members").mapM mkTyS else (mkTyS j).map fun t => [t]

def handlePath (j : Json) : List (String × Json) :=
  let paths := (jarr j "paths").map fun p => match p with
    | .arr a => a.toList.map fun t => bytesOf (strOf t)
    | _ => []
  let m := match (jarr j "top").mapM (loadSN mkTyMU) with
    | none => "compile-err"
    | some top => ";".intercalate (paths.flatMap fun p => [false, true].map fun ai => showErr (vtree (unionSem modelSem) ai top p))
  let s := match (jarr j "top").mapM (loadSN mkTySU) with
    | none => "compile-err"
    | some top => ";".intercalate (paths.flatMap fun p => [false, true].map fun ai => showVerdict (walkTop (unionSem specSem) ai top p))
  [("m", m), ("s", s)]

end YV.Drv.S

namespace YV.Drv.S
open Lean YV YV.Y YV.T YV.TS YV.SC YV.SS YV.D YV.DS YV.Drv YV.Drv.T

instance : Inhabited DN := ⟨.mk [] [] []⟩

partial def loadDN (j : Json) : DN :=
  .mk (bytesOf (jstr j "n")) ((jarr j "kids").map loadDN) ((jarr j "vals").map fun v => bytesOf (strOf v))

def sortStrs (l : List String) : List String := (l.toArray.qsort (· < ·)).toList

partial def walkDN : DN → String
  | .mk n kids vals =>
    Y.hexOf n ++
      (if kids.isEmpty then "" else "(" ++ ",".intercalate (sortStrs (kids.map walkDN)) ++ ")") ++
      (if vals.isEmpty then "" else "[" ++ ",".intercalate (vals.map Y.hexOf) ++ "]")

def showCfgPath (p : List Tok) : String := ".".intercalate (p.map fun t => "x" ++ Y.hexOf t)
def strOfTok (t : Tok) : String := String.fromUTF8! (ByteArray.mk (t.map (·.toUInt8)).toArray)

def showDErr : DErr → String
  | .mand p n => s!"mand|{showCfgPath p}|{strOfTok n}"
  | .choice p => s!"choice|{showCfgPath p}"
  | .card xp => "card|" ++ String.join (xp.map fun t => "/" ++ strOfTok t)
  | .unique p ks => s!"unique|{showCfgPath p}|" ++ " ".intercalate (sortStrs (ks.map strOfTok))

def showData (top : List (SN Ty)) (root : DN) (errs : List DErr) (dec : DN) (dec2 : DN) : String :=
  "V:" ++ ";".intercalate (sortStrs (errs.map showDErr)) ++ "\nD:" ++ walkDN dec ++ "\n" ++
    (if walkDN dec = walkDN dec2 then "idem" else "NOT-idem:" ++ walkDN dec2)

def handleData (j : Json) : List (String × Json) :=
  match (jarr j "top").mapM (loadSN mkTyM) with
  | none => [("m", "compile-err"), ("s", "compile-err")]
  | some top =>
    let root := loadDN (jobj j "data")
    -- the hypothesis of C18_defaults_in_use / C18_idempotent, checked on every schema the stream feeds
    let wf := if DS.wfTop top then "" else "SCHEMA-NOT-WELL-FORMED\n"
    let m := wf ++ showData top root (validateData top root) (decorate top root) (decorate top (decorate top root))
    let s := showData top root (violations top root) (decorateS top root) (decorateS top (decorateS top root))
    [("m", m), ("s", s)]

end YV.Drv.S
