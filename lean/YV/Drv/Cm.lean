import YV.Drv.S
import YV.Model.YCompile
import YV.Spec.YCfgS
import YV.Model.YUses
namespace YV.Drv.Cm
open Lean YV YV.Y YV.SC YV.C YV.Drv YV.Drv.T YV.Drv.S

def metaOf (j : Json) : Meta :=
  { cfg := if jhas j "config" then some (jbool j "config") else none,
    st := match jstr j "status" with | "current" => some 0 | "deprecated" => some 1 | "obsolete" => some 2 | _ => none,
    iff := (jarr j "iff").map fun f => bytesOf (strOf f),
    notSupported := jbool j "notSupported",
    ns := bytesOf "m" }

instance : Inhabited A := ⟨.leafList [] {} none none⟩

partial def loadA (j : Json) : A :=
  let name := bytesOf (jstr j "n")
  let kids := (jarr j "kids").map loadA
  let m := metaOf j
  match jstr j "k" with
  | "container" => .container name m (jbool j "presence") kids
  | "list" => .list name m ((jarr j "keys").map fun k => bytesOf (strOf k)) (optNat j "min") (optNat j "max") kids
  | "leaf" => .leaf name m (jbool j "mandatory") (optStr j "dflt")
  | "leaf-list" => .leafList name m (optNat j "min") (optNat j "max")
  | "choice" => .choice name m (jbool j "mandatory") (optStr j "dflt") kids
  | _ => .case name m kids

def kindStr : Kind → String
  | .container => "container" | .list => "list" | .leaf => "leaf" | .leafList => "leaf-list"
  | .choice => "choice" | .case => "case"

def coreOf (a : Attr) : String :=
  let base := s!"ns={strOfTok a.ns} cfg={a.cfg} st={a.st}"
  match a.kind with
  | .container => base ++ s!" flag={a.flag}"
  | .list => base ++ " keys=" ++ ",".intercalate (a.keys.map strOfTok) ++ s!" min={a.mn.getD 0} max={match a.mx with | some x => toString x | none => "unbounded"}"
  | .leaf => base ++ s!" flag={a.flag}" ++ (if a.flag then "" else match a.dflt with | some d => " def=" ++ Y.hexOf d | none => "")
  | .leafList => base ++ s!" min={a.mn.getD 0} max={match a.mx with | some x => toString x | none => "unbounded"}"
  | .choice => base ++ s!" flag={a.flag}" ++ (match a.dflt with | some d => " def=" ++ Y.hexOf d | none => "")
  | .case => base

partial def dumpCN (ind : String) : CN → String
  | .mk a kids =>
    let ks := kids.toArray.qsort (fun x y => kindStr x.attr.kind ++ " " ++ strOfTok x.attr.name < kindStr y.attr.kind ++ " " ++ strOfTok y.attr.name)
    ind ++ kindStr a.kind ++ " " ++ strOfTok a.name ++ " " ++ coreOf a ++ "\n" ++ String.join (ks.toList.map (dumpCN (ind ++ " ")))

def dumpTop (ks : List CN) : String :=
  let sorted := ks.toArray.qsort (fun x y => kindStr x.attr.kind ++ " " ++ strOfTok x.attr.name < kindStr y.attr.kind ++ " " ++ strOfTok y.attr.name)
  "tree  ns= cfg=true st=0\n" ++ String.join (sorted.toList.map (dumpCN " "))

def filters : List (String × (Attr → Bool)) :=
  [("config", fun a => a.cfg), ("state", fun a => !a.cfg), ("excl-state", fun a => a.cfg), ("excl-config", fun a => !a.cfg),
   ("config+state", fun _ => true), ("config+nostate", fun a => a.cfg), ("config-or-state", fun _ => true),
   ("opd", fun _ => false), ("excl-opd", fun _ => true), ("none", fun _ => false),
   -- (the nodes of the model are data nodes: none of them is an operational command)
   ("nostate", fun a => a.cfg), ("opd+state", fun a => !a.cfg), ("excl-opd-state", fun a => a.cfg),
   ("keep-all", fun _ => true)]

/-- the bodies of the rpcs (input, output) and notifications of module m, labelled as the harness labels their trees:
    rpcs by name, then notifications by name -/
def opBodies (j : Json) : List (String × List A) :=
  let ops := jarr j "ops"
  let byName (l : List Json) := (l.toArray.qsort fun x y => jstr x "n" < jstr y "n").toList
  let rpcs := byName (ops.filter fun o => jstr o "k" = "rpc")
  let notes := byName (ops.filter fun o => jstr o "k" = "notification")
  (rpcs.flatMap fun o => [("rpc-input urn:m " ++ jstr o "n", (jarr o "in").map loadA),
                          ("rpc-output urn:m " ++ jstr o "n", (jarr o "out").map loadA)]) ++
  (notes.map fun o => ("notification urn:m " ++ jstr o "n", (jarr o "in").map loadA))

def dumpAux (label : String) (ks : List CN) : String :=
  let sorted := ks.toArray.qsort (fun x y => kindStr x.attr.kind ++ " " ++ strOfTok x.attr.name < kindStr y.attr.kind ++ " " ++ strOfTok y.attr.name)
  " " ++ label ++ "\n" ++ String.join (sorted.toList.map (dumpCN "  "))

def handleFilter (j : Json) : List (String × Json) :=
  let top := (jarr j "top").map loadA
  let feat : FeatEnv := {}
  let all := compile keepAll feat top
  -- the trees of rpcs and notifications are built like the data tree (config true, current at their roots); they are part
  -- of the case where the module compiles with them
  let bodies0 := opBodies j
  let fullOps := bodies0.map fun (l, b) => (l, compile keepAll feat b)
  let opsKept := (match all with | .ok _ => true | .error _ => false) && fullOps.all fun (_, r) => match r with | .ok _ => true | .error _ => false
  let bodies := if opsKept then bodies0 else []
  let head := match all with | .ok _ => "all:ok" | .error e => "all:compile-err " ++ e
  let perFilter (useModel : Bool) := filters.map fun (nm, f) =>
    match all with
    | .error e =>
      (match compile f feat top with
       | .error e2 => if e2 = e then nm ++ ":same-error" else nm ++ ":compile-err " ++ e2
       | .ok _ => nm ++ ":ok-but-unfiltered-fails")
    | .ok full =>
      if useModel then
        (match compile f feat top with
         | .error e2 => nm ++ ":compile-err " ++ e2
         | .ok got =>
           let opsSame := bodies.all fun (l, b) =>
             match compile f feat b, compile keepAll feat b with
             | .ok g, .ok fl => dumpAux l g = dumpAux l (pruneKids f fl)
             | _, _ => false
           if dumpTop got = dumpTop (pruneKids f full) && opsSame then nm ++ ":pruned" else nm ++ ":DIFF")
      else nm ++ ":pruned"
  let tail := match all with
    | .ok full => ["dump:\n" ++ dumpTop full ++ String.join (bodies.map fun (l, b) =>
        match compile keepAll feat b with | .ok ks => dumpAux l ks | .error _ => "")]
    | .error _ => []
  let m := "\n".intercalate (head :: perFilter true ++ tail)
  let s := "\n".intercalate (head :: perFilter false ++ tail)
  [("m", m), ("s", s)]

end YV.Drv.Cm

namespace YV.Drv.Cm
open Lean YV YV.Y YV.SC YV.C YV.CS YV.Drv YV.Drv.T YV.Drv.S

def qual (mod : String) (s : String) : Tok := bytesOf (if s.contains ':' then s else mod ++ ":" ++ s)

def declsOf (mod : String) (js : List Json) : List FeatDecl :=
  js.map fun f => { key := qual mod (jstr f "n"), deps := (jarr f "iff").map fun d => qual mod (strOf d),
                    st := match jstr f "status" with | "deprecated" => 1 | "obsolete" => 2 | _ => 0 }

/-- if-feature references on nodes are written relative to module m -/
partial def qualA (a : A) : A :=
  let q (m : Meta) : Meta := { m with iff := m.iff.map fun f => if f.contains 58 then f else bytesOf "m:" ++ f }
  match a with
  | .container n m p k => .container n (q m) p (k.map qualA)
  | .list n m ks mn mx k => .list n (q m) ks mn mx (k.map qualA)
  | .leaf n m md d => .leaf n (q m) md d
  | .leafList n m mn mx => .leafList n (q m) mn mx
  | .choice n m md d c => .choice n (q m) md d (c.map qualA)
  | .case n m k => .case n (q m) (k.map qualA)

def devOf (j : Json) : Dev :=
  { path := (jarr j "path").map fun p => bytesOf (strOf p),
    kind := match jstr j "kind" with | "not-supported" => .notSupported | "add" => .add | "replace" => .replace | _ => .delete,
    prop := match jstr j "prop" with | "default" => .dflt | "mandatory" => .mandatory | "min-elements" => .minEl | "max-elements" => .maxEl | _ => .config,
    val := bytesOf (jstr j "val"),
    alone := match j.getObjVal? "alone" with | .ok (.bool b) => b | _ => true }

def hasSub (s sub : String) : Bool := (s.splitOn sub).length > 1

def classOf (e : String) : String :=
  if hasSub e "config true node can't have a config false parent" then "err:cfg-under-false"
  else if hasSub e "Cannot override status of parent" then "err:status-override"
  else if hasSub e "node cannot reference" then "err:ref-status"
  else if hasSub e "Feature cyclic reference" then "err:feature-cycle"
  else if hasSub e "Property being added to node already exists" then "err:dev-add-exists"
  else if hasSub e "Only existing proprties can be replaced" then "err:dev-replace-missing"
  else if hasSub e "Property being deleted by deviation must exist" then "err:dev-delete-missing"
  else if hasSub e "Property not allowed" then "err:dev-not-allowed"
  else if hasSub e "No other deviate statements allowed" then "err:dev-notsup-others"
  else if hasSub e "Invalid path" then "err:dev-bad-path"
  else if hasSub e "redefinition of name" then "err:name-clash"
  else if hasSub e "Choice default" then "err:choice-default"
  else if hasSub e "Leaf cannot have default and be mandatory" then "err:leaf-default-mandatory"
  else if hasSub e "Choice cannot have default and be mandatory" then "err:choice-default-mandatory"
  else if hasSub e "Grouping cycle detected" then "err:grouping-cycle"
  else if hasSub e "Unknown grouping" then "err:unknown-grouping"
  else "err:other:" ++ e

def handleCfg (j : Json) : List (String × Json) :=
  let top := ((jarr j "top").map loadA).map qualA
  let decls := declsOf "b" (jarr j "bfeatures") ++ declsOf "m" (jarr j "features")
  let raw := (jarr j "enabled").map fun e => bytesOf (strOf e)
  let devs := (jarr j "devs").map devOf
  let run (t : List A) (ds : List Dev) := compileCfg decls raw (bytesOf "m") t ds
  let dev := run top devs
  let v := match dev with | .ok _ => "V:ok" | .error e => "V:" ++ classOf e
  let edited := editAll top devs
  let metaL : List String :=
    if devs.isEmpty then [] else
    match edited, dev with
    | none, .ok _ => ["meta:forbidden-deviation-accepted"]
    | none, .error _ => ["meta:rejected"]
    | some et, _ =>
      match run et [], dev with
      | .error _, .error _ => ["meta:both-fail"]
      | .error e, .ok _ => ["meta:edited-fails:" ++ classOf e]
      | .ok _, .error _ => ["meta:deviated-fails-edited-ok"]
      | .ok a, .ok b => [if dumpTop a = dumpTop b then "meta:equal" else "meta:DIFF"]
  let dumpM := match dev with | .ok t => ["dump:\n" ++ dumpTop t] | .error _ => []
  let dumpS := match edited with
    | some et => (match run et [] with | .ok t => ["dump:\n" ++ dumpTop t] | .error _ => dumpM)
    | none => dumpM
  [("m", "\n".intercalate (v :: metaL ++ dumpM)), ("s", "\n".intercalate (v :: metaL ++ dumpS))]

end YV.Drv.Cm

namespace YV.Drv.Cm
open Lean YV YV.Y YV.SC YV.C YV.CS YV.Drv YV.Drv.T YV.Drv.S

instance : Inhabited G := ⟨.aug [] [] []⟩

def toks (js : List Json) : List Tok := js.map fun x => bytesOf (strOf x)
def qualIff (js : List Json) : List Tok := js.map fun f => qual "m" (strOf f)

def refineOf (j : Json) : Refine :=
  { path := toks (jarr j "path"),
    prop := match jstr j "prop" with
      | "default" => .dflt | "mandatory" => .mandatory | "presence" => .presence
      | "min-elements" => .minEl | "max-elements" => .maxEl | _ => .config,
    val := bytesOf (jstr j "val") }

partial def loadG (j : Json) : G :=
  let name := bytesOf (jstr j "n")
  let kids := (jarr j "kids").map loadG
  let m : Meta := { metaOf j with iff := qualIff (jarr j "iff") }
  match jstr j "k" with
  | "container" => .container name m (jbool j "presence") kids
  | "list" => .list name m (toks (jarr j "keys")) (optNat j "min") (optNat j "max") kids
  | "leaf" => .leaf name m (jbool j "mandatory") (optStr j "dflt")
  | "leaf-list" => .leafList name m (optNat j "min") (optNat j "max")
  | "choice" => .choice name m (jbool j "mandatory") (optStr j "dflt") kids
  | "uses" =>
    let statOf (x : Json) : Option Nat :=
      match jstr x "status" with | "current" => some 0 | "deprecated" => some 1 | "obsolete" => some 2 | _ => none
    let wrap (x : Json) (g : G) : G := match statOf x with | some s => .stat s g | none => g
    wrap j (.uses (bytesOf (jstr j "g")) (qualIff (jarr j "iff")) (((jarr j "refines").filter fun rf => jstr rf "prop" ≠ "must").map refineOf)
      ((jarr j "augments").map fun a => wrap a (.aug (toks (jarr a "path")) (qualIff (jarr a "iff")) ((jarr a "kids").map loadG))))
  | _ => .case name m kids

/-- the inline module: nodes (and everything below) named in `a2names` belong to module a2 -/
partial def setNs (a2 : List Tok) (inA2 : Bool) (a : A) : A :=
  let here := inA2 || a2.contains a.name
  let a' := a.setMeta { a.meta with ns := if here then bytesOf "a2" else bytesOf "m" }
  a'.setKids (a'.kids.map (setNs a2 here))

def stripNsLine (l : String) : String :=
  " ".intercalate ((l.splitOn " ").filter fun w => !w.startsWith "ns=")

def stripNs (d : String) : String := "\n".intercalate ((d.splitOn "\n").map stripNsLine)

def handleUses (j : Json) : List (String × Json) :=
  let decls := declsOf "m" (jarr j "features")
  let raw := toks (jarr j "enabled")
  let genv : GEnv :=
    ((jarr j "mgroupings").map fun g => (bytesOf (jstr g "n"), (jarr g "kids").map loadG)) ++
    ((jarr j "bgroupings").map fun g => (bytesOf ("b:" ++ jstr g "n"), (jarr g "kids").map loadG))
  let augOf (ns : String) (a : Json) : ModAug :=
    { ns := bytesOf ns, path := toks (jarr a "path"), iff := qualIff (jarr a "iff"), kids := (jarr a "kids").map loadG,
      st := match jstr a "status" with | "current" => some 0 | "deprecated" => some 1 | "obsolete" => some 2 | _ => none }
  let augs := (jarr j "maugments").map (augOf "m") ++ (jarr j "aaugments").map (augOf "a2")
  let body := (jarr j "body").map loadG
  let a2 := toks (jarr j "a2names")
  let plain := (((jarr j "plain").map loadA).map qualA).map (setNs a2 false)
  let comp (t : List A) := compileCfg decls raw (bytesOf "m") t []
  let f : Except String (List CN) := (expandModule genv 100000 body augs).bind comp
  let p := comp plain
  let cls (r : Except String (List CN)) := match r with | .ok _ => "ok" | .error e => classOf e
  let head := ["F:" ++ cls f, "P:" ++ cls p]
  let mk (useF : Bool) : String :=
    match f, p with
    | .ok ft, .ok pt =>
      let fd := dumpTop ft
      let pd := dumpTop pt
      "\n".intercalate (head ++ [if stripNs fd = stripNs pd then "tree:equal" else "tree:DIFF",
        if fd = pd then "ns:ok" else "ns:BAD", "dump:\n" ++ (if useF then fd else pd)])
    | _, _ => "\n".intercalate head
  -- RFC 6020 6.2.1: a choice and the data nodes around it share one namespace — the code (and the model) keep the choices
  -- of a node apart from its child map; where the generator wrote such a pair the specification says "name clash"
  let s := if jstr j "clash" = "mixed" then "F:err:name-clash\nP:err:name-clash" else mk false
  [("m", mk true), ("s", s)]

end YV.Drv.Cm
