import YV.Drv.S
import YV.Model.YCompile
namespace YV.Drv.Cm
open Lean YV YV.Y YV.SC YV.C YV.Drv YV.Drv.T YV.Drv.S

def metaOf (j : Json) : Meta :=
  { cfg := if jhas j "config" then some (jbool j "config") else none,
    st := match jstr j "status" with | "current" => some 0 | "deprecated" => some 1 | "obsolete" => some 2 | _ => none,
    iff := (jarr j "iff").map fun f => bytesOf (strOf f),
    notSupported := jbool j "notSupported" }

instance : Inhabited A := ⟨.leafList [] {}⟩

partial def loadA (j : Json) : A :=
  let name := bytesOf (jstr j "n")
  let kids := (jarr j "kids").map loadA
  let m := metaOf j
  match jstr j "k" with
  | "container" => .container name m (jbool j "presence") kids
  | "list" => .list name m ((jarr j "keys").map fun k => bytesOf (strOf k)) kids
  | "leaf" => .leaf name m (jbool j "mandatory") (optStr j "dflt")
  | "leaf-list" => .leafList name m
  | "choice" => .choice name m (jbool j "mandatory") (optStr j "dflt") kids
  | _ => .case name m kids

def kindStr : Kind → String
  | .container => "container" | .list => "list" | .leaf => "leaf" | .leafList => "leaf-list"
  | .choice => "choice" | .case => "case"

def coreOf (a : Attr) : String :=
  let base := s!"cfg={a.cfg} st={a.st}"
  match a.kind with
  | .container => base ++ s!" flag={a.flag}"
  | .list => base ++ " keys=" ++ ",".intercalate (a.keys.map strOfTok)
  | .leaf => base ++ s!" flag={a.flag}" ++ (if a.flag then "" else match a.dflt with | some d => " def=" ++ Y.hexOf d | none => "")
  | .leafList => base
  | .choice => base ++ s!" flag={a.flag}" ++ (match a.dflt with | some d => " def=" ++ Y.hexOf d | none => "")
  | .case => base

partial def dumpCN (ind : String) : CN → String
  | .mk a kids =>
    let ks := kids.toArray.qsort (fun x y => kindStr x.attr.kind ++ " " ++ strOfTok x.attr.name < kindStr y.attr.kind ++ " " ++ strOfTok y.attr.name)
    ind ++ kindStr a.kind ++ " " ++ strOfTok a.name ++ " " ++ coreOf a ++ "\n" ++ String.join (ks.toList.map (dumpCN (ind ++ " ")))

def dumpTop (ks : List CN) : String :=
  let sorted := ks.toArray.qsort (fun x y => kindStr x.attr.kind ++ " " ++ strOfTok x.attr.name < kindStr y.attr.kind ++ " " ++ strOfTok y.attr.name)
  "tree  cfg=true st=0\n" ++ String.join (sorted.toList.map (dumpCN " "))

def filters : List (String × (Attr → Bool)) :=
  [("config", fun a => a.cfg), ("state", fun a => !a.cfg), ("excl-state", fun a => a.cfg), ("excl-config", fun a => !a.cfg),
   ("config+state", fun _ => true), ("config+nostate", fun a => a.cfg), ("config-or-state", fun _ => true),
   ("opd", fun _ => false), ("excl-opd", fun _ => true), ("none", fun _ => false)]

def handleFilter (j : Json) : List (String × Json) :=
  let top := (jarr j "top").map loadA
  let feat := (jarr j "features").map fun f => bytesOf (strOf f)
  let all := compile keepAll feat top
  let head := match all with | .ok _ => "all:ok" | .error e => "all:compile-err " ++ e
  let perFilter (useModel : Bool) := filters.map fun (nm, f) =>
    match all with
    | .error e =>
      (match compile f feat top with
       | .error e2 => if e2 = e then nm ++ ":same-error" else nm ++ ":compile-err " ++ e2
       | .ok _ => nm ++ ":ok-but-unfiltered-fails")
    | .ok full =>
      if useModel then
        (match compile f feat top with
         | .error e2 => nm ++ ":compile-err " ++ e2
         | .ok got => if dumpTop got = dumpTop (pruneKids f full) then nm ++ ":pruned" else nm ++ ":DIFF")
      else nm ++ ":pruned"
  let tail := match all with | .ok full => ["dump:\n" ++ dumpTop full] | .error _ => []
  let m := "\n".intercalate (head :: perFilter true ++ tail)
  let s := "\n".intercalate (head :: perFilter false ++ tail)
  [("m", m), ("s", s)]

end YV.Drv.Cm
