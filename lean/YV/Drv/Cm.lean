import YV.Drv.S
import YV.Model.YCompile
import YV.Spec.YCfgS
namespace YV.Drv.Cm
open Lean YV YV.Y YV.SC YV.C YV.Drv YV.Drv.T YV.Drv.S

def metaOf (j : Json) : Meta :=
  { cfg := if jhas j "config" then some (jbool j "config") else none,
    st := match jstr j "status" with | "current" => some 0 | "deprecated" => some 1 | "obsolete" => some 2 | _ => none,
    iff := (jarr j "iff").map fun f => bytesOf (strOf f),
    notSupported := jbool j "notSupported" }

instance : Inhabited A := ⟨.leafList [] {} none none⟩

partial def loadA (j : Json) : A :=
  let name := bytesOf (jstr j "n")
  let kids := (jarr j "kids").map loadA
  let m := metaOf j
  match jstr j "k" with
  | "container" => .container name m (jbool j "presence") kids
  | "list" => .list name m ((jarr j "keys").map fun k => bytesOf (strOf k)) (optNat j "min") (optNat j "max") kids
  | "leaf" => .leaf name m (jbool j "mandatory") (optStr j "dflt")
  | "leaf-list" => .leafList name m (optNat j "min") (optNat j "max")
  | "choice" => .choice name m (jbool j "mandatory") (optStr j "dflt") kids
  | _ => .case name m kids

def kindStr : Kind → String
  | .container => "container" | .list => "list" | .leaf => "leaf" | .leafList => "leaf-list"
  | .choice => "choice" | .case => "case"

def coreOf (a : Attr) : String :=
  let base := s!"cfg={a.cfg} st={a.st}"
  match a.kind with
  | .container => base ++ s!" flag={a.flag}"
  | .list => base ++ " keys=" ++ ",".intercalate (a.keys.map strOfTok) ++ s!" min={a.mn.getD 0} max={match a.mx with | some x => toString x | none => "unbounded"}"
  | .leaf => base ++ s!" flag={a.flag}" ++ (if a.flag then "" else match a.dflt with | some d => " def=" ++ Y.hexOf d | none => "")
  | .leafList => base ++ s!" min={a.mn.getD 0} max={match a.mx with | some x => toString x | none => "unbounded"}"
  | .choice => base ++ s!" flag={a.flag}" ++ (match a.dflt with | some d => " def=" ++ Y.hexOf d | none => "")
  | .case => base

partial def dumpCN (ind : String) : CN → String
  | .mk a kids =>
    let ks := kids.toArray.qsort (fun x y => kindStr x.attr.kind ++ " " ++ strOfTok x.attr.name < kindStr y.attr.kind ++ " " ++ strOfTok y.attr.name)
    ind ++ kindStr a.kind ++ " " ++ strOfTok a.name ++ " " ++ coreOf a ++ "\n" ++ String.join (ks.toList.map (dumpCN (ind ++ " ")))

def dumpTop (ks : List CN) : String :=
  let sorted := ks.toArray.qsort (fun x y => kindStr x.attr.kind ++ " " ++ strOfTok x.attr.name < kindStr y.attr.kind ++ " " ++ strOfTok y.attr.name)
  "tree  cfg=true st=0\n" ++ String.join (sorted.toList.map (dumpCN " "))

def filters : List (String × (Attr → Bool)) :=
  [("config", fun a => a.cfg), ("state", fun a => !a.cfg), ("excl-state", fun a => a.cfg), ("excl-config", fun a => !a.cfg),
   ("config+state", fun _ => true), ("config+nostate", fun a => a.cfg), ("config-or-state", fun _ => true),
   ("opd", fun _ => false), ("excl-opd", fun _ => true), ("none", fun _ => false)]

def handleFilter (j : Json) : List (String × Json) :=
  let top := (jarr j "top").map loadA
  let feat : FeatEnv := {}
  let all := compile keepAll feat top
  let head := match all with | .ok _ => "all:ok" | .error e => "all:compile-err " ++ e
  let perFilter (useModel : Bool) := filters.map fun (nm, f) =>
    match all with
    | .error e =>
      (match compile f feat top with
       | .error e2 => if e2 = e then nm ++ ":same-error" else nm ++ ":compile-err " ++ e2
       | .ok _ => nm ++ ":ok-but-unfiltered-fails")
    | .ok full =>
      if useModel then
        (match compile f feat top with
         | .error e2 => nm ++ ":compile-err " ++ e2
         | .ok got => if dumpTop got = dumpTop (pruneKids f full) then nm ++ ":pruned" else nm ++ ":DIFF")
      else nm ++ ":pruned"
  let tail := match all with | .ok full => ["dump:\n" ++ dumpTop full] | .error _ => []
  let m := "\n".intercalate (head :: perFilter true ++ tail)
  let s := "\n".intercalate (head :: perFilter false ++ tail)
  [("m", m), ("s", s)]

end YV.Drv.Cm

namespace YV.Drv.Cm
open Lean YV YV.Y YV.SC YV.C YV.CS YV.Drv YV.Drv.T YV.Drv.S

def qual (mod : String) (s : String) : Tok := bytesOf (if s.contains ':' then s else mod ++ ":" ++ s)

def declsOf (mod : String) (js : List Json) : List FeatDecl :=
  js.map fun f => { key := qual mod (jstr f "n"), deps := (jarr f "iff").map fun d => qual mod (strOf d),
                    st := match jstr f "status" with | "deprecated" => 1 | "obsolete" => 2 | _ => 0 }

/-- if-feature references on nodes are written relative to module m -/
partial def qualA (a : A) : A :=
  let q (m : Meta) : Meta := { m with iff := m.iff.map fun f => if f.contains 58 then f else bytesOf "m:" ++ f }
  match a with
  | .container n m p k => .container n (q m) p (k.map qualA)
  | .list n m ks mn mx k => .list n (q m) ks mn mx (k.map qualA)
  | .leaf n m md d => .leaf n (q m) md d
  | .leafList n m mn mx => .leafList n (q m) mn mx
  | .choice n m md d c => .choice n (q m) md d (c.map qualA)
  | .case n m k => .case n (q m) (k.map qualA)

def devOf (j : Json) : Dev :=
  { path := (jarr j "path").map fun p => bytesOf (strOf p),
    kind := match jstr j "kind" with | "not-supported" => .notSupported | "add" => .add | "replace" => .replace | _ => .delete,
    prop := match jstr j "prop" with | "default" => .dflt | "mandatory" => .mandatory | "min-elements" => .minEl | "max-elements" => .maxEl | _ => .config,
    val := bytesOf (jstr j "val") }

def hasSub (s sub : String) : Bool := (s.splitOn sub).length > 1

def classOf (e : String) : String :=
  if hasSub e "config true node can't have a config false parent" then "err:cfg-under-false"
  else if hasSub e "Cannot override status of parent" then "err:status-override"
  else if hasSub e "node cannot reference" then "err:ref-status"
  else if hasSub e "Feature cyclic reference" then "err:feature-cycle"
  else if hasSub e "Property being added to node already exists" then "err:dev-add-exists"
  else if hasSub e "Only existing proprties can be replaced" then "err:dev-replace-missing"
  else if hasSub e "Property being deleted by deviation must exist" then "err:dev-delete-missing"
  else if hasSub e "Property not allowed" then "err:dev-not-allowed"
  else if hasSub e "Invalid path" then "err:dev-bad-path"
  else "err:other:" ++ e

def handleCfg (j : Json) : List (String × Json) :=
  let top := ((jarr j "top").map loadA).map qualA
  let decls := declsOf "b" (jarr j "bfeatures") ++ declsOf "m" (jarr j "features")
  let raw := (jarr j "enabled").map fun e => bytesOf (strOf e)
  let devs := (jarr j "devs").map devOf
  let run (t : List A) (ds : List Dev) := compileCfg decls raw (bytesOf "m") t ds
  let dev := run top devs
  let v := match dev with | .ok _ => "V:ok" | .error e => "V:" ++ classOf e
  let edited := editAll top devs
  let metaL : List String :=
    if devs.isEmpty then [] else
    match edited, dev with
    | none, .ok _ => ["meta:forbidden-deviation-accepted"]
    | none, .error _ => ["meta:rejected"]
    | some et, _ =>
      match run et [], dev with
      | .error _, .error _ => ["meta:both-fail"]
      | .error e, .ok _ => ["meta:edited-fails:" ++ classOf e]
      | .ok _, .error _ => ["meta:deviated-fails-edited-ok"]
      | .ok a, .ok b => [if dumpTop a = dumpTop b then "meta:equal" else "meta:DIFF"]
  let dumpM := match dev with | .ok t => ["dump:\n" ++ dumpTop t] | .error _ => []
  let dumpS := match edited with
    | some et => (match run et [] with | .ok t => ["dump:\n" ++ dumpTop t] | .error _ => dumpM)
    | none => dumpM
  [("m", "\n".intercalate (v :: metaL ++ dumpM)), ("s", "\n".intercalate (v :: metaL ++ dumpS))]

end YV.Drv.Cm
