import YV.Drv.C02
import YV.Spec.XCompile
namespace YV.Drv.C03
open Lean YV YV.X YV.XL YV.XP YV.XM YV.XPS YV.XC YV.Drv

partial def xeOf (j : Json) : XE :=
  match jstr j "t" with
  | "num" => (match C01.exprOf j with | some (.num x) => .num x | _ => .lit [])
  | "lit" => .lit (jstr j "s").toList
  | "neg" => .neg (xeOf (jobj j "a"))
  | "bin" => (match C01.binOpOf (jstr j "op") with
      | some op => .bin op (xeOf (jobj j "a")) (xeOf (jobj j "b"))
      | none => .lit [])
  | "call" => (match Fn.ofName (jstr j "f") with
      | some f => .call f ((jarr j "args").map xeOf)
      | none => .lit [])
  | "path" => .path (C02.pathOf j)
  | _ => .lit []

def showProg (p : List PI) : String := String.intercalate ";" (p.map XB.showPI)

def runShow (prog : List PI) : String :=
  let o := XM.run true (C02.mockTree 0) prog
  C02.showOutcome o.trace o.value o.err

def one (bs : List Nat) : String :=
  match build false true .expr none bs with
  | .machine prog => showProg prog ++ " ## " ++ runShow prog
  | b => "build:" ++ XB.showBuilt false b

def handle (j : Json) : List (String × Json) :=
  let a := XB.unhex (jstr j "a")
  let b := XB.unhex (jstr j "b")
  let m := one a ++ " || " ++ one b
  let prog := program (xeOf (jobj j "e"))
  let s1 := showProg prog ++ " ## " ++ runShow prog
  [("m", m), ("s", s1 ++ " || " ++ s1)]

end YV.Drv.C03
