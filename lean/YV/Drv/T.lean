import YV.Drv.Y
import YV.Spec.YTypesS
namespace YV.Drv.T
open Lean YV YV.Y YV.T YV.TS YV.Drv

def bytesOf (s : String) : Bytes := s.toUTF8.toList.map UInt8.toNat

def baseOf (s : String) : BaseKind :=
  match s.splitOn ":" with
  | ["int8"] => .int 8 | ["int16"] => .int 16 | ["int32"] => .int 32 | ["int64"] => .int 64
  | ["uint8"] => .uint 8 | ["uint16"] => .uint 16 | ["uint32"] => .uint 32 | ["uint64"] => .uint 64
  | ["decimal64", fd] => .dec fd.toNat!
  | ["string"] => .str | ["boolean"] => .bool | ["empty"] => .empty
  | "enumeration" :: names => .enum (names.map bytesOf)
  | _ => .str

def levelOf (j : Json) : Level :=
  { restr := if jhas j "restr" then
      (match jobj j "restr" with
       | .arr a => some (a.toList.map fun p => match p with
           | .arr #[lo, hi] => (bytesOf (strOf lo), bytesOf (strOf hi))
           | _ => ([], []))
       | _ => none) else none,
    isLength := jbool j "isLength",
    dflt := if jhas j "dflt" then (match jobj j "dflt" with | .str s => some (bytesOf s) | _ => none) else none }

def showRes (probes : List Bytes) (acc : Bytes → Bool) (d : Option Bytes) : String :=
  let dv := match d with | some x => "d=" ++ Y.hexOf x | none => "d=none"
  s!"ok {dv} probes=" ++ String.ofList (probes.map fun p => if acc p then '1' else '0')

def handle (j : Json) : List (String × Json) :=
  let k := baseOf (jstr j "base")
  let levels := (jarr j "levels").map levelOf
  let probes := (jarr j "probes").map fun p => bytesOf (strOf p)
  let m := match build k levels with
    | some (t, d) => showRes probes (validate t) d
    | none => "compile-err"
  let s := match buildS k levels with
    | some (t, d) => showRes probes (accepts t) d
    | none => "compile-err"
  [("m", m), ("s", s)]

end YV.Drv.T
