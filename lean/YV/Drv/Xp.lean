import YV.Drv.XB
import YV.Drv.Y
namespace YV.Drv.Xp
open Lean YV YV.X YV.XL YV.XP YV.Drv YV.Drv.XB

def scopeMap : String → List (String × String)
  | "b" => [("b", "urn:b"), ("x", "urn:c")]
  | "m" => [("m", "urn:m"), ("b", "urn:b"), ("y", "urn:c"), ("x", "urn:d")]
  | "ms" => [("w", "urn:e")]      -- submodule ms of m: its own import
  | _ => [("a2", "urn:a2"), ("m", "urn:m"), ("z", "urn:c")]

def runesCSV (l : List Rune) : String := String.intercalate "," (l.map toString)

def showPIns (scope : String) (dflt : String) : PI → String
  | .namePush p l =>
    let ps := String.ofList (p.map fun c => Char.ofNat c)
    -- an unprefixed wildcard is not bound to a namespace
    let ns := if p.isEmpty then (if l = [42] then "" else dflt) else ((scopeMap scope).lookup ps).getD "?"
    "name " ++ ns ++ " " ++ runesCSV l
  | i => showPI i

def hexStr (s : String) : String := Y.hexOf (s.toUTF8.toList.map UInt8.toNat)

/-- one expression: `none` = does not compile -/
def obsOf (kind : String) (g : Grammar) (dflt : String) (e : Json) : Option String :=
  let scope := jstr e "scope"
  let text := jstr e "text"
  let bs := text.toUTF8.toList.map UInt8.toNat
  let pm : PfxMap := some ((scopeMap scope).map fun (p, _) => strR p)
  match build false true g pm bs with
  | .machine prog => some (kind ++ "|" ++ hexStr text ++ "|" ++ String.intercalate ";" (prog.map (showPIns scope dflt)))
  | _ => none

def sortStrs (l : List String) : List String := (l.toArray.qsort (· < ·)).toList

def handle (j : Json) : List (String × Json) :=
  let ex := jobj j "exprs"
  let get (k kind : String) (g : Grammar) (dflt : String) : List (Option String) :=
    if jhas ex k then [obsOf kind g dflt (jobj ex k)] else []
  -- unprefixed names: the module the node is used in for copies of a grouping, the module of the text otherwise
  let nodes : List (String × List (Option String)) :=
    [("bl", get "b.must" "must" .expr "urn:m" ++ get "b.must2" "must" .expr "urn:m" ++ get "m.refmust" "must" .expr "urn:m" ++ get "b.when" "when/false" .expr "urn:m" ++ get "m.useswhen" "when/false" .expr "urn:m"),
     ("br", get "b.path" "path" .leafref "urn:m" ++ get "m.useswhen" "when/false" .expr "urn:m"),
     ("ml", get "m.must" "must" .expr "urn:m" ++ get "m.must2" "must" .expr "urn:m"),
     ("mt", get "b.tpath" "path" .leafref "urn:b"),
     ("mr", get "m.path" "path" .leafref "urn:m"),
     ("al", get "a2.must" "must" .expr "urn:a2" ++ get "a2.must2" "must" .expr "urn:a2" ++ get "a2.when" "when/false" .expr "urn:a2" ++ get "a2.augwhen" "when/true" .expr "urn:a2"),
     ("mk", get "m.keymust" "must" .expr "urn:m" ++ get "m.keywhen" "when/false" .expr "urn:m"),
     ("bk", get "m.kuwhen" "when/false" .expr "urn:m"),
     -- a leaf-list of b's grouping: its own must, one more by a refine in m, the when of the uses
     ("bll", get "b.llmust" "must" .expr "urn:m" ++ get "m.llrefmust" "must" .expr "urn:m" ++ get "m.useswhen" "when/false" .expr "urn:m"),
     -- in the input of an rpc that a submodule of m defines: an expression of m
     ("sx", get "s.rpcmust" "must" .expr "urn:m")]
  let out :=
    if nodes.any (fun (_, os) => os.any (·.isNone)) then "err names-expression+statement"
    else "ok\n" ++ "\n".intercalate (nodes.map fun (n, os) => n ++ ":" ++ ",".intercalate (sortStrs (os.filterMap id)))
  -- an expression in a grouping nothing uses is an expression of the module (the specification); the compiler only looks at
  -- what ends up in the schema (the model)
  let unusedBad := jhas ex "u.must" && (obsOf "must" .expr "urn:m" (jobj ex "u.must")).isNone
  [("m", out), ("s", if unusedBad then "err names-expression+statement" else out)]

end YV.Drv.Xp
