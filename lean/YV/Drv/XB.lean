import YV.Drv.Util
import YV.Model.XParse
namespace YV.Drv.XB
open Lean YV YV.X YV.XL YV.XP YV.Drv

def hexVal (c : Char) : Nat :=
  if '0' ≤ c && c ≤ '9' then c.toNat - 48 else if 'a' ≤ c && c ≤ 'f' then c.toNat - 87 else 0

def unhex (s : String) : List Nat :=
  let rec go : List Char → List Nat
    | a :: b :: r => (hexVal a * 16 + hexVal b) :: go r
    | _ => []
  go s.toList

def hexOfRunes (l : List Rune) : String :=
  String.intercalate "," (l.map toString)

def showPI : PI → String
  | .store => "store" | .or => "or" | .and => "and" | .eq => "eq" | .ne => "ne" | .lt => "lt" | .gt => "gt"
  | .le => "le" | .ge => "ge" | .add => "add" | .sub => "sub" | .mul => "mul" | .div => "div" | .mod => "mod"
  | .negate => "negate" | .union => "union" | .evalLocPath => "evalLocPath" | .filterExprEnd => "filterExprEnd"
  | .lit s => "lit " ++ hexOfRunes s
  | .num x => "num " ++ toString x.toBits
  | .bltin f => "bltin " ++ f.name
  | .pathRoot => "root" | .pathDotDot => "dotdot"
  | .namePush p l => "name " ++ hexOfRunes p ++ ":" ++ hexOfRunes l
  | .predicatesStart => "PredicatesStart" | .predicatesEnd => "PredicatesEnd"
  | .predStart => "PREDSTART" | .predEnd => "PREDEND" | .pathSetCurrent => "pathsetcurrent" | .deref => "deref"
  | .lrefPredStart => "lrefPredStart" | .lrefPredEnd => "lrefPredEnd" | .lrefEquals => "lrefEquals"

def grammarOf : String → Grammar
  | "leafref" => .leafref | "pathEval" => .pathEval | _ => .expr

def pmOf (j : Json) : PfxMap :=
  if jhas j "pm" then
    match jobj j "pm" with
    | .arr a => some (a.toList.map fun x => strR (strOf x))
    | _ => none
  else none

def showBuilt (withProg : Bool) : Built → String
  | .machine p => if withProg then "ok " ++ String.intercalate ";" (p.map showPI) else "ok"
  | .error _ "empty" => "err:empty"
  | .error m k => s!"err:{m}:{if k = "lex" then "LP" else "P"}"
  | .panic _ => "PANIC"
  | .diverge => "DIVERGE"

/-- C04/C05 stream: accept/reject, error mark; C03 stream (`prog=true`): the listing too -/
def handle (j : Json) : List (String × Json) :=
  let bs := unhex (jstr j "hex")
  let g := grammarOf (jstr j "g")
  let r := build false (jbool j "fixed") g (pmOf j) bs
  let rs := build true (jbool j "fixed") g (pmOf j) bs
  -- path_eval: only totality is claimed (DESIGN §6 C05): any machine-or-error outcome is "total"
  let total (b : Built) : String := match b with
    | .panic _ => "PANIC" | .diverge => "DIVERGE" | .error _ "empty" => "err:empty" | _ => "total"
  let out := if g = .pathEval then total r else showBuilt (jbool j "prog") r
  let outS := if g = .pathEval then total r else showBuilt (jbool j "prog") rs
  [("m", out), ("s", outS)]

end YV.Drv.XB
