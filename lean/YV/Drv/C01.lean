import YV.Drv.Util
import YV.Spec.XSem
namespace YV.Drv.C01
open Lean YV YV.X YV.XS YV.Drv

def binOpOf : String → Option BinOp
  | "add" => some .add | "sub" => some .sub | "mul" => some .mul | "div" => some .div
  | "mod" => some .mod | "and" => some .and | "or" => some .or | "eq" => some .eq
  | "ne" => some .ne | "lt" => some .lt | "gt" => some .gt | "le" => some .le | "ge" => some .ge
  | _ => none

partial def exprOf (j : Json) : Option Expr :=
  match jstr j "t" with
  | "num" =>
    if jhas j "txt" then
      match parseXNumber (jstr j "txt").toList with
      | some (neg, ip, fp) => some (.num (SF.ofDecimal neg (digitsVal (ip ++ fp)) (Int.neg (Int.ofNat fp.length))))
      | none => none
    else some (.num (SF.ofBits (jnat j "bits")))
  | "lit" => some (.lit (jstr j "s").toList)
  | "env" => some (.env (jnat j "id"))
  | "neg" => do let a ← exprOf (jobj j "a"); some (.neg a)
  | "bin" => do
    let op ← binOpOf (jstr j "op")
    let a ← exprOf (jobj j "a"); let b ← exprOf (jobj j "b"); some (.bin op a b)
  | "call" => do
    let f ← Fn.ofName (jstr j "f")
    let args ← (jarr j "args").mapM exprOf
    some (.call f args)
  | _ => none

def datumOf (j : Json) : Datum :=
  match jstr j "t" with
  | "leaf" => .lit (jstr j "s").toList
  | "ll" => .slice ((jarr j "l").map fun x => (strOf x).toList)
  | _ => .emptyNodeset

def envOf (l : List Json) : Env := fun i => match l[i]? with | some j => datumOf j | none => .emptyNodeset

def showStr (s : Str) : String := String.ofList s

/-- canonical rendering: kind, then the three accessor views -/
def showDatum (d : Datum) : String :=
  let kind := match d with
    | .bool _ => "bool" | .lit _ => "lit" | .num _ => "num" | .emptyNodeset => "nodeset"
    | .slice _ => "slice" | .invalid => "invalid"
  let b := match d.toBool with | .ok b => toString b | .error _ => "err"
  let n := match d.toNum with | .ok x => toString x.toBits | .error _ => "err"
  let l := match d.toLit with | .ok s => showStr s | .error _ => "err"
  s!"{kind}|B={b}|N={n}|L={l}"

def valToDatum : Val → Datum
  | .bool b => .bool b | .str s => .lit s | .num x => .num x
  | .nset [] => .emptyNodeset | .nset l => .slice l

/-- does any sub-expression convert a multi-valued operand to string/number (don't-care, see Spec)? -/
partial def usesMultiConv (env : Env) : Expr → Bool
  | .num _ | .lit _ | .env _ => false
  | .neg e => usesMultiConv env e || (match eval false env e with | some v => multi v | none => false)
  | .bin op a b =>
    usesMultiConv env a || usesMultiConv env b ||
      (match op with
       | .add | .sub | .mul | .div | .mod =>
         (match eval false env a, eval false env b with
          | some x, some y => multi x || multi y | _, _ => false)
       | _ => false)
  | .call f args =>
    args.any (usesMultiConv env) ||
      (let ks := f.sig.1
       (args.zip ks).any fun (a, k) =>
         (k == .num || k == .lit || (k == .obj && (f == .string || f == .number))) &&
           (match eval false env a with | some v => multi v | none => false))

def handle (j : Json) : List (String × Json) :=
  match exprOf (jobj j "e") with
  | none => [("m", "bad-case"), ("s", "bad-case")]
  | some e =>
    let env := envOf (jarr j "env")
    let m := match run env (compile e ++ [.store]) with
      | .ok (some d) => showDatum d
      | .ok none => "no-result"
      | .error msg => "error:" ++ msg
    let top := match eval false env e with | some v => multi v | none => false
    let s := match eval false env e with
      | some v => showDatum (valToDatum v)
      | none => "undefined"
    let alt := match eval true env e with
      | some v => showDatum (valToDatum v)
      | none => "undefined"
    [("m", m), ("s", s), ("dc", Json.bool (usesMultiConv env e || top)),
     ("alt", Json.mkObj [("C01-number-of-Infinity-string", alt)])]

/-- SF64 primitive stream: op on bit patterns -/
def handleSF (j : Json) : List (String × Json) :=
  let a := SF.ofBits (jnat j "a")
  let b := SF.ofBits (jnat j "b")
  let r : String := match jstr j "op" with
    | "add" => toString (SF.add a b).toBits
    | "sub" => toString (SF.sub a b).toBits
    | "mul" => toString (SF.mul a b).toBits
    | "div" => toString (SF.div a b).toBits
    | "mod" => toString (SF.fmod a b).toBits
    | "floor" => toString (SF.floor a).toBits
    | "ceil" => toString (SF.ceil a).toBits
    | "trunc" => toString (SF.trunc a).toBits
    | "round" => toString (xround a).toBits
    | "lt" => toString (SF.flt a b)
    | "le" => toString (SF.fle a b)
    | "eq" => toString (SF.feq a b)
    | "fmt" => showStr (numToLit a)
    | "parse" => toString (numberFromString (jstr j "s").toList).toBits
    | _ => "bad-op"
  let sp : String := match jstr j "op" with
    | "round" => toString (roundS a).toBits
    | "parse" => toString (numberOfString (jstr j "s").toList).toBits
    | _ => r
  let alt : String := match jstr j "op" with
    | "parse" => toString (numOfStr true (jstr j "s").toList).toBits
    | _ => sp
  [("m", r), ("s", sp), ("alt", Json.mkObj [("C01-number-of-Infinity-string", alt)])]

end YV.Drv.C01
