import YV.Drv.XB
import YV.Spec.YArg
import YV.Model.YCheck
import YV.Spec.YRange
import YV.Proofs.YRangeLex
import YV.Spec.YRfc
namespace YV.Drv.Y
open Lean YV YV.Y YV.YS YV.Drv

def hexOf (b : Bytes) : String :=
  String.join (b.map fun x =>
    let d (n : Nat) : Char := if n < 10 then Char.ofNat (48 + n) else Char.ofNat (87 + n)
    String.ofList [d (x / 16), d (x % 16)])

partial def dumpStmt (input : Bytes) : Stmt → String
  | .mk kw arg pos subs =>
    let (l, c) := lineCol input pos
    s!"{hexOf kw}|{hexOf arg}|{l}:{c}" ++ "{" ++ String.intercalate "," (subs.map (dumpStmt input)) ++ "}"

def showParsed (input : Bytes) : Parsed → String
  | .ok root taken total => s!"ok leak={if taken < total then 1 else 0} " ++ dumpStmt input root
  | .err l c taken total => s!"err:{l}:{c} leak={if taken < total then 1 else 0}"
  | .diverge => "DIVERGED"
  | .fuel => "FUEL"

def pieceOf (j : Json) : Piece :=
  match jstr j "q" with
  | "d" => .double (jnat j "col") (XB.unhex (jstr j "raw"))
  | "s" => .single (XB.unhex (jstr j "raw"))
  | _ => .unquoted (XB.unhex (jstr j "raw"))

def asciiB (s : String) : Bytes := s.toUTF8.toList.map UInt8.toNat

/-- the one normalisation `parse.Parse` applies to the tree (ast.go, ChildrenByType on a choice): a container,
    leaf, leaf-list or list written directly under a choice is wrapped, where it stands, in a case node of the
    same name and position -/
partial def wrapCases : Stmt → Stmt
  | .mk kw arg pos subs =>
    let subs := subs.map wrapCases
    if kw = asciiB "choice" then
      .mk kw arg pos (subs.map fun c => match c with
        | .mk k a p _ =>
          if k = asciiB "container" || k = asciiB "leaf" || k = asciiB "leaf-list" || k = asciiB "list"
          then .mk (asciiB "case") a p [c] else c)
    else .mk kw arg pos subs

/-- ytree / yfuzz: parse the text; yarg: additionally the RFC value of the argument pieces -/
def handle (j : Json) : List (String × Json) :=
  let input := XB.unhex (jstr j "hex")
  let r := parse YC.checkStmt true input
  -- after the repair `stopParse` drains the channel: nothing is left blocked
  let m : String := match r with
    | .ok root _ _ => s!"ok leak=0 " ++ dumpStmt input root
    | .err l c _ _ => s!"err:{l}:{c} leak=0"
    | p => showParsed input p
  if jhas j "pieces" then
    let ps := (jarr j "pieces").map pieceOf
    let v := decodeArg ps
    let marg := match r with
      | .ok (.mk _ _ _ (Stmt.mk _ a _ _ :: _)) _ _ => "arg:" ++ hexOf a
      | .ok _ _ _ => "arg:none"
      | _ => m
    [("m", marg), ("s", "arg:" ++ hexOf v), ("dc", Json.bool (ps.any pieceDontCare))]
  else if jhas j "expect" then
    [("m", m), ("s", jstr j "expect")]
  else if jbool j "real" then
    let mr : String := match r with
      | .ok root _ _ => s!"ok leak=0 " ++ dumpStmt input (wrapCases root)
      | _ => m
    [("m", mr), ("s", mr)]
  else if jbool j "verdict" then
    let v : String := match r with | .ok _ _ _ => "ok" | _ => m
    if jhas j "triple" then
      -- (parent keyword, child keyword, multiplicity): the RFC 6020 table decides
      match jarr j "triple" with
      | [p, c, n] =>
        let ps := strOf p; let cs := strOf c
        let cnt := match n.getNat? with | .ok k => k | _ => 0
        let sv := if YR.countOK ps cs cnt then "ok" else "err:1:0 leak=0"
        [("m", v), ("s", sv), ("dc", Json.bool ((YR.isSlack ps cs && !(ps = "list" && cs = "key") && !(ps = "deviation" && cs = "deviate")) || ps = "deviate" || ps = "refine" ||
            -- "at least one data definition" in a list is an ABNF rule (1*data-def), not a table cell
            (ps = "list" && cs = "leaf" && cnt = 0)))]
      | _ => [("m", v), ("s", v)]
    else if jhas j "order" then
      -- the sections of a module in the order written: header ≤ linkage ≤ meta ≤ revision ≤ body; extension statements
      -- (the marker, whatever its prefix) anywhere; a header statement after another section is an error
      let parts := (jstr j "order").splitOn ","
      let rank (x : String) : Option Nat := match x with
        | "hdr" => some 0 | "link" => some 1 | "meta" => some 2 | "rev" => some 3 | "body" => some 4 | _ => none
      let secs := parts.filterMap rank
      let rec asc : List Nat → Bool
        | a :: b :: r => a ≤ b && asc (b :: r)
        | _ => true
      let okS := asc secs && !(parts.head? = some "split-header")
      [("m", v), ("s", if okS then "ok" else if v.startsWith "err" then v else "err:1:0 leak=0")]
    else if jhas j "ext" then
      -- a statement whose keyword carries a prefix is an extension statement: accepted under every parent; one without is not
      match jarr j "ext" with
      | [_, c] =>
        -- (refused: where, is the model's business — the statement itself is at fault, not its parent)
        [("m", v), ("s", if (strOf c).toList.contains ':' then "ok" else if v.startsWith "err" then v else "err:1:0 leak=0")]
      | _ => [("m", v), ("s", v)]
    else if jhas j "argkind" then
      -- argument syntax: the RFC 6020 lexer of the keyword's argument decides
      let kw := (jstr j "kw").toUTF8.toList.map UInt8.toNat
      let a := (jstr j "arg").toUTF8.toList.map UInt8.toNat
      let t := YC.typeOf kw a
      let k := YC.argKindOf t
      let okS :=
        if k = "KeyArg" then (let ks := YC.splitSeps a; !ks.isEmpty && ks.all YC.idRefOK)
        else if k = "AbsoluteSchemaArg|DescendantSchemaArg" then YC.augmentOK a
        -- range / length: the ABNF read as a scanner (Spec.YRange), not the split-and-trim of the code
        else if k = "RangeArg" then YS.rangeArgOK a
        else if k = "LengthArg" then YS.lengthArgOK a
        else YC.argOK k a
      -- which side of ".." a keyword stands on is not a lexical matter ("max..min", "5..min": refused here or later)
      let sides := (k = "RangeArg" || k = "LengthArg") && okS && !YC.sidesOK a
      [("m", v), ("s", if okS then "ok" else "err:1:0 leak=0"), ("dc", Json.bool sides)]
    else [("m", v), ("s", v)]
  else [("m", m), ("s", m)]

end YV.Drv.Y
