import YV.Drv.XB
import YV.Spec.YArg
namespace YV.Drv.Y
open Lean YV YV.Y YV.YS YV.Drv

def hexOf (b : Bytes) : String :=
  String.join (b.map fun x =>
    let d (n : Nat) : Char := if n < 10 then Char.ofNat (48 + n) else Char.ofNat (87 + n)
    String.ofList [d (x / 16), d (x % 16)])

partial def dumpStmt (input : Bytes) : Stmt → String
  | .mk kw arg pos subs =>
    let (l, c) := lineCol input pos
    s!"{hexOf kw}|{hexOf arg}|{l}:{c}" ++ "{" ++ String.intercalate "," (subs.map (dumpStmt input)) ++ "}"

def showParsed (input : Bytes) : Parsed → String
  | .ok root taken total => s!"ok leak={if taken < total then 1 else 0} " ++ dumpStmt input root
  | .err l c taken total => s!"err:{l}:{c} leak={if taken < total then 1 else 0}"
  | .diverge => "DIVERGED"
  | .fuel => "FUEL"

def pieceOf (j : Json) : Piece :=
  match jstr j "q" with
  | "d" => .double (jnat j "col") (XB.unhex (jstr j "raw"))
  | "s" => .single (XB.unhex (jstr j "raw"))
  | _ => .unquoted (XB.unhex (jstr j "raw"))

/-- ytree / yfuzz: parse the text; yarg: additionally the RFC value of the argument pieces -/
def handle (j : Json) : List (String × Json) :=
  let input := XB.unhex (jstr j "hex")
  let r := parse true input
  -- after the repair `stopParse` drains the channel: nothing is left blocked
  let m := match r with
    | .ok root _ _ => s!"ok leak=0 " ++ dumpStmt input root
    | .err l c _ _ => s!"err:{l}:{c} leak=0"
    | p => showParsed input p
  if jhas j "pieces" then
    let ps := (jarr j "pieces").map pieceOf
    let v := decodeArg ps
    let marg := match r with
      | .ok (.mk _ _ _ (Stmt.mk _ a _ _ :: _)) _ _ => "arg:" ++ hexOf a
      | .ok _ _ _ => "arg:none"
      | _ => m
    [("m", marg), ("s", "arg:" ++ hexOf v), ("dc", Json.bool (ps.any pieceDontCare))]
  else if jhas j "expect" then
    [("m", m), ("s", jstr j "expect")]
  else [("m", m), ("s", m)]

end YV.Drv.Y
