import YV.Drv.Util
import YV.Drv.C01
import YV.Drv.XB
import YV.Spec.XPathS
namespace YV.Drv.C02
open Lean YV YV.X YV.XS YV.XL YV.XP YV.XM YV.XPS YV.Drv

def hashStr (s : String) : Nat :=
  s.toUTF8.foldl (fun h b => (h * 31 + b.toNat) % 4294967296) 7

def startsWith (s : Str) (p : String) : Bool := isPrefixOf p.toList s

/-- the deterministic mock tree shared with the Go harness (mock.go, hash mode) -/
def mockValue (p : Path) : Datum :=
  match p.elems.reverse with
  | [] => .lit "root".toList
  | last :: _ =>
    let h := hashStr (showPath p) % 1000
    if startsWith last.name "ll" then .slice [(toString (h % 7)).toList, ("w" ++ toString h).toList]
    else if startsWith last.name "ab" then .emptyNodeset
    else if startsWith last.name "n" then .lit (toString (h % 50)).toList
    else if startsWith last.name "x" then .lit ("0" ++ toString (h % 100) ++ ".0").toList
    else .lit ("v" ++ toString h).toList

def mockDeref (p : Path) : Path :=
  { root := true, elems := { name := "deref-target".toList } :: p.elems }

def mockTree (failAt : Nat) : Tree := { value := mockValue, failAt := failAt, derefTarget := mockDeref }

def srootOf : String → SRoot | "abs" => .abs | "cur" => .cur | _ => .rel

def spathOf (j : Json) : SPath :=
  { root := srootOf (jstr j "root"),
    steps := (jarr j "steps").map fun st => if jbool st "up" then .up else .name (jstr st "name").toList }

/-- an operand expression whose function arguments may be paths: each becomes `.env i`, i its place among the paths -/
partial def exprOfP (j : Json) (ps : List SPath) : Option Expr × List SPath :=
  match jstr j "t" with
  | "path" => (some (.env ps.length), ps ++ [spathOf j])
  | "call" =>
    match Fn.ofName (jstr j "f") with
    | none => (none, ps)
    | some f =>
      let (args, ps') := (jarr j "args").foldl (fun (acc : Option (List Expr) × List SPath) a =>
        match exprOfP a acc.2 with
        | (some e, p2) => (acc.1.map (· ++ [e]), p2)
        | (none, p2) => (none, p2)) (some [], ps)
      (args.map (.call f), ps')
  | _ => (C01.exprOf j, ps)

partial def hasPathArg (j : Json) : Bool :=
  jstr j "t" = "path" || (jstr j "t" = "call" && (jarr j "args").any hasPathArg)

def operandOf (j : Json) : Operand :=
  match jstr j "t" with
  | "lit" => .lit (jstr j "s").toList
  | "num" => (match C01.exprOf j with | some (.num x) => .num x | _ => .lit [])
  | "path" => .path (spathOf j)
  | _ =>
    if hasPathArg j then (match exprOfP j [] with | (some e, ps) => .scalarP e ps | _ => .lit [])
    else (match C01.exprOf j with | some e => .scalar e | none => .lit [])

def stepOf (st : Json) : Step :=
  if jbool st "up" then .up
  else .named (jstr st "name").toList ((jarr st "preds").map fun pr => ((jstr pr "key").toList, operandOf (jobj pr "val")))

partial def pathOf (j : Json) : PathE :=
  let steps := (jarr j "steps").map stepOf
  if jstr j "root" = "deref" then .deref (pathOf (jobj j "inner")) steps
  else .basic (srootOf (jstr j "root")) steps

def showOutcome (trace : List String) (v : Option Datum) (e : Option RunErr) : String :=
  String.intercalate ";" trace ++ " => " ++
    (match e with
     | some (.tree m) => "error:tree:" ++ m
     | some (.internal m) => if (m.splitOn "injected-fault").length > 1 then "error:tree:" ++ m.trimAscii.toString else "error:internal"
     | none => match v with | some d => C01.showDatum d | none => "no-result")

/-- multi-valued operand of a predicate: its string-value is outside what C02/C01 fix -/
def multiOperand (t : Tree) (here : Path) : Operand → Bool
  | .path p =>
    let base := rootBase here p.root
    match t.value { base with elems := base.elems ++ p.steps.map sstepElem } with
    | .slice (_ :: _ :: _) => true | _ => false
  | _ => false

def multiInSteps (t : Tree) : Path → List Step → Bool
  | _, [] => false
  | p, .up :: r => multiInSteps t { p with elems := p.elems ++ [{ name := "..".toList }] } r
  | p, .named n preds :: r =>
    let here := { p with elems := p.elems ++ [{ name := n }] }
    preds.any (fun kv => multiOperand t here kv.2) || multiInSteps t here r

def multiIn (t : Tree) : PathE → Bool
  | .basic root steps => multiInSteps t { root := root == .abs } steps
  | .deref inner steps => multiIn t inner || multiInSteps t {} steps

def handle (j : Json) : List (String × Json) :=
  let bs := XB.unhex (jstr j "hex")
  let failAt := jnat j "failAt"
  let t := mockTree failAt
  let fixRoot := jbool j "fixroot"
  let m : String := match build false true .expr none bs with
    | .machine prog =>
      let o := XM.run fixRoot t prog
      showOutcome o.trace o.value o.err
    | b => "build:" ++ XB.showBuilt false b
  let p := pathOf (jobj j "p")
  let (tr, v) := evalPath t p
  let s :=
    if failAt ≠ 0 && failAt ≤ tr.length then
      showOutcome (tr.take failAt) none (some (.tree s!"injected-fault-{failAt}"))
    else showOutcome tr (some v) none
  -- a callback that panics with a value that says nothing: still an error, but not the tree's
  let opq := jstr j "panic" = "int" || jstr j "panic" = "struct"
  let fix (x : String) : String := if opq then x.replace s!"error:tree:injected-fault-{failAt}" "error:internal" else x
  if jstr j "mode" = "pair" then
    -- two paths under one operator: the requests of the first, then those of the second, each from the context node
    let p2 := pathOf (jobj j "p2")
    let (tr2, _) := evalPath t p2
    let mm : String := (match build false true .expr none bs with
      | .machine prog => "pair:" ++ String.intercalate ";" (XM.run fixRoot t prog).trace
      | _ => m)
    [("m", mm), ("s", "pair:" ++ String.intercalate ";" (tr ++ tr2)),
     ("dc", Json.bool (dupKeys p || multiIn t p || dupKeys p2 || multiIn t p2))] else
  -- `nospec`: an expression that is no path (what the run of the machine has to end in is what the machine model says)
  if jbool j "nospec" then [("m", fix m), ("s", fix m), ("dc", Json.bool false)] else
  [("m", fix m), ("s", fix s), ("dc", Json.bool (dupKeys p || multiIn t p))]

end YV.Drv.C02
