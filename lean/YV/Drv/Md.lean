import YV.Drv.Cm
import YV.Proofs.YCycle
namespace YV.Drv.Md
open Lean YV YV.Drv YV.Cyc

/-- the references written in the module set, per kind: definitions (qualified name, references) -/
structure Defs where
  feats : List (String × List String) := []
  idents : List (String × List String) := []
  tdefs : List (String × List String) := []      -- reference to a non-builtin base
  groups : List (String × List String) := []
  imports : List (String × List String) := []
  includes : List (String × List String) := []    -- module / submodule → what it includes
  usedTypes : List String := []                  -- types of leaves
  usedIdents : List String := []
  usedFeats : List String := []
  usedGroups : List String := []

def builtin (t : String) : Bool := !t.contains ':'

def collect (j : Json) : Defs :=
  let mods := jarr j "mods"
  let q (m n : String) := m ++ ":" ++ n
  let imp (m : String) : List String :=
    (match m with | "mb" => ["ma"] | "mc" => ["ma", "mb"] | _ => []) ++
      ((jarr j "extraImports").filterMap fun e => match e with
        | .arr #[a, b] => if strOf a = m && strOf b ≠ m then some (strOf b) else none
        | _ => none)
  { feats := mods.flatMap fun s => (jarr s "features").map fun f => (q (jstr s "name") (jstr f "n"), (jarr f "iff").map strOf),
    idents := mods.flatMap fun s => (jarr s "identities").map fun d =>
      (q (jstr s "name") (jstr d "n"), if jstr d "base" = "" then [] else [jstr d "base"]),
    tdefs := mods.flatMap fun s => (jarr s "typedefs").map fun d =>
      (q (jstr s "name") (jstr d "n"), if builtin (jstr d "base") then [] else [jstr d "base"]),
    groups := mods.flatMap fun s => (jarr s "groupings").map fun d => (q (jstr s "name") (jstr d "n"), (jarr d "uses").map strOf),
    -- `ProcessModuleIncludes`: the imports written in the submodules a module includes are imports of the module
    imports := mods.map fun s => (jstr s "name", imp (jstr s "name") ++ (jarr s "subs").flatMap fun u => (jarr u "imports").map strOf),
    includes := mods.flatMap fun s =>
      (jstr s "name", (jarr s "includes").map strOf) :: (jarr s "subs").map fun u => (jstr u "name", (jarr u "includes").map strOf),
    usedTypes := mods.flatMap fun s => (jarr s "leaves").filterMap fun l =>
      if jstr l "type" = "identityref" || builtin (jstr l "type") then none else some (jstr l "type"),
    usedIdents := mods.flatMap fun s => (jarr s "leaves").filterMap fun l => if jstr l "type" = "identityref" then some (jstr l "base") else none,
    usedFeats := mods.flatMap fun s => (jarr s "leaves").flatMap fun l => (jarr l "iff").map strOf,
    usedGroups := mods.flatMap fun s => (jarr s "uses").map strOf }

def succOf (g : List (String × List String)) (n : String) : List String := (g.lookup n).getD []

def hasDup (l : List String) : Bool := l.eraseDups.length ≠ l.length

/-- does the chain-remembering walk find a cycle from any of the roots -/
def anyCycle (g : List (String × List String)) (roots : List String) : Bool :=
  roots.any fun r => walk (succOf g) 100000 [] r = .cycle

def dangling (g : List (String × List String)) (uses : List String) : Bool :=
  (uses ++ g.flatMap (·.2)).any fun r => (g.lookup r).isNone

def stRank (s : String) : Nat := match s with | "deprecated" => 1 | "obsolete" => 2 | _ => 0
def modOfQ (q : String) : String := (q.splitOn ":").headD ""

/-- `assertReferenceStatus` along the typedef chains the leaves use: a definition of status `s` may not refer to a
    definition of its own module whose status is worse than `s` (after the repair a typedef's references are judged by the
    typedef's own status) -/
def statusViolation (j : Json) : Bool :=
  let mods := jarr j "mods"
  let tdefs : List (String × (String × Nat)) := mods.flatMap fun s => (jarr s "typedefs").map fun d =>
    (jstr s "name" ++ ":" ++ jstr d "n", (jstr d "base", stRank (jstr d "st")))
  let rec walk (fuel : Nat) (srcMod : String) (srcSt : Nat) (ref : String) : Bool :=
    match fuel with
    | 0 => false
    | f + 1 =>
      if builtin ref then false else
      match tdefs.lookup ref with
      | none => false
      | some (base, st) => (srcMod = modOfQ ref && srcSt < st) || walk f (modOfQ ref) st base
  (mods.any fun s => (jarr s "leaves").any fun l =>
    -- (no feature is enabled in this stream: a leaf with an if-feature is not built, its type not looked at)
    jstr l "type" ≠ "identityref" && (jarr l "iff").isEmpty && walk 100 (jstr s "name") (stRank (jstr l "st")) (jstr l "type")) ||
  -- a uses of a grouping of its own module: the status the uses has — its own, or the one it inherits from the nearest
  -- node above that states one, however far up — may not be better than the grouping's
  -- a typedef of a submodule used by a leaf of its module: the same module
  (mods.any fun s => jstr s "subleaf" ≠ "" && (match (jarr s "subs").head? with
      | some u => stRank (jstr s "subleafst") < stRank (jstr u "tdst")
      | none => false)) ||
  (mods.any fun s => (jarr s "gst").any fun e =>
    let eff := if jstr e "u" ≠ "" then stRank (jstr e "u") else stRank (jstr e "o")
    eff < stRank (jstr e "g"))

/-- the verdict; `allTypedefs` = the specification (every typedef must be acyclic), otherwise the code
    (only the typedefs a leaf uses are followed) -/
def verdict (j : Json) (allTypedefs : Bool) : String :=
  let d := collect j
  let fault := jstr j "fault"
  if fault = "dev-race" || fault = "import-self" then "any"
  else if fault = "orphan-submodule" then "err:ref"
  -- the data definitions of a submodule reach the schema only when the module itself includes it (`ProcessModuleIncludes`)
  else if fault = "sub-identity" && ((jarr j "mods").any fun s => (jarr s "subs").any fun u =>
      jbool u "ident" && ((jarr s "includes").map strOf).contains (jstr u "name")) then "err:ref"      -- a submodule of a module that is not among those supplied
  else if hasDup (d.tdefs.map (·.1)) || hasDup (d.groups.map (·.1)) then "err:dup"
  else if d.includes.any (fun (_, is) => is.any fun i => (d.includes.lookup i).isNone) then "err:ref"
  else if anyCycle d.includes (d.includes.map (·.1)) then "err:import-cycle"
  else if anyCycle d.imports (d.imports.map (·.1)) then "err:import-cycle"
  else if d.imports.any (fun (_, is) => is.any fun i => (d.imports.lookup i).isNone) then "err:ref"
  else if hasDup (d.feats.map (·.1)) then "err:dup"
  else if dangling d.feats d.usedFeats then "err:ref"
  else if anyCycle d.feats (d.feats.map (·.1)) then "err:feature-cycle"
  -- the features of a submodule are not looked at by the code (a node under one of them is left out): the
  -- specification counts them
  else if fault = "sub-feature-cycle" && allTypedefs then "err:feature-cycle"
  else if hasDup (d.idents.map (·.1)) then "err:dup"
  else if dangling d.idents d.usedIdents then "err:ref"
  else if anyCycle d.idents (d.idents.map (·.1)) then "err:identity-cycle"
  else if anyCycle d.groups (d.groups.map (·.1)) then "err:grouping-cycle"
  else if dangling d.groups d.usedGroups then "err:ref"
  else if fault = "bad-augment-path" || fault = "uses-augment-abs" then "err:ref"
  else if (d.usedTypes.any fun t => (d.tdefs.lookup t).isNone) then "err:ref"
  else if anyCycle d.tdefs (if allTypedefs then d.tdefs.map (·.1) else d.usedTypes) then "err:typedef-cycle"
  else if fault = "ref-status" && statusViolation j then "err:status"
  else "ok"

/-- what the deviations make of ma's nodes: `deviate add { config false; }` on the container slot — written in a module or
    in a submodule that its module includes —, `deviate add { default "one"; }` on the leaf target -/
def devLine (j : Json) : String :=
  let mods := jarr j "mods"
  let cfgFalse := mods.any fun s => jstr s "deviate" = "add-config" ||
    ((jarr s "subs").any fun u => jstr u "deviate" = "add-config" && ((jarr s "includes").map strOf).contains (jstr u "name"))
  let dflt := mods.any fun s => jstr s "deviate" = "add-default"
  let note := mods.any fun s => jbool s "noteaug"
  "dev:slot-config=" ++ (if cfgFalse then "false" else "true") ++ (if dflt then " target-default=one" else " target-default-none") ++
    " note-aug=" ++ (if note then "true" else "false") ++
    -- the rpc and the notification written in mc's submodule mcs1 (which mc includes) are mc's
    (let sub := mods.any fun s => jstr s "name" = "mc" && ((jarr s "subs").any fun u => jbool u "subrpc" && ((jarr s "includes").map strOf).contains (jstr u "name"))
     let has := mods.any fun s => jstr s "name" = "mc"
     if has then " sub-rpc=" ++ (if sub then "true" else "false") ++ " sub-note=" ++ (if sub then "true" else "false") else "")

def handle (j : Json) : List (String × Json) :=
  let out (v : String) := "V:" ++ v ++ (if v = "ok" then "\n" ++ devLine j else "") ++ "\nskip:no-panic\ndet:stable"
  [("m", out (verdict j false)), ("s", out (verdict j true))]

end YV.Drv.Md
