import YV.Drv.S
import YV.Model.YEnc
import YV.Drv.V
namespace YV.Drv.En
open Lean YV YV.Y YV.SC YV.D YV.E YV.Drv YV.Drv.T YV.Drv.S

def vkOf (base : String) : VK :=
  if base = "empty" then .empty else if base = "boolean" then .bool
  else if base = "int64" || base = "uint64" then .num64
  else if base.startsWith "int" || base.startsWith "uint" then .num32
  else .other

def mkVK (j : Json) : Option VK := some (vkOf (jstr j "base"))

partial def multiNames (j : Json) : List Tok :=
  (if jstr j "k" = "list" || jstr j "k" = "leaf-list" then [bytesOf (jstr j "n")] else []) ++ (jarr j "kids").flatMap multiNames

partial def userOrdered (j : Json) : List Tok :=
  (if jstr j "ordby" = "user" then [bytesOf (jstr j "n")] else []) ++ (jarr j "kids").flatMap userOrdered

/-- the harness's canonical walk: order kept where the schema says ordered-by user, sorted elsewhere -/
partial def walkOrd (user multi : List Tok) (isRoot : Bool) : DN → String
  | .mk n kids vals =>
    -- a list or leaf-list node without entries says what its absence says
    let kids := kids.filter fun | .mk kn kk kv => !(multi.contains kn && kk.isEmpty && kv.isEmpty)
    let ks := kids.map (walkOrd user multi false)
    let ks := if user.contains n then ks else sortStrs ks
    let vs := vals.map Y.hexOf
    let vs := if user.contains n then vs else sortStrs vs
    (if isRoot then "root" else Y.hexOf n) ++
      (if ks.isEmpty then "" else "(" ++ ",".intercalate ks ++ ")") ++
      (if vs.isEmpty then "" else "[" ++ ",".intercalate vs ++ "]")

partial def canonJ : J → String
  | .obj kvs =>
    let ps := kvs.map fun (k, v) => Y.hexOf k ++ ":" ++ canonJ v
    "{" ++ ",".intercalate (sortStrs ps) ++ "}"
  | .arr l => "[" ++ ",".intercalate (l.map canonJ) ++ "]"
  | .str s => "s" ++ Y.hexOf s
  | .num l => "n" ++ strOfTok l
  | .bool b => toString b
  | .null => "null"

/-- the module of every data node: a node carries "mod" where it is augmented in (or defined at the top) by
    another module than its parent's; choices and cases are not on the data path -/
partial def modPaths (inh : String) (path : List Tok) (j : Json) : List (List Tok × Tok) :=
  let md := if jstr j "mod" = "" then inh else jstr j "mod"
  let k := jstr j "k"
  if k = "choice" || k = "case" then (jarr j "kids").flatMap (modPaths md path)
  else
    let p := path ++ [bytesOf (jstr j "n")]
    (p, bytesOf md) :: (jarr j "kids").flatMap (modPaths md p)

def handle (j : Json) : List (String × Json) :=
  match (jarr j "top").mapM (loadSN mkVK) with
  | none => [("m", "compile-err"), ("s", "compile-err")]
  | some top =>
    let root := loadDN (jobj j "data")
    let user := (jarr j "top").flatMap userOrdered
    let multi := (jarr j "top").flatMap multiNames
    let want := walkOrd user multi true root
    let mods := (jarr j "top").flatMap (modPaths "m" [])
    let mo : List Tok → Tok := fun p => (mods.lookup p).getD (bytesOf "m")
    let jr := toJ id true mo top root
    let jp := toJ id false mo top root
    let back (o : Option DN) := match o with
      | some d => if walkOrd user multi true d = want then "same" else "DIFF " ++ walkOrd user multi true d
      | none => "decode-err"
    let m := "\n".intercalate
      ["tree:" ++ want, "rfc7951:bytes:" ++ canonJ jr, "rfc7951:" ++ back (fromJ top jr),
       "json:bytes:" ++ canonJ jp, "json:" ++ back (fromJ top jp), "xml:" ++ back (fromX top 1000 (toX top root))]
    let s := "\n".intercalate
      ["tree:" ++ want, "rfc7951:bytes:" ++ canonJ jr, "rfc7951:same", "json:bytes:" ++ canonJ jp, "json:same", "xml:same"]
    [("m", m), ("s", s)]

end YV.Drv.En

namespace YV.Drv.En
open Lean YV YV.Y YV.T YV.V YV.Drv YV.Drv.T

/-- `matchIdentityref`: only identityref members (through unions) -/
partial def matchIdent : VT → Bytes → Bool
  | .ident vals, v => vals.contains v
  | .union ms, v => ms.any (matchIdent · v)
  | _, _ => false

def tamper2Type (name : String) : VT :=
  let ids : List V.Ident :=
    [⟨bytesOf "idm", bytesOf "base", none⟩, ⟨bytesOf "idm", bytesOf "one", some (bytesOf "idm", bytesOf "base")⟩,
     ⟨bytesOf "idm", bytesOf "two", some (bytesOf "idm", bytesOf "one")⟩, ⟨bytesOf "m", bytesOf "local", some (bytesOf "idm", bytesOf "base")⟩]
  let idref : VT := .ident (identVals ids (bytesOf "m") 10 (bytesOf "idm", bytesOf "base"))
  match name with
  | "idref" => idref
  | "union-id-u16" => .union [idref, .num (.uint 16 [(0, 65535)]) {}]
  | "union-u8-str" => .union [.num (.uint 8 [(0, 255)]) {}, .str (.str [(1, 2)] 0) {} []]
  | _ => .union [.plain .bool, .union [idref, .num (.int 8 [(-128, 127)]) {}]]

/-- `convertToDataNode` for one value: as written if the type accepts it; else, if it is qualified with the
    leaf's own module name and the rest is an identity of an identityref member, that simple form -/
def handleTamper2 (j : Json) : List (String × Json) :=
  let ty := tamper2Type (jstr j "type")
  let v := bytesOf (jstr j "val")
  let pfx := bytesOf "m:"
  let out :=
    if (check ty v).isNone then "ok:" ++ Y.hexOf v
    else if pfx.isPrefixOf v && matchIdent ty (v.drop pfx.length) then "ok:" ++ Y.hexOf (v.drop pfx.length)
    else "err"
  [("m", out), ("s", out)]

end YV.Drv.En

namespace YV.Drv.En
open Lean YV YV.Y YV.T YV.SC YV.D YV.E YV.Drv YV.Drv.T YV.Drv.S

/-- the tamper table: one leaf `x` of the given type, the document {"x": <literal>} -/
def handleFuzz (j : Json) : List (String × Json) :=
  if jstr j "mode" = "tamper2" then handleTamper2 j
  else if jstr j "mode" = "trail" then
    -- a JSON text is one value, with white space around it and nothing else
    let ok := (jstr j "tail").toList.all fun c => c = ' ' || c = '\t' || c = '\n' || c = '\r'
    let out := if ok then "trail:ok" else "trail:err"
    [("m", out), ("s", out)]
  else if jstr j "mode" ≠ "tamper" then [("m", "total"), ("s", "total")]
  else
    let base := jstr j "type"
    let lit := jstr j "lit"
    let jv : J := match jstr j "shape" with
      | "n" => .num (bytesOf lit)
      | "b" => .bool (lit = "true")
      | "null" => .null
      | "arrnull" => .arr [.null]
      | _ => .str (bytesOf (String.ofList ((lit.toList.drop 1).dropLast)))
    let out := match build (baseOf base) [{ restr := none }] with
      | none => "compile-err"
      | some (ty, _) =>
        match values jv with
        | some [v] =>
          -- convertToDataNode: an empty leaf has no value; every value is validated by the leaf's type
          let isEmpty := base = "empty"
          if isEmpty && !v.isEmpty then "err"
          else if validate ty v then "ok:" ++ Y.hexOf v else "err"
        | _ => "err"
    [("m", out), ("s", out)]

end YV.Drv.En

