/-
  Model.YCheck — the per-statement checks of parse/ast.go (`check`, `checkCardinality`), parse/module.go
  (`checkModule`, `checkRevisionOrder`), parse/ntypes.go (`NodeTypeFromName`, Is*Node) and the argument
  lexers of parse/arg.go (after the repairs: each typed argument is checked against its RFC 6020 ABNF rule).
  Node types are the constant names of ntypes.go; the tables are the pinned copies in Model.YTables.
-/
import YV.Model.YParse
import YV.Model.YTables
namespace YV.YC
open YV YV.Y

def strOf (b : Bytes) : String := String.ofList (b.map fun x => Char.ofNat x)

/-- `NodeTypeFromName` -/
def typeOf (kw arg : Bytes) : String :=
  match YT.nodeNames.find? (fun p => p.2 = strOf kw) with
  | some (c, _) =>
    if c = "NodeDeviate" then
      (match strOf arg with
       | "not-supported" => "NodeDeviateNotSupported" | "add" => "NodeDeviateAdd"
       | "delete" => "NodeDeviateDelete" | "replace" => "NodeDeviateReplace" | _ => "NodeDeviate")
    else c
  | none => "NodeUnknown"

def idxOf (t : String) : Nat := (YT.nodeTypes.idxOf? t).getD 0

def between (lo hi t : String) : Bool := idxOf lo < idxOf t && idxOf t < idxOf hi

def isDataNode (t : String) : Bool := between "NodeDataDef" "NodeDataDefEnd" t
def isDeviateNode (t : String) : Bool := between "NodeDeviate" "NodeDeviateEnd" t

/-! ### argument lexers (RFC 6020 §12) -/

def isAlpha (c : Nat) : Bool := (65 ≤ c && c ≤ 90) || (97 ≤ c && c ≤ 122)
def isDig (c : Nat) : Bool := 48 ≤ c && c ≤ 57

/-- identifier = (ALPHA / "_") *(ALPHA / DIGIT / "_" / "-" / "."), not starting with "xml" in any case -/
def identifierOK (s : Bytes) : Bool :=
  match s with
  | [] => false
  | c :: r =>
    (isAlpha c || c = 95) && r.all (fun x => isAlpha x || isDig x || x = 95 || x = 45 || x = 46) &&
      !(match s with
        | a :: b :: d :: _ => (a = 120 || a = 88) && (b = 109 || b = 77) && (d = 108 || d = 76)
        | _ => false)

def splitOnByte (sep : Nat) (s : Bytes) : List Bytes :=
  let rec go (cur : Bytes) (acc : List Bytes) : Bytes → List Bytes
    | [] => (cur.reverse :: acc).reverse
    | c :: r => if c = sep then go [] (cur.reverse :: acc) r else go (c :: cur) acc r
  go [] [] s

/-- [prefix ":"] identifier -/
def idRefOK (s : Bytes) : Bool :=
  match splitOnByte 58 s with
  | [a] => identifierOK a
  | [p, a] => identifierOK p && identifierOK a
  | _ => false

/-- "0" / (non-zero-digit *DIGIT): decimal, no sign, no leading zeros -/
def nonNegDecimal (s : Bytes) : Option Nat :=
  match s with
  | [] => none
  | [48] => some 0
  | c :: r => if 49 ≤ c && c ≤ 57 && r.all isDig then some (s.foldl (fun a x => a * 10 + (x - 48)) 0) else none

def uintOK (bits : Nat) (s : Bytes) : Bool :=
  match nonNegDecimal s with | some n => n < 2 ^ bits | none => false

def intOK (s : Bytes) : Bool :=
  match s with
  | 45 :: r => (match nonNegDecimal r with | some n => n ≤ 2147483648 | none => false)
  | _ => (match nonNegDecimal s with | some n => n ≤ 2147483647 | none => false)

/-- 4DIGIT "-" 2DIGIT "-" 2DIGIT -/
def dateLexOK (s : Bytes) : Bool :=
  match s with
  | [a, b, c, d, 45, e, f, 45, g, h] => [a, b, c, d, e, f, g, h].all isDig
  | _ => false

def dateParts (s : Bytes) : Nat × Nat × Nat :=
  match s with
  | [a, b, c, d, _, e, f, _, g, h] =>
    ((a - 48) * 1000 + (b - 48) * 100 + (c - 48) * 10 + (d - 48), (e - 48) * 10 + (f - 48), (g - 48) * 10 + (h - 48))
  | _ => (0, 0, 0)

def daysIn (y m : Nat) : Nat :=
  if m = 2 then (if (y % 4 = 0 && y % 100 ≠ 0) || y % 400 = 0 then 29 else 28)
  else if m = 4 || m = 6 || m = 9 || m = 11 then 30 else 31

/-- does `time.Parse(RFC3339, date+"T00:00:00Z")` succeed -/
def calendarOK (s : Bytes) : Bool :=
  dateLexOK s && (let (y, m, d) := dateParts s; 1 ≤ m && m ≤ 12 && 1 ≤ d && d ≤ daysIn y m)

def isSepB (c : Nat) : Bool := c = 32 || c = 9 || c = 13 || c = 10

def splitSeps (s : Bytes) : List Bytes :=
  let rec go (cur : Bytes) (acc : List Bytes) : Bytes → List Bytes
    | [] => (if cur.isEmpty then acc else cur.reverse :: acc).reverse
    | c :: r => if isSepB c then go [] (if cur.isEmpty then acc else cur.reverse :: acc) r else go (c :: cur) acc r
  go [] [] s

def absSchemaOK (s : Bytes) : Bool :=
  match splitOnByte 47 s with
  | [] :: (p :: ps) => (p :: ps).all idRefOK
  | _ => false

def descSchemaOK (s : Bytes) : Bool :=
  match splitOnByte 47 s with
  | [] => false
  | p :: ps => !p.isEmpty && (p :: ps).all idRefOK

/-- integer-value / decimal-value as a range boundary: ["-"] digits ["." digits] -/
def numBoundaryOK (s : Bytes) : Bool :=
  let body := match s with | 45 :: r => r | r => r
  let ip := body.takeWhile isDig
  let rest := body.dropWhile isDig
  -- integer-value: "0" or no leading zero
  !ip.isEmpty && !(ip.length > 1 && ip.head? = some 48) && (match rest with
    | [] => true
    | 46 :: fr => !fr.isEmpty && fr.all isDig
    | _ => false)

def splitDotDot (s : Bytes) : List Bytes :=
  let rec go (cur : Bytes) (acc : List Bytes) : Bytes → List Bytes
    | [] => (cur.reverse :: acc).reverse
    | 46 :: 46 :: r => go [] (cur.reverse :: acc) r
    | c :: r => go (c :: cur) acc r
  go [] [] s

/-- `strings.Replace(s, "\r\n", "\n", -1)` -/
def crlfToLf : Bytes → Bytes
  | 13 :: 10 :: r => 10 :: crlfToLf r
  | c :: r => c :: crlfToLf r
  | [] => []

def isOptB (c : Nat) : Bool := c = 32 || c = 9 || c = 10

/-- `strings.Trim(s, " \t\n")` -/
def trimOpt (s : Bytes) : Bytes := ((s.dropWhile isOptB).reverse.dropWhile isOptB).reverse

/-- parse/arg.go `splitBoundaries`: the boundaries of a part, optsep around them removed (and only there) -/
def boundariesOf (part : Bytes) : List Bytes := (splitDotDot (crlfToLf part)).map trimOpt

/-- range-arg: parts separated by "|", each  boundary [".." boundary]; optsep (blanks, tabs, LF, CRLF) around the
    boundaries is removed, white space inside one is not; `min` / `max` as boundaries; `numOK` decides a numeric boundary -/
def rangeLikeOK (numOK : Bytes → Bool) (s : Bytes) : Bool :=
  (splitOnByte 124 s).all fun part =>
    match boundariesOf part with
    | [a] => a = msg "min" || a = msg "max" || numOK a
    | [a, b] => (a = msg "min" || numOK a) && (b = msg "max" || numOK b)
    | _ => false

def fractionDigitsOK (s : Bytes) : Bool :=
  match nonNegDecimal s with | some n => 1 ≤ n && n ≤ 18 | none => false

/-- argument check by argument kind (the constructor `getArgByType` picks) -/
def argOK (kind : String) (a : Bytes) : Bool :=
  match kind with
  | "StringArg" => true
  | "IdArg" => identifierOK a
  | "PrefixArg" => identifierOK a
  | "IdRefArg" => idRefOK a
  | "UriArg" => true                      -- net/url: trusted (DESIGN §4)
  | "BoolArg" => a = msg "true" || a = msg "false"
  | "DateArg" => dateLexOK a
  | "YangVersionArg" => a = msg "1"
  | "EmptyArg" => a.isEmpty
  | "KeyArg" => (let ks := splitSeps a; !ks.isEmpty && ks.all descSchemaOK)   -- nested keys ("c/leaf") are an extension of this code base
  | "UintArg" => uintOK 32 a
  | "IntArg" => intOK a
  | "MaxValueArg" => a = msg "unbounded" || (match nonNegDecimal a with | some n => 1 ≤ n && n < 2 ^ 32 | none => false)
  | "StatusArg" => a = msg "current" || a = msg "obsolete" || a = msg "deprecated"
  | "OrdByArg" => a = msg "system" || a = msg "user"
  | "DeviateArg" => a = msg "add" || a = msg "delete" || a = msg "replace" || a = msg "not-supported"
  | "AbsoluteSchemaArg" => absSchemaOK a
  | "DescendantSchemaArg" => descSchemaOK a
  | "AbsoluteSchemaArg|DescendantSchemaArg" => true      -- augment: the constructor falls back silently; checked by Parse of the chosen kind below
  | "UniqueArg" => (let us := splitSeps a; !us.isEmpty && us.all descSchemaOK)
  | "PatternArg" => true                  -- regexp dialect: trusted (DESIGN §4)
  | "RangeArg" => rangeLikeOK numBoundaryOK a
  | "LengthArg" => rangeLikeOK (fun b => match nonNegDecimal b with | some n => decide (n < 2 ^ 64) | none => false) a
  | "FractionDigitsArg" => fractionDigitsOK a
  | _ => false

def argKindOf (t : String) : String :=
  match YT.argKinds.lookup t with
  | some k => k
  | none => (YT.argKinds.lookup "default").getD "panic"

/-- augment's argument: absolute if that parses, else descendant — and then `Parse` of the chosen one -/
def augmentOK (a : Bytes) : Bool := absSchemaOK a || descSchemaOK a

/-! ### cardinality -/

def typeOfStmt : Stmt → String | .mk kw arg _ _ => typeOf kw arg
def subsOf : Stmt → List Stmt | .mk _ _ _ subs => subs
def argOf : Stmt → Bytes | .mk _ arg _ _ => arg

def count (ts : List String) (t : String) : Nat :=
  if t = "NodeDataDef" then (ts.filter isDataNode).length else (ts.filter (· = t)).length

/-- a node type whose keyword carries a prefix (configd:help, opd:command, …) -/
def isPrefixedType (c : String) : Bool := ((YT.nodeNames.lookup c).getD "").toList.contains ':'

/-- `checkCardinality` (verdict only: the map iteration order decides which message comes first) -/
def cardOK (t : String) (childTypes : List String) : Bool :=
  if t = "NodeUnknown" || t = "NodeRefine" || isDeviateNode t then true
  else
    let row := (YT.cardinalities.lookup t).getD []
    let cellsOK := row.all fun (c, s, e) =>
      let n := count childTypes c
      !((s = "1" && n < 1) || (e = "1" && n > 1))
    -- (no extension cardinality is handed to `Parse`: the statements known by name — configd:*, opd:* — may stand anywhere)
    let childrenOK := childTypes.all fun c =>
      c = "NodeUnknown" || c = "NodeDataDef" || isPrefixedType c || (row.any fun cell => cell.1 = c)
    -- a deviation needs a deviate statement, of whichever kind (the table has one optional cell per kind)
    let deviateOK := t ≠ "NodeDeviation" || childTypes.any isDeviateNode
    cellsOK && childrenOK && deviateOK

/-! ### module / submodule section order and revision order -/

def sectionOf (c : String) : Nat :=
  -- 0 header, 1 linkage, 2 meta, 3 revision, 4 body, 9 unknown (ignored)
  -- (a statement with a prefixed keyword — also one the package knows by name — belongs to no section)
  if c = "NodeUnknown" || isPrefixedType c then 9
  else if c ∈ ["NodeYangVersion", "NodeNamespace", "NodePrefix", "NodeBelongsTo"] then 0
  else if c ∈ ["NodeImport", "NodeInclude"] then 1
  else if c ∈ ["NodeOrganization", "NodeContact", "NodeDescription", "NodeReference"] then 2
  else if c = "NodeRevision" then 3
  else 4

/-- `checkModule` -/
def sectionsOK : Nat → List String → Bool
  | _, [] => true
  | prev, c :: r =>
    let sct := sectionOf c
    if sct = 9 then sectionsOK prev r
    else if sct = 0 then (prev = 0) && sectionsOK prev r
    else (prev ≤ sct) && sectionsOK sct r

def dateKey (s : Bytes) : Nat := let (y, m, d) := dateParts s; y * 10000 + m * 100 + d

/-- `checkRevisionOrder`: every date valid in the calendar and strictly descending -/
def revisionsOK : Option Nat → List Bytes → Bool
  | _, [] => true
  | prev, d :: r =>
    calendarOK d && (match prev with | none => true | some p => dateKey d < p) && revisionsOK (some (dateKey d)) r

/-- `check` of one statement whose substatements have been checked already -/
def checkStmt (s : Stmt) : Bool :=
  let t := typeOfStmt s
  let kids := subsOf s
  let kt := kids.map typeOfStmt
  let modOK :=
    if t = "NodeModule" || t = "NodeSubmodule" then
      sectionsOK 0 kt && revisionsOK none ((kids.filter (fun k => typeOfStmt k = "NodeRevision")).map argOf)
    else true
  let k := argKindOf t
  let aOK := if k = "AbsoluteSchemaArg|DescendantSchemaArg" then augmentOK (argOf s) else argOK k (argOf s)
  -- an unprefixed keyword that is not a YANG keyword is not an extension statement (after the repair)
  let kwOK := match s with
    | .mk kw _ _ _ => (t ≠ "NodeUnknown" || kw.contains 58) && (!isDeviateNode t || kw = msg "deviate")
  kwOK && modOK && k ≠ "panic" && aOK && cardOK t kt

end YV.YC
