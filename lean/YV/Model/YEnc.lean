/-
  Model.YEnc — the JSON / RFC 7951 writer and reader at the level of JSON values, and the XML writer and
  reader at the level of XML elements.

  Mirrors data/encoding/json.go: JSONWriter.encodeJsonChildren / PushName / writeJsonName (module-name stack:
  a name carries "module:" where the module differs from the parent's — several modules, augments) / writeValue (empty → [null] or null,
  boolean and numbers bare — 64-bit numbers as strings in RFC 7951 — everything else a string),
  JSONReader.name / values / unserializedChildren (after the repair an object naming one node twice — "m:x" and
  "x" — is refused, as in XML) / decodeValue (after the repair a number is its literal);
  data/encoding/xml.go: encodeXmlChildren (a list contributes its entries, a leaf-list one element per
  value), unmarshaledXML.unserializedChildren (after the repair all entries of a list are gathered under
  one node) / values; data/encoding/unserialized.go: convertToDataNode / getChildName (a list entry is
  named by the value of its key leaf).
  encoding/json, danos/encoding/rfc7951 and encoding/xml themselves (bytes ↔ values, string escaping) are
  trusted; type validation of values during decoding is C16's.
-/
import YV.Model.YData
namespace YV.E
open YV YV.Y YV.SC YV.D

/-- what the writer needs to know about a leaf type -/
inductive VK | empty | bool | num32 | num64 | other
  deriving Repr, DecidableEq

inductive J where
  | obj (kvs : List (Tok × J))
  | arr (l : List J)
  | str (s : Bytes)
  | num (lit : Bytes)
  | bool (b : Bool)
  | null

def tTrue : Bytes := [116, 114, 117, 101]          -- "true"
def tFalse : Bytes := [102, 97, 108, 115, 101]     -- "false"
def lit (b : Bool) : Bytes := if b then tTrue else tFalse

/-- `writeValue` -/
def writeValue (rfc : Bool) (k : VK) (v : Bytes) : J :=
  match k with
  | .empty => if rfc then .arr [.null] else .null
  | .bool => if v = tTrue then .bool true else if v = tFalse then .bool false else .num v   -- written raw
  | .num32 => .num v
  | .num64 => if rfc then .str v else .num v
  | .other => .str v

/-- `decodeValue` (`none`: "Node requires a value") -/
def decodeValue : J → Option Bytes
  | .str s => some s
  | .bool b => some (lit b)
  | .num l => some l
  | .null => some []
  | _ => none

/-- `JSONReader.values` -/
def values : J → Option (List Bytes)
  | .arr l => l.mapM decodeValue
  | j => (decodeValue j).map fun v => [v]

variable {τ : Type}

/-- the name as written (`PushName` / `CurrentModuleName` / `writeJsonName`): "module:name" where the node's
    module `md` differs from that of its parent `pm` — the root has none, so top-level names are always
    qualified; a list entry has the module of its list -/
def jname (rfc : Bool) (pm md : Tok) (n : Tok) : Tok := if rfc && decide (md ≠ pm) then md ++ [58] ++ n else n

/-- `JSONReader.name`: what follows the first colon -/
def stripMod (n : Tok) : Tok := if n.contains 58 then (n.dropWhile (· ≠ 58)).drop 1 else n

mutual
/-- `encodeJsonChildren` for the children `ds` of the node at schema path `path` (module `pm`) whose schema
    children are `kids`; `mo` gives the module of the node at a path (augmented-in nodes belong to the
    augmenting module) -/
def encKids (kind : τ → VK) (rfc : Bool) (mo : List Tok → Tok) (path : List Tok) (pm : Tok) (kids : List (SN τ)) :
    List DN → List (Tok × J)
  | [] => []
  | d :: r =>
    (match lookup d.name (dataKids kids), d with
     | some (.container _ _ ck), .mk n dk _ =>
       [(jname rfc pm (mo (path ++ [n])) n, J.obj (encKids kind rfc mo (path ++ [n]) (mo (path ++ [n])) ck dk))]
     | some (.list _ _ _ _ _ ck), .mk n es _ =>
       [(jname rfc pm (mo (path ++ [n])) n, J.arr (encEntries kind rfc mo (path ++ [n]) (mo (path ++ [n])) ck es))]
     | some (.leaf _ ty _ _), .mk n _ vals =>
       [(jname rfc pm (mo (path ++ [n])) n, match vals with
          | [] => (if rfc && kind ty = .empty then J.arr [.null] else J.null)
          | v :: _ => writeValue rfc (kind ty) v)]
     | some (.leafList _ ty _ _), .mk n _ vals =>
       [(jname rfc pm (mo (path ++ [n])) n, J.arr (vals.map (writeValue rfc (kind ty))))]
     | _, _ => []) ++ encKids kind rfc mo path pm kids r
def encEntries (kind : τ → VK) (rfc : Bool) (mo : List Tok → Tok) (path : List Tok) (pm : Tok) (kids : List (SN τ)) :
    List DN → List J
  | [] => []
  | .mk _ ek _ :: r => J.obj (encKids kind rfc mo path pm kids ek) :: encEntries kind rfc mo path pm kids r
end

/-- `ToJSON` / `ToRFC7951` -/
def toJ (kind : τ → VK) (rfc : Bool) (mo : List Tok → Tok) (top : List (SN τ)) (root : DN) : J :=
  .obj (encKids kind rfc mo [] [] top root.kids)

mutual
/-- `convertToDataNode` over the members of an object (the children of a container / list entry / root) -/
def decKids (kids : List (SN τ)) : List (Tok × J) → Option (List DN)
  | [] => some []
  | (k, j) :: r => do
    let n := stripMod k
    -- (after the repair) "module:name" and "name" are one node: given twice, "too many elements"
    if r.any (fun kv => stripMod kv.1 = n) then none
    let here ← (match lookup n (dataKids kids), j with
      | some (.container _ _ ck), .obj kvs => (decKids ck kvs).map fun ks => DN.mk n ks []
      | some (.list _ keys _ _ _ ck), .arr es => (decEntries ck (keys.headD []) es).map fun es' => DN.mk n es' []
      | some (.leaf ..), j => (values j).map fun vs => DN.mk n [] vs
      | some (.leafList ..), j => (values j).map fun vs => DN.mk n [] vs
      | _, _ => none)
    let rest ← decKids kids r
    pure (here :: rest)
/-- the elements of a list array: each an object, named by the value of its key member (`getChildName`) -/
def decEntries (kids : List (SN τ)) (key : Tok) : List J → Option (List DN)
  | [] => some []
  | .obj kvs :: r => do
    let ks ← decKids kids kvs
    let kv ← (ks.find? fun (d : DN) => d.name = key).bind fun d => d.vals.head?
    let rest ← decEntries kids key r
    -- (after the repair) two entries of one key value are refused
    if rest.any (fun e => e.name = kv) then none else
    pure (DN.mk kv ks [] :: rest)
  | _ :: _ => none
end

def fromJ (top : List (SN τ)) : J → Option DN
  | .obj kvs => (decKids top kvs).map fun ks => DN.mk [] ks []
  | _ => none

/-! ### XML -/

inductive X where
  | el (name : Tok) (text : Bytes) (kids : List X)

mutual
/-- `encodeXmlChildren` -/
def xencKids (kids : List (SN τ)) : List DN → List X
  | [] => []
  | d :: r =>
    (match lookup d.name (dataKids kids), d with
     | some (.container _ _ ck), .mk n dk _ => [X.el n [] (xencKids ck dk)]
     | some (.list _ _ _ _ _ ck), .mk n es _ => xencEntries ck n es
     | some (.leaf ..), .mk n _ vals => vals.map fun v => X.el n v []
     | some (.leafList ..), .mk n _ vals => vals.map fun v => X.el n v []
     | _, _ => []) ++ xencKids kids r
def xencEntries (kids : List (SN τ)) (lname : Tok) : List DN → List X
  | [] => []
  | .mk _ ek _ :: r => X.el lname [] (xencKids kids ek) :: xencEntries kids lname r
end

def toX (top : List (SN τ)) (root : DN) : X := .el root.name [] (xencKids top root.kids)

/-- gather the elements of one name, in document order (`fields[name]` in unserializedChildren) -/
def gather (n : Tok) : List X → List X
  | [] => []
  | .el m t k :: r => if m = n then .el m t k :: gather n r else gather n r

/-- two entries of one name (= key value) -/
def dupEntry : List DN → Bool
  | [] => false
  | d :: r => r.any (fun e => e.name = d.name) || dupEntry r

def elName : X → Tok | .el n _ _ => n
def elText : X → Bytes | .el _ t _ => t
def elKids : X → List X | .el _ _ k => k

/-- `unserializedChildren` + `convertToDataNode`: the elements of a parent, first occurrence of each name
    deciding its place; a leaf must occur once -/
def xdecKids (kids : List (SN τ)) : Nat → List X → Option (List DN)
  | 0, _ => none
  | fuel + 1, xs =>
    let names := (xs.map elName).eraseDups
    names.mapM fun n =>
      let group := gather n xs
      match lookup n (dataKids kids) with
      | some (.container _ _ ck) =>
        (match group with
         | [x] => (xdecKids ck fuel (elKids x)).map fun ks => DN.mk n ks []
         | _ => none)
      | some (.list _ keys _ _ _ ck) =>
        (group.mapM fun x => do
          let ks ← xdecKids ck fuel (elKids x)
          let kv ← (ks.find? fun (d : DN) => d.name = keys.headD []).bind fun d => d.vals.head?
          pure (DN.mk kv ks [])).bind fun es =>
            -- (after the repair) two entries of one key value are refused
            if dupEntry es then none else some (DN.mk n es [])
      | some (.leaf ..) =>
        (match group with
         | [x] => some (DN.mk n [] [elText x])
         | _ => none)
      | some (.leafList ..) => some (DN.mk n [] (group.map elText))
      | _ => none

def fromX (top : List (SN τ)) (fuel : Nat) : X → Option DN
  | .el n _ ks => (xdecKids top fuel ks).map fun ds => DN.mk n ds []

end YV.E
