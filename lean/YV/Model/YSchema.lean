/-
  Model.YSchema — the compiled schema tree and `Validate(ctx, path, tokens)` (schema path validation).

  Mirrors schema/tree.go: node.addChild / addChildren / includeChildrenOf (children of a choice are the
  data nodes of all its cases, so a node's child map holds its own data children plus — flattened through
  any depth of choice/case — those of its choices), tree / container / list / leaf / leafList `Validate`,
  schema/errors.go NewPathInvalidError / NewMissingChildError / NewMissingValueError and the error of the
  value's type (`Type.Validate`, Model.YTypes).
-/
import YV.Model.YTypes
namespace YV.SC
open YV YV.Y YV.T

abbrev Tok := Y.Bytes

/-- the schema tree, generic in the representation `τ` of leaf types (the model instantiates it with
    `T.Ty`, the specification with `TS.STy`) -/
inductive SN (τ : Type) where
  | container (name : Tok) (presence : Bool) (kids : List (SN τ))
  | list (name : Tok) (keys : List Tok) (min : Nat) (max : Option Nat) (uniques : List (List (List Tok))) (kids : List (SN τ))
  | leaf (name : Tok) (ty : τ) (dflt : Option Bytes) (mandatory : Bool)
  | leafList (name : Tok) (ty : τ) (min : Nat) (max : Option Nat)
  | choice (name : Tok) (mandatory : Bool) (dflt : Option Tok) (cases : List (SN τ))
  | case (name : Tok) (kids : List (SN τ))

/-- what the walker needs to know about a type -/
structure TySem (τ : Type) where
  accepts : τ → Tok → Bool
  isEmpty : τ → Bool

def modelSem : TySem Ty := { accepts := validate, isEmpty := fun t => match t with | .empty => true | _ => false }

/-- a union of types: accepted iff a member accepts; "empty" only as the single member -/
def unionSem {τ : Type} (sem : TySem τ) : TySem (List τ) :=
  { accepts := fun ts v => ts.any fun t => sem.accepts t v,
    isEmpty := fun ts => match ts with | [t] => sem.isEmpty t | _ => false }

variable {τ : Type}

def SN.name : SN τ → Tok
  | .container n _ _ => n | .list n _ _ _ _ _ => n | .leaf n _ _ _ => n
  | .leafList n _ _ _ => n | .choice n _ _ _ => n | .case n _ => n

def SN.isChoice : SN τ → Bool | .choice .. => true | _ => false
def SN.isCase : SN τ → Bool | .case .. => true | _ => false

/-! ### the child map (`node.children`) -/

mutual
/-- `addChildren` of a container / list / case / tree: a choice contributes the children of the choice
    (which are the data children of its cases), everything else is added itself -/
def dataKids : List (SN τ) → List (SN τ)
  | [] => []
  | .choice _ _ _ cases :: r => caseKids cases ++ dataKids r
  | x :: r => x :: dataKids r
/-- the child map of a choice (`NewChoice`): a case contributes its children -/
def caseKids : List (SN τ) → List (SN τ)
  | [] => []
  | .case _ kids :: r => dataKids kids ++ caseKids r
  | x :: r => x :: caseKids r        -- cannot occur: the compiler wraps a shorthand case
end

/-- map lookup; the compiler rejects duplicate names (`addChild`: "redefinition of name") so the first
    match is the only one -/
def lookup (name : Tok) : List (SN τ) → Option (SN τ)
  | [] => none
  | x :: r => if x.name = name then some x else lookup name r

def SN.kids : SN τ → List (SN τ)
  | .container _ _ k => k | .list _ _ _ _ _ k => k | .case _ k => k | .choice _ _ _ c => c
  | _ => []

/-- `n.children` -/
def SN.children : SN τ → List (SN τ)
  | .choice _ _ _ c => caseKids c
  | n => dataKids n.kids

/-! ### errors -/

inductive VErr where
  | pathInvalid (path : List Tok) (elem : Tok)     -- unknown-element, path = walked prefix
  | missingChild (path : List Tok)                 -- missing-element "<any child>"
  | missingValue (path : List Tok)                 -- invalid-value "Node requires a value"
  | badValue (path : List Tok)                     -- invalid-value from the type, path ends in the value
  | emptyValue (path : List Tok) (value : Tok)     -- unknown-element "Value found for empty leaf"
  | internal (msg : String)
  deriving Repr, DecidableEq

/-- `Type.Validate(ctx, path, value)` as seen by the path walker; `path` already ends in the value -/
def typeCheck (sem : TySem τ) (ty : τ) (path : List Tok) (v : Tok) : Except VErr Unit :=
  if sem.isEmpty ty then (if v.isEmpty then .ok () else .error (.emptyValue path.dropLast v))
  else if sem.accepts ty v then .ok () else .error (.badValue path)

/-- leaf / leaf-list `Validate` -/
def leafTail (sem : TySem τ) (allowInc : Bool) (ty : τ) (isLeaf : Bool) (path p : List Tok) : Except VErr Unit :=
  match p with
  | [] => if (isLeaf && sem.isEmpty ty) || allowInc then .ok () else .error (.missingValue path)
  | h :: t =>
    -- (after the repair) the value is checked first, then that nothing follows it
    match typeCheck sem ty (path ++ [h]) h with
    | .error e => .error e
    | .ok () =>
      match t with
      | [] => .ok ()
      | x :: _ => .error (.pathInvalid (path ++ [h]) x)

/-- `c.Validate(ctx, path, p)` for the node `c`; `path` = what has been walked (ends in c's name) -/
def vnode (sem : TySem τ) (allowInc : Bool) (n : SN τ) (path : List Tok) (p : List Tok) : Except VErr Unit :=
  match n with
  | .leaf _ ty _ _ => leafTail sem allowInc ty true path p
  | .leafList _ ty _ _ => leafTail sem allowInc ty false path p
  | .container _ presence _ =>
    (match p with
     | [] => if presence || allowInc then .ok () else .error (.missingChild path)
     | h :: t =>
       match lookup h n.children with
       | none => .error (.pathInvalid path h)
       | some c => vnode sem allowInc c (path ++ [h]) t)
  | .list _ keys _ _ _ _ =>
    (match p with
     | [] => if allowInc then .ok () else .error (.missingValue path)
     | kv :: rest =>
       match keys.head?.bind fun k => lookup k n.children with
       | none => .error (.internal "list without key leaf")
       | some (.leaf _ kty _ _) =>
         -- `k.Validate(ctx, path, []string{p[0]})`: the key leaf checks the value
         match leafTail sem allowInc kty true path [kv] with
         | .error e => .error e
         | .ok () =>
           match rest with
           | [] => .ok ()
           | h :: t =>
             match lookup h n.children with
             | none => .error (.pathInvalid (path ++ [kv]) h)
             | some c => vnode sem allowInc c (path ++ [kv, h]) t
       | some _ => .error (.internal "key is not a leaf"))
  | .choice .. | .case .. =>
    -- choice.Validate / ycase.Validate exist in the code but are never reached from a tree: a choice is
    -- kept in `node.choices`, never in a child map
    .error (.internal "choice or case is not a data node")
termination_by p.length
decreasing_by all_goals (simp_wf; try omega)

/-- `tree.Validate` / `modelSet.Validate` -/
def vtree (sem : TySem τ) (allowInc : Bool) (top : List (SN τ)) (p : List Tok) : Except VErr Unit :=
  match p with
  | [] => .ok ()
  | h :: t =>
    match lookup h (dataKids top) with
    | none => .error (.pathInvalid [] h)
    | some c => vnode sem allowInc c [h] t

end YV.SC
