/-
  Model.XParse — the parsers generated from xpath.y (must/when) and leafref.y (leafref path), as
  recursive-descent transcriptions that emit the same postfix instruction list as the grammar actions.

  goyacc reports no conflicts for either grammar (checked on every run by tools/gen), so the LALR(1)
  parser accepts exactly the context-free language, detects a syntax error at the first token that
  cannot extend a viable prefix, and performs the actions in post-order of the (unique) parse tree.
  Mirrors: productions and actions of xpath.y / leafref.y; ProgBuilder.CodeBltin (arity check),
  UnsupportedName, CodePathOper; CommonLex.Error and CreateProgram (position arithmetic).
-/
import YV.Model.XLex
namespace YV.XP

open YV YV.X YV.XL

/-- instructions as the listing shows them -/
inductive PI where
  | store | or | and | eq | ne | lt | gt | le | ge | add | sub | mul | div | mod | negate | union
  | evalLocPath | filterExprEnd
  | lit (s : List Rune) | num (x : SF) | bltin (f : Fn)
  | pathRoot | pathDotDot | namePush (pfx loc : List Rune)
  | predicatesStart | predicatesEnd | predStart | predEnd | pathSetCurrent | deref
  | lrefPredStart | lrefPredEnd | lrefEquals
  deriving DecidableEq, Repr

structure PSt where
  toks : List LexedTok
  pos : Nat := 0                 -- index of the lookahead token
  out : List PI := []            -- reversed
  strict : Bool := false         -- spec variant: no `( )` primary expression
  perr : Option String := none   -- ProgBuilder.parseErr set by an action (unsupported name, arity)
  deriving Repr

inductive PErr | syntax (pos : Nat) (actionErrFirst : Bool) | fuel
  deriving Repr, DecidableEq

abbrev P := Except PErr

def peekTok (s : PSt) : Tok := match s.toks with | [] => .eof | t :: _ => t.tok
def adv (s : PSt) : PSt := { s with toks := s.toks.drop 1, pos := s.pos + 1 }
def emit (s : PSt) (i : PI) : PSt := { s with out := i :: s.out }
def setErr (s : PSt) (m : String) : PSt := { s with perr := some m }
def synErr {α} (s : PSt) : P α := .error (.syntax s.pos s.perr.isSome)

def expectCh (c : Char) (s : PSt) : P PSt :=
  if peekTok s = .ch (chr c) then pure (adv s) else synErr s

/-- can the token start a Step (NAMETEST, '.', '..', axis name, '@')? -/
def startsStep (t : Tok) : Bool :=
  match t with
  | .nametest .. | .dotdot | .axisname _ => true
  | .ch c => c = chr '.' || c = chr '@'
  | _ => false

def binOpAt (level : Nat) (t : Tok) : Option PI :=
  match level, t with
  | 0, .or => some .or
  | 1, .and => some .and
  | 2, .eq => some .eq
  | 2, .ne => some .ne
  | 3, .lt => some .lt
  | 3, .gt => some .gt
  | 3, .le => some .le
  | 3, .ge => some .ge
  | 4, .ch c => if c = chr '+' then some .add else if c = chr '-' then some .sub else none
  | 5, .ch c => if c = chr '*' then some .mul else none
  | 5, .div => some .div
  | 5, .mod => some .mod
  | _, _ => none

mutual
/-- Expr at binary level `lvl` (0 = OrExpr … 5 = MultiplicativeExpr, 6 = UnaryExpr) -/
def pLevel : Nat → Nat → PSt → P PSt
  | 0, _, _ => .error .fuel
  | f + 1, lvl, s =>
    if lvl ≥ 6 then pUnary f s
    else do
      let s ← pLevel f (lvl + 1) s
      pLevelRest f lvl s
def pLevelRest : Nat → Nat → PSt → P PSt
  | 0, _, _ => .error .fuel
  | f + 1, lvl, s =>
    match binOpAt lvl (peekTok s) with
    | none => pure s
    | some i => do
      let s ← pLevel f (lvl + 1) (adv s)
      pLevelRest f lvl (emit s i)
def pUnary : Nat → PSt → P PSt
  | 0, _ => .error .fuel
  | f + 1, s =>
    if peekTok s = .ch (chr '-') then do
      let s ← pUnary f (adv s)
      pure (emit s .negate)
    else do
      let s ← pPath f s
      pUnionRest f s
def pUnionRest : Nat → PSt → P PSt
  | 0, _ => .error .fuel
  | f + 1, s =>
    if peekTok s = .ch (chr '|') then do
      let s ← pPath f (adv s)
      pUnionRest f (emit s .union)
    else pure s
/-- PathExpr -/
def pPath : Nat → PSt → P PSt
  | 0, _ => .error .fuel
  | f + 1, s =>
    match peekTok s with
    | .ch c =>
      if c = chr '(' then pFilterPath f s
      else if c = chr '/' then do
        -- AbsoluteLocationPath: Root | Root RelativeLocationPath
        let s := emit (adv s) .pathRoot
        let s ← if startsStep (peekTok s) then pRelPath f s else pure s
        pure (emit s .evalLocPath)
      else if c = chr '.' || c = chr '@' then do
        let s ← pRelPath f s
        pure (emit s .evalLocPath)
      else synErr s
    | .dblslash => do
      -- AbbreviatedAbsoluteLocationPath: DoubleSlash RelativeLocationPath
      let s := setErr (adv s) "// unsupported"
      let s ← pRelPath f s
      pure (emit s .evalLocPath)
    | .nametest .. | .dotdot | .axisname _ => do
      let s ← pRelPath f s
      pure (emit s .evalLocPath)
    | .currentfunc => do
      let s ← expectCh '(' (adv s)
      let s ← expectCh ')' s
      let s := emit s .pathSetCurrent
      let s ← if peekTok s = .ch (chr '/') then pRelPath f (adv s) else pure s
      pure (emit s .evalLocPath)
    | .dereffunc => do
      let s ← expectCh '(' (adv s)
      let s ← pLocationPath f s
      let s ← expectCh ')' s
      let s := emit s .deref
      let s ← if peekTok s = .ch (chr '/') then pRelPath f (adv s) else pure s
      pure (emit s .evalLocPath)
    | .lit _ | .num _ | .func _ | .textfunc | .nodetype _ => pFilterPath f s
    | _ => synErr s
/-- LocationPath without the trailing evalLocPath (argument of deref) -/
def pLocationPath : Nat → PSt → P PSt
  | 0, _ => .error .fuel
  | f + 1, s =>
    match peekTok s with
    | .ch c =>
      if c = chr '/' then
        let s := emit (adv s) .pathRoot
        if startsStep (peekTok s) then pRelPath f s else pure s
      else if c = chr '.' || c = chr '@' then pRelPath f s
      else synErr s
    | .dblslash => pRelPath f (setErr (adv s) "// unsupported")
    | .nametest .. | .dotdot | .axisname _ => pRelPath f s
    | .currentfunc => do
      let s ← expectCh '(' (adv s)
      let s ← expectCh ')' s
      let s := emit s .pathSetCurrent
      if peekTok s = .ch (chr '/') then pRelPath f (adv s) else pure s
    | .dereffunc => do
      let s ← expectCh '(' (adv s)
      let s ← pLocationPath f s
      let s ← expectCh ')' s
      let s := emit s .deref
      if peekTok s = .ch (chr '/') then pRelPath f (adv s) else pure s
    | _ => synErr s
/-- FilterExpr, then optionally ('/' | '//') RelativeLocationPath -/
def pFilterPath : Nat → PSt → P PSt
  | 0, _ => .error .fuel
  | f + 1, s => do
    let s ← pPrimary f s
    let s ← pPreds f s
    match peekTok s with
    | .ch c =>
      if c = chr '/' then do
        let s ← pRelPath f (adv (emit s .filterExprEnd))
        pure (emit s .evalLocPath)
      else pure s
    | .dblslash => do
      let s ← pRelPath f (setErr (adv (emit s .filterExprEnd)) "// unsupported")
      pure (emit s .evalLocPath)
    | _ => pure s
def pPrimary : Nat → PSt → P PSt
  | 0, _ => .error .fuel
  | f + 1, s =>
    match peekTok s with
    | .ch c =>
      if c = chr '(' then
        let s := adv s
        if peekTok s = .ch (chr ')') then (if s.strict then synErr s else pure (adv s))
        else do
          let s ← pLevel f 0 s
          expectCh ')' s
      else synErr s
    | .lit l => pure (emit (adv s) (.lit l))
    | .num x => pure (emit (adv s) (.num x))
    | .nodetype _ => pure (setErr (adv s) "NodeType unsupported")
    | .textfunc => do
      let s ← expectCh '(' (adv s)
      let s ← expectCh ')' s
      pure s                       -- unreachable with the shipped function table ("text" is not in it)
    | .func fn => do
      let s ← expectCh '(' (adv s)
      let fin (s : PSt) (n : Nat) : PSt :=
        let s := if n ≠ fn.sig.1.length then setErr s "wrong number of arguments" else s
        emit s (.bltin fn)
      if peekTok s = .ch (chr ')') then pure (fin (adv s) 0)
      else do
        let s ← pLevel f 0 s
        if peekTok s = .ch (chr ')') then pure (fin (adv s) 1)
        else do
          let s ← expectCh ',' s
          let s ← pLevel f 0 s
          if peekTok s = .ch (chr ')') then pure (fin (adv s) 2)
          else do
            let s ← expectCh ',' s
            let s ← pLevel f 0 s
            let s ← expectCh ')' s
            pure (fin s 3)
    | _ => synErr s
/-- Predicate* (each: '[' PREDSTART Expr ']' PREDEND) -/
def pPreds : Nat → PSt → P PSt
  | 0, _ => .error .fuel
  | f + 1, s =>
    if peekTok s = .ch (chr '[') then do
      let s ← pLevel f 0 (emit (adv s) .predStart)
      let s ← expectCh ']' s
      pPreds f (emit s .predEnd)
    else pure s
/-- RelativeLocationPath: Step (('/' | '//') Step)* -/
def pRelPath : Nat → PSt → P PSt
  | 0, _ => .error .fuel
  | f + 1, s => do
    let s ← pStep f s
    match peekTok s with
    | .ch c => if c = chr '/' then pRelPath f (adv s) else pure s
    | .dblslash => pRelPath f (setErr (adv s) "// unsupported")
    | _ => pure s
def pStep : Nat → PSt → P PSt
  | 0, _ => .error .fuel
  | f + 1, s =>
    let nodeTest (s : PSt) : P PSt :=
      match peekTok s with
      | .nametest p l => do
        let s := emit (adv s) (.namePush p l)
        if peekTok s = .ch (chr '[') then do
          let s ← pPreds f (emit s .predicatesStart)
          pure (emit s .predicatesEnd)
        else pure s
      | _ => synErr s
    match peekTok s with
    | .ch c =>
      if c = chr '.' then pure (adv s)                       -- CodePathOper('.') emits nothing
      else if c = chr '@' then nodeTest (setErr (adv s) "@ unsupported")
      else synErr s
    | .dotdot => pure (emit (adv s) .pathDotDot)
    | .axisname _ =>
      let s := adv s
      if peekTok s = .dblcolon then nodeTest (setErr (adv s) "AxisName unsupported") else synErr s
    | .nametest .. => nodeTest s
    | _ => synErr s
end

/-- `top: Expr` then end of input -/
def parseExprToks (strict : Bool) (toks : List LexedTok) : P PSt := do
  let s ← pLevel (24 * toks.length + 24) 0 { toks := toks, strict := strict }
  if peekTok s = .eof then pure (emit s .store) else synErr s

/-! ### leafref.y -/

def lNodeId (s : PSt) : P PSt :=
  match peekTok s with
  | .nametest p l => pure (emit (adv s) (.namePush p l))
  | _ => synErr s

def lExpectTok (t : Tok) (s : PSt) : P PSt := if peekTok s = t then pure (adv s) else synErr s

/-- 1*(".." "/") inside a predicate, then *(node-identifier "/") node-identifier -/
def lKeyPath : Nat → Bool → PSt → P PSt
  | 0, _, _ => .error .fuel
  | f + 1, seenUp, s =>
    match peekTok s with
    | .dotdot => do
      let s ← expectCh '/' (emit (adv s) .pathDotDot)
      lKeyPath f true s
    | .nametest .. =>
      if !seenUp then synErr s
      else lKeyNames f s
    | _ => synErr s
where
  lKeyNames : Nat → PSt → P PSt
    | 0, _ => .error .fuel
    | f + 1, s => do
      let s ← lNodeId s
      if peekTok s = .ch (chr '/') then lKeyNames f (adv s) else pure s

def lPred (f : Nat) (s : PSt) : P PSt := do
  -- '[' already seen
  let s := emit (adv s) .lrefPredStart
  let s ← lNodeId s
  let s ← lExpectTok .eq s
  let s := emit s .lrefEquals
  let s ← match peekTok s with | .func _ => pure (adv s) | _ => synErr s
  let s ← expectCh '(' s
  let s ← expectCh ')' s
  let s ← expectCh '/' s
  let s ← lKeyPath f false s
  let s ← expectCh ']' s
  pure (emit s .lrefPredEnd)

/-- node-identifier *path-predicate *("/" node-identifier *path-predicate) -/
def lSteps : Nat → PSt → P PSt
  | 0, _ => .error .fuel
  | f + 1, s => do
    let s ← lNodeId s
    lAfterNode f s
where
  lAfterNode : Nat → PSt → P PSt
    | 0, _ => .error .fuel
    | f + 1, s =>
      if peekTok s = .ch (chr '[') then do
        let s ← lPred f s
        lAfterNode f s
      else if peekTok s = .ch (chr '/') then lSteps f (adv s)
      else pure s

/-- 1+ predicates -/
def lPreds : Nat → PSt → P PSt
  | 0, _ => .error .fuel
  | f + 1, s => do
    let s ← lPred f s
    if peekTok s = .ch (chr '[') then lPreds f s else pure s

/-- DescendantPath: NodeIdentifier | NodeIdentifier AbsolutePathStep | NodeIdentifier Pred+ AbsolutePathStep
    (RFC 6020: descendant-path = node-identifier [*path-predicate absolute-path]) -/
def lDesc (f : Nat) (s : PSt) : P PSt := do
  let s ← lNodeId s
  if peekTok s = .ch (chr '[') then do
    let s ← lPreds f s
    let s ← expectCh '/' s
    lSteps f s
  else if peekTok s = .ch (chr '/') then lSteps f (adv s)
  else pure s

def lRel : Nat → PSt → P PSt
  | 0, _ => .error .fuel
  | f + 1, s =>
    match peekTok s with
    | .dotdot => do
      let s ← expectCh '/' (emit (adv s) .pathDotDot)
      match peekTok s with
      | .dotdot => lRel f s
      | _ => lDesc f s
    | _ => synErr s

def parseLeafrefToks (toks : List LexedTok) : P PSt := do
  let fuel := 8 * toks.length + 8
  let s0 : PSt := { toks := toks }
  let s ← match peekTok s0 with
    | .ch c => if c = chr '/' then lSteps fuel (emit (adv s0) .pathRoot) else synErr s0
    | .dotdot => lRel fuel s0
    | _ => synErr s0
  let s := emit s .evalLocPath
  if peekTok s = .eof then pure (emit s .store) else synErr s

/-! ### New…Machine: lexing + parsing + CreateProgram -/

inductive Built where
  | machine (prog : List PI)
  | error (mark : Int) (kind : String)     -- `mark`: the index at which CreateProgram splits the expression
  | panic (why : String)
  | diverge
  deriving Repr

/-- `fixed` selects the repaired arithmetic of `CommonLex.Error` (see restLen). -/
def build (strict : Bool) (fixed : Bool) (g : Grammar) (pm : PfxMap) (bs : List Nat) : Built :=
  if bs.isEmpty then .error 0 "empty"
  else
    let (toks, _) := lexAll strict g pm bs
    let r := match g with
      | .leafref => parseLeafrefToks toks
      | _ => parseExprToks strict toks
    match r with
    | .error .fuel => .diverge
    | .error (.syntax pos actionFirst) =>
      -- yacc calls Error("syntax error") with the lexer positioned after token `pos`; if an action
      -- has already set parseErr, Error() returns early and lineAtErr stays empty
      let rest := if actionFirst then 0 else match toks[pos]? with
        | some t => if fixed then t.restFixed else t.rest
        | none => 0
      -- the lexer error is set only if the parser actually read the ERR token
      let lexErr : Bool := match toks[pos]? with | some t => t.lerr | none => false
      let mark : Int := Int.ofNat bs.length - Int.ofNat rest
      if mark < 0 then .panic "slice bounds out of range in CreateProgram"
      else .error mark (if lexErr then "lex" else "syntax")
    | .ok s =>
      match s.perr with
      | some m => .error (Int.ofNat bs.length) ("parse:" ++ m)      -- lineAtErr is empty: mark at the end
      | none => .machine s.out.reverse

end YV.XP
