/-
  Model.YUses — expansion of uses / refine / augment into plain data definitions.

  Mirrors compile/grouping.go: expandGroupings / applyUsesToNode (the body of the grouping is expanded,
  its nodes are cloned into the using module, the uses' if-feature is added to every node it introduces
  (inheritCommonProperties), refines are applied by path (applyChange: the refined statement replaces the
  one the node has), augments written under the uses add their — expanded — children to their target),
  expandModule / applyAugment for module-level augments (the added nodes keep the namespace of the module
  the augment is written in), getDataDescendant (path steps are schema node identifiers: choices and cases
  count).  Cycles among groupings have been rejected before (validateGrouping); `fuel` bounds the walk.
  when on uses and augment, and refines of must / description / reference are outside this model.
-/
import YV.Model.YCfg
namespace YV.C
open YV YV.Y YV.SC

inductive RProp | dflt | mandatory | presence | minEl | maxEl | config
  deriving Repr, DecidableEq

structure Refine where
  path : List Tok
  prop : RProp
  val : Bytes
  deriving Repr

inductive G where
  | container (name : Tok) (m : Meta) (presence : Bool) (kids : List G)
  | list (name : Tok) (m : Meta) (keys : List Tok) (mn mx : Option Nat) (kids : List G)
  | leaf (name : Tok) (m : Meta) (mandatory : Bool) (dflt : Option Bytes)
  | leafList (name : Tok) (m : Meta) (mn mx : Option Nat)
  | choice (name : Tok) (m : Meta) (mandatory : Bool) (dflt : Option Tok) (cases : List G)
  | case (name : Tok) (m : Meta) (kids : List G)
  | uses (gname : Tok) (iff : List Tok) (refines : List Refine) (augs : List G)
  | aug (path : List Tok) (iff : List Tok) (kids : List G)     -- only as an element of `augs`
  | stat (st : Nat) (inner : G)      -- a uses (or an augment under a uses) that carries a status statement

/-- write the refined statement (applyChange with cardinality 1: replace) -/
def setRefine (a : A) (p : RProp) (v : Bytes) : A :=
  match p, a with
  | .config, a => a.setMeta { a.meta with cfg := some (v = msg "true") }
  | .dflt, .leaf n m md _ => .leaf n m md (some v)
  | .dflt, .choice n m md _ c => .choice n m md (some v) c
  | .mandatory, .leaf n m _ d => .leaf n m (v = msg "true") d
  | .mandatory, .choice n m _ d c => .choice n m (v = msg "true") d c
  | .presence, .container n m _ k => .container n m true k
  | .minEl, .list n m ks _ mx k => .list n m ks (some (natOfBytes v)) mx k
  | .maxEl, .list n m ks mn _ k => .list n m ks mn (some (natOfBytes v)) k
  | .minEl, .leafList n m _ mx => .leafList n m (some (natOfBytes v)) mx
  | .maxEl, .leafList n m mn _ => .leafList n m mn (some (natOfBytes v))
  | _, a => a

def addIff (fs : List Tok) (a : A) : A := a.setMeta { a.meta with iff := a.meta.iff ++ fs }

/-- the status written on a uses / augment goes to every node it introduces that has none of its own
    (`inheritCommonProperties` appends the statement; the first status statement of a node counts) -/
def addSt (st : Nat) (a : A) : A := if a.meta.st.isSome then a else a.setMeta { a.meta with st := some st }

def A.kids : A → List A
  | .container _ _ _ k => k | .list _ _ _ _ _ k => k | .choice _ _ _ _ c => c | .case _ _ k => k
  | _ => []

def A.setKids (ks : List A) : A → A
  | .container n m p _ => .container n m p ks | .list n m k a b _ => .list n m k a b ks
  | .choice n m md d _ => .choice n m md d ks | .case n m _ => .case n m ks
  | a => a

def A.augmentable : A → Bool
  | .container .. => true | .list .. => true | .choice .. => true | .case .. => true
  | _ => false

/-- `getDataDescendant` + a change at the node found: walk `path` through `nodes` (fuel = path length) -/
def atPath (change : A → Except String A) : List Tok → List A → Except String (List A)
  | [], _ => .error "Invalid path"
  | _ :: _, [] => .error "Invalid path"
  | p :: rest, a :: r =>
    if a.name = p then
      (if rest.isEmpty then change a
       else (atPath change rest a.kids).map a.setKids).map (· :: r)
    else (atPath change (p :: rest) r).map (a :: ·)
termination_by path nodes => (path.length, nodes.length)

def applyRefine (nodes : List A) (r : Refine) : Except String (List A) :=
  atPath (fun a => pure (setRefine a r.prop r.val)) r.path nodes

/-- `applyAugment`: add the children to the target -/
def addKidsAt (nodes : List A) (path : List Tok) (kids : List A) : Except String (List A) :=
  atPath (fun a => if a.augmentable then pure (a.setKids (a.kids ++ kids))
                   else .error "Augment not permitted for target") path nodes

abbrev GEnv := List (Tok × List G)

/-- one augment written under a uses: expand its children, add them at the target -/
def applyUsesAug (expand : List G → Except String (List A)) (acc : List A) : G → Except String (List A)
  | .aug path aiff aks => do
    let aks' ← expand aks
    addKidsAt acc path (aks'.map (addIff aiff))
  | .stat st (.aug path aiff aks) => do
    let aks' ← expand aks
    addKidsAt acc path ((aks'.map (addIff aiff)).map (addSt st))
  | _ => pure acc

mutual
/-- `expandGroupings` over a list of data definitions in the module `ns` -/
def expandKids (env : GEnv) (ns : Tok) : Nat → List G → Except String (List A)
  | 0, _ => .error "Grouping cycle detected"
  | _ + 1, [] => pure []
  | fuel + 1, g :: r => do
    let here ← expandOne env ns fuel g
    let rest ← expandKids env ns fuel r
    pure (here ++ rest)
/-- one definition; a uses yields the nodes it introduces (`applyUsesToNode`) -/
def expandOne (env : GEnv) (ns : Tok) : Nat → G → Except String (List A)
  | 0, _ => .error "Grouping cycle detected"
  | fuel + 1, .container n m p ks => do
    let ks' ← expandKids env ns fuel ks
    pure [A.container n { m with ns := ns } p ks']
  | fuel + 1, .list n m keys mn mx ks => do
    let ks' ← expandKids env ns fuel ks
    pure [A.list n { m with ns := ns } keys mn mx ks']
  | _ + 1, .leaf n m md d => pure [A.leaf n { m with ns := ns } md d]
  | _ + 1, .leafList n m mn mx => pure [A.leafList n { m with ns := ns } mn mx]
  | fuel + 1, .choice n m md d cs => do
    let cs' ← expandKids env ns fuel cs
    pure [A.choice n { m with ns := ns } md d cs']
  | fuel + 1, .case n m ks => do
    let ks' ← expandKids env ns fuel ks
    pure [A.case n { m with ns := ns } ks']
  | fuel + 1, .uses gn iff refines augs =>
    match env.lookup gn with
    | none => .error "Unknown grouping"
    | some body => do
      let kids ← expandKids env ns fuel body
      let kids ← refines.foldlM applyRefine (kids.map (addIff iff))
      augs.foldlM (applyUsesAug (expandKids env ns fuel)) kids
  | _ + 1, .aug .. => pure []
  | fuel + 1, .stat st g => do
    let r ← expandOne env ns fuel g
    pure (r.map (addSt st))
end

structure ModAug where
  ns : Tok                 -- the module the augment is written in
  path : List Tok
  iff : List Tok
  kids : List G
  st : Option Nat := none  -- a status statement on the augment

/-- `expandModule`: the body, then the augments in the order written -/
def expandModule (env : GEnv) (fuel : Nat) (body : List G) (augs : List ModAug) : Except String (List A) := do
  let b ← expandKids env (msg "m") fuel body
  augs.foldlM (fun acc a => do
    let ks ← expandKids env a.ns fuel a.kids
    addKidsAt acc a.path ((ks.map (addIff a.iff)).map fun k => match a.st with | some s => addSt s k | none => k)) b

/-- a definition without uses, as an element of `G` -/
def embed : A → G
  | .container n m p ks => .container n m p (embedAll ks)
  | .list n m k a b ks => .list n m k a b (embedAll ks)
  | .leaf n m md d => .leaf n m md d
  | .leafList n m a b => .leafList n m a b
  | .choice n m md d cs => .choice n m md d (embedAll cs)
  | .case n m ks => .case n m (embedAll ks)
where embedAll : List A → List G
  | [] => []
  | a :: r => embed a :: embedAll r

end YV.C
