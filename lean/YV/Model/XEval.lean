/-
  Model.XEval — the scalar part of the XPath stack machine of sdcio/yang-parser.

  Mirrors (file → definitions here):
    xpath/datum.go      bool/lit/num/nodeset/datumSlice Boolean/Literal/Number      → Datum.toBool/toLit/toNum
    xpath/datum.go      numberFromString                                            → numberFromString
    xpath/program.go    CodeNum/CodeLiteral/Add..Mod/Negate/And/Or/Eq/Ne/Lt..Ge,
                        CodeBltin + convertArgType, Store                           → Instr, step, run
    xpath/context.go    popCompareEqualityAndPush, popCompareRelationalAndPush,
                        compareNodesetsAndPush, compareAndPushNodesets, compareWorker → cmpEquality, cmpRelational, …
    xpath/symbol.go     function bodies                                              → bltin
    xpath/grammars/expr/xpath.y   postfix emission order of the actions              → compile
  Go panics are modelled as `Except.error`; `context.Run` recovers them into a run error.
-/
import YV.Base.SF64
namespace YV.X

open YV

abbrev Str := List Char

/-- what a data-tree operand evaluates to (the mock `Entry` contract, DESIGN §4) -/
inductive Datum where
  | bool (b : Bool)
  | lit (s : Str)
  | num (x : SF)
  | emptyNodeset                 -- absent node
  | slice (ds : List Str)        -- leaf-list: datum slice of literal datums
  | invalid
  deriving DecidableEq, Repr, Inhabited

/-! ## strings -/

def isXWS (c : Char) : Bool := c = ' ' || c = '\t' || c = '\n' || c = '\r'

def trimXWS (s : Str) : Str :=
  ((s.dropWhile isXWS).reverse.dropWhile isXWS).reverse

def isDigit (c : Char) : Bool := '0' ≤ c && c ≤ '9'

def digitsVal (ds : Str) : Nat := ds.foldl (fun a c => a * 10 + (c.toNat - '0'.toNat)) 0

/-- XPath `Number ::= Digits ('.' Digits?)? | '.' Digits`, with an optional leading '-'.
    Returns (neg, intDigits, fracDigits). -/
def parseXNumber (s : Str) : Option (Bool × Str × Str) :=
  let (neg, r) := match s with | '-' :: r => (true, r) | r => (false, r)
  let ip := r.takeWhile isDigit
  let r1 := r.dropWhile isDigit
  match r1 with
  | [] => if ip.isEmpty then none else some (neg, ip, [])
  | '.' :: r2 =>
    let fp := r2.takeWhile isDigit
    let r3 := r2.dropWhile isDigit
    if !r3.isEmpty then none
    else if ip.isEmpty && fp.isEmpty then none
    else some (neg, ip, fp)
  | _ => none

def joinSp : List Str → Str
  | [] => []
  | [a] => a
  | a :: rest => a ++ ' ' :: joinSp rest

/-- datum.go `numberFromString` (after the fix: XPath Number grammar on the XPath-whitespace-trimmed
    string; `Infinity` / `-Infinity` are kept because the repository's own tests pin them). -/
def numberFromString (s : Str) : SF :=
  let t := trimXWS s
  if t = "Infinity".toList then .inf false
  else if t = "-Infinity".toList then .inf true
  else match parseXNumber t with
    | none => .nan
    | some (neg, ip, fp) => SF.ofDecimal neg (digitsVal (ip ++ fp)) (Int.neg (Int.ofNat fp.length))

/-- plain decimal rendering of d·10^p (d > 0, no trailing zeros unless p ≥ 0) -/
def renderDecimal (d : Nat) (p : Int) : Str :=
  let ds := (toString d).toList
  if p ≥ 0 then ds ++ List.replicate p.toNat '0'
  else
    let k := (Int.neg p).toNat          -- number of fractional digits
    if ds.length > k then
      ds.take (ds.length - k) ++ '.' :: ds.drop (ds.length - k)
    else
      '0' :: '.' :: (List.replicate (k - ds.length) '0' ++ ds)

/-- datum.go `numDatum.Literal` (after the fix: `strconv.FormatFloat(x,'f',-1,64)`) -/
def numToLit : SF → Str
  | .nan => "NaN".toList
  | .inf false => "Infinity".toList
  | .inf true => "-Infinity".toList
  | .fin s m e =>
    if m = 0 then "0".toList
    else
      let (d, p) := SF.shortest m e
      (if s then ['-'] else []) ++ renderDecimal d p

namespace Datum

def toBool : Datum → Except String Bool
  | .bool b => .ok b
  | .lit s => .ok (!s.isEmpty)
  | .num x => .ok (!(x.isZero || x.isNaN))          -- after the fix: NaN is false
  | .emptyNodeset => .ok false
  | .slice ds => .ok (!ds.isEmpty)
  | .invalid => .error "Unable to convert datum to a boolean."

def toLit : Datum → Except String Str
  | .bool b => .ok (if b then "true".toList else "false".toList)
  | .lit s => .ok s
  | .num x => .ok (numToLit x)
  | .emptyNodeset => .ok []
  | .slice ds => .ok (joinSp ds)
  | .invalid => .error "Unable to convert datum to a string."

def toNum : Datum → Except String SF
  | .bool b => .ok (if b then SF.one else SF.zero)
  | .lit s => .ok (numberFromString s)
  | .num x => .ok x
  | .emptyNodeset => .ok (numberFromString [])
  | .slice ds => .ok (numberFromString (joinSp ds))
  | .invalid => .error "Unable to convert datum to a number."

def isBool : Datum → Bool | .bool _ => true | _ => false
def isNum : Datum → Bool | .num _ => true | _ => false
def isLit : Datum → Bool | .lit _ => true | _ => false
def isNodeset : Datum → Bool | .emptyNodeset => true | _ => false
def isSlice : Datum → Bool | .slice _ => true | _ => false

end Datum

/-! ## function table -/

inductive ArgKind | obj | num | lit | bool | nodeset
  deriving DecidableEq, Repr

inductive RetKind | num | lit | bool | nodeset
  deriving DecidableEq, Repr

inductive Fn
  | boolean | ceiling | concat | contains | reMatch | count | current | xfalse | floor | last
  | localName | normalizeSpace | not | number | round | position | startsWith | string
  | stringLength | substring | substringAfter | substringBefore | sum | translate | xtrue
  deriving DecidableEq, Repr

def Fn.name : Fn → String
  | .boolean => "boolean" | .ceiling => "ceiling" | .concat => "concat" | .contains => "contains"
  | .reMatch => "re-match" | .count => "count" | .current => "current" | .xfalse => "false"
  | .floor => "floor" | .last => "last" | .localName => "local-name"
  | .normalizeSpace => "normalize-space" | .not => "not" | .number => "number" | .round => "round"
  | .position => "position" | .startsWith => "starts-with" | .string => "string"
  | .stringLength => "string-length" | .substring => "substring"
  | .substringAfter => "substring-after" | .substringBefore => "substring-before" | .sum => "sum"
  | .translate => "translate" | .xtrue => "true"

def Fn.all : List Fn :=
  [.boolean, .ceiling, .concat, .contains, .reMatch, .count, .current, .xfalse, .floor, .last,
   .localName, .normalizeSpace, .not, .number, .round, .position, .startsWith, .string,
   .stringLength, .substring, .substringAfter, .substringBefore, .sum, .translate, .xtrue]

def Fn.ofName (n : String) : Option Fn := Fn.all.find? (fun f => f.name == n)

/-- the hand-written copy of `xpathFunctionTable`; `Props/C01` proves it equal to the regenerated
    `Gen.fnTable`, so a change of arity / argument kind / return kind in the source breaks a proof. -/
def Fn.sig : Fn → List ArgKind × RetKind
  | .boolean => ([.obj], .bool)
  | .ceiling => ([.num], .num)
  | .concat => ([.lit, .lit], .lit)
  | .contains => ([.lit, .lit], .bool)
  | .reMatch => ([.lit, .lit], .bool)
  | .count => ([.nodeset], .num)
  | .current => ([], .nodeset)
  | .xfalse => ([], .bool)
  | .floor => ([.num], .num)
  | .last => ([], .num)
  | .localName => ([.nodeset], .lit)
  | .normalizeSpace => ([.lit], .lit)
  | .not => ([.bool], .bool)
  | .number => ([.obj], .num)
  | .round => ([.num], .num)
  | .position => ([], .num)
  | .startsWith => ([.lit, .lit], .bool)
  | .string => ([.obj], .lit)
  | .stringLength => ([.lit], .num)
  | .substring => ([.lit, .num, .num], .lit)
  | .substringAfter => ([.lit, .lit], .lit)
  | .substringBefore => ([.lit, .lit], .lit)
  | .sum => ([.nodeset], .num)
  | .translate => ([.lit, .lit, .lit], .lit)
  | .xtrue => ([], .bool)

/-- functions in the scalar sub-language of property C01 -/
def Fn.scalar : Fn → Bool
  | .reMatch | .count | .current | .localName | .sum => false
  | _ => true

/-! ## string helpers used by function bodies -/

def isPrefixOf : Str → Str → Bool
  | [], _ => true
  | _ :: _, [] => false
  | a :: as, b :: bs => a = b && isPrefixOf as bs

/-- index (in characters) of the first occurrence of `pat` in `s` (Go `strings.Index`) -/
def indexOf (pat : Str) : Str → Option Nat
  | [] => if pat.isEmpty then some 0 else none
  | c :: cs =>
    if isPrefixOf pat (c :: cs) then some 0
    else (indexOf pat cs).map (· + 1)

def fields (s : Str) : List Str :=
  let rec go (cur : Str) (acc : List Str) : Str → List Str
    | [] => (if cur.isEmpty then acc else cur.reverse :: acc).reverse
    | c :: cs =>
      if isXWS c then go [] (if cur.isEmpty then acc else cur.reverse :: acc) cs
      else go (c :: cur) acc cs
  go [] [] s

/-- symbol.go `round` (after the fix) : floor(x), +1 when the fraction is ≥ .5; sign of zero kept -/
def xround (x : SF) : SF :=
  match x with
  | .fin s m _ =>
    if m = 0 then x
    else
      let f := SF.floor x
      let r := if SF.fge (SF.sub x f) (SF.ofDecimal false 5 (-1)) then SF.add f SF.one else f
      if r.isZero then SF.zero s else r
  | _ => x

/-- symbol.go `substring` (after the fix): characters at 1-based positions p with
    round(start) ≤ p < round(start)+round(len), all comparisons in IEEE arithmetic -/
def substringM (s : Str) (a b : SF) : Str :=
  let ra := xround a
  let lim := SF.add ra (xround b)
  let rec go (i : Nat) : Str → Str
    | [] => []
    | c :: cs =>
      let p := SF.ofNat i
      if SF.fge p ra && SF.flt p lim then c :: go (i + 1) cs else go (i + 1) cs
  go 1 s

def lookupIdx (c : Char) : Str → Option Nat
  | [] => none
  | d :: ds => if c = d then some 0 else (lookupIdx c ds).map (· + 1)

/-- symbol.go `translate` (after the fix) -/
def translateM (src frm to : Str) : Str :=
  src.filterMap fun c =>
    match lookupIdx c frm with
    | none => some c
    | some i => to[i]?

/-! ## instructions -/

inductive BinOp | add | sub | mul | div | mod | and | or | eq | ne | lt | gt | le | ge
  deriving DecidableEq, Repr

inductive Instr
  | numpush (x : SF)
  | litpush (s : Str)
  | envpush (id : Nat)           -- the (Name-Push…; evalLocPath) group; the path part is C02's model
  | negate
  | bin (op : BinOp)
  | bltin (f : Fn)
  | store
  deriving DecidableEq, Repr

abbrev Env := Nat → Datum

structure St where
  stack : List Datum := []
  res : Option Datum := none
  deriving Repr

abbrev M := Except String

def pop (σ : List Datum) : M (Datum × List Datum) :=
  match σ with
  | [] => .error "Stack underflow"
  | d :: r => .ok (d, r)

def popNum (σ : List Datum) : M (SF × List Datum) := do
  let (d, r) ← pop σ; let x ← d.toNum; pure (x, r)

def popBool (σ : List Datum) : M (Bool × List Datum) := do
  let (d, r) ← pop σ; let x ← d.toBool; pure (x, r)

/-- symbol.go function bodies; arguments are already converted by `convertArg` -/
def bltin (f : Fn) (args : List Datum) : M Datum :=
  match f, args with
  | .boolean, [a] => do pure (.bool (← a.toBool))
  | .ceiling, [a] => do pure (.num (SF.ceil (← a.toNum)))
  | .floor, [a] => do pure (.num (SF.floor (← a.toNum)))
  | .round, [a] => do pure (.num (xround (← a.toNum)))
  | .concat, [a, b] => do pure (.lit ((← a.toLit) ++ (← b.toLit)))
  | .contains, [a, b] => do pure (.bool ((indexOf (← b.toLit) (← a.toLit)).isSome))
  | .startsWith, [a, b] => do pure (.bool (isPrefixOf (← b.toLit) (← a.toLit)))
  | .xfalse, [] => pure (.bool false)
  | .xtrue, [] => pure (.bool true)
  | .last, [] => pure (.num SF.one)
  | .position, [] => pure (.num SF.one)
  | .not, [a] => do pure (.bool (!(← a.toBool)))
  | .number, [a] => do pure (.num (← a.toNum))
  | .string, [a] => do pure (.lit (← a.toLit))
  | .stringLength, [a] => do pure (.num (SF.ofNat (← a.toLit).length))
  | .normalizeSpace, [a] => do pure (.lit (joinSp (fields (← a.toLit))))
  | .substring, [a, b, c] => do pure (.lit (substringM (← a.toLit) (← b.toNum) (← c.toNum)))
  | .substringAfter, [a, b] => do
    let s ← a.toLit; let p ← b.toLit
    if p.isEmpty then pure (.lit s)
    else match indexOf p s with
      | some i => pure (.lit (s.drop (i + p.length)))
      | none => pure (.lit [])
  | .substringBefore, [a, b] => do
    let s ← a.toLit; let p ← b.toLit
    match indexOf p s with
      | some i => pure (.lit (s.take i))
      | none => pure (.lit [])
  | .translate, [a, b, c] => do pure (.lit (translateM (← a.toLit) (← b.toLit) (← c.toLit)))
  | _, _ => .error "unsupported builtin in the scalar model"

/-- program.go `convertArgType` -/
def convertArg (k : ArgKind) (d : Datum) : M Datum :=
  match k with
  | .obj => if d = .invalid then .error "takes OBJECT" else pure d
  | .num => if d.isNum then pure d else do pure (.num (← d.toNum))
  | .lit => if d.isLit then pure d else do pure (.lit (← d.toLit))
  | .bool => if d.isBool then pure d else do pure (.bool (← d.toBool))
  | .nodeset => if d.isNodeset then pure d else .error "takes NODESET"

/-- pop one argument per kind, the kinds given last-argument-first -/
def popArgsRev : List ArgKind → List Datum → M (List Datum × List Datum)
  | [], σ => pure ([], σ)
  | k :: ks, σ => do
    let (d, σ1) ← pop σ
    let d' ← convertArg k d
    let (ds, σ2) ← popArgsRev ks σ1
    pure (d' :: ds, σ2)

/-- pop `ks.length` arguments (pushed left to right, so the last one is on top), converting each -/
def popArgs (ks : List ArgKind) (σ : List Datum) : M (List Datum × List Datum) := do
  let (rest, σ1) ← popArgsRev ks.reverse σ
  pure (rest.reverse, σ1)

def numCmp (op : BinOp) (a b : SF) : Bool :=
  match op with
  | .eq => SF.feq a b
  | .ne => SF.fne a b
  | .lt => SF.flt a b
  | .gt => SF.fgt a b
  | .le => SF.fle a b
  | .ge => SF.fge a b
  | _ => false

/-- operand as a comparison set: `none` = scalar, `some l` = node-set-like with string-values `l` -/
def asSet : Datum → Option (List Str)
  | .emptyNodeset => some []
  | .slice ds => some ds
  | _ => none

/-- scalar-vs-scalar equality (`=` / `!=`): bool wins over number wins over string -/
def eqScalar (op : BinOp) (a b : Datum) : M Bool := do
  if a.isBool || b.isBool then
    let x ← a.toBool; let y ← b.toBool
    pure (if op = .eq then x == y else x != y)
  else if a.isNum || b.isNum then
    pure (numCmp op (← a.toNum) (← b.toNum))
  else
    let x ← a.toLit; let y ← b.toLit
    pure (if op = .eq then x == y else x != y)

/-- context.go popCompareEqualityAndPush / popCompareRelationalAndPush with
    compareNodesetsAndPush (after the fix: datum slices are treated as node-sets of their elements,
    and a boolean operand compares against the set's emptiness). `a` is the left operand. -/
def compare (op : BinOp) (a b : Datum) : M Bool := do
  let rel := op ≠ .eq && op ≠ .ne
  match asSet a, asSet b with
  | none, none =>
    if rel then pure (numCmp op (← a.toNum) (← b.toNum)) else eqScalar op a b
  | sa, sb =>
    if sa = some [] || sb = some [] then pure false     -- an empty set: false for every operator
    else if a.isBool || b.isBool then
      -- boolean vs node-set: the set is converted as a whole
      if rel then pure (numCmp op (← (Datum.bool (← a.toBool)).toNum) (← (Datum.bool (← b.toBool)).toNum))
      else eqScalar op (.bool (← a.toBool)) (.bool (← b.toBool))
    else
      let la : List Datum := match sa with | some l => l.map .lit | none => [a]
      let lb : List Datum := match sb with | some l => l.map .lit | none => [b]
      la.anyM fun x => lb.anyM fun y =>
        if rel then do pure (numCmp op (← x.toNum) (← y.toNum)) else eqScalar op x y

def stepBin (op : BinOp) (σ : List Datum) : M (List Datum) :=
  match op with
  | .add => do let (b, σ) ← popNum σ; let (a, σ) ← popNum σ; pure (.num (SF.add a b) :: σ)
  | .sub => do let (b, σ) ← popNum σ; let (a, σ) ← popNum σ; pure (.num (SF.sub a b) :: σ)
  | .mul => do let (b, σ) ← popNum σ; let (a, σ) ← popNum σ; pure (.num (SF.mul a b) :: σ)
  | .div => do let (b, σ) ← popNum σ; let (a, σ) ← popNum σ; pure (.num (SF.div a b) :: σ)
  | .mod => do let (b, σ) ← popNum σ; let (a, σ) ← popNum σ; pure (.num (SF.fmod a b) :: σ)
  | .and => do let (b, σ) ← popBool σ; let (a, σ) ← popBool σ; pure (.bool (a && b) :: σ)
  | .or => do let (b, σ) ← popBool σ; let (a, σ) ← popBool σ; pure (.bool (a || b) :: σ)
  | op => do
    let (b, σ) ← pop σ; let (a, σ) ← pop σ
    pure (.bool (← compare op a b) :: σ)

def step (env : Env) (i : Instr) (st : St) : M St :=
  match i with
  | .numpush x => pure { st with stack := .num x :: st.stack }
  | .litpush s => pure { st with stack := .lit s :: st.stack }
  | .envpush id => pure { st with stack := env id :: st.stack }
  | .negate => do let (a, σ) ← popNum st.stack; pure { st with stack := .num (SF.neg a) :: σ }
  | .bin op => do pure { st with stack := ← stepBin op st.stack }
  | .bltin f => do
    let (args, σ) ← popArgs f.sig.1 st.stack
    let v ← bltin f args
    pure { st with stack := v :: σ }
  | .store => do
    let (d, σ) ← pop st.stack
    if !σ.isEmpty then .error "Storing result when stack is not empty."
    else pure { stack := [], res := some d }

def exec (env : Env) : List Instr → St → M St
  | [], st => pure st
  | i :: is, st => do let st' ← step env i st; exec env is st'

def run (env : Env) (prog : List Instr) : M (Option Datum) := do
  let st ← exec env prog {}
  pure st.res

/-! ## expressions and their compilation (the yacc actions emit postfix code) -/

inductive Expr where
  | num (x : SF)
  | lit (s : Str)
  | env (id : Nat)
  | neg (e : Expr)
  | bin (op : BinOp) (a b : Expr)
  | call (f : Fn) (args : List Expr)
  deriving Repr

mutual
def compile : Expr → List Instr
  | .num x => [.numpush x]
  | .lit s => [.litpush s]
  | .env id => [.envpush id]
  | .neg e => compile e ++ [.negate]
  | .bin op a b => compile a ++ compile b ++ [.bin op]
  | .call f args => compileList args ++ [.bltin f]
def compileList : List Expr → List Instr
  | [] => []
  | e :: es => compile e ++ compileList es
end

end YV.X
