/-
  Model.XTables — the tables and grammar productions the hand-written XPath models were transcribed
  from, pinned as data.  `Props/C04` proves each equal to the fact `tools/gen` re-extracts from /repo on
  every run, so a changed function signature, token constant, token-map entry, name list or grammar
  production/action breaks a proof obligation (and the correspondence then looks for a failing input).
-/
import YV.Model.XParse
namespace YV.XT
open YV YV.X

def kindName : ArgKind → String
  | .obj => "obj" | .num => "num" | .lit => "lit" | .bool => "bool" | .nodeset => "nodeset"
def retName : RetKind → String
  | .num => "num" | .lit => "lit" | .bool => "bool" | .nodeset => "nodeset"

/-- the model's function table in the translator's format -/
def fnTableOfModel : List (String × List String × String) :=
  Fn.all.map fun f => (f.name, f.sig.1.map kindName, retName f.sig.2)

def insertSorted (x : String × List String × String) : List (String × List String × String) → List (String × List String × String)
  | [] => [x]
  | y :: ys => if x.1 < y.1 then x :: y :: ys else y :: insertSorted x ys

def fnTableSorted : List (String × List String × String) := fnTableOfModel.foldr insertSorted []

def tokenConsts : List (String × Nat) := [("EOF", 0), ("ERR", 61441), ("NUM", 61442), ("FUNC", 61443), ("DOTDOT", 61444), ("DBLSLASH", 61445), ("DBLCOLON", 61446), ("GT", 61447), ("GE", 61448), ("LT", 61449), ("LE", 61450), ("EQ", 61451), ("NE", 61452), ("NODETYPE", 61453), ("AXISNAME", 61454), ("NAMETEST", 61455), ("LITERAL", 61456), ("OR", 61457), ("AND", 61458), ("MOD", 61459), ("DIV", 61460), ("TEXTFUNC", 61461), ("CURRENTFUNC", 61462), ("DEREFFUNC", 61463)]
def exprTokenMap : List String := ["AND", "AXISNAME", "CURRENTFUNC", "DBLCOLON", "DBLSLASH", "DEREFFUNC", "DIV", "DOTDOT", "EOF", "EQ", "ERR", "FUNC", "GE", "GT", "LE", "LITERAL", "LT", "MOD", "NAMETEST", "NE", "NODETYPE", "NUM", "OR", "TEXTFUNC"]
def leafrefTokenMap : List String := ["DOTDOT", "EOF", "EQ", "ERR", "FUNC", "NAMETEST"]
def pathEvalTokenMap : List String := ["AND", "AXISNAME", "DBLCOLON", "DBLSLASH", "DIV", "DOTDOT", "EOF", "EQ", "ERR", "FUNC", "GE", "GT", "LE", "LITERAL", "LT", "MOD", "NAMETEST", "NE", "NODETYPE", "NUM", "OR"]
def nodeTypeNames : List String := ["comment", "node", "processing-instruction", "text"]
def axisNames : List String := ["ancestor-or-self", "attribute", "child", "descendant", "descendant-or-self", "following", "following-sibling", "namespace", "parent", "preceding", "preceding-sibling", "self"]
def operatorNames : List String := ["and", "div", "mod", "or"]
def notOperatorAfter : List String := ["(", "*", "+", ",", "-", "/", "@", "[", "xutils.AND", "xutils.DBLCOLON", "xutils.DBLSLASH", "xutils.DIV", "xutils.EOF", "xutils.EQ", "xutils.GE", "xutils.GT", "xutils.LE", "xutils.LT", "xutils.MOD", "xutils.NE", "xutils.OR", "|"]
def exprRules : List String := [
  "top -> Expr @act(CodeFn,'store')",
  "Expr -> OrExpr",
  "OrExpr -> AndExpr",
  "OrExpr -> OrExpr OR AndExpr @act(CodeFn,'or')",
  "AndExpr -> EqualityExpr",
  "AndExpr -> AndExpr AND EqualityExpr @act(CodeFn,'and')",
  "EqualityExpr -> RelationalExpr",
  "EqualityExpr -> EqualityExpr EQ RelationalExpr @act(CodeFn,'eq')",
  "EqualityExpr -> EqualityExpr NE RelationalExpr @act(CodeFn,'ne')",
  "RelationalExpr -> AdditiveExpr",
  "RelationalExpr -> RelationalExpr LT AdditiveExpr @act(CodeFn,'lt')",
  "RelationalExpr -> RelationalExpr GT AdditiveExpr @act(CodeFn,'gt')",
  "RelationalExpr -> RelationalExpr LE AdditiveExpr @act(CodeFn,'le')",
  "RelationalExpr -> RelationalExpr GE AdditiveExpr @act(CodeFn,'ge')",
  "AdditiveExpr -> MultiplicativeExpr",
  "AdditiveExpr -> AdditiveExpr '+' MultiplicativeExpr @act(CodeFn,'add')",
  "AdditiveExpr -> AdditiveExpr '-' MultiplicativeExpr @act(CodeFn,'sub')",
  "MultiplicativeExpr -> UnaryExpr",
  "MultiplicativeExpr -> MultiplicativeExpr '*' UnaryExpr @act(CodeFn,'mul')",
  "MultiplicativeExpr -> MultiplicativeExpr DIV UnaryExpr @act(CodeFn,'div')",
  "MultiplicativeExpr -> MultiplicativeExpr MOD UnaryExpr @act(CodeFn,'mod')",
  "UnaryExpr -> UnionExpr",
  "UnaryExpr -> '-' UnaryExpr %prec UNARYMINUS @act(CodeFn,'negate')",
  "UnionExpr -> PathExpr",
  "UnionExpr -> UnionExpr '|' PathExpr @act(CodeFn,'union')",
  "PathExpr -> LocationPath @act(CodeFn,'evalLocPath')",
  "PathExpr -> FilterExpr",
  "PathExpr -> CompoundFilterExpr '/' RelativeLocationPath @act(CodeFn,'evalLocPath')",
  "PathExpr -> CompoundFilterExpr DoubleSlash RelativeLocationPath @act(CodeFn,'evalLocPath')",
  "CompoundFilterExpr -> FilterExpr @act(CodeFn,'filterExprEnd')",
  "FilterExpr -> PrimaryExpr",
  "FilterExpr -> FilterExpr Predicate",
  "PrimaryExpr -> '(' Expr ')'",
  "PrimaryExpr -> '(' ')'",
  "PrimaryExpr -> LITERAL @act(CodeLiteral)",
  "PrimaryExpr -> NUM @act(CodeNum)",
  "PrimaryExpr -> TEXTFUNC '(' ')' @act(Text)",
  "PrimaryExpr -> FUNC '(' ')' @act(CodeBltin)",
  "PrimaryExpr -> FUNC '(' Expr ')' @act(CodeBltin)",
  "PrimaryExpr -> FUNC '(' Expr ',' Expr ')' @act(CodeBltin)",
  "PrimaryExpr -> FUNC '(' Expr ',' Expr ',' Expr ')' @act(CodeBltin)",
  "PrimaryExpr -> NODETYPE @act(UnsupportedName)",
  "LocationPath -> RelativeLocationPath",
  "LocationPath -> AbsoluteLocationPath",
  "LocationPath -> CurrentRelativeLocationPath",
  "LocationPath -> DerefRelativeLocationPath",
  "LocationPath -> CountRelativeLocationPath",
  "AbsoluteLocationPath -> Root",
  "AbsoluteLocationPath -> Root RelativeLocationPath",
  "AbsoluteLocationPath -> AbbreviatedAbsoluteLocationPath",
  "CurrentRelativeLocationPath -> CurrentFunc",
  "CurrentRelativeLocationPath -> CurrentFunc '/' RelativeLocationPath",
  "CurrentFunc -> CURRENTFUNC '(' ')' @act(CodePathSetCurrent)",
  "DerefRelativeLocationPath -> DerefFunc",
  "DerefRelativeLocationPath -> DerefFunc '/' RelativeLocationPath",
  "DerefFunc -> DEREFFUNC '(' LocationPath ')' @act(Deref)",
  "CountRelativeLocationPath -> CountFunc",
  "CountRelativeLocationPath -> CountFunc '/' RelativeLocationPath",
  "CountFunc -> COUNTFUNC '(' LocationPath ')' @act(Count)",
  "Root -> '/' @act(CodePathOper)",
  "RelativeLocationPath -> Step",
  "RelativeLocationPath -> RelativeLocationPath '/' Step",
  "RelativeLocationPath -> AbbreviatedRelativeLocationPath",
  "Step -> AxisSpecifier NodeTest PredicatesStart PredicateSet PredicatesEnd",
  "Step -> AxisSpecifier NodeTest",
  "Step -> NodeTest PredicatesStart PredicateSet PredicatesEnd",
  "Step -> NodeTest",
  "Step -> AbbreviatedStep",
  "AxisSpecifier -> AXISNAME DBLCOLON @act(UnsupportedName)",
  "AxisSpecifier -> AbbreviatedAxisSpecifier",
  "NodeTest -> NAMETEST @act(CodeNameTest)",
  "PredicateSet -> Predicate",
  "PredicateSet -> PredicateSet Predicate",
  "PredicatesStart -> @act(PredicatesStart)",
  "PredicatesEnd -> @act(PredicatesEnd)",
  "Predicate -> PredicateStart PredicateExpr PredicateEnd",
  "PredicateStart -> '[' @act(CodePredStart)",
  "PredicateExpr -> Expr",
  "PredicateEnd -> ']' @act(CodePredEnd)",
  "AbbreviatedAbsoluteLocationPath -> DoubleSlash RelativeLocationPath",
  "AbbreviatedRelativeLocationPath -> RelativeLocationPath DoubleSlash Step",
  "AbbreviatedStep -> '.' @act(CodePathOper)",
  "AbbreviatedStep -> DOTDOT @act(CodePathOper)",
  "AbbreviatedAxisSpecifier -> '@' @act(UnsupportedName,'not yet implemented')",
  "DoubleSlash -> DBLSLASH @act(UnsupportedName,'not yet implemented')"
]
def leafrefRules : List String := [
  "top -> Expr @act(CodeFn,'store')",
  "Expr -> AbsolutePath @act(CodeFn,'evalLocPath')",
  "Expr -> RelativePath @act(CodeFn,'evalLocPath')",
  "AbsolutePath -> Root NodeIdentifier PathPredicate1Plus AbsolutePathStep",
  "AbsolutePath -> Root NodeIdentifier PathPredicate1Plus",
  "AbsolutePath -> Root NodeIdentifier AbsolutePathStep",
  "AbsolutePath -> Root NodeIdentifier",
  "AbsolutePathStep -> '/' NodeIdentifier PathPredicate1Plus AbsolutePathStep",
  "AbsolutePathStep -> '/' NodeIdentifier PathPredicate1Plus",
  "AbsolutePathStep -> '/' NodeIdentifier AbsolutePathStep",
  "AbsolutePathStep -> '/' NodeIdentifier",
  "Root -> '/' @act(CodePathOper)",
  "RelativePath -> DotDot '/' RelativePath",
  "RelativePath -> DotDot '/' DescendantPath",
  "DescendantPath -> NodeIdentifier PathPredicate1Plus AbsolutePathStep",
  "DescendantPath -> NodeIdentifier AbsolutePathStep",
  "DescendantPath -> NodeIdentifier",
  "PathPredicate1Plus -> StartPred PathEqualityExpr EndPred PathPredicate1Plus",
  "PathPredicate1Plus -> StartPred PathEqualityExpr EndPred",
  "StartPred -> '[' @act(CodeFn,'lrefPredStart')",
  "EndPred -> ']' @act(CodeFn,'lrefPredEnd')",
  "PathEqualityExpr -> NodeIdentifier Equals PathKeyExpr",
  "Equals -> EQ @act(CodeFn,'lrefEquals')",
  "PathKeyExpr -> CurrentFnInvocation '/' RelPathKeyExpr",
  "RelPathKeyExpr -> UpDir1Plus NodeIdentifierSlash1Plus NodeIdentifier",
  "RelPathKeyExpr -> UpDir1Plus NodeIdentifier",
  "UpDir1Plus -> UpDir1Plus DotDot '/'",
  "UpDir1Plus -> DotDot '/'",
  "NodeIdentifierSlash1Plus -> NodeIdentifierSlash1Plus NodeIdentifier '/'",
  "NodeIdentifierSlash1Plus -> NodeIdentifier '/'",
  "DotDot -> DOTDOT @act(CodePathOper)",
  "NodeIdentifier -> NAMETEST @act(CodeNameTest)",
  "CurrentFnInvocation -> FUNC '(' ')' @act(CodePathOper)"
]

end YV.XT
