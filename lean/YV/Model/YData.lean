/-
  Model.YData — structural validation of a data tree and the default-decorated view.

  Mirrors schema/validate.go: validateSchemaWithLog / validateListSchema / validateLeafSchema,
  checkMandatory / hasMandatoryChildren / choiceHasMandatory / caseHasMandatory /
  hasCaseMandatoryChildren, checkUnique / getUniqueKey / resolveDescendant; schema/tree.go
  cardinalityInRange / CheckCardinality, HasDefault / DefaultChildren; schema/default_decorator.go
  AddDefaults.yangDataChildren / IsActiveDefault / isActiveDefault / isActiveDefaultCase / createDefault.
  must / when / leafref checks are not part of this model (C15 and the XPath properties).

  Go iterates maps in several of these functions, so the *order* of the reported errors and of the appended
  defaults is not fixed by the code; the model produces them in schema order and every comparison is made
  on sorted lists.
-/
import YV.Model.YSchema
namespace YV.D
open YV YV.Y YV.SC

variable {τ : Type}

inductive DN where
  | mk (name : Tok) (kids : List DN) (vals : List Bytes)
  deriving Repr

def DN.name : DN → Tok | .mk n _ _ => n
def DN.kids : DN → List DN | .mk _ k _ => k
def DN.vals : DN → List Bytes | .mk _ _ v => v

inductive DErr where
  | mand (path : List Tok) (name : Tok)
  | choice (path : List Tok)
  | card (xpath : List Tok)
  | unique (path : List Tok) (keys : List Tok)
  deriving Repr, DecidableEq

/-! ### mandatory nodes -/

/-- `hasMandatoryChildren` over the children of an absent non-presence container (`path` already ends in
    the container's name): mandatory leaves, lists / leaf-lists with min-elements, mandatory choices;
    nested non-presence containers are looked through; children of choices are skipped -/
def hasMandKids (path : List Tok) : List (SN τ) → List DErr
  | [] => []
  | .leaf n _ _ m :: r => (if m then [.mand path n] else []) ++ hasMandKids path r
  | .list n _ mn _ _ _ :: r => (if mn > 0 then [.mand path n] else []) ++ hasMandKids path r
  | .leafList n _ mn _ :: r => (if mn > 0 then [.mand path n] else []) ++ hasMandKids path r
  | .container n pr kids :: r => (if pr then [] else hasMandKids (path ++ [n]) kids) ++ hasMandKids path r
  | .choice _ m _ _ :: r => (if m then [.choice path] else []) ++ hasMandKids path r
  | .case _ _ :: r => hasMandKids path r

/-- the loop of `checkMandatory` / `hasCaseMandatoryChildren` over the direct (non-choice) children of an
    existing parent or of an active case: what is required and not among the configured names `cfg` -/
def missingOf (cfg : List Tok) (path : List Tok) : List (SN τ) → List DErr
  | [] => []
  | .leaf n _ _ m :: r => (if m && !cfg.contains n then [.mand path n] else []) ++ missingOf cfg path r
  | .list n _ mn _ _ _ :: r => (if mn > 0 && !cfg.contains n then [.mand path n] else []) ++ missingOf cfg path r
  | .leafList n _ mn _ :: r => (if mn > 0 && !cfg.contains n then [.mand path n] else []) ++ missingOf cfg path r
  | .container n pr kids :: r =>
    (if !pr && !cfg.contains n then hasMandKids (path ++ [n]) kids else []) ++ missingOf cfg path r
  | .choice .. :: r => missingOf cfg path r
  | .case .. :: r => missingOf cfg path r

/-- `hasOneOf(nd.Children(), cfg)` -/
def hasOneOf (nodes : List (SN τ)) (cfg : List Tok) : Bool := nodes.any fun n => cfg.contains n.name

mutual
/-- `choiceHasMandatory`: for every choice among `kids` -/
def choiceHasMand (cfg : List Tok) (path : List Tok) : List (SN τ) → List DErr
  | [] => []
  | .choice _ m _ cases :: r =>
    (if hasOneOf (caseKids cases) cfg then caseHasMand cfg path cases
     else if m then [.choice path] else []) ++ choiceHasMand cfg path r
  | .container .. :: r => choiceHasMand cfg path r
  | .list .. :: r => choiceHasMand cfg path r
  | .leaf .. :: r => choiceHasMand cfg path r
  | .leafList .. :: r => choiceHasMand cfg path r
  | .case .. :: r => choiceHasMand cfg path r
/-- `caseHasMandatory`: for every case with something configured in it -/
def caseHasMand (cfg : List Tok) (path : List Tok) : List (SN τ) → List DErr
  | [] => []
  | .case _ kids :: r =>
    (if hasOneOf (dataKids kids) cfg then missingOf cfg path kids ++ choiceHasMand cfg path kids else []) ++
      caseHasMand cfg path r
  | .choice .. :: r => caseHasMand cfg path r
  | .container .. :: r => caseHasMand cfg path r
  | .list .. :: r => caseHasMand cfg path r
  | .leaf .. :: r => caseHasMand cfg path r
  | .leafList .. :: r => caseHasMand cfg path r
end

/-- `checkMandatory` for an existing parent whose schema children are `kids` -/
def checkMand (kids : List (SN τ)) (cfg : List Tok) (path : List Tok) : List DErr :=
  missingOf cfg path kids ++ choiceHasMand cfg path kids

/-! ### cardinality, unique -/

/-- `cardinalityInRange` -/
def cardBad (min : Nat) (max : Option Nat) (len : Nat) : Bool :=
  match max with
  | none => min > 0 && len < min
  | some m => (min > 0 && len < min) || (m > 0 && len > m)

/-- `lookupDescendant` (after the repair): the value of the leaf at `path` below the entry, looking through
    containers; `none` when anything on the way is absent -/
def resolveDesc : List (SN τ) → List DN → List Tok → Option Bytes
  | _, _, [] => none
  | kids, ds, hd :: tl =>
    match ds.find? (fun d => d.name = hd) with
    | none => none
    | some d =>
      match lookup hd (dataKids kids) with
      | some (.container _ _ ck) => resolveDesc ck d.kids tl
      | some (.leaf ..) => d.vals.head?      -- (after the repair) a node without a value has none to compare
      | _ => none

/-- decimal digits of a number, as `%d` writes them -/
def decDigits : Nat → Nat → List Nat
  | 0, _ => []
  | f + 1, n => if n < 10 then [48 + n] else decDigits f (n / 10) ++ [48 + n % 10]

def dec (n : Nat) : List Nat := decDigits (n + 1) n

/-- the key of a tuple of values: each value preceded by its length and a colon (after the repair; before
    it the values were joined by U+00B7 and different tuples could collide) -/
def encTuple : List Bytes → Bytes
  | [] => []
  | v :: r => dec v.length ++ 58 :: (v ++ encTuple r)

/-- `getUniqueKey`: nothing if any value is missing -/
def uniqueKey (kids : List (SN τ)) (entry : DN) (u : List (List Tok)) : Option Bytes :=
  (u.mapM (resolveDesc kids entry.kids)).map encTuple

/-- classes of size ≥ 2 of a keyed list of entry names, in order of first occurrence -/
def groups {κ : Type} [DecidableEq κ] (l : List (κ × Tok)) : List (List Tok) :=
  let keys := (l.map (·.1)).eraseDups
  (keys.map fun k => (l.filter (·.1 = k)).map (·.2)).filter (·.length ≥ 2)

/-- the groups of ≥ 2 entries with the same unique key, as lists of entry names -/
def uniqueGroups (kids : List (SN τ)) (entries : List DN) (u : List (List Tok)) : List (List Tok) :=
  groups (entries.filterMap fun e => (uniqueKey kids e u).map fun k => (k, e.name))

/-! ### the walk over the data -/

mutual
/-- `validateSchemaWithLog` for the data node `d` whose schema node is `sn`; `path` / `xpath` are those of
    the parent -/
def vnodeD (sn : SN τ) (d : DN) (path xpath : List Tok) : List DErr :=
  match sn, d with
  | .leaf .., _ => []
  | .leafList n _ mn mx, .mk _ _ vals => if cardBad mn mx vals.length then [.card (xpath ++ [n])] else []
  | .container n _ kids, .mk _ dk _ =>
    checkMand kids (dk.map (·.name)) (path ++ [n]) ++ vkidsD kids dk (path ++ [n]) (xpath ++ [n])
  | .list n _ mn mx us kids, .mk _ entries _ =>
    if cardBad mn mx entries.length then [.card (xpath ++ [n])]
    else
      (us.flatMap fun u => (uniqueGroups kids entries u).map fun g => DErr.unique (path ++ [n]) g) ++
        ventriesD kids entries (path ++ [n]) (xpath ++ [n])
  | .choice .., _ => []
  | .case .., _ => []
/-- the children of an existing parent -/
def vkidsD (kids : List (SN τ)) (ds : List DN) (path xpath : List Tok) : List DErr :=
  match ds with
  | [] => []
  | d :: r =>
    (match lookup d.name (dataKids kids) with
     | some sn => vnodeD sn d path xpath
     | none => []) ++ vkidsD kids r path xpath
/-- the entries of a list: each is a parent of its own -/
def ventriesD (kids : List (SN τ)) (es : List DN) (path xpath : List Tok) : List DErr :=
  match es with
  | [] => []
  | .mk en ek _ :: r =>
    (checkMand kids (ek.map (·.name)) (path ++ [en]) ++ vkidsD kids ek (path ++ [en]) xpath) ++
      ventriesD kids r path xpath
end

/-- `ValidateSchema(modelSet, root, false)` -/
def validateData (top : List (SN τ)) (root : DN) : List DErr :=
  checkMand top (root.kids.map (·.name)) [] ++ vkidsD top root.kids [] []

/-! ### defaults -/

mutual
/-- `HasDefault()` -/
def hasDefault : SN τ → Bool
  | .leaf _ _ d m => !m && d.isSome
  | .container _ pr kids => !pr && anyDefault kids
  | _ => false
/-- some node of the (flattened) child map has a default: `len(n.defChildren) > 0` -/
def anyDefault : List (SN τ) → Bool
  | [] => false
  | .choice _ _ _ cases :: r => anyDefaultCases cases || anyDefault r
  | x :: r => hasDefault x || anyDefault r
def anyDefaultCases : List (SN τ) → Bool
  | [] => false
  | .case _ kids :: r => anyDefault kids || anyDefaultCases r
  | x :: r => hasDefault x || anyDefaultCases r
end

/-- `hasCfg(seen, sch)`: something of the node's child map is present -/
def hasCfg (seen : List Tok) (children : List (SN τ)) : Bool := children.any fun c => seen.contains c.name

mutual
/-- `isActiveDefault(sch, name, defCase, cfg)` where `sch.Choices()` = `chs`: the choices among a
    container's children, or *all* children when `sch` is a case (`schCfg` = `cfg(sch)` for that situation) -/
def isActiveDefault (seen : List Tok) (name : Tok) (defCase schCfg : Bool) : List (SN τ) → Bool
  | [] => false
  | .choice _ _ d cases :: r =>
    if (lookup name (caseKids cases)).isSome then
      if hasCfg seen (caseKids cases) then isActiveDefaultCase seen name none cases
      else match d with
        | some dc => isActiveDefaultCase seen name (some dc) cases
        | none => isActiveDefault seen name defCase schCfg r
    else isActiveDefault seen name defCase schCfg r
  | .case n _ :: r => if n = name then (defCase || schCfg || isActiveDefault seen name defCase schCfg r) else isActiveDefault seen name defCase schCfg r
  | .container n _ _ :: r => if n = name then (defCase || schCfg || isActiveDefault seen name defCase schCfg r) else isActiveDefault seen name defCase schCfg r
  | .list n _ _ _ _ _ :: r => if n = name then (defCase || schCfg || isActiveDefault seen name defCase schCfg r) else isActiveDefault seen name defCase schCfg r
  | .leaf n _ _ _ :: r => if n = name then (defCase || schCfg || isActiveDefault seen name defCase schCfg r) else isActiveDefault seen name defCase schCfg r
  | .leafList n _ _ _ :: r => if n = name then (defCase || schCfg || isActiveDefault seen name defCase schCfg r) else isActiveDefault seen name defCase schCfg r
/-- `isActiveDefaultCase(choice, name, def, cfg)` over the cases of the choice -/
def isActiveDefaultCase (seen : List Tok) (name : Tok) (dflt : Option Tok) : List (SN τ) → Bool
  | [] => false
  | .case cn kids :: r =>
    if (lookup name (dataKids kids)).isSome then
      let hcfg := hasCfg seen (dataKids kids)
      match dflt with
      | none => if !hcfg then false else isActiveDefault seen name false hcfg kids
      | some dc => if dc ≠ cn then false else isActiveDefault seen name true hcfg kids
    else isActiveDefaultCase seen name dflt r
  | .choice n _ _ _ :: r => if dflt = some n && n = name then true else isActiveDefaultCase seen name dflt r
  | .container n _ _ :: r => if dflt = some n && n = name then true else isActiveDefaultCase seen name dflt r
  | .list n _ _ _ _ _ :: r => if dflt = some n && n = name then true else isActiveDefaultCase seen name dflt r
  | .leaf n _ _ _ :: r => if dflt = some n && n = name then true else isActiveDefaultCase seen name dflt r
  | .leafList n _ _ _ :: r => if dflt = some n && n = name then true else isActiveDefaultCase seen name dflt r
end

mutual
/-- `createDefault` (after the repair): below a node that is itself a default nothing is configured, so a
    node under a choice is instantiated only when `IsActiveDefault` says so with nothing configured; a
    container left without any default is not created -/
def createDefault : SN τ → Option DN
  | .leaf n _ (some d) false => some (.mk n [] [d])
  | .container n false kids =>
    let cs := createDefaults kids kids
    if cs.isEmpty then none else some (.mk n cs [])
  | _ => none
/-- over the direct children (`ctx` = all children of the container, for the choice look-up) -/
def createDefaults (ctx : List (SN τ)) : List (SN τ) → List DN
  | [] => []
  | .choice _ _ _ cases :: r => createDefaultsCases ctx cases ++ createDefaults ctx r
  | .case _ _ :: r => createDefaults ctx r
  | .leaf n t d m :: r => (createDefault (.leaf n t d m)).toList ++ createDefaults ctx r
  | .container n p k :: r => (createDefault (.container n p k)).toList ++ createDefaults ctx r
  | .list .. :: r => createDefaults ctx r
  | .leafList .. :: r => createDefaults ctx r
def createDefaultsCases (ctx : List (SN τ)) : List (SN τ) → List DN
  | [] => []
  | .case _ kids :: r => createDefaultsIn ctx kids ++ createDefaultsCases ctx r
  | _ :: r => createDefaultsCases ctx r
/-- over the children of a case: each node is under a choice of `ctx` -/
def createDefaultsIn (ctx : List (SN τ)) : List (SN τ) → List DN
  | [] => []
  | .choice _ _ _ cases :: r => createDefaultsCases ctx cases ++ createDefaultsIn ctx r
  | .case _ _ :: r => createDefaultsIn ctx r
  | .leaf n t d m :: r =>
    (if isActiveDefault [] n false false (ctx.filter (·.isChoice)) then (createDefault (.leaf n t d m)).toList else []) ++
      createDefaultsIn ctx r
  | .container n p k :: r =>
    (if isActiveDefault [] n false false (ctx.filter (·.isChoice)) then (createDefault (.container n p k)).toList else []) ++
      createDefaultsIn ctx r
  | .list .. :: r => createDefaultsIn ctx r
  | .leafList .. :: r => createDefaultsIn ctx r
end

/-- is `name` (a node of the flattened child map of `kids`) below one of the choices among `kids`? -/
def inChoice (kids : List (SN τ)) (name : Tok) : Bool :=
  kids.any fun k => match k with
    | .choice _ _ _ cases => (lookup name (caseKids cases)).isSome
    | _ => false

/-- the defaults `yangDataChildren` appends for a parent with schema children `kids` -/
def addedDefaults (kids : List (SN τ)) (seen : List Tok) : List DN :=
  (dataKids kids).flatMap fun def_ =>
    if !hasDefault def_ || seen.contains def_.name then []
    else if inChoice kids def_.name && !isActiveDefault seen def_.name false false (kids.filter (·.isChoice)) then []
    else (createDefault def_).toList

mutual
/-- the children of the decorated view of a parent -/
def decorateKids (kids : List (SN τ)) (ds : List DN) : List DN :=
  decorateEach kids ds ++ addedDefaults kids (ds.map (·.name))
def decorateEach (kids : List (SN τ)) : List DN → List DN
  | [] => []
  | d :: r =>
    (match lookup d.name (dataKids kids) with
     | some sn => decorateNode sn d
     | none => d) :: decorateEach kids r
def decorateNode (sn : SN τ) (d : DN) : DN :=
  match sn, d with
  | .container _ _ kids, .mk n dk v => .mk n (decorateKids kids dk) v
  | .list _ _ _ _ _ kids, .mk n entries v => .mk n (decorateEntries kids entries) v
  | _, d => d
def decorateEntries (kids : List (SN τ)) : List DN → List DN
  | [] => []
  | .mk en ek v :: r => .mk en (decorateKids kids ek) v :: decorateEntries kids r
end

/-- `AddDefaults(modelSet, root)`, fully walked -/
def decorate (top : List (SN τ)) (root : DN) : DN :=
  match root with
  | .mk n dk v => .mk n (decorateKids top dk) v

end YV.D
