/-
  Model.XPathM — the complete stack machine on the instruction lists the parser emits, including the
  path / predicate machinery of the navigation-request engine.

  Mirrors xpath/program.go: CodePathOper, CodeNameTest, CodePathSetCurrent, Deref, PredicatesStart/End,
  CodePredStart/End, Eq (all three branches), EvalLocPath, EvalLocPathInternal, Store;
  xpath/context.go: PathStack, PredicatePathElemStack, Run (panics recovered into a run error; after the
  fix a data-tree error stops the run and is what the result carries).
  Scalar instructions reuse Model.XEval (`stepBin`, `bltin`, `popArgs`).
-/
import YV.Model.XParse
namespace YV.XM

open YV YV.X YV.XL YV.XP

structure PElem where
  name : Str
  keys : List (Str × Str) := []      -- Go map: at most one value per key
  deriving DecidableEq, Repr

structure Path where
  root : Bool := false
  elems : List PElem := []
  deriving DecidableEq, Repr

def runesToStr (l : List Rune) : Str := l.map fun c => if c.isValidChar then Char.ofNat c else Char.ofNat 0xFFFD

/-- lexicographic order by code point (Go's `slices.Sort` on valid UTF-8 strings) -/
def strLt : Str → Str → Bool
  | [], [] => false
  | [], _ :: _ => true
  | _ :: _, [] => false
  | a :: as, b :: bs => a.toNat < b.toNat || (a == b && strLt as bs)

/-- insert into a key-sorted association list, replacing an existing key (map assignment + sorted output) -/
def insertKey (k v : Str) : List (Str × Str) → List (Str × Str)
  | [] => [(k, v)]
  | (k', v') :: r =>
    if k = k' then (k, v) :: r
    else if strLt k k' then (k, v) :: (k', v') :: r
    else (k', v') :: insertKey k v r

/-- canonical rendering of a request path (what the recording mock prints) -/
def showPath (p : Path) : String :=
  (if p.root then "ROOT" else "CTX") ++
    String.join (p.elems.map fun e =>
      "/" ++ String.ofList e.name ++
        String.join (e.keys.map fun (k, v) => "[" ++ String.ofList k ++ "=" ++ String.ofList v ++ "]"))

/-- the data tree: what `Navigate(p).GetValue()` reports, and which callback (1-based) fails -/
structure Tree where
  value : Path → Datum
  failAt : Nat := 0
  derefTarget : Path → Path

inductive RunErr where
  | tree (msg : String)          -- the error the data tree reported
  | internal (msg : String)      -- a recovered panic
  deriving DecidableEq, Repr

structure MSt where
  stack : List Datum := []
  paths : List Path := [{}]
  preds : List (List (Str × Str)) := []
  predCount : Nat := 0
  predEvalPath : Nat := 0
  isLLF : Bool := false
  prevReqELP : Bool := true
  res : Option Datum := none
  trace : List String := []      -- reversed
  ncalls : Nat := 0
  deriving Repr

/-- a failed step: the error, and the request trace if the failing instruction issued requests -/
structure Fail where
  err : RunErr
  trace : Option (List String) := none
  deriving Repr

abbrev R := Except Fail

def panic {α} (m : String) : R α := .error { err := .internal m }

def liftM {α} (x : M α) : R α := match x with | .ok a => .ok a | .error e => .error { err := .internal e }

/-- one callback on the tree: record it, fail if it is the designated one -/
def callback (t : Tree) (what : String) (s : MSt) : R MSt :=
  let s := { s with trace := what :: s.trace, ncalls := s.ncalls + 1 }
  if t.failAt ≠ 0 && s.ncalls = t.failAt then
    .error { err := .tree s!"injected-fault-{t.failAt}", trace := some s.trace }
  else pure s

def popPath (s : MSt) : R (Path × MSt) :=
  match s.paths with
  | [] => panic "index out of range (PopPath)"
  | p :: r => pure (p, { s with paths := r })

/-- NewPathFromActual: duplicate the top path, or a fresh one if the stack is empty -/
def newFromActual (s : MSt) : MSt :=
  match s.paths with
  | [] => { s with paths := [{}] }
  | p :: r => { s with paths := p :: p :: r }

def pushElem (e : PElem) (s : MSt) : R MSt :=
  match s.paths with
  | [] => panic "index out of range (PushElem)"
  | p :: r => pure { s with paths := { p with elems := p.elems ++ [e] } :: r }

/-- EvalLocPathInternal -/
def evalInternal (t : Tree) (s : MSt) : R MSt := do
  let (p, s) ← popPath s
  let s ← callback t ("Navigate(" ++ showPath p ++ ")") s
  let s ← callback t ("GetValue(" ++ showPath p ++ ")") s
  let s := { s with stack := t.value p :: s.stack }
  pure (newFromActual s)

/-- `fixRoot`: after the repair, '/' starts a fresh root-based path instead of flagging the current one -/
def step (fixRoot : Bool) (t : Tree) (i : PI) (s : MSt) : R MSt :=
  let bin (op : BinOp) : R MSt := do
    let σ ← liftM (stepBin op s.stack); pure { s with stack := σ }
  match i with
  | .num x => pure { s with stack := .num x :: s.stack }
  | .lit l => pure { s with stack := .lit (runesToStr l) :: s.stack }
  | .negate => do
    let (a, σ) ← liftM (popNum s.stack); pure { s with stack := .num (SF.neg a) :: σ }
  | .add => bin .add | .sub => bin .sub | .mul => bin .mul | .div => bin .div | .mod => bin .mod
  | .and => bin .and | .or => bin .or
  | .ne => bin .ne | .lt => bin .lt | .gt => bin .gt | .le => bin .le | .ge => bin .ge
  | .bltin f => do
    if f = .current then
      -- symbol.go `current`: reset the path to the context node, push an empty node-set
      let (_, s) ← popPath s
      pure { s with paths := {} :: s.paths, stack := .emptyNodeset :: s.stack }
    else
      let (args, σ) ← liftM (popArgs f.sig.1 s.stack)
      let v ← liftM (bltin f args)
      pure { s with stack := v :: σ }
  | .union => panic "Unable to convert to a nodeset."
  | .filterExprEnd => pure s
  | .pathRoot =>
    match s.paths with
    | [] => panic "index out of range (PeakPath)"
    | p :: r => if fixRoot then pure { s with paths := { root := true } :: r }
                else pure { s with paths := { p with root := true } :: r }
  | .pathDotDot => pushElem { name := "..".toList } s
  | .namePush _ loc =>
    if s.predCount > 0 && s.predEvalPath = 0 then   -- (after the repair) only the first path of a predicate is the key name
      pure { s with stack := .lit (runesToStr loc) :: s.stack }
    else pushElem { name := runesToStr loc } s
  | .predicatesStart => pure { s with preds := [] :: s.preds }
  | .predicatesEnd =>
    match s.preds with
    | [] => panic "index out of range (PopMap)"
    | m :: rest =>
      match s.paths with
      | [] => panic "index out of range (PeakPath)"
      | p :: r =>
        if m.isEmpty then pure { s with preds := rest }
        else match p.elems.reverse with
          | [] => panic "index out of range (LastPathElem)"
          | last :: init =>
            let last' := { last with keys := m.foldl (fun ks kv => insertKey kv.1 kv.2 ks) last.keys }
            pure { s with preds := rest, paths := { p with elems := (last' :: init).reverse } :: r }
  | .predStart =>
    let s := newFromActual s
    pure { s with predCount := s.predCount + 1, isLLF := false, prevReqELP := false }
  | .predEnd => do
    let s := { s with predCount := s.predCount - 1, predEvalPath := 0, isLLF := false }
    let (_, s) ← popPath s
    pure s
  | .pathSetCurrent => do
    let (_, s) ← popPath s
    pure { s with paths := {} :: s.paths }
  | .deref => do
    let (p, s) ← popPath s
    let s ← callback t ("Navigate(" ++ showPath p ++ ")") s
    let s ← match callback t ("FollowLeafRef(" ++ showPath p ++ ")") s with
      | .ok s => pure s
      | .error { err := .tree m, trace := tr } => .error { err := .internal (m ++ " "), trace := tr }   -- execError(err.Error(), "")
      | .error e => .error e
    pure { s with paths := t.derefTarget p :: s.paths }
  | .evalLocPath =>
    if s.predCount > 0 then
      let s := { s with predEvalPath := s.predEvalPath + 1 }
      if s.predEvalPath = 1 then pure s else evalInternal t s
    else if !s.prevReqELP then pure s
    else evalInternal t s
  | .eq => do
    let (d1, σ) ← liftM (pop s.stack)
    let (d2, σ) ← liftM (pop σ)
    let s := { s with stack := σ }
    if d2.isSlice && s.predCount > 0 then
      -- leaf-list filter: existential over the entries, using the equality comparison
      let s := { s with isLLF := true }
      match d2 with
      | .slice ds => do
        let r ← liftM (ds.anyM fun x => compare .eq (.lit x) d1)
        pure { s with stack := .bool r :: s.stack }
      | _ => pure s
    else if s.predCount = 0 || s.isLLF then do
      let r ← liftM (compare .eq d2 d1)
      pure { s with stack := .bool r :: s.stack }
    else do
      -- inside a predicate: record  key = string(operand)  for the enclosing step
      let (_, s) ← popPath s
      let k ← liftM d2.toLit
      let v ← liftM d1.toLit
      match s.preds with
      | [] => panic "index out of range (TopSet)"
      | m :: rest =>
        let m' := (m.filter fun kv => kv.1 ≠ k) ++ [(k, v)]
        let s := { s with preds := m' :: rest }
        pure { newFromActual s with prevReqELP := true }
  | .store => do
    let (d, σ) ← liftM (pop s.stack)
    if !σ.isEmpty then panic "Storing result when stack is not empty."
    else pure { s with stack := [], res := some d }
  | .lrefPredStart | .lrefPredEnd | .lrefEquals => panic "leafref machines run on the legacy engine"

def exec (fixRoot : Bool) (t : Tree) : List PI → MSt → R MSt
  | [], s => pure s
  | i :: is, s => do let s' ← step fixRoot t i s; exec fixRoot t is s'

structure Outcome where
  value : Option Datum
  err : Option RunErr
  trace : List String
  deriving Repr

/-- `Run`: the requests issued before a failure stay observable -/
def execTrace (fixRoot : Bool) (t : Tree) : List PI → MSt → MSt × Option RunErr
  | [], s => (s, none)
  | i :: is, s =>
    match step fixRoot t i s with
    | .ok s' => execTrace fixRoot t is s'
    | .error f => ({ s with trace := f.trace.getD s.trace }, some f.err)

def run (fixRoot : Bool) (t : Tree) (prog : List PI) : Outcome :=
  let (s, e) := execTrace fixRoot t prog {}
  match e with
  | some err => { value := none, err := some err, trace := s.trace.reverse }
  | none => { value := s.res, err := none, trace := s.trace.reverse }

end YV.XM
