/-
  Model.YCompile — the core of the schema compiler: building the tree of data definitions with the
  properties a node inherits, and the node filter.

  Mirrors compile/compile.go: overrideInherited / getConfig / getStatus (errors "config true node can't
  have a config false parent", "Cannot override status of parent"), IgnoreNode / CheckIfFeature (a node
  whose if-feature is disabled, or that is deviated not-supported, is not built), buildChildren /
  buildListChildren (every child is built — and checked — first, the filter then decides whether it is
  kept), BuildContainer / BuildList / BuildLeaf / BuildLeafList / BuildChoice / BuildCase,
  checkChoiceDefaultCaseExists (skipped for a choice that the filter removes), schema/tree.go addChild
  ("redefinition of name" among the flattened children); compile/compile_filters.go.
  Types, must/when, extensions and the opd vocabulary are outside this model.
-/
import YV.Model.YSchema
namespace YV.C
open YV YV.Y YV.SC

structure Meta where
  cfg : Option Bool := none
  st : Option Nat := none        -- 0 current, 1 deprecated, 2 obsolete
  iff : List Tok := []           -- if-feature references
  notSupported : Bool := false   -- deviated not-supported
  ns : Tok := []                 -- the module the node belongs to (its namespace)
  deriving Repr, DecidableEq

inductive A where
  | container (name : Tok) (m : Meta) (presence : Bool) (kids : List A)
  | list (name : Tok) (m : Meta) (keys : List Tok) (mn mx : Option Nat) (kids : List A)
  | leaf (name : Tok) (m : Meta) (mandatory : Bool) (dflt : Option Bytes)
  | leafList (name : Tok) (m : Meta) (mn mx : Option Nat)
  | choice (name : Tok) (m : Meta) (mandatory : Bool) (dflt : Option Tok) (cases : List A)
  | case (name : Tok) (m : Meta) (kids : List A)       -- `config` is not a substatement of case

def A.meta : A → Meta
  | .container _ m _ _ => m | .list _ m _ _ _ _ => m | .leaf _ m _ _ => m
  | .leafList _ m _ _ => m | .choice _ m _ _ _ => m | .case _ m _ => m

inductive Kind | container | list | leaf | leafList | choice | case
  deriving Repr, DecidableEq

structure Attr where
  kind : Kind
  name : Tok
  cfg : Bool
  st : Nat
  flag : Bool := false             -- presence (container) / mandatory (leaf, choice)
  dflt : Option Bytes := none      -- default value (leaf) / default case (choice)
  keys : List Tok := []
  mn : Option Nat := none          -- min-elements / max-elements as written
  mx : Option Nat := none
  ns : Tok := []
  deriving Repr, DecidableEq

inductive CN where
  | mk (a : Attr) (kids : List CN)

def CN.attr : CN → Attr | .mk a _ => a
def CN.kids : CN → List CN | .mk _ k => k

structure Inh where
  cfg : Bool := true
  st : Nat := 0
  deriving Repr, DecidableEq

def getStatus (m : Meta) (inh : Nat) : Except String Nat :=
  match m.st with
  | some s => if s < inh then .error "Cannot override status of parent" else .ok s
  | none => .ok inh

def getConfig (m : Meta) (inh : Bool) : Except String Bool :=
  match m.cfg with
  | some c => if !inh && c then .error "config true node can't have a config false parent" else .ok c
  | none => .ok inh

/-- `overrideInherited` -/
def inherit (m : Meta) (inh : Inh) : Except String Inh := do
  let st ← getStatus m inh.st
  let cfg ← getConfig m inh.cfg
  pure { cfg := cfg, st := st }

/-- the verified features: which are enabled (themselves and everything they depend on), and the status
    of every declared feature -/
structure FeatEnv where
  enabled : List Tok := []            -- module-qualified names "mod:feature"
  status : List (Tok × Nat) := []
  localMod : Tok := []                -- the module the body being built is written in

/-- the module part of a qualified feature name -/
def modOf (key : Tok) : Tok := key.takeWhile (· ≠ 58)

/-- the loop of `IgnoreNode` over the if-feature statements: `CheckIfFeature` looks the feature up, checks
    that the node may reference it (`assertReferenceStatus`) and asks whether it is enabled; the first
    disabled feature ends the loop -/
def iffLoop (env : FeatEnv) (m : Meta) (parentSt : Nat) : List Tok → Except String Bool
  | [] => pure false
  | f :: r => do
    let nst ← getStatus m parentSt
    match env.status.lookup f with
    | none => .error "feature not valid"
    | some fst =>
      -- assertReferenceStatus: only within one module
      if modOf f = env.localMod && nst < fst then .error "node cannot reference node within same module"
      else if !env.enabled.contains f then pure true
      else iffLoop env m parentSt r

/-- `IgnoreNode` -/
def ignoredM (env : FeatEnv) (m : Meta) (parentSt : Nat) : Except String Bool :=
  if m.notSupported then pure true else iffLoop env m parentSt m.iff

mutual
/-- the names in the child map of a node with these built children (choices flattened) -/
def dataNames : List CN → List Tok
  | [] => []
  | .mk a kids :: r =>
    (if a.kind = .choice then dataCaseNames kids else [a.name]) ++ dataNames r
def dataCaseNames : List CN → List Tok
  | [] => []
  | .mk a kids :: r =>
    (if a.kind = .case then dataNames kids else [a.name]) ++ dataCaseNames r
end

/-- a name in the list of choices of a node (`addChoice`): kept apart from the names of the child map -/
def mark (n : Tok) : Tok := 0 :: n

/-- `addChoiceToChoices`: the choices among the children of a container, list or module -/
def choiceMarks (ks : List CN) : List Tok :=
  ks.filterMap fun k => if k.attr.kind = .choice then some (mark k.attr.name) else none

/-- `addToChoices(anyNode)`: every child of a choice (its cases) or of a case -/
def kidMarks (ks : List CN) : List Tok := ks.map fun k => mark k.attr.name

/-- everything `addChildren` of a container / list / module checks for redefinition: the names of its choices among
    themselves, and the names of its data nodes (those of its choices' cases among them) -/
def flatNames (ks : List CN) : List Tok := choiceMarks ks ++ dataNames ks
/-- … of a choice: the names of its cases, and the data nodes of all of them -/
def flatCaseNames (ks : List CN) : List Tok := kidMarks ks ++ dataCaseNames ks
/-- … of a case: the names of its children (choices or not), and its data nodes -/
def caseKidNames (ks : List CN) : List Tok := kidMarks ks ++ dataNames ks

def firstDup : List Tok → Option Tok
  | [] => none
  | x :: r => if r.contains x then some x else firstDup r

/-- `addChildren`: "redefinition of name" -/
def checkNames (names : List Tok) : Except String Unit :=
  match firstDup names with
  | some n => .error ("redefinition of name " ++ String.ofList ((if n.head? = some 0 then n.drop 1 else n).map Char.ofNat))
  | none => .ok ()

mutual
/-- `BuildNode` under the inherited properties `inh` with the filter `f` -/
def build (f : Attr → Bool) (env : FeatEnv) (inh : Inh) : A → Except String CN
  | .container n m pr kids => do
    let i ← inherit m inh
    let ks ← buildKids f env i kids
    checkNames (flatNames ks)
    pure (.mk { kind := .container, name := n, cfg := i.cfg, st := i.st, flag := pr, ns := m.ns } ks)
  | .list n m keys mn mx kids => do
    let i ← inherit m inh
    let ks ← buildKids f env i kids
    checkNames (flatNames ks)
    pure (.mk { kind := .list, name := n, cfg := i.cfg, st := i.st, keys := keys, mn := mn, mx := mx, ns := m.ns } ks)
  | .leaf n m mand d => do
    let i ← inherit m inh
    if mand && d.isSome then .error "Leaf cannot have default and be mandatory."
    else pure (.mk { kind := .leaf, name := n, cfg := i.cfg, st := i.st, flag := mand, dflt := d, ns := m.ns } [])
  | .leafList n m mn mx => do
    let i ← inherit m inh
    pure (.mk { kind := .leafList, name := n, cfg := i.cfg, st := i.st, mn := mn, mx := mx, ns := m.ns } [])
  | .choice n m mand d cases => do
    let i ← inherit m inh
    let ks ← buildKids f env i cases
    if d.isSome && mand then .error "Choice cannot have default and be mandatory."
    else do
      checkNames (flatCaseNames ks)
      let a : Attr := { kind := .choice, name := n, cfg := i.cfg, st := i.st, flag := mand, dflt := d, ns := m.ns }
      -- checkChoiceDefaultCaseExists: not for a choice the filter is about to remove
      match d with
      | some dc =>
        if f a && !(ks.any fun k => k.attr.name = dc) then .error ("Choice default " ++ String.ofList (dc.map Char.ofNat) ++ " not found.")
        else pure (.mk a ks)
      | none => pure (.mk a ks)
  | .case n m kids => do
    let i ← inherit { m with cfg := none } inh
    let ks ← buildKids f env i kids
    checkNames (caseKidNames ks)
    pure (.mk { kind := .case, name := n, cfg := i.cfg, st := i.st, ns := m.ns } ks)
/-- `buildChildren`: ignore, build (with all its checks), then filter -/
def buildKids (f : Attr → Bool) (env : FeatEnv) (inh : Inh) : List A → Except String (List CN)
  | [] => pure []
  | a :: r =>
    do
      let ig ← ignoredM env a.meta inh.st
      if ig then buildKids f env inh r
      else do
        let c ← build f env inh a
        let rest ← buildKids f env inh r
        pure (if f c.attr then c :: rest else rest)
end

/-- a module body: top-level data definitions under (config true, status current) -/
def compile (f : Attr → Bool) (env : FeatEnv) (top : List A) : Except String (List CN) := do
  let ks ← buildKids f env {} top
  checkNames (flatNames ks)
  pure ks

/-! ### the specification of filtering: prune the unfiltered tree top-down -/

mutual
def prune (f : Attr → Bool) : CN → CN
  | .mk a kids => .mk a (pruneKids f kids)
def pruneKids (f : Attr → Bool) : List CN → List CN
  | [] => []
  | .mk a kids :: r => if f a then .mk a (pruneKids f kids) :: pruneKids f r else pruneKids f r
end

def keepAll : Attr → Bool := fun _ => true

end YV.C
