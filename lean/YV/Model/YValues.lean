/-
  Model.YValues — value validation beyond the scalar bases of Model.YTypes: string patterns, unions,
  identityrefs, and what a rejection carries (path, custom error-message, error-app-tag).

  Mirrors schema/types.go: integer/uinteger/decimal64 `Validate` (msg / appTag of the nearest range
  statement, default app-tag "range-violation"), ystring.Validate (length first, then every pattern of
  every level, base first; Length.Validate / Pattern.Validate messages and default app-tags), union.Validate
  (first member that accepts), identityref.Validate; parse/arg.go PatternArg.Parse (the pattern is compiled
  as ^( … )$); compile/compile.go getRangeBoundary / getLength / getPatterns (what a derived type keeps of
  its base's messages), checkIdentities / identityValues / getIdentities (the identities an identityref
  accepts: everything derived, at any depth, from its base; written without the module name when the
  identity lives in the leaf's own module).
-/
import YV.Model.YTypes
namespace YV.V
open YV YV.Y YV.T

/-! ### patterns: the regular expressions the generators use, matched by derivatives -/

inductive Re where
  | empty                                   -- matches nothing
  | eps
  | chr (c : Nat)
  | any                                     -- '.'
  | cls (neg : Bool) (rs : List (Nat × Nat))
  | seq (a b : Re)
  | alt (a b : Re)
  | star (a : Re)
  deriving Repr, DecidableEq

def inCls (rs : List (Nat × Nat)) (c : Nat) : Bool := rs.any fun (a, b) => a ≤ c && c ≤ b

def nullable : Re → Bool
  | .empty => false | .eps => true | .chr _ => false | .any => false | .cls _ _ => false
  | .seq a b => nullable a && nullable b
  | .alt a b => nullable a || nullable b
  | .star _ => true

def deriv (c : Nat) : Re → Re
  | .empty => .empty | .eps => .empty
  | .chr d => if c = d then .eps else .empty
  | .any => if c = 10 then .empty else .eps          -- RE2: '.' does not match a line feed
  | .cls neg rs => if inCls rs c != neg then .eps else .empty
  | .seq a b => if nullable a then .alt (.seq (deriv c a) b) (deriv c b) else .seq (deriv c a) b
  | .alt a b => .alt (deriv c a) (deriv c b)
  | .star a => .seq (deriv c a) (.star a)

/-- the whole string matches (what the implicit anchoring ^( … )$ asks) -/
def reMatch (r : Re) (s : List Nat) : Bool := nullable (s.foldl (fun r c => deriv c r) r)

/-! ### identities -/

structure Ident where
  mod : Bytes
  name : Bytes
  base : Option (Bytes × Bytes)
  deriving Repr, DecidableEq

def Ident.key (i : Ident) : Bytes × Bytes := (i.mod, i.name)

/-- how an identity is written as a value of a leaf that lives in module `leafMod` -/
def render (leafMod : Bytes) (i : Ident) : Bytes :=
  if i.mod = leafMod then i.name else i.mod ++ [58] ++ i.name

/-- `identityValues`: the identities derived from `b`, depth first (fuel: the compiler has rejected cycles) -/
def identVals (ids : List Ident) (leafMod : Bytes) : Nat → Bytes × Bytes → List Bytes
  | 0, _ => []
  | f + 1, b =>
    (ids.filter fun i => i.base = some b).flatMap fun i => render leafMod i :: identVals ids leafMod f i.key

/-! ### types with their error information -/

/-- custom error-message / error-app-tag of a restriction statement (`none` = not given) -/
structure EI where
  msg : Option String := none
  tag : Option String := none
  deriving Repr, DecidableEq

inductive VT where
  | num (t : Ty) (ei : EI)                                  -- int / uint / decimal64 and its range statement
  | str (t : Ty) (len : EI) (pats : List (Re × EI))         -- string: length statement, patterns base first
  | plain (t : Ty)                                          -- boolean, empty, enumeration
  | ident (vals : List Bytes)
  | union (ms : List VT)

/-- what a rejection carries: the app-tag and the custom message (`none`: the type's own wording) -/
structure Rej where
  tag : String
  msg : Option String
  deriving Repr, DecidableEq

def firstFailing (s : List Nat) : List (Re × EI) → Option EI
  | [] => none
  | (r, ei) :: rest => if reMatch r s then firstFailing s rest else some ei

mutual
/-- `Type.Validate`: `none` = accepted -/
def check : VT → Bytes → Option Rej
  | .num t ei, s => if validate t s then none else some { tag := ei.tag.getD "range-violation", msg := ei.msg }
  | .str t len pats, s =>
    if !validate t s then some { tag := len.tag.getD "length-violation", msg := len.msg }
    else match firstFailing ((XL.decode s).map (·.cp)) pats with
      | some ei => some { tag := ei.tag.getD "pattern-violation", msg := ei.msg }
      | none => none
  | .plain t, s => if validate t s then none else some { tag := "", msg := none }
  | .ident vals, s => if vals.contains s then none else some { tag := "", msg := none }
  | .union ms, s => if anyAccepts ms s then none else some { tag := "", msg := none }
def anyAccepts : List VT → Bytes → Bool
  | [], _ => false
  | m :: r, s => (check m s).isNone || anyAccepts r s
end

end YV.V
