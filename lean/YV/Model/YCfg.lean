/-
  Model.YCfg — features and deviations.

  Mirrors compile/compile.go checkFeatures / isFeatureValid (a feature is enabled iff it is enabled itself
  and every feature it depends on, transitively, is; a cyclic chain of if-feature references is an error —
  after the repair only a genuine cycle; a feature may not reference a more obsolete feature of its own
  module) and compile/deviations.go processDeviations / doDeviate with the four processors
  (deviateNotSupported / deviateAdd / deviateReplace / deviateDelete: isAllowed + propertyAction), applied to
  the statement tree before the schema is built.
-/
import YV.Model.YCompile
namespace YV.C
open YV YV.Y YV.SC

structure FeatDecl where
  key : Tok                 -- "mod:name"
  deps : List Tok           -- qualified
  st : Nat := 0
  deriving Repr, DecidableEq

def findDecl (decls : List FeatDecl) (k : Tok) : Option FeatDecl := decls.find? (·.key = k)

/-- `isFeatureValid`; `path` = the chain of references that led here -/
def featValid (decls : List FeatDecl) (raw : List Tok) : Nat → List Tok → FeatDecl → Except String Bool
  | 0, _, _ => .error "Feature cyclic reference"           -- not reached: fuel = number of features + 1
  | fuel + 1, path, d =>
    if path.contains d.key then .error "Feature cyclic reference"
    else
      let rec loop (enabled : Bool) : List Tok → Except String Bool
        | [] => pure enabled
        | dep :: r =>
          match findDecl decls dep with
          | none => .error "feature not valid"
          | some dd =>
            if modOf dep = modOf d.key && d.st < dd.st then .error "node cannot reference node within same module"
            else do
              let v ← featValid decls raw fuel (d.key :: path) dd
              loop (v && enabled) r
      loop (raw.contains d.key) d.deps

/-- `checkFeatures`: every declared feature, in order -/
def verifyFeatures (decls : List FeatDecl) (raw : List Tok) (localMod : Tok) : Except String FeatEnv := do
  let vs ← decls.mapM fun d => (featValid decls raw (decls.length + 1) [] d).map fun b => (d.key, b)
  pure { enabled := (vs.filter (·.2)).map (·.1), status := decls.map fun d => (d.key, d.st), localMod := localMod }

/-! ### deviations -/

inductive DevKind | notSupported | add | replace | delete
  deriving Repr, DecidableEq
inductive DevProp | dflt | config | mandatory | minEl | maxEl
  deriving Repr, DecidableEq

structure Dev where
  path : List Tok
  kind : DevKind
  prop : DevProp := .config
  val : Bytes := []
  alone : Bool := true          -- the only deviate statement of its deviation statement
  deriving Repr

def A.name : A → Tok
  | .container n _ _ _ => n | .list n _ _ _ _ _ => n | .leaf n _ _ _ => n
  | .leafList n _ _ _ => n | .choice n _ _ _ _ => n | .case n _ _ => n

def A.setMeta (m : Meta) : A → A
  | .container n _ p k => .container n m p k | .list n _ ks a b k => .list n m ks a b k
  | .leaf n _ md d => .leaf n m md d | .leafList n _ a b => .leafList n m a b
  | .choice n _ md d c => .choice n m md d c | .case n _ k => .case n m k

/-- may the statement be a substatement of the node at all (the cardinality table of the parser) -/
def applicable : A → DevProp → Bool
  | .container .., .config => true
  | .list .., .config => true | .list .., .minEl => true | .list .., .maxEl => true
  | .leafList .., .config => true | .leafList .., .minEl => true | .leafList .., .maxEl => true
  | .leaf .., .dflt => true | .leaf .., .config => true | .leaf .., .mandatory => true
  | .choice .., .dflt => true | .choice .., .config => true | .choice .., .mandatory => true
  | _, _ => false

/-- the argument of the statement as written in the target, if the target has it -/
def getProp : A → DevProp → Option Bytes
  | a, .config => a.meta.cfg.map fun b => if b then msg "true" else msg "false"
  | .leaf _ _ _ d, .dflt => d
  | .choice _ _ _ d _, .dflt => d
  | .leaf _ _ md _, .mandatory => if md then some (msg "true") else none
  | .choice _ _ md _ _, .mandatory => if md then some (msg "true") else none
  | .list _ _ _ mn _ _, .minEl => mn.map fun n => msg (toString n)
  | .list _ _ _ _ mx _, .maxEl => mx.map fun n => msg (toString n)
  | .leafList _ _ mn _, .minEl => mn.map fun n => msg (toString n)
  | .leafList _ _ _ mx, .maxEl => mx.map fun n => msg (toString n)
  | _, _ => none

def natOfBytes (b : Bytes) : Nat := b.foldl (fun a c => a * 10 + (c - 48)) 0

/-- write (or remove) the statement -/
def setProp (a : A) (p : DevProp) (v : Option Bytes) : A :=
  match p, a with
  | .config, a => a.setMeta { a.meta with cfg := v.map fun b => b = msg "true" }
  | .dflt, .leaf n m md _ => .leaf n m md v
  | .dflt, .choice n m md _ c => .choice n m md v c
  | .mandatory, .leaf n m _ d => .leaf n m (v = some (msg "true")) d
  | .mandatory, .choice n m _ d c => .choice n m (v = some (msg "true")) d c
  | .minEl, .list n m ks _ mx k => .list n m ks (v.map natOfBytes) mx k
  | .maxEl, .list n m ks mn _ k => .list n m ks mn (v.map natOfBytes) k
  | .minEl, .leafList n m _ mx => .leafList n m (v.map natOfBytes) mx
  | .maxEl, .leafList n m mn _ => .leafList n m mn (v.map natOfBytes)
  | _, a => a

/-- `doDeviate` on the target node: `isAllowed`, `propertyAction`, `finalAction` -/
def devNode (d : Dev) (a : A) : Except String A :=
  match d.kind with
  | .notSupported =>
    -- processDeviations: `len(devs) > 1` is checked when the loop reaches the not-supported statement
    if !d.alone then .error "No other deviate statements allowed with not-supported"
    else pure (a.setMeta { a.meta with notSupported := true })
  | .add =>
    if !applicable a d.prop then .error "Property not allowed on node"
    else if (getProp a d.prop).isSome then .error "Property being added to node already exists"
    else pure (setProp a d.prop (some d.val))
  | .replace =>
    if (getProp a d.prop).isNone then .error "Only existing proprties can be replaced by deviation"
    else pure (setProp a d.prop (some d.val))
  | .delete =>
    if d.prop ≠ .dflt then .error "Property not allowed in deviate delete"
    else if getProp a d.prop ≠ some d.val then .error "Property being deleted by deviation must exist"
    else pure (setProp a d.prop none)

mutual
/-- `getDataDescendant`: walk the schema node identifier (choices and cases are steps) -/
def devKids (d : Dev) : List Tok → List A → Except String (List A)
  | [], _ => .error "Invalid path"
  | _ :: _, [] => .error "Invalid path"
  | p :: rest, a :: r =>
    if a.name = p then
      (if rest.isEmpty then devNode d a else devInto d rest a).map (· :: r)
    else (devKids d (p :: rest) r).map (a :: ·)
def devInto (d : Dev) (rest : List Tok) : A → Except String A
  | .container n m pr kids => (devKids d rest kids).map (.container n m pr)
  | .list n m ks mn mx kids => (devKids d rest kids).map (.list n m ks mn mx)
  | .choice n m md df cases => (devKids d rest cases).map (.choice n m md df)
  | .case n m kids => (devKids d rest kids).map (.case n m)
  | _ => .error "Invalid path"
end

def applyDevs (top : List A) : List Dev → Except String (List A)
  | [] => pure top
  | d :: r => do
    let t ← devKids d d.path top
    applyDevs t r

/-- features, then deviations, then the build: the order of `ExpandModules` / `BuildModules` -/
def compileCfg (decls : List FeatDecl) (raw : List Tok) (localMod : Tok) (top : List A) (devs : List Dev) :
    Except String (List CN) := do
  let env ← verifyFeatures decls raw localMod
  let t ← applyDevs top devs
  compile keepAll env t

end YV.C
