/-
  Model.XLex — the XPath lexers of sdcio/yang-parser.

  Mirrors xpath/common_lexer.go (Next, NextNonWhitespace, NextNonWhitespaceStringIs, LexCommon and every
  Lex*, ConstructToken, tokenCanBeOperator, SaveTokenType, IsName(Start)Char, getOperatorName,
  nameIsNodeType, nameIsAxisName), the overrides of grammars/leafref/leafref_lexer.go, and the `Lex`
  wrappers with their token maps (unmapped tokens reach the parser as raw values = `.raw`).

  Input is a byte string; `decode` mirrors `utf8.DecodeRune` (an invalid byte is one rune `ERR`
  of width 1).  Runes are natural numbers; EOF = 0 and ERR = 0xF001 as in xutils/tokens.go, so a NUL
  byte *is* EOF and a genuine U+F001 *is* ERR, exactly as in the code.
-/
import YV.Model.XEval
namespace YV.XL

open YV YV.X

abbrev Rune := Nat
def EOF : Rune := 0
def ERR : Rune := 0xF001     -- xutils.ERR = 0xF000 + iota with iota = 1

structure SrcRune where
  cp : Rune
  w : Nat          -- width in source bytes
  deriving Repr, DecidableEq

/-- `utf8.DecodeRune` on the head of a byte list: (rune, width); invalid → (0xFFFD-as-ERR, 1). -/
def decodeOne : List Nat → Option (SrcRune × List Nat)
  | [] => none
  | b0 :: rest =>
    let bad : Option (SrcRune × List Nat) := some (⟨ERR, 1⟩, rest)
    let cont (b : Nat) : Bool := 0x80 ≤ b && b ≤ 0xBF
    if b0 < 0x80 then some (⟨b0, 1⟩, rest)
    else if 0xC2 ≤ b0 && b0 ≤ 0xDF then
      match rest with
      | b1 :: r1 => if cont b1 then some (⟨(b0 - 0xC0) * 64 + (b1 - 0x80), 2⟩, r1) else bad
      | _ => bad
    else if 0xE0 ≤ b0 && b0 ≤ 0xEF then
      match rest with
      | b1 :: b2 :: r2 =>
        let lo := if b0 = 0xE0 then 0xA0 else 0x80
        let hi := if b0 = 0xED then 0x9F else 0xBF
        if lo ≤ b1 && b1 ≤ hi && cont b2 then
          some (⟨(b0 - 0xE0) * 4096 + (b1 - 0x80) * 64 + (b2 - 0x80), 3⟩, r2)
        else bad
      | _ => bad
    else if 0xF0 ≤ b0 && b0 ≤ 0xF4 then
      match rest with
      | b1 :: b2 :: b3 :: r3 =>
        let lo := if b0 = 0xF0 then 0x90 else 0x80
        let hi := if b0 = 0xF4 then 0x8F else 0xBF
        if lo ≤ b1 && b1 ≤ hi && cont b2 && cont b3 then
          some (⟨(b0 - 0xF0) * 262144 + (b1 - 0x80) * 4096 + (b2 - 0x80) * 64 + (b3 - 0x80), 4⟩, r3)
        else bad
      | _ => bad
    else bad

def decodeAux : Nat → List Nat → List SrcRune
  | 0, _ => []
  | fuel + 1, bs =>
    match decodeOne bs with
    | none => []
    | some (r, rest) => r :: decodeAux fuel rest

/-- the whole input as the sequence of runes `Next()` will deliver (before the NUL = EOF quirk) -/
def decode (bs : List Nat) : List SrcRune := decodeAux bs.length bs

/-- UTF-8 length of `string(rune)` in Go (invalid code points become U+FFFD, 3 bytes) -/
def encLen (c : Rune) : Nat :=
  if c < 0x80 then 1 else if c < 0x800 then 2
  else if 0xD800 ≤ c && c ≤ 0xDFFF then 3
  else if c < 0x10000 then 3 else if c ≤ 0x10FFFF then 4 else 3

inductive Grammar | expr | leafref | pathEval
  deriving DecidableEq, Repr

inductive Tok where
  | eof | err
  | num (x : SF)
  | lit (s : List Rune)
  | func (f : Fn)
  | textfunc | currentfunc | dereffunc
  | nodetype (n : List Rune)
  | axisname (n : List Rune)
  | nametest (pfx loc : List Rune)
  | dotdot | dblslash | dblcolon | gt | ge | lt | le | eq | ne | or | and | mod | div
  | ch (c : Rune)
  | raw            -- a common-token value the grammar's token map does not translate
  deriving DecidableEq, Repr

/-- prefix resolver (`PfxMapFn`): `none` = no map function; `some ps` = exactly these prefixes resolve
    (the empty prefix always does) -/
abbrev PfxMap := Option (List (List Rune))

structure LexSt where
  line : List SrcRune
  peek : Rune := 0
  peekW : Nat := 0                  -- bookkeeping only: source width of the peeked rune
  prec : Option Tok := none         -- preceding token (none = EOF initial value)
  err : Option String := none
  deriving Repr

def isWS (c : Rune) : Bool := c = 9 || c = 13 || c = 10 || c = 32
def isDigitR (c : Rune) : Bool := 48 ≤ c && c ≤ 57
def chr (c : Char) : Rune := c.toNat

/-- `Next()` -/
def next (s : LexSt) : Rune × LexSt :=
  if s.peek ≠ 0 then (s.peek, { s with peek := 0, peekW := 0 })
  else match s.line with
    | [] => (EOF, s)
    | r :: rest => (if r.cp = 0 then ERR else r.cp, { s with line := rest })   -- a NUL byte is rejected

def setPeek (s : LexSt) (c : Rune) : LexSt := { s with peek := c, peekW := if c = ERR then 1 else encLen c }

/-- bytes that `string(x.peek) + string(x.line)` has in `CommonLex.Error` (ERR re-encodes to 3 bytes;
    after the fix an invalid byte that was read ahead counts as the single byte it is) -/
def restLen (fixed : Bool) (s : LexSt) : Nat :=
  (if s.peek = 0 then 0 else if fixed && s.peek = ERR then 1 else encLen s.peek) +
    (s.line.foldl (fun a r => a + r.w) 0)

def nameStartCommon (c : Rune) : Bool :=
  (65 ≤ c && c ≤ 90) || c = 95 || (97 ≤ c && c ≤ 122) ||
  (0xC0 ≤ c && c ≤ 0xD6) || (0xD8 ≤ c && c ≤ 0xF6) || (0xF8 ≤ c && c ≤ 0x2FF) ||
  (0x370 ≤ c && c ≤ 0x37D) || (0x37F ≤ c && c ≤ 0x1FFF) || (0x200C ≤ c && c ≤ 0x200D) ||
  (0x2070 ≤ c && c ≤ 0x218F) || (0x2C00 ≤ c && c ≤ 0x2FEF) || (0x3001 ≤ c && c ≤ 0xD7FF) ||
  (0xF900 ≤ c && c ≤ 0xFDCF) || (0xFDF0 ≤ c && c ≤ 0xFFFD) || (0x10000 ≤ c && c ≤ 0xEFFFF)

def nameCharCommon (c : Rune) : Bool :=
  nameStartCommon c || c = 45 || c = 46 || isDigitR c || c = 0xB7 ||
  (0x300 ≤ c && c ≤ 0x36F) || (0x203F ≤ c && c ≤ 0x2040)

def nameStartLeafref (c : Rune) : Bool := (65 ≤ c && c ≤ 90) || c = 95 || (97 ≤ c && c ≤ 122)
def nameCharLeafref (c : Rune) : Bool := nameStartLeafref c || c = 45 || c = 46 || isDigitR c

/-- `ConstructToken`: first rune always added; stops at the first non-matching rune, which becomes
    `peek`; a matching EOF sets the error.  Returns (buffer, state).  Fuel = remaining runes + 1. -/
def constructToken (c : Rune) (m : Rune → Bool) (tokName : String) (s : LexSt) : List Rune × LexSt :=
  let rec go : Nat → List Rune → LexSt → List Rune × LexSt
    | 0, acc, s => (acc.reverse, s)
    | fuel + 1, acc, s =>
      let (c, s1) := next s
      if m c then
        if c = EOF then (acc.reverse, setPeek { s1 with err := some s!"End of {tokName} token not detected." } c)
        else if c = ERR then (acc.reverse, setPeek { s1 with err := some "Invalid UTF-8 input" } c)
        else go fuel (c :: acc) s1
      else (acc.reverse, setPeek s1 c)
  go (s.line.length + 2) [c] s

/-- the module-level `next(line)` used by `NextNonWhitespaceStringIs` (does not consume) -/
def peekLine : List SrcRune → Rune × List SrcRune
  | [] => (EOF, [])
  | r :: rest => if r.cp = ERR && r.w = 1 then (ERR, []) else (r.cp, rest)

def skipWSLine : Nat → Rune → List SrcRune → Rune × List SrcRune
  | 0, lc, l => (lc, l)
  | f + 1, lc, l => if isWS lc then let (c, l') := peekLine l; skipWSLine f c l' else (lc, l)

def cmpRest : List Rune → Rune → List SrcRune → Bool
  | [], _, _ => true
  | ec :: es, lc, l =>
    if lc = EOF || lc = ERR then false
    else if ec ≠ lc then false
    else let (c, l') := peekLine l; cmpRest es c l'

/-- `NextNonWhitespaceStringIs` -/
def nnwsIs (expr : List Rune) (s : LexSt) : Bool :=
  let go (expr : List Rune) : Bool :=
    let (lc, l) := peekLine s.line
    let (lc, l) := skipWSLine (s.line.length + 1) lc l
    cmpRest expr lc l
  if s.peek ≠ 0 && !isWS s.peek then
    match expr with
    | [] => true
    | e0 :: es =>
      if s.peek ≠ e0 then false
      else if es.isEmpty then true
      else go es
  else go expr

/-- `NextNonWhitespace` -/
def nextNonWS (s : LexSt) : Rune × LexSt :=
  let rec go : Nat → Rune → LexSt → Rune × LexSt
    | 0, c, s => (c, s)
    | f + 1, c, s => if c ≠ EOF && isWS c then let (c', s') := next s; go f c' s' else (c, s)
  let (c, s1) := next s
  go (s.line.length + 2) c s1

/-- `tokenCanBeOperator` on the preceding *common* token -/
def canBeOperator (p : Option Tok) : Bool :=
  match p with
  | none => false
  | some t =>
    match t with
    | .dblcolon | .and | .or | .mod | .div | .dblslash
    | .eq | .ne | .lt | .le | .gt | .ge => false
    | .ch c => !(c = chr '@' || c = chr '(' || c = chr '[' || c = chr ',' || c = chr '*' ||
                 c = chr '/' || c = chr '|' || c = chr '+' || c = chr '-')
    | _ => true

def strR (s : String) : List Rune := s.toList.map Char.toNat

def isNodeType (n : List Rune) : Bool :=
  n = strR "comment" || n = strR "text" || n = strR "processing-instruction" || n = strR "node"

def isAxisName (n : List Rune) : Bool :=
  ["ancestor-or-self", "attribute", "child", "descendant", "descendant-or-self", "following",
   "following-sibling", "namespace", "parent", "preceding", "preceding-sibling", "self"].any (strR · = n)

def runesToString (l : List Rune) : String :=
  String.ofList (l.map fun c => if c.isValidChar then Char.ofNat c else Char.ofNat 0xFFFD)

def lookupFn (n : List Rune) : Option Fn := Fn.ofName (runesToString n)

def pfxOk (pm : PfxMap) (p : List Rune) : Bool :=
  match pm with
  | none => true
  | some ps => p.isEmpty || ps.contains p

/-- digits/./e/E buffer → value as `strconv.ParseFloat` sees it (`none` = syntax error).
    mantissa `D+ ('.' D*)? | '.' D+`, optional exponent `[eE] D+`. -/
def parseGoFloat (b : List Rune) : Option SF :=
  let ip := b.takeWhile isDigitR
  let r1 := b.dropWhile isDigitR
  let (fp, r2, hadDot) := match r1 with
    | 46 :: r => (r.takeWhile isDigitR, r.dropWhile isDigitR, true)
    | r => ([], r, false)
  let _ := hadDot
  if ip.isEmpty && fp.isEmpty then none
  else
    let expo : Option Nat := match r2 with
      | [] => some 0
      | e :: ds => if (e = 101 || e = 69) && !ds.isEmpty && ds.all isDigitR then
                     some (ds.foldl (fun a c => if a > 100000 then a else a * 10 + (c - 48)) 0)
                   else none
    match expo with
    | none => none
    | some ex =>
      let m := (ip ++ fp).foldl (fun a c => a * 10 + (c - 48)) 0
      if m = 0 then some SF.zero
      else
        let mag : Int := Int.ofNat (SF.ndigits m) + Int.ofNat ex - Int.ofNat fp.length
        if mag > 320 then some (.inf false)
        else if mag < -340 then some SF.zero
        else some (SF.ofDecimal false m (Int.ofNat ex - Int.ofNat fp.length))

/-- `LexName` of CommonLex (grammar expr / path_eval) -/
def lexNameCommon (strict : Bool) (pm : PfxMap) (c : Rune) (s : LexSt) : Tok × LexSt :=
  let (name, s) := constructToken c nameCharCommon "NAME" s
  if canBeOperator s.prec then
    if name = strR "and" then (.and, s) else if name = strR "or" then (.or, s)
    else if name = strR "mod" then (.mod, s) else if name = strR "div" then (.div, s)
    else (.err, { s with err := some "Unrecognised operator name" })
  else if nnwsIs [chr '('] s then
    let generic : Tok × LexSt :=
      match lookupFn name with
      | some f => (.func f, s)
      | none => (.err, { s with err := some "Unknown function or node type" })
    if name = strR "text" then generic          -- "text" is not in the function table: falls through
    else if name = strR "current" then (.currentfunc, s)
    else if name = strR "deref" then (.dereffunc, s)
    else if isNodeType name then (.nodetype name, s)
    else generic
  else if nnwsIs [chr ':', chr ':'] s then
    if isAxisName name then (.axisname name, s)
    else (.err, { s with err := some "Unknown axis name" })
  else
    let fin (pfx loc : List Rune) (s : LexSt) : Tok × LexSt :=
      if pfxOk pm pfx then (.nametest pfx loc, s) else (.err, { s with err := some "unknown prefix" })
    -- strict (spec): a QName is one token, no whitespace around the colon
    let tight (s : LexSt) : Bool :=
      if s.peek ≠ 0 then !isWS s.peek else match s.line with | r :: _ => !isWS r.cp | [] => true
    if nnwsIs [chr ':'] s then
      if strict && !tight s then (.err, { s with err := some "whitespace inside QName" }) else
      let (c1, s) := nextNonWS s
      if c1 ≠ chr ':' then (.err, { s with err := some "Badly formatted QName" })
      else if strict && !tight s then (.err, { s with err := some "whitespace inside QName" })
      else if nnwsIs [chr '*'] s then
        let (c2, s) := nextNonWS s
        if c2 ≠ chr '*' then (.err, { s with err := some "Badly formatted QName (*)." })
        else fin name [chr '*'] s
      else
        let (c2, s) := nextNonWS s
        if c2 = EOF then (.err, { s with err := some "Name requires local part." })
        else if !nameStartCommon c2 then (.err, { s with err := some "Illegal local part start character" })
        else
          let (loc, s) := constructToken c2 nameCharCommon "NAME" s
          fin name loc s
    else fin [] name s

def startsWithXML (n : List Rune) : Bool :=
  match n with
  | a :: b :: c :: _ => (a = 120 || a = 88) && (b = 109 || b = 77) && (c = 108 || c = 76)
  | _ => false

/-- `LexName` of leafrefLex -/
def lexNameLeafref (strict : Bool) (pm : PfxMap) (c : Rune) (s : LexSt) : Tok × LexSt :=
  let _ := strict
  let (name, s) := constructToken c nameCharLeafref "NAME" s
  if nnwsIs [chr '('] s then
    if name ≠ strR "current" then (.err, { s with err := some "Function is not valid here." })
    else (.func .current, s)
  else
    let fin (pfx loc : List Rune) (s : LexSt) : Tok × LexSt :=
      if startsWithXML pfx || startsWithXML loc then (.err, { s with err := some "Neither part of name may begin with XML" })
      else if pfxOk pm pfx then (.nametest pfx loc, s) else (.err, { s with err := some "unknown prefix" })
    if nnwsIs [chr ':'] s then
      let (c1, s) := nextNonWS s
      if c1 ≠ chr ':' then (.err, { s with err := some "Badly formatted QName" })
      else
        let (c2, s) := nextNonWS s
        if c2 = EOF then (.err, { s with err := some "Name requires local part." })
        else if !nameStartLeafref c2 then (.err, { s with err := some "Illegal local part start character" })
        else
          let (loc, s) := constructToken c2 nameCharLeafref "NAME" s
          fin name loc s
    else fin [] name s

def isNumChar (c : Rune) : Bool := isDigitR c || c = 46 || c = 101 || c = 69

/-- one token: `LexCommon` without the whitespace loop (the caller skips whitespace) -/
def lexTok (strict : Bool) (g : Grammar) (pm : PfxMap) (c : Rune) (s : LexSt) : Tok × LexSt :=
  let lexNum (c : Rune) (s : LexSt) : Tok × LexSt :=
    if g = .leafref then (.err, { s with err := some "Numbers are not valid tokens." })
    else
      let (b, s) := constructToken c isNumChar "NUM" s
      if strict && b.any (fun c => c = 101 || c = 69) then (.err, { s with err := some "exponent in Number" }) else
      match parseGoFloat b with
      | some x => (.num x, s)
      | none => (.err, { s with err := some "bad number" })
  if c = EOF then (.eof, s)
  else if c = ERR then (.err, { s with err := some "Invalid UTF-8 input" })
  else if c = chr '"' || c = chr '\'' then
    let (c1, s) := next s
    if c1 = ERR then (.err, { s with err := some "Invalid UTF-8 input" })
    else if c1 ≠ c then
      let (b, s) := constructToken c1 (· ≠ c) "Literal" s
      let (_, s) := next s
      if s.err.isSome then (.err, s) else (.lit b, s)
    else if s.err.isSome then (.err, s) else (.lit [], s)
  else if c = chr '.' then
    let (n, s) := next s
    if g = .leafref then
      if n = chr '.' then (.dotdot, s) else (.err, { s with err := some "'.' is not a valid token." })
    else if n = chr '.' then (.dotdot, s)
    else if isDigitR n then lexNum c (setPeek s n)
    else (.ch c, setPeek s n)
  else if isDigitR c then lexNum c s
  else if c = chr '/' then
    let (n, s) := next s
    if n = chr '/' then (.dblslash, s) else (.ch c, setPeek s n)
  else if c = chr ':' then
    let (n, s) := next s
    if n = chr ':' then (.dblcolon, s) else (.err, { setPeek s n with err := some "':' only supported in QNames" })
  else if c = chr '*' then
    if g = .leafref then (.err, { s with err := some "'*' is not a valid token." })
    else if canBeOperator s.prec then (.ch c, s) else (.nametest [] [chr '*'], s)
  else if c = chr '+' || c = chr '-' || c = chr '(' || c = chr ')' || c = chr '@' || c = chr ',' ||
          c = chr '[' || c = chr ']' || c = chr '|' then
    if g = .leafref then
      if c = chr '[' || c = chr ']' || c = chr '(' || c = chr ')' then (.ch c, s)
      else (.err, { s with err := some "not a valid token." })
    else (.ch c, s)
  else if c = chr '=' then (.eq, s)
  else if c = chr '>' then
    let (n, s) := next s
    if n = chr '=' then (.ge, s) else (.gt, setPeek s n)
  else if c = chr '<' then
    let (n, s) := next s
    if n = chr '=' then (.le, s) else (.lt, setPeek s n)
  else if c = chr '!' then
    let (n, s) := next s
    if n = chr '=' then (.ne, s) else (.err, { setPeek s n with err := some "'!' only valid when followed by '='" })
  else if g = .leafref then
    if nameStartLeafref c then lexNameLeafref strict pm c s
    else (.err, { s with err := some "unrecognised character" })
  else if nameStartCommon c then lexNameCommon strict pm c s
  else (.err, { s with err := some "unrecognised character" })

/-- the grammar's `Lex` wrapper: value-type check and token map -/
def mapTok (g : Grammar) (t : Tok) : Tok :=
  match g with
  | .expr => t
  | .pathEval =>
    match t with
    | .textfunc | .currentfunc | .dereffunc => .raw
    | t => t
  | .leafref =>
    match t with
    | .eof | .err | .eq | .func _ | .dotdot | .nametest .. | .ch _ => t
    | .lit _ | .nodetype _ | .axisname _ => .err       -- string-valued tokens: `default: tok = ERR`
    | _ => .raw

/-- `LexCommon`: skip whitespace, lex one token, remember it as the preceding token -/
def lexCommon (strict : Bool) (g : Grammar) (pm : PfxMap) (s : LexSt) : Tok × LexSt :=
  let rec skip : Nat → LexSt → Rune × LexSt
    | 0, s => next s
    | f + 1, s => let (c, s1) := next s; if isWS c then skip f s1 else (c, s1)
  let (c, s1) := skip (s.line.length + 2) s
  let (t, s2) := lexTok strict g pm c s1
  let s3 := if t = .eof || t = .err then s2 else { s2 with prec := some t }
  (t, s3)

structure LexedTok where
  tok : Tok              -- as delivered to the parser (after the grammar's token map)
  rest : Nat             -- `restLen` (unfixed) after this token
  restFixed : Nat
  lerr : Bool := false   -- the lexer's error is set (a wrapper-made ERR token has none)
  deriving Repr

/-- all tokens up to and including the first EOF / ERR (the parser never asks further) -/
def lexAllAux (strict : Bool) (g : Grammar) (pm : PfxMap) : Nat → LexSt → List LexedTok × LexSt
  | 0, s => ([], s)
  | f + 1, s =>
    let (t, s1) := lexCommon strict g pm s
    let mt := mapTok g t
    let lt : LexedTok := ⟨mt, restLen false s1, restLen true s1, s1.err.isSome⟩
    if t = .eof || t = .err then ([lt], s1)
    else let (r, sf) := lexAllAux strict g pm f s1; (lt :: r, sf)

def lexAll (strict : Bool) (g : Grammar) (pm : PfxMap) (bs : List Nat) : List LexedTok × LexSt :=
  let runes := decode bs
  lexAllAux strict g pm (runes.length + 2) { line := runes }

end YV.XL
