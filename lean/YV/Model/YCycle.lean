/-
  Model.YCycle — the cycle check the compiler applies to features (isFeatureValid), groupings
  (validateGrouping / validateUsesBelow) and typedefs (BuildBaseType with typedefChain): a depth-first
  walk that remembers the chain of references that led to the node it is looking at, and reports a cycle
  when a node is reached that is on that chain.  (After the repairs: before them the feature and grouping
  walks remembered every node ever visited, and the typedef walk remembered nothing.)
  `succ n` = the references written in definition `n`; `fuel` bounds the depth.
-/
namespace YV.Cyc

variable {α : Type} [DecidableEq α]

inductive Res | ok | cycle | outOfFuel
  deriving DecidableEq, Repr

mutual
def walk (succ : α → List α) : Nat → List α → α → Res
  | 0, _, _ => .outOfFuel
  | fuel + 1, chain, n =>
    if n ∈ chain then .cycle else walkAll succ fuel (n :: chain) (succ n)
def walkAll (succ : α → List α) : Nat → List α → List α → Res
  | 0, _, _ => .outOfFuel
  | _ + 1, _, [] => .ok
  | fuel + 1, chain, m :: r =>
    match walk succ fuel chain m with
    | .ok => walkAll succ fuel chain r
    | e => e
end

/-- a path of references `n = x₀ → x₁ → … → x_k` -/
inductive Path (succ : α → List α) : α → List α → α → Prop
  | nil (n : α) : Path succ n [] n
  | cons {n m z : α} {p : List α} : m ∈ succ n → Path succ m p z → Path succ n (m :: p) z

/-- `n` reaches a cycle: a path from `n` to some `x`, and a non-empty path from `x` back to `x` -/
def ReachesCycle (succ : α → List α) (n : α) : Prop :=
  ∃ x p q, Path succ n p x ∧ q ≠ [] ∧ Path succ x q x

end YV.Cyc
