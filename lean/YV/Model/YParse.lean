/-
  Model.YParse — the YANG lexer and statement parser of sdcio/yang-parser.

  Mirrors parse/lex.go (lexStmt, lexComment, lexCommentLine, lexString, lexSep, lexQuote, isTerminator,
  isSep, emit/errorf positions) and parse/parse.go (next/peekNonSpace/expect, stmt, stmtBody, stmtStar,
  argument, argumentQuoted, argumentConcatenate, escapeSequenceSubstitution, openQuotePos, trimLeadWS,
  trimWhitespace, errorf position).  The lexer goroutine + unbuffered channel is a producer list and a
  consumer cursor: `consumed` = how many items the parser took; the goroutine survives the call iff the
  parser stops before the lexer's last item and nobody drains the rest (after the fix `stopParse` drains).

  Every delimiter is ASCII and UTF-8 continuation bytes are ≥ 0x80, so the lexer is modelled on bytes
  (rune-wise and byte-wise scanning cut at the same places); only `openQuotePos`/`trimLeadWS`, which count
  columns in runes, decode UTF-8.
-/
import YV.Model.XLex
namespace YV.Y

abbrev Bytes := List Nat

inductive ITyp | error | eof | lbrace | rbrace | sep | string | semi | plus | quote
  deriving DecidableEq, Repr

structure Item where
  typ : ITyp
  pos : Nat
  val : Bytes        -- for `error`: the message
  deriving Repr, DecidableEq

def isSep (c : Nat) : Bool := c = 32 || c = 9 || c = 13 || c = 10
def isTerminator (c : Nat) : Bool := isSep c || c = 59 || c = 123 || c = 34 || c = 125

def msg (s : String) : Bytes := s.toUTF8.toList.map UInt8.toNat

/-- index of the first occurrence of the two-byte pattern (a,b) -/
def find2 (a b : Nat) : Bytes → Option Nat
  | x :: y :: r => if x = a && y = b then some 0 else (find2 a b (y :: r)).map (· + 1)
  | _ => none

def find1 (a : Nat) : Bytes → Option Nat
  | [] => none
  | x :: r => if x = a then some 0 else (find1 a r).map (· + 1)

/-- content of a quoted string up to (not including) the closing quote; `none` = unterminated -/
def scanQuoted (q : Nat) : Nat → Bytes → Option (Bytes × Bytes)
  | 0, _ => none
  | _ + 1, [] => none
  | f + 1, c :: r =>
    if c = 92 then
      if q = 39 then (scanQuoted q f r).map fun (s, rest) => (c :: s, rest)
      else match r with
        | [] => none
        | d :: r' => (scanQuoted q f r').map fun (s, rest) => (c :: d :: s, rest)
    else if c = q then some ([], c :: r)
    else (scanQuoted q f r).map fun (s, rest) => (c :: s, rest)

/-- `lexStmt` and the states it dispatches to; produces the items the goroutine would send, ending with
    an EOF or an Error item.  `fixedEOF`: after the repair an unquoted string ends at end of input;
    before it the lexer spins forever there (`none` = diverges). -/
def lexItems (fixedEOF : Bool) : Nat → Bytes → Nat → Nat → Option (List Item)
  | 0, _, _, _ => some []
  | f + 1, rest, pos, depth =>
    match rest with
    | [] =>
      if depth > 0 then some [⟨.error, pos, msg "unterminated statement block"⟩]
      else some [⟨.eof, pos, []⟩]
    | c :: r =>
      if c = 47 && r.head? = some 42 then
        -- /* … */
        match find2 42 47 (r.drop 1) with
        | none => some [⟨.error, pos, msg "unclosed comment"⟩]
        | some i => lexItems fixedEOF f (r.drop (1 + i + 2)) (pos + 2 + i + 2) depth
      else if c = 47 && r.head? = some 47 then
        match find1 10 (r.drop 1) with
        | none =>
          -- (after the repair) the comment ends with the text: the last line need not end in a line break
          lexItems fixedEOF f [] (pos + 2 + (r.drop 1).length) depth
        | some i => lexItems fixedEOF f (r.drop (1 + i + 1)) (pos + 2 + i + 1) depth
      else if isSep c then
        let run := r.takeWhile isSep
        (lexItems fixedEOF f (r.drop run.length) (pos + 1 + run.length) depth).map
          (⟨.sep, pos, c :: run⟩ :: ·)
      else if c = 34 || c = 39 then
        match scanQuoted c (r.length + 1) r with
        | none => some [⟨.quote, pos, [c]⟩, ⟨.error, pos + 1, msg "unterminated quoted string"⟩]
        | some (s, rest') =>
          let p2 := pos + 1 + s.length
          (lexItems fixedEOF f (rest'.drop 1) (p2 + 1) depth).map
            ([⟨.quote, pos, [c]⟩, ⟨.string, pos + 1, s⟩, ⟨.quote, p2, [c]⟩] ++ ·)
      else if c = 123 then
        (lexItems fixedEOF f r (pos + 1) (depth + 1)).map (⟨.lbrace, pos, [c]⟩ :: ·)
      else if c = 125 then
        if depth = 0 then some [⟨.rbrace, pos, [c]⟩, ⟨.error, pos + 1, msg "unexpected right bracket"⟩]
        else (lexItems fixedEOF f r (pos + 1) (depth - 1)).map (⟨.rbrace, pos, [c]⟩ :: ·)
      else if c = 59 then (lexItems fixedEOF f r (pos + 1) depth).map (⟨.semi, pos, [c]⟩ :: ·)
      else if c = 43 then (lexItems fixedEOF f r (pos + 1) depth).map (⟨.plus, pos, [c]⟩ :: ·)
      else
        let run := (c :: r).takeWhile (fun x => !isTerminator x)
        let rest' := (c :: r).drop run.length
        if rest'.isEmpty && !fixedEOF then none      -- lexString never sees a terminator: spins
        else (lexItems fixedEOF f rest' (pos + run.length) depth).map (⟨.string, pos, run⟩ :: ·)

def lex (fixedEOF : Bool) (input : Bytes) : Option (List Item) := lexItems fixedEOF (input.length + 2) input 0 0

/-! ### argument decoding (RFC 6020 §6.1.3) -/

/-- `escapeSequenceSubstitution`: the Split-on-backslash algorithm, transcribed -/
def splitOn92 (s : Bytes) : List Bytes :=
  let rec go (cur : Bytes) (acc : List Bytes) : Bytes → List Bytes
    | [] => (cur.reverse :: acc).reverse
    | c :: r => if c = 92 then go [] (cur.reverse :: acc) r else go (c :: cur) acc r
  go [] [] s

def escOf (c : Nat) : Option Nat :=
  if c = 110 then some 10 else if c = 114 then some 13 else if c = 116 then some 9
  else if c = 34 then some 34 else if c = 92 then some 92 else none

def escapeSubst (s : Bytes) : Bytes :=
  if s.isEmpty then s else
  let parts := splitOn92 s
  let rec go (i : Nat) (skip : Bool) (rs : Bytes) : List Bytes → Bytes
    | [] => rs
    | st :: more =>
      if st.isEmpty then
        if !skip && i > 0 then go (i + 1) true (rs ++ [92]) more
        else go (i + 1) false rs more
      else if i > 0 && !skip then
        match st with
        | c :: tl => (match escOf c with
          | some sub => go (i + 1) skip (rs ++ sub :: tl) more
          | none => go (i + 1) skip (rs ++ 92 :: st) more)
        | [] => go (i + 1) skip rs more
      else go (i + 1) false (rs ++ st) more
  go 0 false [] parts

/-- column width of the text before the string content on its line: a tab counts 8, any other rune 1 -/
def leadWidth (lead : Bytes) : Nat :=
  (XL.decode lead).foldl (fun a r => a + (if r.cp = 9 then 8 else 1)) 0

/-- `trimLeadWS` -/
def trimLeadWS (trimLen : Nat) : Nat → Bytes → Bytes
  | _, [] => []
  | ws, c :: r =>
    if c = 32 then
      if ws + 1 ≥ trimLen then List.replicate (ws + 1 - trimLen) 32 ++ r else trimLeadWS trimLen (ws + 1) r
    else if c = 9 then
      if ws + 8 ≥ trimLen then List.replicate (ws + 8 - trimLen) 32 ++ r else trimLeadWS trimLen (ws + 8) r
    else c :: r

def splitLF (s : Bytes) : List Bytes :=
  let rec go (cur : Bytes) (acc : List Bytes) : Bytes → List Bytes
    | [] => (cur.reverse :: acc).reverse
    | c :: r => if c = 10 then go [] (cur.reverse :: acc) r else go (c :: cur) acc r
  go [] [] s

def trimRightBlanks (s : Bytes) : Bytes := (s.reverse.dropWhile (fun c => c = 32 || c = 9)).reverse

/-- `trimWhitespace`: escape sequences are substituted first, then every line of the result is
    trimmed (trailing blanks before each line break, indentation up to the quote column on continuation
    lines; after the repair an empty line keeps its line break).  `quotePos` = `openQuotePos`. -/
def trimWhitespace (quotePos : Nat) (s : Bytes) : Bytes :=
  let sub := escapeSubst s
  if !sub.contains 10 then sub
  else
    let lines := splitLF sub
    let n := lines.length
    let rec go (i : Nat) : List Bytes → Bytes
      | [] => []
      | st :: more =>
        let str := if i > 0 then trimLeadWS quotePos 0 st else st
        let piece :=
          if str.isEmpty then (if i + 1 ≠ n then [10] else [])
          else if i + 1 ≠ n then
            let (body, cr) := match str.reverse with
              | 13 :: b => (b.reverse, true)
              | _ => (str, false)
            trimRightBlanks body ++ (if cr then [13, 10] else [10])
          else str
        piece ++ go (i + 1) more
    go 0 lines

/-! ### the statement parser -/

inductive Stmt where
  | mk (kw : Bytes) (arg : Bytes) (pos : Nat) (subs : List Stmt)
  deriving Repr, Inhabited

inductive PErr where
  | unexpected (pos : Nat)        -- `errorf`: position of the last item received from the lexer
  | check (pos : Nat)             -- a statement check failed: position of the statement's keyword
  | fuel
  deriving Repr, DecidableEq

structure PS where
  items : List Item      -- not yet taken from the channel
  taken : Nat := 0       -- how many were received (next/peek both receive)
  lastPos : Nat := 0
  deriving Repr

abbrev P := Except (PErr × Nat)     -- error, items taken so far

def PS.fail {α} (s : PS) : P α := .error (.unexpected s.lastPos, s.taken)

/-- receive items until a non-separator; returns it without consuming (`peekNonSpace`) -/
def peekNS : Nat → PS → (Item × PS)
  | 0, s => (⟨.eof, 0, []⟩, s)
  | f + 1, s =>
    match s.items with
    | [] => (⟨.eof, s.lastPos, []⟩, s)        -- channel exhausted (cannot happen before EOF/Error)
    | it :: rest =>
      if it.typ = .sep then peekNS f { items := rest, taken := s.taken + 1, lastPos := it.pos }
      else (it, { s with lastPos := it.pos })

/-- `nextNonSpace` -/
def nextNS (s : PS) : Item × PS :=
  let (it, s1) := peekNS (s.items.length + 1) s
  match s1.items with
  | [] => (it, s1)
  | _ :: rest => (it, { items := rest, taken := s1.taken + 1, lastPos := it.pos })

def expectT (t : ITyp) (s : PS) : P (Item × PS) :=
  let (it, s1) := nextNS s
  if it.typ = t then pure (it, s1) else s1.fail

mutual
/-- `argumentQuoted` (opening quote already consumed); `input` is needed for `openQuotePos` -/
def argQuoted (input : Bytes) : Nat → PS → P (Bytes × PS)
  | 0, s => .error (.fuel, s.taken)
  | f + 1, s =>
    let (it, s0) := peekNS (s.items.length + 1) s
    if it.typ = .string then do
      let (_, s1) := nextNS s
      let (qt, s2) ← expectT .quote s1
      let _ := s0
      let piece :=
        if qt.val = [34] then
          -- openQuotePos: the content starts at qt.pos - |content|; its line starts after the previous LF
          let posStart := qt.pos - it.val.length
          let before := input.take posStart
          let lnBgn := match find1 10 before.reverse with | some i => posStart - i | none => 0
          trimWhitespace (leadWidth ((input.drop lnBgn).take (posStart - lnBgn))) it.val
        else it.val
      let (more, s3) ← argConcat input f s2
      pure (piece ++ more, s3)
    else if it.typ = .quote then do
      let (_, s1) := nextNS s
      argConcat input f s1
    else (nextNS s).2.fail
/-- `argumentConcatenate` -/
def argConcat (input : Bytes) : Nat → PS → P (Bytes × PS)
  | 0, s => .error (.fuel, s.taken)
  | f + 1, s =>
    let (it, _) := peekNS (s.items.length + 1) s
    if it.typ = .lbrace || it.typ = .semi then pure ([], s)
    else if it.typ = .plus then do
      let (_, s1) := nextNS s
      let (_, s2) ← expectT .quote s1
      argQuoted input f s2
    else (nextNS s).2.fail
end

/-- `argument` -/
def argument (input : Bytes) (s : PS) : P (Bytes × PS) :=
  let (it, _) := peekNS (s.items.length + 1) s
  if it.typ = .lbrace || it.typ = .semi then pure ([], s)
  else if it.typ = .string then let (i, s1) := nextNS s; pure (i.val, s1)
  else if it.typ = .quote then
    let (_, s1) := nextNS s
    argQuoted input (s.items.length + 2) s1
  else (nextNS s).2.fail

mutual
/-- `stmt`; `chk` is the statement check (`node.check`), applied when the statement is complete -/
def pStmt (chk : Stmt → Bool) (input : Bytes) : Nat → PS → P (Stmt × PS)
  | 0, s => .error (.fuel, s.taken)
  | f + 1, s => do
    let (id, s1) ← expectT .string s
    let (nx, _) := peekNS (s1.items.length + 1) s1
    let (arg, s2) ← if nx.typ = .lbrace then pure ([], s1) else argument input s1
    -- stmtBody
    let (delim, s3) := nextNS s2
    if delim.typ = .semi then
      let st := Stmt.mk id.val arg id.pos []
      if chk st then pure (st, s3) else .error (.check id.pos, s3.taken)
    else if delim.typ = .lbrace then do
      let (subs, s4) ← pStar chk input f s3
      let (_, s5) ← expectT .rbrace s4
      let st := Stmt.mk id.val arg id.pos subs
      if chk st then pure (st, s5) else .error (.check id.pos, s5.taken)
    else s3.fail
/-- `stmtStar` -/
def pStar (chk : Stmt → Bool) (input : Bytes) : Nat → PS → P (List Stmt × PS)
  | 0, s => .error (.fuel, s.taken)
  | f + 1, s =>
    let (nx, _) := peekNS (s.items.length + 1) s
    if nx.typ = .rbrace then pure ([], s)
    else do
      let (st, s1) ← pStmt chk input f s
      let (rest, s2) ← pStar chk input f s1
      pure (st :: rest, s2)
end

inductive Parsed where
  | ok (root : Stmt) (taken total : Nat)
  | err (line col : Nat) (taken total : Nat)
  | diverge
  | fuel
  deriving Repr

def lineCol (input : Bytes) (pos : Nat) : Nat × Nat :=
  let before := input.take pos
  let line := 1 + (before.filter (· = 10)).length
  let col := match find1 10 before.reverse with | some i => i | none => pos
  (line, col)

/-- `parse.Parse` on statements that carry no grammar checks (prefixed extension keywords) -/
def parse (chk : Stmt → Bool) (fixedEOF : Bool) (input : Bytes) : Parsed :=
  match lex fixedEOF input with
  | none => .diverge
  | some items =>
    let total := items.length
    let r : P (Stmt × PS) := do
      let (st, s1) ← pStmt chk input (items.length + 2) { items := items }
      let (_, s2) ← expectT .eof s1
      pure (st, s2)
    match r with
    | .ok (st, s) => .ok st s.taken total
    | .error (.fuel, _) => .fuel
    | .error (.unexpected pos, taken) => let (l, c) := lineCol input pos; .err l c taken total
    | .error (.check pos, taken) => let (l, c) := lineCol input pos; .err l c taken total

end YV.Y
