/-
  Model.YTypes — type construction through typedef chains and value validation.

  Mirrors compile/compile.go: createRangeBdry, validateRangeBoundaries, getRangeBoundary, getLength,
  getDefault, validateDefault, makeInteger/makeUinteger/makeDecimal64/makeString/makeBoolean/makeEmpty/
  makeEnumeration, BuildType/BuildBaseType/refineType (the chain), validateRestrictions;
  schema/types.go: integer/uinteger/decimal64/ystring/boolean/empty/enumeration/union `Validate`,
  Rb/Urb/Drb/Lb `Validate`, inttab/uinttab/fdtab; schema/decimal64_utils.go validateDecimal64String.
  Integers are exact (`Int`); decimal64 bounds are binary64 values (SF64), as in the code.
-/
import YV.Base.SF64
import YV.Model.YCheck
namespace YV.T
open YV YV.Y

/-! ### range restriction, generic in the boundary type -/

structure Ops (α : Type) where
  lt : α → α → Bool
  contiguous : α → α → Bool          -- may `lower` and the following `higher` be merged?

/-- one part of a range / length argument: `none` = the keyword min / max -/
structure Part (α : Type) where
  lo : Option α
  hi : Option α

def firstLo {α} [Inhabited α] (base : List (α × α)) : α := (base.head?.map (·.1)).getD default
def lastHi {α} [Inhabited α] (base : List (α × α)) : α := (base.getLast?.map (·.2)).getD default

/-- the loop over the base ranges in `createRangeBdry`: find the (merged) base range that contains
    [start,end]; `false` = "derived range must be restrictive" -/
def blockMin {α} (o : Ops α) (cur : Option (α × α)) (cs : α) : α :=
  match cur with
  | none => cs
  | some (mn, mx) => if o.contiguous mx cs then mn else cs

def fitsBase {α} (o : Ops α) (start stop : α) : Option (α × α) → List (α × α) → Bool
  | _, [] => true                     -- fell off the end: no error is raised (see createRangeBdry)
  | cur, (cs, ce) :: rest =>
    let rangeMin := blockMin o cur cs
    if !o.lt start rangeMin && !o.lt ce stop then true
    else if o.lt start rangeMin then false
    else fitsBase o start stop (some (rangeMin, ce)) rest

/-- `validateRangeBoundaries` -/
def orderedDisjoint {α} (o : Ops α) : List (α × α) → Bool
  | [] => true
  | [(s, e)] => !o.lt e s
  | (s1, e1) :: (s2, e2) :: rest =>
    !o.lt e1 s1 && !o.lt s2 s1 && o.lt e1 s2 && orderedDisjoint o ((s2, e2) :: rest)

/-- `createRangeBdry` + `validateRangeBoundaries` -/
def stepPart {α} [Inhabited α] (o : Ops α) (base : List (α × α)) (p : Part α) : Option (α × α) :=
  let bmin := firstLo base
  let bmax := lastHi base
  let start := p.lo.getD bmin
  let stop := p.hi.getD bmax
  if p.lo.isSome && o.lt start bmin then none
  else if p.hi.isSome && o.lt bmax stop then none
  else if !fitsBase o start stop none base then none
  else some (start, stop)

def restrict {α} [Inhabited α] (o : Ops α) (base : List (α × α)) (parts : List (Part α)) : Option (List (α × α)) :=
  match parts.mapM (stepPart o base) with
  | none => none
  | some rs => if rs.isEmpty then none else if orderedDisjoint o rs then some rs else none

def intOps : Ops Int := { lt := fun a b => a < b, contiguous := fun lo hi => lo + 1 == hi }
def sfOps : Ops SF := { lt := SF.flt, contiguous := fun _ _ => false }

instance : Inhabited SF := ⟨SF.zero⟩

/-! ### lexical forms -/

def allDigits (s : Bytes) : Bool := !s.isEmpty && s.all YC.isDig
def natOf (s : Bytes) : Nat := s.foldl (fun a c => a * 10 + (c - 48)) 0

/-- `strconv.ParseInt(s, 10, _)` syntax: optional sign, digits -/
def parseSigned (s : Bytes) : Option Int :=
  match s with
  | 45 :: r => if allDigits r then some (-(Int.ofNat (natOf r))) else none
  | 43 :: r => if allDigits r then some (Int.ofNat (natOf r)) else none
  | r => if allDigits r then some (Int.ofNat (natOf r)) else none

/-- a range boundary as written (after the parser's lexical check): integer or decimal -/
def boundaryInt (s : Bytes) : Option Int :=
  match s with
  | 45 :: r => if allDigits r then some (-(Int.ofNat (natOf r))) else none
  | r => if allDigits r then some (Int.ofNat (natOf r)) else none

/-- sign and remaining text of a decimal -/
def decSign : Bytes → Bool × Bytes
  | 45 :: r => (true, r)
  | 43 :: r => (false, r)
  | r => (false, r)

/-- decimal text `[+-]? D+ ('.' D+)?` → (negative, digits as a natural number, number of fraction digits) -/
def parseDecimalText (s : Bytes) : Option (Bool × Nat × Nat) :=
  let neg := (decSign s).1
  let body := (decSign s).2
  let ip := body.takeWhile YC.isDig
  let rest := body.dropWhile YC.isDig
  if ip.isEmpty then none
  else match rest with
    | [] => some (neg, natOf ip, 0)
    | 46 :: fr => if allDigits fr then some (neg, natOf (ip ++ fr), fr.length) else none
    | _ => none

def sfOfDecimalText (s : Bytes) : Option SF :=
  (parseDecimalText s).map fun (neg, d, k) => SF.ofDecimal neg d (Int.neg (Int.ofNat k))

/-! ### types -/

inductive Ty where
  | int (w : Nat) (rs : List (Int × Int))
  | uint (w : Nat) (rs : List (Int × Int))
  | dec (fd : Nat) (rs : List (SF × SF))
  | str (lens : List (Int × Int)) (npats : Nat)      -- patterns: opaque (RE2), only counted
  | bool
  | empty
  | enum (names : List Bytes)
  deriving Repr

def inRanges (rs : List (Int × Int)) (v : Int) : Bool := rs.any fun (a, b) => a ≤ v && v ≤ b

def utf8Len (s : Bytes) : Nat := (XL.decode s).length

/-- schema/decimal64_utils.go validateDecimal64String (after the repair the integer-only form gets the
    same scaled bound check as the two-part form) -/
def dec64LexOK (fd : Nat) (s : Bytes) : Bool :=
  match parseDecimalText s with
  | none => false
  | some (neg, _, k) =>
    if k > fd then false
    else
      let body := (decSign s).2
      let ip := natOf (body.takeWhile YC.isDig)
      let fr := natOf ((body.dropWhile YC.isDig).drop 1) * 10 ^ (fd - k)
      let denom := 10 ^ fd
      let maxU := (2 ^ 63 - 1) / denom
      let maxL := (2 ^ 63 - 1) % denom
      -- upperBits must parse as int64
      if ip > (if neg then 2 ^ 63 else 2 ^ 63 - 1) then false
      else if !neg then
        if ip > maxU then false else if ip = maxU then fr ≤ maxL else true
      else
        -- minDecimal64 / denominator truncates toward zero: the magnitude is the same quotient
        if ip > maxU then false else if ip = maxU then fr ≤ maxL + 1 else true

/-- an optional leading '+' (RFC 6020 §9.2.1) -/
def stripPlus : Bytes → Bytes
  | 43 :: r => r
  | r => r

/-- what `uinteger.Validate` hands to `strconv.ParseUint` (which accepts no sign): a leading '+' is dropped, and
    (after the repair) so is the '-' of a minus zero: RFC 6020 §9.2.1 gives every integer type an optional sign -/
def uintDigits : Bytes → Bytes
  | 43 :: r => r
  | 45 :: r => if !r.isEmpty && r.all (· = 48) then r else 45 :: r
  | r => r

/-- `Type.Validate` -/
def validate (t : Ty) (s : Bytes) : Bool :=
  match t with
  | .int w rs =>
    (match parseSigned s with
     | some v => -(2 ^ (w - 1) : Int) ≤ v && v ≤ 2 ^ (w - 1) - 1 && inRanges rs v
     | none => false)
  | .uint w rs =>
    -- strconv.ParseUint: digits only (after the repair a leading '+' is accepted as RFC 6020 §9.2.1 allows)
    (let r := uintDigits s
     if allDigits r then (let v := Int.ofNat (natOf r); v ≤ 2 ^ w - 1 && inRanges rs v) else false)
  | .dec fd rs =>
    (match sfOfDecimalText s with
     | some f => dec64LexOK fd s && rs.any fun (a, b) => !(SF.flt f a || SF.fgt f b)
     | none => false)
  | .str lens _ => inRanges lens (Int.ofNat (utf8Len s))
  | .bool => s = msg "true" || s = msg "false"
  | .empty => s.isEmpty
  | .enum names => names.contains s

/-! ### building a type through a typedef chain -/

inductive BaseKind | int (w : Nat) | uint (w : Nat) | dec (fd : Nat) | str | bool | empty | enum (names : List Bytes)
  deriving Repr

/-- one `type` statement of the chain: its range/length restriction as written, and the default of the
    typedef (or leaf) that encloses it -/
structure Level where
  restr : Option (List (Bytes × Bytes))     -- parts (lo, hi) as text; "min"/"max" keywords included
  isLength : Bool := false
  dflt : Option Bytes := none
  deriving Repr

def fdBounds (fd : Nat) : SF × SF :=
  -- fdtab: ∓(2^63, 2^63-1) / 10^fd as binary64 literals
  (SF.ofDecimal true (2 ^ 63) (Int.neg (Int.ofNat fd)), SF.ofDecimal false (2 ^ 63 - 1) (Int.neg (Int.ofNat fd)))

def initial : BaseKind → Ty
  | .int w => .int w [(-(2 ^ (w - 1) : Int), 2 ^ (w - 1) - 1)]
  | .uint w => .uint w [(0, 2 ^ w - 1)]
  | .dec fd => .dec fd [fdBounds fd]
  | .str => .str [(0, 2 ^ 32 - 1)] 0            -- NewString: the initial length range is that of uint32
  | .bool => .bool
  | .empty => .empty
  | .enum ns => .enum ns

/-- a part as written: (lower, upper) boundary texts; a part that is one boundary only has it twice — the keyword
    alone, `max` or `min`, is (after the repair) the single value max or min of the base `rs` -/
def partOf {α} [Inhabited α] (conv : Bytes → Option α) (rs : List (α × α)) (p : Bytes × Bytes) : Option (Part α) :=
  if p.1 = msg "max" && p.2 = msg "max" then some ⟨some (lastHi rs), none⟩
  else if p.1 = msg "min" && p.2 = msg "min" then some ⟨none, some (firstLo rs)⟩
  else
  let lo := if p.1 = msg "min" then some none else (conv p.1).map some
  let hi := if p.2 = msg "max" then some none else (conv p.2).map some
  match lo, hi with
  | some l, some h => some ⟨l, h⟩
  | _, _ => none

def singleKeyword (p : Bytes × Bytes) : Bool :=
  (p.1 = msg "max" && p.2 = msg "max") || (p.1 = msg "min" && p.2 = msg "min")

/-- apply one level's restriction (`getRangeBoundary` / `getLength` + `validateRestrictions`) -/
def applyLevel (t : Ty) (lv : Level) : Option Ty :=
  match lv.restr with
  | none => some t
  | some parts =>
    -- the parser has already refused boundaries that are not min / max / integer-value / decimal-value
    if !(parts.all fun p => singleKeyword p || ((p.1 = msg "min" || YC.numBoundaryOK p.1) && (p.2 = msg "max" || YC.numBoundaryOK p.2))) then none else
    match t with
    | .int w rs =>
      if lv.isLength then none else
      (parts.mapM (partOf boundaryInt rs)).bind fun ps => (restrict intOps rs ps).map (.int w)
    | .uint w rs =>
      if lv.isLength then none else
      (parts.mapM (partOf (fun b => (boundaryInt b).bind fun v => if v < 0 then none else some v) rs)).bind fun ps =>
        (restrict intOps rs ps).map (.uint w)
    | .dec fd rs =>
      if lv.isLength then none else
      (parts.mapM (partOf sfOfDecimalText rs)).bind fun ps => (restrict sfOps rs ps).map (.dec fd)
    | .str lens n =>
      if !lv.isLength then none else
      (parts.mapM (partOf (fun b => (boundaryInt b).bind fun v => if v < 0 then none else some v) lens)).bind fun ps =>
        (restrict intOps lens ps).map (fun l => .str l n)
    | _ => none          -- range / length do not apply to boolean, empty, enumeration

/-- `getDefault`: a level's own default overrides the inherited one -/
def nearer (own inherited : Option Bytes) : Option Bytes :=
  match own with | some x => some x | none => inherited

/-- `BuildType`: innermost level first; at every level the default in force must validate -/
def build (k : BaseKind) (levels : List Level) : Option (Ty × Option Bytes) :=
  let rec go (t : Ty) (d : Option Bytes) : List Level → Option (Ty × Option Bytes)
    | [] => some (t, d)
    | lv :: rest =>
      match applyLevel t lv with
      | none => none
      | some t' =>
        let d' := nearer lv.dflt d      -- getDefault: nearest definition wins
        match d' with
        | some dv => if validate t' dv then go t' d' rest else none
        | none => go t' d' rest
  go (initial k) none levels

end YV.T
