/-
  Proofs.XLexWS — whitespace in front of a token is insignificant: with no rune held in `peek`,
  lexing `ws ++ rest` delivers the same token and leaves the same state as lexing `rest`
  (any number of blanks, tabs, CR, LF; all three grammars; strict or lenient).
-/
import YV.Model.XLex
namespace YV.XL
open YV

def AllWS (ws : List SrcRune) : Prop := ∀ r ∈ ws, isWS r.cp = true

theorem isWS_ne_zero (c : Rune) (h : isWS c = true) : c ≠ 0 := by
  intro e; subst e; simp [isWS] at h

theorem skip_ws (ws : List SrcRune) (h : AllWS ws) (s : LexSt) (hp : s.peek = 0) (l : List SrcRune) (f : Nat) :
    lexCommon.skip (f + ws.length) { s with line := ws ++ l } = lexCommon.skip f { s with line := l } := by
  induction ws generalizing s with
  | nil => simp
  | cons w ws ih =>
    have hw : isWS w.cp = true := h w (by simp)
    have hz : w.cp ≠ 0 := isWS_ne_zero _ hw
    have : f + (w :: ws).length = (f + ws.length) + 1 := by simp [Nat.add_assoc]
    rw [this, lexCommon.skip]
    have hp' : ¬ (({ s with line := w :: ws ++ l } : LexSt).peek ≠ 0) := by simp [hp]
    simp only [next, List.cons_append]
    rw [if_neg hp']
    simp only [hz, ↓reduceIte, hw]
    exact ih (fun r hr => h r (by simp [hr])) s hp

/-- inserting whitespace in front of a token changes neither the token nor the lexer state after it -/
theorem lexCommon_leading_ws (strict : Bool) (g : Grammar) (pm : PfxMap) (ws l : List SrcRune)
    (h : AllWS ws) (s : LexSt) (hp : s.peek = 0) :
    lexCommon strict g pm { s with line := ws ++ l } = lexCommon strict g pm { s with line := l } := by
  unfold lexCommon
  have : ({ s with line := ws ++ l } : LexSt).line.length + 2 = (l.length + 2) + ws.length := by
    simp [List.length_append]; omega
  rw [this, skip_ws ws h s hp l (l.length + 2)]

end YV.XL
