/-
  Proofs.YUnique — the key `getUniqueKey` builds for a tuple of values is injective (after the repair), so
  grouping the entries of a list by key is grouping them by tuple: two entries share a group iff they agree
  on every leaf of the unique set.
-/
import YV.Model.YData
import YV.Spec.YDataS
namespace YV.D
open YV YV.Y YV.SC

/-! ### decimal digits -/

def dval (ds : List Nat) : Nat := ds.foldl (fun a d => a * 10 + (d - 48)) 0

theorem dval_append (xs : List Nat) (d : Nat) : dval (xs ++ [d]) = dval xs * 10 + (d - 48) := by
  simp [dval, List.foldl_append]

theorem decDigits_val (f n : Nat) (h : n < f) : dval (decDigits f n) = n := by
  induction f generalizing n with
  | zero => omega
  | succ f ih =>
    simp only [decDigits]
    split
    · simp [dval]
    · rename_i hn
      rw [dval_append, ih (n / 10) (by omega)]
      omega

theorem decDigits_digit (f n : Nat) : ∀ d ∈ decDigits f n, 48 ≤ d ∧ d ≤ 57 := by
  induction f generalizing n with
  | zero => intro d hd; simp [decDigits] at hd
  | succ f ih =>
    intro d hd
    simp only [decDigits] at hd
    split at hd
    · simp at hd; omega
    · simp only [List.mem_append, List.mem_singleton] at hd
      rcases hd with h | h
      · exact ih (n / 10) d h
      · omega

theorem dec_inj (a b : Nat) (h : dec a = dec b) : a = b := by
  have ha := decDigits_val (a + 1) a (by omega)
  have hb := decDigits_val (b + 1) b (by omega)
  unfold dec at h
  rw [h] at ha
  omega

theorem dec_no_colon (n : Nat) : ∀ d ∈ dec n, d ≠ 58 := by
  intro d hd
  have := decDigits_digit (n + 1) n d hd
  omega

/-- two colon-free prefixes followed by a colon: the first colon decides where the prefix ends -/
theorem split_first_colon (xs ys r r' : List Nat) (hx : ∀ d ∈ xs, d ≠ 58) (hy : ∀ d ∈ ys, d ≠ 58)
    (h : xs ++ 58 :: r = ys ++ 58 :: r') : xs = ys ∧ r = r' := by
  induction xs generalizing ys with
  | nil =>
    cases ys with
    | nil => simp at h; exact ⟨rfl, h⟩
    | cons y ys =>
      simp only [List.nil_append, List.cons_append, List.cons.injEq] at h
      exact absurd h.1.symm (hy y (by simp))
  | cons x xs ih =>
    cases ys with
    | nil =>
      simp only [List.nil_append, List.cons_append, List.cons.injEq] at h
      exact absurd h.1 (hx x (by simp))
    | cons y ys =>
      simp only [List.cons_append, List.cons.injEq] at h
      obtain ⟨h1, h2⟩ := ih ys (fun d hd => hx d (by simp [hd])) (fun d hd => hy d (by simp [hd])) h.2
      exact ⟨by rw [h.1, h1], h2⟩

/-- **the key is injective**: different tuples of values never get the same key -/
theorem encTuple_inj (vs ws : List Bytes) (h : encTuple vs = encTuple ws) : vs = ws := by
  induction vs generalizing ws with
  | nil =>
    cases ws with
    | nil => rfl
    | cons w ws =>
      simp only [encTuple] at h
      have : (58 : Nat) ∈ ([] : List Nat) := by rw [h]; simp
      cases this
  | cons v vs ih =>
    cases ws with
    | nil =>
      simp only [encTuple] at h
      have : (58 : Nat) ∈ ([] : List Nat) := by rw [← h]; simp
      cases this
    | cons w ws =>
      simp only [encTuple] at h
      obtain ⟨h1, h2⟩ := split_first_colon _ _ _ _ (dec_no_colon _) (dec_no_colon _) h
      have hl : v.length = w.length := dec_inj _ _ h1
      have hv : v = w := by
        have := congrArg (List.take v.length) h2
        simpa [List.take_append_of_le_length, hl] using this
      subst hv
      have := List.append_cancel_left h2
      rw [ih ws this]


/-! ### grouping by key = grouping by tuple -/

theorem filter_map_inj {κ κ' : Type} [DecidableEq κ] [DecidableEq κ'] (f : κ → κ')
    (hf : ∀ a b, f a = f b → a = b) (l : List κ) (a : κ) :
    (l.map f).filter (fun b => !b == f a) = (l.filter (fun b => !b == a)).map f := by
  induction l with
  | nil => rfl
  | cons x r ih =>
    simp only [List.map_cons, List.filter_cons]
    by_cases hx : x = a
    · subst hx; simp [ih]
    · have : f x ≠ f a := fun h => hx (hf _ _ h)
      simp [hx, this, ih]

theorem eraseDups_map_inj {κ κ' : Type} [DecidableEq κ] [DecidableEq κ'] (f : κ → κ')
    (hf : ∀ a b, f a = f b → a = b) : ∀ (n : Nat) (l : List κ), l.length ≤ n →
    (l.map f).eraseDups = l.eraseDups.map f := by
  intro n
  induction n with
  | zero => intro l hl; cases l <;> simp_all
  | succ n ih =>
    intro l hl
    cases l with
    | nil => rfl
    | cons a r =>
      simp only [List.map_cons, List.eraseDups_cons]
      rw [filter_map_inj f hf r a]
      rw [ih (r.filter fun b => !b == a) (by
        have := List.length_filter_le (fun b => !b == a) r
        simp only [List.length_cons] at hl; omega)]

theorem filter_key_map_inj {κ κ' : Type} [DecidableEq κ] [DecidableEq κ'] (f : κ → κ')
    (hf : ∀ a b, f a = f b → a = b) (l : List (κ × Tok)) (k : κ) :
    (l.map fun p => (f p.1, p.2)).filter (fun x => decide (x.1 = f k)) =
      (l.filter (fun x => decide (x.1 = k))).map fun p => (f p.1, p.2) := by
  induction l with
  | nil => rfl
  | cons x r ih =>
    simp only [List.map_cons, List.filter_cons]
    by_cases hx : x.1 = k
    · simp [hx, ih]
    · have : f x.1 ≠ f k := fun h => hx (hf _ _ h)
      simp [hx, this, ih]

theorem groups_map_inj {κ κ' : Type} [DecidableEq κ] [DecidableEq κ'] (f : κ → κ')
    (hf : ∀ a b, f a = f b → a = b) (l : List (κ × Tok)) :
    groups (l.map fun p => (f p.1, p.2)) = groups l := by
  unfold groups
  simp only [List.map_map]
  have h1 : (l.map ((fun x => x.1) ∘ fun p => (f p.1, p.2))) = (l.map (·.1)).map f := by simp [List.map_map]
  rw [h1, eraseDups_map_inj f hf _ _ (Nat.le_refl _), List.map_map]
  congr 1
  apply List.map_congr_left
  intro k _
  simp only [Function.comp]
  rw [filter_key_map_inj f hf l k, List.map_map]
  rfl

/-- the tuples of resolved values of the entries that have every leaf of the set -/
def tupled {τ : Type} (kids : List (SN τ)) (entries : List DN) (u : List (List Tok)) : List (List Bytes × Tok) :=
  entries.filterMap fun e => (u.mapM (resolveDesc kids e.kids)).map fun t => (t, e.name)

/-- **the unique check groups entries by their tuples of values**: a group of `checkUnique` is a class of
    entries whose resolved values agree leaf by leaf (after the repair) -/
theorem uniqueGroups_eq_groups {τ : Type} (kids : List (SN τ)) (entries : List DN) (u : List (List Tok)) :
    uniqueGroups kids entries u =
      groups (entries.filterMap fun e => (uniqueKey kids e u).map fun k => (k, e.name)) := rfl

theorem uniqueGroups_by_tuple {τ : Type} (kids : List (SN τ)) (entries : List DN) (u : List (List Tok)) :
    uniqueGroups kids entries u = groups (tupled kids entries u) := by
  rw [uniqueGroups_eq_groups, ← groups_map_inj encTuple encTuple_inj (tupled kids entries u)]
  congr 1
  unfold tupled uniqueKey
  rw [List.map_filterMap]
  congr 1
  funext e
  cases u.mapM (resolveDesc kids e.kids) <;> rfl


/-! ### the model's descendant look-up and the specification's agree on paths that end at a leaf -/

open YV.DS in
/-- the path ends exactly at a leaf — what the compiler guarantees for a unique argument (whether the leaf
    carries a value no longer matters: before the repair of `lookupDescendant` a leaf node without one
    made the validator panic, and this predicate had to exclude it) -/
def goodPath {τ : Type} : List (SN τ) → List DN → List Tok → Prop
  | _, _, [] => True
  | kids, ds, hd :: tl =>
    match ds.find? (fun d => d.name = hd) with
    | none => True
    | some d =>
      match lookup hd (dataKids kids) with
      | some (.container _ _ ck) => goodPath ck d.kids tl
      | some (.leaf ..) => tl = []
      | _ => True

open YV.DS in
theorem resolve_eq_leafAt {τ : Type} (kids : List (SN τ)) (ds : List DN) (p : List Tok)
    (h : goodPath kids ds p) : resolveDesc kids ds p = leafAt kids ds p := by
  induction p generalizing kids ds with
  | nil => rfl
  | cons hd tl ih =>
    unfold resolveDesc leafAt
    unfold goodPath at h
    cases hf : ds.find? (fun d => d.name = hd) with
    | none => rfl
    | some d =>
      simp only [hf] at h ⊢
      cases hl : lookup hd (dataKids kids) with
      | none => rfl
      | some sn =>
        simp only [hl] at h ⊢
        cases sn with
        | container a b ck => exact ih ck d.kids h
        | leaf a b c e =>
          subst h
          simp
        | _ => rfl

theorem mapM_congr_mem {α β} (l : List α) (f g : α → Option β) (h : ∀ a ∈ l, f a = g a) : l.mapM f = l.mapM g := by
  induction l with
  | nil => rfl
  | cons a r ih =>
    simp only [List.mapM_cons, h a (by simp), ih (fun x hx => h x (by simp [hx]))]

theorem filterMap_congr_mem {α β} (l : List α) (f g : α → Option β) (h : ∀ a ∈ l, f a = g a) :
    l.filterMap f = l.filterMap g := by
  induction l with
  | nil => rfl
  | cons a r ih =>
    simp only [List.filterMap_cons, h a (by simp), ih (fun x hx => h x (by simp [hx]))]

open YV.DS in
/-- **unique: model = specification** on unique sets whose paths end at leaves -/
theorem uniqueGroups_eq_agreeing {τ : Type} (kids : List (SN τ)) (entries : List DN) (u : List (List Tok))
    (h : ∀ e ∈ entries, ∀ p ∈ u, goodPath kids e.kids p) :
    uniqueGroups kids entries u = agreeing kids entries u := by
  rw [uniqueGroups_by_tuple]
  unfold agreeing tupled tupleOf
  congr 1
  apply filterMap_congr_mem
  intro e he
  rw [mapM_congr_mem u _ _ (fun p hp => resolve_eq_leafAt kids e.kids p (h e he p hp))]

end YV.D
