/-
  Proofs.XPathC — the path machine meets the specification: running the code of a supported
  location path issues exactly the requests `XPS.evalPath` lists, in that order, and yields the value
  the tree reports for the designated node.  Induction over steps, nested over predicates and operand
  paths; no bound on the number of steps, '..' steps or predicates.
-/
import YV.Spec.XCompile
import YV.Proofs.XSpec
namespace YV.XM
open YV YV.X YV.XL YV.XP YV.XPS YV.XC YV.XS

@[simp] theorem R_bind_ok {α β} (a : α) (f : α → R β) : ((Except.ok a : R α) >>= f) = f a := rfl
@[simp] theorem R_bind_err {α β} (e : Fail) (f : α → R β) : ((Except.error e : R α) >>= f) = Except.error e := rfl
@[simp] theorem R_pure {α} (a : α) : (pure a : R α) = Except.ok a := rfl

theorem exec_append (fx : Bool) (t : Tree) (p q : List PI) (s : MSt) :
    exec fx t (p ++ q) s = (exec fx t p s >>= fun s' => exec fx t q s') := by
  induction p generalizing s with
  | nil => simp [exec]
  | cons i p ih =>
    simp only [List.cons_append, exec]
    cases h : step fx t i s with
    | error f => simp
    | ok s' => simp [ih]

theorem exec_append_ok (fx : Bool) (t : Tree) (p q : List PI) (s s' : MSt)
    (h : exec fx t p s = .ok s') : exec fx t (p ++ q) s = exec fx t q s' := by
  rw [exec_append, h]; rfl

/-- no fault is injected -/
def NoFault (t : Tree) : Prop := t.failAt = 0

theorem callback_ok (t : Tree) (h : NoFault t) (w : String) (s : MSt) :
    callback t w s = .ok { s with trace := w :: s.trace, ncalls := s.ncalls + 1 } := by
  simp [callback, NoFault] at *
  simp [h]

theorem charRound (c : Char) : (if c.toNat.isValidChar then Char.ofNat c.toNat else Char.ofNat 0xFFFD) = c := by
  have h : c.toNat.isValidChar := c.valid
  simp [h, Char.ofNat_toNat]

@[simp] theorem runesToStr_strToRunes (n : Str) : runesToStr (strToRunes n) = n := by
  induction n with
  | nil => rfl
  | cons c cs ih =>
    simp only [runesToStr, strToRunes, List.map_cons, List.map_map] at *
    rw [ih]
    congr 1
    exact charRound c

/-- pushing predicate-free steps inside a predicate operand (after the key name: predEvalPath ≥ 1): elements are appended -/
theorem exec_ssteps (fx : Bool) (t : Tree) (steps : List SStep) (s : MSt) (top : Path) (rest : List Path)
    (hp : s.paths = top :: rest) (hc : s.predCount > 0) (he : s.predEvalPath ≥ 1) :
    exec fx t (steps.map sstepCode) s =
      .ok { s with paths := { top with elems := top.elems ++ steps.map sstepElem } :: rest } := by
  induction steps generalizing s top with
  | nil => simp [exec, ← hp]
  | cons st steps ih =>
    simp only [List.map_cons, exec]
    cases st with
    | up =>
      simp only [sstepCode, step, pushElem, hp, R_bind_ok, R_pure]
      rw [ih { s with paths := { top with elems := top.elems ++ [{ name := "..".toList }] } :: rest }
            { top with elems := top.elems ++ [{ name := "..".toList }] } rfl hc he]
      simp [sstepElem, List.append_assoc]
    | name n =>
      have hcond : ¬ (s.predCount > 0 ∧ s.predEvalPath = 0) := by omega
      simp only [sstepCode, step, pushElem, hp, R_bind_ok, R_pure]
      simp only [hcond, decide_false, Bool.false_eq_true, ↓reduceIte, Bool.and_eq_true, decide_eq_true_eq, R_bind_ok]
      rw [ih { s with paths := { top with elems := top.elems ++ [{ name := runesToStr (strToRunes n) }] } :: rest }
            { top with elems := top.elems ++ [{ name := runesToStr (strToRunes n) }] } rfl hc he]
      simp [sstepElem, List.append_assoc]

/-! ### function-result operands: the scalar sub-machine inside a predicate -/

/-- the environment of a closed expression -/
def env0 : Env := fun _ => .emptyNodeset

mutual
/-- no data operand and no `=` (inside a predicate the `=` instruction records a key) -/
def ClosedNoEq : Expr → Prop
  | .num _ | .lit _ => True
  | .env _ => False
  | .neg e => ClosedNoEq e
  | .bin op a b => op ≠ .eq ∧ ClosedNoEq a ∧ ClosedNoEq b
  | .call _ args => ClosedNoEqs args
def ClosedNoEqs : List Expr → Prop
  | [] => True
  | e :: es => ClosedNoEq e ∧ ClosedNoEqs es
end

/-- a function-result operand the theorem covers: arity-correct calls of functions whose body is proved equal
    to the specification's, no data operand, no `=` -/
def GoodScalar (e : Expr) : Prop := WellFormed e ∧ PureX e ∧ ClosedNoEq e

def failM {α} (m : String) : R α := .error { err := .internal m }

theorem liftM_ok {α} (a : α) : liftM (Except.ok a : M α) = .ok a := rfl
theorem liftM_err {α} (m : String) : liftM (Except.error m : M α) = (failM m : R α) := rfl

theorem stepBin_eq (op : BinOp) (hop : op ≠ .eq) (a b : Datum) (σ : List Datum) :
    stepBin op (b :: a :: σ) = (binM op a b >>= fun v => pure (v :: σ)) := by
  cases op <;>
    simp only [stepBin, popNum, popBool, pop, binM, X.bind_ok, X.pure_eq_ok] <;>
    first
    | (cases hb : b.toNum <;> simp only [X.bind_ok, X.bind_err] <;>
        cases ha : a.toNum <;> simp [X.bind_ok, X.bind_err])
    | (cases hb : b.toBool <;> simp only [X.bind_ok, X.bind_err] <;>
        cases ha : a.toBool <;> simp [X.bind_ok, X.bind_err])
    | exact absurd rfl hop
    | (cases hc : X.compare _ a b <;> simp [X.bind_ok, X.bind_err])

theorem step_binPI (t : Tree) (op : BinOp) (hop : op ≠ .eq) (s : MSt) :
    step true t (binPI op) s = (do let σ ← liftM (stepBin op s.stack); pure { s with stack := σ }) := by
  cases op <;> first | exact absurd rfl hop | rfl

mutual
theorem exec_scalar (t : Tree) : ∀ (e : Expr), WellFormed e → PureX e → ClosedNoEq e → ∀ (k : List PI) (s : MSt),
    exec true t (scalarCode e ++ k) s =
      (match evalM env0 e with
       | .ok d => exec true t k { s with stack := d :: s.stack }
       | .error m => failM m)
  | .num x, _, _, _, k, s => by simp [scalarCode, exec, step, evalM]
  | .lit l, _, _, _, k, s => by simp [scalarCode, exec, step, evalM]
  | .env _, _, _, hc, _, _ => by simp [ClosedNoEq] at hc
  | .neg a, hw, hp, hc, k, s => by
    simp only [WellFormed] at hw; simp only [PureX] at hp; simp only [ClosedNoEq] at hc
    simp only [scalarCode, List.append_assoc, evalM]
    rw [exec_scalar t a hw hp hc]
    cases ha : evalM env0 a with
    | error m => simp [failM]
    | ok v =>
      simp only [X.bind_ok, List.cons_append, List.nil_append, exec, step, popNum, pop]
      cases hn : v.toNum with
      | error m => simp [liftM, failM]
      | ok x => simp [liftM]
  | .bin op a b, hw, hp, hc, k, s => by
    simp only [WellFormed] at hw; simp only [PureX] at hp; simp only [ClosedNoEq] at hc
    simp only [scalarCode, List.append_assoc, evalM]
    rw [exec_scalar t a hw.1 hp.1 hc.2.1]
    cases ha : evalM env0 a with
    | error m => simp [failM]
    | ok x =>
      simp only [X.bind_ok]
      rw [exec_scalar t b hw.2 hp.2 hc.2.2]
      cases hb : evalM env0 b with
      | error m => simp [failM]
      | ok y =>
        simp only [X.bind_ok, List.cons_append, List.nil_append, exec]
        rw [step_binPI t op hc.1, stepBin_eq op hc.1 x y s.stack]
        cases hm : binM op x y with
        | error m => simp [liftM, failM]
        | ok v => simp [liftM]
  | .call f args, hw, hp, hc, k, s => by
    simp only [WellFormed] at hw; simp only [PureX] at hp; simp only [ClosedNoEq] at hc
    simp only [scalarCode, List.append_assoc, evalM]
    rw [exec_scalars t args hw.2 hp.2 hc]
    cases hl : evalListM env0 args with
    | error m => simp [failM]
    | ok vs =>
      have hlen : vs.length = args.length := evalListM_length env0 args vs hl
      have hcur : f ≠ .current := by intro e; subst e; simp [pureFn] at hp
      simp only [X.bind_ok, List.cons_append, List.nil_append, exec, step, hcur, ↓reduceIte, popArgs]
      rw [popArgsRev_append _ _ _ (by simp [hlen, hw.1])]
      cases hcv : convArgsRev f.sig.1.reverse vs.reverse with
      | error m => simp [liftM, failM]
      | ok cs =>
        simp only [X.bind_ok, X.pure_eq_ok, liftM_ok, R_bind_ok]
        cases hb : bltin f cs.reverse with
        | error m => simp [liftM, failM]
        | ok v => simp [liftM]
theorem exec_scalars (t : Tree) : ∀ (es : List Expr), WellFormedList es → PureXs es → ClosedNoEqs es →
    ∀ (k : List PI) (s : MSt),
    exec true t (scalarListCode es ++ k) s =
      (match evalListM env0 es with
       | .ok vs => exec true t k { s with stack := vs.reverse ++ s.stack }
       | .error m => failM m)
  | [], _, _, _, k, s => by simp [scalarListCode, evalListM]
  | e :: es, hw, hp, hc, k, s => by
    simp only [WellFormedList] at hw; simp only [PureXs] at hp; simp only [ClosedNoEqs] at hc
    simp only [scalarListCode, List.append_assoc, evalListM]
    rw [exec_scalar t e hw.1 hp.1 hc.1]
    cases he : evalM env0 e with
    | error m => simp [failM]
    | ok v =>
      simp only [X.bind_ok]
      rw [exec_scalars t es hw.2 hp.2 hc.2]
      cases hl : evalListM env0 es with
      | error m => simp [failM]
      | ok vs => simp
end

theorem env0_simple : SimpleEnv env0 := fun _ => trivial

/-- the request path of a predicate-free operand path evaluated at step `here` -/
def operandPath (here : Path) (p : SPath) : Path :=
  let base := rootBase here p.root
  { base with elems := base.elems ++ p.steps.map sstepElem }

/-- operands covered by the theorem -/
def okOp : Operand → Prop
  | .scalar e => GoodScalar e
  | .scalarP _ _ => False        -- function results over argument paths: compared (stream c02), not part of the theorem
  | _ => True

def operandDatum (t : Tree) (here : Path) : Operand → Datum
  | .lit s => .lit s
  | .num x => .num x
  | .scalar e => (match evalM env0 e with | .ok d => d | .error _ => .invalid)
  | .path p => t.value (operandPath here p)
  | .scalarP _ _ => .invalid

def operandReqs (here : Path) : Operand → List String
  | .path p => navReq (operandPath here p)
  | _ => []

theorem evalInternal_ok (t : Tree) (hf : NoFault t) (s : MSt) (p q : Path) (rest : List Path)
    (hp : s.paths = p :: q :: rest) :
    evalInternal t s = .ok { s with
      paths := q :: q :: rest, stack := t.value p :: s.stack,
      trace := ("GetValue(" ++ showPath p ++ ")") :: ("Navigate(" ++ showPath p ++ ")") :: s.trace,
      ncalls := s.ncalls + 2 } := by
  simp only [evalInternal, popPath, hp, R_bind_ok, R_pure, callback_ok t hf, newFromActual]

/-- one operand, evaluated inside the predicate of the step whose path is `here` -/
theorem exec_operand (t : Tree) (hf : NoFault t) (op : Operand) (hs : okOp op) (s : MSt)
    (here : Path) (rest : List Path)
    (hp : s.paths = here :: here :: rest) (hc : s.predCount > 0) (he : s.predEvalPath = 1) :
    ∃ pe, (pe = 1 ∨ pe = 2) ∧
    exec true t (operandCode op) s = .ok { s with
      stack := operandDatum t here op :: s.stack,
      trace := (operandReqs here op).reverse ++ s.trace,
      ncalls := s.ncalls + (operandReqs here op).length,
      predEvalPath := pe } := by
  cases op with
  | scalarP e ps => exact hs.elim
  | lit l =>
    refine ⟨1, Or.inl rfl, ?_⟩
    simp [operandCode, exec, step, operandDatum, operandReqs, ← he]
  | num x =>
    refine ⟨1, Or.inl rfl, ?_⟩
    simp [operandCode, exec, step, operandDatum, operandReqs, ← he]
  | scalar e =>
    refine ⟨1, Or.inl rfl, ?_⟩
    obtain ⟨hw, hpx, hcl⟩ := hs
    obtain ⟨d, h1, _, _⟩ := evalM_spec env0 env0_simple e hw hpx
    have := exec_scalar t e hw hpx hcl [] s
    simp only [List.append_nil, h1, exec] at this
    simp [operandCode, this, operandDatum, h1, operandReqs, ← he]
  | path p =>
    refine ⟨2, Or.inr rfl, ?_⟩
    obtain ⟨root, steps⟩ := p
    simp only [operandCode, List.append_assoc]
    clear hs
    -- after the root instruction the top path is the base of the operand path
    have h1 : exec true t (rootCode root) s = .ok { s with paths := rootBase here root :: here :: rest } := by
      cases root
      · simp [rootCode, rootBase, exec, step, hp]
      · cases s; simp_all [rootCode, rootBase, exec]
      · simp [rootCode, rootBase, exec, step, hp, popPath]
    rw [exec_append_ok _ _ _ _ _ _ h1]
    have h2 := exec_ssteps true t steps { s with paths := rootBase here root :: here :: rest } (rootBase here root) (here :: rest)
      rfl hc (by simp [he])
    rw [exec_append_ok _ _ _ _ _ _ h2]
    simp only [exec, step]
    simp only [hc, ↓reduceIte, he]
    simp only [Nat.reduceAdd, Nat.reduceMod, ↓reduceIte, R_bind_ok]
    rw [evalInternal_ok t hf _ _ here rest rfl]
    simp [operandDatum, operandReqs, operandPath, navReq, hp]

theorem toLit_litOf (d : Datum) (h : d ≠ .invalid) : d.toLit = .ok (litOf d) := by
  cases d <;> simp_all [Datum.toLit, litOf]

/-- the tree never hands out the `invalid` datum (it is a test-only value of the Go code) -/
def ValidTree (t : Tree) : Prop := ∀ p, t.value p ≠ .invalid

theorem operandDatum_valid (t : Tree) (hv : ValidTree t) (here : Path) (op : Operand) (hs : okOp op) :
    operandDatum t here op ≠ .invalid := by
  cases op with
  | scalarP e ps => exact hs.elim
  | lit l => simp [operandDatum]
  | num x => simp [operandDatum]
  | path p => exact hv _
  | scalar e =>
    obtain ⟨hw, hpx, _⟩ := hs
    obtain ⟨d, h1, h2, _⟩ := evalM_spec env0 env0_simple e hw hpx
    simp only [operandDatum, h1]
    exact simple_ne_invalid h2

/-- one predicate `[k = op]` on the step whose path is `here` -/
theorem exec_pred (t : Tree) (hf : NoFault t) (hv : ValidTree t) (k : Str) (op : Operand) (hs : okOp op)
    (s : MSt) (here : Path) (rest : List Path) (m : List (Str × Str)) (ms : List (List (Str × Str)))
    (hp : s.paths = here :: rest) (hc : s.predCount = 0) (he : s.predEvalPath = 0) (hm : s.preds = m :: ms) :
    exec true t (predCode (k, op)) s = .ok { s with
      preds := (m.filter (fun kv => kv.1 ≠ k) ++ [(k, litOf (operandDatum t here op))]) :: ms,
      trace := (operandReqs here op).reverse ++ s.trace,
      ncalls := s.ncalls + (operandReqs here op).length,
      prevReqELP := true, isLLF := false } := by
  simp only [predCode, List.append_assoc, List.cons_append, List.nil_append, exec]
  -- predStart
  simp only [step, newFromActual, hp, R_bind_ok, R_pure]
  -- namePush of the key: predCount = 1, predEvalPath = 0 → literal
  simp only [hc, he, Nat.zero_add, Nat.lt_irrefl, Nat.zero_mod, gt_iff_lt, Nat.lt_add_one, decide_true, Bool.and_self,
    ↓reduceIte, R_bind_ok, runesToStr_strToRunes, Nat.zero_lt_one, beq_self_eq_true]
  -- operand
  obtain ⟨pe, hpe, hop⟩ := exec_operand t hf op hs
    { s with stack := .lit k :: s.stack, paths := here :: here :: rest, predCount := 1, predEvalPath := 1,
             isLLF := false, prevReqELP := false } here rest rfl (by simp) rfl
  rw [exec_append_ok _ _ _ _ _ _ hop]
  have hk : (Datum.lit k).toLit = .ok k := rfl
  simp only [exec, step, liftM, pop, R_bind_ok, Datum.isSlice, Bool.false_and, Bool.false_eq_true, ↓reduceIte,
    Nat.one_ne_zero, decide_false, Bool.or_self, popPath, hk, hm, newFromActual, R_pure,
    toLit_litOf _ (operandDatum_valid t hv here op hs)]

theorem operandValue_eq (t : Tree) (here : Path) (op : Operand) (hs : okOp op) :
    operandValue t here op = (litOf (operandDatum t here op), operandReqs here op) := by
  cases op with
  | scalarP e ps => exact hs.elim
  | lit l => simp [operandValue, operandDatum, operandReqs, litOf, Datum.toLit]
  | num x => simp [operandValue, operandDatum, operandReqs, litOf, Datum.toLit, XS.stringOfNumber]
  | scalar e =>
    obtain ⟨hw, hpx, _⟩ := hs
    obtain ⟨d, h1, h2, h3⟩ := evalM_spec env0 env0_simple e hw hpx
    have h3' : eval true (fun _ => Datum.emptyNodeset) e = some (ofDatum d) := h3
    simp only [operandValue, operandDatum, operandReqs, h1, h3', litOf, toLit_spec h2]
  | path p => simp only [operandValue, operandDatum, operandReqs, litOf, operandPath]

/-- the predicates of one step are all of the covered kind and use pairwise different keys -/
def GoodPreds : List (Str × Operand) → Prop
  | [] => True
  | (k, op) :: rest => okOp op ∧ (∀ kv ∈ rest, kv.1 ≠ k) ∧ GoodPreds rest

theorem filter_noop (m : List (Str × Str)) (k : Str) (h : ∀ kv ∈ m, kv.1 ≠ k) :
    m.filter (fun kv => kv.1 ≠ k) = m := by
  induction m with
  | nil => rfl
  | cons a m ih =>
    simp only [List.filter]
    have ha : a.1 ≠ k := h a (by simp)
    simp only [ne_eq, ha, not_false_eq_true, decide_true]
    rw [ih (fun kv hkv => h kv (by simp [hkv]))]

/-- all predicates of a step, in source order -/
theorem exec_preds (t : Tree) (hf : NoFault t) (hv : ValidTree t) (preds : List (Str × Operand))
    (hg : GoodPreds preds) (s : MSt) (here : Path) (rest : List Path) (m : List (Str × Str))
    (ms : List (List (Str × Str)))
    (hp : s.paths = here :: rest) (hc : s.predCount = 0) (he : s.predEvalPath = 0) (hm : s.preds = m :: ms)
    (hfresh : ∀ kv ∈ preds, ∀ mv ∈ m, mv.1 ≠ kv.1) (hne : preds ≠ []) :
    exec true t (preds.flatMap predCode) s = .ok { s with
      preds := (m ++ (stepKeys t here preds).1) :: ms,
      trace := (stepKeys t here preds).2.reverse ++ s.trace,
      ncalls := s.ncalls + (stepKeys t here preds).2.length,
      prevReqELP := true, isLLF := false } := by
  induction preds generalizing s m with
  | nil => exact absurd rfl hne
  | cons kv preds ih =>
    obtain ⟨k, op⟩ := kv
    obtain ⟨hs, hdist, hg'⟩ := hg
    simp only [List.flatMap_cons]
    have hfil : m.filter (fun kv => kv.1 ≠ k) = m :=
      filter_noop m k (fun mv hmv => hfresh (k, op) (by simp) mv hmv)
    have h1 := exec_pred t hf hv k op hs s here rest m ms hp hc he hm
    rw [hfil] at h1
    rw [exec_append_ok _ _ _ _ _ _ h1]
    simp only [stepKeys, operandValue_eq t here op hs]
    by_cases hnil : preds = []
    · subst hnil
      simp [exec, stepKeys]
    · have h2 := ih hg'
        { s with preds := (m ++ [(k, litOf (operandDatum t here op))]) :: ms,
                 trace := (operandReqs here op).reverse ++ s.trace,
                 ncalls := s.ncalls + (operandReqs here op).length, prevReqELP := true, isLLF := false }
        (m ++ [(k, litOf (operandDatum t here op))]) hp hc he rfl
        (by
          intro kv hkv mv hmv
          simp only [List.mem_append, List.mem_singleton] at hmv
          rcases hmv with hmv | hmv
          · exact hfresh kv (by simp [hkv]) mv hmv
          · subst hmv; exact fun h => hdist kv hkv h.symm) hnil
      rw [h2]
      simp [List.append_assoc, Nat.add_assoc]

def GoodStep : Step → Prop
  | .up => True
  | .named _ preds => GoodPreds preds

theorem stepKeys_length (t : Tree) (here : Path) (preds : List (Str × Operand)) :
    (stepKeys t here preds).1.length = preds.length := by
  induction preds with
  | nil => rfl
  | cons kv preds ih => obtain ⟨k, op⟩ := kv; simp [stepKeys, ih]

/-- the path after one step, and the requests its predicates make (the spec's `walk`, one step) -/
def stepPath (t : Tree) (p : Path) : Step → Path × List String
  | .up => ({ p with elems := p.elems ++ [{ name := "..".toList }] }, [])
  | .named n preds =>
    let here := { p with elems := p.elems ++ [{ name := n }] }
    let (ks, rq) := stepKeys t here preds
    ({ p with elems := p.elems ++ [{ name := n, keys := ks.foldl (fun acc kv => insertKey kv.1 kv.2 acc) [] }] }, rq)

theorem walk_cons (t : Tree) (p : Path) (st : Step) (steps : List Step) :
    walk t p (st :: steps) =
      ((walk t (stepPath t p st).1 steps).1, (stepPath t p st).2 ++ (walk t (stepPath t p st).1 steps).2) := by
  cases st <;> simp [walk, stepPath]

/-- one step outside any predicate -/
theorem exec_step (t : Tree) (hf : NoFault t) (hv : ValidTree t) (st : Step) (hg : GoodStep st) (s : MSt)
    (p : Path) (rest : List Path)
    (hp : s.paths = p :: rest) (hc : s.predCount = 0) (he : s.predEvalPath = 0) (hr : s.prevReqELP = true) :
    ∃ llf, exec true t (stepCode st) s = .ok { s with
      paths := (stepPath t p st).1 :: rest,
      trace := (stepPath t p st).2.reverse ++ s.trace,
      ncalls := s.ncalls + (stepPath t p st).2.length,
      isLLF := llf } := by
  cases st with
  | up =>
    refine ⟨s.isLLF, ?_⟩
    simp [stepCode, exec, step, pushElem, hp, stepPath]
  | named n preds =>
    have hcond : ¬ (s.predCount > 0 ∧ s.predEvalPath = 0) := by omega
    by_cases hnil : preds = []
    · subst hnil
      refine ⟨s.isLLF, ?_⟩
      simp [stepCode, exec, step, pushElem, hp, stepPath, stepKeys, hcond, hc]
    · refine ⟨false, ?_⟩
      have hne : preds.isEmpty = false := by cases preds <;> simp_all
      simp only [stepCode, hne, Bool.false_eq_true, ↓reduceIte, List.cons_append, List.nil_append, exec]
      have hb : (decide (s.predCount > 0) && decide (s.predEvalPath = 0)) = false := by simp [hc]
      simp only [step, pushElem, hp, hb, Bool.false_eq_true, ↓reduceIte, R_bind_ok, R_pure, runesToStr_strToRunes]
      have h2 := exec_preds t hf hv preds hg
        { s with paths := { p with elems := p.elems ++ [{ name := n }] } :: rest, preds := [] :: s.preds }
        { p with elems := p.elems ++ [{ name := n }] } rest [] s.preds rfl hc he rfl
        (by intro kv _ mv hmv; simp at hmv) hnil
      rw [exec_append_ok _ _ _ _ _ _ h2]
      have hks : (stepKeys t { p with elems := p.elems ++ [{ name := n }] } preds).1.isEmpty = false := by
        have := stepKeys_length t { p with elems := p.elems ++ [{ name := n }] } preds
        cases h : (stepKeys t { p with elems := p.elems ++ [{ name := n }] } preds).1 with
        | nil => rw [h] at this; cases preds <;> simp_all
        | cons a b => rfl
      simp only [exec, step, List.nil_append, hks, Bool.false_eq_true, ↓reduceIte, List.reverse_append,
        List.reverse_cons, List.reverse_nil, List.nil_append, List.cons_append, R_bind_ok, R_pure,
        List.reverse_reverse]
      simp [stepPath, hr]

def GoodSteps (steps : List Step) : Prop := ∀ st ∈ steps, GoodStep st

/-- any number of steps outside a predicate -/
theorem exec_walk (t : Tree) (hf : NoFault t) (hv : ValidTree t) (steps : List Step) (hg : GoodSteps steps)
    (s : MSt) (p : Path) (rest : List Path)
    (hp : s.paths = p :: rest) (hc : s.predCount = 0) (he : s.predEvalPath = 0) (hr : s.prevReqELP = true) :
    ∃ llf, exec true t (steps.flatMap stepCode) s = .ok { s with
      paths := (walk t p steps).1 :: rest,
      trace := (walk t p steps).2.reverse ++ s.trace,
      ncalls := s.ncalls + (walk t p steps).2.length,
      isLLF := llf } := by
  induction steps generalizing s p with
  | nil => exact ⟨s.isLLF, by simp [exec, walk, ← hp]⟩
  | cons st steps ih =>
    obtain ⟨llf1, h1⟩ := exec_step t hf hv st (hg st (by simp)) s p rest hp hc he hr
    obtain ⟨llf2, h2⟩ := ih (fun x hx => hg x (by simp [hx]))
      { s with paths := (stepPath t p st).1 :: rest, trace := (stepPath t p st).2.reverse ++ s.trace,
               ncalls := s.ncalls + (stepPath t p st).2.length, isLLF := llf1 }
      (stepPath t p st).1 rfl hc he hr
    refine ⟨llf2, ?_⟩
    simp only [List.flatMap_cons]
    rw [exec_append_ok _ _ _ _ _ _ h1, h2, walk_cons]
    simp [List.append_assoc, Nat.add_assoc]

theorem exec_execTrace (fx : Bool) (t : Tree) (p : List PI) (s s' : MSt) (h : exec fx t p s = .ok s') :
    execTrace fx t p s = (s', none) := by
  induction p generalizing s with
  | nil => simp [exec] at h; simp [execTrace, h]
  | cons i p ih =>
    simp only [exec] at h
    cases hs : step fx t i s with
    | error f => simp [hs] at h
    | ok s1 => simp only [hs, R_bind_ok] at h; simp [execTrace, hs, ih s1 h]

/-- the paths covered by the main theorem -/
def GoodPath : PathE → Prop
  | .basic _ steps => GoodSteps steps
  | .deref inner steps => GoodPath inner ∧ GoodSteps steps

/-- code of a path (without the final evalLocPath), started with an empty context path and any
    request history: afterwards the path stack holds exactly the designated path -/
theorem exec_pathCode (t : Tree) (hf : NoFault t) (hv : ValidTree t) (p : PathE) (hg : GoodPath p)
    (s : MSt)
    (hp : s.paths = [{}]) (hc : s.predCount = 0) (he : s.predEvalPath = 0) (hr : s.prevReqELP = true) :
    ∃ llf, exec true t (pathCode p) s = .ok { s with
      paths := [(designate t p).1],
      trace := (designate t p).2.reverse ++ s.trace,
      ncalls := s.ncalls + (designate t p).2.length,
      isLLF := llf } := by
  induction p generalizing s with
  | basic root steps =>
    have h1 : exec true t (rootCode root) s = .ok { s with paths := [{ root := root == .abs }] } := by
      cases root
      · simp [rootCode, exec, step, hp]
      · cases s; simp_all [rootCode, exec]
      · simp [rootCode, exec, step, hp, popPath]
    obtain ⟨llf, h2⟩ := exec_walk t hf hv steps hg { s with paths := [{ root := root == .abs }] }
      { root := root == .abs } [] rfl hc he hr
    refine ⟨llf, ?_⟩
    simp only [pathCode]
    rw [exec_append_ok _ _ _ _ _ _ h1, h2]
    simp [designate]
  | deref inner steps ih =>
    obtain ⟨hgi, hgs⟩ := hg
    obtain ⟨llf1, h1⟩ := ih hgi s hp hc he hr
    simp only [pathCode, List.append_assoc]
    rw [exec_append_ok _ _ _ _ _ _ h1]
    simp only [List.cons_append, List.nil_append, exec, step, popPath, R_bind_ok, callback_ok t hf, R_pure]
    obtain ⟨llf2, h2⟩ := exec_walk t hf hv steps hgs
      { s with paths := [t.derefTarget (designate t inner).1],
               trace := ("FollowLeafRef(" ++ showPath (designate t inner).1 ++ ")") ::
                        ("Navigate(" ++ showPath (designate t inner).1 ++ ")") ::
                        ((designate t inner).2.reverse ++ s.trace),
               ncalls := s.ncalls + (designate t inner).2.length + 1 + 1, isLLF := llf1 }
      (t.derefTarget (designate t inner).1) [] rfl hc he hr
    refine ⟨llf2, ?_⟩
    rw [h2]
    simp [designate, List.append_assoc, Nat.add_assoc]
    omega

/-- **Main theorem (C02).**  Evaluating a supported location path issues exactly the requests the
    specification lists — operand paths first, in source order, then the designated node — and its
    value is the value the tree reports for that node. -/
theorem run_path_eq_spec (t : Tree) (hf : NoFault t) (hv : ValidTree t) (p : PathE) (hg : GoodPath p) :
    run true t (program (.path p)) =
      { value := some (evalPath t p).2, err := none, trace := (evalPath t p).1 } := by
  obtain ⟨llf, h1⟩ := exec_pathCode t hf hv p hg {} rfl rfl rfl rfl
  have h2 : exec true t (program (.path p)) {} = .ok
      ({ res := some (t.value (designate t p).1),
         trace := (navReq (designate t p).1).reverse ++ ((designate t p).2.reverse ++ []),
         ncalls := (designate t p).2.length + 2, isLLF := llf } : MSt) := by
    simp only [program, code, List.append_assoc]
    rw [exec_append_ok _ _ _ _ _ _ h1]
    simp [exec, step, evalInternal, popPath, callback_ok t hf, newFromActual, liftM, pop, navReq]
  simp only [run, exec_execTrace _ _ _ _ _ h2, evalPath]
  simp [List.reverse_append]


/-- one location path in the middle of an expression: its requests are issued, its value lands on the stack, and the
    machine is as it was — one empty context path, no predicate open — whatever was on the stack and in the history -/
theorem exec_path_value (t : Tree) (hf : NoFault t) (hv : ValidTree t) (p : PathE) (hg : GoodPath p) (s : MSt)
    (hp : s.paths = [{}]) (hc : s.predCount = 0) (he : s.predEvalPath = 0) (hr : s.prevReqELP = true) :
    ∃ llf, exec true t (pathCode p ++ [.evalLocPath]) s = .ok { s with
      stack := (evalPath t p).2 :: s.stack,
      paths := [{}],
      trace := (evalPath t p).1.reverse ++ s.trace,
      ncalls := s.ncalls + (evalPath t p).1.length,
      isLLF := llf } := by
  obtain ⟨llf, h1⟩ := exec_pathCode t hf hv p hg s hp hc he hr
  refine ⟨llf, ?_⟩
  rw [exec_append_ok _ _ _ _ _ _ h1]
  simp [exec, step, hc, hr, evalInternal, popPath, callback_ok t hf, newFromActual, evalPath, navReq,
    List.reverse_append, Nat.add_assoc]


/-- the code that evaluates the paths one after the other (the operands of an operator, the arguments of a function) -/
def pathsCode : List PathE → List PI
  | [] => []
  | p :: r => (pathCode p ++ [.evalLocPath]) ++ pathsCode r

def pathsTrace (t : Tree) : List PathE → List String
  | [] => []
  | p :: r => (evalPath t p).1 ++ pathsTrace t r

def pathsValues (t : Tree) : List PathE → List Datum
  | [] => []
  | p :: r => (evalPath t p).2 :: pathsValues t r

/-- several location paths in one expression: the requests of the first, then those of the second, … — each path is
    resolved from the context node as if it stood alone (nothing of one path is left behind for the next) — and their
    values lie on the stack in source order -/
theorem exec_paths (t : Tree) (hf : NoFault t) (hv : ValidTree t) (ps : List PathE) (hg : ∀ p ∈ ps, GoodPath p) (s : MSt)
    (hp : s.paths = [{}]) (hc : s.predCount = 0) (he : s.predEvalPath = 0) (hr : s.prevReqELP = true) :
    ∃ llf, exec true t (pathsCode ps) s = .ok { s with
      stack := (pathsValues t ps).reverse ++ s.stack,
      paths := [{}],
      trace := (pathsTrace t ps).reverse ++ s.trace,
      ncalls := s.ncalls + (pathsTrace t ps).length,
      isLLF := llf } := by
  induction ps generalizing s with
  | nil =>
    refine ⟨s.isLLF, ?_⟩
    cases s
    simp_all [pathsCode, pathsValues, pathsTrace, exec]
  | cons p r ih =>
    obtain ⟨l1, h1⟩ := exec_path_value t hf hv p (hg p (by simp)) s hp hc he hr
    obtain ⟨l2, h2⟩ := ih (fun q hq => hg q (by simp [hq]))
      { s with stack := (evalPath t p).2 :: s.stack, paths := [{}], trace := (evalPath t p).1.reverse ++ s.trace,
               ncalls := s.ncalls + (evalPath t p).1.length, isLLF := l1 } rfl hc he hr
    refine ⟨l2, ?_⟩
    simp only [pathsCode]
    rw [exec_append_ok _ _ _ _ _ _ h1, h2]
    simp [pathsValues, pathsTrace, List.reverse_append, List.append_assoc, Nat.add_assoc]


end YV.XM
