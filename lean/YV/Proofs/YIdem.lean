/-
  Proofs.YIdem — the specification of "the defaults in use" (Spec.YDataS.defaultsS) is closed: decorating a
  decorated tree adds nothing and changes nothing.  Together with Proofs.YDeco (decoration of the model = the
  specification) this gives idempotence of `AddDefaults`.

  Well-formed schema (what the compiler builds): the children of a choice are cases, a case occurs only there,
  the cases of one choice have different names, and the names of the flattened child map of every container /
  list / the root are pairwise different (`addChild`: "redefinition of name").
-/
import YV.Spec.YDataS
namespace YV.DS
open YV YV.Y YV.SC YV.D

variable {τ : Type}

def names (nodes : List (SN τ)) : List Tok := (dataKids nodes).map (·.name)
def cnames (cases : List (SN τ)) : List Tok := (caseKids cases).map (·.name)

mutual
/-- a node that may stand in a body -/
def wfN : SN τ → Prop
  | .container _ _ kids => wfL kids ∧ (names kids).Nodup
  | .list _ _ _ _ _ kids => wfL kids ∧ (names kids).Nodup
  | .leaf .. => True
  | .leafList .. => True
  | .choice _ _ _ cases => wfC cases ∧ (cases.map (·.name)).Nodup
  | .case _ _ => False
def wfL : List (SN τ) → Prop
  | [] => True
  | x :: r => wfN x ∧ wfL r
def wfC : List (SN τ) → Prop
  | [] => True
  | .case _ kids :: r => wfL kids ∧ wfC r
  | .container .. :: _ => False
  | .list .. :: _ => False
  | .leaf .. :: _ => False
  | .leafList .. :: _ => False
  | .choice .. :: _ => False
end

mutual
/-- the same, decidable: what the driver checks on every schema it is given -/
def wfNb : SN τ → Bool
  | .container _ _ kids => wfLb kids && decide (names kids).Nodup
  | .list _ _ _ _ _ kids => wfLb kids && decide (names kids).Nodup
  | .leaf .. => true
  | .leafList .. => true
  | .choice _ _ _ cases => wfCb cases && decide (cases.map (·.name)).Nodup
  | .case _ _ => false
def wfLb : List (SN τ) → Bool
  | [] => true
  | x :: r => wfNb x && wfLb r
def wfCb : List (SN τ) → Bool
  | [] => true
  | .case _ kids :: r => wfLb kids && wfCb r
  | .container .. :: _ => false
  | .list .. :: _ => false
  | .leaf .. :: _ => false
  | .leafList .. :: _ => false
  | .choice .. :: _ => false
end

mutual
theorem wfNb_sound : ∀ (sn : SN τ), wfNb sn = true → wfN sn
  | .container _ _ kids, h => by
    rw [wfNb, Bool.and_eq_true, decide_eq_true_eq] at h; rw [wfN]; exact ⟨wfLb_sound kids h.1, h.2⟩
  | .list _ _ _ _ _ kids, h => by
    rw [wfNb, Bool.and_eq_true, decide_eq_true_eq] at h; rw [wfN]; exact ⟨wfLb_sound kids h.1, h.2⟩
  | .leaf .., _ => by rw [wfN]; trivial
  | .leafList .., _ => by rw [wfN]; trivial
  | .choice _ _ _ cases, h => by
    rw [wfNb, Bool.and_eq_true, decide_eq_true_eq] at h; rw [wfN]; exact ⟨wfCb_sound cases h.1, h.2⟩
  | .case _ _, h => by rw [wfNb] at h; cases h
theorem wfLb_sound : ∀ (l : List (SN τ)), wfLb l = true → wfL l
  | [], _ => by rw [wfL]; trivial
  | x :: r, h => by
    rw [wfLb, Bool.and_eq_true] at h; rw [wfL]; exact ⟨wfNb_sound x h.1, wfLb_sound r h.2⟩
theorem wfCb_sound : ∀ (l : List (SN τ)), wfCb l = true → wfC l
  | [], _ => by rw [wfC]; trivial
  | .case _ kids :: r, h => by
    rw [wfCb, Bool.and_eq_true] at h; rw [wfC]; exact ⟨wfLb_sound kids h.1, wfCb_sound r h.2⟩
  | .container .. :: _, h => by rw [wfCb] at h; cases h
  | .list .. :: _, h => by rw [wfCb] at h; cases h
  | .leaf .. :: _, h => by rw [wfCb] at h; cases h
  | .leafList .. :: _, h => by rw [wfCb] at h; cases h
  | .choice .. :: _, h => by rw [wfCb] at h; cases h
end

/-- a whole schema: its top-level body -/
def wfTop (top : List (SN τ)) : Bool := wfLb top && decide (names top).Nodup

@[simp] theorem names_nil : names ([] : List (SN τ)) = [] := by simp [names, dataKids]
@[simp] theorem cnames_nil : cnames ([] : List (SN τ)) = [] := by simp [cnames, caseKids]

theorem names_choice (a : Tok) (b : Bool) (c : Option Tok) (cases r : List (SN τ)) :
    names (.choice a b c cases :: r) = cnames cases ++ names r := by
  simp [names, cnames, dataKids]

theorem cnames_case (a : Tok) (kids r : List (SN τ)) :
    cnames (.case a kids :: r) = names kids ++ cnames r := by
  simp [names, cnames, caseKids]

theorem names_leaf (n : Tok) (t : τ) (d : Option Bytes) (m : Bool) (r : List (SN τ)) :
    names (.leaf n t d m :: r) = n :: names r := by simp [names, dataKids, SN.name]
theorem names_leafList (n : Tok) (t : τ) (a : Nat) (b : Option Nat) (r : List (SN τ)) :
    names (.leafList n t a b :: r) = n :: names r := by simp [names, dataKids, SN.name]
theorem names_container (n : Tok) (p : Bool) (k r : List (SN τ)) :
    names (.container n p k :: r) = n :: names r := by simp [names, dataKids, SN.name]
theorem names_list (n : Tok) (ks : List Tok) (a : Nat) (b : Option Nat) (u : List (List (List Tok))) (k r : List (SN τ)) :
    names (.list n ks a b u k :: r) = n :: names r := by simp [names, dataKids, SN.name]

theorem active_iff (kids : List (SN τ)) (cfg : List Tok) : active kids cfg = true ↔ ∃ n ∈ names kids, n ∈ cfg := by
  simp only [active, names, List.any_eq_true, List.contains_iff_mem, List.mem_map]
  exact ⟨fun ⟨x, hx, hc⟩ => ⟨x.name, ⟨x, hx, rfl⟩, hc⟩, fun ⟨n, ⟨a, ha, e⟩, hc⟩ => ⟨a, ha, e ▸ hc⟩⟩
theorem activeCases_iff (cases : List (SN τ)) (cfg : List Tok) :
    activeCases cases cfg = true ↔ ∃ n ∈ cnames cases, n ∈ cfg := by
  simp only [activeCases, cnames, List.any_eq_true, List.contains_iff_mem, List.mem_map]
  exact ⟨fun ⟨x, hx, hc⟩ => ⟨x.name, ⟨x, hx, rfl⟩, hc⟩, fun ⟨n, ⟨a, ha, e⟩, hc⟩ => ⟨a, ha, e ▸ hc⟩⟩

def dnames (l : List DN) : List Tok := l.map (·.name)
@[simp] theorem dnames_nil : dnames [] = [] := rfl
@[simp] theorem dnames_append (a b : List DN) : dnames (a ++ b) = dnames a ++ dnames b := by simp [dnames]

/-- what one node contributes -/
def emitLeaf (cfg : List Tok) (n : Tok) (d : Option Bytes) (m : Bool) : List DN :=
  match d with
  | some dv => if !m && !cfg.contains n then [.mk n [] [dv]] else []
  | none => []
def emitContainer (cfg : List Tok) (n : Tok) (pr : Bool) (kids : List (SN τ)) : List DN :=
  if !pr && !cfg.contains n then (if (defaultsS [] kids).isEmpty then [] else [.mk n (defaultsS [] kids) []]) else []
def emitChoice (cfg : List Tok) (d : Option Tok) (cases : List (SN τ)) : List DN :=
  if activeCases cases cfg then defaultsActive cfg cases
  else match d with
    | some dc => defaultsOfCase dc cases
    | none => []

theorem defaultsS_leaf (cfg : List Tok) (n : Tok) (t : τ) (d : Option Bytes) (m : Bool) (r : List (SN τ)) :
    defaultsS cfg (.leaf n t d m :: r) = emitLeaf cfg n d m ++ defaultsS cfg r := by
  rw [defaultsS.eq_def]; rfl
theorem defaultsS_container (cfg : List Tok) (n : Tok) (pr : Bool) (kids r : List (SN τ)) :
    defaultsS cfg (.container n pr kids :: r) = emitContainer cfg n pr kids ++ defaultsS cfg r := by
  rw [defaultsS.eq_def]; rfl
theorem defaultsS_choice (cfg : List Tok) (a : Tok) (b : Bool) (d : Option Tok) (cases r : List (SN τ)) :
    defaultsS cfg (.choice a b d cases :: r) = emitChoice cfg d cases ++ defaultsS cfg r := by
  rw [defaultsS.eq_def]; rfl
theorem defaultsS_list (cfg : List Tok) (n : Tok) (ks : List Tok) (a : Nat) (b : Option Nat) (u : List (List (List Tok))) (k r : List (SN τ)) :
    defaultsS cfg (.list n ks a b u k :: r) = defaultsS cfg r := by rw [defaultsS.eq_def]
theorem defaultsS_leafList (cfg : List Tok) (n : Tok) (t : τ) (a : Nat) (b : Option Nat) (r : List (SN τ)) :
    defaultsS cfg (.leafList n t a b :: r) = defaultsS cfg r := by rw [defaultsS.eq_def]
theorem defaultsS_case (cfg : List Tok) (n : Tok) (k r : List (SN τ)) :
    defaultsS cfg (.case n k :: r) = defaultsS cfg r := by rw [defaultsS.eq_def]
theorem defaultsActive_case (cfg : List Tok) (n : Tok) (kids r : List (SN τ)) :
    defaultsActive cfg (.case n kids :: r) = (if active kids cfg then defaultsS cfg kids else []) ++ defaultsActive cfg r := by
  rw [defaultsActive.eq_def]
theorem defaultsOfCase_case (dc : Tok) (n : Tok) (kids r : List (SN τ)) :
    defaultsOfCase dc (.case n kids :: r) = if n = dc then defaultsS [] kids else defaultsOfCase dc r := by
  rw [defaultsOfCase.eq_def]

theorem emitLeaf_names (cfg : List Tok) (n : Tok) (d : Option Bytes) (m : Bool) : ∀ x ∈ dnames (emitLeaf cfg n d m), x = n := by
  intro x h
  unfold emitLeaf at h
  cases d with
  | none => simp at h
  | some dv => simp only at h; split at h <;> simp [dnames, DN.name] at h; exact h
theorem emitContainer_names (cfg : List Tok) (n : Tok) (pr : Bool) (kids : List (SN τ)) :
    ∀ x ∈ dnames (emitContainer cfg n pr kids), x = n := by
  intro x h
  unfold emitContainer at h
  split at h
  · split at h <;> simp [dnames, DN.name] at h; exact h
  · simp at h

mutual
/-- what is emitted is named like a node of the flattened map -/
theorem emS_names (cfg : List Tok) : ∀ (nodes : List (SN τ)), ∀ n ∈ dnames (defaultsS cfg nodes), n ∈ names nodes
  | [], n, h => by simp [defaultsS] at h
  | .leaf a t d m :: r, n, h => by
    rw [defaultsS_leaf] at h
    rw [names_leaf]
    simp only [dnames_append, List.mem_append] at h
    rcases h with h | h
    · simp [emitLeaf_names cfg a d m n h]
    · exact List.mem_cons_of_mem _ (emS_names cfg r n h)
  | .container a pr kids :: r, n, h => by
    rw [defaultsS_container] at h
    rw [names_container]
    simp only [dnames_append, List.mem_append] at h
    rcases h with h | h
    · simp [emitContainer_names cfg a pr kids n h]
    · exact List.mem_cons_of_mem _ (emS_names cfg r n h)
  | .choice a b d cases :: r, n, h => by
    rw [defaultsS_choice] at h
    rw [names_choice]
    simp only [dnames_append, List.mem_append] at h ⊢
    rcases h with h | h
    · left
      unfold emitChoice at h
      split at h
      · exact emA_names cfg cases n h
      · cases d with
        | none => simp at h
        | some dc => exact emD_names dc cases n h
    · right; exact emS_names cfg r n h
  | .list a ks mn mx u k :: r, n, h => by
    rw [defaultsS_list] at h; rw [names_list]; exact List.mem_cons_of_mem _ (emS_names cfg r n h)
  | .leafList a t mn mx :: r, n, h => by
    rw [defaultsS_leafList] at h; rw [names_leafList]; exact List.mem_cons_of_mem _ (emS_names cfg r n h)
  | .case a k :: r, n, h => by
    rw [defaultsS_case] at h
    have := emS_names cfg r n h
    simp only [names, dataKids, List.map_cons, List.mem_cons] at this ⊢
    right; exact this
theorem emA_names (cfg : List Tok) : ∀ (cases : List (SN τ)), ∀ n ∈ dnames (defaultsActive cfg cases), n ∈ cnames cases
  | [], n, h => by simp [defaultsActive] at h
  | .case a kids :: r, n, h => by
    rw [defaultsActive_case] at h
    rw [cnames_case]
    simp only [dnames_append, List.mem_append] at h ⊢
    rcases h with h | h
    · left
      split at h
      · exact emS_names cfg kids n h
      · simp at h
    · right; exact emA_names cfg r n h
  | .choice .. :: r, n, h => by
    rw [defaultsActive.eq_def] at h
    have := emA_names cfg r n h
    simp only [cnames, caseKids, List.map_cons, List.mem_cons] at this ⊢
    right; exact this
  | .container .. :: r, n, h => by
    rw [defaultsActive.eq_def] at h
    have := emA_names cfg r n h
    simp only [cnames, caseKids, List.map_cons, List.mem_cons] at this ⊢
    right; exact this
  | .list .. :: r, n, h => by
    rw [defaultsActive.eq_def] at h
    have := emA_names cfg r n h
    simp only [cnames, caseKids, List.map_cons, List.mem_cons] at this ⊢
    right; exact this
  | .leaf .. :: r, n, h => by
    rw [defaultsActive.eq_def] at h
    have := emA_names cfg r n h
    simp only [cnames, caseKids, List.map_cons, List.mem_cons] at this ⊢
    right; exact this
  | .leafList .. :: r, n, h => by
    rw [defaultsActive.eq_def] at h
    have := emA_names cfg r n h
    simp only [cnames, caseKids, List.map_cons, List.mem_cons] at this ⊢
    right; exact this
theorem emD_names (dc : Tok) : ∀ (cases : List (SN τ)), ∀ n ∈ dnames (defaultsOfCase dc cases), n ∈ cnames cases
  | [], n, h => by simp [defaultsOfCase] at h
  | .case a kids :: r, n, h => by
    rw [defaultsOfCase_case] at h
    rw [cnames_case]
    simp only [List.mem_append]
    split at h
    · left; exact emS_names [] kids n h
    · right; exact emD_names dc r n h
  | .choice .. :: r, n, h => by
    rw [defaultsOfCase.eq_def] at h
    have := emD_names dc r n h
    simp only [cnames, caseKids, List.map_cons, List.mem_cons] at this ⊢
    right; exact this
  | .container .. :: r, n, h => by
    rw [defaultsOfCase.eq_def] at h
    have := emD_names dc r n h
    simp only [cnames, caseKids, List.map_cons, List.mem_cons] at this ⊢
    right; exact this
  | .list .. :: r, n, h => by
    rw [defaultsOfCase.eq_def] at h
    have := emD_names dc r n h
    simp only [cnames, caseKids, List.map_cons, List.mem_cons] at this ⊢
    right; exact this
  | .leaf .. :: r, n, h => by
    rw [defaultsOfCase.eq_def] at h
    have := emD_names dc r n h
    simp only [cnames, caseKids, List.map_cons, List.mem_cons] at this ⊢
    right; exact this
  | .leafList .. :: r, n, h => by
    rw [defaultsOfCase.eq_def] at h
    have := emD_names dc r n h
    simp only [cnames, caseKids, List.map_cons, List.mem_cons] at this ⊢
    right; exact this
end

/-! ### a second pass adds nothing -/

/-- `c'` is `c` plus the names of what was emitted, as far as the names in `S` are concerned -/
def Upd (S c c' : List Tok) (E : List DN) : Prop := ∀ n ∈ S, (n ∈ c' ↔ n ∈ c ∨ n ∈ dnames E)

theorem nodup_disj {S1 S2 : List Tok} (hnd : (S1 ++ S2).Nodup) {n : Tok} (h1 : n ∈ S1) (h2 : n ∈ S2) : False :=
  (List.nodup_append.mp hnd).2.2 n h1 n h2 rfl

theorem Upd_left {S1 S2 c c' : List Tok} {E1 E2 : List DN} (hnd : (S1 ++ S2).Nodup)
    (h2 : ∀ n ∈ dnames E2, n ∈ S2) (h : Upd (S1 ++ S2) c c' (E1 ++ E2)) : Upd S1 c c' E1 := by
  intro n hn
  have := h n (List.mem_append_left _ hn)
  rw [this, dnames_append, List.mem_append]
  constructor
  · rintro (h | h | h)
    · exact Or.inl h
    · exact Or.inr h
    · exact (nodup_disj hnd hn (h2 n h)).elim
  · rintro (h | h)
    · exact Or.inl h
    · exact Or.inr (Or.inl h)

theorem Upd_right {S1 S2 c c' : List Tok} {E1 E2 : List DN} (hnd : (S1 ++ S2).Nodup)
    (h1 : ∀ n ∈ dnames E1, n ∈ S1) (h : Upd (S1 ++ S2) c c' (E1 ++ E2)) : Upd S2 c c' E2 := by
  intro n hn
  have := h n (List.mem_append_right _ hn)
  rw [this, dnames_append, List.mem_append]
  constructor
  · rintro (h | h | h)
    · exact Or.inl h
    · exact (nodup_disj hnd (h1 n h) hn).elim
    · exact Or.inr h
  · rintro (h | h)
    · exact Or.inl h
    · exact Or.inr (Or.inr h)

theorem nodup_left {S1 S2 : List Tok} (h : (S1 ++ S2).Nodup) : S1.Nodup := (List.nodup_append.mp h).1
theorem nodup_right {S1 S2 : List Tok} (h : (S1 ++ S2).Nodup) : S2.Nodup := (List.nodup_append.mp h).2.1

/-- no case has anything configured: nothing is emitted -/
theorem defaultsActive_inactive (c : List Tok) : ∀ (cases : List (SN τ)), wfC cases →
    (∀ n ∈ cnames cases, n ∉ c) → defaultsActive c cases = []
  | [], _, _ => by simp [defaultsActive]
  | .case a kids :: r, hw, h => by
    rw [defaultsActive_case]
    rw [cnames_case] at h
    have hna : active kids c = false := by
      rw [Bool.eq_false_iff]; intro ha
      obtain ⟨n, hn, hc⟩ := (active_iff kids c).mp ha
      exact h n (List.mem_append_left _ hn) hc
    rw [wfC] at hw
    simp [hna, defaultsActive_inactive c r hw.2 (fun n hn => h n (List.mem_append_right _ hn))]
  | .container .. :: _, hw, _ => by rw [wfC] at hw; exact hw.elim
  | .list .. :: _, hw, _ => by rw [wfC] at hw; exact hw.elim
  | .leaf .. :: _, hw, _ => by rw [wfC] at hw; exact hw.elim
  | .leafList .. :: _, hw, _ => by rw [wfC] at hw; exact hw.elim
  | .choice .. :: _, hw, _ => by rw [wfC] at hw; exact hw.elim

theorem dnames_eq_nil {l : List DN} (h : dnames l = []) : l = [] := by
  cases l with
  | nil => rfl
  | cons a r => simp [dnames] at h

mutual
theorem second_S : ∀ (nodes : List (SN τ)), wfL nodes → (names nodes).Nodup → ∀ (c c' : List Tok),
    Upd (names nodes) c c' (defaultsS c nodes) → defaultsS c' nodes = []
  | [], _, _, _, _, _ => by simp [defaultsS]
  | .leaf a t d m :: r, hw, hnd, c, c', h => by
    rw [wfL] at hw
    rw [names_leaf] at hnd h
    rw [defaultsS_leaf] at h ⊢
    have hnd' : ([a] ++ names r).Nodup := hnd
    have hl := Upd_left hnd' (emS_names c r) h
    have hr := Upd_right hnd' (fun n hn => by simp [emitLeaf_names c a d m n hn]) h
    rw [second_S r hw.2 (nodup_right hnd') c c' hr, List.append_nil]
    have ha := hl a (by simp)
    unfold emitLeaf at ha ⊢
    cases d with
    | none => rfl
    | some dv =>
      simp only at ha ⊢
      by_cases hc : (!m && !c.contains a) = true
      · rw [if_pos hc] at ha
        have : a ∈ c' := ha.mpr (Or.inr (by simp [dnames, DN.name]))
        simp [this]
      · rw [if_neg hc] at ha
        by_cases hm : m = true
        · simp [hm]
        · have hca : a ∈ c := by
            simp only [Bool.and_eq_true, Bool.not_eq_true', not_and, Bool.not_eq_false] at hc
            have := hc (by simpa using hm)
            simpa using this
          have : a ∈ c' := ha.mpr (Or.inl hca)
          simp [this]
  | .container a pr kids :: r, hw, hnd, c, c', h => by
    rw [wfL] at hw
    rw [names_container] at hnd h
    rw [defaultsS_container] at h ⊢
    have hnd' : ([a] ++ names r).Nodup := hnd
    have hl := Upd_left hnd' (emS_names c r) h
    have hr := Upd_right hnd' (fun n hn => by simp [emitContainer_names c a pr kids n hn]) h
    rw [second_S r hw.2 (nodup_right hnd') c c' hr, List.append_nil]
    have ha := hl a (by simp)
    unfold emitContainer at ha ⊢
    by_cases hemp : (defaultsS [] kids).isEmpty = true
    · simp [hemp]
    · simp only [hemp, Bool.false_eq_true, ↓reduceIte] at ha ⊢
      by_cases hc : (!pr && !c.contains a) = true
      · rw [if_pos hc] at ha
        have : a ∈ c' := ha.mpr (Or.inr (by simp [dnames, DN.name]))
        simp [this]
      · rw [if_neg hc] at ha
        by_cases hp : pr = true
        · simp [hp]
        · have hca : a ∈ c := by
            simp only [Bool.and_eq_true, Bool.not_eq_true', not_and, Bool.not_eq_false] at hc
            have := hc (by simpa using hp)
            simpa using this
          have : a ∈ c' := ha.mpr (Or.inl hca)
          simp [this]
  | .list a ks mn mx u k :: r, hw, hnd, c, c', h => by
    rw [wfL] at hw
    rw [names_list] at hnd h
    rw [defaultsS_list] at h ⊢
    have hnd' : ([a] ++ names r).Nodup := hnd
    have h' : Upd ([a] ++ names r) c c' ([] ++ defaultsS c r) := h
    exact second_S r hw.2 (nodup_right hnd') c c' (Upd_right hnd' (by simp) h')
  | .leafList a t mn mx :: r, hw, hnd, c, c', h => by
    rw [wfL] at hw
    rw [names_leafList] at hnd h
    rw [defaultsS_leafList] at h ⊢
    have hnd' : ([a] ++ names r).Nodup := hnd
    have h' : Upd ([a] ++ names r) c c' ([] ++ defaultsS c r) := h
    exact second_S r hw.2 (nodup_right hnd') c c' (Upd_right hnd' (by simp) h')
  | .case a k :: r, hw, _, _, _, _ => by rw [wfL, wfN] at hw; exact hw.1.elim
  | .choice a b d cases :: r, hw, hnd, c, c', h => by
    rw [wfL, wfN] at hw
    rw [names_choice] at hnd h
    rw [defaultsS_choice] at h ⊢
    have hE : ∀ n ∈ dnames (emitChoice c d cases), n ∈ cnames cases := by
      intro n hn
      unfold emitChoice at hn
      split at hn
      · exact emA_names c cases n hn
      · cases d with
        | none => simp at hn
        | some dc => exact emD_names dc cases n hn
    have hl := Upd_left hnd (emS_names c r) h
    have hr := Upd_right hnd hE h
    rw [second_S r hw.2 (nodup_right hnd) c c' hr, List.append_nil]
    have hndc := nodup_left hnd
    unfold emitChoice at hl ⊢
    by_cases hact : activeCases cases c = true
    · rw [if_pos hact] at hl
      have hact' : activeCases cases c' = true := by
        obtain ⟨n, hn, hc⟩ := (activeCases_iff cases c).mp hact
        exact (activeCases_iff cases c').mpr ⟨n, hn, (hl n hn).mpr (Or.inl hc)⟩
      rw [if_pos hact']
      exact second_A cases hw.1.1 hndc c c' hl
    · rw [if_neg hact] at hl
      have hnc : ∀ n ∈ cnames cases, n ∉ c := by
        intro n hn hc
        exact hact ((activeCases_iff cases c).mpr ⟨n, hn, hc⟩)
      cases d with
      | none =>
        simp only at hl ⊢
        have : ¬ activeCases cases c' = true := by
          intro ha
          obtain ⟨n, hn, hc⟩ := (activeCases_iff cases c').mp ha
          rcases (hl n hn).mp hc with h1 | h1
          · exact hnc n hn h1
          · simp at h1
        rw [if_neg this]
      | some dc =>
        simp only at hl ⊢
        have hl' : ∀ n ∈ cnames cases, (n ∈ c' ↔ n ∈ dnames (defaultsOfCase dc cases)) := by
          intro n hn
          rw [hl n hn]
          exact ⟨fun h => h.elim (fun h1 => (hnc n hn h1).elim) id, Or.inr⟩
        by_cases hact' : activeCases cases c' = true
        · rw [if_pos hact']
          exact second_D cases hw.1.1 hndc dc c' hl'
        · rw [if_neg hact']
          apply dnames_eq_nil
          cases hE' : dnames (defaultsOfCase dc cases) with
          | nil => rfl
          | cons n rest =>
            exfalso
            have hn : n ∈ dnames (defaultsOfCase dc cases) := by rw [hE']; simp
            have hcn := emD_names dc cases n hn
            exact hact' ((activeCases_iff cases c').mpr ⟨n, hcn, (hl' n hcn).mpr hn⟩)
theorem second_A : ∀ (cases : List (SN τ)), wfC cases → (cnames cases).Nodup → ∀ (c c' : List Tok),
    Upd (cnames cases) c c' (defaultsActive c cases) → defaultsActive c' cases = []
  | [], _, _, _, _, _ => by simp [defaultsActive]
  | .case a kids :: r, hw, hnd, c, c', h => by
    rw [wfC] at hw
    rw [cnames_case] at hnd h
    rw [defaultsActive_case] at h ⊢
    have hE : ∀ n ∈ dnames (if active kids c = true then defaultsS c kids else []), n ∈ names kids := by
      intro n hn
      split at hn
      · exact emS_names c kids n hn
      · simp at hn
    have hl := Upd_left hnd (emA_names c r) h
    have hr := Upd_right hnd hE h
    rw [second_A r hw.2 (nodup_right hnd) c c' hr, List.append_nil]
    by_cases hact : active kids c = true
    · rw [if_pos hact] at hl
      split
      · exact second_S kids hw.1 (nodup_left hnd) c c' hl
      · rfl
    · rw [if_neg hact] at hl
      have : ¬ active kids c' = true := by
        intro ha
        obtain ⟨n, hn, hc⟩ := (active_iff kids c').mp ha
        rcases (hl n hn).mp hc with h1 | h1
        · exact hact ((active_iff kids c).mpr ⟨n, hn, h1⟩)
        · simp at h1
      rw [if_neg this]
  | .container .. :: _, hw, _, _, _, _ => by rw [wfC] at hw; exact hw.elim
  | .list .. :: _, hw, _, _, _, _ => by rw [wfC] at hw; exact hw.elim
  | .leaf .. :: _, hw, _, _, _, _ => by rw [wfC] at hw; exact hw.elim
  | .leafList .. :: _, hw, _, _, _, _ => by rw [wfC] at hw; exact hw.elim
  | .choice .. :: _, hw, _, _, _, _ => by rw [wfC] at hw; exact hw.elim
/-- nothing of the choice was configured and its default case was instantiated -/
theorem second_D : ∀ (cases : List (SN τ)), wfC cases → (cnames cases).Nodup → ∀ (dc : Tok) (c' : List Tok),
    (∀ n ∈ cnames cases, (n ∈ c' ↔ n ∈ dnames (defaultsOfCase dc cases))) → defaultsActive c' cases = []
  | [], _, _, _, _, _ => by simp [defaultsActive]
  | .case a kids :: r, hw, hnd, dc, c', h => by
    rw [wfC] at hw
    rw [cnames_case] at hnd h
    rw [defaultsOfCase_case] at h
    rw [defaultsActive_case]
    by_cases hdc : a = dc
    · rw [if_pos hdc] at h
      have hr : defaultsActive c' r = [] := by
        apply defaultsActive_inactive c' r hw.2
        intro n hn hc
        have := (h n (List.mem_append_right _ hn)).mp hc
        exact nodup_disj hnd (emS_names [] kids n this) hn
      rw [hr, List.append_nil]
      split
      · apply second_S kids hw.1 (nodup_left hnd) [] c'
        intro n hn
        rw [h n (List.mem_append_left _ hn)]
        simp
      · rfl
    · rw [if_neg hdc] at h
      have : ¬ active kids c' = true := by
        intro ha
        obtain ⟨n, hn, hc⟩ := (active_iff kids c').mp ha
        have := (h n (List.mem_append_left _ hn)).mp hc
        exact nodup_disj hnd hn (emD_names dc r n this)
      rw [if_neg this, List.nil_append]
      exact second_D r hw.2 (nodup_right hnd) dc c' (fun n hn => h n (List.mem_append_right _ hn))
  | .container .. :: _, hw, _, _, _, _ => by rw [wfC] at hw; exact hw.elim
  | .list .. :: _, hw, _, _, _, _ => by rw [wfC] at hw; exact hw.elim
  | .leaf .. :: _, hw, _, _, _, _ => by rw [wfC] at hw; exact hw.elim
  | .leafList .. :: _, hw, _, _, _, _ => by rw [wfC] at hw; exact hw.elim
  | .choice .. :: _, hw, _, _, _, _ => by rw [wfC] at hw; exact hw.elim
end

/-! ### what was added is left alone -/

theorem decorateEachS_nil (top : List (SN τ)) : decorateEachS top [] = [] := by rw [decorateEachS]
theorem decorateEachS_cons (top : List (SN τ)) (d : DN) (r : List DN) :
    decorateEachS top (d :: r) =
      (match lookup d.name (dataKids top) with
       | some sn => decorateNodeS sn d
       | none => d) :: decorateEachS top r := by
  conv => lhs; rw [decorateEachS.eq_def]; simp only
  cases lookup d.name (dataKids top) <;> rfl
theorem decorateEachS_append (top : List (SN τ)) (a b : List DN) :
    decorateEachS top (a ++ b) = decorateEachS top a ++ decorateEachS top b := by
  induction a with
  | nil => simp [decorateEachS_nil]
  | cons d r ih => simp [decorateEachS_cons, ih]
theorem decorateKidsS_eq (kids : List (SN τ)) (ds : List DN) :
    decorateKidsS kids ds = decorateEachS kids ds ++ defaultsS (ds.map (·.name)) kids := by rw [decorateKidsS]
theorem decorateNodeS_container (a : Tok) (pr : Bool) (kids : List (SN τ)) (n : Tok) (dk : List DN) (v : List Bytes) :
    decorateNodeS (.container a pr kids) (.mk n dk v) = .mk n (decorateKidsS kids dk) v := by rw [decorateNodeS]
theorem decorateNodeS_list (a : Tok) (ks : List Tok) (mn : Nat) (mx : Option Nat) (u : List (List (List Tok)))
    (kids : List (SN τ)) (n : Tok) (es : List DN) (v : List Bytes) :
    decorateNodeS (.list a ks mn mx u kids) (.mk n es v) = .mk n (decorateEntriesS kids es) v := by rw [decorateNodeS]
theorem decorateNodeS_leaf (a : Tok) (t : τ) (dv : Option Bytes) (m : Bool) (d : DN) :
    decorateNodeS (.leaf a t dv m) d = d := by cases d; simp [decorateNodeS]
theorem decorateNodeS_leafList (a : Tok) (t : τ) (mn : Nat) (mx : Option Nat) (d : DN) :
    decorateNodeS (.leafList a t mn mx) d = d := by cases d; simp [decorateNodeS]
theorem decorateNodeS_choice (a : Tok) (b : Bool) (c : Option Tok) (k : List (SN τ)) (d : DN) :
    decorateNodeS (.choice a b c k) d = d := by cases d; simp [decorateNodeS]
theorem decorateNodeS_case (a : Tok) (k : List (SN τ)) (d : DN) :
    decorateNodeS (.case a k) d = d := by cases d; simp [decorateNodeS]

theorem decorateNodeS_name (sn : SN τ) (d : DN) : (decorateNodeS sn d).name = d.name := by
  obtain ⟨n, dk, v⟩ := d
  cases sn <;> simp [decorateNodeS_container, decorateNodeS_list, decorateNodeS_leaf, decorateNodeS_leafList,
    decorateNodeS_choice, decorateNodeS_case, DN.name]

theorem decorateEachS_names (top : List (SN τ)) (ds : List DN) :
    (decorateEachS top ds).map (·.name) = ds.map (·.name) := by
  induction ds with
  | nil => simp [decorateEachS_nil]
  | cons d r ih =>
    rw [decorateEachS_cons]
    simp only [List.map_cons, ih]
    congr 1
    cases lookup d.name (dataKids top) with
    | none => rfl
    | some sn => exact decorateNodeS_name sn d

/-- the nodes of the flattened map are found under their names -/
def Found (top : List (SN τ)) (l : List (SN τ)) : Prop := ∀ sn ∈ l, lookup sn.name (dataKids top) = some sn

theorem lookup_of_nodup : ∀ (l : List (SN τ)), (l.map (·.name)).Nodup → ∀ sn ∈ l, lookup sn.name l = some sn
  | [], _, sn, h => by cases h
  | x :: r, hnd, sn, h => by
    rw [lookup]
    simp only [List.map_cons, List.nodup_cons] at hnd
    rcases List.mem_cons.mp h with rfl | h'
    · simp
    · have hne : x.name ≠ sn.name := by
        intro e
        exact hnd.1 (e ▸ List.mem_map_of_mem h')
      simp [hne, lookup_of_nodup r hnd.2 sn h']

theorem found_self (top : List (SN τ)) (h : (names top).Nodup) : Found top (dataKids top) :=
  fun sn hsn => lookup_of_nodup (dataKids top) h sn hsn

theorem dataKids_choice (a : Tok) (b : Bool) (c : Option Tok) (cases r : List (SN τ)) :
    dataKids (.choice a b c cases :: r) = caseKids cases ++ dataKids r := by rw [dataKids]
theorem caseKids_case (a : Tok) (kids r : List (SN τ)) :
    caseKids (.case a kids :: r) = dataKids kids ++ caseKids r := by rw [caseKids]

mutual
theorem closed_S : ∀ (nodes : List (SN τ)), wfL nodes → ∀ (top : List (SN τ)), Found top (dataKids nodes) →
    ∀ (cfg : List Tok), decorateEachS top (defaultsS cfg nodes) = defaultsS cfg nodes
  | [], _, _, _, _ => by simp [defaultsS, decorateEachS_nil]
  | .leaf a t d m :: r, hw, top, hf, cfg => by
    rw [wfL] at hw
    have hf' : Found top (.leaf a t d m :: dataKids r) := by simpa [dataKids] using hf
    rw [defaultsS_leaf, decorateEachS_append, closed_S r hw.2 top (fun sn h => hf' sn (List.mem_cons_of_mem _ h)) cfg]
    congr 1
    unfold emitLeaf
    cases d with
    | none => simp [decorateEachS_nil]
    | some dv =>
      simp only
      split
      · rw [decorateEachS_cons, decorateEachS_nil]
        have := hf' (.leaf a t (some dv) m) (by simp)
        simp only [SN.name] at this
        simp only [DN.name, this, decorateNodeS_leaf]
      · simp [decorateEachS_nil]
  | .container a pr kids :: r, hw, top, hf, cfg => by
    rw [wfL, wfN] at hw
    have hf' : Found top (.container a pr kids :: dataKids r) := by simpa [dataKids] using hf
    rw [defaultsS_container, decorateEachS_append, closed_S r hw.2 top (fun sn h => hf' sn (List.mem_cons_of_mem _ h)) cfg]
    congr 1
    unfold emitContainer
    split
    · split
      · simp [decorateEachS_nil]
      · rw [decorateEachS_cons, decorateEachS_nil]
        have := hf' (.container a pr kids) (by simp)
        simp only [SN.name] at this
        simp only [DN.name, this, decorateNodeS_container]
        rw [decorateKidsS_eq, closed_S kids hw.1.1 kids (found_self kids hw.1.2) []]
        rw [second_S kids hw.1.1 hw.1.2 [] ((defaultsS [] kids).map (·.name)) (fun n _ => ⟨Or.inr, fun h => h.elim (fun h => nomatch h) id⟩)]
        simp
    · simp [decorateEachS_nil]
  | .list a ks mn mx u k :: r, hw, top, hf, cfg => by
    rw [wfL] at hw
    have hf' : Found top (.list a ks mn mx u k :: dataKids r) := by simpa [dataKids] using hf
    rw [defaultsS_list]
    exact closed_S r hw.2 top (fun sn h => hf' sn (List.mem_cons_of_mem _ h)) cfg
  | .leafList a t mn mx :: r, hw, top, hf, cfg => by
    rw [wfL] at hw
    have hf' : Found top (.leafList a t mn mx :: dataKids r) := by simpa [dataKids] using hf
    rw [defaultsS_leafList]
    exact closed_S r hw.2 top (fun sn h => hf' sn (List.mem_cons_of_mem _ h)) cfg
  | .case a k :: r, hw, _, _, _ => by rw [wfL, wfN] at hw; exact hw.1.elim
  | .choice a b d cases :: r, hw, top, hf, cfg => by
    rw [wfL, wfN] at hw
    rw [dataKids_choice] at hf
    have hfl : Found top (caseKids cases) := fun sn h => hf sn (List.mem_append_left _ h)
    have hfr : Found top (dataKids r) := fun sn h => hf sn (List.mem_append_right _ h)
    rw [defaultsS_choice, decorateEachS_append, closed_S r hw.2 top hfr cfg]
    congr 1
    unfold emitChoice
    split
    · exact closed_A cases hw.1.1 top hfl cfg
    · cases d with
      | none => simp [decorateEachS_nil]
      | some dc => exact closed_D cases hw.1.1 top hfl dc
theorem closed_A : ∀ (cases : List (SN τ)), wfC cases → ∀ (top : List (SN τ)), Found top (caseKids cases) →
    ∀ (cfg : List Tok), decorateEachS top (defaultsActive cfg cases) = defaultsActive cfg cases
  | [], _, _, _, _ => by simp [defaultsActive, decorateEachS_nil]
  | .case a kids :: r, hw, top, hf, cfg => by
    rw [wfC] at hw
    rw [caseKids_case] at hf
    have hfl : Found top (dataKids kids) := fun sn h => hf sn (List.mem_append_left _ h)
    have hfr : Found top (caseKids r) := fun sn h => hf sn (List.mem_append_right _ h)
    rw [defaultsActive_case, decorateEachS_append, closed_A r hw.2 top hfr cfg]
    congr 1
    split
    · exact closed_S kids hw.1 top hfl cfg
    · simp [decorateEachS_nil]
  | .container .. :: _, hw, _, _, _ => by rw [wfC] at hw; exact hw.elim
  | .list .. :: _, hw, _, _, _ => by rw [wfC] at hw; exact hw.elim
  | .leaf .. :: _, hw, _, _, _ => by rw [wfC] at hw; exact hw.elim
  | .leafList .. :: _, hw, _, _, _ => by rw [wfC] at hw; exact hw.elim
  | .choice .. :: _, hw, _, _, _ => by rw [wfC] at hw; exact hw.elim
theorem closed_D : ∀ (cases : List (SN τ)), wfC cases → ∀ (top : List (SN τ)), Found top (caseKids cases) →
    ∀ (dc : Tok), decorateEachS top (defaultsOfCase dc cases) = defaultsOfCase dc cases
  | [], _, _, _, _ => by simp [defaultsOfCase, decorateEachS_nil]
  | .case a kids :: r, hw, top, hf, dc => by
    rw [wfC] at hw
    rw [caseKids_case] at hf
    have hfl : Found top (dataKids kids) := fun sn h => hf sn (List.mem_append_left _ h)
    have hfr : Found top (caseKids r) := fun sn h => hf sn (List.mem_append_right _ h)
    rw [defaultsOfCase_case]
    split
    · exact closed_S kids hw.1 top hfl []
    · exact closed_D r hw.2 top hfr dc
  | .container .. :: _, hw, _, _, _ => by rw [wfC] at hw; exact hw.elim
  | .list .. :: _, hw, _, _, _ => by rw [wfC] at hw; exact hw.elim
  | .leaf .. :: _, hw, _, _, _ => by rw [wfC] at hw; exact hw.elim
  | .leafList .. :: _, hw, _, _, _ => by rw [wfC] at hw; exact hw.elim
  | .choice .. :: _, hw, _, _, _ => by rw [wfC] at hw; exact hw.elim
end

/-! ### decorating twice = decorating once (specification) -/

mutual
theorem wfN_of_mem_dataKids : ∀ (nodes : List (SN τ)), wfL nodes → ∀ sn ∈ dataKids nodes, wfN sn
  | [], _, sn, h => by simp [dataKids] at h
  | .leaf a t d m :: r, hw, sn, h => by
    rw [wfL] at hw
    have h' : sn ∈ SN.leaf a t d m :: dataKids r := by simpa [dataKids] using h
    rcases List.mem_cons.mp h' with rfl | h'
    · exact hw.1
    · exact wfN_of_mem_dataKids r hw.2 sn h'
  | .leafList a t mn mx :: r, hw, sn, h => by
    rw [wfL] at hw
    have h' : sn ∈ SN.leafList a t mn mx :: dataKids r := by simpa [dataKids] using h
    rcases List.mem_cons.mp h' with rfl | h'
    · exact hw.1
    · exact wfN_of_mem_dataKids r hw.2 sn h'
  | .container a pr k :: r, hw, sn, h => by
    rw [wfL] at hw
    have h' : sn ∈ SN.container a pr k :: dataKids r := by simpa [dataKids] using h
    rcases List.mem_cons.mp h' with rfl | h'
    · exact hw.1
    · exact wfN_of_mem_dataKids r hw.2 sn h'
  | .list a ks mn mx u k :: r, hw, sn, h => by
    rw [wfL] at hw
    have h' : sn ∈ SN.list a ks mn mx u k :: dataKids r := by simpa [dataKids] using h
    rcases List.mem_cons.mp h' with rfl | h'
    · exact hw.1
    · exact wfN_of_mem_dataKids r hw.2 sn h'
  | .case a k :: r, hw, _, _ => by rw [wfL, wfN] at hw; exact hw.1.elim
  | .choice a b d cases :: r, hw, sn, h => by
    rw [wfL, wfN] at hw
    rw [dataKids_choice] at h
    rcases List.mem_append.mp h with h' | h'
    · exact wfN_of_mem_caseKids cases hw.1.1 sn h'
    · exact wfN_of_mem_dataKids r hw.2 sn h'
theorem wfN_of_mem_caseKids : ∀ (cases : List (SN τ)), wfC cases → ∀ sn ∈ caseKids cases, wfN sn
  | [], _, sn, h => by simp [caseKids] at h
  | .case a kids :: r, hw, sn, h => by
    rw [wfC] at hw
    rw [caseKids_case] at h
    rcases List.mem_append.mp h with h' | h'
    · exact wfN_of_mem_dataKids kids hw.1 sn h'
    · exact wfN_of_mem_caseKids r hw.2 sn h'
  | .container .. :: _, hw, _, _ => by rw [wfC] at hw; exact hw.elim
  | .list .. :: _, hw, _, _ => by rw [wfC] at hw; exact hw.elim
  | .leaf .. :: _, hw, _, _ => by rw [wfC] at hw; exact hw.elim
  | .leafList .. :: _, hw, _, _ => by rw [wfC] at hw; exact hw.elim
  | .choice .. :: _, hw, _, _ => by rw [wfC] at hw; exact hw.elim
end

theorem lookup_mem : ∀ (l : List (SN τ)) (n : Tok) (sn : SN τ), lookup n l = some sn → sn ∈ l
  | [], _, _, h => by simp [lookup] at h
  | x :: r, n, sn, h => by
    rw [lookup] at h
    split at h
    · simp only [Option.some.injEq] at h; subst h; simp
    · exact List.mem_cons_of_mem _ (lookup_mem r n sn h)

/-- the step from the children one by one to the children as a whole -/
theorem idemK_of (kids : List (SN τ)) (hw : wfL kids) (hnd : (names kids).Nodup) (ds : List DN)
    (hE : decorateEachS kids (decorateEachS kids ds) = decorateEachS kids ds) :
    decorateKidsS kids (decorateKidsS kids ds) = decorateKidsS kids ds := by
  rw [decorateKidsS_eq kids ds]
  generalize hA : defaultsS (ds.map (·.name)) kids = A
  rw [decorateKidsS_eq, decorateEachS_append, hE]
  have hcl : decorateEachS kids A = A := by
    rw [← hA]; exact closed_S kids hw kids (found_self kids hnd) _
  rw [hcl]
  have : defaultsS ((decorateEachS kids ds ++ A).map (·.name)) kids = [] := by
    apply second_S kids hw hnd (ds.map (·.name))
    intro n _
    rw [List.map_append, decorateEachS_names, List.mem_append, hA]
    rfl
  rw [this, List.append_nil]

mutual
theorem idemE (kids : List (SN τ)) (hw : wfL kids) : ∀ (ds : List DN),
    decorateEachS kids (decorateEachS kids ds) = decorateEachS kids ds
  | [] => by simp [decorateEachS_nil]
  | d :: r => by
    rw [decorateEachS_cons, decorateEachS_cons, idemE kids hw r]
    congr 1
    cases hl : lookup d.name (dataKids kids) with
    | none => simp only [hl]
    | some sn =>
      simp only [decorateNodeS_name, hl]
      exact idemN sn (wfN_of_mem_dataKids kids hw sn (lookup_mem _ _ _ hl)) d
theorem idemN : ∀ (sn : SN τ), wfN sn → ∀ (d : DN), decorateNodeS sn (decorateNodeS sn d) = decorateNodeS sn d
  | .leaf .., _, d => by simp [decorateNodeS_leaf]
  | .leafList .., _, d => by simp [decorateNodeS_leafList]
  | .choice .., _, d => by simp [decorateNodeS_choice]
  | .case .., _, d => by simp [decorateNodeS_case]
  | .container a pr kids, hw, .mk n dk v => by
    rw [wfN] at hw
    rw [decorateNodeS_container, decorateNodeS_container, idemK_of kids hw.1 hw.2 dk (idemE kids hw.1 dk)]
  | .list a ks mn mx u kids, hw, .mk n es v => by
    rw [wfN] at hw
    rw [decorateNodeS_list, decorateNodeS_list, idemEn kids hw.1 hw.2 es]
theorem idemEn (kids : List (SN τ)) (hw : wfL kids) (hnd : (names kids).Nodup) : ∀ (es : List DN),
    decorateEntriesS kids (decorateEntriesS kids es) = decorateEntriesS kids es
  | [] => by simp [decorateEntriesS]
  | .mk en ek v :: r => by
    rw [decorateEntriesS, decorateEntriesS, idemEn kids hw hnd r, idemK_of kids hw hnd ek (idemE kids hw ek)]
end

/-- **the specification of default decoration is idempotent** on every well-formed schema and every data tree -/
theorem decorateS_idem (top : List (SN τ)) (hw : wfL top) (hnd : (names top).Nodup) (root : DN) :
    decorateS top (decorateS top root) = decorateS top root := by
  obtain ⟨n, dk, v⟩ := root
  simp only [decorateS]
  rw [idemK_of top hw hnd dk (idemE top hw dk)]

end YV.DS
