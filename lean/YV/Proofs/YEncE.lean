/-
  Proofs.YEncE — list and leaf-list nodes without entries.  The decoders return such a node for `"ll": []`; the JSON
  writers write it back as an empty array; the XML writer has no way to write one (no element at all).  A tree that
  has such nodes comes back from XML as the tree without them: `dropEmpty`.
-/
import YV.Proofs.YEncX
namespace YV.E
open YV YV.Y YV.SC YV.D

variable {τ : Type}

mutual
/-- the tree without its list / leaf-list nodes that have no entries (at every depth) -/
def dropEmpty (kids : List (SN τ)) : List DN → List DN
  | [] => []
  | d :: r =>
    (match lookup d.name (dataKids kids), d with
     | some (.container _ _ ck), .mk n dk vals => [DN.mk n (dropEmpty ck dk) vals]
     | some (.list _ _ _ _ _ ck), .mk n es vals => if es = [] then [] else [DN.mk n (dropEmptyEntries ck es) vals]
     | some (.leafList ..), .mk n dk vals => if vals = [] then [] else [DN.mk n dk vals]
     | _, d => [d]) ++ dropEmpty kids r
def dropEmptyEntries (kids : List (SN τ)) : List DN → List DN
  | [] => []
  | .mk en ek ev :: r => DN.mk en (dropEmpty kids ek) ev :: dropEmptyEntries kids r
end

mutual
/-- well-formed data for the XML writer, empty lists and leaf-lists admitted (`xwfKids` without `es ≠ []`, `vals ≠ []`) -/
def xwfKids0 (kids : List (SN τ)) : List DN → Prop
  | [] => True
  | d :: r =>
    (∀ e ∈ r, e.name ≠ d.name) ∧
    (match lookup d.name (dataKids kids), d with
     | some (.container _ _ ck), .mk _ dk vals => vals = [] ∧ xwfKids0 ck dk
     | some (.list _ keys _ _ _ ck), .mk _ es vals => vals = [] ∧ xwfEntries0 ck (keys.headD []) es
     | some (.leaf ..), .mk _ dk vals => dk = [] ∧ ∃ v, vals = [v]
     | some (.leafList ..), .mk _ dk _ => dk = []
     | _, _ => False) ∧ xwfKids0 kids r
def xwfEntries0 (kids : List (SN τ)) (key : Tok) : List DN → Prop
  | [] => True
  | .mk en ek ev :: r =>
    ev = [] ∧ xwfKids0 kids ek ∧ keyOf key ek = some en ∧ (∀ e ∈ r, e.name ≠ en) ∧ xwfEntries0 kids key r
end

/-! ### the definition, node by node -/

/-- what `dropEmpty` keeps of one node -/
def dropOne (kids : List (SN τ)) (d : DN) : List DN :=
  match lookup d.name (dataKids kids), d with
  | some (.container _ _ ck), .mk n dk vals => [DN.mk n (dropEmpty ck dk) vals]
  | some (.list _ _ _ _ _ ck), .mk n es vals => if es = [] then [] else [DN.mk n (dropEmptyEntries ck es) vals]
  | some (.leafList ..), .mk n dk vals => if vals = [] then [] else [DN.mk n dk vals]
  | _, d => [d]

theorem dropEmpty_nil (kids : List (SN τ)) : dropEmpty kids [] = [] := by rw [dropEmpty.eq_def]

theorem dropEmpty_cons (kids : List (SN τ)) (d : DN) (r : List DN) :
    dropEmpty kids (d :: r) = dropOne kids d ++ dropEmpty kids r := by
  rw [dropEmpty.eq_def]
  rfl

theorem dropOne_container (kids : List (SN τ)) (n : Tok) (dk : List DN) (vals : List Bytes) {a : Tok} {b : Bool}
    {ck : List (SN τ)} (hl : lookup n (dataKids kids) = some (.container a b ck)) :
    dropOne kids (.mk n dk vals) = [DN.mk n (dropEmpty ck dk) vals] := by
  simp only [dropOne, DN.name_mk, hl]

theorem dropOne_list (kids : List (SN τ)) (n : Tok) (es : List DN) (vals : List Bytes) {a : Tok} {b : List Tok}
    {c : Nat} {e : Option Nat} {g : List (List (List Tok))}
    {ck : List (SN τ)} (hl : lookup n (dataKids kids) = some (.list a b c e g ck)) :
    dropOne kids (.mk n es vals) = if es = [] then [] else [DN.mk n (dropEmptyEntries ck es) vals] := by
  simp only [dropOne, DN.name_mk, hl]

theorem dropOne_leafList (kids : List (SN τ)) (n : Tok) (dk : List DN) (vals : List Bytes) {a : Tok} {b : τ}
    {c : Nat} {e : Option Nat} (hl : lookup n (dataKids kids) = some (.leafList a b c e)) :
    dropOne kids (.mk n dk vals) = if vals = [] then [] else [DN.mk n dk vals] := by
  simp only [dropOne, DN.name_mk, hl]

theorem dropOne_leaf (kids : List (SN τ)) (d : DN) {a : Tok} {b : τ}
    {c : Option Bytes} {e : Bool} (hl : lookup d.name (dataKids kids) = some (.leaf a b c e)) :
    dropOne kids d = [d] := by
  simp only [dropOne, hl]

theorem dropEntries_nil (kids : List (SN τ)) : dropEmptyEntries kids [] = [] := by rw [dropEmptyEntries.eq_def]

theorem dropEntries_cons (kids : List (SN τ)) (en : Tok) (ek : List DN) (ev : List Bytes) (r : List DN) :
    dropEmptyEntries kids (.mk en ek ev :: r) = DN.mk en (dropEmpty kids ek) ev :: dropEmptyEntries kids r := by
  rw [dropEmptyEntries.eq_def]

/-- one node gives at most itself, under its name and with its values -/
theorem dropOne_cases (kids : List (SN τ)) (d : DN) :
    dropOne kids d = [] ∨ ∃ k, dropOne kids d = [DN.mk d.name k d.vals] := by
  cases d with
  | mk n dk vals =>
    unfold dropOne
    simp only [DN.name_mk, DN.vals]
    split
    · rename_i h; injection h with h1 h2 h3; subst h1 h2 h3; exact .inr ⟨_, rfl⟩
    · rename_i h; injection h with h1 h2 h3; subst h1 h2 h3
      split
      · exact .inl rfl
      · exact .inr ⟨_, rfl⟩
    · rename_i h; injection h with h1 h2 h3; subst h1 h2 h3
      split
      · exact .inl rfl
      · exact .inr ⟨_, rfl⟩
    · exact .inr ⟨_, rfl⟩

/-! ### the XML writer does not see the dropped nodes -/

theorem xencKids_append (kids : List (SN τ)) (a b : List DN) :
    xencKids kids (a ++ b) = xencKids kids a ++ xencKids kids b := by
  simp only [xencKids_flatMap, List.flatMap_append]

theorem xencKids_single (kids : List (SN τ)) (d : DN) : xencKids kids [d] = xblock kids d := by
  rw [xencKids_flatMap]; simp

theorem xencKids_cons (kids : List (SN τ)) (d : DN) (r : List DN) :
    xencKids kids (d :: r) = xblock kids d ++ xencKids kids r := by
  simp only [xencKids_flatMap, List.flatMap_cons]

theorem xencKids_nil (kids : List (SN τ)) : xencKids kids [] = [] := by rw [xencKids]

mutual
/-- the XML writer writes nothing for a list / leaf-list node without entries -/
theorem xencKids_dropEmpty (kids : List (SN τ)) (ds : List DN) :
    xencKids kids (dropEmpty kids ds) = xencKids kids ds :=
  match ds with
  | [] => by rw [dropEmpty_nil]
  | d :: r => by
    rw [dropEmpty_cons, xencKids_append, xencKids_dropEmpty kids r, xencKids_cons]
    congr 1
    cases d with
    | mk n dk vals =>
      cases hl : lookup n (dataKids kids) with
      | none => simp only [dropOne, DN.name_mk, hl, xencKids_single]
      | some sn =>
        cases sn with
        | container a b ck =>
          rw [dropOne_container kids n dk vals hl]
          simp only [xencKids_single, xblock, DN.name_mk, hl]
          rw [xencKids_dropEmpty ck dk]
        | list a b c e g ck =>
          rw [dropOne_list kids n dk vals hl]
          split
          · rename_i h; subst h
            simp only [xblock, DN.name_mk, hl, xencKids_nil, xencEntries]
          · simp only [xencKids_single, xblock, DN.name_mk, hl]
            exact xencEntries_dropEmpty ck n dk
        | leaf a b c e => rw [dropOne_leaf kids (.mk n dk vals) hl, xencKids_single]
        | leafList a b c e =>
          rw [dropOne_leafList kids n dk vals hl]
          split
          · rename_i h; subst h
            simp only [xblock, DN.name_mk, hl, xencKids_nil, List.map_nil]
          · simp only [xencKids_single]
        | choice a b c e => simp only [dropOne, DN.name_mk, hl, xencKids_single]
        | case a b => simp only [dropOne, DN.name_mk, hl, xencKids_single]
theorem xencEntries_dropEmpty (kids : List (SN τ)) (n : Tok) (es : List DN) :
    xencEntries kids n (dropEmptyEntries kids es) = xencEntries kids n es :=
  match es with
  | [] => by rw [dropEntries_nil]
  | .mk en ek ev :: r => by
    rw [dropEntries_cons, xencEntries, xencEntries, xencKids_dropEmpty kids ek, xencEntries_dropEmpty kids n r]
end

/-! ### depth -/

theorem dDepthL_nil : dDepthL [] = 0 := by rw [dDepthL]

theorem dDepthL_cons (d : DN) (r : List DN) : dDepthL (d :: r) = max (dDepth d) (dDepthL r) := by rw [dDepthL]

theorem dDepthL_single (d : DN) : dDepthL [d] = dDepth d := by
  rw [dDepthL_cons, dDepthL_nil]; omega

theorem dDepthL_append (a b : List DN) : dDepthL (a ++ b) = max (dDepthL a) (dDepthL b) := by
  induction a with
  | nil => rw [List.nil_append, dDepthL_nil]; omega
  | cons x r ih => rw [List.cons_append, dDepthL_cons, dDepthL_cons, ih]; omega

mutual
/-- depth does not grow -/
theorem dDepthL_dropEmpty (kids : List (SN τ)) (ds : List DN) : dDepthL (dropEmpty kids ds) ≤ dDepthL ds :=
  match ds with
  | [] => by rw [dropEmpty_nil]; exact Nat.le_refl _
  | d :: r => by
    rw [dropEmpty_cons, dDepthL_append, dDepthL_cons]
    have hr := dDepthL_dropEmpty kids r
    have hd : dDepthL (dropOne kids d) ≤ dDepth d := by
      cases d with
      | mk n dk vals =>
        cases hl : lookup n (dataKids kids) with
        | none => simp only [dropOne, DN.name_mk, hl, dDepthL_single]; exact Nat.le_refl _
        | some sn =>
          cases sn with
          | container a b ck =>
            rw [dropOne_container kids n dk vals hl, dDepthL_single, dDepth, dDepth]
            have := dDepthL_dropEmpty ck dk
            omega
          | list a b c e g ck =>
            rw [dropOne_list kids n dk vals hl]
            split
            · rw [dDepthL_nil]; omega
            · rw [dDepthL_single, dDepth, dDepth]
              have := dDepthL_dropEntries ck dk
              omega
          | leaf a b c e => rw [dropOne_leaf kids (.mk n dk vals) hl, dDepthL_single]; exact Nat.le_refl _
          | leafList a b c e =>
            rw [dropOne_leafList kids n dk vals hl]
            split
            · rw [dDepthL_nil]; omega
            · rw [dDepthL_single]; exact Nat.le_refl _
          | choice a b c e => simp only [dropOne, DN.name_mk, hl, dDepthL_single]; exact Nat.le_refl _
          | case a b => simp only [dropOne, DN.name_mk, hl, dDepthL_single]; exact Nat.le_refl _
    omega
theorem dDepthL_dropEntries (kids : List (SN τ)) (es : List DN) :
    dDepthL (dropEmptyEntries kids es) ≤ dDepthL es :=
  match es with
  | [] => by rw [dropEntries_nil]; exact Nat.le_refl _
  | .mk en ek ev :: r => by
    rw [dropEntries_cons, dDepthL_cons, dDepthL_cons, dDepth, dDepth]
    have h1 := dDepthL_dropEmpty kids ek
    have h2 := dDepthL_dropEntries kids r
    omega
end

/-! ### what is left is well-formed -/

theorem dropOne_names (kids : List (SN τ)) (d : DN) : ∀ e ∈ dropOne kids d, e.name = d.name := by
  intro e he
  rcases dropOne_cases kids d with h | ⟨k, h⟩
  · rw [h] at he; cases he
  · rw [h] at he
    simp only [List.mem_singleton] at he
    rw [he]; rfl

theorem dropEmpty_names (kids : List (SN τ)) (ds : List DN) :
    ∀ e ∈ dropEmpty kids ds, ∃ e' ∈ ds, e'.name = e.name := by
  induction ds with
  | nil => intro e he; rw [dropEmpty_nil] at he; cases he
  | cons d r ih =>
    intro e he
    rw [dropEmpty_cons] at he
    rcases List.mem_append.mp he with h | h
    · exact ⟨d, by simp, (dropOne_names kids d e h).symm⟩
    · obtain ⟨e', he', hn⟩ := ih e h
      exact ⟨e', by simp [he'], hn⟩

theorem dropEntries_names (kids : List (SN τ)) (es : List DN) :
    ∀ e ∈ dropEmptyEntries kids es, ∃ e' ∈ es, e'.name = e.name := by
  induction es with
  | nil => intro e he; rw [dropEntries_nil] at he; cases he
  | cons d r ih =>
    cases d with
    | mk en ek ev =>
      intro e he
      rw [dropEntries_cons] at he
      rcases List.mem_cons.mp he with h | h
      · exact ⟨.mk en ek ev, by simp, by rw [h]; rfl⟩
      · obtain ⟨e', he', hn⟩ := ih e h
        exact ⟨e', by simp [he'], hn⟩

theorem dropEntries_ne_nil (kids : List (SN τ)) (es : List DN) (h : es ≠ []) : dropEmptyEntries kids es ≠ [] := by
  cases es with
  | nil => exact absurd rfl h
  | cons d r =>
    cases d with
    | mk en ek ev => rw [dropEntries_cons]; exact List.cons_ne_nil _ _

theorem keyOf_cons (key : Tok) (d : DN) (r : List DN) :
    keyOf key (d :: r) = if d.name = key then d.vals.head? else keyOf key r := by
  unfold keyOf
  rw [List.find?_cons]
  by_cases h : d.name = key
  · simp [h]
  · simp [h]

/-- a node that is dropped has no value -/
theorem dropOne_nil_vals (kids : List (SN τ)) (d : DN) (r : List DN) (h : xwfKids0 kids (d :: r))
    (hd : dropOne kids d = []) : d.vals = [] := by
  rw [xwfKids0.eq_def] at h
  obtain ⟨_, h2, _⟩ := h
  cases d with
  | mk n dk vals =>
    simp only [DN.name_mk] at h2
    simp only [DN.vals]
    cases hl : lookup n (dataKids kids) with
    | none => simp [hl] at h2
    | some sn =>
      cases sn with
      | container a b ck => rw [dropOne_container kids n dk vals hl] at hd; cases hd
      | list a b c e g ck =>
        simp only [hl] at h2
        exact h2.1
      | leaf a b c e => rw [dropOne_leaf kids (.mk n dk vals) hl] at hd; cases hd
      | leafList a b c e =>
        rw [dropOne_leafList kids n dk vals hl] at hd
        split at hd
        · assumption
        · cases hd
      | choice a b c e => simp [hl] at h2
      | case a b => simp [hl] at h2

theorem xwfKids0_tail (kids : List (SN τ)) (d : DN) (r : List DN) (h : xwfKids0 kids (d :: r)) : xwfKids0 kids r := by
  rw [xwfKids0.eq_def] at h
  exact h.2.2

/-- the key leaf of an entry is not dropped -/
theorem keyOf_dropEmpty (kids : List (SN τ)) (key en : Tok) (ek : List DN) (h : xwfKids0 kids ek)
    (hk : keyOf key ek = some en) : keyOf key (dropEmpty kids ek) = some en := by
  induction ek with
  | nil => rw [dropEmpty_nil]; exact hk
  | cons d r ih =>
    rw [dropEmpty_cons]
    rw [keyOf_cons] at hk
    by_cases hn : d.name = key
    · rw [if_pos hn] at hk
      rcases dropOne_cases kids d with h0 | ⟨k, h1⟩
      · rw [dropOne_nil_vals kids d r h h0] at hk
        cases hk
      · rw [h1, List.singleton_append, keyOf_cons, DN.name_mk, if_pos hn]
        exact hk
    · rw [if_neg hn] at hk
      have := ih (xwfKids0_tail kids d r h) hk
      rcases dropOne_cases kids d with h0 | ⟨k, h1⟩
      · rw [h0, List.nil_append]; exact this
      · rw [h1, List.singleton_append, keyOf_cons, DN.name_mk, if_neg hn]
        exact this

mutual
/-- what is left is well-formed in the strict sense -/
theorem xwfKids_dropEmpty (kids : List (SN τ)) (ds : List DN) (h : xwfKids0 kids ds) :
    xwfKids kids (dropEmpty kids ds) :=
  match ds, h with
  | [], _ => by rw [dropEmpty_nil, xwfKids.eq_def]; trivial
  | d :: r, h => by
    rw [xwfKids0.eq_def] at h
    obtain ⟨h1, h2, h3⟩ := h
    have ih := xwfKids_dropEmpty kids r h3
    have hn : ∀ e ∈ dropEmpty kids r, e.name ≠ d.name := by
      intro e he
      obtain ⟨e', he', hee⟩ := dropEmpty_names kids r e he
      rw [← hee]; exact h1 e' he'
    rw [dropEmpty_cons]
    cases d with
    | mk n dk vals =>
      simp only [DN.name_mk] at h2 hn
      cases hl : lookup n (dataKids kids) with
      | none => simp [hl] at h2
      | some sn =>
        cases sn with
        | container a b ck =>
          simp only [hl] at h2
          obtain ⟨hv, hk⟩ := h2
          rw [dropOne_container kids n dk vals hl, List.singleton_append, xwfKids.eq_def]
          simp only [DN.name_mk, hl]
          exact ⟨hn, ⟨hv, xwfKids_dropEmpty ck dk hk⟩, ih⟩
        | list a b c e g ck =>
          simp only [hl] at h2
          obtain ⟨hv, hk⟩ := h2
          rw [dropOne_list kids n dk vals hl]
          split
          · exact ih
          · rename_i hne
            rw [List.singleton_append, xwfKids.eq_def]
            simp only [DN.name_mk, hl]
            exact ⟨hn, ⟨hv, dropEntries_ne_nil ck dk hne, xwfEntries_dropEmpty ck (b.headD []) dk hk⟩, ih⟩
        | leaf a b c e =>
          simp only [hl] at h2
          rw [dropOne_leaf kids (.mk n dk vals) hl, List.singleton_append, xwfKids.eq_def]
          simp only [DN.name_mk, hl]
          exact ⟨hn, h2, ih⟩
        | leafList a b c e =>
          simp only [hl] at h2
          rw [dropOne_leafList kids n dk vals hl]
          split
          · exact ih
          · rename_i hne
            rw [List.singleton_append, xwfKids.eq_def]
            simp only [DN.name_mk, hl]
            exact ⟨hn, ⟨h2, hne⟩, ih⟩
        | choice a b c e => simp [hl] at h2
        | case a b => simp [hl] at h2
theorem xwfEntries_dropEmpty (kids : List (SN τ)) (key : Tok) (es : List DN) (h : xwfEntries0 kids key es) :
    xwfEntries kids key (dropEmptyEntries kids es) :=
  match es, h with
  | [], _ => by rw [dropEntries_nil, xwfEntries.eq_def]; trivial
  | .mk en ek ev :: r, h => by
    rw [xwfEntries0.eq_def] at h
    obtain ⟨hv, hk, hkey, hne, hr⟩ := h
    rw [dropEntries_cons, xwfEntries.eq_def]
    refine ⟨hv, xwfKids_dropEmpty kids ek hk, keyOf_dropEmpty kids key en ek hk hkey, ?_,
      xwfEntries_dropEmpty kids key r hr⟩
    intro e he
    obtain ⟨e', he', hee⟩ := dropEntries_names kids r e he
    rw [← hee]; exact hne e' he'
end

/-! ### the round trip -/

/-- (`Props.C19.C19_xml_roundtrip`, restated here: a Proofs file does not import a Props file) -/
theorem xml_roundtrip (top : List (SN τ)) (rn : Tok) (ks : List DN) (hwf : xwfKids top ks)
    (fuel : Nat) (hf : dDepthL ks < fuel) :
    fromX top fuel (toX top (.mk rn ks [])) = some (.mk rn ks []) := by
  cases fuel with
  | zero => omega
  | succ f =>
    have hall := xdec_all top ks hwf f (by omega) (xencKids top ks)
      (fun e he => by rw [xencKids_flatMap]; exact gather_blocks _ _ (blocks_of_wf top ks hwf) e he)
    simp only [toX, fromX, DN.kids, DN.name, xdec_whole top ks f hwf hall, Option.map_some]

/-- **round trip, XML, with empty lists and leaf-lists**: the tree comes back without them -/
theorem xml_roundtrip_dropEmpty (top : List (SN τ)) (rn : Tok) (ks : List DN) (hwf : xwfKids0 top ks)
    (fuel : Nat) (hf : dDepthL ks < fuel) :
    fromX top fuel (toX top (.mk rn ks [])) = some (.mk rn (dropEmpty top ks) []) := by
  have hx : toX top (.mk rn ks []) = toX top (.mk rn (dropEmpty top ks) []) := by
    simp only [toX, DN.kids, DN.name, xencKids_dropEmpty]
  rw [hx]
  exact xml_roundtrip top rn (dropEmpty top ks) (xwfKids_dropEmpty top ks hwf) fuel
    (Nat.lt_of_le_of_lt (dDepthL_dropEmpty top ks) hf)

end YV.E

#print axioms YV.E.xml_roundtrip_dropEmpty
