/-
  Proofs.XNames — every name test of a compiled must / when / path expression carries a prefix that the map
  of the module the text is written in accepts: the lexer hands out a NAMETEST token only after `pfxOk`, and
  both parsers emit a Name-Push only for the NAMETEST token they are looking at.
-/
import YV.Model.XParse
namespace YV.XP
open YV YV.X YV.XL

def okTok (pm : PfxMap) : Tok → Prop
  | .nametest p _ => pfxOk pm p = true
  | _ => True

def okPI (pm : PfxMap) : PI → Prop
  | .namePush p _ => pfxOk pm p = true
  | _ => True

/-- all NAMETEST tokens still to be read, and all Name-Push instructions emitted so far, are accepted -/
def InvN (pm : PfxMap) (s : PSt) : Prop := (∀ t ∈ s.toks, okTok pm t.tok) ∧ (∀ i ∈ s.out, okPI pm i)

def Keeps (pm : PfxMap) (r : P PSt) : Prop := ∀ s', r = .ok s' → InvN pm s'

variable {pm : PfxMap}

theorem inv_adv {s : PSt} (h : InvN pm s) : InvN pm (adv s) :=
  ⟨fun t ht => h.1 t (List.mem_of_mem_drop ht), h.2⟩

theorem inv_emit {s : PSt} (h : InvN pm s) (i : PI) (hi : okPI pm i) : InvN pm (emit s i) :=
  ⟨h.1, fun j hj => by
    simp only [emit, List.mem_cons] at hj
    rcases hj with rfl | hj
    · exact hi
    · exact h.2 j hj⟩

theorem inv_setErr {s : PSt} (h : InvN pm s) (m : String) : InvN pm (setErr s m) := h

theorem inv_peek {s : PSt} (h : InvN pm s) (p l : List Rune) (hp : peekTok s = .nametest p l) : pfxOk pm p = true := by
  unfold peekTok at hp
  cases ht : s.toks with
  | nil => simp [ht] at hp
  | cons t r =>
    simp only [ht] at hp
    have := h.1 t (by rw [ht]; simp)
    rw [hp] at this
    exact this

theorem Keeps_pure {s : PSt} (h : InvN pm s) : Keeps pm (pure s) := by
  intro s' hs; simp only [pure, Except.pure] at hs; injection hs with hs; subst hs; exact h

theorem Keeps_ok {s : PSt} (h : InvN pm s) : Keeps pm (.ok s) := Keeps_pure h

theorem Keeps_syn (s : PSt) : Keeps pm (synErr s) := by intro s' hs; simp [synErr] at hs

theorem Keeps_err (e : PErr) : Keeps pm (.error e) := by intro s' hs; simp at hs

theorem Keeps_bind (x : P PSt) (g : PSt → P PSt) (hx : Keeps pm x) (hg : ∀ a, InvN pm a → Keeps pm (g a)) :
    Keeps pm (x >>= g) := by
  cases x with
  | error e => intro s' hs; simp [bind, Except.bind] at hs
  | ok a => simpa [bind, Except.bind] using hg a (hx a rfl)

theorem Keeps_expectCh (c : Char) {s : PSt} (h : InvN pm s) : Keeps pm (expectCh c s) := by
  unfold expectCh
  split
  · exact Keeps_pure (inv_adv h)
  · exact Keeps_syn s

theorem Keeps_emitEnd (x : P PSt) (i : PI) (hi : okPI pm i) (hx : Keeps pm x) :
    Keeps pm (x >>= fun s => pure (emit s i)) :=
  Keeps_bind _ _ hx (fun a ha => Keeps_pure (inv_emit ha i hi))

structure InvK (pm : PfxMap) (f : Nat) : Prop where
  level : ∀ lvl s, InvN pm s → Keeps pm (pLevel f lvl s)
  levelRest : ∀ lvl s, InvN pm s → Keeps pm (pLevelRest f lvl s)
  unary : ∀ s, InvN pm s → Keeps pm (pUnary f s)
  unionRest : ∀ s, InvN pm s → Keeps pm (pUnionRest f s)
  path : ∀ s, InvN pm s → Keeps pm (pPath f s)
  locPath : ∀ s, InvN pm s → Keeps pm (pLocationPath f s)
  filterPath : ∀ s, InvN pm s → Keeps pm (pFilterPath f s)
  primary : ∀ s, InvN pm s → Keeps pm (pPrimary f s)
  preds : ∀ s, InvN pm s → Keeps pm (pPreds f s)
  relPath : ∀ s, InvN pm s → Keeps pm (pRelPath f s)
  step : ∀ s, InvN pm s → Keeps pm (pStep f s)

theorem invK_zero : InvK pm 0 := by
  constructor <;> intros
  all_goals (simp only [pLevel, pLevelRest, pUnary, pUnionRest, pPath, pLocationPath, pFilterPath, pPrimary, pPreds, pRelPath, pStep]; exact Keeps_err _)

theorem okPI_binOp (lvl : Nat) (t : Tok) (i : PI) (h : binOpAt lvl t = some i) : okPI pm i := by
  unfold binOpAt at h
  split at h <;> (try (injection h with h; subst h; trivial))
  all_goals (first | (split at h <;> (try split at h) <;> (try (injection h with h; subst h; trivial)) <;> simp at h) | simp at h)


theorem kstep_level (f : Nat) (ih : InvK pm f) (lvl : Nat) (s : PSt) (h : InvN pm s) : Keeps pm (pLevel (f + 1) lvl s) := by
  simp only [pLevel]
  split
  · exact ih.unary s h
  · exact Keeps_bind _ _ (ih.level (lvl + 1) s h) (fun a ha => ih.levelRest lvl a ha)

theorem kstep_levelRest (f : Nat) (ih : InvK pm f) (lvl : Nat) (s : PSt) (h : InvN pm s) : Keeps pm (pLevelRest (f + 1) lvl s) := by
  simp only [pLevelRest]
  split
  · exact Keeps_pure h
  · rename_i i hi
    exact Keeps_bind _ _ (ih.level (lvl + 1) (adv s) (inv_adv h))
      (fun a ha => ih.levelRest lvl (emit a i) (inv_emit ha i (okPI_binOp lvl _ i hi)))

theorem kstep_unary (f : Nat) (ih : InvK pm f) (s : PSt) (h : InvN pm s) : Keeps pm (pUnary (f + 1) s) := by
  simp only [pUnary]
  split
  · exact Keeps_emitEnd _ _ trivial (ih.unary (adv s) (inv_adv h))
  · exact Keeps_bind _ _ (ih.path s h) (fun a ha => ih.unionRest a ha)

theorem kstep_unionRest (f : Nat) (ih : InvK pm f) (s : PSt) (h : InvN pm s) : Keeps pm (pUnionRest (f + 1) s) := by
  simp only [pUnionRest]
  split
  · exact Keeps_bind _ _ (ih.path (adv s) (inv_adv h)) (fun a ha => ih.unionRest (emit a .union) (inv_emit ha _ trivial))
  · exact Keeps_pure h

theorem kstep_preds (f : Nat) (ih : InvK pm f) (s : PSt) (h : InvN pm s) : Keeps pm (pPreds (f + 1) s) := by
  simp only [pPreds]
  split
  · apply Keeps_bind _ _ (ih.level 0 (emit (adv s) .predStart) (inv_emit (inv_adv h) _ trivial))
    intro a ha
    apply Keeps_bind _ _ (Keeps_expectCh ']' ha)
    intro b hb
    exact ih.preds (emit b .predEnd) (inv_emit hb _ trivial)
  · exact Keeps_pure h

theorem keeps_nodeTest (f : Nat) (ih : InvK pm f) (s : PSt) (h : InvN pm s) :
    Keeps pm (match peekTok s with
      | .nametest px l => do
        let s := emit (adv s) (.namePush px l)
        if peekTok s = .ch (chr '[') then do
          let s ← pPreds f (emit s .predicatesStart)
          pure (emit s .predicatesEnd)
        else pure s
      | _ => synErr s) := by
  split
  · rename_i px l hp
    have hok : okPI pm (.namePush px l) := inv_peek h px l hp
    have h1 := inv_emit (inv_adv h) (.namePush px l) hok
    simp only []
    split
    · exact Keeps_emitEnd _ _ trivial (ih.preds _ (inv_emit h1 _ trivial))
    · exact Keeps_pure h1
  · exact Keeps_syn _

theorem kstep_step (f : Nat) (ih : InvK pm f) (s : PSt) (h : InvN pm s) : Keeps pm (pStep (f + 1) s) := by
  simp only [pStep]
  split
  · split
    · exact Keeps_pure (inv_adv h)
    · split
      · exact keeps_nodeTest f ih _ (inv_setErr (inv_adv h) _)
      · exact Keeps_syn _
  · exact Keeps_pure (inv_emit (inv_adv h) _ trivial)
  · split
    · exact keeps_nodeTest f ih _ (inv_setErr (inv_adv (inv_adv h)) _)
    · exact Keeps_syn _
  · exact keeps_nodeTest f ih s h
  · exact Keeps_syn _

theorem kstep_relPath (f : Nat) (ih : InvK pm f) (s : PSt) (h : InvN pm s) : Keeps pm (pRelPath (f + 1) s) := by
  simp only [pRelPath]
  apply Keeps_bind _ _ (ih.step s h)
  intro a ha
  split
  · split
    · exact ih.relPath (adv a) (inv_adv ha)
    · exact Keeps_pure ha
  · exact ih.relPath _ (inv_setErr (inv_adv ha) _)
  · exact Keeps_pure ha

theorem inv_fin {s : PSt} (h : InvN pm s) (c : Prop) [Decidable c] (m : String) (fn : Fn) :
    InvN pm (emit (if c then setErr s m else s) (.bltin fn)) := by
  split
  · exact inv_emit (inv_setErr h m) _ trivial
  · exact inv_emit h _ trivial

theorem kstep_primary (f : Nat) (ih : InvK pm f) (s : PSt) (h : InvN pm s) : Keeps pm (pPrimary (f + 1) s) := by
  simp only [pPrimary]
  split
  · split
    · split
      · split
        · exact Keeps_syn _
        · exact Keeps_pure (inv_adv (inv_adv h))
      · exact Keeps_bind _ _ (ih.level 0 (adv s) (inv_adv h)) (fun a ha => Keeps_expectCh ')' ha)
    · exact Keeps_syn _
  · exact Keeps_pure (inv_emit (inv_adv h) _ trivial)
  · exact Keeps_pure (inv_emit (inv_adv h) _ trivial)
  · exact Keeps_pure (inv_setErr (inv_adv h) _)
  · apply Keeps_bind _ _ (Keeps_expectCh '(' (inv_adv h))
    intro a ha
    exact Keeps_expectCh ')' ha
  · apply Keeps_bind _ _ (Keeps_expectCh '(' (inv_adv h))
    intro a ha
    split
    · exact Keeps_pure (inv_fin (inv_adv ha) _ _ _)
    · apply Keeps_bind _ _ (ih.level 0 a ha)
      intro b hb
      split
      · exact Keeps_pure (inv_fin (inv_adv hb) _ _ _)
      · apply Keeps_bind _ _ (Keeps_expectCh ',' hb)
        intro c hc
        apply Keeps_bind _ _ (ih.level 0 c hc)
        intro d hd
        split
        · exact Keeps_pure (inv_fin (inv_adv hd) _ _ _)
        · apply Keeps_bind _ _ (Keeps_expectCh ',' hd)
          intro e he
          apply Keeps_bind _ _ (ih.level 0 e he)
          intro g hg
          apply Keeps_bind _ _ (Keeps_expectCh ')' hg)
          intro k hk
          exact Keeps_pure (inv_fin hk _ _ _)
  · exact Keeps_syn _

theorem kstep_filterPath (f : Nat) (ih : InvK pm f) (s : PSt) (h : InvN pm s) : Keeps pm (pFilterPath (f + 1) s) := by
  simp only [pFilterPath]
  apply Keeps_bind _ _ (ih.primary s h)
  intro a ha
  apply Keeps_bind _ _ (ih.preds a ha)
  intro b hb
  split
  · split
    · exact Keeps_emitEnd _ _ trivial (ih.relPath _ (inv_adv (inv_emit hb .filterExprEnd trivial)))
    · exact Keeps_pure hb
  · exact Keeps_emitEnd _ _ trivial (ih.relPath _ (inv_setErr (inv_adv (inv_emit hb .filterExprEnd trivial)) _))
  · exact Keeps_pure hb

theorem keeps_optRel (f : Nat) (ih : InvK pm f) (s : PSt) (h : InvN pm s) :
    Keeps pm (if peekTok s = .ch (chr '/') then pRelPath f (adv s) else pure s) := by
  split
  · exact ih.relPath (adv s) (inv_adv h)
  · exact Keeps_pure h

theorem kstep_locPath (f : Nat) (ih : InvK pm f) (s : PSt) (h : InvN pm s) : Keeps pm (pLocationPath (f + 1) s) := by
  simp only [pLocationPath]
  split
  · split
    · split
      · exact ih.relPath _ (inv_emit (inv_adv h) _ trivial)
      · exact Keeps_pure (inv_emit (inv_adv h) _ trivial)
    · split
      · exact ih.relPath s h
      · exact Keeps_syn _
  · exact ih.relPath _ (inv_setErr (inv_adv h) _)
  · exact ih.relPath s h
  · exact ih.relPath s h
  · exact ih.relPath s h
  · apply Keeps_bind _ _ (Keeps_expectCh '(' (inv_adv h))
    intro a ha
    apply Keeps_bind _ _ (Keeps_expectCh ')' ha)
    intro b hb
    exact keeps_optRel f ih _ (inv_emit hb _ trivial)
  · apply Keeps_bind _ _ (Keeps_expectCh '(' (inv_adv h))
    intro a ha
    apply Keeps_bind _ _ (ih.locPath a ha)
    intro b hb
    apply Keeps_bind _ _ (Keeps_expectCh ')' hb)
    intro c hc
    exact keeps_optRel f ih _ (inv_emit hc _ trivial)
  · exact Keeps_syn _

theorem kstep_path (f : Nat) (ih : InvK pm f) (s : PSt) (h : InvN pm s) : Keeps pm (pPath (f + 1) s) := by
  have hrel : Keeps pm (pRelPath f s >>= fun s => pure (emit s .evalLocPath)) :=
    Keeps_emitEnd _ _ trivial (ih.relPath s h)
  have hfil := ih.filterPath s h
  simp only [pPath]
  split
  · split
    · exact hfil
    · split
      · split
        · exact Keeps_emitEnd _ _ trivial (ih.relPath _ (inv_emit (inv_adv h) _ trivial))
        · exact Keeps_emitEnd _ _ trivial (Keeps_pure (inv_emit (inv_adv h) _ trivial))
      · split
        · exact hrel
        · exact Keeps_syn _
  · exact Keeps_emitEnd _ _ trivial (ih.relPath _ (inv_setErr (inv_adv h) _))
  · exact hrel
  · exact hrel
  · exact hrel
  · apply Keeps_bind _ _ (Keeps_expectCh '(' (inv_adv h))
    intro a ha
    apply Keeps_bind _ _ (Keeps_expectCh ')' ha)
    intro b hb
    split
    · exact Keeps_emitEnd _ _ trivial (ih.relPath _ (inv_adv (inv_emit hb _ trivial)))
    · exact Keeps_emitEnd _ _ trivial (Keeps_pure (inv_emit hb _ trivial))
  · apply Keeps_bind _ _ (Keeps_expectCh '(' (inv_adv h))
    intro a ha
    apply Keeps_bind _ _ (ih.locPath a ha)
    intro b hb
    apply Keeps_bind _ _ (Keeps_expectCh ')' hb)
    intro c hc
    split
    · exact Keeps_emitEnd _ _ trivial (ih.relPath _ (inv_adv (inv_emit hc _ trivial)))
    · exact Keeps_emitEnd _ _ trivial (Keeps_pure (inv_emit hc _ trivial))
  · exact hfil
  · exact hfil
  · exact hfil
  · exact hfil
  · exact hfil
  · exact Keeps_syn _

theorem invK_all (f : Nat) : InvK pm f := by
  induction f with
  | zero => exact invK_zero
  | succ f ih =>
    exact ⟨kstep_level f ih, kstep_levelRest f ih, kstep_unary f ih, kstep_unionRest f ih, kstep_path f ih,
      kstep_locPath f ih, kstep_filterPath f ih, kstep_primary f ih, kstep_preds f ih, kstep_relPath f ih,
      kstep_step f ih⟩


/-! ### leafref paths -/

theorem Keeps_lNodeId (s : PSt) (h : InvN pm s) : Keeps pm (lNodeId s) := by
  unfold lNodeId
  split
  · rename_i px l hp
    exact Keeps_pure (inv_emit (inv_adv h) _ (inv_peek h px l hp))
  · exact Keeps_syn _

theorem Keeps_lExpectTok (t : Tok) (s : PSt) (h : InvN pm s) : Keeps pm (lExpectTok t s) := by
  unfold lExpectTok
  split
  · exact Keeps_pure (inv_adv h)
  · exact Keeps_syn _

structure InvKL (pm : PfxMap) (f : Nat) : Prop where
  keyNames : ∀ s, InvN pm s → Keeps pm (lKeyPath.lKeyNames f s)
  keyPath : ∀ up s, InvN pm s → Keeps pm (lKeyPath f up s)
  afterNode : ∀ s, InvN pm s → Keeps pm (lSteps.lAfterNode f s)
  steps : ∀ s, InvN pm s → Keeps pm (lSteps f s)
  preds : ∀ s, InvN pm s → Keeps pm (lPreds f s)
  rel : ∀ s, InvN pm s → Keeps pm (lRel f s)

theorem invKL_zero : InvKL pm 0 := by
  constructor <;> intros
  all_goals (simp only [lKeyPath.lKeyNames, lKeyPath, lSteps.lAfterNode, lSteps, lPreds, lRel]; exact Keeps_err _)

theorem keeps_predTail (f : Nat) (ih : InvKL pm f) (c : PSt) (hc : InvN pm c) :
    Keeps pm (do
      let s ← expectCh '(' c
      let s ← expectCh ')' s
      let s ← expectCh '/' s
      let s ← lKeyPath f false s
      let s ← expectCh ']' s
      pure (emit s .lrefPredEnd)) := by
  apply Keeps_bind _ _ (Keeps_expectCh '(' hc)
  intro d hd
  apply Keeps_bind _ _ (Keeps_expectCh ')' hd)
  intro e he
  apply Keeps_bind _ _ (Keeps_expectCh '/' he)
  intro g hg
  apply Keeps_bind _ _ (ih.keyPath false g hg)
  intro k hk
  apply Keeps_bind _ _ (Keeps_expectCh ']' hk)
  intro m hm
  exact Keeps_pure (inv_emit hm _ trivial)

theorem keeps_lPred (f : Nat) (ih : InvKL pm f) (s : PSt) (h : InvN pm s) : Keeps pm (lPred f s) := by
  unfold lPred
  apply Keeps_bind _ _ (Keeps_lNodeId _ (inv_emit (inv_adv h) .lrefPredStart trivial))
  intro a ha
  apply Keeps_bind _ _ (Keeps_lExpectTok .eq a ha)
  intro b hb
  simp only []
  split
  · apply Keeps_bind _ _ (Keeps_pure (inv_adv (inv_emit hb .lrefEquals trivial)))
    intro c hc
    exact keeps_predTail f ih c hc
  · apply Keeps_bind _ _ (Keeps_syn _)
    intro c hc
    exact keeps_predTail f ih c hc

theorem kstepL_keyNames (f : Nat) (ih : InvKL pm f) (s : PSt) (h : InvN pm s) : Keeps pm (lKeyPath.lKeyNames (f + 1) s) := by
  simp only [lKeyPath.lKeyNames]
  apply Keeps_bind _ _ (Keeps_lNodeId s h)
  intro a ha
  split
  · exact ih.keyNames (adv a) (inv_adv ha)
  · exact Keeps_pure ha

theorem kstepL_keyPath (f : Nat) (ih : InvKL pm f) (up : Bool) (s : PSt) (h : InvN pm s) : Keeps pm (lKeyPath (f + 1) up s) := by
  simp only [lKeyPath]
  split
  · apply Keeps_bind _ _ (Keeps_expectCh '/' (inv_emit (inv_adv h) .pathDotDot trivial))
    intro a ha
    exact ih.keyPath true a ha
  · split
    · exact Keeps_syn _
    · exact ih.keyNames s h
  · exact Keeps_syn _

theorem kstepL_afterNode (f : Nat) (ih : InvKL pm f) (s : PSt) (h : InvN pm s) : Keeps pm (lSteps.lAfterNode (f + 1) s) := by
  simp only [lSteps.lAfterNode]
  split
  · exact Keeps_bind _ _ (keeps_lPred f ih s h) (fun a ha => ih.afterNode a ha)
  · split
    · exact ih.steps (adv s) (inv_adv h)
    · exact Keeps_pure h

theorem kstepL_steps (f : Nat) (ih : InvKL pm f) (s : PSt) (h : InvN pm s) : Keeps pm (lSteps (f + 1) s) := by
  simp only [lSteps]
  exact Keeps_bind _ _ (Keeps_lNodeId s h) (fun a ha => ih.afterNode a ha)

theorem kstepL_preds (f : Nat) (ih : InvKL pm f) (s : PSt) (h : InvN pm s) : Keeps pm (lPreds (f + 1) s) := by
  simp only [lPreds]
  apply Keeps_bind _ _ (keeps_lPred f ih s h)
  intro a ha
  split
  · exact ih.preds a ha
  · exact Keeps_pure ha

theorem keeps_lDesc (f : Nat) (ih : InvKL pm f) (s : PSt) (h : InvN pm s) : Keeps pm (lDesc f s) := by
  unfold lDesc
  apply Keeps_bind _ _ (Keeps_lNodeId s h)
  intro a ha
  split
  · apply Keeps_bind _ _ (ih.preds a ha)
    intro b hb
    apply Keeps_bind _ _ (Keeps_expectCh '/' hb)
    intro c hc
    exact ih.steps c hc
  · split
    · exact ih.steps (adv a) (inv_adv ha)
    · exact Keeps_pure ha

theorem kstepL_rel (f : Nat) (ih : InvKL pm f) (s : PSt) (h : InvN pm s) : Keeps pm (lRel (f + 1) s) := by
  simp only [lRel]
  split
  · apply Keeps_bind _ _ (Keeps_expectCh '/' (inv_emit (inv_adv h) .pathDotDot trivial))
    intro a ha
    split
    · exact ih.rel a ha
    · exact keeps_lDesc f ih a ha
  · exact Keeps_syn _

theorem invKL_all (f : Nat) : InvKL pm f := by
  induction f with
  | zero => exact invKL_zero
  | succ f ih =>
    exact ⟨kstepL_keyNames f ih, kstepL_keyPath f ih, kstepL_afterNode f ih, kstepL_steps f ih, kstepL_preds f ih, kstepL_rel f ih⟩

/-! ### the two parsers as a whole -/

theorem parseExprToks_names (strict : Bool) (toks : List LexedTok) (h : ∀ t ∈ toks, okTok pm t.tok)
    (s' : PSt) (hs : parseExprToks strict toks = .ok s') : ∀ i ∈ s'.out, okPI pm i := by
  unfold parseExprToks at hs
  have h0 : InvN pm { toks := toks, strict := strict } := ⟨h, fun i hi => by simp at hi⟩
  have hk := (invK_all (pm := pm) (24 * toks.length + 24)).level 0 _ h0
  cases hr : pLevel (24 * toks.length + 24) 0 { toks := toks, strict := strict } with
  | error e => rw [hr] at hs; simp [bind, Except.bind] at hs
  | ok a =>
    rw [hr] at hs
    simp only [bind, Except.bind] at hs
    split at hs
    · simp only [pure, Except.pure] at hs; injection hs with hs; subst hs
      exact (inv_emit (hk a hr) .store trivial).2
    · simp [synErr] at hs

theorem parseLeafrefToks_names (toks : List LexedTok) (h : ∀ t ∈ toks, okTok pm t.tok)
    (s' : PSt) (hs : parseLeafrefToks toks = .ok s') : ∀ i ∈ s'.out, okPI pm i := by
  have h0 : InvN pm { toks := toks } := ⟨h, fun i hi => by simp at hi⟩
  have hI := invKL_all (pm := pm) (8 * toks.length + 8)
  have tail : ∀ a, InvN pm a → Keeps pm (if peekTok (emit a .evalLocPath) = .eof
      then pure (emit (emit a .evalLocPath) .store) else synErr (emit a .evalLocPath)) := by
    intro a ha
    split
    · exact Keeps_pure (inv_emit (inv_emit ha .evalLocPath trivial) .store trivial)
    · exact Keeps_syn _
  have hk : Keeps pm (parseLeafrefToks toks) := by
    unfold parseLeafrefToks
    simp only []
    split
    · split
      · exact Keeps_bind _ _ (hI.steps _ (inv_emit (inv_adv h0) .pathRoot trivial)) tail
      · exact Keeps_bind _ _ (Keeps_syn _) tail
    · exact Keeps_bind _ _ (hI.rel _ h0) tail
    · exact Keeps_bind _ _ (Keeps_syn _) tail
  exact (hk s' hs).2


/-! ### the lexer hands out a NAMETEST only after `pfxOk` -/

theorem pfxOk_nil : pfxOk pm [] = true := by
  unfold pfxOk; cases pm <;> simp

theorem okTok_fin (pfx loc : List Rune) (s : LexSt) :
    okTok pm (if pfxOk pm pfx then ((.nametest pfx loc, s) : Tok × LexSt) else (.err, { s with err := some "unknown prefix" })).1 := by
  split
  · rename_i h; exact h
  · trivial

theorem okTok_ite (c : Prop) [Decidable c] (a b : Tok) (ha : okTok pm a) (hb : okTok pm b) : okTok pm (if c then a else b) := by
  split <;> assumption

theorem okTok_fnMatch (name : List Rune) (s1 : LexSt) :
    okTok pm (match lookupFn name with
      | some f => ((.func f, s1) : Tok × LexSt)
      | none => (.err, { s1 with err := some "Unknown function or node type" })).1 := by
  cases lookupFn name <;> trivial

theorem okTok_lexNameCommon (strict : Bool) (c : Rune) (s : LexSt) : okTok pm (lexNameCommon strict pm c s).1 := by
  unfold lexNameCommon
  generalize constructToken c nameCharCommon "NAME" s = ct
  obtain ⟨name, s1⟩ := ct
  simp only [apply_ite Prod.fst]
  apply okTok_ite
  · repeat (first | exact trivial | apply okTok_ite)
  apply okTok_ite
  · repeat (first | exact trivial | exact okTok_fnMatch _ _ | apply okTok_ite)
  apply okTok_ite
  · repeat (first | exact trivial | apply okTok_ite)
  have hfin : ∀ (p l : List Rune), okTok pm (if pfxOk pm p = true then Tok.nametest p l else Tok.err) := by
    intro p l; split
    · rename_i h; exact h
    · trivial
  repeat (first | exact trivial | exact hfin _ _ | apply okTok_ite)

theorem okTok_lexNameLeafref (strict : Bool) (c : Rune) (s : LexSt) : okTok pm (lexNameLeafref strict pm c s).1 := by
  unfold lexNameLeafref
  generalize constructToken c nameCharLeafref "NAME" s = ct
  obtain ⟨name, s1⟩ := ct
  simp only [apply_ite Prod.fst]
  have hfin : ∀ (p l : List Rune), okTok pm (if pfxOk pm p = true then Tok.nametest p l else Tok.err) := by
    intro p l; split
    · rename_i h; exact h
    · trivial
  repeat (first | exact trivial | exact hfin _ _ | apply okTok_ite)


theorem okTok_star : okTok pm (.nametest [] [chr '*']) := pfxOk_nil

theorem okTok_numMatch (o : Option SF) (s1 : LexSt) :
    okTok pm (match o with
      | some x => ((.num x, s1) : Tok × LexSt)
      | none => (.err, { s1 with err := some "bad number" })).1 := by
  cases o <;> trivial

theorem okTok_lexTok (strict : Bool) (g : Grammar) (c : Rune) (s : LexSt) : okTok pm (lexTok strict g pm c s).1 := by
  unfold lexTok
  simp only [apply_ite Prod.fst]
  repeat' (first | exact trivial | exact okTok_star | exact okTok_numMatch _ _ | exact okTok_lexNameCommon _ _ _ | exact okTok_lexNameLeafref _ _ _ | apply okTok_ite)


theorem okTok_mapTok (g : Grammar) (t : Tok) (h : okTok pm t) : okTok pm (mapTok g t) := by
  cases g <;> cases t <;> first | exact h | trivial

theorem okTok_lexCommon (strict : Bool) (g : Grammar) (s : LexSt) : okTok pm (lexCommon strict g pm s).1 := by
  unfold lexCommon
  simp only []
  exact okTok_lexTok _ _ _ _

theorem okTok_lexAllAux (strict : Bool) (g : Grammar) (f : Nat) (s : LexSt) :
    ∀ lt ∈ (lexAllAux strict g pm f s).1, okTok pm lt.tok := by
  induction f generalizing s with
  | zero => intro lt h; simp [lexAllAux] at h
  | succ f ih =>
    intro lt h
    simp only [lexAllAux] at h
    split at h
    · simp only [List.mem_singleton] at h
      subst h
      exact okTok_mapTok g _ (okTok_lexCommon strict g s)
    · simp only [List.mem_cons] at h
      rcases h with rfl | h
      · exact okTok_mapTok g _ (okTok_lexCommon strict g s)
      · exact ih _ lt h

theorem okTok_lexAll (strict : Bool) (g : Grammar) (bs : List Nat) :
    ∀ lt ∈ (lexAll strict g pm bs).1, okTok pm lt.tok := by
  unfold lexAll
  exact okTok_lexAllAux strict g _ _

theorem not_machine (c : Prop) [Decidable c] (a : String) (m : Int) (k : String) (prog : List PI) :
    (if c then Built.panic a else Built.error m k) ≠ .machine prog := by
  split <;> simp

/-- **every name test of a compiled machine carries an accepted prefix** -/
theorem build_names (strict fixed : Bool) (g : Grammar) (bs : List Nat) (prog : List PI)
    (h : build strict fixed g pm bs = .machine prog) : ∀ i ∈ prog, okPI pm i := by
  unfold build at h
  split at h
  · simp at h
  · simp only [] at h
    have htoks := okTok_lexAll (pm := pm) strict g bs
    split at h
    · simp at h
    · exact absurd h (not_machine _ _ _ _ _)
    · rename_i st hst
      split at h
      · simp at h
      · injection h with h
        subst h
        intro i hi
        have hout : ∀ j ∈ st.out, okPI pm j := by
          cases g
          all_goals first
            | exact parseLeafrefToks_names _ htoks st hst
            | exact parseExprToks_names strict _ htoks st hst
        exact hout i (List.mem_reverse.mp hi)

end YV.XP
