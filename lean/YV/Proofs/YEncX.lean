/-
  Proofs.YEncX — decoding the XML encoding of a well-formed tree gives the tree back (at the level of XML
  elements: the bytes ↔ elements layer is encoding/xml's).
-/
import YV.Proofs.YEnc
namespace YV.E
open YV YV.Y YV.SC YV.D

variable {τ : Type}

/-! ### grouping the elements of a parent by name -/

theorem gather_append (n : Tok) (a b : List X) : gather n (a ++ b) = gather n a ++ gather n b := by
  induction a with
  | nil => rfl
  | cons x r ih =>
    cases x with
    | el m t k =>
      simp only [List.cons_append, gather]
      split <;> simp [ih]

theorem gather_all (n : Tok) (l : List X) (h : ∀ x ∈ l, elName x = n) : gather n l = l := by
  induction l with
  | nil => rfl
  | cons x r ih =>
    cases x with
    | el m t k =>
      have : m = n := h (.el m t k) (by simp)
      simp only [gather, this, if_true]
      rw [ih (fun x hx => h x (by simp [hx]))]

theorem gather_none (n : Tok) (l : List X) (h : ∀ x ∈ l, elName x ≠ n) : gather n l = [] := by
  induction l with
  | nil => rfl
  | cons x r ih =>
    cases x with
    | el m t k =>
      have : m ≠ n := h (.el m t k) (by simp)
      simp only [gather, this, if_false]
      exact ih (fun x hx => h x (by simp [hx]))

/-- blocks of elements, one per data node: all elements of a block carry the node's name, no block is empty,
    the names are pairwise different -/
structure Blocks (blk : DN → List X) (ds : List DN) : Prop where
  named : ∀ d ∈ ds, ∀ x ∈ blk d, elName x = d.name
  nonempty : ∀ d ∈ ds, blk d ≠ []
  nodup : (ds.map (·.name)).Nodup

theorem Blocks.tail {blk : DN → List X} {d : DN} {r : List DN} (h : Blocks blk (d :: r)) : Blocks blk r :=
  ⟨fun e he => h.named e (by simp [he]), fun e he => h.nonempty e (by simp [he]),
   by have := h.nodup; simp only [List.map_cons, List.nodup_cons] at this; exact this.2⟩

theorem Blocks.head_notin {blk : DN → List X} {d : DN} {r : List DN} (h : Blocks blk (d :: r)) :
    ∀ e ∈ r, e.name ≠ d.name := by
  intro e he heq
  have := h.nodup
  simp only [List.map_cons, List.nodup_cons, List.mem_map, not_exists, not_and] at this
  exact this.1 e he heq

theorem gather_blocks (blk : DN → List X) (ds : List DN) (h : Blocks blk ds) :
    ∀ d ∈ ds, gather d.name (ds.flatMap blk) = blk d := by
  induction ds with
  | nil => intro d hd; cases hd
  | cons a r ih =>
    intro d hd
    simp only [List.flatMap_cons, gather_append]
    rcases List.mem_cons.mp hd with rfl | hr
    · rw [gather_all _ _ (h.named d (by simp))]
      rw [gather_none]
      · simp
      · intro x hx
        simp only [List.mem_flatMap] at hx
        obtain ⟨e, he, hxe⟩ := hx
        rw [h.named e (by simp [he]) x hxe]
        exact h.head_notin e he
    · rw [gather_none, ih h.tail d hr]
      · simp
      · intro x hx
        rw [h.named a (by simp) x hx]
        exact fun heq => h.head_notin d hr heq.symm

theorem filter_ne_of_all {l : List Tok} {a : Tok} (h : ∀ x ∈ l, x ≠ a) : l.filter (fun b => !b == a) = l := by
  induction l with
  | nil => rfl
  | cons x r ih =>
    have hx : x ≠ a := h x (by simp)
    have : (!x == a) = true := by simp [hx]
    simp only [List.filter_cons, this, if_true]
    rw [ih (fun y hy => h y (by simp [hy]))]

theorem filter_eq_nil_of_all {l : List Tok} {a : Tok} (h : ∀ x ∈ l, x = a) : l.filter (fun b => !b == a) = [] := by
  induction l with
  | nil => rfl
  | cons x r ih =>
    have hx : x = a := h x (by simp)
    have : (!x == a) = false := by simp [hx]
    simp only [List.filter_cons, this]
    exact ih (fun y hy => h y (by simp [hy]))

theorem names_blocks (blk : DN → List X) (ds : List DN) (h : Blocks blk ds) :
    ((ds.flatMap blk).map elName).eraseDups = ds.map (·.name) := by
  induction ds with
  | nil => rfl
  | cons a r ih =>
    simp only [List.flatMap_cons, List.map_append, List.map_cons]
    have hne := h.nonempty a (by simp)
    cases hb : blk a with
    | nil => exact absurd hb hne
    | cons x xs =>
      have hx : elName x = a.name := h.named a (by simp) x (by rw [hb]; simp)
      have hxs : ∀ y ∈ xs.map elName, y = a.name := by
        intro y hy
        simp only [List.mem_map] at hy
        obtain ⟨z, hz, rfl⟩ := hy
        exact h.named a (by simp) z (by rw [hb]; simp [hz])
      have hrest : ∀ y ∈ (r.flatMap blk).map elName, y ≠ a.name := by
        intro y hy
        simp only [List.mem_map, List.mem_flatMap] at hy
        obtain ⟨z, ⟨e, he, hze⟩, rfl⟩ := hy
        rw [h.named e (by simp [he]) z hze]
        exact h.head_notin e he
      simp only [List.map_cons, List.cons_append, hx, List.eraseDups_cons, List.filter_append,
        filter_eq_nil_of_all hxs, filter_ne_of_all hrest, List.nil_append]
      rw [ih h.tail]


/-! ### the writer, node by node -/

/-- the elements written for one data node -/
def xblock (kids : List (SN τ)) (d : DN) : List X :=
  match lookup d.name (dataKids kids), d with
  | some (.container _ _ ck), .mk n dk _ => [X.el n [] (xencKids ck dk)]
  | some (.list _ _ _ _ _ ck), .mk n es _ => xencEntries ck n es
  | some (.leaf ..), .mk n _ vals => vals.map fun v => X.el n v []
  | some (.leafList ..), .mk n _ vals => vals.map fun v => X.el n v []
  | _, _ => []

theorem xencKids_flatMap (kids : List (SN τ)) (ds : List DN) : xencKids kids ds = ds.flatMap (xblock kids) := by
  induction ds with
  | nil => simp [xencKids]
  | cons d r ih =>
    rw [xencKids.eq_def]
    simp only [List.flatMap_cons, ← ih]
    rfl

theorem xencEntries_map (kids : List (SN τ)) (n : Tok) (es : List DN) :
    xencEntries kids n es = es.map fun e => X.el n [] (xencKids kids e.kids) := by
  induction es with
  | nil => simp [xencEntries]
  | cons e r ih =>
    cases e with
    | mk en ek ev =>
      rw [xencEntries.eq_def]
      simp only [List.map_cons]
      rw [ih]
      rfl

/-- the reader's treatment of one name among the elements `xs` of a parent -/
def xdecOne (kids : List (SN τ)) (fuel : Nat) (xs : List X) (n : Tok) : Option DN :=
  let group := gather n xs
  match lookup n (dataKids kids) with
  | some (.container _ _ ck) =>
    (match group with
     | [x] => (xdecKids ck fuel (elKids x)).map fun ks => DN.mk n ks []
     | _ => none)
  | some (.list _ keys _ _ _ ck) =>
    (group.mapM fun x => do
      let ks ← xdecKids ck fuel (elKids x)
      let kv ← (ks.find? fun (d : DN) => d.name = keys.headD []).bind fun d => d.vals.head?
      pure (DN.mk kv ks [])).bind fun es => if dupEntry es then none else some (DN.mk n es [])
  | some (.leaf ..) =>
    (match group with
     | [x] => some (DN.mk n [] [elText x])
     | _ => none)
  | some (.leafList ..) => some (DN.mk n [] (group.map elText))
  | _ => none

theorem xdecKids_succ (kids : List (SN τ)) (fuel : Nat) (xs : List X) :
    xdecKids kids (fuel + 1) xs = ((xs.map elName).eraseDups).mapM (xdecOne kids fuel xs) := by
  rw [xdecKids.eq_def]
  rfl


/-! ### well-formed data for the XML writer: sibling names differ, a leaf has one value, a leaf-list and a
    list are not empty (an empty one writes no element at all), list entries are named by their key -/

def keyOf (key : Tok) (ek : List DN) : Option Tok :=
  (ek.find? fun (d : DN) => d.name = key).bind fun d => d.vals.head?

mutual
def xwfKids (kids : List (SN τ)) : List DN → Prop
  | [] => True
  | d :: r =>
    (∀ e ∈ r, e.name ≠ d.name) ∧
    (match lookup d.name (dataKids kids), d with
     | some (.container _ _ ck), .mk _ dk vals => vals = [] ∧ xwfKids ck dk
     | some (.list _ keys _ _ _ ck), .mk _ es vals => vals = [] ∧ es ≠ [] ∧ xwfEntries ck (keys.headD []) es
     | some (.leaf ..), .mk _ dk vals => dk = [] ∧ ∃ v, vals = [v]
     | some (.leafList ..), .mk _ dk vals => dk = [] ∧ vals ≠ []
     | _, _ => False) ∧ xwfKids kids r
def xwfEntries (kids : List (SN τ)) (key : Tok) : List DN → Prop
  | [] => True
  | .mk en ek ev :: r =>
    ev = [] ∧ xwfKids kids ek ∧ keyOf key ek = some en ∧ (∀ e ∈ r, e.name ≠ en) ∧ xwfEntries kids key r
end

mutual
def dDepth : DN → Nat
  | .mk _ ks _ => 1 + dDepthL ks
def dDepthL : List DN → Nat
  | [] => 0
  | d :: r => max (dDepth d) (dDepthL r)
end

theorem dDepth_le_of_mem (ds : List DN) (d : DN) (h : d ∈ ds) : dDepth d ≤ dDepthL ds := by
  induction ds with
  | nil => cases h
  | cons a r ih =>
    rw [dDepthL]
    rcases List.mem_cons.mp h with rfl | hr
    · omega
    · have := ih hr; omega

theorem xblock_named (kids : List (SN τ)) (d : DN) : ∀ x ∈ xblock kids d, elName x = d.name := by
  intro x hx
  cases d with
  | mk n dk vals =>
    unfold xblock at hx
    simp only [DN.name] at hx ⊢
    split at hx
    · rename_i h; injection h with h1 h2 h3; subst h1
      simp at hx; rw [hx]; rfl
    · rename_i h; injection h with h1 h2 h3; subst h1
      rw [xencEntries_map] at hx
      simp only [List.mem_map] at hx
      obtain ⟨e, _, rfl⟩ := hx; rfl
    · rename_i h; injection h with h1 h2 h3; subst h1
      simp only [List.mem_map] at hx
      obtain ⟨v, _, rfl⟩ := hx; rfl
    · rename_i h; injection h with h1 h2 h3; subst h1
      simp only [List.mem_map] at hx
      obtain ⟨v, _, rfl⟩ := hx; rfl
    · cases hx


/-- entries named by pairwise different key values: no duplicate -/
theorem dupEntry_of_wf (kids : List (SN τ)) (key : Tok) : ∀ es : List DN, xwfEntries kids key es → dupEntry es = false
  | [], _ => rfl
  | .mk en ek ev :: r, h => by
    rw [xwfEntries.eq_def] at h
    obtain ⟨_, _, _, hne, hr⟩ := h
    simp only [dupEntry, dupEntry_of_wf kids key r hr, Bool.or_false, List.any_eq_false, decide_eq_true_eq]
    intro e he; exact hne e he

theorem xwf_head (kids : List (SN τ)) (d : DN) (r : List DN) (h : xwfKids kids (d :: r)) :
    (∀ e ∈ r, e.name ≠ d.name) ∧ xblock kids d ≠ [] ∧ xwfKids kids r := by
  rw [xwfKids.eq_def] at h
  obtain ⟨h1, h2, h3⟩ := h
  refine ⟨h1, ?_, h3⟩
  cases d with
  | mk n dk vals =>
    unfold xblock
    simp only [DN.name] at h2 ⊢
    cases hl : lookup n (dataKids kids) with
    | none => simp [hl] at h2
    | some sn =>
      cases sn with
      | container a b c => simp
      | list a b c e g ck =>
        simp only [hl] at h2
        simp only [xencEntries_map]; simp [h2.2.1]
      | leaf a b c e =>
        simp only [hl] at h2
        obtain ⟨_, v, hv⟩ := h2; simp [hv]
      | leafList a b c e =>
        simp only [hl] at h2
        simp [h2.2]
      | choice a b c e => simp [hl] at h2
      | case a b => simp [hl] at h2

theorem blocks_of_wf (kids : List (SN τ)) (ds : List DN) (h : xwfKids kids ds) : Blocks (xblock kids) ds := by
  induction ds with
  | nil => exact ⟨fun d hd => (nomatch hd), fun d hd => (nomatch hd), List.nodup_nil⟩
  | cons d r ih =>
    obtain ⟨h1, h2, h3⟩ := xwf_head kids d r h
    have b := ih h3
    refine ⟨fun e he => xblock_named kids e, ?_, ?_⟩
    · intro e he
      rcases List.mem_cons.mp he with rfl | hr
      · exact h2
      · exact b.nonempty e hr
    · simp only [List.map_cons, List.nodup_cons, List.mem_map, not_exists, not_and]
      exact ⟨fun e he heq => h1 e he heq, b.nodup⟩

theorem mapM_map_some {α β} (l : List α) (g : α → β) (f : β → Option α) (h : ∀ a ∈ l, f (g a) = some a) :
    (l.map g).mapM f = some l := by
  induction l with
  | nil => rfl
  | cons a r ih =>
    simp only [List.map_cons, List.mapM_cons, h a (by simp)]
    rw [ih (fun x hx => h x (by simp [hx]))]
    rfl

/-- from the nodes one by one to the whole list of children -/
theorem xdec_whole (kids : List (SN τ)) (ds : List DN) (f : Nat) (hw : xwfKids kids ds)
    (hall : ∀ d ∈ ds, xdecOne kids f (xencKids kids ds) d.name = some d) :
    xdecKids kids (f + 1) (xencKids kids ds) = some ds := by
  rw [xdecKids_succ]
  have hb := blocks_of_wf kids ds hw
  rw [show (List.map elName (xencKids kids ds)).eraseDups = ds.map (·.name) by
    rw [xencKids_flatMap]; exact names_blocks _ _ hb]
  exact mapM_map_some ds (·.name) _ hall


theorem DN.name_mk (n : Tok) (k : List DN) (v : List Bytes) : (DN.mk n k v).name = n := rfl
theorem DN.kids_mk (n : Tok) (k : List DN) (v : List Bytes) : (DN.mk n k v).kids = k := rfl

/-- the reader's treatment of one list entry element -/
def xdecEntry (ck : List (SN τ)) (f : Nat) (key : Tok) (x : X) : Option DN := do
  let ks ← xdecKids ck f (elKids x)
  let kv ← (ks.find? fun (d : DN) => d.name = key).bind fun d => d.vals.head?
  pure (DN.mk kv ks [])

mutual
theorem xdec_all (kids : List (SN τ)) : ∀ (ds : List DN), xwfKids kids ds → ∀ (f : Nat), dDepthL ds ≤ f →
    ∀ (xs : List X), (∀ d ∈ ds, gather d.name xs = xblock kids d) →
    ∀ d ∈ ds, xdecOne kids f xs d.name = some d
  | [], _, _, _, _, _, d, hd => nomatch hd
  | a :: r, hw, f, hf, xs, hg, d, hd => by
    rw [xwfKids.eq_def] at hw
    obtain ⟨h1, h2, h3⟩ := hw
    rw [dDepthL] at hf
    rcases List.mem_cons.mp hd with heq | hr
    · subst heq
      have hga := hg d (by simp)
      cases d with
      | mk n dk vals =>
        unfold xdecOne
        simp only [DN.name_mk] at h2 hga ⊢
        rw [hga]
        unfold xblock
        simp only [DN.name_mk]
        cases hl : lookup n (dataKids kids) with
        | none => simp [hl] at h2
        | some sn =>
          cases sn with
          | container cn cp ck =>
            simp only [hl] at h2
            obtain ⟨hv, hk⟩ := h2
            subst hv
            rw [dDepth] at hf
            cases f with
            | zero => omega
            | succ f' =>
              have hall := xdec_all ck dk hk f' (by omega) (xencKids ck dk)
                (fun e he => by rw [xencKids_flatMap]; exact gather_blocks _ _ (blocks_of_wf ck dk hk) e he)
              have hwhole := xdec_whole ck dk f' hk hall
              simp [elKids, hwhole]
          | list ln keys mn mx us ck =>
            simp only [hl] at h2
            obtain ⟨hv, _, he⟩ := h2
            subst hv
            rw [dDepth] at hf
            have hent := xdec_entries ck (keys.headD []) n dk he f (by omega)
            simp only [xencEntries_map]
            unfold xdecEntry at hent
            rw [hent]
            simp only [Option.bind_some, dupEntry_of_wf ck (keys.headD []) dk he]
            rfl
          | leaf fn ty fd fm =>
            simp only [hl] at h2
            obtain ⟨hk, v, hv⟩ := h2
            subst hk; subst hv
            simp [elText]
          | leafList fn ty mn mx =>
            simp only [hl] at h2
            obtain ⟨hk, _⟩ := h2
            subst hk
            simp [List.map_map, Function.comp_def, elText]
          | choice a b c e => simp [hl] at h2
          | case a b => simp [hl] at h2
    · exact xdec_all kids r h3 f (by omega) xs (fun e he => hg e (by simp [he])) d hr
theorem xdec_entries (ck : List (SN τ)) (key n : Tok) : ∀ (es : List DN), xwfEntries ck key es →
    ∀ (g : Nat), dDepthL es ≤ g →
    (es.map fun e => X.el n [] (xencKids ck e.kids)).mapM (xdecEntry ck g key) = some es
  | [], _, _, _ => rfl
  | .mk en ek ev :: r, hw, g, hg => by
    rw [xwfEntries.eq_def] at hw
    obtain ⟨hv, hk, hkey, _, hr⟩ := hw
    subst hv
    rw [dDepthL, dDepth] at hg
    cases g with
    | zero => omega
    | succ g' =>
      have hall := xdec_all ck ek hk g' (by omega) (xencKids ck ek)
        (fun e he => by rw [xencKids_flatMap]; exact gather_blocks _ _ (blocks_of_wf ck ek hk) e he)
      have hwhole := xdec_whole ck ek g' hk hall
      have hrest := xdec_entries ck key n r hr (g' + 1) (by omega)
      simp only [List.map_cons, List.mapM_cons, DN.kids_mk]
      rw [hrest]
      simp only [xdecEntry, elKids, hwhole]
      unfold keyOf at hkey
      simp [hkey]
end

end YV.E
