/-
  Proofs.YEncX — decoding the XML encoding of a well-formed tree gives the tree back (at the level of XML
  elements: the bytes ↔ elements layer is encoding/xml's).
-/
import YV.Proofs.YEnc
namespace YV.E
open YV YV.Y YV.SC YV.D

variable {τ : Type}

/-! ### grouping the elements of a parent by name -/

theorem gather_append (n : Tok) (a b : List X) : gather n (a ++ b) = gather n a ++ gather n b := by
  induction a with
  | nil => rfl
  | cons x r ih =>
    cases x with
    | el m t k =>
      simp only [List.cons_append, gather]
      split <;> simp [ih]

theorem gather_all (n : Tok) (l : List X) (h : ∀ x ∈ l, elName x = n) : gather n l = l := by
  induction l with
  | nil => rfl
  | cons x r ih =>
    cases x with
    | el m t k =>
      have : m = n := h (.el m t k) (by simp)
      simp only [gather, this, if_true]
      rw [ih (fun x hx => h x (by simp [hx]))]

theorem gather_none (n : Tok) (l : List X) (h : ∀ x ∈ l, elName x ≠ n) : gather n l = [] := by
  induction l with
  | nil => rfl
  | cons x r ih =>
    cases x with
    | el m t k =>
      have : m ≠ n := h (.el m t k) (by simp)
      simp only [gather, this, if_false]
      exact ih (fun x hx => h x (by simp [hx]))

/-- blocks of elements, one per data node: all elements of a block carry the node's name, no block is empty,
    the names are pairwise different -/
structure Blocks (blk : DN → List X) (ds : List DN) : Prop where
  named : ∀ d ∈ ds, ∀ x ∈ blk d, elName x = d.name
  nonempty : ∀ d ∈ ds, blk d ≠ []
  nodup : (ds.map (·.name)).Nodup

theorem Blocks.tail {blk : DN → List X} {d : DN} {r : List DN} (h : Blocks blk (d :: r)) : Blocks blk r :=
  ⟨fun e he => h.named e (by simp [he]), fun e he => h.nonempty e (by simp [he]),
   by have := h.nodup; simp only [List.map_cons, List.nodup_cons] at this; exact this.2⟩

theorem Blocks.head_notin {blk : DN → List X} {d : DN} {r : List DN} (h : Blocks blk (d :: r)) :
    ∀ e ∈ r, e.name ≠ d.name := by
  intro e he heq
  have := h.nodup
  simp only [List.map_cons, List.nodup_cons, List.mem_map, not_exists, not_and] at this
  exact this.1 e he heq

theorem gather_blocks (blk : DN → List X) (ds : List DN) (h : Blocks blk ds) :
    ∀ d ∈ ds, gather d.name (ds.flatMap blk) = blk d := by
  induction ds with
  | nil => intro d hd; cases hd
  | cons a r ih =>
    intro d hd
    simp only [List.flatMap_cons, gather_append]
    rcases List.mem_cons.mp hd with rfl | hr
    · rw [gather_all _ _ (h.named d (by simp))]
      rw [gather_none]
      · simp
      · intro x hx
        simp only [List.mem_flatMap] at hx
        obtain ⟨e, he, hxe⟩ := hx
        rw [h.named e (by simp [he]) x hxe]
        exact h.head_notin e he
    · rw [gather_none, ih h.tail d hr]
      · simp
      · intro x hx
        rw [h.named a (by simp) x hx]
        exact fun heq => h.head_notin d hr heq.symm

theorem filter_ne_of_all {l : List Tok} {a : Tok} (h : ∀ x ∈ l, x ≠ a) : l.filter (fun b => !b == a) = l := by
  induction l with
  | nil => rfl
  | cons x r ih =>
    have hx : x ≠ a := h x (by simp)
    have : (!x == a) = true := by simp [hx]
    simp only [List.filter_cons, this, if_true]
    rw [ih (fun y hy => h y (by simp [hy]))]

theorem filter_eq_nil_of_all {l : List Tok} {a : Tok} (h : ∀ x ∈ l, x = a) : l.filter (fun b => !b == a) = [] := by
  induction l with
  | nil => rfl
  | cons x r ih =>
    have hx : x = a := h x (by simp)
    have : (!x == a) = false := by simp [hx]
    simp only [List.filter_cons, this]
    exact ih (fun y hy => h y (by simp [hy]))

theorem names_blocks (blk : DN → List X) (ds : List DN) (h : Blocks blk ds) :
    ((ds.flatMap blk).map elName).eraseDups = ds.map (·.name) := by
  induction ds with
  | nil => rfl
  | cons a r ih =>
    simp only [List.flatMap_cons, List.map_append, List.map_cons]
    have hne := h.nonempty a (by simp)
    cases hb : blk a with
    | nil => exact absurd hb hne
    | cons x xs =>
      have hx : elName x = a.name := h.named a (by simp) x (by rw [hb]; simp)
      have hxs : ∀ y ∈ xs.map elName, y = a.name := by
        intro y hy
        simp only [List.mem_map] at hy
        obtain ⟨z, hz, rfl⟩ := hy
        exact h.named a (by simp) z (by rw [hb]; simp [hz])
      have hrest : ∀ y ∈ (r.flatMap blk).map elName, y ≠ a.name := by
        intro y hy
        simp only [List.mem_map, List.mem_flatMap] at hy
        obtain ⟨z, ⟨e, he, hze⟩, rfl⟩ := hy
        rw [h.named e (by simp [he]) z hze]
        exact h.head_notin e he
      simp only [List.map_cons, List.cons_append, hx, List.eraseDups_cons, List.filter_append,
        filter_eq_nil_of_all hxs, filter_ne_of_all hrest, List.nil_append]
      rw [ih h.tail]


/-! ### the writer, node by node -/

/-- the elements written for one data node -/
def xblock (kids : List (SN τ)) (d : DN) : List X :=
  match lookup d.name (dataKids kids), d with
  | some (.container _ _ ck), .mk n dk _ => [X.el n [] (xencKids ck dk)]
  | some (.list _ _ _ _ _ ck), .mk n es _ => xencEntries ck n es
  | some (.leaf ..), .mk n _ vals => vals.map fun v => X.el n v []
  | some (.leafList ..), .mk n _ vals => vals.map fun v => X.el n v []
  | _, _ => []

theorem xencKids_flatMap (kids : List (SN τ)) (ds : List DN) : xencKids kids ds = ds.flatMap (xblock kids) := by
  induction ds with
  | nil => simp [xencKids]
  | cons d r ih =>
    rw [xencKids.eq_def]
    simp only [List.flatMap_cons, ← ih]
    rfl

theorem xencEntries_map (kids : List (SN τ)) (n : Tok) (es : List DN) :
    xencEntries kids n es = es.map fun e => X.el n [] (xencKids kids e.kids) := by
  induction es with
  | nil => simp [xencEntries]
  | cons e r ih =>
    cases e with
    | mk en ek ev =>
      rw [xencEntries.eq_def]
      simp only [List.map_cons, ← ih, DN.kids]

/-- the reader's treatment of one name among the elements `xs` of a parent -/
def xdecOne (kids : List (SN τ)) (fuel : Nat) (xs : List X) (n : Tok) : Option DN :=
  let group := gather n xs
  match lookup n (dataKids kids) with
  | some (.container _ _ ck) =>
    (match group with
     | [x] => (xdecKids ck fuel (elKids x)).map fun ks => DN.mk n ks []
     | _ => none)
  | some (.list _ keys _ _ _ ck) =>
    (group.mapM fun x => do
      let ks ← xdecKids ck fuel (elKids x)
      let kv ← (ks.find? fun (d : DN) => d.name = keys.headD []).bind fun d => d.vals.head?
      pure (DN.mk kv ks [])).map fun es => DN.mk n es []
  | some (.leaf ..) =>
    (match group with
     | [x] => some (DN.mk n [] [elText x])
     | _ => none)
  | some (.leafList ..) => some (DN.mk n [] (group.map elText))
  | _ => none

theorem xdecKids_succ (kids : List (SN τ)) (fuel : Nat) (xs : List X) :
    xdecKids kids (fuel + 1) xs = ((xs.map elName).eraseDups).mapM (xdecOne kids fuel xs) := by
  rw [xdecKids.eq_def]
  rfl

end YV.E
