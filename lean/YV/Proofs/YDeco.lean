/-
  Proofs.YDeco — the default decoration of the model (schema/default_decorator.go: `yangDataChildren`,
  `IsActiveDefault` / `isActiveDefaultCase` with their look-ups by name, `createDefault`) adds exactly the
  defaults the specification designates (Spec.YDataS.defaultsS: one recursion over the schema where choices and
  cases stand), on every well-formed schema; hence decorating twice equals decorating once (Proofs.YIdem).
-/
import YV.Proofs.YIdem
namespace YV.DS
open YV YV.Y YV.SC YV.D

variable {τ : Type}

/-! ### look-ups by name -/

theorem lookup_none_of_notin : ∀ (l : List (SN τ)) (n : Tok), n ∉ l.map (·.name) → lookup n l = none
  | [], _, _ => by simp [lookup]
  | x :: r, n, h => by
    simp only [List.map_cons, List.mem_cons, not_or] at h
    rw [lookup, if_neg (fun e => h.1 e.symm)]
    exact lookup_none_of_notin r n h.2

theorem lookup_isSome_of_mem : ∀ (l : List (SN τ)) (n : Tok), n ∈ l.map (·.name) → (lookup n l).isSome = true
  | [], _, h => by simp at h
  | x :: r, n, h => by
    rw [lookup]
    by_cases e : x.name = n
    · simp [e]
    · rw [if_neg e]
      simp only [List.map_cons, List.mem_cons] at h
      exact lookup_isSome_of_mem r n (h.resolve_left (fun e' => e e'.symm))

theorem inChoice_nil (n : Tok) : inChoice ([] : List (SN τ)) n = false := by simp [inChoice]
theorem inChoice_cons (x : SN τ) (r : List (SN τ)) (n : Tok) :
    inChoice (x :: r) n = ((match x with | .choice _ _ _ cases => (lookup n (caseKids cases)).isSome | _ => false) || inChoice r n) := by
  simp only [inChoice, List.any_cons]
  rfl

theorem inChoice_false_of_notin : ∀ (l : List (SN τ)) (n : Tok), n ∉ names l → inChoice l n = false
  | [], n, _ => inChoice_nil n
  | x :: r, n, h => by
    rw [inChoice_cons]
    cases x with
    | choice a b d cases =>
      rw [names_choice, List.mem_append, not_or] at h
      simp only [lookup_none_of_notin (caseKids cases) n h.1, Option.isSome_none, Bool.false_or]
      exact inChoice_false_of_notin r n h.2
    | leaf a t d m =>
      rw [names_leaf] at h; simp only [Bool.false_or]
      exact inChoice_false_of_notin r n (fun hh => h (List.mem_cons_of_mem _ hh))
    | leafList a t mn mx =>
      rw [names_leafList] at h; simp only [Bool.false_or]
      exact inChoice_false_of_notin r n (fun hh => h (List.mem_cons_of_mem _ hh))
    | container a p k =>
      rw [names_container] at h; simp only [Bool.false_or]
      exact inChoice_false_of_notin r n (fun hh => h (List.mem_cons_of_mem _ hh))
    | list a ks mn mx u k =>
      rw [names_list] at h; simp only [Bool.false_or]
      exact inChoice_false_of_notin r n (fun hh => h (List.mem_cons_of_mem _ hh))
    | case a k =>
      simp only [Bool.false_or]
      apply inChoice_false_of_notin r n
      intro hh; apply h
      simp only [names, dataKids, List.map_cons, List.mem_cons]
      right; exact hh

/-! ### `isActiveDefault`, unfolded -/

theorem iad_nil (seen : List Tok) (name : Tok) (dc sc : Bool) :
    isActiveDefault seen name dc sc ([] : List (SN τ)) = false := by rw [isActiveDefault]

theorem iad_choice (seen : List Tok) (name : Tok) (dc sc : Bool) (a : Tok) (b : Bool) (d : Option Tok) (cases r : List (SN τ)) :
    isActiveDefault seen name dc sc (.choice a b d cases :: r) =
      if (lookup name (caseKids cases)).isSome then
        if hasCfg seen (caseKids cases) then isActiveDefaultCase seen name none cases
        else match d with
          | some dc' => isActiveDefaultCase seen name (some dc') cases
          | none => isActiveDefault seen name dc sc r
      else isActiveDefault seen name dc sc r := by
  conv => lhs; rw [isActiveDefault.eq_def]
  rfl

theorem iad_leaf (seen : List Tok) (name : Tok) (dc sc : Bool) (n : Tok) (t : τ) (d : Option Bytes) (m : Bool) (r : List (SN τ)) :
    isActiveDefault seen name dc sc (.leaf n t d m :: r) =
      if n = name then (dc || sc || isActiveDefault seen name dc sc r) else isActiveDefault seen name dc sc r := by
  conv => lhs; rw [isActiveDefault.eq_def]
theorem iad_leafList (seen : List Tok) (name : Tok) (dc sc : Bool) (n : Tok) (t : τ) (mn : Nat) (mx : Option Nat) (r : List (SN τ)) :
    isActiveDefault seen name dc sc (.leafList n t mn mx :: r) =
      if n = name then (dc || sc || isActiveDefault seen name dc sc r) else isActiveDefault seen name dc sc r := by
  conv => lhs; rw [isActiveDefault.eq_def]
theorem iad_container (seen : List Tok) (name : Tok) (dc sc : Bool) (n : Tok) (p : Bool) (k r : List (SN τ)) :
    isActiveDefault seen name dc sc (.container n p k :: r) =
      if n = name then (dc || sc || isActiveDefault seen name dc sc r) else isActiveDefault seen name dc sc r := by
  conv => lhs; rw [isActiveDefault.eq_def]
theorem iad_list (seen : List Tok) (name : Tok) (dc sc : Bool) (n : Tok) (ks : List Tok) (mn : Nat) (mx : Option Nat)
    (u : List (List (List Tok))) (k r : List (SN τ)) :
    isActiveDefault seen name dc sc (.list n ks mn mx u k :: r) =
      if n = name then (dc || sc || isActiveDefault seen name dc sc r) else isActiveDefault seen name dc sc r := by
  conv => lhs; rw [isActiveDefault.eq_def]
theorem iad_case (seen : List Tok) (name : Tok) (dc sc : Bool) (n : Tok) (k r : List (SN τ)) :
    isActiveDefault seen name dc sc (.case n k :: r) =
      if n = name then (dc || sc || isActiveDefault seen name dc sc r) else isActiveDefault seen name dc sc r := by
  conv => lhs; rw [isActiveDefault.eq_def]

theorem iadc_nil (seen : List Tok) (name : Tok) (dflt : Option Tok) :
    isActiveDefaultCase seen name dflt ([] : List (SN τ)) = false := by rw [isActiveDefaultCase]
theorem iadc_case (seen : List Tok) (name : Tok) (dflt : Option Tok) (cn : Tok) (kids r : List (SN τ)) :
    isActiveDefaultCase seen name dflt (.case cn kids :: r) =
      if (lookup name (dataKids kids)).isSome then
        (match dflt with
         | none => if !hasCfg seen (dataKids kids) then false else isActiveDefault seen name false (hasCfg seen (dataKids kids)) kids
         | some dc => if dc ≠ cn then false else isActiveDefault seen name true (hasCfg seen (dataKids kids)) kids)
      else isActiveDefaultCase seen name dflt r := by
  conv => lhs; rw [isActiveDefaultCase.eq_def]
  rfl

/-- a name that is not in the flattened map is not an active default of it -/
theorem iad_notin (seen : List Tok) (name : Tok) (dc sc : Bool) : ∀ (l : List (SN τ)), name ∉ names l →
    isActiveDefault seen name dc sc l = false
  | [], _ => iad_nil seen name dc sc
  | .choice a b d cases :: r, h => by
    rw [names_choice, List.mem_append, not_or] at h
    rw [iad_choice, lookup_none_of_notin (caseKids cases) name h.1]
    simp only [Option.isSome_none, Bool.false_eq_true, ↓reduceIte]
    exact iad_notin seen name dc sc r h.2
  | .leaf a t d m :: r, h => by
    rw [names_leaf] at h; simp only [List.mem_cons, not_or] at h
    rw [iad_leaf, if_neg (fun e => h.1 e.symm)]; exact iad_notin seen name dc sc r h.2
  | .leafList a t mn mx :: r, h => by
    rw [names_leafList] at h; simp only [List.mem_cons, not_or] at h
    rw [iad_leafList, if_neg (fun e => h.1 e.symm)]; exact iad_notin seen name dc sc r h.2
  | .container a p k :: r, h => by
    rw [names_container] at h; simp only [List.mem_cons, not_or] at h
    rw [iad_container, if_neg (fun e => h.1 e.symm)]; exact iad_notin seen name dc sc r h.2
  | .list a ks mn mx u k :: r, h => by
    rw [names_list] at h; simp only [List.mem_cons, not_or] at h
    rw [iad_list, if_neg (fun e => h.1 e.symm)]; exact iad_notin seen name dc sc r h.2
  | .case a k :: r, h => by
    have h' : name ≠ a ∧ name ∉ names r := by
      simp only [names, dataKids, List.map_cons, List.mem_cons, not_or, SN.name] at h ⊢
      exact h
    rw [iad_case, if_neg (fun e => h'.1 e.symm)]; exact iad_notin seen name dc sc r h'.2

/-! ### `createDefault`, unfolded; nothing comes from a schema without defaults -/

theorem createDefault_leaf (n : Tok) (t : τ) (d : Option Bytes) (m : Bool) :
    createDefault (.leaf n t d m : SN τ) =
      (match d, m with
       | some dv, false => some (.mk n [] [dv])
       | _, _ => none) := by
  cases d <;> cases m <;> simp [createDefault]

theorem createDefault_container (n : Tok) (pr : Bool) (kids : List (SN τ)) :
    createDefault (.container n pr kids) =
      if pr then none
      else if (createDefaults kids kids).isEmpty then none else some (.mk n (createDefaults kids kids) []) := by
  cases pr <;> simp [createDefault]

theorem createDefault_list (n : Tok) (ks : List Tok) (mn : Nat) (mx : Option Nat) (u : List (List (List Tok))) (k : List (SN τ)) :
    createDefault (.list n ks mn mx u k) = none := by simp [createDefault]
theorem createDefault_leafList (n : Tok) (t : τ) (mn : Nat) (mx : Option Nat) :
    createDefault (.leafList n t mn mx : SN τ) = none := by simp [createDefault]

theorem cds_nil (ctx : List (SN τ)) : createDefaults ctx [] = [] := by rw [createDefaults]
theorem cds_choice (ctx : List (SN τ)) (a : Tok) (b : Bool) (d : Option Tok) (cases r : List (SN τ)) :
    createDefaults ctx (.choice a b d cases :: r) = createDefaultsCases ctx cases ++ createDefaults ctx r := by rw [createDefaults]
theorem cds_case (ctx : List (SN τ)) (a : Tok) (k r : List (SN τ)) :
    createDefaults ctx (.case a k :: r) = createDefaults ctx r := by rw [createDefaults]
theorem cds_leaf (ctx : List (SN τ)) (n : Tok) (t : τ) (d : Option Bytes) (m : Bool) (r : List (SN τ)) :
    createDefaults ctx (.leaf n t d m :: r) = (createDefault (.leaf n t d m)).toList ++ createDefaults ctx r := by rw [createDefaults]
theorem cds_container (ctx : List (SN τ)) (n : Tok) (p : Bool) (k r : List (SN τ)) :
    createDefaults ctx (.container n p k :: r) = (createDefault (.container n p k)).toList ++ createDefaults ctx r := by rw [createDefaults]
theorem cds_list (ctx : List (SN τ)) (n : Tok) (ks : List Tok) (mn : Nat) (mx : Option Nat) (u : List (List (List Tok))) (k r : List (SN τ)) :
    createDefaults ctx (.list n ks mn mx u k :: r) = createDefaults ctx r := by rw [createDefaults]
theorem cds_leafList (ctx : List (SN τ)) (n : Tok) (t : τ) (mn : Nat) (mx : Option Nat) (r : List (SN τ)) :
    createDefaults ctx (.leafList n t mn mx :: r) = createDefaults ctx r := by rw [createDefaults]

theorem cdc_nil (ctx : List (SN τ)) : createDefaultsCases ctx [] = [] := by rw [createDefaultsCases]
theorem cdc_case (ctx : List (SN τ)) (a : Tok) (kids r : List (SN τ)) :
    createDefaultsCases ctx (.case a kids :: r) = createDefaultsIn ctx kids ++ createDefaultsCases ctx r := by rw [createDefaultsCases]

theorem cdi_nil (ctx : List (SN τ)) : createDefaultsIn ctx [] = [] := by rw [createDefaultsIn]
theorem cdi_choice (ctx : List (SN τ)) (a : Tok) (b : Bool) (d : Option Tok) (cases r : List (SN τ)) :
    createDefaultsIn ctx (.choice a b d cases :: r) = createDefaultsCases ctx cases ++ createDefaultsIn ctx r := by rw [createDefaultsIn]
theorem cdi_leaf (ctx : List (SN τ)) (n : Tok) (t : τ) (d : Option Bytes) (m : Bool) (r : List (SN τ)) :
    createDefaultsIn ctx (.leaf n t d m :: r) =
      (if isActiveDefault [] n false false (ctx.filter (·.isChoice)) then (createDefault (.leaf n t d m)).toList else []) ++
        createDefaultsIn ctx r := by rw [createDefaultsIn]
theorem cdi_container (ctx : List (SN τ)) (n : Tok) (p : Bool) (k r : List (SN τ)) :
    createDefaultsIn ctx (.container n p k :: r) =
      (if isActiveDefault [] n false false (ctx.filter (·.isChoice)) then (createDefault (.container n p k)).toList else []) ++
        createDefaultsIn ctx r := by rw [createDefaultsIn]
theorem cdi_list (ctx : List (SN τ)) (n : Tok) (ks : List Tok) (mn : Nat) (mx : Option Nat) (u : List (List (List Tok))) (k r : List (SN τ)) :
    createDefaultsIn ctx (.list n ks mn mx u k :: r) = createDefaultsIn ctx r := by rw [createDefaultsIn]
theorem cdi_leafList (ctx : List (SN τ)) (n : Tok) (t : τ) (mn : Nat) (mx : Option Nat) (r : List (SN τ)) :
    createDefaultsIn ctx (.leafList n t mn mx :: r) = createDefaultsIn ctx r := by rw [createDefaultsIn]

theorem anyDefault_nil : anyDefault ([] : List (SN τ)) = false := by rw [anyDefault]
theorem anyDefault_choice (a : Tok) (b : Bool) (d : Option Tok) (cases r : List (SN τ)) :
    anyDefault (.choice a b d cases :: r) = (anyDefaultCases cases || anyDefault r) := by rw [anyDefault]
theorem anyDefault_leaf (n : Tok) (t : τ) (d : Option Bytes) (m : Bool) (r : List (SN τ)) :
    anyDefault (.leaf n t d m :: r) = (hasDefault (.leaf n t d m) || anyDefault r) := by rw [anyDefault]; simp
theorem anyDefault_container (n : Tok) (p : Bool) (k r : List (SN τ)) :
    anyDefault (.container n p k :: r) = (hasDefault (.container n p k) || anyDefault r) := by rw [anyDefault]; simp
theorem anyDefault_list (n : Tok) (ks : List Tok) (mn : Nat) (mx : Option Nat) (u : List (List (List Tok))) (k r : List (SN τ)) :
    anyDefault (.list n ks mn mx u k :: r) = anyDefault r := by rw [anyDefault] <;> simp [hasDefault]
theorem anyDefault_leafList (n : Tok) (t : τ) (mn : Nat) (mx : Option Nat) (r : List (SN τ)) :
    anyDefault (.leafList n t mn mx :: r) = anyDefault r := by rw [anyDefault] <;> simp [hasDefault]
theorem anyDefaultCases_case (a : Tok) (kids r : List (SN τ)) :
    anyDefaultCases (.case a kids :: r) = (anyDefault kids || anyDefaultCases r) := by rw [anyDefaultCases]
theorem hasDefault_leaf (n : Tok) (t : τ) (d : Option Bytes) (m : Bool) :
    hasDefault (.leaf n t d m : SN τ) = (!m && d.isSome) := by rw [hasDefault]
theorem hasDefault_container (n : Tok) (p : Bool) (k : List (SN τ)) :
    hasDefault (.container n p k) = (!p && anyDefault k) := by rw [hasDefault]

mutual
theorem cds_noDefault (ctx : List (SN τ)) : ∀ (nodes : List (SN τ)), wfL nodes → anyDefault nodes = false →
    createDefaults ctx nodes = []
  | [], _, _ => cds_nil ctx
  | .leaf n t d m :: r, hw, h => by
    rw [wfL] at hw
    rw [anyDefault_leaf, Bool.or_eq_false_iff, hasDefault_leaf] at h
    rw [cds_leaf, cds_noDefault ctx r hw.2 h.2, createDefault_leaf]
    cases d <;> cases m <;> simp_all
  | .container n p k :: r, hw, h => by
    rw [wfL, wfN] at hw
    rw [anyDefault_container, Bool.or_eq_false_iff, hasDefault_container] at h
    rw [cds_container, cds_noDefault ctx r hw.2 h.2, createDefault_container]
    cases p with
    | true => simp
    | false =>
      simp only [Bool.not_false, Bool.true_and] at h
      simp [cds_noDefault k k hw.1.1 h.1]
  | .list n ks mn mx u k :: r, hw, h => by
    rw [wfL] at hw; rw [anyDefault_list] at h
    rw [cds_list]; exact cds_noDefault ctx r hw.2 h
  | .leafList n t mn mx :: r, hw, h => by
    rw [wfL] at hw; rw [anyDefault_leafList] at h
    rw [cds_leafList]; exact cds_noDefault ctx r hw.2 h
  | .case a k :: r, hw, _ => by rw [wfL, wfN] at hw; exact hw.1.elim
  | .choice a b d cases :: r, hw, h => by
    rw [wfL, wfN] at hw
    rw [anyDefault_choice, Bool.or_eq_false_iff] at h
    rw [cds_choice, cdc_noDefault ctx cases hw.1.1 h.1, cds_noDefault ctx r hw.2 h.2]; rfl
theorem cdc_noDefault (ctx : List (SN τ)) : ∀ (cases : List (SN τ)), wfC cases → anyDefaultCases cases = false →
    createDefaultsCases ctx cases = []
  | [], _, _ => cdc_nil ctx
  | .case a kids :: r, hw, h => by
    rw [wfC] at hw
    rw [anyDefaultCases_case, Bool.or_eq_false_iff] at h
    rw [cdc_case, cdi_noDefault ctx kids hw.1 h.1, cdc_noDefault ctx r hw.2 h.2]; rfl
  | .container .. :: _, hw, _ => by rw [wfC] at hw; exact hw.elim
  | .list .. :: _, hw, _ => by rw [wfC] at hw; exact hw.elim
  | .leaf .. :: _, hw, _ => by rw [wfC] at hw; exact hw.elim
  | .leafList .. :: _, hw, _ => by rw [wfC] at hw; exact hw.elim
  | .choice .. :: _, hw, _ => by rw [wfC] at hw; exact hw.elim
theorem cdi_noDefault (ctx : List (SN τ)) : ∀ (nodes : List (SN τ)), wfL nodes → anyDefault nodes = false →
    createDefaultsIn ctx nodes = []
  | [], _, _ => cdi_nil ctx
  | .leaf n t d m :: r, hw, h => by
    rw [wfL] at hw
    rw [anyDefault_leaf, Bool.or_eq_false_iff, hasDefault_leaf] at h
    rw [cdi_leaf, cdi_noDefault ctx r hw.2 h.2, createDefault_leaf]
    cases d <;> cases m <;> simp_all
  | .container n p k :: r, hw, h => by
    rw [wfL, wfN] at hw
    rw [anyDefault_container, Bool.or_eq_false_iff, hasDefault_container] at h
    rw [cdi_container, cdi_noDefault ctx r hw.2 h.2, createDefault_container]
    cases p with
    | true => simp
    | false =>
      simp only [Bool.not_false, Bool.true_and] at h
      simp [cds_noDefault k k hw.1.1 h.1]
  | .list n ks mn mx u k :: r, hw, h => by
    rw [wfL] at hw; rw [anyDefault_list] at h
    rw [cdi_list]; exact cdi_noDefault ctx r hw.2 h
  | .leafList n t mn mx :: r, hw, h => by
    rw [wfL] at hw; rw [anyDefault_leafList] at h
    rw [cdi_leafList]; exact cdi_noDefault ctx r hw.2 h
  | .case a k :: r, hw, _ => by rw [wfL, wfN] at hw; exact hw.1.elim
  | .choice a b d cases :: r, hw, h => by
    rw [wfL, wfN] at hw
    rw [anyDefault_choice, Bool.or_eq_false_iff] at h
    rw [cdi_choice, cdc_noDefault ctx cases hw.1.1 h.1, cdi_noDefault ctx r hw.2 h.2]; rfl
end

/-- `HasDefault()` false: nothing is created -/
theorem createDefault_none_of_noDefault : ∀ (sn : SN τ), wfN sn → hasDefault sn = false → createDefault sn = none
  | .leaf n t d m, _, h => by
    rw [hasDefault_leaf] at h; rw [createDefault_leaf]; cases d <;> cases m <;> simp_all
  | .container n p k, hw, h => by
    rw [wfN] at hw
    rw [hasDefault_container] at h; rw [createDefault_container]
    cases p with
    | true => simp
    | false =>
      simp only [Bool.not_false, Bool.true_and] at h
      simp [cds_noDefault k k hw.1 h]
  | .list .., _, _ => createDefault_list ..
  | .leafList .., _, _ => createDefault_leafList ..
  | .choice .., _, _ => by simp [createDefault]
  | .case .., _, _ => by simp [createDefault]

/-! ### the specification: nothing from a schema without defaults; only the names of the level matter -/

mutual
theorem defaultsS_noDefault (cfg : List Tok) : ∀ (nodes : List (SN τ)), wfL nodes → anyDefault nodes = false →
    defaultsS cfg nodes = []
  | [], _, _ => by simp [defaultsS]
  | .leaf n t d m :: r, hw, h => by
    rw [wfL] at hw
    rw [anyDefault_leaf, Bool.or_eq_false_iff, hasDefault_leaf] at h
    rw [defaultsS_leaf, defaultsS_noDefault cfg r hw.2 h.2]
    unfold emitLeaf
    cases d <;> cases m <;> simp_all
  | .container n p k :: r, hw, h => by
    rw [wfL, wfN] at hw
    rw [anyDefault_container, Bool.or_eq_false_iff, hasDefault_container] at h
    rw [defaultsS_container, defaultsS_noDefault cfg r hw.2 h.2]
    unfold emitContainer
    cases p with
    | true => simp
    | false =>
      simp only [Bool.not_false, Bool.true_and] at h
      simp [defaultsS_noDefault [] k hw.1.1 h.1]
  | .list n ks mn mx u k :: r, hw, h => by
    rw [wfL] at hw; rw [anyDefault_list] at h
    rw [defaultsS_list]; exact defaultsS_noDefault cfg r hw.2 h
  | .leafList n t mn mx :: r, hw, h => by
    rw [wfL] at hw; rw [anyDefault_leafList] at h
    rw [defaultsS_leafList]; exact defaultsS_noDefault cfg r hw.2 h
  | .case a k :: r, hw, _ => by rw [wfL, wfN] at hw; exact hw.1.elim
  | .choice a b d cases :: r, hw, h => by
    rw [wfL, wfN] at hw
    rw [anyDefault_choice, Bool.or_eq_false_iff] at h
    rw [defaultsS_choice, defaultsS_noDefault cfg r hw.2 h.2]
    unfold emitChoice
    rw [defaultsActive_noDefault cfg cases hw.1.1 h.1]
    cases d with
    | none => simp
    | some dc => simp [defaultsOfCase_noDefault dc cases hw.1.1 h.1]
theorem defaultsActive_noDefault (cfg : List Tok) : ∀ (cases : List (SN τ)), wfC cases → anyDefaultCases cases = false →
    defaultsActive cfg cases = []
  | [], _, _ => by simp [defaultsActive]
  | .case a kids :: r, hw, h => by
    rw [wfC] at hw
    rw [anyDefaultCases_case, Bool.or_eq_false_iff] at h
    rw [defaultsActive_case, defaultsS_noDefault cfg kids hw.1 h.1, defaultsActive_noDefault cfg r hw.2 h.2]
    simp
  | .container .. :: _, hw, _ => by rw [wfC] at hw; exact hw.elim
  | .list .. :: _, hw, _ => by rw [wfC] at hw; exact hw.elim
  | .leaf .. :: _, hw, _ => by rw [wfC] at hw; exact hw.elim
  | .leafList .. :: _, hw, _ => by rw [wfC] at hw; exact hw.elim
  | .choice .. :: _, hw, _ => by rw [wfC] at hw; exact hw.elim
theorem defaultsOfCase_noDefault (dc : Tok) : ∀ (cases : List (SN τ)), wfC cases → anyDefaultCases cases = false →
    defaultsOfCase dc cases = []
  | [], _, _ => by simp [defaultsOfCase]
  | .case a kids :: r, hw, h => by
    rw [wfC] at hw
    rw [anyDefaultCases_case, Bool.or_eq_false_iff] at h
    rw [defaultsOfCase_case, defaultsS_noDefault [] kids hw.1 h.1, defaultsOfCase_noDefault dc r hw.2 h.2]
    simp
  | .container .. :: _, hw, _ => by rw [wfC] at hw; exact hw.elim
  | .list .. :: _, hw, _ => by rw [wfC] at hw; exact hw.elim
  | .leaf .. :: _, hw, _ => by rw [wfC] at hw; exact hw.elim
  | .leafList .. :: _, hw, _ => by rw [wfC] at hw; exact hw.elim
  | .choice .. :: _, hw, _ => by rw [wfC] at hw; exact hw.elim
end

/-- two sets of configured names that agree on the names in `S` -/
def Agree (S c1 c2 : List Tok) : Prop := ∀ n ∈ S, (n ∈ c1 ↔ n ∈ c2)

theorem Agree_left {S1 S2 c1 c2 : List Tok} (h : Agree (S1 ++ S2) c1 c2) : Agree S1 c1 c2 :=
  fun n hn => h n (List.mem_append_left _ hn)
theorem Agree_right {S1 S2 c1 c2 : List Tok} (h : Agree (S1 ++ S2) c1 c2) : Agree S2 c1 c2 :=
  fun n hn => h n (List.mem_append_right _ hn)

theorem contains_congr {c1 c2 : List Tok} {n : Tok} (h : n ∈ c1 ↔ n ∈ c2) : c1.contains n = c2.contains n := by
  by_cases h1 : n ∈ c1
  · have h2 := h.mp h1; simp [h1, h2]
  · have h2 : n ∉ c2 := fun hh => h1 (h.mpr hh); simp [h1, h2]

theorem active_congr (kids : List (SN τ)) {c1 c2 : List Tok} (h : Agree (names kids) c1 c2) : active kids c1 = active kids c2 := by
  cases h1 : active kids c1 <;> cases h2 : active kids c2 <;> try rfl
  · obtain ⟨n, hn, hc⟩ := (active_iff kids c2).mp h2
    have := (active_iff kids c1).mpr ⟨n, hn, (h n hn).mpr hc⟩
    simp [this] at h1
  · obtain ⟨n, hn, hc⟩ := (active_iff kids c1).mp h1
    have := (active_iff kids c2).mpr ⟨n, hn, (h n hn).mp hc⟩
    simp [this] at h2

theorem activeCases_congr (cases : List (SN τ)) {c1 c2 : List Tok} (h : Agree (cnames cases) c1 c2) :
    activeCases cases c1 = activeCases cases c2 := by
  cases h1 : activeCases cases c1 <;> cases h2 : activeCases cases c2 <;> try rfl
  · obtain ⟨n, hn, hc⟩ := (activeCases_iff cases c2).mp h2
    have := (activeCases_iff cases c1).mpr ⟨n, hn, (h n hn).mpr hc⟩
    simp [this] at h1
  · obtain ⟨n, hn, hc⟩ := (activeCases_iff cases c1).mp h1
    have := (activeCases_iff cases c2).mpr ⟨n, hn, (h n hn).mp hc⟩
    simp [this] at h2

mutual
theorem defaultsS_congr (c1 c2 : List Tok) : ∀ (nodes : List (SN τ)), wfL nodes → Agree (names nodes) c1 c2 →
    defaultsS c1 nodes = defaultsS c2 nodes
  | [], _, _ => by simp [defaultsS]
  | .leaf n t d m :: r, hw, h => by
    rw [wfL] at hw; rw [names_leaf] at h
    have h' : Agree ([n] ++ names r) c1 c2 := h
    rw [defaultsS_leaf, defaultsS_leaf, defaultsS_congr c1 c2 r hw.2 (Agree_right h')]
    unfold emitLeaf
    rw [contains_congr (h n (by simp))]
  | .container n p k :: r, hw, h => by
    rw [wfL] at hw; rw [names_container] at h
    have h' : Agree ([n] ++ names r) c1 c2 := h
    rw [defaultsS_container, defaultsS_container, defaultsS_congr c1 c2 r hw.2 (Agree_right h')]
    unfold emitContainer
    rw [contains_congr (h n (by simp))]
  | .list n ks mn mx u k :: r, hw, h => by
    rw [wfL] at hw; rw [names_list] at h
    have h' : Agree ([n] ++ names r) c1 c2 := h
    rw [defaultsS_list, defaultsS_list]; exact defaultsS_congr c1 c2 r hw.2 (Agree_right h')
  | .leafList n t mn mx :: r, hw, h => by
    rw [wfL] at hw; rw [names_leafList] at h
    have h' : Agree ([n] ++ names r) c1 c2 := h
    rw [defaultsS_leafList, defaultsS_leafList]; exact defaultsS_congr c1 c2 r hw.2 (Agree_right h')
  | .case a k :: r, hw, _ => by rw [wfL, wfN] at hw; exact hw.1.elim
  | .choice a b d cases :: r, hw, h => by
    rw [wfL, wfN] at hw; rw [names_choice] at h
    rw [defaultsS_choice, defaultsS_choice, defaultsS_congr c1 c2 r hw.2 (Agree_right h)]
    unfold emitChoice
    rw [activeCases_congr cases (Agree_left h), defaultsActive_congr c1 c2 cases hw.1.1 (Agree_left h)]
theorem defaultsActive_congr (c1 c2 : List Tok) : ∀ (cases : List (SN τ)), wfC cases → Agree (cnames cases) c1 c2 →
    defaultsActive c1 cases = defaultsActive c2 cases
  | [], _, _ => by simp [defaultsActive]
  | .case a kids :: r, hw, h => by
    rw [wfC] at hw; rw [cnames_case] at h
    rw [defaultsActive_case, defaultsActive_case, defaultsActive_congr c1 c2 r hw.2 (Agree_right h),
      active_congr kids (Agree_left h), defaultsS_congr c1 c2 kids hw.1 (Agree_left h)]
  | .container .. :: _, hw, _ => by rw [wfC] at hw; exact hw.elim
  | .list .. :: _, hw, _ => by rw [wfC] at hw; exact hw.elim
  | .leaf .. :: _, hw, _ => by rw [wfC] at hw; exact hw.elim
  | .leafList .. :: _, hw, _ => by rw [wfC] at hw; exact hw.elim
  | .choice .. :: _, hw, _ => by rw [wfC] at hw; exact hw.elim
end

/-! ### the model's decision per node, against the specification level by level -/

/-- what `yangDataChildren` does with one node of the child map, given the activity test -/
def gbody (seen : List Tok) (act : Tok → Bool) (def_ : SN τ) : List DN :=
  if !hasDefault def_ || seen.contains def_.name then []
  else if !act def_.name then [] else (createDefault def_).toList

theorem hasCfg_active (seen : List Tok) (kids : List (SN τ)) : hasCfg seen (dataKids kids) = active kids seen := rfl
theorem hasCfg_activeCases (seen : List Tok) (cases : List (SN τ)) : hasCfg seen (caseKids cases) = activeCases cases seen := rfl

theorem flatMap_gbody_congr (seen : List Tok) (act1 act2 : Tok → Bool) (l : List (SN τ))
    (h : ∀ x ∈ l, act1 x.name = act2 x.name) : l.flatMap (gbody seen act1) = l.flatMap (gbody seen act2) := by
  induction l with
  | nil => rfl
  | cons x r ih =>
    simp only [List.flatMap_cons]
    rw [ih (fun y hy => h y (List.mem_cons_of_mem _ hy))]
    congr 1
    unfold gbody
    rw [h x (by simp)]

theorem flatMap_gbody_false (seen : List Tok) (act : Tok → Bool) (l : List (SN τ))
    (h : ∀ x ∈ l, act x.name = false) : l.flatMap (gbody seen act) = [] := by
  induction l with
  | nil => rfl
  | cons x r ih =>
    simp only [List.flatMap_cons]
    rw [ih (fun y hy => h y (List.mem_cons_of_mem _ hy))]
    unfold gbody
    rw [h x (by simp)]
    simp

theorem mem_names_of_mem_dataKids {nodes : List (SN τ)} {x : SN τ} (h : x ∈ dataKids nodes) : x.name ∈ names nodes :=
  List.mem_map_of_mem h
theorem mem_cnames_of_mem_caseKids {cases : List (SN τ)} {x : SN τ} (h : x ∈ caseKids cases) : x.name ∈ cnames cases :=
  List.mem_map_of_mem h

/-- in a choice whose default case is named differently from all of these cases, nothing of them is active -/
theorem iadc_some_false (seen : List Tok) (name dc : Tok) : ∀ (cases : List (SN τ)), wfC cases →
    (∀ c ∈ cases, c.name ≠ dc) → isActiveDefaultCase seen name (some dc) cases = false
  | [], _, _ => iadc_nil seen name (some dc)
  | .case a kids :: r, hw, h => by
    rw [wfC] at hw
    rw [iadc_case]
    have ha : dc ≠ a := fun e => h (.case a kids) (by simp) (by simp [SN.name, e])
    split
    · simp [ha]
    · exact iadc_some_false seen name dc r hw.2 (fun c hc => h c (List.mem_cons_of_mem _ hc))
  | .container .. :: _, hw, _ => by rw [wfC] at hw; exact hw.elim
  | .list .. :: _, hw, _ => by rw [wfC] at hw; exact hw.elim
  | .leaf .. :: _, hw, _ => by rw [wfC] at hw; exact hw.elim
  | .leafList .. :: _, hw, _ => by rw [wfC] at hw; exact hw.elim
  | .choice .. :: _, hw, _ => by rw [wfC] at hw; exact hw.elim

/-- the activity test `yangDataChildren` applies at a parent with schema children `top` -/
def actTop (top : List (SN τ)) (seen : List Tok) (n : Tok) : Bool :=
  !inChoice top n || isActiveDefault seen n false false (top.filter (·.isChoice))

def body (top : List (SN τ)) (seen : List Tok) (def_ : SN τ) : List DN := gbody seen (actTop top seen) def_

theorem addedDefaults_eq (top : List (SN τ)) (seen : List Tok) :
    addedDefaults top seen = (dataKids top).flatMap (body top seen) := by
  unfold addedDefaults
  congr 1
  funext def_
  unfold body gbody actTop
  cases (!hasDefault def_ || seen.contains def_.name) <;> simp only [Bool.false_eq_true, ↓reduceIte]
  cases inChoice top def_.name <;> cases isActiveDefault seen def_.name false false (top.filter (·.isChoice)) <;> simp

/-! ### `createDefaults` (what a default container is filled with) is the same decision with nothing configured -/

theorem gbody_direct (ctx : List (SN τ)) (x : SN τ) (hw : wfN x) (h : inChoice ctx x.name = false) :
    body ctx [] x = (createDefault x).toList := by
  unfold body gbody actTop
  rw [h]
  cases hd : hasDefault x
  · simp [createDefault_none_of_noDefault x hw hd]
  · simp

theorem gbody_member (ctx : List (SN τ)) (x : SN τ) (hw : wfN x) (h : inChoice ctx x.name = true) :
    body ctx [] x =
      if isActiveDefault [] x.name false false (ctx.filter (·.isChoice)) then (createDefault x).toList else [] := by
  unfold body gbody actTop
  rw [h]
  cases hd : hasDefault x
  · simp [createDefault_none_of_noDefault x hw hd]
  · cases isActiveDefault [] x.name false false (ctx.filter (·.isChoice)) <;> simp

mutual
theorem cds_flat (ctx : List (SN τ)) : ∀ (nodes : List (SN τ)), wfL nodes → (names nodes).Nodup →
    (∀ n ∈ names nodes, inChoice ctx n = inChoice nodes n) →
    createDefaults ctx nodes = (dataKids nodes).flatMap (body ctx [])
  | [], _, _, _ => by simp [cds_nil, dataKids]
  | .leaf a t d m :: r, hw, hnd, h => by
    rw [wfL] at hw; rw [names_leaf] at hnd h
    have hnd' := List.nodup_cons.mp hnd
    have hdk : dataKids (.leaf a t d m :: r) = .leaf a t d m :: dataKids r := by rw [dataKids]; simp
    rw [cds_leaf, hdk, List.flatMap_cons]
    have ha : inChoice ctx a = false := by
      rw [h a (by simp), inChoice_cons]; simp [inChoice_false_of_notin r a hnd'.1]
    rw [gbody_direct ctx _ hw.1 ha]
    congr 1
    apply cds_flat ctx r hw.2 hnd'.2
    intro n hn
    rw [h n (List.mem_cons_of_mem _ hn), inChoice_cons]; simp
  | .container a p k :: r, hw, hnd, h => by
    rw [wfL] at hw; rw [names_container] at hnd h
    have hnd' := List.nodup_cons.mp hnd
    have hdk : dataKids (.container a p k :: r) = .container a p k :: dataKids r := by rw [dataKids]; simp
    rw [cds_container, hdk, List.flatMap_cons]
    have ha : inChoice ctx a = false := by
      rw [h a (by simp), inChoice_cons]; simp [inChoice_false_of_notin r a hnd'.1]
    rw [gbody_direct ctx _ hw.1 ha]
    congr 1
    apply cds_flat ctx r hw.2 hnd'.2
    intro n hn
    rw [h n (List.mem_cons_of_mem _ hn), inChoice_cons]; simp
  | .list a ks mn mx u k :: r, hw, hnd, h => by
    rw [wfL] at hw; rw [names_list] at hnd h
    have hnd' := List.nodup_cons.mp hnd
    have hdk : dataKids (.list a ks mn mx u k :: r) = .list a ks mn mx u k :: dataKids r := by rw [dataKids]; simp
    rw [cds_list, hdk, List.flatMap_cons]
    have ha : inChoice ctx a = false := by
      rw [h a (by simp), inChoice_cons]; simp [inChoice_false_of_notin r a hnd'.1]
    rw [gbody_direct ctx _ hw.1 ha, createDefault_list]
    simp only [Option.toList_none, List.nil_append]
    apply cds_flat ctx r hw.2 hnd'.2
    intro n hn
    rw [h n (List.mem_cons_of_mem _ hn), inChoice_cons]; simp
  | .leafList a t mn mx :: r, hw, hnd, h => by
    rw [wfL] at hw; rw [names_leafList] at hnd h
    have hnd' := List.nodup_cons.mp hnd
    have hdk : dataKids (.leafList a t mn mx :: r) = .leafList a t mn mx :: dataKids r := by rw [dataKids]; simp
    rw [cds_leafList, hdk, List.flatMap_cons]
    have ha : inChoice ctx a = false := by
      rw [h a (by simp), inChoice_cons]; simp [inChoice_false_of_notin r a hnd'.1]
    rw [gbody_direct ctx _ hw.1 ha, createDefault_leafList]
    simp only [Option.toList_none, List.nil_append]
    apply cds_flat ctx r hw.2 hnd'.2
    intro n hn
    rw [h n (List.mem_cons_of_mem _ hn), inChoice_cons]; simp
  | .case a k :: r, hw, _, _ => by rw [wfL, wfN] at hw; exact hw.1.elim
  | .choice a b d cases :: r, hw, hnd, h => by
    rw [wfL, wfN] at hw; rw [names_choice] at hnd h
    rw [cds_choice, dataKids_choice, List.flatMap_append]
    congr 1
    · apply cdc_flat ctx cases hw.1.1
      intro n hn
      rw [h n (List.mem_append_left _ hn), inChoice_cons]
      simp [lookup_isSome_of_mem (caseKids cases) n hn]
    · apply cds_flat ctx r hw.2 (nodup_right hnd)
      intro n hn
      rw [h n (List.mem_append_right _ hn), inChoice_cons]
      have : n ∉ cnames cases := fun hc => nodup_disj hnd hc hn
      simp [lookup_none_of_notin (caseKids cases) n this]
theorem cdc_flat (ctx : List (SN τ)) : ∀ (cases : List (SN τ)), wfC cases →
    (∀ n ∈ cnames cases, inChoice ctx n = true) →
    createDefaultsCases ctx cases = (caseKids cases).flatMap (body ctx [])
  | [], _, _ => by simp [cdc_nil, caseKids]
  | .case a kids :: r, hw, h => by
    rw [wfC] at hw; rw [cnames_case] at h
    rw [cdc_case, caseKids_case, List.flatMap_append,
      cdi_flat ctx kids hw.1 (fun n hn => h n (List.mem_append_left _ hn)),
      cdc_flat ctx r hw.2 (fun n hn => h n (List.mem_append_right _ hn))]
  | .container .. :: _, hw, _ => by rw [wfC] at hw; exact hw.elim
  | .list .. :: _, hw, _ => by rw [wfC] at hw; exact hw.elim
  | .leaf .. :: _, hw, _ => by rw [wfC] at hw; exact hw.elim
  | .leafList .. :: _, hw, _ => by rw [wfC] at hw; exact hw.elim
  | .choice .. :: _, hw, _ => by rw [wfC] at hw; exact hw.elim
theorem cdi_flat (ctx : List (SN τ)) : ∀ (nodes : List (SN τ)), wfL nodes →
    (∀ n ∈ names nodes, inChoice ctx n = true) →
    createDefaultsIn ctx nodes = (dataKids nodes).flatMap (body ctx [])
  | [], _, _ => by simp [cdi_nil, dataKids]
  | .leaf a t d m :: r, hw, h => by
    rw [wfL] at hw; rw [names_leaf] at h
    have hdk : dataKids (.leaf a t d m :: r) = .leaf a t d m :: dataKids r := by rw [dataKids]; simp
    rw [cdi_leaf, hdk, List.flatMap_cons, gbody_member ctx _ hw.1 (h a (by simp)),
      cdi_flat ctx r hw.2 (fun n hn => h n (List.mem_cons_of_mem _ hn))]
    rfl
  | .container a p k :: r, hw, h => by
    rw [wfL] at hw; rw [names_container] at h
    have hdk : dataKids (.container a p k :: r) = .container a p k :: dataKids r := by rw [dataKids]; simp
    rw [cdi_container, hdk, List.flatMap_cons, gbody_member ctx _ hw.1 (h a (by simp)),
      cdi_flat ctx r hw.2 (fun n hn => h n (List.mem_cons_of_mem _ hn))]
    rfl
  | .list a ks mn mx u k :: r, hw, h => by
    rw [wfL] at hw; rw [names_list] at h
    have hdk : dataKids (.list a ks mn mx u k :: r) = .list a ks mn mx u k :: dataKids r := by rw [dataKids]; simp
    rw [cdi_list, hdk, List.flatMap_cons, gbody_member ctx _ hw.1 (h a (by simp)), createDefault_list,
      cdi_flat ctx r hw.2 (fun n hn => h n (List.mem_cons_of_mem _ hn))]
    simp
  | .leafList a t mn mx :: r, hw, h => by
    rw [wfL] at hw; rw [names_leafList] at h
    have hdk : dataKids (.leafList a t mn mx :: r) = .leafList a t mn mx :: dataKids r := by rw [dataKids]; simp
    rw [cdi_leafList, hdk, List.flatMap_cons, gbody_member ctx _ hw.1 (h a (by simp)), createDefault_leafList,
      cdi_flat ctx r hw.2 (fun n hn => h n (List.mem_cons_of_mem _ hn))]
    simp
  | .case a k :: r, hw, _ => by rw [wfL, wfN] at hw; exact hw.1.elim
  | .choice a b d cases :: r, hw, h => by
    rw [wfL, wfN] at hw; rw [names_choice] at h
    rw [cdi_choice, dataKids_choice, List.flatMap_append,
      cdc_flat ctx cases hw.1.1 (fun n hn => h n (List.mem_append_left _ hn)),
      cdi_flat ctx r hw.2 (fun n hn => h n (List.mem_append_right _ hn))]
end

/-- a default container is filled with what `yangDataChildren` would add to an empty one -/
theorem createDefaults_eq_added (kids : List (SN τ)) (hw : wfL kids) (hnd : (names kids).Nodup) :
    createDefaults kids kids = addedDefaults kids [] := by
  rw [addedDefaults_eq]
  exact cds_flat kids kids hw hnd (fun _ _ => rfl)

/-! ### the activity test at the parent = the activity test walking the parent's own children -/

theorem names_filter_sub : ∀ (l : List (SN τ)) (n : Tok), n ∈ names (l.filter (·.isChoice)) → n ∈ names l
  | [], n, h => by simp at h
  | .choice a b d cases :: r, n, h => by
    have : (SN.choice a b d cases :: r).filter (·.isChoice) = .choice a b d cases :: r.filter (·.isChoice) := by
      simp [List.filter, SN.isChoice]
    rw [this, names_choice, List.mem_append] at h
    rw [names_choice, List.mem_append]
    exact h.imp id (names_filter_sub r n)
  | .leaf a t d m :: r, n, h => by
    have : (SN.leaf a t d m :: r).filter (·.isChoice) = r.filter (·.isChoice) := by simp [List.filter, SN.isChoice]
    rw [this] at h; rw [names_leaf]; exact List.mem_cons_of_mem _ (names_filter_sub r n h)
  | .leafList a t mn mx :: r, n, h => by
    have : (SN.leafList a t mn mx :: r).filter (·.isChoice) = r.filter (·.isChoice) := by simp [List.filter, SN.isChoice]
    rw [this] at h; rw [names_leafList]; exact List.mem_cons_of_mem _ (names_filter_sub r n h)
  | .container a p k :: r, n, h => by
    have : (SN.container a p k :: r).filter (·.isChoice) = r.filter (·.isChoice) := by simp [List.filter, SN.isChoice]
    rw [this] at h; rw [names_container]; exact List.mem_cons_of_mem _ (names_filter_sub r n h)
  | .list a ks mn mx u k :: r, n, h => by
    have : (SN.list a ks mn mx u k :: r).filter (·.isChoice) = r.filter (·.isChoice) := by simp [List.filter, SN.isChoice]
    rw [this] at h; rw [names_list]; exact List.mem_cons_of_mem _ (names_filter_sub r n h)
  | .case a k :: r, n, h => by
    have : (SN.case a k :: r).filter (·.isChoice) = r.filter (·.isChoice) := by simp [List.filter, SN.isChoice]
    rw [this] at h
    have := names_filter_sub r n h
    simp only [names, dataKids, List.map_cons, List.mem_cons]; right; exact this

theorem actTop_eq (seen : List Tok) : ∀ (l : List (SN τ)), wfL l → (names l).Nodup → ∀ n ∈ names l,
    actTop l seen n = isActiveDefault seen n true false l
  | [], _, _, n, h => by simp at h
  | .leaf a t d m :: r, hw, hnd, n, h => by
    rw [wfL] at hw; rw [names_leaf] at hnd h
    have hnd' := List.nodup_cons.mp hnd
    have hf : (SN.leaf a t d m :: r).filter (·.isChoice) = r.filter (·.isChoice) := by simp [List.filter, SN.isChoice]
    unfold actTop
    rw [hf, inChoice_cons, iad_leaf]
    simp only [Bool.false_or]
    by_cases e : a = n
    · subst e
      simp [inChoice_false_of_notin r a hnd'.1]
    · rw [if_neg e]
      exact actTop_eq seen r hw.2 hnd'.2 n ((List.mem_cons.mp h).resolve_left (fun e' => e e'.symm))
  | .leafList a t mn mx :: r, hw, hnd, n, h => by
    rw [wfL] at hw; rw [names_leafList] at hnd h
    have hnd' := List.nodup_cons.mp hnd
    have hf : (SN.leafList a t mn mx :: r).filter (·.isChoice) = r.filter (·.isChoice) := by simp [List.filter, SN.isChoice]
    unfold actTop
    rw [hf, inChoice_cons, iad_leafList]
    simp only [Bool.false_or]
    by_cases e : a = n
    · subst e
      simp [inChoice_false_of_notin r a hnd'.1]
    · rw [if_neg e]
      exact actTop_eq seen r hw.2 hnd'.2 n ((List.mem_cons.mp h).resolve_left (fun e' => e e'.symm))
  | .container a p k :: r, hw, hnd, n, h => by
    rw [wfL] at hw; rw [names_container] at hnd h
    have hnd' := List.nodup_cons.mp hnd
    have hf : (SN.container a p k :: r).filter (·.isChoice) = r.filter (·.isChoice) := by simp [List.filter, SN.isChoice]
    unfold actTop
    rw [hf, inChoice_cons, iad_container]
    simp only [Bool.false_or]
    by_cases e : a = n
    · subst e
      simp [inChoice_false_of_notin r a hnd'.1]
    · rw [if_neg e]
      exact actTop_eq seen r hw.2 hnd'.2 n ((List.mem_cons.mp h).resolve_left (fun e' => e e'.symm))
  | .list a ks mn mx u k :: r, hw, hnd, n, h => by
    rw [wfL] at hw; rw [names_list] at hnd h
    have hnd' := List.nodup_cons.mp hnd
    have hf : (SN.list a ks mn mx u k :: r).filter (·.isChoice) = r.filter (·.isChoice) := by simp [List.filter, SN.isChoice]
    unfold actTop
    rw [hf, inChoice_cons, iad_list]
    simp only [Bool.false_or]
    by_cases e : a = n
    · subst e
      simp [inChoice_false_of_notin r a hnd'.1]
    · rw [if_neg e]
      exact actTop_eq seen r hw.2 hnd'.2 n ((List.mem_cons.mp h).resolve_left (fun e' => e e'.symm))
  | .case a k :: r, hw, _, _, _ => by rw [wfL, wfN] at hw; exact hw.1.elim
  | .choice a b d cases :: r, hw, hnd, n, h => by
    rw [wfL, wfN] at hw; rw [names_choice] at hnd h
    have hf : (SN.choice a b d cases :: r).filter (·.isChoice) = .choice a b d cases :: r.filter (·.isChoice) := by
      simp [List.filter, SN.isChoice]
    unfold actTop
    rw [hf, inChoice_cons, iad_choice, iad_choice]
    by_cases hin : n ∈ cnames cases
    · have hnr : n ∉ names r := fun hr => nodup_disj hnd hin hr
      have hnf : n ∉ names (r.filter (·.isChoice)) := fun hh => hnr (names_filter_sub r n hh)
      simp only [lookup_isSome_of_mem (caseKids cases) n hin, Bool.true_or, Bool.not_true, Bool.false_or, ↓reduceIte]
      rw [iad_notin seen n false false _ hnf, iad_notin seen n true false _ hnr]
    · have hr : n ∈ names r := (List.mem_append.mp h).resolve_left hin
      simp only [lookup_none_of_notin (caseKids cases) n hin, Option.isSome_none, Bool.false_or, Bool.false_eq_true, ↓reduceIte]
      exact actTop_eq seen r hw.2 (nodup_right hnd) n hr

/-! ### the main induction: level by level, the model's decisions are the specification's -/

/-- the statement for one body (`nodes` = the children of a container / list / case / the root) -/
def LvlS (nodes : List (SN τ)) : Prop :=
  ∀ (seen : List Tok) (act : Tok → Bool) (dc sc : Bool), (dc || sc) = true →
    (∀ n ∈ names nodes, act n = isActiveDefault seen n dc sc nodes) →
    (dataKids nodes).flatMap (gbody seen act) = defaultsS seen nodes

/-- from the level statement of a body to `yangDataChildren` at a parent with that body -/
theorem added_eq_of_lvl (kids : List (SN τ)) (hw : wfL kids) (hnd : (names kids).Nodup) (h : LvlS kids)
    (seen : List Tok) : addedDefaults kids seen = defaultsS seen kids := by
  rw [addedDefaults_eq]
  exact h seen (actTop kids seen) true false rfl (actTop_eq seen kids hw hnd)

theorem gbody_leaf (seen : List Tok) (act : Tok → Bool) (a : Tok) (t : τ) (d : Option Bytes) (m : Bool) (h : act a = true) :
    gbody seen act (.leaf a t d m) = emitLeaf seen a d m := by
  unfold gbody emitLeaf
  simp only [SN.name, h, hasDefault_leaf, createDefault_leaf]
  cases d <;> cases m <;> cases seen.contains a <;> simp

theorem gbody_container (seen : List Tok) (act : Tok → Bool) (a : Tok) (p : Bool) (k : List (SN τ)) (h : act a = true)
    (hw : wfL k) (hsub : createDefaults k k = defaultsS [] k) :
    gbody seen act (.container a p k) = emitContainer seen a p k := by
  unfold gbody emitContainer
  simp only [SN.name, h, hasDefault_container, createDefault_container, hsub]
  cases p with
  | true => simp
  | false =>
    cases hd : anyDefault k
    · simp [defaultsS_noDefault [] k hw hd]
    · cases seen.contains a <;> cases (defaultsS [] k).isEmpty <;> simp

theorem gbody_list (seen : List Tok) (act : Tok → Bool) (a : Tok) (ks : List Tok) (mn : Nat) (mx : Option Nat)
    (u : List (List (List Tok))) (k : List (SN τ)) : gbody seen act (.list a ks mn mx u k) = [] := by
  unfold gbody; simp [hasDefault]
theorem gbody_leafList (seen : List Tok) (act : Tok → Bool) (a : Tok) (t : τ) (mn : Nat) (mx : Option Nat) :
    gbody seen act (.leafList a t mn mx : SN τ) = [] := by
  unfold gbody; simp [hasDefault]

mutual
theorem lvl_S : ∀ (nodes : List (SN τ)), wfL nodes → (names nodes).Nodup → LvlS nodes
  | [], _, _ => by intro seen act dc sc _ _; simp [dataKids, defaultsS]
  | .leaf a t d m :: r, hw, hnd => by
    intro seen act dc sc hb h
    rw [wfL] at hw; rw [names_leaf] at hnd h
    have hnd' := List.nodup_cons.mp hnd
    have hdk : dataKids (.leaf a t d m :: r) = .leaf a t d m :: dataKids r := by rw [dataKids]; simp
    have ha : act a = true := by rw [h a (by simp), iad_leaf]; simp [hb]
    rw [hdk, List.flatMap_cons, gbody_leaf seen act a t d m ha, defaultsS_leaf]
    congr 1
    apply lvl_S r hw.2 hnd'.2 seen act dc sc hb
    intro n hn
    rw [h n (List.mem_cons_of_mem _ hn), iad_leaf, if_neg (fun (e : a = n) => hnd'.1 (by rw [e]; exact hn))]
  | .container a p k :: r, hw, hnd => by
    intro seen act dc sc hb h
    rw [wfL, wfN] at hw; rw [names_container] at hnd h
    have hnd' := List.nodup_cons.mp hnd
    have hdk : dataKids (.container a p k :: r) = .container a p k :: dataKids r := by rw [dataKids]; simp
    have ha : act a = true := by rw [h a (by simp), iad_container]; simp [hb]
    have hsub : createDefaults k k = defaultsS [] k := by
      rw [createDefaults_eq_added k hw.1.1 hw.1.2]
      exact added_eq_of_lvl k hw.1.1 hw.1.2 (lvl_S k hw.1.1 hw.1.2) []
    rw [hdk, List.flatMap_cons, gbody_container seen act a p k ha hw.1.1 hsub, defaultsS_container]
    congr 1
    apply lvl_S r hw.2 hnd'.2 seen act dc sc hb
    intro n hn
    rw [h n (List.mem_cons_of_mem _ hn), iad_container, if_neg (fun (e : a = n) => hnd'.1 (by rw [e]; exact hn))]
  | .list a ks mn mx u k :: r, hw, hnd => by
    intro seen act dc sc hb h
    rw [wfL] at hw; rw [names_list] at hnd h
    have hnd' := List.nodup_cons.mp hnd
    have hdk : dataKids (.list a ks mn mx u k :: r) = .list a ks mn mx u k :: dataKids r := by rw [dataKids]; simp
    rw [hdk, List.flatMap_cons, gbody_list, defaultsS_list, List.nil_append]
    apply lvl_S r hw.2 hnd'.2 seen act dc sc hb
    intro n hn
    rw [h n (List.mem_cons_of_mem _ hn), iad_list, if_neg (fun (e : a = n) => hnd'.1 (by rw [e]; exact hn))]
  | .leafList a t mn mx :: r, hw, hnd => by
    intro seen act dc sc hb h
    rw [wfL] at hw; rw [names_leafList] at hnd h
    have hnd' := List.nodup_cons.mp hnd
    have hdk : dataKids (.leafList a t mn mx :: r) = .leafList a t mn mx :: dataKids r := by rw [dataKids]; simp
    rw [hdk, List.flatMap_cons, gbody_leafList, defaultsS_leafList, List.nil_append]
    apply lvl_S r hw.2 hnd'.2 seen act dc sc hb
    intro n hn
    rw [h n (List.mem_cons_of_mem _ hn), iad_leafList, if_neg (fun (e : a = n) => hnd'.1 (by rw [e]; exact hn))]
  | .case a k :: r, hw, _ => by rw [wfL, wfN] at hw; exact hw.1.elim
  | .choice a b d cases :: r, hw, hnd => by
    intro seen act dc sc hb h
    rw [wfL, wfN] at hw; rw [names_choice] at hnd h
    rw [dataKids_choice, List.flatMap_append, defaultsS_choice]
    have hrest : (dataKids r).flatMap (gbody seen act) = defaultsS seen r := by
      apply lvl_S r hw.2 (nodup_right hnd) seen act dc sc hb
      intro n hn
      have hnc : n ∉ cnames cases := fun hc => nodup_disj hnd hc hn
      rw [h n (List.mem_append_right _ hn), iad_choice, lookup_none_of_notin (caseKids cases) n hnc]
      simp
    rw [hrest]
    congr 1
    -- the members of this choice
    have hact : ∀ n ∈ cnames cases, act n =
        if activeCases cases seen then isActiveDefaultCase seen n none cases
        else match d with
          | some dc' => isActiveDefaultCase seen n (some dc') cases
          | none => false := by
      intro n hn
      have hnr : n ∉ names r := fun hr => nodup_disj hnd hn hr
      rw [h n (List.mem_append_left _ hn), iad_choice, lookup_isSome_of_mem (caseKids cases) n hn, hasCfg_activeCases]
      simp only [↓reduceIte]
      cases d with
      | none => simp only [iad_notin seen n dc sc r hnr]
      | some dc' => rfl
    unfold emitChoice
    by_cases hac : activeCases cases seen = true
    · rw [if_pos hac]
      apply lvl_A cases hw.1.1 (nodup_left hnd) seen act
      intro n hn
      rw [hact n hn, if_pos hac]
    · rw [if_neg hac]
      cases d with
      | none =>
        apply flatMap_gbody_false
        intro x hx
        rw [hact x.name (mem_cnames_of_mem_caseKids hx), if_neg hac]
      | some dc' =>
        apply lvl_D cases hw.1.1 (nodup_left hnd) hw.1.2 seen act dc'
        · intro n hn hs
          exact hac ((activeCases_iff cases seen).mpr ⟨n, hn, hs⟩)
        · intro n hn
          rw [hact n hn, if_neg hac]
theorem lvl_A : ∀ (cases : List (SN τ)), wfC cases → (cnames cases).Nodup → ∀ (seen : List Tok) (act : Tok → Bool),
    (∀ n ∈ cnames cases, act n = isActiveDefaultCase seen n none cases) →
    (caseKids cases).flatMap (gbody seen act) = defaultsActive seen cases
  | [], _, _, _, _, _ => by simp [caseKids, defaultsActive]
  | .case a kids :: r, hw, hnd, seen, act, h => by
    rw [wfC] at hw; rw [cnames_case] at hnd h
    rw [caseKids_case, List.flatMap_append, defaultsActive_case]
    congr 1
    · by_cases hac : active kids seen = true
      · rw [if_pos hac]
        apply lvl_S kids hw.1 (nodup_left hnd) seen act false true rfl
        intro n hn
        rw [h n (List.mem_append_left _ hn), iadc_case, lookup_isSome_of_mem (dataKids kids) n hn, hasCfg_active, hac]
        simp
      · rw [if_neg hac]
        apply flatMap_gbody_false
        intro x hx
        have hn := mem_names_of_mem_dataKids hx
        rw [h x.name (List.mem_append_left _ hn), iadc_case, lookup_isSome_of_mem (dataKids kids) x.name hn, hasCfg_active]
        simp [hac]
    · apply lvl_A r hw.2 (nodup_right hnd) seen act
      intro n hn
      have hnk : n ∉ names kids := fun hk => nodup_disj hnd hk hn
      rw [h n (List.mem_append_right _ hn), iadc_case, lookup_none_of_notin (dataKids kids) n hnk]
      simp
  | .container .. :: _, hw, _, _, _, _ => by rw [wfC] at hw; exact hw.elim
  | .list .. :: _, hw, _, _, _, _ => by rw [wfC] at hw; exact hw.elim
  | .leaf .. :: _, hw, _, _, _, _ => by rw [wfC] at hw; exact hw.elim
  | .leafList .. :: _, hw, _, _, _, _ => by rw [wfC] at hw; exact hw.elim
  | .choice .. :: _, hw, _, _, _, _ => by rw [wfC] at hw; exact hw.elim
theorem lvl_D : ∀ (cases : List (SN τ)), wfC cases → (cnames cases).Nodup → (cases.map (·.name)).Nodup →
    ∀ (seen : List Tok) (act : Tok → Bool) (dc' : Tok), (∀ n ∈ cnames cases, n ∉ seen) →
    (∀ n ∈ cnames cases, act n = isActiveDefaultCase seen n (some dc') cases) →
    (caseKids cases).flatMap (gbody seen act) = defaultsOfCase dc' cases
  | [], _, _, _, _, _, _, _, _ => by simp [caseKids, defaultsOfCase]
  | .case a kids :: r, hw, hnd, hcn, seen, act, dc', hns, h => by
    rw [wfC] at hw; rw [cnames_case] at hnd h hns
    have hcn' := List.nodup_cons.mp (by simpa [SN.name] using hcn : (a :: r.map (·.name)).Nodup)
    rw [caseKids_case, List.flatMap_append, defaultsOfCase_case]
    by_cases hdc : a = dc'
    · rw [if_pos hdc]
      have h2 : (caseKids r).flatMap (gbody seen act) = [] := by
        apply flatMap_gbody_false
        intro x hx
        have hn := mem_cnames_of_mem_caseKids hx
        have hnk : x.name ∉ names kids := fun hk => nodup_disj hnd hk hn
        rw [h x.name (List.mem_append_right _ hn), iadc_case, lookup_none_of_notin (dataKids kids) x.name hnk]
        simp only [Option.isSome_none, Bool.false_eq_true, ↓reduceIte]
        apply iadc_some_false seen x.name dc' r hw.2
        intro c hc e
        exact hcn'.1 (hdc ▸ e ▸ List.mem_map_of_mem hc)
      rw [h2, List.append_nil]
      have h1 : (dataKids kids).flatMap (gbody seen act) = defaultsS seen kids := by
        apply lvl_S kids hw.1 (nodup_left hnd) seen act true (hasCfg seen (dataKids kids)) rfl
        intro n hn
        rw [h n (List.mem_append_left _ hn), iadc_case, lookup_isSome_of_mem (dataKids kids) n hn]
        simp [hdc]
      rw [h1]
      apply defaultsS_congr seen [] kids hw.1
      intro n hn
      constructor
      · intro hs; exact (hns n (List.mem_append_left _ hn) hs).elim
      · intro hs; cases hs
    · rw [if_neg hdc]
      have h1 : (dataKids kids).flatMap (gbody seen act) = [] := by
        apply flatMap_gbody_false
        intro x hx
        have hn := mem_names_of_mem_dataKids hx
        rw [h x.name (List.mem_append_left _ hn), iadc_case, lookup_isSome_of_mem (dataKids kids) x.name hn]
        simp
        intro e; exact (hdc e.symm).elim
      rw [h1, List.nil_append]
      apply lvl_D r hw.2 (nodup_right hnd) hcn'.2 seen act dc' (fun n hn => hns n (List.mem_append_right _ hn))
      intro n hn
      have hnk : n ∉ names kids := fun hk => nodup_disj hnd hk hn
      rw [h n (List.mem_append_right _ hn), iadc_case, lookup_none_of_notin (dataKids kids) n hnk]
      simp
  | .container .. :: _, hw, _, _, _, _, _, _, _ => by rw [wfC] at hw; exact hw.elim
  | .list .. :: _, hw, _, _, _, _, _, _, _ => by rw [wfC] at hw; exact hw.elim
  | .leaf .. :: _, hw, _, _, _, _, _, _, _ => by rw [wfC] at hw; exact hw.elim
  | .leafList .. :: _, hw, _, _, _, _, _, _, _ => by rw [wfC] at hw; exact hw.elim
  | .choice .. :: _, hw, _, _, _, _, _, _, _ => by rw [wfC] at hw; exact hw.elim
end

/-- **the defaults `yangDataChildren` adds are the defaults in use** -/
theorem addedDefaults_eq_spec (kids : List (SN τ)) (hw : wfL kids) (hnd : (names kids).Nodup) (seen : List Tok) :
    addedDefaults kids seen = defaultsS seen kids :=
  added_eq_of_lvl kids hw hnd (lvl_S kids hw hnd) seen

/-! ### the decorated view: model = specification, hence idempotent -/

theorem decorateEach_nil (top : List (SN τ)) : decorateEach top [] = [] := by rw [decorateEach]
theorem decorateEach_cons (top : List (SN τ)) (d : DN) (r : List DN) :
    decorateEach top (d :: r) =
      (match lookup d.name (dataKids top) with
       | some sn => decorateNode sn d
       | none => d) :: decorateEach top r := by
  conv => lhs; rw [decorateEach.eq_def]; simp only
  cases lookup d.name (dataKids top) <;> rfl
theorem decorateKids_eq (kids : List (SN τ)) (ds : List DN) :
    decorateKids kids ds = decorateEach kids ds ++ addedDefaults kids (ds.map (·.name)) := by rw [decorateKids]
theorem decorateNode_container (a : Tok) (pr : Bool) (kids : List (SN τ)) (n : Tok) (dk : List DN) (v : List Bytes) :
    decorateNode (.container a pr kids) (.mk n dk v) = .mk n (decorateKids kids dk) v := by rw [decorateNode]
theorem decorateNode_list (a : Tok) (ks : List Tok) (mn : Nat) (mx : Option Nat) (u : List (List (List Tok)))
    (kids : List (SN τ)) (n : Tok) (es : List DN) (v : List Bytes) :
    decorateNode (.list a ks mn mx u kids) (.mk n es v) = .mk n (decorateEntries kids es) v := by rw [decorateNode]
theorem decorateNode_leaf (a : Tok) (t : τ) (dv : Option Bytes) (m : Bool) (d : DN) :
    decorateNode (.leaf a t dv m) d = d := by cases d; simp [decorateNode]
theorem decorateNode_leafList (a : Tok) (t : τ) (mn : Nat) (mx : Option Nat) (d : DN) :
    decorateNode (.leafList a t mn mx) d = d := by cases d; simp [decorateNode]
theorem decorateNode_choice (a : Tok) (b : Bool) (c : Option Tok) (k : List (SN τ)) (d : DN) :
    decorateNode (.choice a b c k) d = d := by cases d; simp [decorateNode]
theorem decorateNode_case (a : Tok) (k : List (SN τ)) (d : DN) :
    decorateNode (.case a k) d = d := by cases d; simp [decorateNode]

theorem decoK_of (kids : List (SN τ)) (hw : wfL kids) (hnd : (names kids).Nodup) (ds : List DN)
    (hE : decorateEach kids ds = decorateEachS kids ds) : decorateKids kids ds = decorateKidsS kids ds := by
  rw [decorateKids_eq, decorateKidsS_eq, hE, addedDefaults_eq_spec kids hw hnd]

mutual
theorem decoE_eq (kids : List (SN τ)) (hw : wfL kids) : ∀ (ds : List DN), decorateEach kids ds = decorateEachS kids ds
  | [] => by rw [decorateEach_nil, decorateEachS_nil]
  | d :: r => by
    rw [decorateEach_cons, decorateEachS_cons, decoE_eq kids hw r]
    congr 1
    cases hl : lookup d.name (dataKids kids) with
    | none => rfl
    | some sn => exact decoN_eq sn (wfN_of_mem_dataKids kids hw sn (lookup_mem _ _ _ hl)) d
theorem decoN_eq : ∀ (sn : SN τ), wfN sn → ∀ (d : DN), decorateNode sn d = decorateNodeS sn d
  | .leaf .., _, d => by rw [decorateNode_leaf, decorateNodeS_leaf]
  | .leafList .., _, d => by rw [decorateNode_leafList, decorateNodeS_leafList]
  | .choice .., _, d => by rw [decorateNode_choice, decorateNodeS_choice]
  | .case .., _, d => by rw [decorateNode_case, decorateNodeS_case]
  | .container a pr kids, hw, .mk n dk v => by
    rw [wfN] at hw
    rw [decorateNode_container, decorateNodeS_container, decoK_of kids hw.1 hw.2 dk (decoE_eq kids hw.1 dk)]
  | .list a ks mn mx u kids, hw, .mk n es v => by
    rw [wfN] at hw
    rw [decorateNode_list, decorateNodeS_list, decoEn_eq kids hw.1 hw.2 es]
theorem decoEn_eq (kids : List (SN τ)) (hw : wfL kids) (hnd : (names kids).Nodup) : ∀ (es : List DN),
    decorateEntries kids es = decorateEntriesS kids es
  | [] => by rw [decorateEntries, decorateEntriesS]
  | .mk en ek v :: r => by
    rw [decorateEntries, decorateEntriesS, decoEn_eq kids hw hnd r, decoK_of kids hw hnd ek (decoE_eq kids hw ek)]
end

/-- **the decorated view of the model is the specification's**, for every well-formed schema and every data tree -/
theorem decorate_eq_spec (top : List (SN τ)) (hw : wfL top) (hnd : (names top).Nodup) (root : DN) :
    decorate top root = decorateS top root := by
  obtain ⟨n, dk, v⟩ := root
  simp only [decorate, decorateS]
  rw [decoK_of top hw hnd dk (decoE_eq top hw dk)]

/-- **decorating twice equals decorating once** -/
theorem decorate_idem (top : List (SN τ)) (hw : wfL top) (hnd : (names top).Nodup) (root : DN) :
    decorate top (decorate top root) = decorate top root := by
  rw [decorate_eq_spec top hw hnd root, decorate_eq_spec top hw hnd, decorateS_idem top hw hnd root]

end YV.DS
