/-
  Proofs.YDeco — the default decoration of the model (schema/default_decorator.go: `yangDataChildren`,
  `IsActiveDefault` / `isActiveDefaultCase` with their look-ups by name, `createDefault`) adds exactly the
  defaults the specification designates (Spec.YDataS.defaultsS: one recursion over the schema where choices and
  cases stand), on every well-formed schema; hence decorating twice equals decorating once (Proofs.YIdem).
-/
import YV.Proofs.YIdem
namespace YV.DS
open YV YV.Y YV.SC YV.D

variable {τ : Type}

/-! ### look-ups by name -/

theorem lookup_none_of_notin : ∀ (l : List (SN τ)) (n : Tok), n ∉ l.map (·.name) → lookup n l = none
  | [], _, _ => by simp [lookup]
  | x :: r, n, h => by
    simp only [List.map_cons, List.mem_cons, not_or] at h
    rw [lookup, if_neg (fun e => h.1 e.symm)]
    exact lookup_none_of_notin r n h.2

theorem lookup_isSome_of_mem : ∀ (l : List (SN τ)) (n : Tok), n ∈ l.map (·.name) → (lookup n l).isSome = true
  | [], _, h => by simp at h
  | x :: r, n, h => by
    rw [lookup]
    by_cases e : x.name = n
    · simp [e]
    · rw [if_neg e]
      simp only [List.map_cons, List.mem_cons] at h
      exact lookup_isSome_of_mem r n (h.resolve_left (fun e' => e e'.symm))

theorem inChoice_nil (n : Tok) : inChoice ([] : List (SN τ)) n = false := by simp [inChoice]
theorem inChoice_cons (x : SN τ) (r : List (SN τ)) (n : Tok) :
    inChoice (x :: r) n = ((match x with | .choice _ _ _ cases => (lookup n (caseKids cases)).isSome | _ => false) || inChoice r n) := by
  simp only [inChoice, List.any_cons]
  rfl

theorem inChoice_false_of_notin : ∀ (l : List (SN τ)) (n : Tok), n ∉ names l → inChoice l n = false
  | [], n, _ => inChoice_nil n
  | x :: r, n, h => by
    rw [inChoice_cons]
    cases x with
    | choice a b d cases =>
      rw [names_choice, List.mem_append, not_or] at h
      simp only [lookup_none_of_notin (caseKids cases) n h.1, Option.isSome_none, Bool.false_or]
      exact inChoice_false_of_notin r n h.2
    | leaf a t d m =>
      rw [names_leaf] at h; simp only [Bool.false_or]
      exact inChoice_false_of_notin r n (fun hh => h (List.mem_cons_of_mem _ hh))
    | leafList a t mn mx =>
      rw [names_leafList] at h; simp only [Bool.false_or]
      exact inChoice_false_of_notin r n (fun hh => h (List.mem_cons_of_mem _ hh))
    | container a p k =>
      rw [names_container] at h; simp only [Bool.false_or]
      exact inChoice_false_of_notin r n (fun hh => h (List.mem_cons_of_mem _ hh))
    | list a ks mn mx u k =>
      rw [names_list] at h; simp only [Bool.false_or]
      exact inChoice_false_of_notin r n (fun hh => h (List.mem_cons_of_mem _ hh))
    | case a k =>
      simp only [Bool.false_or]
      apply inChoice_false_of_notin r n
      intro hh; apply h
      simp only [names, dataKids, List.map_cons, List.mem_cons]
      right; exact hh

/-! ### `isActiveDefault`, unfolded -/

theorem iad_nil (seen : List Tok) (name : Tok) (dc sc : Bool) :
    isActiveDefault seen name dc sc ([] : List (SN τ)) = false := by rw [isActiveDefault]

theorem iad_choice (seen : List Tok) (name : Tok) (dc sc : Bool) (a : Tok) (b : Bool) (d : Option Tok) (cases r : List (SN τ)) :
    isActiveDefault seen name dc sc (.choice a b d cases :: r) =
      if (lookup name (caseKids cases)).isSome then
        if hasCfg seen (caseKids cases) then isActiveDefaultCase seen name none cases
        else match d with
          | some dc' => isActiveDefaultCase seen name (some dc') cases
          | none => isActiveDefault seen name dc sc r
      else isActiveDefault seen name dc sc r := by
  conv => lhs; rw [isActiveDefault.eq_def]
  rfl

theorem iad_leaf (seen : List Tok) (name : Tok) (dc sc : Bool) (n : Tok) (t : τ) (d : Option Bytes) (m : Bool) (r : List (SN τ)) :
    isActiveDefault seen name dc sc (.leaf n t d m :: r) =
      if n = name then (dc || sc || isActiveDefault seen name dc sc r) else isActiveDefault seen name dc sc r := by
  conv => lhs; rw [isActiveDefault.eq_def]
  rfl
theorem iad_leafList (seen : List Tok) (name : Tok) (dc sc : Bool) (n : Tok) (t : τ) (mn : Nat) (mx : Option Nat) (r : List (SN τ)) :
    isActiveDefault seen name dc sc (.leafList n t mn mx :: r) =
      if n = name then (dc || sc || isActiveDefault seen name dc sc r) else isActiveDefault seen name dc sc r := by
  conv => lhs; rw [isActiveDefault.eq_def]
  rfl
theorem iad_container (seen : List Tok) (name : Tok) (dc sc : Bool) (n : Tok) (p : Bool) (k r : List (SN τ)) :
    isActiveDefault seen name dc sc (.container n p k :: r) =
      if n = name then (dc || sc || isActiveDefault seen name dc sc r) else isActiveDefault seen name dc sc r := by
  conv => lhs; rw [isActiveDefault.eq_def]
  rfl
theorem iad_list (seen : List Tok) (name : Tok) (dc sc : Bool) (n : Tok) (ks : List Tok) (mn : Nat) (mx : Option Nat)
    (u : List (List (List Tok))) (k r : List (SN τ)) :
    isActiveDefault seen name dc sc (.list n ks mn mx u k :: r) =
      if n = name then (dc || sc || isActiveDefault seen name dc sc r) else isActiveDefault seen name dc sc r := by
  conv => lhs; rw [isActiveDefault.eq_def]
  rfl
theorem iad_case (seen : List Tok) (name : Tok) (dc sc : Bool) (n : Tok) (k r : List (SN τ)) :
    isActiveDefault seen name dc sc (.case n k :: r) =
      if n = name then (dc || sc || isActiveDefault seen name dc sc r) else isActiveDefault seen name dc sc r := by
  conv => lhs; rw [isActiveDefault.eq_def]
  rfl

theorem iadc_nil (seen : List Tok) (name : Tok) (dflt : Option Tok) :
    isActiveDefaultCase seen name dflt ([] : List (SN τ)) = false := by rw [isActiveDefaultCase]
theorem iadc_case (seen : List Tok) (name : Tok) (dflt : Option Tok) (cn : Tok) (kids r : List (SN τ)) :
    isActiveDefaultCase seen name dflt (.case cn kids :: r) =
      if (lookup name (dataKids kids)).isSome then
        (match dflt with
         | none => if !hasCfg seen (dataKids kids) then false else isActiveDefault seen name false (hasCfg seen (dataKids kids)) kids
         | some dc => if dc ≠ cn then false else isActiveDefault seen name true (hasCfg seen (dataKids kids)) kids)
      else isActiveDefaultCase seen name dflt r := by
  conv => lhs; rw [isActiveDefaultCase.eq_def]
  rfl

/-- a name that is not in the flattened map is not an active default of it -/
theorem iad_notin (seen : List Tok) (name : Tok) (dc sc : Bool) : ∀ (l : List (SN τ)), name ∉ names l →
    isActiveDefault seen name dc sc l = false
  | [], _ => iad_nil seen name dc sc
  | .choice a b d cases :: r, h => by
    rw [names_choice, List.mem_append, not_or] at h
    rw [iad_choice, lookup_none_of_notin (caseKids cases) name h.1]
    simp only [Option.isSome_none, Bool.false_eq_true, ↓reduceIte]
    exact iad_notin seen name dc sc r h.2
  | .leaf a t d m :: r, h => by
    rw [names_leaf] at h; simp only [List.mem_cons, not_or] at h
    rw [iad_leaf, if_neg (fun e => h.1 e.symm)]; exact iad_notin seen name dc sc r h.2
  | .leafList a t mn mx :: r, h => by
    rw [names_leafList] at h; simp only [List.mem_cons, not_or] at h
    rw [iad_leafList, if_neg (fun e => h.1 e.symm)]; exact iad_notin seen name dc sc r h.2
  | .container a p k :: r, h => by
    rw [names_container] at h; simp only [List.mem_cons, not_or] at h
    rw [iad_container, if_neg (fun e => h.1 e.symm)]; exact iad_notin seen name dc sc r h.2
  | .list a ks mn mx u k :: r, h => by
    rw [names_list] at h; simp only [List.mem_cons, not_or] at h
    rw [iad_list, if_neg (fun e => h.1 e.symm)]; exact iad_notin seen name dc sc r h.2
  | .case a k :: r, h => by
    have h' : name ≠ a ∧ name ∉ names r := by
      simp only [names, dataKids, List.map_cons, List.mem_cons, not_or, SN.name] at h ⊢
      exact h
    rw [iad_case, if_neg (fun e => h'.1 e.symm)]; exact iad_notin seen name dc sc r h'.2

end YV.DS
