/-
  Proofs.YCfg — shape of every compiled tree (config false and status are inherited downwards), which
  nodes are present, which features are in force.
-/
import YV.Spec.YCfgS
import YV.Proofs.YCompile
namespace YV.C
open YV YV.Y YV.SC YV.CS

mutual
/-- below a config false node everything is config false; status never gets better going down -/
def wellShaped (pc : Bool) (ps : Nat) : CN → Bool
  | .mk a kids => (!a.cfg || pc) && decide (ps ≤ a.st) && wellShapedKids a.cfg a.st kids
def wellShapedKids (pc : Bool) (ps : Nat) : List CN → Bool
  | [] => true
  | c :: r => wellShaped pc ps c && wellShapedKids pc ps r
end

theorem inherit_shape (m : Meta) (inh i : Inh) (h : inherit m inh = .ok i) :
    (!i.cfg || inh.cfg) = true ∧ inh.st ≤ i.st := by
  unfold inherit at h
  cases hs : getStatus m inh.st with
  | error e => simp [hs] at h
  | ok st =>
    simp only [hs, ebind_ok] at h
    cases hc : getConfig m inh.cfg with
    | error e => simp [hc] at h
    | ok cfg =>
      simp only [hc, ebind_ok, epure, Except.ok.injEq] at h
      subst h
      constructor
      · unfold getConfig at hc
        cases hm : m.cfg with
        | none => simp [hm] at hc; subst hc; cases inh.cfg <;> simp
        | some c =>
          simp only [hm] at hc
          by_cases hb : (!inh.cfg && c) = true
          · simp [hb] at hc
          · simp only [hb, Bool.false_eq_true, if_false, Except.ok.injEq] at hc; subst hc
            cases c <;> cases hi : inh.cfg <;> simp_all
      · unfold getStatus at hs
        cases hm : m.st with
        | none => simp [hm] at hs; subst hs; exact Nat.le_refl _
        | some s =>
          simp only [hm] at hs
          by_cases hb : s < inh.st
          · simp [hb] at hs
          · simp only [hb, if_false, Except.ok.injEq] at hs; simp only []; omega

section shape
variable (f : Attr → Bool) (env : FeatEnv)

mutual
theorem build_shape : ∀ (a : A) (inh : Inh) (c : CN), build f env inh a = .ok c → wellShaped inh.cfg inh.st c = true
  | .container n m pr kids, inh, c, h => by
    simp only [build] at h
    cases hi : inherit m inh with
    | error e => simp [hi] at h
    | ok i =>
      simp only [hi, ebind_ok] at h
      cases hk : buildKids f env i kids with
      | error e => simp [hk] at h
      | ok ks =>
        simp only [hk, ebind_ok] at h
        cases hn : checkNames (flatNames ks) with
        | error e => simp [hn] at h
        | ok u =>
          simp only [hn, ebind_ok, epure, Except.ok.injEq] at h
          subst h
          have := inherit_shape m inh i hi
          simp [wellShaped, this.1, this.2, buildKids_shape kids i ks hk]
  | .list n m keys mn mx kids, inh, c, h => by
    simp only [build] at h
    cases hi : inherit m inh with
    | error e => simp [hi] at h
    | ok i =>
      simp only [hi, ebind_ok] at h
      cases hk : buildKids f env i kids with
      | error e => simp [hk] at h
      | ok ks =>
        simp only [hk, ebind_ok] at h
        cases hn : checkNames (flatNames ks) with
        | error e => simp [hn] at h
        | ok u =>
          simp only [hn, ebind_ok, epure, Except.ok.injEq] at h
          subst h
          have := inherit_shape m inh i hi
          simp [wellShaped, this.1, this.2, buildKids_shape kids i ks hk]
  | .case n m kids, inh, c, h => by
    simp only [build] at h
    cases hi : inherit { m with cfg := none } inh with
    | error e => simp [hi] at h
    | ok i =>
      simp only [hi, ebind_ok] at h
      cases hk : buildKids f env i kids with
      | error e => simp [hk] at h
      | ok ks =>
        simp only [hk, ebind_ok] at h
        cases hn : checkNames (caseKidNames ks) with
        | error e => simp [hn] at h
        | ok u =>
          simp only [hn, ebind_ok, epure, Except.ok.injEq] at h
          subst h
          have := inherit_shape _ inh i hi
          simp [wellShaped, this.1, this.2, buildKids_shape kids i ks hk]
  | .leaf n m mand d, inh, c, h => by
    simp only [build] at h
    cases hi : inherit m inh with
    | error e => simp [hi] at h
    | ok i =>
      simp only [hi, ebind_ok] at h
      by_cases hmd : (mand && d.isSome) = true
      · simp [hmd] at h
      · simp only [hmd, Bool.false_eq_true, if_false, epure, Except.ok.injEq] at h
        subst h
        have := inherit_shape m inh i hi
        simp [wellShaped, wellShapedKids, this.1, this.2]
  | .leafList n m mn mx, inh, c, h => by
    simp only [build] at h
    cases hi : inherit m inh with
    | error e => simp [hi] at h
    | ok i =>
      simp only [hi, ebind_ok, epure, Except.ok.injEq] at h
      subst h
      have := inherit_shape m inh i hi
      simp [wellShaped, wellShapedKids, this.1, this.2]
  | .choice n m mand d cases, inh, c, h => by
    simp only [build] at h
    cases hi : inherit m inh with
    | error e => simp [hi] at h
    | ok i =>
      simp only [hi, ebind_ok] at h
      cases hk : buildKids f env i cases with
      | error e => simp [hk] at h
      | ok ks =>
        simp only [hk, ebind_ok] at h
        have hsh := inherit_shape m inh i hi
        have hks := buildKids_shape cases i ks hk
        by_cases hdm : (d.isSome && mand) = true
        · simp [hdm] at h
        · simp only [hdm, Bool.false_eq_true, if_false] at h
          cases hn : checkNames (flatCaseNames ks) with
          | error e => simp [hn] at h
          | ok u =>
            simp only [hn, ebind_ok] at h
            cases d with
            | none =>
              simp only [epure, Except.ok.injEq] at h; subst h
              simp [wellShaped, hsh.1, hsh.2, hks]
            | some dc =>
              simp only [] at h
              split at h
              · simp at h
              · simp only [epure, Except.ok.injEq] at h; subst h
                simp [wellShaped, hsh.1, hsh.2, hks]
theorem buildKids_shape : ∀ (l : List A) (inh : Inh) (cs : List CN),
    buildKids f env inh l = .ok cs → wellShapedKids inh.cfg inh.st cs = true
  | [], inh, cs, h => by simp only [buildKids, epure, Except.ok.injEq] at h; subst h; simp [wellShapedKids]
  | a :: r, inh, cs, h => by
    simp only [buildKids] at h
    cases hig : ignoredM env a.meta inh.st with
    | error e => simp [hig] at h
    | ok ig =>
      simp only [hig, ebind_ok] at h
      cases ig with
      | true => simp only [if_true] at h; exact buildKids_shape r inh cs h
      | false =>
        simp only [Bool.false_eq_true, if_false] at h
        cases hb : build f env inh a with
        | error e => simp [hb] at h
        | ok c =>
          simp only [hb, ebind_ok] at h
          cases hr : buildKids f env inh r with
          | error e => simp [hr] at h
          | ok rest =>
            simp only [hr, ebind_ok, epure, Except.ok.injEq] at h
            subst h
            have h1 := build_shape a inh c hb
            have h2 := buildKids_shape r inh rest hr
            by_cases hf : f c.attr = true
            · simp [hf, wellShapedKids, h1, h2]
            · simp [hf, h2]
end
end shape

/-! ### presence -/

theorem iffLoop_ok (env : FeatEnv) (m : Meta) (pst : Nat) : ∀ (fs : List Tok) (b : Bool),
    iffLoop env m pst fs = .ok b → b = fs.any fun f => !env.enabled.contains f
  | [], b, h => by simp [iffLoop] at h; simp [h]
  | f :: r, b, h => by
    simp only [iffLoop] at h
    cases hs : getStatus m pst with
    | error e => simp [hs] at h
    | ok nst =>
      simp only [hs, ebind_ok] at h
      cases hl : env.status.lookup f with
      | none => simp [hl] at h
      | some fst =>
        simp only [hl] at h
        split at h
        · simp at h
        · split at h
          · rename_i hen
            simp only [epure, Except.ok.injEq] at h; subst h
            simp only [List.any_cons]; simp at hen; simp [hen]
          · rename_i hen
            have := iffLoop_ok env m pst r b h
            simp only [List.any_cons, ← this]; simp at hen; simp [hen]

/-! ### features -/

theorem findDecl_some {decls : List FeatDecl} {k : Tok} {d : FeatDecl} (h : findDecl decls k = some d) :
    d.key = k ∧ findDecl decls d.key = some d := by
  unfold findDecl at h
  have hk : d.key = k := by simpa using List.find?_some h
  exact ⟨hk, by unfold findDecl; rw [hk]; exact h⟩

theorem all_and' {α} (p q : α → Bool) : ∀ l : List α, (l.all p && l.all q) = l.all fun x => p x && q x
  | [] => by simp
  | x :: r => by
    simp only [List.all_cons, ← all_and' p q r]
    cases p x <;> cases q x <;> cases r.all p <;> cases r.all q <;> rfl

theorem inForce_succ (decls : List FeatDecl) (raw : List Tok) (n : Nat) (d : FeatDecl)
    (hd : findDecl decls d.key = some d) :
    inForce decls raw (n + 1) d.key = (raw.contains d.key && d.deps.all fun x => inForce decls raw n x) := by
  simp only [inForce, reach, hd, List.all_append, List.all_flatMap]
  rw [all_and']

theorem featValid_loop (decls : List FeatDecl) (raw : List Tok) (fuel : Nat) (path : List Tok) (d : FeatDecl)
    (ih : ∀ (p : List Tok) (dd : FeatDecl) (b : Bool), findDecl decls dd.key = some dd →
      featValid decls raw fuel p dd = .ok b → b = inForce decls raw (fuel - 1) dd.key) :
    ∀ (deps : List Tok) (en b : Bool), featValid.loop decls raw fuel path d en deps = .ok b →
      b = (en && deps.all fun x => inForce decls raw (fuel - 1) x)
  | [], en, b, h => by simp [featValid.loop] at h; simp [h]
  | dep :: r, en, b, h => by
    simp only [featValid.loop] at h
    cases hf : findDecl decls dep with
    | none => simp [hf] at h
    | some dd =>
      simp only [hf] at h
      split at h
      · simp at h
      · cases hv : featValid decls raw fuel (d.key :: path) dd with
        | error e => simp [hv] at h
        | ok v =>
          simp only [hv, ebind_ok] at h
          have hdd := findDecl_some hf
          have hval := ih (d.key :: path) dd v hdd.2 hv
          have := featValid_loop decls raw fuel path d ih r (v && en) b h
          rw [this, hval, hdd.1]
          simp only [List.all_cons]
          cases inForce decls raw (fuel - 1) dep <;> cases en <;> simp

/-- **features.** When the verification of a feature succeeds, its verdict is: enabled itself, and every
    feature reachable through if-feature statements enabled -/
theorem featValid_inForce (decls : List FeatDecl) (raw : List Tok) : ∀ (fuel : Nat) (path : List Tok) (d : FeatDecl) (b : Bool),
    findDecl decls d.key = some d → featValid decls raw (fuel + 1) path d = .ok b → b = inForce decls raw fuel d.key
  | 0, path, d, b, hd, h => by
    simp only [featValid] at h
    split at h
    · simp at h
    · have := featValid_loop decls raw 0 path d (by intro p dd b _ hh; simp [featValid] at hh) d.deps (raw.contains d.key) b h
      rw [this]
      cases hdeps : d.deps with
      | nil => simp [inForce, reach]
      | cons x r =>
        -- with no fuel left a dependency cannot be verified: the loop fails, contradiction
        exfalso
        rw [hdeps] at h
        simp only [featValid.loop] at h
        cases hf : findDecl decls x with
        | none => simp [hf] at h
        | some dd =>
          simp only [hf] at h
          split at h
          · simp at h
          · simp [featValid] at h
  | fuel + 1, path, d, b, hd, h => by
    simp only [featValid] at h
    split at h
    · simp at h
    · have ih : ∀ (p : List Tok) (dd : FeatDecl) (b : Bool), findDecl decls dd.key = some dd →
          featValid decls raw (fuel + 1) p dd = .ok b → b = inForce decls raw (fuel + 1 - 1) dd.key := by
        intro p dd b hdd hh; simpa using featValid_inForce decls raw fuel p dd b hdd hh
      have := featValid_loop decls raw (fuel + 1) path d ih d.deps (raw.contains d.key) b h
      rw [this, inForce_succ decls raw fuel d hd]; simp

end YV.C
