/-
  Proofs.XText — from the text of an expression to its program: the lexer's read-back (XLexR) composed with the
  parser's precedence theorem (XPrec), through `build` = New…Machine of the model.
-/
import YV.Proofs.XLexR
import YV.Proofs.XPrec
namespace YV.XP
open YV YV.X YV.XL YV.XC

/-- a token an operand ends with -/
def endTok (p : Tok) : Prop :=
  (∃ x, p = .num x) ∨ (∃ l, p = .lit l) ∨ p = .ch (chr ')') ∨ (∃ q l, p = .nametest q l) ∨ p = .dotdot ∨ p = .ch (chr '.') ∨
    p = .ch (chr ']')

theorem canOp_end {p : Tok} (h : endTok p) : canBeOperator (some p) = true := by
  rcases h with ⟨x, rfl⟩ | ⟨l, rfl⟩ | rfl | ⟨q, l, rfl⟩ | rfl | rfl | rfl <;> simp [canBeOperator, chr]

theorem canOp_opTok (op : BinOp) : canBeOperator (some (opTok op)) = false := by
  cases op <;> simp [opTok, canBeOperator, chr]

theorem opTok_not_func (op : BinOp) (fn : Fn) : opTok op ≠ .func fn := by
  cases op <;> simp [opTok]

/-- a token that puts no condition on its neighbours -/
theorem ctx_plain (prev : Option Tok) (t : Tok) (r : List Tok) (h1 : needsOp t = false) (h2 : ∀ fn, t ≠ .func fn)
    (h3 : ∀ p l, t ≠ .nametest p l) (h4 : t ≠ .currentfunc) (h : ctxOK (some t) r) : ctxOK prev (t :: r) :=
  ⟨fun h' => (by rw [h1] at h'; cases h'), fun fn e => absurd e (h2 fn), fun p l e => absurd e (h3 p l),
    fun e => absurd e h4, h⟩

theorem ctx_ch (prev : Option Tok) (c : Char) (r : List Tok) (hc : chr c ≠ chr '*') (h : ctxOK (some (.ch (chr c))) r) :
    ctxOK prev (.ch (chr c) :: r) :=
  ctx_plain prev _ r (by simp [needsOp, hc]) (fun fn => by simp) (fun p l => by simp) (by simp) h

theorem ctx_func (prev : Option Tok) (fn : Fn) (r : List Tok) (hp : canBeOperator prev = false)
    (h : ctxOK (some (.ch (chr '('))) r) : ctxOK prev (.func fn :: .ch (chr '(') :: r) :=
  ⟨fun h' => (by simp [needsOp] at h'), fun _ _ => ⟨hp, rfl⟩, fun p l e => (by cases e), fun e => (by cases e),
    ctx_ch _ '(' r (by simp [chr]) h⟩

theorem ctx_name (prev : Option Tok) (p l : List Rune) (r : List Tok) (hp : canBeOperator prev = false)
    (hr : r.head? ≠ some (.ch (chr '('))) (h : ctxOK (some (.nametest p l)) r) : ctxOK prev (.nametest p l :: r) :=
  ⟨fun h' => (by simp [needsOp] at h'), fun fn e => (by cases e), fun _ _ _ => ⟨hp, hr⟩, fun e => (by cases e), h⟩

theorem ctx_cur (prev : Option Tok) (r : List Tok) (hp : canBeOperator prev = false)
    (h : ctxOK (some (.ch (chr '('))) r) : ctxOK prev (.currentfunc :: .ch (chr '(') :: r) :=
  ⟨fun h' => (by simp [needsOp] at h'), fun fn e => (by cases e), fun p l e => (by cases e), fun _ => ⟨hp, rfl⟩,
    ctx_ch _ '(' r (by simp [chr]) h⟩

theorem canOp_lparen : canBeOperator (some (.ch (chr '('))) = false := by simp [canBeOperator, chr]
theorem canOp_comma : canBeOperator (some (.ch (chr ','))) = false := by simp [canBeOperator, chr]
theorem canOp_minus : canBeOperator (some (.ch (chr '-'))) = false := by simp [canBeOperator, chr]
theorem canOp_slash : canBeOperator (some (.ch (chr '/'))) = false := by simp [canBeOperator, chr]
theorem canOp_bar : canBeOperator (some (.ch (chr '|'))) = false := by simp [canBeOperator, chr]

theorem canOp_lbracket : canBeOperator (some (.ch (chr '['))) = false := by simp [canBeOperator, chr]

theorem end_step (st : PStep) : endTok st.tok := by
  cases st with
  | name p l preds => exact Or.inr (Or.inr (Or.inr (Or.inl ⟨p, l, rfl⟩)))
  | up => exact Or.inr (Or.inr (Or.inr (Or.inr (Or.inl rfl))))
  | dot => exact Or.inr (Or.inr (Or.inr (Or.inr (Or.inr (Or.inl rfl)))))

theorem end_rbracket : endTok (.ch (chr ']')) := Or.inr (Or.inr (Or.inr (Or.inr (Or.inr (Or.inr rfl)))))

/-- the contents of a predicate satisfy the lexer's context conditions wherever an expression may start -/
def BlkCtx (b : Blk) : Prop :=
  ∀ (prev : Option Tok) (rest : List Tok), canBeOperator prev = false → (∀ p, endTok p → ctxOK (some p) rest) →
    rest.head? ≠ some (.ch (chr '(')) → ctxOK prev (b.toks ++ rest)

theorem sep_head (r : List PStep) (rest : List Tok) (h : rest.head? ≠ some (.ch (chr '('))) :
    (sepToks r ++ rest).head? ≠ some (.ch (chr '(')) := by
  cases r with
  | nil => simpa [sepToks] using h
  | cons a r => simp [sepToks, chr]

/-- predicates after a token an operand may end with -/
theorem ctx_preds (rest : List Tok) (hr : ∀ p, endTok p → ctxOK (some p) rest) (hh : rest.head? ≠ some (.ch (chr '('))) :
    ∀ (preds : List Blk) (p0 : Tok), endTok p0 → (∀ b ∈ preds, BlkCtx b) → ctxOK (some p0) (blkToks preds ++ rest) := by
  intro preds
  induction preds with
  | nil => intro p0 h0 _; exact hr p0 h0
  | cons b r ih =>
    intro p0 _ hall
    simp only [blkToks, List.cons_append, List.append_assoc]
    exact ctx_ch _ '[' _ (by simp [chr]) (hall b (by simp) _ _ canOp_lbracket
      (fun p _ => ctx_ch _ ']' _ (by simp [chr]) (ih _ end_rbracket fun x hx => hall x (by simp [hx]))) (by simp [chr]))

theorem preds_head (preds : List Blk) (r : List Tok) (h : r.head? ≠ some (.ch (chr '('))) :
    (blkToks preds ++ r).head? ≠ some (.ch (chr '(')) := by
  cases preds with
  | nil => simpa [blkToks] using h
  | cons b x => simp [blkToks, chr]

/-- one step (with its predicates) where no operator may stand -/
theorem ctx_step (prev : Option Tok) (st : PStep) (r : List Tok) (hp : canBeOperator prev = false)
    (hr : r.head? ≠ some (.ch (chr '('))) (hall : ∀ b ∈ st.preds, BlkCtx b) (h : ∀ p, endTok p → ctxOK (some p) r) :
    ctxOK prev (st.tok :: (st.rest ++ r)) := by
  cases st with
  | name p l preds =>
    exact ctx_name prev p l _ hp (preds_head preds r hr)
      (ctx_preds r h hr preds _ (Or.inr (Or.inr (Or.inr (Or.inl ⟨p, l, rfl⟩)))) hall)
  | up =>
    exact (ctx_plain prev .dotdot r (by simp [needsOp]) (fun fn => (by simp)) (fun p l => (by simp)) (by simp)
      (h _ (end_step .up)) : ctxOK prev (.dotdot :: r))
  | dot => exact (ctx_ch prev '.' r (by simp [chr]) (h _ (end_step .dot)) : ctxOK prev (.ch (chr '.') :: r))

/-- further steps, each after a `/` -/
theorem ctx_steps (rest : List Tok) (hr : ∀ p, endTok p → ctxOK (some p) rest) (hh : rest.head? ≠ some (.ch (chr '('))) :
    ∀ (steps : List PStep) (p0 : Tok), endTok p0 → (∀ st ∈ steps, ∀ b ∈ st.preds, BlkCtx b) →
      ctxOK (some p0) (sepToks steps ++ rest) := by
  intro steps
  induction steps with
  | nil => intro p0 h0 _; exact hr p0 h0
  | cons st r ih =>
    intro p0 _ hall
    simp only [sepToks, List.cons_append, List.append_assoc]
    exact ctx_ch _ '/' _ (by simp [chr]) (ctx_step _ st _ canOp_slash (sep_head r rest hh) (hall st (by simp))
      (fun p hp => ih p hp fun x hx => hall x (by simp [hx])))

/-- the predicates of a path can be written -/
def pathCtx : PRoot → List PStep → Prop
  | .rel f, steps => (∀ b ∈ f.preds, BlkCtx b) ∧ ∀ st ∈ steps, ∀ b ∈ st.preds, BlkCtx b
  | _, steps => ∀ st ∈ steps, ∀ b ∈ st.preds, BlkCtx b

/-- the expression can be written: no bare `/` among the operands (after it an operator name is taken for a name),
    and the contents of its predicates can be written -/
def PE.lexable : PE → Prop
  | .path root steps => ¬(root = .abs ∧ steps = []) ∧ pathCtx root steps
  | .num _ => True
  | .lit _ => True
  | .paren e => e.lexable
  | .neg e => e.lexable
  | .bin _ a b => a.lexable ∧ b.lexable
  | .union a b => a.lexable ∧ b.lexable
  | .call0 _ => True
  | .call1 _ a => a.lexable
  | .call2 _ a b => a.lexable ∧ b.lexable
  | .call3 _ a b c => a.lexable ∧ b.lexable ∧ c.lexable

theorem opTok_not_lparen (op : BinOp) : opTok op ≠ .ch (chr '(') := by
  cases op <;> simp [opTok, chr]

/-- the tokens of a written expression satisfy the lexer's context conditions wherever an expression may start -/
theorem ctx_toks (e : PE) : e.lexable → ∀ (prev : Option Tok) (rest : List Tok), canBeOperator prev = false →
    (∀ p, endTok p → ctxOK (some p) rest) → rest.head? ≠ some (.ch (chr '(')) → ctxOK prev (e.toks ++ rest) := by
  have close : ∀ rest : List Tok, (∀ p, endTok p → ctxOK (some p) rest) →
      ∀ p, endTok p → ctxOK (some p) (.ch (chr ')') :: rest) :=
    fun rest hr p _ => ctx_ch _ ')' rest (by simp [chr]) (hr _ (Or.inr (Or.inr (Or.inl rfl))))
  have hrp : ∀ rest : List Tok, (Tok.ch (chr ')') :: rest).head? ≠ some (.ch (chr '(')) := fun _ => by simp [chr]
  have hcm : ∀ rest : List Tok, (Tok.ch (chr ',') :: rest).head? ≠ some (.ch (chr '(')) := fun _ => by simp [chr]
  induction e with
  | path root steps =>
    intro hl prev rest hp hr hh
    obtain ⟨hl1, hl2⟩ := hl
    cases root with
    | abs =>
      cases steps with
      | nil => exact absurd ⟨rfl, rfl⟩ hl1
      | cons st r =>
        simp only [PE.toks, pathToks, sepToks, List.cons_append, List.append_assoc]
        exact ctx_ch _ '/' _ (by simp [chr]) (ctx_step _ st _ canOp_slash (sep_head r rest hh) (hl2 st (by simp))
          (fun p hpe => ctx_steps rest hr hh r p hpe fun x hx => hl2 x (by simp [hx])))
    | rel f =>
      simp only [PE.toks, pathToks, List.cons_append, List.append_assoc]
      exact ctx_step prev f _ hp (sep_head steps rest hh) hl2.1 (fun p hpe => ctx_steps rest hr hh steps p hpe hl2.2)
    | cur =>
      simp only [PE.toks, pathToks, List.cons_append]
      exact ctx_cur prev _ hp (ctx_ch _ ')' _ (by simp [chr])
        (ctx_steps rest hr hh steps _ (Or.inr (Or.inr (Or.inl rfl))) hl2))
  | num x =>
    intro _ prev rest _ hr _
    exact ctx_plain prev _ rest (by simp [needsOp]) (fun fn => by simp) (fun p l => by simp) (by simp)
      (hr _ (Or.inl ⟨x, rfl⟩))
  | lit l =>
    intro _ prev rest _ hr _
    exact ctx_plain prev _ rest (by simp [needsOp]) (fun fn => by simp) (fun p l => by simp) (by simp)
      (hr _ (Or.inr (Or.inl ⟨l, rfl⟩)))
  | paren e ih =>
    intro hn prev rest _ hr _
    simp only [PE.toks, List.cons_append, List.append_assoc]
    exact ctx_ch prev '(' _ (by simp [chr]) (ih hn _ _ canOp_lparen (close rest hr) (hrp rest))
  | neg e ih =>
    intro hn prev rest _ hr hh
    simp only [PE.toks, List.cons_append]
    exact ctx_ch prev '-' _ (by simp [chr]) (ih hn _ _ canOp_minus hr hh)
  | bin op a b iha ihb =>
    intro hn prev rest hp hr hh
    simp only [PE.toks, List.append_assoc, List.cons_append]
    exact iha hn.1 prev _ hp (fun p hpe =>
      ⟨fun _ => canOp_end hpe, fun fn e => absurd e (opTok_not_func op fn),
        fun p l e => (by cases op <;> cases e), fun e => (by cases op <;> cases e),
        ihb hn.2 _ rest (canOp_opTok op) hr hh⟩) (by simp [opTok_not_lparen op])
  | union a b iha ihb =>
    intro hn prev rest hp hr hh
    simp only [PE.toks, List.append_assoc, List.cons_append]
    exact iha hn.1 prev _ hp (fun p _ => ctx_ch (some p) '|' _ (by simp [chr]) (ihb hn.2 _ rest canOp_bar hr hh))
      (by simp [chr])
  | call0 fn =>
    intro _ prev rest hp hr _
    exact ctx_func prev fn _ hp (ctx_ch _ ')' rest (by simp [chr]) (hr _ (Or.inr (Or.inr (Or.inl rfl)))))
  | call1 fn a iha =>
    intro hn prev rest hp hr _
    simp only [PE.toks, List.cons_append, List.append_assoc]
    exact ctx_func prev fn _ hp (iha hn _ _ canOp_lparen (close rest hr) (hrp rest))
  | call2 fn a b iha ihb =>
    intro hn prev rest hp hr _
    simp only [PE.toks, List.cons_append, List.append_assoc]
    exact ctx_func prev fn _ hp (iha hn.1 _ _ canOp_lparen (fun p _ =>
      ctx_ch _ ',' _ (by simp [chr]) (ihb hn.2 _ _ canOp_comma (close rest hr) (hrp rest))) (hcm _))
  | call3 fn a b c iha ihb ihc =>
    intro hn prev rest hp hr _
    simp only [PE.toks, List.cons_append, List.append_assoc]
    exact ctx_func prev fn _ hp (iha hn.1 _ _ canOp_lparen (fun p _ =>
      ctx_ch _ ',' _ (by simp [chr]) (ihb hn.2.1 _ _ canOp_comma (fun p _ =>
        ctx_ch _ ',' _ (by simp [chr]) (ihc hn.2.2 _ _ canOp_comma (close rest hr) (hrp rest))) (hcm _))) (hcm _))

/-- every written expression can stand in a predicate -/
theorem ctx_of (e : PE) (hl : e.lexable) : BlkCtx ⟨e.toks, e.code⟩ :=
  fun prev rest hp hr hh => ctx_toks e hl prev rest hp hr hh

theorem writes_length {tok : Tok} {text : List Rune} (h : Writes tok text) : 1 ≤ text.length := by
  obtain ⟨c, body, e, _⟩ := writes_head h
  rw [e]; simp

theorem pfxOk_nil (pm : PfxMap) : pfxOk pm [] = true := by cases pm <;> simp [pfxOk]

theorem renderX_length (items : List Item) (hok : ∀ i ∈ items, i.ok) : items.length ≤ (renderX items).length := by
  induction items with
  | nil => simp
  | cons i r ih =>
    have h1 := writes_length (hok i (by simp)).1
    have h2 := ih fun j hj => hok j (by simp [hj])
    simp [renderX]; omega

/-- **text → program.**  An expression written as tokens with any white space after each — none at all where the
    next token cannot be taken for a continuation (`glued`) — after any leading white space: `build` returns the
    machine whose program is the postfix code of the expression's tree. -/
theorem text_to_program (e : PE) (hf : e.fits 0) (hn : e.lexable) (items : List Item) (hi : items.map (·.tok) = e.toks)
    (hok : ∀ i ∈ items, i.ok) (hgl : glued items) (lead : List Rune) (hl : ∀ x ∈ lead, isWS x = true) (pm : PfxMap)
    (hpf : ∀ i ∈ items, ∀ p l, i.tok = .nametest p l → pfxOk pm p = true)
    (fixed : Bool) (bs : List Nat) (hbs : (decode bs).map (·.cp) = lead ++ renderX items) :
    build false fixed .expr pm bs = .machine (e.tree.code ++ [.store]) := by
  have hne : bs.isEmpty = false := by
    cases bs with
    | nil =>
      obtain ⟨t, r, ht, _⟩ := toks_start e
      rw [ht] at hi
      cases items with
      | nil => simp at hi
      | cons i r' =>
        have := writes_length (hok i (by simp)).1
        have h2 := congrArg List.length hbs
        simp [decode, decodeAux, renderX] at h2
        omega
    | cons b r => rfl
  have hlen : items.length < (decode bs).length + 2 := by
    have h1 := renderX_length items hok
    have h2 := congrArg List.length hbs
    simp at h2
    omega
  have hctx : ctxOK none (items.map (·.tok)) := by
    rw [hi]
    have := ctx_toks e hn none [] (by simp [canBeOperator]) (fun _ _ => trivial) (by simp)
    simpa using this
  have hlex := lex_items false pm items ((decode bs).length + 2) { line := decode bs } lead hlen hl
    (by simpa [strm] using hbs) rfl hok hgl hctx hpf
  rw [hi] at hlex
  obtain ⟨s', p1, p2, p3⟩ := parseExprToks_spec e hf _ hlex
  unfold build
  simp only [hne, Bool.false_eq_true, ↓reduceIte, lexAll]
  simp only [p1, p3, p2]

/-- bytes below 0x80 are their own runes -/
theorem decodeAux_ascii : ∀ (bs : List Nat) (f : Nat), bs.length ≤ f → (∀ b ∈ bs, b < 128) →
    decodeAux f bs = bs.map fun b => ⟨b, 1⟩ := by
  intro bs
  induction bs with
  | nil => intro f _ _; cases f <;> simp [decodeAux, decodeOne]
  | cons b r ih =>
    intro f hf hb
    cases f with
    | zero => simp at hf
    | succ f =>
      have hb0 : b < 128 := hb b (by simp)
      simp only [decodeAux, decodeOne, show b < 0x80 from hb0, ↓reduceIte, List.map_cons]
      rw [ih f (by simp at hf; omega) (fun x hx => hb x (by simp [hx]))]

theorem decode_ascii (bs : List Nat) (h : ∀ b ∈ bs, b < 128) : (decode bs).map (·.cp) = bs := by
  unfold decode
  rw [decodeAux_ascii bs bs.length (Nat.le_refl _) h]
  simp [Function.comp_def]

end YV.XP
