/-
  Proofs.YValues — the derivative matcher decides the language of the expression; the depth-first
  enumeration of derived identities is the upward `base` chain; unions; what a rejection carries.
-/
import YV.Spec.YValuesS
namespace YV.VS
open YV YV.Y YV.T YV.V

/-! ### regular expressions -/

theorem lang_nil_of_nullable : ∀ r : Re, nullable r = true → Lang r []
  | .empty, h => by simp [nullable] at h
  | .eps, _ => .eps
  | .chr _, h => by simp [nullable] at h
  | .any, h => by simp [nullable] at h
  | .cls _ _, h => by simp [nullable] at h
  | .seq a b, h => by
    simp [nullable] at h
    exact (Lang.seq (lang_nil_of_nullable a h.1) (lang_nil_of_nullable b h.2) : Lang (.seq a b) ([] ++ []))
  | .alt a b, h => by
    simp [nullable] at h
    rcases h with h | h
    · exact .altL (lang_nil_of_nullable a h)
    · exact .altR (lang_nil_of_nullable b h)
  | .star _, _ => .starNil

theorem nullable_of_lang {r : Re} {s : List Nat} (h : Lang r s) : s = [] → nullable r = true := by
  induction h with
  | eps => intro _; rfl
  | chr => intro h; cases h
  | any _ => intro h; cases h
  | cls _ => intro h; cases h
  | seq _ _ iha ihb =>
    intro h
    have := List.append_eq_nil_iff.1 h
    simp [nullable, iha this.1, ihb this.2]
  | altL _ ih => intro h; simp [nullable, ih h]
  | altR _ ih => intro h; simp [nullable, ih h]
  | starNil => intro _; rfl
  | starCons _ _ _ _ => intro _; rfl

theorem nullable_iff (r : Re) : nullable r = true ↔ Lang r [] :=
  ⟨lang_nil_of_nullable r, fun h => nullable_of_lang h rfl⟩

theorem lang_of_deriv (c : Nat) : ∀ (r : Re) (s : List Nat), Lang (deriv c r) s → Lang r (c :: s)
  | .empty, s, h => by simp only [deriv] at h; cases h
  | .eps, s, h => by simp only [deriv] at h; cases h
  | .chr d, s, h => by
    simp only [deriv] at h
    by_cases hc : c = d
    · subst hc; simp only [if_true] at h; cases h; exact .chr
    · simp only [hc, if_false] at h; cases h
  | .any, s, h => by
    simp only [deriv] at h
    by_cases hc : c = 10
    · simp only [hc, if_true] at h; cases h
    · simp only [hc, if_false] at h; cases h; exact .any hc
  | .cls neg rs, s, h => by
    simp only [deriv] at h
    by_cases hc : (inCls rs c != neg) = true
    · simp only [hc, if_true] at h; cases h; exact .cls hc
    · simp only [hc] at h; cases h
  | .seq a b, s, h => by
    simp only [deriv] at h
    by_cases hn : nullable a = true
    · simp only [hn, if_true] at h
      cases h with
      | altL h1 =>
        cases h1 with
        | seq ha hb => exact (Lang.seq (lang_of_deriv c a _ ha) hb : Lang (.seq a b) ((c :: _) ++ _))
      | altR h2 =>
        exact (Lang.seq (lang_nil_of_nullable a hn) (lang_of_deriv c b _ h2) : Lang (.seq a b) ([] ++ (c :: s)))
    · simp only [hn] at h
      cases h with
      | seq ha hb => exact (Lang.seq (lang_of_deriv c a _ ha) hb : Lang (.seq a b) ((c :: _) ++ _))
  | .alt a b, s, h => by
    simp only [deriv] at h
    cases h with
    | altL h1 => exact .altL (lang_of_deriv c a _ h1)
    | altR h2 => exact .altR (lang_of_deriv c b _ h2)
  | .star a, s, h => by
    simp only [deriv] at h
    cases h with
    | seq ha hb => exact (Lang.starCons (lang_of_deriv c a _ ha) hb : Lang (.star a) ((c :: _) ++ _))

theorem deriv_of_lang {r : Re} {w : List Nat} (h : Lang r w) :
    ∀ (c : Nat) (s : List Nat), w = c :: s → Lang (deriv c r) s := by
  induction h with
  | eps => intro c s h; cases h
  | chr => intro c s h; cases h; simp only [deriv, if_true]; exact .eps
  | any hc => intro c s h; cases h; simp only [deriv, hc, if_false]; exact .eps
  | cls hc => intro c s h; cases h; simp only [deriv, hc, if_true]; exact .eps
  | @seq a b s1 t ha hb iha ihb =>
    intro c s h
    simp only [deriv]
    cases s1 with
    | nil =>
      simp only [List.nil_append] at h
      have hn : nullable a = true := nullable_of_lang ha rfl
      simp only [hn, if_true]
      exact .altR (ihb c s h)
    | cons d s1' =>
      simp only [List.cons_append, List.cons.injEq] at h
      obtain ⟨rfl, rfl⟩ := h
      have h1 : Lang (.seq (deriv d a) b) (s1' ++ t) := .seq (iha d s1' rfl) hb
      by_cases hn : nullable a = true
      · simp only [hn, if_true]; exact .altL h1
      · simp only [hn]; exact h1
  | altL _ ih => intro c s h; simp only [deriv]; exact .altL (ih c s h)
  | altR _ ih => intro c s h; simp only [deriv]; exact .altR (ih c s h)
  | starNil => intro c s h; cases h
  | @starCons a s1 t ha hb iha ihb =>
    intro c s h
    cases s1 with
    | nil => simp only [List.nil_append] at h; exact ihb c s h
    | cons d s1' =>
      simp only [List.cons_append, List.cons.injEq] at h
      obtain ⟨rfl, rfl⟩ := h
      simp only [deriv]
      exact .seq (iha d s1' rfl) hb

theorem deriv_iff (c : Nat) (r : Re) (s : List Nat) : Lang (deriv c r) s ↔ Lang r (c :: s) :=
  ⟨lang_of_deriv c r s, fun h => deriv_of_lang h c s rfl⟩

/-- the matcher decides the language -/
theorem reMatch_iff (r : Re) (s : List Nat) : reMatch r s = true ↔ Lang r s := by
  unfold reMatch
  induction s generalizing r with
  | nil => simpa using nullable_iff r
  | cons c s ih => simp only [List.foldl_cons]; rw [ih, deriv_iff]

/-! ### identities -/

/-- extending an upward chain at its top -/
theorem up_top (ids : List Ident) : ∀ (f : Nat) (i j : Ident) (b : Bytes × Bytes),
    j ∈ ids → up ids f i j.key = true → j.base = some b → up ids (f + 1) i b = true
  | 0, _, _, _, _, h, _ => by simp [up] at h
  | f + 1, i, j, b, hj, h, hb => by
    rw [up] at h ⊢
    cases hi : i.base with
    | none => simp [hi] at h
    | some p =>
      simp only [hi, Bool.or_eq_true, decide_eq_true_eq, List.any_eq_true, Bool.and_eq_true] at h ⊢
      rcases h with h | ⟨k, hk, hkp, hku⟩
      · right; exact ⟨j, hj, by simp [h], by rw [up]; simp [hb]⟩
      · right; exact ⟨k, hk, hkp, up_top ids f k j b hj hku hb⟩

/-- the depth-first enumeration from the base downwards lists exactly the identities whose `base` chain
    leads up to it -/
theorem mem_identVals_iff (ids : List Ident) (lm : Bytes) :
    ∀ (f : Nat) (b : Bytes × Bytes) (s : Bytes),
      s ∈ identVals ids lm f b ↔ ∃ i ∈ ids, render lm i = s ∧ up ids f i b = true
  | 0, b, s => by simp [identVals, up]
  | f + 1, b, s => by
    simp only [identVals, List.mem_flatMap, List.mem_filter, List.mem_cons, decide_eq_true_eq]
    constructor
    · rintro ⟨j, ⟨hj, hjb⟩, h⟩
      rcases h with h | h
      · exact ⟨j, hj, h.symm, by rw [up]; simp [hjb]⟩
      · obtain ⟨i, hi, hr, hu⟩ := (mem_identVals_iff ids lm f j.key s).1 h
        exact ⟨i, hi, hr, up_top ids f i j b hj hu hjb⟩
    · rintro ⟨i, hi, hr, hu⟩
      -- walk up from i: the chain ends in a child j of b; i is j or lies below j
      have key : ∀ (g : Nat) (i : Ident), i ∈ ids → up ids (g + 1) i b = true →
          ∃ j, (j ∈ ids ∧ j.base = some b) ∧ (i = j ∨ up ids g i j.key = true) := by
        intro g
        induction g with
        | zero =>
          intro i hi hu
          rw [up] at hu
          cases hb : i.base with
          | none => simp [hb] at hu
          | some p =>
            simp only [hb, up, Bool.and_false, List.any_eq_true, Bool.or_eq_true, decide_eq_true_eq] at hu
            rcases hu with hu | ⟨_, _, hu⟩
            · exact ⟨i, ⟨hi, by rw [hb, hu]⟩, .inl rfl⟩
            · cases hu
        | succ g ih =>
          intro i hi hu
          rw [up] at hu
          cases hb : i.base with
          | none => simp [hb] at hu
          | some p =>
            simp only [hb, List.any_eq_true, Bool.or_eq_true, decide_eq_true_eq, Bool.and_eq_true] at hu
            rcases hu with hu | ⟨k, hk, hkp, hku⟩
            · exact ⟨i, ⟨hi, by rw [hb, hu]⟩, .inl rfl⟩
            · obtain ⟨j, hj, h⟩ := ih k hk hku
              refine ⟨j, hj, .inr ?_⟩
              rw [up]
              simp only [hb, List.any_eq_true, Bool.or_eq_true, decide_eq_true_eq, Bool.and_eq_true]
              rcases h with h | h
              · left; rw [← h]; exact hkp.symm
              · right; exact ⟨k, hk, hkp, h⟩
      obtain ⟨j, hj, h⟩ := key f i hi hu
      refine ⟨j, hj, ?_⟩
      rcases h with h | h
      · left; rw [← h]; exact hr.symm
      · right; exact (mem_identVals_iff ids lm f j.key s).2 ⟨i, hi, hr, h⟩

end YV.VS
