/-
  Proofs.XKeys — keys of a step form a map kept sorted by key name, so the order in which the
  predicates of a step are written does not matter (property C02, "regardless of predicate order").
-/
import YV.Model.XPathM
namespace YV.XM
open YV YV.X

theorem strLt_irrefl (a : Str) : strLt a a = false := by
  induction a with
  | nil => rfl
  | cons c cs ih => simp [strLt, ih]

theorem strLt_trans (a b c : Str) (h1 : strLt a b = true) (h2 : strLt b c = true) : strLt a c = true := by
  induction a generalizing b c with
  | nil =>
    cases b with
    | nil => simp [strLt] at h1
    | cons y ys => cases c with
      | nil => simp [strLt] at h2
      | cons z zs => simp [strLt]
  | cons x xs ih =>
    cases b with
    | nil => simp [strLt] at h1
    | cons y ys =>
      cases c with
      | nil => simp [strLt] at h2
      | cons z zs =>
        simp only [strLt, Bool.or_eq_true, decide_eq_true_eq, Bool.and_eq_true, beq_iff_eq] at *
        rcases h1 with h1 | ⟨e1, h1⟩ <;> rcases h2 with h2 | ⟨e2, h2⟩
        · left; omega
        · left; subst e2; exact h1
        · left; subst e1; exact h2
        · right; exact ⟨e1.trans e2, ih ys zs h1 h2⟩

theorem strLt_total (a b : Str) (h : a ≠ b) : strLt a b = true ∨ strLt b a = true := by
  induction a generalizing b with
  | nil => cases b with
    | nil => exact absurd rfl h
    | cons y ys => left; rfl
  | cons x xs ih =>
    cases b with
    | nil => right; rfl
    | cons y ys =>
      simp only [strLt, Bool.or_eq_true, decide_eq_true_eq, Bool.and_eq_true, beq_iff_eq]
      by_cases hxy : x = y
      · subst hxy
        have : xs ≠ ys := fun e => h (by rw [e])
        rcases ih ys this with h' | h'
        · left; right; exact ⟨rfl, h'⟩
        · right; right; exact ⟨rfl, h'⟩
      · have : x.toNat ≠ y.toNat := fun e => hxy (Char.toNat_inj.mp e)
        rcases Nat.lt_or_gt_of_ne this with h' | h'
        · left; left; exact h'
        · right; left; exact h'

theorem strLt_asymm (a b : Str) (h : strLt a b = true) : strLt b a = false := by
  cases hb : strLt b a with
  | false => rfl
  | true => have := strLt_trans a b a h hb; rw [strLt_irrefl] at this; cases this

/-- keys strictly increasing -/
def SortedKeys : List (Str × Str) → Prop
  | [] => True
  | [_] => True
  | a :: b :: r => strLt a.1 b.1 = true ∧ SortedKeys (b :: r)

theorem sorted_tail {a : Str × Str} {l : List (Str × Str)} (h : SortedKeys (a :: l)) : SortedKeys l := by
  cases l with
  | nil => trivial
  | cons b r => exact h.2

theorem sorted_head_lt {a : Str × Str} {l : List (Str × Str)} (h : SortedKeys (a :: l)) :
    ∀ x ∈ l, strLt a.1 x.1 = true := by
  induction l generalizing a with
  | nil => intro x hx; cases hx
  | cons b r ih =>
    intro x hx
    cases hx with
    | head => exact h.1
    | tail _ hx => exact strLt_trans _ _ _ h.1 (ih h.2 x hx)

/-- a sorted key list is determined by what it maps each key to -/
def lookupKey (k : Str) : List (Str × Str) → Option Str
  | [] => none
  | (k', v) :: r => if k = k' then some v else lookupKey k r

theorem lookup_none_of_lt {k : Str} {l : List (Str × Str)} (h : ∀ x ∈ l, strLt k x.1 = true) : lookupKey k l = none := by
  induction l with
  | nil => rfl
  | cons a r ih =>
    obtain ⟨k', v⟩ := a
    have hk : strLt k k' = true := h (k', v) (by simp)
    have : k ≠ k' := fun e => by rw [e, strLt_irrefl] at hk; cases hk
    simp [lookupKey, this, ih (fun x hx => h x (by simp [hx]))]

theorem sorted_ext (l l' : List (Str × Str)) (hs : SortedKeys l) (hs' : SortedKeys l')
    (h : ∀ k, lookupKey k l = lookupKey k l') : l = l' := by
  induction l generalizing l' with
  | nil =>
    cases l' with
    | nil => rfl
    | cons b r => obtain ⟨k, v⟩ := b; have := h k; simp [lookupKey] at this
  | cons a r ih =>
    obtain ⟨k, v⟩ := a
    cases l' with
    | nil => have := h k; simp [lookupKey] at this
    | cons b r' =>
      obtain ⟨k', v'⟩ := b
      have hlt := sorted_head_lt hs
      have hlt' := sorted_head_lt hs'
      have hkk : k = k' := by
        by_cases e : k = k'
        · exact e
        · rcases strLt_total k k' e with c | c
          · -- k < k': k is below every key of l', so l' does not map it, but l does
            have h1 := h k
            have : lookupKey k ((k', v') :: r') = none :=
              lookup_none_of_lt (fun x hx => by
                cases hx with
                | head => exact c
                | tail _ hx => exact strLt_trans _ _ _ c (hlt' x hx))
            rw [this] at h1
            simp [lookupKey] at h1
          · have h1 := h k'
            have : lookupKey k' ((k, v) :: r) = none :=
              lookup_none_of_lt (fun x hx => by
                cases hx with
                | head => exact c
                | tail _ hx => exact strLt_trans _ _ _ c (hlt x hx))
            rw [this] at h1
            simp [lookupKey] at h1
      subst hkk
      have hv : v = v' := by have := h k; simpa [lookupKey] using this
      subst hv
      congr 1
      apply ih r' (sorted_tail hs) (sorted_tail hs')
      intro q
      have hq := h q
      by_cases e : q = k
      · subst e
        rw [lookup_none_of_lt hlt, lookup_none_of_lt hlt']
      · simpa [lookupKey, e] using hq

theorem lookup_insertKey (k v q : Str) (l : List (Str × Str)) (hs : SortedKeys l) :
    lookupKey q (insertKey k v l) = if q = k then some v else lookupKey q l := by
  induction l with
  | nil => simp [insertKey, lookupKey]
  | cons a r ih =>
    obtain ⟨k', v'⟩ := a
    simp only [insertKey]
    by_cases e : k = k'
    · subst e; simp only [↓reduceIte, lookupKey]; split <;> simp_all
    · simp only [e, ↓reduceIte]
      by_cases c : strLt k k' = true
      · simp only [c, ↓reduceIte, lookupKey]
      · simp only [c, Bool.false_eq_true, ↓reduceIte, lookupKey, ih (sorted_tail hs)]
        by_cases e2 : q = k'
        · subst e2
          have : q ≠ k := fun x => e x.symm
          simp [this]
        · simp [e2]

theorem sorted_insertKey (k v : Str) (l : List (Str × Str)) (hs : SortedKeys l) : SortedKeys (insertKey k v l) := by
  induction l with
  | nil => simp [insertKey, SortedKeys]
  | cons a r ih =>
    obtain ⟨k', v'⟩ := a
    simp only [insertKey]
    by_cases e : k = k'
    · subst e
      simp only [↓reduceIte]
      cases r with
      | nil => trivial
      | cons b r => exact hs
    · simp only [e, ↓reduceIte]
      by_cases c : strLt k k' = true
      · simp only [c, ↓reduceIte]; exact ⟨c, hs⟩
      · simp only [c, Bool.false_eq_true, ↓reduceIte]
        have hk'k : strLt k' k = true := by
          rcases strLt_total k k' e with h | h
          · exact absurd h c
          · exact h
        have ih' := ih (sorted_tail hs)
        -- the head k' stays below everything in insertKey k v r
        cases r with
        | nil => simp [insertKey, SortedKeys, hk'k]
        | cons b r =>
          obtain ⟨kb, vb⟩ := b
          simp only [insertKey] at ih' ⊢
          by_cases e3 : k = kb
          · subst e3; simp only [↓reduceIte] at ih' ⊢; exact ⟨hk'k, ih'⟩
          · simp only [e3, ↓reduceIte] at ih' ⊢
            by_cases c3 : strLt k kb = true
            · simp only [c3, ↓reduceIte] at ih' ⊢; exact ⟨hk'k, ih'⟩
            · simp only [c3, Bool.false_eq_true, ↓reduceIte] at ih' ⊢; exact ⟨hs.1, ih'⟩

def keysOf (ks : List (Str × Str)) : List (Str × Str) :=
  ks.foldl (fun acc kv => insertKey kv.1 kv.2 acc) []

theorem foldl_sorted (ks acc : List (Str × Str)) (h : SortedKeys acc) :
    SortedKeys (ks.foldl (fun acc kv => insertKey kv.1 kv.2 acc) acc) := by
  induction ks generalizing acc with
  | nil => exact h
  | cons a r ih => exact ih _ (sorted_insertKey _ _ _ h)

/-- what the folded key map gives for `q`: the value of the *last* pair with key `q` (else the old one) -/
theorem lookup_foldl (ks acc : List (Str × Str)) (h : SortedKeys acc) (q : Str) :
    lookupKey q (ks.foldl (fun acc kv => insertKey kv.1 kv.2 acc) acc) =
      match (ks.reverse.find? (fun kv => kv.1 == q)) with
      | some kv => some kv.2
      | none => lookupKey q acc := by
  induction ks generalizing acc with
  | nil => simp
  | cons a r ih =>
    simp only [List.foldl_cons, List.reverse_cons]
    rw [ih _ (sorted_insertKey _ _ _ h), List.find?_append]
    cases hf : r.reverse.find? (fun kv => kv.1 == q) with
    | some kv => simp
    | none =>
      simp only [Option.none_or, List.find?_cons, List.find?_nil]
      rw [lookup_insertKey _ _ _ _ h]
      by_cases e : a.1 = q
      · simp [e]
      · have h1 : ¬ q = a.1 := fun x => e x.symm
        have h2 : (a.1 == q) = false := by simp [e]
        simp [h1, h2]

/-- **Predicate order does not matter**: two lists of (key, value) pairs with pairwise different keys
    that are permutations of each other produce the same keys on the step. -/
theorem keysOf_perm (ks ks' : List (Str × Str)) (hp : ks.Perm ks') (hd : (ks.map Prod.fst).Nodup) :
    keysOf ks = keysOf ks' := by
  have hnil : SortedKeys [] := trivial
  apply sorted_ext _ _ (foldl_sorted ks [] hnil) (foldl_sorted ks' [] hnil)
  intro q
  simp only [keysOf, lookup_foldl _ [] hnil]
  have hd' : (ks'.map Prod.fst).Nodup := (hp.map Prod.fst).nodup_iff.mp hd
  -- with distinct keys `find?` on either list returns the unique pair with key q, if any
  have key : ∀ (l : List (Str × Str)), (l.map Prod.fst).Nodup → ∀ kv ∈ l, kv.1 = q →
      l.reverse.find? (fun kv => kv.1 == q) = some kv := by
    intro l hn kv hkv hq
    have : ∃ x, l.reverse.find? (fun kv => kv.1 == q) = some x := by
      cases h : l.reverse.find? (fun kv => kv.1 == q) with
      | some x => exact ⟨x, rfl⟩
      | none =>
        have := List.find?_eq_none.mp h kv (by simp [hkv])
        simp [hq] at this
    obtain ⟨x, hx⟩ := this
    have hxm : x ∈ l := by have := List.mem_of_find?_eq_some hx; simpa using this
    have hxq : x.1 = q := by have := List.find?_some hx; simpa using this
    have : x = kv := by
      -- same key in a list with distinct keys
      have hinj : ∀ (l : List (Str × Str)), (l.map Prod.fst).Nodup → ∀ a ∈ l, ∀ b ∈ l, a.1 = b.1 → a = b := by
        intro l
        induction l with
        | nil => intro _ a ha; cases ha
        | cons c r ih =>
          intro hn a ha b hb hab
          simp only [List.map_cons, List.nodup_cons, List.mem_map, not_exists, not_and] at hn
          cases ha with
          | head =>
            cases hb with
            | head => rfl
            | tail _ hb => exact absurd hab.symm (hn.1 b hb)
          | tail _ ha =>
            cases hb with
            | head => exact absurd hab (hn.1 a ha)
            | tail _ hb => exact ih hn.2 a ha b hb hab
      exact hinj l hn x hxm kv hkv (hxq.trans hq.symm)
    rw [hx, this]
  cases h : ks.reverse.find? (fun kv => kv.1 == q) with
  | some kv =>
    have hm : kv ∈ ks := by have := List.mem_of_find?_eq_some h; simpa using this
    have hq : kv.1 = q := by have := List.find?_some h; simpa using this
    rw [key ks' hd' kv (hp.mem_iff.mp hm) hq]
  | none =>
    have hn : ∀ kv ∈ ks, ¬ kv.1 = q := by
      intro kv hkv
      have := List.find?_eq_none.mp h kv (by simp [hkv])
      simpa using this
    have : ks'.reverse.find? (fun kv => kv.1 == q) = none := by
      apply List.find?_eq_none.mpr
      intro kv hkv
      have := hn kv (hp.mem_iff.mpr (by simpa using hkv))
      simpa using this
    rw [this]

end YV.XM
