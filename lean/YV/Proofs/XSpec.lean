/-
  Proofs.XSpec — the scalar machine computes the XPath 1.0 value: for every well-formed expression tree over
  numbers, literals, single-valued data operands, unary minus, the thirteen binary operators and the core
  functions other than round() / substring(), evaluating with the machine's primitives (`evalM`, which the
  compiled program computes: Proofs.XEval) succeeds and its result is the value the specification `XS.eval`
  gives.  Comparisons of multi-valued leaf-lists are covered separately (`compare_spec`); round() and
  substring() (IEEE rounding against exact integer arithmetic) are compared by the correspondence streams.
-/
import YV.Proofs.XEval
import YV.Proofs.XCmp
namespace YV.XS
open YV YV.X

/-- a data operand that converts like a single node (or an absent one) -/
def Simple : Datum → Prop
  | .invalid => False
  | .slice ds => ds.length ≤ 1
  | _ => True

def SimpleEnv (env : Env) : Prop := ∀ id, Simple (env id)

/-- functions whose body is proved equal to the specification's -/
def pureFn (f : Fn) : Bool :=
  match f with
  | .reMatch | .count | .current | .localName | .sum | .round | .substring => false
  | _ => true

mutual
def PureX : Expr → Prop
  | .num _ | .lit _ | .env _ => True
  | .neg e => PureX e
  | .bin _ a b => PureX a ∧ PureX b
  | .call f args => pureFn f = true ∧ PureXs args
def PureXs : List Expr → Prop
  | [] => True
  | e :: es => PureX e ∧ PureXs es
end

theorem simple_ne_invalid {d : Datum} (h : Simple d) : d ≠ .invalid := by
  intro e; subst e; exact h

theorem toLit_spec {d : Datum} (h : Simple d) : d.toLit = .ok (stringOf (ofDatum d)) := by
  cases d with
  | invalid => exact h.elim
  | slice ds =>
    match ds, h with
    | [], _ => rfl
    | [a], _ => rfl
  | bool b => cases b <;> rfl
  | _ => rfl

theorem toNum_spec {d : Datum} (h : Simple d) : d.toNum = .ok (numberOf true (ofDatum d)) := by
  cases d with
  | invalid => exact h.elim
  | slice ds =>
    match ds, h with
    | [], _ => simp [Datum.toNum, ofDatum, numberOf, stringOf, joinSp, numberFromString_eq]
    | [a], _ => simp [Datum.toNum, ofDatum, numberOf, stringOf, joinSp, numberFromString_eq]
  | bool b => cases b <;> rfl
  | lit s => simp [Datum.toNum, ofDatum, numberOf, numberFromString_eq]
  | num x => rfl
  | emptyNodeset => simp [Datum.toNum, ofDatum, numberOf, stringOf, numberFromString_eq]

theorem toBool_spec {d : Datum} (h : d ≠ .invalid) : d.toBool = .ok (booleanOf (ofDatum d)) := by
  cases d with
  | invalid => exact absurd rfl h
  | _ => rfl

/-- `convertArgType`, per kind: the converted argument converts (again) to the specification's value -/
theorem conv_lit {d : Datum} (h : Simple d) :
    ∃ d', convertArg .lit d = .ok d' ∧ d'.toLit = .ok (stringOf (ofDatum d)) := by
  unfold convertArg
  by_cases hl : d.isLit = true
  · exact ⟨d, by simp [hl], toLit_spec h⟩
  · refine ⟨.lit (stringOf (ofDatum d)), ?_, rfl⟩
    simp [hl, toLit_spec h]
theorem conv_num {d : Datum} (h : Simple d) :
    ∃ d', convertArg .num d = .ok d' ∧ d'.toNum = .ok (numberOf true (ofDatum d)) := by
  unfold convertArg
  by_cases hl : d.isNum = true
  · exact ⟨d, by simp [hl], toNum_spec h⟩
  · refine ⟨.num (numberOf true (ofDatum d)), ?_, rfl⟩
    simp [hl, toNum_spec h]
theorem conv_bool {d : Datum} (h : Simple d) :
    ∃ d', convertArg .bool d = .ok d' ∧ d'.toBool = .ok (booleanOf (ofDatum d)) := by
  unfold convertArg
  by_cases hl : d.isBool = true
  · exact ⟨d, by simp [hl], toBool_spec (simple_ne_invalid h)⟩
  · refine ⟨.bool (booleanOf (ofDatum d)), ?_, rfl⟩
    simp [hl, toBool_spec (simple_ne_invalid h)]
theorem conv_obj {d : Datum} (h : Simple d) : convertArg .obj d = .ok d := by
  unfold convertArg; simp [simple_ne_invalid h]

theorem lookupIdx_eq (c : Char) : ∀ (l : Str), lookupIdx c l = l.idxOf? c
  | [] => by simp [lookupIdx, List.idxOf?]
  | d :: ds => by
    rw [lookupIdx, lookupIdx_eq c ds]
    by_cases e : c = d
    · subst e; simp [List.idxOf?, List.findIdx?_cons]
    · have : (d == c) = false := by simp [Ne.symm e]
      simp [e, List.idxOf?, List.findIdx?_cons, this]

theorem translate_eq (src frm to : Str) : translateM src frm to = translateS src frm to := by
  unfold translateM translateS
  simp only [lookupIdx_eq]
  induction src with
  | nil => rfl
  | cons c r ih =>
    simp only [List.filterMap_cons, List.flatMap_cons]
    cases frm.idxOf? c with
    | none => simp [ih]
    | some i => cases h : to[i]? <;> simp [ih, h]

/-- one function call on evaluated arguments: conversion per declared kind, then the body -/
def callM (f : Fn) (vs : List Datum) : M Datum := do
  let cs ← convArgsRev f.sig.1.reverse vs.reverse
  bltin f cs.reverse

theorem call_spec (f : Fn) (hp : pureFn f = true) (vs : List Datum) (hs : ∀ d ∈ vs, Simple d)
    (hlen : vs.length = f.sig.1.length) :
    ∃ d, callM f vs = .ok d ∧ Simple d ∧ fnS true f (vs.map ofDatum) = some (ofDatum d) := by
  cases f <;> simp only [pureFn] at hp <;> (try cases hp) <;> simp only [Fn.sig] at hlen
  case boolean =>
    match vs, hlen with
    | [a], _ =>
      have ha := hs a (by simp)
      exact ⟨.bool (booleanOf (ofDatum a)), by simp [callM, Fn.sig, convArgsRev, conv_obj ha, bltin, toBool_spec (simple_ne_invalid ha)], trivial, rfl⟩
  case number =>
    match vs, hlen with
    | [a], _ =>
      have ha := hs a (by simp)
      exact ⟨.num (numberOf true (ofDatum a)), by simp [callM, Fn.sig, convArgsRev, conv_obj ha, bltin, toNum_spec ha], trivial, rfl⟩
  case string =>
    match vs, hlen with
    | [a], _ =>
      have ha := hs a (by simp)
      exact ⟨.lit (stringOf (ofDatum a)), by simp [callM, Fn.sig, convArgsRev, conv_obj ha, bltin, toLit_spec ha], trivial, rfl⟩
  case not =>
    match vs, hlen with
    | [a], _ =>
      obtain ⟨a', h1, h2⟩ := conv_bool (hs a (by simp))
      exact ⟨.bool (!booleanOf (ofDatum a)), by simp [callM, Fn.sig, convArgsRev, h1, bltin, h2], trivial, rfl⟩
  case ceiling =>
    match vs, hlen with
    | [a], _ =>
      obtain ⟨a', h1, h2⟩ := conv_num (hs a (by simp))
      exact ⟨.num (SF.ceil (numberOf true (ofDatum a))), by simp [callM, Fn.sig, convArgsRev, h1, bltin, h2], trivial, rfl⟩
  case floor =>
    match vs, hlen with
    | [a], _ =>
      obtain ⟨a', h1, h2⟩ := conv_num (hs a (by simp))
      exact ⟨.num (SF.floor (numberOf true (ofDatum a))), by simp [callM, Fn.sig, convArgsRev, h1, bltin, h2], trivial, rfl⟩
  case stringLength =>
    match vs, hlen with
    | [a], _ =>
      obtain ⟨a', h1, h2⟩ := conv_lit (hs a (by simp))
      exact ⟨.num (SF.ofNat (stringOf (ofDatum a)).length), by simp [callM, Fn.sig, convArgsRev, h1, bltin, h2], trivial, rfl⟩
  case normalizeSpace =>
    match vs, hlen with
    | [a], _ =>
      obtain ⟨a', h1, h2⟩ := conv_lit (hs a (by simp))
      exact ⟨.lit (joinSp (fields (stringOf (ofDatum a)))), by simp [callM, Fn.sig, convArgsRev, h1, bltin, h2], trivial, rfl⟩
  case xtrue =>
    match vs, hlen with
    | [], _ => exact ⟨.bool true, by simp [callM, Fn.sig, convArgsRev, bltin], trivial, rfl⟩
  case xfalse =>
    match vs, hlen with
    | [], _ => exact ⟨.bool false, by simp [callM, Fn.sig, convArgsRev, bltin], trivial, rfl⟩
  case last =>
    match vs, hlen with
    | [], _ => exact ⟨.num SF.one, by simp [callM, Fn.sig, convArgsRev, bltin], trivial, rfl⟩
  case position =>
    match vs, hlen with
    | [], _ => exact ⟨.num SF.one, by simp [callM, Fn.sig, convArgsRev, bltin], trivial, rfl⟩
  case concat =>
    match vs, hlen with
    | [a, b], _ =>
      obtain ⟨a', h1, h2⟩ := conv_lit (hs a (by simp))
      obtain ⟨b', h3, h4⟩ := conv_lit (hs b (by simp))
      exact ⟨.lit (stringOf (ofDatum a) ++ stringOf (ofDatum b)),
        by simp [callM, Fn.sig, convArgsRev, h1, h3, bltin, h2, h4], trivial, rfl⟩
  case contains =>
    match vs, hlen with
    | [a, b], _ =>
      obtain ⟨a', h1, h2⟩ := conv_lit (hs a (by simp))
      obtain ⟨b', h3, h4⟩ := conv_lit (hs b (by simp))
      exact ⟨.bool (isInfixOf (stringOf (ofDatum b)) (stringOf (ofDatum a))),
        by simp [callM, Fn.sig, convArgsRev, h1, h3, bltin, h2, h4, isInfixOf], trivial, rfl⟩
  case startsWith =>
    match vs, hlen with
    | [a, b], _ =>
      obtain ⟨a', h1, h2⟩ := conv_lit (hs a (by simp))
      obtain ⟨b', h3, h4⟩ := conv_lit (hs b (by simp))
      exact ⟨.bool (isPrefixOf (stringOf (ofDatum b)) (stringOf (ofDatum a))),
        by simp [callM, Fn.sig, convArgsRev, h1, h3, bltin, h2, h4], trivial, rfl⟩
  case substringBefore =>
    match vs, hlen with
    | [a, b], _ =>
      obtain ⟨a', h1, h2⟩ := conv_lit (hs a (by simp))
      obtain ⟨b', h3, h4⟩ := conv_lit (hs b (by simp))
      refine ⟨.lit (match indexOf (stringOf (ofDatum b)) (stringOf (ofDatum a)) with
          | some i => (stringOf (ofDatum a)).take i | none => []), ?_, trivial, rfl⟩
      simp only [callM, Fn.sig, List.reverse_cons, List.reverse_nil, List.nil_append, List.cons_append, convArgsRev, h1, h3,
        bind_ok, pure_eq_ok, bltin, h2, h4]
      cases indexOf (stringOf (ofDatum b)) (stringOf (ofDatum a)) <;> rfl
  case substringAfter =>
    match vs, hlen with
    | [a, b], _ =>
      obtain ⟨a', h1, h2⟩ := conv_lit (hs a (by simp))
      obtain ⟨b', h3, h4⟩ := conv_lit (hs b (by simp))
      refine ⟨.lit (match indexOf (stringOf (ofDatum b)) (stringOf (ofDatum a)) with
          | some i => (stringOf (ofDatum a)).drop (i + (stringOf (ofDatum b)).length) | none => []), ?_, trivial, rfl⟩
      simp only [callM, Fn.sig, List.reverse_cons, List.reverse_nil, List.nil_append, List.cons_append, convArgsRev, h1, h3,
        bind_ok, pure_eq_ok, bltin, h2, h4]
      by_cases hp : (stringOf (ofDatum b)).isEmpty = true
      · -- the empty pattern is found at 0 and nothing is dropped
        have he : stringOf (ofDatum b) = [] := List.isEmpty_iff.mp hp
        rw [if_pos hp, he]
        cases hsa : stringOf (ofDatum a) <;> simp [indexOf, isPrefixOf]
      · rw [if_neg hp]
        cases indexOf (stringOf (ofDatum b)) (stringOf (ofDatum a)) <;> rfl
  case translate =>
    match vs, hlen with
    | [a, b, c], _ =>
      obtain ⟨a', h1, h2⟩ := conv_lit (hs a (by simp))
      obtain ⟨b', h3, h4⟩ := conv_lit (hs b (by simp))
      obtain ⟨c', h5, h6⟩ := conv_lit (hs c (by simp))
      exact ⟨.lit (translateS (stringOf (ofDatum a)) (stringOf (ofDatum b)) (stringOf (ofDatum c))),
        by simp [callM, Fn.sig, convArgsRev, h1, h3, h5, bltin, h2, h4, h6, translate_eq], trivial, rfl⟩

theorem binM_spec (op : BinOp) (a b : Datum) (ha : Simple a) (hb : Simple b) :
    ∃ d, binM op a b = .ok d ∧ Simple d ∧
      (match op with
       | .and => some (Val.bool (booleanOf (ofDatum a) && booleanOf (ofDatum b)))
       | .or => some (Val.bool (booleanOf (ofDatum a) || booleanOf (ofDatum b)))
       | .add | .sub | .mul | .div | .mod => some (Val.num (arith op (numberOf true (ofDatum a)) (numberOf true (ofDatum b))))
       | _ => some (Val.bool (cmp true op (ofDatum a) (ofDatum b)))) = some (ofDatum d) := by
  have hia := simple_ne_invalid ha
  have hib := simple_ne_invalid hb
  cases op
  case add => exact ⟨.num (SF.add (numberOf true (ofDatum a)) (numberOf true (ofDatum b))), by simp [binM, toNum_spec ha, toNum_spec hb], trivial, rfl⟩
  case sub => exact ⟨.num (SF.sub (numberOf true (ofDatum a)) (numberOf true (ofDatum b))), by simp [binM, toNum_spec ha, toNum_spec hb], trivial, rfl⟩
  case mul => exact ⟨.num (SF.mul (numberOf true (ofDatum a)) (numberOf true (ofDatum b))), by simp [binM, toNum_spec ha, toNum_spec hb], trivial, rfl⟩
  case div => exact ⟨.num (SF.div (numberOf true (ofDatum a)) (numberOf true (ofDatum b))), by simp [binM, toNum_spec ha, toNum_spec hb], trivial, rfl⟩
  case mod => exact ⟨.num (SF.fmod (numberOf true (ofDatum a)) (numberOf true (ofDatum b))), by simp [binM, toNum_spec ha, toNum_spec hb], trivial, rfl⟩
  case and => exact ⟨.bool (booleanOf (ofDatum a) && booleanOf (ofDatum b)), by simp [binM, toBool_spec hia, toBool_spec hib], trivial, rfl⟩
  case or => exact ⟨.bool (booleanOf (ofDatum a) || booleanOf (ofDatum b)), by simp [binM, toBool_spec hia, toBool_spec hib], trivial, rfl⟩
  case eq => exact ⟨.bool (cmp true .eq (ofDatum a) (ofDatum b)), by simp [binM, compare_spec .eq rfl a b hia hib], trivial, rfl⟩
  case ne => exact ⟨.bool (cmp true .ne (ofDatum a) (ofDatum b)), by simp [binM, compare_spec .ne rfl a b hia hib], trivial, rfl⟩
  case lt => exact ⟨.bool (cmp true .lt (ofDatum a) (ofDatum b)), by simp [binM, compare_spec .lt rfl a b hia hib], trivial, rfl⟩
  case gt => exact ⟨.bool (cmp true .gt (ofDatum a) (ofDatum b)), by simp [binM, compare_spec .gt rfl a b hia hib], trivial, rfl⟩
  case le => exact ⟨.bool (cmp true .le (ofDatum a) (ofDatum b)), by simp [binM, compare_spec .le rfl a b hia hib], trivial, rfl⟩
  case ge => exact ⟨.bool (cmp true .ge (ofDatum a) (ofDatum b)), by simp [binM, compare_spec .ge rfl a b hia hib], trivial, rfl⟩

mutual
/-- **machine primitives = XPath 1.0** on whole expression trees -/
theorem evalM_spec (env : Env) (henv : SimpleEnv env) : ∀ (e : Expr), WellFormed e → PureX e →
    ∃ d, evalM env e = .ok d ∧ Simple d ∧ eval true env e = some (ofDatum d)
  | .num x, _, _ => ⟨.num x, by simp [evalM], trivial, by simp [eval, ofDatum]⟩
  | .lit s, _, _ => ⟨.lit s, by simp [evalM], trivial, by simp [eval, ofDatum]⟩
  | .env id, _, _ => ⟨env id, by simp [evalM], henv id, by simp [eval]⟩
  | .neg e, hw, hp => by
    simp only [WellFormed] at hw; simp only [PureX] at hp
    obtain ⟨d, h1, h2, h3⟩ := evalM_spec env henv e hw hp
    exact ⟨.num (SF.neg (numberOf true (ofDatum d))), by simp [evalM, h1, toNum_spec h2], trivial,
      by simp [eval, h3, ofDatum]⟩
  | .bin op a b, hw, hp => by
    simp only [WellFormed] at hw; simp only [PureX] at hp
    obtain ⟨da, a1, a2, a3⟩ := evalM_spec env henv a hw.1 hp.1
    obtain ⟨db, b1, b2, b3⟩ := evalM_spec env henv b hw.2 hp.2
    obtain ⟨d, h1, h2, h3⟩ := binM_spec op da db a2 b2
    refine ⟨d, by simp [evalM, a1, b1, h1], h2, ?_⟩
    simp only [eval, a3, b3, Option.bind_eq_bind, Option.bind_some]
    cases op <;> exact h3
  | .call f args, hw, hp => by
    simp only [WellFormed] at hw; simp only [PureX] at hp
    obtain ⟨vs, v1, v2, v3⟩ := evalListM_spec env henv args hw.2 hp.2
    have hlen : vs.length = f.sig.1.length := by rw [evalListM_length env args vs v1, hw.1]
    obtain ⟨d, h1, h2, h3⟩ := call_spec f hp.1 vs v2 hlen
    refine ⟨d, ?_, h2, ?_⟩
    · simp only [evalM, v1, bind_ok]; exact h1
    · simp only [eval, v3, Option.bind_eq_bind, Option.bind_some]; exact h3
theorem evalListM_spec (env : Env) (henv : SimpleEnv env) : ∀ (es : List Expr), WellFormedList es → PureXs es →
    ∃ vs, evalListM env es = .ok vs ∧ (∀ d ∈ vs, Simple d) ∧ evalList true env es = some (vs.map ofDatum)
  | [], _, _ => ⟨[], by simp [evalListM], by simp, by simp [evalList]⟩
  | e :: es, hw, hp => by
    simp only [WellFormedList] at hw; simp only [PureXs] at hp
    obtain ⟨d, h1, h2, h3⟩ := evalM_spec env henv e hw.1 hp.1
    obtain ⟨vs, v1, v2, v3⟩ := evalListM_spec env henv es hw.2 hp.2
    refine ⟨d :: vs, by simp [evalListM, h1, v1], ?_, by simp [evalList, h3, v3]⟩
    intro x hx
    rcases List.mem_cons.mp hx with rfl | hx
    · exact h2
    · exact v2 x hx
end

end YV.XS
