/-
  Proofs.XPrec — operator precedence and associativity of the must/when parser: an expression written with
  the parentheses its shape requires (and any others) parses to the postfix code of its tree.
-/
import YV.Model.XParse
import YV.Spec.XCompile
namespace YV.XP
open YV YV.X YV.XL YV.XC

/-- the contents of a predicate: the tokens between `[` and `]` and the code they compile to (any expression that
    parses — `BlkOK` below; `blk_of` makes one of every written expression, so predicates nest) -/
structure Blk where
  toks : List Tok
  code : List PI
  deriving Repr, DecidableEq

/-- the steps of a location path: a name test with its predicates, `..`, `.` -/
inductive PStep | name (p l : List Rune) (preds : List Blk) | up | dot
  deriving Repr, DecidableEq

/-- how a location path begins: `/`, a first step, `current()` -/
inductive PRoot | abs | rel (first : PStep) | cur
  deriving Repr, DecidableEq

def blkToks : List Blk → List Tok
  | [] => []
  | b :: r => .ch (chr '[') :: (b.toks ++ .ch (chr ']') :: blkToks r)

def blkCode : List Blk → List PI
  | [] => []
  | b :: r => .predStart :: (b.code ++ .predEnd :: blkCode r)

/-- the first token of a step -/
def PStep.tok : PStep → Tok
  | .name p l _ => .nametest p l
  | .up => .dotdot
  | .dot => .ch (chr '.')

/-- the tokens after the first: the predicates -/
def PStep.rest : PStep → List Tok
  | .name _ _ preds => blkToks preds
  | _ => []

def PStep.preds : PStep → List Blk
  | .name _ _ preds => preds
  | _ => []

def PStep.code : PStep → List PI
  | .name p l [] => [.namePush p l]
  | .name p l (b :: r) => .namePush p l :: .predicatesStart :: (blkCode (b :: r) ++ [.predicatesEnd])
  | .up => [.pathDotDot]
  | .dot => []

/-- steps, each after a `/` -/
def sepToks : List PStep → List Tok
  | [] => []
  | s :: r => .ch (chr '/') :: s.tok :: (s.rest ++ sepToks r)

def stepsCode : List PStep → List PI
  | [] => []
  | s :: r => s.code ++ stepsCode r

def pathToks : PRoot → List PStep → List Tok
  | .abs, [] => [.ch (chr '/')]
  | .abs, s :: r => sepToks (s :: r)
  | .rel f, steps => f.tok :: (f.rest ++ sepToks steps)
  | .cur, steps => .currentfunc :: .ch (chr '(') :: .ch (chr ')') :: sepToks steps

def pathCode : PRoot → List PStep → List PI
  | .abs, steps => .pathRoot :: (stepsCode steps ++ [.evalLocPath])
  | .rel f, steps => f.code ++ stepsCode steps ++ [.evalLocPath]
  | .cur, steps => .pathSetCurrent :: (stepsCode steps ++ [.evalLocPath])

/-- an expression as written: numbers, literals, location paths (with predicates), unary minus, the thirteen
    binary operators, parentheses, and function calls with up to three argument expressions -/
inductive PE where
  | path (root : PRoot) (steps : List PStep)
  | num (x : SF)
  | lit (s : List Rune)
  | paren (e : PE)
  | neg (e : PE)
  | bin (op : BinOp) (a b : PE)
  | union (a b : PE)
  | call0 (fn : Fn)
  | call1 (fn : Fn) (a : PE)
  | call2 (fn : Fn) (a b : PE)
  | call3 (fn : Fn) (a b c : PE)
  deriving Repr

def opTok : BinOp → Tok
  | .add => .ch (chr '+') | .sub => .ch (chr '-') | .mul => .ch (chr '*') | .div => .div | .mod => .mod
  | .and => .and | .or => .or | .eq => .eq | .ne => .ne | .lt => .lt | .gt => .gt | .le => .le | .ge => .ge

def level : BinOp → Nat
  | .or => 0 | .and => 1 | .eq => 2 | .ne => 2 | .lt => 3 | .gt => 3 | .le => 3 | .ge => 3
  | .add => 4 | .sub => 4 | .mul => 5 | .div => 5 | .mod => 5

def PE.toks : PE → List Tok
  | .path root steps => pathToks root steps
  | .num x => [.num x]
  | .lit s => [.lit s]
  | .paren e => .ch (chr '(') :: (e.toks ++ [.ch (chr ')')])
  | .neg e => .ch (chr '-') :: e.toks
  | .bin op a b => a.toks ++ opTok op :: b.toks
  | .union a b => a.toks ++ .ch (chr '|') :: b.toks
  | .call0 fn => [.func fn, .ch (chr '('), .ch (chr ')')]
  | .call1 fn a => .func fn :: .ch (chr '(') :: (a.toks ++ [.ch (chr ')')])
  | .call2 fn a b => .func fn :: .ch (chr '(') :: (a.toks ++ .ch (chr ',') :: (b.toks ++ [.ch (chr ')')]))
  | .call3 fn a b c =>
    .func fn :: .ch (chr '(') :: (a.toks ++ .ch (chr ',') :: (b.toks ++ .ch (chr ',') :: (c.toks ++ [.ch (chr ')')])))

/-- the tree's postfix code: parentheses leave no trace -/
def PE.code : PE → List PI
  | .path root steps => pathCode root steps
  | .num x => [.num x]
  | .lit s => [.lit s]
  | .paren e => e.code
  | .neg e => e.code ++ [.negate]
  | .bin op a b => a.code ++ b.code ++ [binPI op]
  | .union a b => a.code ++ b.code ++ [.union]
  | .call0 fn => [.bltin fn]
  | .call1 fn a => a.code ++ [.bltin fn]
  | .call2 fn a b => a.code ++ b.code ++ [.bltin fn]
  | .call3 fn a b c => a.code ++ b.code ++ c.code ++ [.bltin fn]

/-- a path-level expression (PathExpr): what `pPath` parses -/
def PE.pl : PE → Bool
  | .path .. | .num _ | .lit _ | .paren _ | .call0 _ | .call1 .. | .call2 .. | .call3 .. => true
  | _ => false

/-- a union-level expression (UnionExpr): a path-level expression or a union -/
def PE.ul : PE → Bool
  | .union .. => true
  | e => e.pl

def tk (s : PSt) : List Tok := s.toks.map (·.tok)
def advN (n : Nat) (s : PSt) : PSt := { s with toks := s.toks.drop n, pos := s.pos + n }

/-- the state after `n` tokens that produced `code` -/
def doneG (n : Nat) (code : List PI) (s : PSt) : PSt := { advN n s with out := code.reverse ++ s.out }

def stopAt (lvl : Nat) (t : Tok) : Prop :=
  (∀ j, lvl ≤ j → binOpAt j t = none) ∧ t ≠ .ch (chr '|') ∧ t ≠ .ch (chr '[') ∧ t ≠ .ch (chr '/') ∧ t ≠ .dblslash ∧
    startsStep t = false

/-- the contents of a predicate parse as an expression (at level 0, up to the closing bracket) to their code -/
def BlkOK (b : Blk) : Prop :=
  ∀ (f : Nat) (s : PSt) (rest : List Tok), 20 * b.toks.length + 20 ≤ f → tk s = b.toks ++ rest →
    stopAt 0 (rest.headD .eof) → s.strict = false → pLevel f 0 s = .ok (doneG b.toks.length b.code s)

def PStep.ok (st : PStep) : Prop := ∀ b ∈ st.preds, BlkOK b

/-- the predicates of every step of the path parse -/
def pathOK : PRoot → List PStep → Prop
  | .rel f, steps => f.ok ∧ ∀ st ∈ steps, st.ok
  | _, steps => ∀ st ∈ steps, st.ok

/-- `e` can stand where an expression of binary level `lvl` (0 = or … 5 = multiplicative, 6 = unary) is
    expected without further parentheses: a left operand may be of the operator's own level
    (left-associativity), a right operand must bind tighter, the operand of unary minus is unary -/
def PE.fits : Nat → PE → Prop
  | _, .path root steps => pathOK root steps
  | _, .num _ => True
  | _, .lit _ => True
  | _, .paren e => e.fits 0
  | _, .neg e => e.fits 6
  | l, .bin op a b => l ≤ level op ∧ a.fits (level op) ∧ b.fits (level op + 1)
  | _, .union a b => a.ul = true ∧ a.fits 6 ∧ b.pl = true ∧ b.fits 6      -- left-associative, binds tighter than unary minus
  | _, .call0 fn => fn.sig.1.length = 0
  | _, .call1 fn a => fn.sig.1.length = 1 ∧ a.fits 0
  | _, .call2 fn a b => fn.sig.1.length = 2 ∧ a.fits 0 ∧ b.fits 0
  | _, .call3 fn a b c => fn.sig.1.length = 3 ∧ a.fits 0 ∧ b.fits 0 ∧ c.fits 0

def done (e : PE) (s : PSt) : PSt := { advN e.toks.length s with out := e.code.reverse ++ s.out }

theorem peek_tk (s : PSt) : peekTok s = (tk s).headD .eof := by
  unfold peekTok tk; cases s.toks <;> rfl

theorem tk_advN (n : Nat) (s : PSt) : tk (advN n s) = (tk s).drop n := by
  simp [tk, advN, List.map_drop]

theorem tk_adv (s : PSt) : tk (adv s) = (tk s).drop 1 := by
  simp [tk, adv, List.map_drop]

theorem tk_emit (s : PSt) (i : PI) : tk (emit s i) = tk s := rfl

theorem tk_done (e : PE) (s : PSt) : tk (done e s) = (tk s).drop e.toks.length := by
  simp [tk, done, advN, List.map_drop]

theorem adv_eq (s : PSt) : adv s = advN 1 s := rfl

theorem PSt.ext' (a b : PSt) (h1 : a.toks = b.toks) (h2 : a.pos = b.pos) (h3 : a.out = b.out)
    (h4 : a.strict = b.strict) (h5 : a.perr = b.perr) : a = b := by
  cases a; cases b; simp_all

theorem done_num (x : SF) (s : PSt) : done (.num x) s = emit (adv s) (.num x) := by
  apply PSt.ext' <;> simp [done, advN, adv, emit, PE.toks, PE.code]

theorem done_lit (l : List Rune) (s : PSt) : done (.lit l) s = emit (adv s) (.lit l) := by
  apply PSt.ext' <;> simp [done, advN, adv, emit, PE.toks, PE.code]

theorem done_neg (e : PE) (s : PSt) : done (.neg e) s = emit (done e (adv s)) .negate := by
  apply PSt.ext' <;> simp [done, advN, adv, emit, PE.toks, PE.code, List.drop_drop, Nat.add_comm, Nat.add_assoc, Nat.add_left_comm]

theorem done_paren (e : PE) (s : PSt) : done (.paren e) s = adv (done e (adv s)) := by
  apply PSt.ext' <;> simp [done, advN, adv, emit, PE.toks, PE.code, List.drop_drop, Nat.add_comm, Nat.add_assoc, Nat.add_left_comm]

theorem done_bin (op : BinOp) (a b : PE) (s : PSt) :
    done (.bin op a b) s = emit (done b (adv (done a s))) (binPI op) := by
  apply PSt.ext' <;> simp [done, advN, adv, emit, PE.toks, PE.code, List.drop_drop, Nat.add_comm, Nat.add_assoc, Nat.add_left_comm]

theorem done_union (a b : PE) (s : PSt) :
    done (.union a b) s = emit (done b (adv (done a s))) .union := by
  apply PSt.ext' <;> simp [done, advN, adv, emit, PE.toks, PE.code, List.drop_drop, Nat.add_comm, Nat.add_assoc, Nat.add_left_comm]

theorem done_strict (e : PE) (s : PSt) : (done e s).strict = s.strict := rfl

theorem done_call0 (fn : Fn) (s : PSt) : done (.call0 fn) s = emit (adv (adv (adv s))) (.bltin fn) := by
  apply PSt.ext' <;> simp [done, advN, adv, emit, PE.toks, PE.code, List.drop_drop, Nat.add_assoc]
theorem done_call1 (fn : Fn) (a : PE) (s : PSt) :
    done (.call1 fn a) s = emit (adv (done a (adv (adv s)))) (.bltin fn) := by
  apply PSt.ext' <;> simp [done, advN, adv, emit, PE.toks, PE.code, List.drop_drop, Nat.add_comm, Nat.add_assoc, Nat.add_left_comm] <;> omega
theorem done_call2 (fn : Fn) (a b : PE) (s : PSt) :
    done (.call2 fn a b) s = emit (adv (done b (adv (done a (adv (adv s)))))) (.bltin fn) := by
  apply PSt.ext' <;> simp [done, advN, adv, emit, PE.toks, PE.code, List.drop_drop, Nat.add_comm, Nat.add_assoc, Nat.add_left_comm] <;> omega
theorem done_call3 (fn : Fn) (a b c : PE) (s : PSt) :
    done (.call3 fn a b c) s = emit (adv (done c (adv (done b (adv (done a (adv (adv s)))))))) (.bltin fn) := by
  apply PSt.ext' <;> simp [done, advN, adv, emit, PE.toks, PE.code, List.drop_drop, Nat.add_comm, Nat.add_assoc, Nat.add_left_comm] <;> omega


/-! ### the operator tokens -/

theorem binOpAt_opTok (op : BinOp) : binOpAt (level op) (opTok op) = some (binPI op) := by
  cases op <;> simp [binOpAt, level, opTok, binPI, chr]

theorem binOpAt_other (op : BinOp) (j : Nat) (h : j ≠ level op) : binOpAt j (opTok op) = none := by
  rcases j with _ | _ | _ | _ | _ | _ | j <;> cases op <;> simp [binOpAt, opTok, level, chr] at h ⊢

theorem stopAt_opTok (op : BinOp) : stopAt (level op + 1) (opTok op) := by
  refine ⟨fun j hj => binOpAt_other op j (by omega), ?_, ?_, ?_, ?_, ?_⟩ <;> cases op <;> simp [opTok, chr, startsStep]

theorem stopAt_mono (a b : Nat) (t : Tok) (h : a ≤ b) (hs : stopAt a t) : stopAt b t :=
  ⟨fun j hj => hs.1 j (by omega), hs.2⟩

/-- the first token of an expression: a number, a literal, '(', '-' or a function name -/
def startTok (t : Tok) : Prop :=
  (∃ x, t = .num x) ∨ (∃ l, t = .lit l) ∨ t = .ch (chr '(') ∨ t = .ch (chr '-') ∨ (∃ fn, t = .func fn) ∨
    t = .ch (chr '/') ∨ t = .currentfunc ∨ (∃ st : PStep, t = st.tok)

theorem toks_start (e : PE) : ∃ t r, e.toks = t :: r ∧ startTok t := by
  induction e with
  | path root steps =>
    cases root with
    | abs =>
      cases steps with
      | nil => exact ⟨_, _, rfl, .inr (.inr (.inr (.inr (.inr (.inl rfl)))))⟩
      | cons st r => exact ⟨_, _, rfl, .inr (.inr (.inr (.inr (.inr (.inl rfl)))))⟩
    | rel f => exact ⟨_, _, rfl, .inr (.inr (.inr (.inr (.inr (.inr (.inr ⟨f, rfl⟩))))))⟩
    | cur => exact ⟨_, _, rfl, .inr (.inr (.inr (.inr (.inr (.inr (.inl rfl))))))⟩
  | num x => exact ⟨_, _, rfl, .inl ⟨x, rfl⟩⟩
  | lit l => exact ⟨_, _, rfl, .inr (.inl ⟨l, rfl⟩)⟩
  | paren e _ => exact ⟨_, _, rfl, .inr (.inr (.inl rfl))⟩
  | neg e _ => exact ⟨_, _, rfl, .inr (.inr (.inr (.inl rfl)))⟩
  | bin op a b iha _ =>
    obtain ⟨t, r, h, ht⟩ := iha
    exact ⟨t, r ++ opTok op :: b.toks, by simp [PE.toks, h], ht⟩
  | union a b iha _ =>
    obtain ⟨t, r, h, ht⟩ := iha
    exact ⟨t, r ++ .ch (chr '|') :: b.toks, by simp [PE.toks, h], ht⟩
  | call0 fn => exact ⟨_, _, rfl, .inr (.inr (.inr (.inr (.inl ⟨fn, rfl⟩))))⟩
  | call1 fn a _ => exact ⟨_, _, rfl, .inr (.inr (.inr (.inr (.inl ⟨fn, rfl⟩))))⟩
  | call2 fn a b _ _ => exact ⟨_, _, rfl, .inr (.inr (.inr (.inr (.inl ⟨fn, rfl⟩))))⟩
  | call3 fn a b c _ _ _ => exact ⟨_, _, rfl, .inr (.inr (.inr (.inr (.inl ⟨fn, rfl⟩))))⟩

/-! ### the three statements proved together -/

def B (e : PE) : Nat := 20 * e.toks.length + 8

/-- parsing at binary level `lvl` -/
def T (e : PE) (lvl : Nat) : Prop :=
  ∀ (f : Nat) (s : PSt) (rest : List Tok), B e + 2 * (6 - lvl) ≤ f → tk s = e.toks ++ rest →
    stopAt lvl (rest.headD .eof) → s.strict = false → pLevel f lvl s = .ok (done e s)

/-- parsing at level `k` when the loop of that level goes on after `e` -/
def C (e : PE) (k : Nat) : Prop :=
  ∀ (f : Nat) (s : PSt) (rest : List Tok) (G : Nat) (r : P PSt), 1 ≤ G → B e + 2 * (6 - k) - 1 + G ≤ f →
    tk s = e.toks ++ rest → stopAt (k + 1) (rest.headD .eof) → s.strict = false →
    (∀ g, G ≤ g → pLevelRest g k (done e s) = r) → pLevel f k s = r

/-- parsing a unary expression -/
def U (e : PE) : Prop :=
  ∀ (g : Nat) (s : PSt) (rest : List Tok), B e ≤ g + 1 → tk s = e.toks ++ rest →
    stopAt 6 (rest.headD .eof) → s.strict = false → pUnary g s = .ok (done e s)

/-- where a path-level expression (an operand of '|') may end: at anything that is neither a predicate nor a continuation
    of the path — the '|' included -/
def stopP (t : Tok) : Prop :=
  t ≠ .ch (chr '[') ∧ t ≠ .ch (chr '/') ∧ t ≠ .dblslash ∧ startsStep t = false

theorem stopP_of_stopAt {lvl : Nat} {t : Tok} (h : stopAt lvl t) : stopP t := ⟨h.2.2.1, h.2.2.2.1, h.2.2.2.2.1, h.2.2.2.2.2⟩

theorem stopP_bar : stopP (.ch (chr '|')) := by simp [stopP, chr, startsStep]

/-- parsing a path-level expression -/
def Pth (e : PE) : Prop :=
  ∀ (g : Nat) (s : PSt) (rest : List Tok), B e ≤ g + 2 → tk s = e.toks ++ rest →
    stopP (rest.headD .eof) → s.strict = false → pPath g s = .ok (done e s)

theorem peek_done (e : PE) (s : PSt) (rest : List Tok) (h : tk s = e.toks ++ rest) :
    peekTok (done e s) = rest.headD .eof := by
  rw [peek_tk, tk_done, h]; simp

/-- level 6 is the unary level -/
theorem T6_of_U (e : PE) (h : U e) : T e 6 := by
  intro f s rest hf ht hs hst
  cases f with
  | zero => simp [B] at hf
  | succ f =>
    simp only [pLevel, Nat.le_refl, ↓reduceIte]
    exact h f s rest (by omega) ht hs hst

/-- from level `k+1` to the loop of level `k` -/
theorem C_of_T (e : PE) (k : Nat) (hk : k ≤ 5) (h : T e (k + 1)) : C e k := by
  intro f s rest G r hG hf ht hs hst hr
  cases f with
  | zero => omega
  | succ f =>
    have hlt : ¬ k ≥ 6 := by omega
    simp only [pLevel, hlt, ↓reduceIte]
    rw [h f s rest (by omega) ht hs hst]
    simp only [bind, Except.bind]
    exact hr f (by omega)

/-- the loop of level `lvl` stops at a token that is not one of its operators -/
theorem T_of_C (e : PE) (lvl : Nat) (h : C e lvl) : T e lvl := by
  intro f s rest hf ht hs hst
  have hB : 8 ≤ B e := by simp [B]
  apply h f s rest 1 _ (Nat.le_refl _) (by omega) ht (stopAt_mono _ _ _ (by omega) hs) hst
  intro g hg
  cases g with
  | zero => omega
  | succ g =>
    simp only [pLevelRest]
    rw [peek_done e s rest ht, hs.1 lvl (Nat.le_refl _)]
    rfl

/-- down the ladder of levels below the level at which `e` is parsed directly -/
theorem ladder (e : PE) (top : Nat) (htop : top ≤ 6) (hT : T e top) :
    ∀ d lvl, lvl + d = top → T e lvl ∧ (d ≠ 0 → C e lvl) := by
  intro d
  induction d with
  | zero => intro lvl h; simp at h; subst h; exact ⟨hT, fun h => absurd rfl h⟩
  | succ d ih =>
    intro lvl h
    have hc : C e lvl := C_of_T e lvl (by omega) (ih (lvl + 1) (by omega)).1
    exact ⟨T_of_C e lvl hc, fun _ => hc⟩


/-! ### primaries -/

theorem pPreds_stop (f : Nat) (s : PSt) (h : peekTok s ≠ .ch (chr '[')) : pPreds (f + 1) s = .ok s := by
  simp only [pPreds, h, ↓reduceIte]; rfl

theorem pUnionRest_stop (f : Nat) (s : PSt) (h : peekTok s ≠ .ch (chr '|')) : pUnionRest (f + 1) s = .ok s := by
  simp only [pUnionRest, h, ↓reduceIte]; rfl

/-- after a primary expression that is followed by neither a predicate nor a path continuation -/
theorem filterTail_stop (s : PSt) (h1 : peekTok s ≠ .ch (chr '/')) (h2 : peekTok s ≠ .dblslash) (f : Nat) :
    (match peekTok s with
      | .ch c =>
        if c = chr '/' then do
          let s ← pRelPath f (adv (emit s .filterExprEnd))
          pure (emit s .evalLocPath)
        else pure s
      | .dblslash => do
        let s ← pRelPath f (setErr (adv (emit s .filterExprEnd)) "// unsupported")
        pure (emit s .evalLocPath)
      | _ => pure s : P PSt) = .ok s := by
  split
  · rename_i c hc
    have : c ≠ chr '/' := fun e => h1 (by rw [hc, e])
    simp only [this, ↓reduceIte]; rfl
  · rename_i hc; exact absurd hc h2
  · rfl

theorem ok_bind {α β} (a : α) (f : α → P β) : ((Except.ok a : P α) >>= f) = f a := rfl

theorem pUnary_pos (f : Nat) (s : PSt) (h : peekTok s ≠ .ch (chr '-')) :
    pUnary (f + 1) s = (pPath f s >>= pUnionRest f) := by
  simp only [pUnary, h, ↓reduceIte]

theorem pUnary_neg (f : Nat) (s : PSt) (h : peekTok s = .ch (chr '-')) :
    pUnary (f + 1) s = (pUnary f (adv s) >>= fun s => pure (emit s .negate)) := by
  simp only [pUnary, h, ↓reduceIte]

theorem pPath_num (f : Nat) (s : PSt) (x : SF) (h : peekTok s = .num x) : pPath (f + 1) s = pFilterPath f s := by
  simp only [pPath, h]

theorem pPath_lit (f : Nat) (s : PSt) (l : List Rune) (h : peekTok s = .lit l) : pPath (f + 1) s = pFilterPath f s := by
  simp only [pPath, h]

theorem pPath_paren (f : Nat) (s : PSt) (h : peekTok s = .ch (chr '(')) : pPath (f + 1) s = pFilterPath f s := by
  simp only [pPath, h, ↓reduceIte]

theorem pFilterPath_succ (f : Nat) (s : PSt) :
    pFilterPath (f + 1) s = (pPrimary f s >>= fun s => pPreds f s >>= fun s =>
      (match peekTok s with
        | .ch c =>
          if c = chr '/' then do
            let s ← pRelPath f (adv (emit s .filterExprEnd))
            pure (emit s .evalLocPath)
          else pure s
        | .dblslash => do
          let s ← pRelPath f (setErr (adv (emit s .filterExprEnd)) "// unsupported")
          pure (emit s .evalLocPath)
        | _ => pure s : P PSt)) := by
  simp only [pFilterPath]
  rfl

theorem pPrimary_num (f : Nat) (s : PSt) (x : SF) (h : peekTok s = .num x) :
    pPrimary (f + 1) s = .ok (emit (adv s) (.num x)) := by
  simp only [pPrimary, h]; rfl

theorem pPrimary_lit (f : Nat) (s : PSt) (l : List Rune) (h : peekTok s = .lit l) :
    pPrimary (f + 1) s = .ok (emit (adv s) (.lit l)) := by
  simp only [pPrimary, h]; rfl

/-- a primary that ends in state `s1`, followed by a token at which a path-level expression stops -/
theorem path_of_primary (g : Nat) (s s1 : PSt)
    (hpath : pPath (g + 1 + 1) s = pFilterPath (g + 1) s)
    (hprim : pPrimary g s = .ok s1) (hs : stopP (peekTok s1)) :
    pPath (g + 1 + 1) s = .ok s1 := by
  rw [hpath, pFilterPath_succ, hprim, ok_bind]
  cases g with
  | zero => simp [pPrimary] at hprim
  | succ g =>
    rw [pPreds_stop g s1 hs.1, ok_bind, filterTail_stop s1 hs.2.1 hs.2.2.1]

/-- the first token of a path-level expression is not a minus sign -/
theorem pl_first (e : PE) (h : e.pl = true) (rest : List Tok) : (e.toks ++ rest).headD .eof ≠ .ch (chr '-') := by
  cases e <;> simp [PE.pl] at h <;> try (simp [PE.toks, chr])
  case path root steps =>
    cases root with
    | abs => cases steps <;> simp [PE.toks, pathToks, sepToks, chr]
    | rel f => cases f <;> simp [PE.toks, pathToks, PStep.tok, chr]
    | cur => simp [PE.toks, pathToks]

/-- a path-level expression where a unary expression is expected: no '|' follows -/
theorem U_of_Pth (e : PE) (hp : Pth e) (hpl : e.pl = true) : U e := by
  intro g s rest hg ht hs hst
  have hB : 8 ≤ B e := by simp [B]
  obtain ⟨g', rfl⟩ : ∃ g', g = g' + 1 + 1 := ⟨g - 2, by omega⟩
  have hneg : peekTok s ≠ .ch (chr '-') := by rw [peek_tk, ht]; exact pl_first e hpl rest
  rw [pUnary_pos _ _ hneg, hp (g' + 1) s rest (by omega) ht (stopP_of_stopAt hs) hst, ok_bind]
  exact pUnionRest_stop _ _ (by rw [peek_done e s rest ht]; exact hs.2.1)

theorem P_num (x : SF) : Pth (.num x) := by
  intro g s rest hg ht hs hst
  have hp : peekTok s = .num x := by rw [peek_tk, ht]; rfl
  have hd := peek_done (.num x) s rest ht
  rw [done_num] at hd ⊢
  obtain ⟨g', rfl⟩ : ∃ g', g = g' + 1 + 1 + 1 := ⟨g - 3, by simp [B, PE.toks] at hg; omega⟩
  exact path_of_primary (g' + 1) s _ (pPath_num _ _ x hp) (pPrimary_num _ _ x hp) (by rw [hd]; exact hs)

theorem P_lit (l : List Rune) : Pth (.lit l) := by
  intro g s rest hg ht hs hst
  have hp : peekTok s = .lit l := by rw [peek_tk, ht]; rfl
  have hd := peek_done (.lit l) s rest ht
  rw [done_lit] at hd ⊢
  obtain ⟨g', rfl⟩ : ∃ g', g = g' + 1 + 1 + 1 := ⟨g - 3, by simp [B, PE.toks] at hg; omega⟩
  exact path_of_primary (g' + 1) s _ (pPath_lit _ _ l hp) (pPrimary_lit _ _ l hp) (by rw [hd]; exact hs)


theorem U_neg (e : PE) (he : U e) : U (.neg e) := by
  intro g s rest hg ht hs hst
  have hp : peekTok s = .ch (chr '-') := by rw [peek_tk, ht]; rfl
  cases g with
  | zero => simp [B, PE.toks] at hg
  | succ g =>
    rw [pUnary_neg _ _ hp]
    have h1 := he g (adv s) rest (by simp [B, PE.toks] at hg ⊢; omega)
      (by rw [tk_adv, ht]; simp [PE.toks]) hs hst
    rw [h1, ok_bind, done_neg]
    rfl

theorem stopAt_rparen (lvl : Nat) : stopAt lvl (.ch (chr ')')) := by
  refine ⟨fun j _ => ?_, by simp [chr], by simp [chr], by simp [chr], by simp, by simp [startsStep, chr]⟩
  rcases j with _ | _ | _ | _ | _ | _ | j <;> simp [binOpAt, chr]

theorem pPrimary_paren (f : Nat) (s : PSt) (h : peekTok s = .ch (chr '(')) (h2 : peekTok (adv s) ≠ .ch (chr ')')) :
    pPrimary (f + 1) s = (pLevel f 0 (adv s) >>= fun s => expectCh ')' s) := by
  simp only [pPrimary, h, ↓reduceIte, h2]

theorem P_paren (e : PE) (he : T e 0) : Pth (.paren e) := by
  intro g s rest hg ht hs hst
  have hp : peekTok s = .ch (chr '(') := by rw [peek_tk, ht]; rfl
  obtain ⟨g', rfl⟩ : ∃ g', g = g' + 1 + 1 + 1 := ⟨g - 3, by simp [B, PE.toks] at hg; omega⟩
  have htk : tk (adv s) = e.toks ++ (.ch (chr ')') :: rest) := by rw [tk_adv, ht]; simp [PE.toks]
  have hp2 : peekTok (adv s) ≠ .ch (chr ')') := by
    obtain ⟨t, r, hr, hst'⟩ := toks_start e
    rw [peek_tk, htk, hr]
    simp only [List.cons_append, List.headD_cons]
    rcases hst' with ⟨x, rfl⟩ | ⟨l, rfl⟩ | rfl | rfl | ⟨fn, rfl⟩ | rfl | rfl | ⟨st, rfl⟩ <;> try simp [chr]
    cases st <;> simp [PStep.tok, chr]
  have hin := he g' (adv s) (.ch (chr ')') :: rest) (by simp [B, PE.toks] at hg ⊢; omega) htk
    (stopAt_rparen 0) hst
  have hprim : pPrimary (g' + 1) s = .ok (done (.paren e) s) := by
    rw [pPrimary_paren _ _ hp hp2, hin, ok_bind]
    unfold expectCh
    have : peekTok (done e (adv s)) = .ch (chr ')') := by rw [peek_done e (adv s) _ htk]; rfl
    simp only [this, ↓reduceIte, done_paren]
    rfl
  have hd := peek_done (.paren e) s rest ht
  exact path_of_primary (g' + 1) s _ (pPath_paren _ _ hp) hprim (by rw [hd]; exact hs)

/-! ### function calls -/

theorem stopAt_comma (lvl : Nat) : stopAt lvl (.ch (chr ',')) := by
  refine ⟨fun j _ => ?_, by simp [chr], by simp [chr], by simp [chr], by simp, by simp [startsStep, chr]⟩
  rcases j with _ | _ | _ | _ | _ | _ | j <;> simp [binOpAt, chr]

theorem pPath_func (f : Nat) (s : PSt) (fn : Fn) (h : peekTok s = .func fn) : pPath (f + 1) s = pFilterPath f s := by
  simp only [pPath, h]

theorem expectCh_ok (c : Char) (s : PSt) (h : peekTok s = .ch (chr c)) : expectCh c s = .ok (adv s) := by
  simp only [expectCh, h, ↓reduceIte]; rfl

theorem first_not_rparen (e : PE) (rest : List Tok) : (e.toks ++ rest).headD .eof ≠ .ch (chr ')') := by
  obtain ⟨t, r, hr, hst'⟩ := toks_start e
  rw [hr]
  simp only [List.cons_append, List.headD_cons]
  rcases hst' with ⟨x, rfl⟩ | ⟨l, rfl⟩ | rfl | rfl | ⟨fn, rfl⟩ | rfl | rfl | ⟨st, rfl⟩ <;> try simp [chr]
  cases st <;> simp [PStep.tok, chr]

/-- one argument expression, followed by the token `t` (a comma or the closing parenthesis) -/
theorem arg_step (a : PE) (ha : T a 0) (f : Nat) (s : PSt) (t : Tok) (rest : List Tok) (hf : B a + 12 ≤ f)
    (ht : tk s = a.toks ++ (t :: rest)) (hs : stopAt 0 t) (hst : s.strict = false) :
    pLevel f 0 s = .ok (done a s) ∧ peekTok (done a s) = t :=
  ⟨ha f s (t :: rest) (by omega) ht hs hst, by rw [peek_done a s _ ht]; rfl⟩

theorem pPrimary_func (f : Nat) (s : PSt) (fn : Fn) (h : peekTok s = .func fn) :
    pPrimary (f + 1) s = (do
      let s ← expectCh '(' (adv s)
      let fin (s : PSt) (n : Nat) : PSt :=
        let s := if n ≠ fn.sig.1.length then setErr s "wrong number of arguments" else s
        emit s (.bltin fn)
      if peekTok s = .ch (chr ')') then pure (fin (adv s) 0)
      else do
        let s ← pLevel f 0 s
        if peekTok s = .ch (chr ')') then pure (fin (adv s) 1)
        else do
          let s ← expectCh ',' s
          let s ← pLevel f 0 s
          if peekTok s = .ch (chr ')') then pure (fin (adv s) 2)
          else do
            let s ← expectCh ',' s
            let s ← pLevel f 0 s
            let s ← expectCh ')' s
            pure (fin s 3)) := by
  simp only [pPrimary, h]

theorem comma_ne_rparen : (Tok.ch (chr ',')) ≠ .ch (chr ')') := by simp [chr]

theorem P_call0 (fn : Fn) (har : fn.sig.1.length = 0) : Pth (.call0 fn) := by
  intro g s rest hg ht hs hst
  have hp : peekTok s = .func fn := by rw [peek_tk, ht]; rfl
  obtain ⟨g', rfl⟩ : ∃ g', g = g' + 1 + 1 + 1 := ⟨g - 3, by simp [B, PE.toks] at hg; omega⟩
  have h1 : peekTok (adv s) = .ch (chr '(') := by rw [peek_tk, tk_adv, ht]; rfl
  have h2 : peekTok (adv (adv s)) = .ch (chr ')') := by rw [peek_tk, tk_adv, tk_adv, ht]; rfl
  have hprim : pPrimary (g' + 1) s = .ok (done (.call0 fn) s) := by
    rw [pPrimary_func _ _ fn hp, expectCh_ok _ _ h1, ok_bind]
    simp only [h2, ↓reduceIte, har, ne_eq, not_true_eq_false, done_call0]
    rfl
  have hd := peek_done (.call0 fn) s rest ht
  exact path_of_primary (g' + 1) s _ (pPath_func _ _ fn hp) hprim (by rw [hd]; exact hs)

theorem P_call1 (fn : Fn) (a : PE) (har : fn.sig.1.length = 1) (ha : T a 0) : Pth (.call1 fn a) := by
  intro g s rest hg ht hs hst
  have hp : peekTok s = .func fn := by rw [peek_tk, ht]; rfl
  obtain ⟨g', rfl⟩ : ∃ g', g = g' + 1 + 1 + 1 := ⟨g - 3, by simp [B, PE.toks] at hg; omega⟩
  have h1 : peekTok (adv s) = .ch (chr '(') := by rw [peek_tk, tk_adv, ht]; rfl
  have hta : tk (adv (adv s)) = a.toks ++ (.ch (chr ')') :: rest) := by rw [tk_adv, tk_adv, ht]; simp [PE.toks]
  have h2 : peekTok (adv (adv s)) ≠ .ch (chr ')') := by rw [peek_tk, hta]; exact first_not_rparen a _
  obtain ⟨pa, ka⟩ := arg_step a ha g' (adv (adv s)) _ rest (by simp [B, PE.toks] at hg ⊢; omega) hta (stopAt_rparen 0) hst
  have hprim : pPrimary (g' + 1) s = .ok (done (.call1 fn a) s) := by
    rw [pPrimary_func _ _ fn hp, expectCh_ok _ _ h1, ok_bind]
    simp only [h2, ↓reduceIte, pa, ok_bind, ka, har, ne_eq, not_true_eq_false, done_call1]
    rfl
  have hd := peek_done (.call1 fn a) s rest ht
  exact path_of_primary (g' + 1) s _ (pPath_func _ _ fn hp) hprim (by rw [hd]; exact hs)

theorem P_call2 (fn : Fn) (a b : PE) (har : fn.sig.1.length = 2) (ha : T a 0) (hb : T b 0) : Pth (.call2 fn a b) := by
  intro g s rest hg ht hs hst
  have hp : peekTok s = .func fn := by rw [peek_tk, ht]; rfl
  obtain ⟨g', rfl⟩ : ∃ g', g = g' + 1 + 1 + 1 := ⟨g - 3, by simp [B, PE.toks] at hg; omega⟩
  have h1 : peekTok (adv s) = .ch (chr '(') := by rw [peek_tk, tk_adv, ht]; rfl
  have hta : tk (adv (adv s)) = a.toks ++ (.ch (chr ',') :: (b.toks ++ (.ch (chr ')') :: rest))) := by
    rw [tk_adv, tk_adv, ht]; simp [PE.toks]
  have h2 : peekTok (adv (adv s)) ≠ .ch (chr ')') := by rw [peek_tk, hta]; exact first_not_rparen a _
  obtain ⟨pa, ka⟩ := arg_step a ha g' (adv (adv s)) _ _ (by simp [B, PE.toks] at hg ⊢; omega) hta (stopAt_comma 0) hst
  have htb : tk (adv (done a (adv (adv s)))) = b.toks ++ (.ch (chr ')') :: rest) := by
    rw [tk_adv, tk_done, hta]; simp
  obtain ⟨pb, kb⟩ := arg_step b hb g' (adv (done a (adv (adv s)))) _ rest (by simp [B, PE.toks] at hg ⊢; omega) htb
    (stopAt_rparen 0) hst
  have hprim : pPrimary (g' + 1) s = .ok (done (.call2 fn a b) s) := by
    rw [pPrimary_func _ _ fn hp, expectCh_ok _ _ h1, ok_bind]
    simp only [h2, ↓reduceIte, pa, ok_bind, ka, comma_ne_rparen, expectCh_ok ',' _ ka, pb, kb, har, ne_eq,
      not_true_eq_false, done_call2]
    rfl
  have hd := peek_done (.call2 fn a b) s rest ht
  exact path_of_primary (g' + 1) s _ (pPath_func _ _ fn hp) hprim (by rw [hd]; exact hs)

theorem P_call3 (fn : Fn) (a b c : PE) (har : fn.sig.1.length = 3) (ha : T a 0) (hb : T b 0) (hc : T c 0) :
    Pth (.call3 fn a b c) := by
  intro g s rest hg ht hs hst
  have hp : peekTok s = .func fn := by rw [peek_tk, ht]; rfl
  obtain ⟨g', rfl⟩ : ∃ g', g = g' + 1 + 1 + 1 := ⟨g - 3, by simp [B, PE.toks] at hg; omega⟩
  have h1 : peekTok (adv s) = .ch (chr '(') := by rw [peek_tk, tk_adv, ht]; rfl
  have hta : tk (adv (adv s)) =
      a.toks ++ (.ch (chr ',') :: (b.toks ++ (.ch (chr ',') :: (c.toks ++ (.ch (chr ')') :: rest))))) := by
    rw [tk_adv, tk_adv, ht]; simp [PE.toks]
  have h2 : peekTok (adv (adv s)) ≠ .ch (chr ')') := by rw [peek_tk, hta]; exact first_not_rparen a _
  obtain ⟨pa, ka⟩ := arg_step a ha g' (adv (adv s)) _ _ (by simp [B, PE.toks] at hg ⊢; omega) hta (stopAt_comma 0) hst
  have htb : tk (adv (done a (adv (adv s)))) = b.toks ++ (.ch (chr ',') :: (c.toks ++ (.ch (chr ')') :: rest))) := by
    rw [tk_adv, tk_done, hta]; simp
  obtain ⟨pb, kb⟩ := arg_step b hb g' (adv (done a (adv (adv s)))) _ _ (by simp [B, PE.toks] at hg ⊢; omega) htb
    (stopAt_comma 0) hst
  have htc : tk (adv (done b (adv (done a (adv (adv s)))))) = c.toks ++ (.ch (chr ')') :: rest) := by
    rw [tk_adv, tk_done, htb]; simp
  obtain ⟨pc, kc⟩ := arg_step c hc g' (adv (done b (adv (done a (adv (adv s)))))) _ rest
    (by simp [B, PE.toks] at hg ⊢; omega) htc (stopAt_rparen 0) hst
  have hprim : pPrimary (g' + 1) s = .ok (done (.call3 fn a b c) s) := by
    rw [pPrimary_func _ _ fn hp, expectCh_ok _ _ h1, ok_bind]
    simp only [h2, ↓reduceIte, pa, ok_bind, ka, comma_ne_rparen, expectCh_ok ',' _ ka, pb, kb, expectCh_ok ',' _ kb, pc,
      expectCh_ok ')' _ kc, har, ne_eq, not_true_eq_false, done_call3]
    rfl
  have hd := peek_done (.call3 fn a b c) s rest ht
  exact path_of_primary (g' + 1) s _ (pPath_func _ _ fn hp) hprim (by rw [hd]; exact hs)

theorem U_num (x : SF) : U (.num x) := U_of_Pth _ (P_num x) rfl
theorem U_lit (l : List Rune) : U (.lit l) := U_of_Pth _ (P_lit l) rfl
theorem U_paren (e : PE) (he : T e 0) : U (.paren e) := U_of_Pth _ (P_paren e he) rfl
theorem U_call0 (fn : Fn) (har : fn.sig.1.length = 0) : U (.call0 fn) := U_of_Pth _ (P_call0 fn har) rfl
theorem U_call1 (fn : Fn) (a : PE) (har : fn.sig.1.length = 1) (ha : T a 0) : U (.call1 fn a) :=
  U_of_Pth _ (P_call1 fn a har ha) rfl
theorem U_call2 (fn : Fn) (a b : PE) (har : fn.sig.1.length = 2) (ha : T a 0) (hb : T b 0) : U (.call2 fn a b) :=
  U_of_Pth _ (P_call2 fn a b har ha hb) rfl
theorem U_call3 (fn : Fn) (a b c : PE) (har : fn.sig.1.length = 3) (ha : T a 0) (hb : T b 0) (hc : T c 0) :
    U (.call3 fn a b c) := U_of_Pth _ (P_call3 fn a b c har ha hb hc) rfl

/-! ### location paths -/


theorem tk_doneG (n : Nat) (code : List PI) (s : PSt) : tk (doneG n code s) = (tk s).drop n := by
  simp [tk, doneG, advN, List.map_drop]

theorem relTail_stop (s : PSt) (h1 : peekTok s ≠ .ch (chr '/')) (h2 : peekTok s ≠ .dblslash) (f : Nat) :
    (match peekTok s with
      | .ch c => if c = chr '/' then pRelPath f (adv s) else pure s
      | .dblslash => pRelPath f (setErr (adv s) "// unsupported")
      | _ => pure s : P PSt) = .ok s := by
  split
  · rename_i c hc
    have : c ≠ chr '/' := fun e => h1 (by rw [hc, e])
    simp only [this, ↓reduceIte]; rfl
  · rename_i hc; exact absurd hc h2
  · rfl

theorem drop_step {α : Type} (x : α) (a b : List α) : (x :: (a ++ b)).drop (1 + a.length) = b := by
  rw [Nat.add_comm]; simp

theorem stopAt_rbracket (lvl : Nat) : stopAt lvl (.ch (chr ']')) := by
  refine ⟨fun j _ => ?_, by simp [chr], by simp [chr], by simp [chr], by simp, by simp [startsStep, chr]⟩
  rcases j with _ | _ | _ | _ | _ | _ | j <;> simp [binOpAt, chr]

theorem doneG_strict (n : Nat) (c : List PI) (s : PSt) : (doneG n c s).strict = s.strict := rfl

theorem pPreds_succ (f : Nat) (s : PSt) (h : peekTok s = .ch (chr '[')) :
    pPreds (f + 1) s = (pLevel f 0 (emit (adv s) .predStart) >>= fun s => expectCh ']' s >>= fun s =>
      pPreds f (emit s .predEnd)) := by
  simp only [pPreds, h, ↓reduceIte]

/-- predicates, each `[` expression `]`, up to a token that is not `[` -/
theorem pPreds_ok : ∀ (preds : List Blk) (f : Nat) (s : PSt) (rest : List Tok), (∀ b ∈ preds, BlkOK b) →
    tk s = blkToks preds ++ rest → rest.headD .eof ≠ .ch (chr '[') → 20 * (blkToks preds).length + 1 ≤ f →
    s.strict = false → pPreds f s = .ok (doneG (blkToks preds).length (blkCode preds) s) := by
  intro preds
  induction preds with
  | nil =>
    intro f s rest _ ht hr hf _
    obtain ⟨f', rfl⟩ : ∃ f', f = f' + 1 := ⟨f - 1, by omega⟩
    have hp : peekTok s ≠ .ch (chr '[') := by rw [peek_tk, ht]; simpa [blkToks] using hr
    rw [pPreds_stop f' s hp]
    apply congrArg
    apply PSt.ext' <;> simp [doneG, advN, blkToks, blkCode]
  | cons b r ih =>
    intro f s rest hok ht hr hf hst
    obtain ⟨f', rfl⟩ : ∃ f', f = f' + 1 := ⟨f - 1, by omega⟩
    have ht' : tk s = .ch (chr '[') :: (b.toks ++ (.ch (chr ']') :: (blkToks r ++ rest))) := by
      simpa [blkToks] using ht
    have hp : peekTok s = .ch (chr '[') := by rw [peek_tk, ht']; rfl
    have hb := hok b (by simp) f' (emit (adv s) .predStart) (.ch (chr ']') :: (blkToks r ++ rest))
      (by simp [blkToks] at hf; omega) (by show tk (adv s) = _; rw [tk_adv, ht']; simp) (stopAt_rbracket 0) hst
    rw [pPreds_succ f' s hp, hb, ok_bind]
    have hpk : peekTok (doneG b.toks.length b.code (emit (adv s) .predStart)) = .ch (chr ']') := by
      rw [peek_tk, tk_doneG]; show ((tk (adv s)).drop _).headD .eof = _
      rw [tk_adv, ht']; simp
    rw [expectCh_ok ']' _ hpk, ok_bind]
    rw [ih f' (emit (adv (doneG b.toks.length b.code (emit (adv s) .predStart))) .predEnd) rest
      (fun x hx => hok x (by simp [hx]))
      (by show tk (adv (doneG b.toks.length b.code (emit (adv s) .predStart))) = _
          rw [tk_adv, tk_doneG]; show (((tk (adv s)).drop _).drop 1) = _
          rw [tk_adv, ht']; simp)
      hr (by simp [blkToks] at hf ⊢; omega) hst]
    apply congrArg
    apply PSt.ext' <;>
      simp [doneG, advN, adv, emit, blkToks, blkCode, List.drop_drop, Nat.add_comm, Nat.add_assoc, Nat.add_left_comm] <;>
      omega

theorem step_toks_length (st : PStep) : (st.tok :: st.rest).length = 1 + st.rest.length := by simp; omega

/-- one step with its predicates -/
theorem pStep_ok (f : Nat) (s : PSt) (st : PStep) (rest : List Tok) (hok : st.ok) (ht : tk s = st.tok :: (st.rest ++ rest))
    (h2 : rest.headD .eof ≠ .ch (chr '[')) (hf : 20 * (1 + st.rest.length) + 2 ≤ f + 1) (hst : s.strict = false) :
    pStep (f + 1) s = .ok (doneG (1 + st.rest.length) st.code s) := by
  have hp : peekTok s = st.tok := by rw [peek_tk, ht]; rfl
  cases st with
  | name p l preds =>
    simp only [PStep.tok] at hp
    cases preds with
    | nil =>
      have hn : peekTok (emit (adv s) (.namePush p l)) ≠ .ch (chr '[') := by
        show peekTok (adv s) ≠ _
        rw [peek_tk, tk_adv, ht]; simpa [PStep.rest, blkToks] using h2
      simp only [pStep, hp, hn, ↓reduceIte]
      change Except.ok _ = Except.ok _
      apply congrArg
      apply PSt.ext' <;> simp [doneG, advN, adv, emit, PStep.rest, PStep.code, blkToks]
    | cons b r =>
      have hn : peekTok (emit (adv s) (.namePush p l)) = .ch (chr '[') := by
        show peekTok (adv s) = _
        rw [peek_tk, tk_adv, ht]; simp [PStep.rest, blkToks]
      have hpr := pPreds_ok (b :: r) f (emit (emit (adv s) (.namePush p l)) .predicatesStart) rest hok
        (by show tk (adv s) = _; rw [tk_adv, ht]; simp [PStep.rest])
        h2 (by simp [PStep.rest] at hf ⊢; omega) hst
      simp only [pStep, hp, hn, ↓reduceIte]
      rw [hpr]
      change Except.ok _ = Except.ok _
      apply congrArg
      apply PSt.ext' <;>
        simp [doneG, advN, adv, emit, PStep.rest, PStep.code, List.drop_drop, Nat.add_comm] <;> omega
  | up =>
    simp only [PStep.tok] at hp
    simp only [pStep, hp]
    change Except.ok _ = Except.ok _
    apply congrArg
    apply PSt.ext' <;> simp [doneG, advN, adv, emit, PStep.rest, PStep.code]
  | dot =>
    simp only [PStep.tok] at hp
    simp only [pStep, hp, ↓reduceIte]
    change Except.ok _ = Except.ok _
    apply congrArg
    apply PSt.ext' <;> simp [doneG, advN, adv, PStep.rest, PStep.code]

theorem pRelPath_succ (f : Nat) (s : PSt) :
    pRelPath (f + 1) s = (pStep f s >>= fun s =>
      (match peekTok s with
        | .ch c => if c = chr '/' then pRelPath f (adv s) else pure s
        | .dblslash => pRelPath f (setErr (adv s) "// unsupported")
        | _ => pure s : P PSt)) := by
  simp only [pRelPath]
  rfl

/-- the tokens of a step followed by further steps each after a `/` -/
def relToks (st : PStep) (r : List PStep) : List Tok := st.tok :: (st.rest ++ sepToks r)

/-- a step, then further steps each after a `/`, up to a token that is none of `/`, `//`, `[` -/
theorem relPath_ok : ∀ (r : List PStep) (st : PStep) (f : Nat) (s : PSt) (rest : List Tok),
    st.ok → (∀ x ∈ r, x.ok) → 20 * (relToks st r).length + 3 ≤ f →
    tk s = relToks st r ++ rest → rest.headD .eof ≠ .ch (chr '/') → rest.headD .eof ≠ .dblslash →
    rest.headD .eof ≠ .ch (chr '[') → s.strict = false →
    pRelPath f s = .ok (doneG (relToks st r).length (st.code ++ stepsCode r) s) := by
  intro r
  induction r with
  | nil =>
    intro st f s rest hok _ hf ht h1 h2 h3 hst
    obtain ⟨f', rfl⟩ : ∃ f', f = f' + 1 + 1 := ⟨f - 2, by simp [relToks] at hf; omega⟩
    have ht' : tk s = st.tok :: (st.rest ++ rest) := by simpa [relToks, sepToks] using ht
    rw [pRelPath_succ, pStep_ok f' s st rest hok ht' h3 (by simp [relToks, sepToks] at hf; omega) hst, ok_bind]
    have hd : peekTok (doneG (1 + st.rest.length) st.code s) = rest.headD .eof := by
      rw [peek_tk, tk_doneG, ht', drop_step]
    rw [relTail_stop _ (by rw [hd]; exact h1) (by rw [hd]; exact h2)]
    simp [relToks, sepToks, stepsCode, Nat.add_comm]
  | cons st2 r ih =>
    intro st f s rest hok hoks hf ht h1 h2 h3 hst
    obtain ⟨f', rfl⟩ : ∃ f', f = f' + 1 + 1 := ⟨f - 2, by simp [relToks] at hf; omega⟩
    have ht' : tk s = st.tok :: (st.rest ++ (.ch (chr '/') :: (relToks st2 r ++ rest))) := by
      simpa [relToks, sepToks] using ht
    rw [pRelPath_succ, pStep_ok f' s st _ hok ht' (by simp [chr]) (by simp [relToks, sepToks] at hf; omega) hst, ok_bind]
    have hd : peekTok (doneG (1 + st.rest.length) st.code s) = .ch (chr '/') := by
      rw [peek_tk, tk_doneG, ht', drop_step]; rfl
    rw [hd]
    simp only [↓reduceIte]
    rw [ih st2 (f' + 1) (adv (doneG (1 + st.rest.length) st.code s)) rest (hoks st2 (by simp))
      (fun x hx => hoks x (by simp [hx])) (by simp [relToks, sepToks] at hf ⊢; omega)
      (by rw [tk_adv, tk_doneG, ht', drop_step]; rfl) h1 h2 h3 hst]
    apply congrArg
    apply PSt.ext' <;>
      simp [doneG, advN, adv, relToks, sepToks, stepsCode, List.drop_drop, Nat.add_comm, Nat.add_assoc, Nat.add_left_comm] <;>
      omega

theorem step_starts (st : PStep) : startsStep st.tok = true := by
  cases st <;> simp [PStep.tok, startsStep, chr]

theorem pPath_step (f : Nat) (s : PSt) (st : PStep) (h : peekTok s = st.tok) :
    pPath (f + 1) s = (pRelPath f s >>= fun s => pure (emit s .evalLocPath)) := by
  cases st with
  | name p l preds => simp only [PStep.tok] at h; simp only [pPath, h]
  | up => simp only [PStep.tok] at h; simp only [pPath, h]
  | dot =>
    simp only [PStep.tok] at h
    simp only [pPath, h]
    simp [chr]

theorem sepToks_cons (st : PStep) (r : List PStep) : sepToks (st :: r) = .ch (chr '/') :: relToks st r := rfl

theorem P_path (root : PRoot) (steps : List PStep) (hok : pathOK root steps) : Pth (.path root steps) := by
  intro g s rest hg ht hs hst
  have hr1 := hs.2.1
  have hr2 := hs.2.2.1
  have hr3 := hs.1
  cases root with
  | abs =>
    have hp : peekTok s = .ch (chr '/') := by
      rw [peek_tk, ht]; cases steps <;> rfl
    obtain ⟨g', rfl⟩ : ∃ g', g = g' + 1 := ⟨g - 1, by simp [B] at hg; omega⟩
    cases steps with
    | nil =>
      have hn : peekTok (emit (adv s) .pathRoot) = rest.headD .eof := by
        show peekTok (adv s) = _
        rw [peek_tk, tk_adv, ht]; simp [PE.toks, pathToks]
      have : pPath (g' + 1) s = .ok (done (.path .abs []) s) := by
        simp only [pPath, hp]
        simp only [show chr '/' ≠ chr '(' by simp [chr], ↓reduceIte, hn, hs.2.2.2, Bool.false_eq_true]
        change Except.ok _ = Except.ok _
        apply congrArg
        apply PSt.ext' <;> simp [done, advN, adv, emit, PE.toks, PE.code, pathToks, pathCode, stepsCode]
      exact this
    | cons st r =>
      have hn : peekTok (emit (adv s) .pathRoot) = st.tok := by
        show peekTok (adv s) = _
        rw [peek_tk, tk_adv, ht]; simp [PE.toks, pathToks, sepToks]
      have hrel := relPath_ok r st g' (emit (adv s) .pathRoot) rest (hok st (by simp)) (fun x hx => hok x (by simp [hx]))
        (by simp [B, PE.toks, pathToks, sepToks_cons] at hg ⊢; omega)
        (by show tk (adv s) = _; rw [tk_adv, ht]; simp [PE.toks, pathToks, sepToks_cons]) hr1 hr2 hr3 hst
      have : pPath (g' + 1) s = .ok (done (.path .abs (st :: r)) s) := by
        simp only [pPath, hp]
        simp only [show chr '/' ≠ chr '(' by simp [chr], ↓reduceIte, hn, step_starts, hrel]
        change Except.ok _ = Except.ok _
        apply congrArg
        apply PSt.ext' <;>
          simp [done, doneG, advN, adv, emit, PE.toks, PE.code, pathToks, pathCode, stepsCode, sepToks_cons, List.drop_drop,
            Nat.add_comm, Nat.add_assoc, Nat.add_left_comm] <;> omega
      exact this
  | rel f =>
    have hp : peekTok s = f.tok := by rw [peek_tk, ht]; rfl
    obtain ⟨g', rfl⟩ : ∃ g', g = g' + 1 := ⟨g - 1, by simp [B] at hg; omega⟩
    have hrel := relPath_ok steps f g' s rest hok.1 hok.2
      (by simp [B, PE.toks, pathToks, relToks] at hg ⊢; omega) (by rw [ht]; simp [PE.toks, pathToks, relToks]) hr1 hr2 hr3 hst
    have : pPath (g' + 1) s = .ok (done (.path (.rel f) steps) s) := by
      rw [pPath_step g' s f hp, hrel, ok_bind]
      change Except.ok _ = Except.ok _
      apply congrArg
      apply PSt.ext' <;>
        simp [done, doneG, advN, adv, emit, PE.toks, PE.code, pathToks, pathCode, relToks, Nat.add_comm]
    exact this
  | cur =>
    have hp : peekTok s = .currentfunc := by rw [peek_tk, ht]; rfl
    obtain ⟨g', rfl⟩ : ∃ g', g = g' + 1 := ⟨g - 1, by simp [B] at hg; omega⟩
    have h1 : peekTok (adv s) = .ch (chr '(') := by rw [peek_tk, tk_adv, ht]; simp [PE.toks, pathToks]
    have h2 : peekTok (adv (adv s)) = .ch (chr ')') := by rw [peek_tk, tk_adv, tk_adv, ht]; simp [PE.toks, pathToks]
    cases steps with
    | nil =>
      have hn : peekTok (emit (adv (adv (adv s))) .pathSetCurrent) = rest.headD .eof := by
        show peekTok (adv (adv (adv s))) = _
        rw [peek_tk, tk_adv, tk_adv, tk_adv, ht]; simp [PE.toks, pathToks, sepToks]
      have : pPath (g' + 1) s = .ok (done (.path .cur []) s) := by
        simp only [pPath, hp]
        rw [expectCh_ok '(' _ h1, ok_bind, expectCh_ok ')' _ h2, ok_bind]
        simp only [hn, hr1, ↓reduceIte]
        change Except.ok _ = Except.ok _
        apply congrArg
        apply PSt.ext' <;> simp [done, advN, adv, emit, PE.toks, PE.code, pathToks, pathCode, stepsCode, sepToks, Nat.add_assoc]
      exact this
    | cons st r =>
      have hn : peekTok (emit (adv (adv (adv s))) .pathSetCurrent) = .ch (chr '/') := by
        show peekTok (adv (adv (adv s))) = _
        rw [peek_tk, tk_adv, tk_adv, tk_adv, ht]; simp [PE.toks, pathToks, sepToks]
      have hrel := relPath_ok r st g' (adv (emit (adv (adv (adv s))) .pathSetCurrent)) rest (hok st (by simp))
        (fun x hx => hok x (by simp [hx]))
        (by simp [B, PE.toks, pathToks, sepToks_cons] at hg ⊢; omega)
        (by show tk (adv (adv (adv (adv s)))) = _
            rw [tk_adv, tk_adv, tk_adv, tk_adv, ht]; simp [PE.toks, pathToks, sepToks_cons]) hr1 hr2 hr3 hst
      have : pPath (g' + 1) s = .ok (done (.path .cur (st :: r)) s) := by
        simp only [pPath, hp]
        rw [expectCh_ok '(' _ h1, ok_bind, expectCh_ok ')' _ h2, ok_bind]
        simp only [hn, ↓reduceIte, hrel]
        change Except.ok _ = Except.ok _
        apply congrArg
        apply PSt.ext' <;>
          simp [done, doneG, advN, adv, emit, PE.toks, PE.code, pathToks, pathCode, stepsCode, sepToks_cons, List.drop_drop,
            Nat.add_comm, Nat.add_assoc, Nat.add_left_comm] <;> omega
      exact this

theorem U_path (root : PRoot) (steps : List PStep) (hok : pathOK root steps) : U (.path root steps) :=
  U_of_Pth _ (P_path root steps hok) rfl

theorem pLevelRest_op (g k : Nat) (s : PSt) (i : PI) (h : binOpAt k (peekTok s) = some i) :
    pLevelRest (g + 1) k s = (pLevel g (k + 1) (adv s) >>= fun s2 => pLevelRest g k (emit s2 i)) := by
  simp only [pLevelRest, h]

theorem C_bin (op : BinOp) (a b : PE) (ha : C a (level op)) (hb : T b (level op + 1)) :
    C (.bin op a b) (level op) := by
  intro f s rest G r hG hf ht hs hst hr
  have hk : level op ≤ 5 := by cases op <;> simp [level]
  have hta : tk s = a.toks ++ (opTok op :: (b.toks ++ rest)) := by rw [ht]; simp [PE.toks]
  apply ha f s (opTok op :: (b.toks ++ rest)) (B b + 2 * (5 - level op) + G + 1) r (by omega)
    (by simp only [B, PE.toks, List.length_append, List.length_cons] at hf ⊢; omega) hta (stopAt_opTok op) hst
  intro g hg
  cases g with
  | zero => omega
  | succ g =>
    have hpk : peekTok (done a s) = opTok op := by rw [peek_done a s _ hta]; rfl
    rw [pLevelRest_op g _ _ (binPI op) (by rw [hpk]; exact binOpAt_opTok op)]
    have htb : tk (adv (done a s)) = b.toks ++ rest := by rw [tk_adv, tk_done, hta]; simp
    rw [hb g (adv (done a s)) rest (by omega) htb hs (by rw [show (adv (done a s)).strict = s.strict from rfl]; exact hst), ok_bind,
      ← done_bin]
    exact hr g (by omega)

/-! ### unions -/

/-- a union-level expression where a unary expression is expected, the loop over '|' going on after it -/
def UC (e : PE) : Prop :=
  ∀ (g : Nat) (s : PSt) (rest : List Tok) (G : Nat) (r : P PSt), 1 ≤ G → B e + G ≤ g + 3 → tk s = e.toks ++ rest →
    stopP (rest.headD .eof) → s.strict = false →
    (∀ g', G ≤ g' → pUnionRest g' (done e s) = r) → (pPath g s >>= pUnionRest g) = r

theorem UC_of_Pth (e : PE) (h : Pth e) : UC e := by
  intro g s rest G r hG hg ht hs hst hr
  have hB : 8 ≤ B e := by simp [B]
  rw [h g s rest (by omega) ht hs hst, ok_bind]
  exact hr g (by omega)

theorem pUnionRest_bar (g : Nat) (s : PSt) (h : peekTok s = .ch (chr '|')) :
    pUnionRest (g + 1) s = (pPath g (adv s) >>= fun s2 => pUnionRest g (emit s2 .union)) := by
  simp only [pUnionRest, h, ↓reduceIte]

/-- **union is left-associative and binds tighter than everything else**: `a | b` after the operands so far -/
theorem UC_union (a b : PE) (ha : UC a) (hb : Pth b) : UC (.union a b) := by
  intro g s rest G r hG hg ht hs hst hr
  have hta : tk s = a.toks ++ (.ch (chr '|') :: (b.toks ++ rest)) := by rw [ht]; simp [PE.toks]
  have hBu : B (.union a b) = B a + B b + 12 := by simp only [B, PE.toks, List.length_append, List.length_cons]; omega
  apply ha g s _ (G + B b + 1) r (by omega) (by omega) hta stopP_bar hst
  intro g' hg'
  obtain ⟨g'', rfl⟩ : ∃ g'', g' = g'' + 1 := ⟨g' - 1, by omega⟩
  have hpk : peekTok (done a s) = .ch (chr '|') := by rw [peek_done a s _ hta]; rfl
  have htb : tk (adv (done a s)) = b.toks ++ rest := by rw [tk_adv, tk_done, hta]; simp
  rw [pUnionRest_bar _ _ hpk, hb g'' (adv (done a s)) rest (by omega) htb hs
    (by rw [show (adv (done a s)).strict = s.strict from rfl]; exact hst), ok_bind, ← done_union]
  exact hr g'' (by omega)

theorem U_of_UC (e : PE) (h : UC e) (hfirst : ∀ rest, (e.toks ++ rest).headD .eof ≠ .ch (chr '-')) : U e := by
  intro g s rest hg ht hs hst
  have hB : 8 ≤ B e := by simp [B]
  obtain ⟨g', rfl⟩ : ∃ g', g = g' + 1 := ⟨g - 1, by omega⟩
  have hneg : peekTok s ≠ .ch (chr '-') := by rw [peek_tk, ht]; exact hfirst rest
  rw [pUnary_pos _ _ hneg]
  apply h g' s rest 1 _ (Nat.le_refl _) (by omega) ht (stopP_of_stopAt hs) hst
  intro g'' hg''
  obtain ⟨g3, rfl⟩ : ∃ g3, g'' = g3 + 1 := ⟨g'' - 1, by omega⟩
  exact pUnionRest_stop _ _ (by rw [peek_done e s rest ht]; exact hs.2.1)

theorem ul_first : ∀ (e : PE), e.ul = true → e.fits 6 → ∀ rest, (e.toks ++ rest).headD .eof ≠ .ch (chr '-')
  | .union a b, _, hf, rest => by
    have := ul_first a hf.1 hf.2.1 (.ch (chr '|') :: (b.toks ++ rest))
    simpa [PE.toks] using this
  | .path r st, h, _, rest => pl_first _ rfl rest
  | .num x, h, _, rest => pl_first _ rfl rest
  | .lit x, h, _, rest => pl_first _ rfl rest
  | .paren e, h, _, rest => pl_first _ rfl rest
  | .call0 f, h, _, rest => pl_first _ rfl rest
  | .call1 f a, h, _, rest => pl_first _ rfl rest
  | .call2 f a b, h, _, rest => pl_first _ rfl rest
  | .call3 f a b c, h, _, rest => pl_first _ rfl rest
  | .neg e, h, _, _ => by simp [PE.ul, PE.pl] at h
  | .bin op a b, h, _, _ => by simp [PE.ul, PE.pl] at h

/-- what the five statements need of an expression that `pPath` parses directly -/
theorem from_Pth (e : PE) (hpl : e.pl = true) (hfl : ∀ l, e.fits l → e.fits 6) (hp : e.fits 6 → Pth e) :
    (∀ lvl, lvl ≤ 6 → e.fits lvl → T e lvl) ∧ (∀ k, k ≤ 5 → e.fits k → C e k) ∧ (e.fits 6 → U e) ∧
      (e.pl = true → e.fits 6 → Pth e) ∧ (e.ul = true → e.fits 6 → UC e) := by
  have hu : e.fits 6 → U e := fun hf => U_of_Pth e (hp hf) hpl
  refine ⟨fun lvl h hf => ?_, fun k h hf => ?_, hu, fun _ => hp, fun _ hf => UC_of_Pth e (hp hf)⟩
  · exact ((ladder _ 6 (Nat.le_refl _) (T6_of_U _ (hu (hfl _ hf)))) (6 - lvl) lvl (by omega)).1
  · exact ((ladder _ 6 (Nat.le_refl _) (T6_of_U _ (hu (hfl _ hf)))) (6 - k) k (by omega)).2 (by omega)

/-- **precedence and associativity**: every expression that carries the parentheses its shape needs parses,
    at every level it fits, to the postfix code of its tree -/
theorem prec_all (e : PE) :
    (∀ lvl, lvl ≤ 6 → e.fits lvl → T e lvl) ∧ (∀ k, k ≤ 5 → e.fits k → C e k) ∧ (e.fits 6 → U e) ∧
      (e.pl = true → e.fits 6 → Pth e) ∧ (e.ul = true → e.fits 6 → UC e) := by
  induction e with
  | path root steps => exact from_Pth _ rfl (fun _ h => h) (fun hf => P_path root steps hf)
  | num x => exact from_Pth _ rfl (fun _ h => h) (fun _ => P_num x)
  | lit l => exact from_Pth _ rfl (fun _ h => h) (fun _ => P_lit l)
  | paren e ih => exact from_Pth _ rfl (fun _ h => h) (fun hf => P_paren e (ih.1 0 (by omega) hf))
  | call0 fn => exact from_Pth _ rfl (fun _ h => h) (fun hf => P_call0 fn hf)
  | call1 fn a iha => exact from_Pth _ rfl (fun _ h => h) (fun hf => P_call1 fn a hf.1 (iha.1 0 (by omega) hf.2))
  | call2 fn a b iha ihb =>
    exact from_Pth _ rfl (fun _ h => h) (fun hf => P_call2 fn a b hf.1 (iha.1 0 (by omega) hf.2.1) (ihb.1 0 (by omega) hf.2.2))
  | call3 fn a b c iha ihb ihc =>
    exact from_Pth _ rfl (fun _ h => h) (fun hf =>
      P_call3 fn a b c hf.1 (iha.1 0 (by omega) hf.2.1) (ihb.1 0 (by omega) hf.2.2.1) (ihc.1 0 (by omega) hf.2.2.2))
  | neg e ih =>
    have hu : (PE.neg e).fits 6 → U (.neg e) := fun hf => U_neg e (ih.2.2.1 hf)
    refine ⟨fun lvl h hf => ?_, fun k h hf => ?_, hu, fun h => by simp [PE.pl] at h, fun h => by simp [PE.ul, PE.pl] at h⟩
    · exact ((ladder _ 6 (Nat.le_refl _) (T6_of_U _ (hu hf))) (6 - lvl) lvl (by omega)).1
    · exact ((ladder _ 6 (Nat.le_refl _) (T6_of_U _ (hu hf))) (6 - k) k (by omega)).2 (by omega)
  | union a b iha ihb =>
    have huc : (PE.union a b).fits 6 → UC (.union a b) := fun hf =>
      UC_union a b (iha.2.2.2.2 hf.1 hf.2.1) (ihb.2.2.2.1 hf.2.2.1 hf.2.2.2)
    have hu : (PE.union a b).fits 6 → U (.union a b) := fun hf =>
      U_of_UC _ (huc hf) (ul_first _ rfl hf)
    refine ⟨fun lvl h hf => ?_, fun k h hf => ?_, hu, fun h => by simp [PE.pl] at h, fun _ hf => huc hf⟩
    · exact ((ladder _ 6 (Nat.le_refl _) (T6_of_U _ (hu hf))) (6 - lvl) lvl (by omega)).1
    · exact ((ladder _ 6 (Nat.le_refl _) (T6_of_U _ (hu hf))) (6 - k) k (by omega)).2 (by omega)
  | bin op a b iha ihb =>
    have hk : level op ≤ 5 := by cases op <;> simp [level]
    have hc : ∀ l, (PE.bin op a b).fits l → C (.bin op a b) (level op) := fun l hf =>
      C_bin op a b (iha.2.1 (level op) hk hf.2.1) (ihb.1 (level op + 1) (by omega) hf.2.2)
    refine ⟨fun lvl h hf => ?_, fun k h hf => ?_, fun hf => ?_, fun h => by simp [PE.pl] at h, fun h => by simp [PE.ul, PE.pl] at h⟩
    · have hle : lvl ≤ level op := hf.1
      exact ((ladder _ (level op) (by omega) (T_of_C _ _ (hc lvl hf))) (level op - lvl) lvl (by omega)).1
    · have hle : k ≤ level op := hf.1
      by_cases he : k = level op
      · subst he; exact hc _ hf
      · exact ((ladder _ (level op) (by omega) (T_of_C _ _ (hc k hf))) (level op - k) k (by omega)).2 (by omega)
    · have : 6 ≤ level op := hf.1
      omega

theorem prec_main (e : PE) :
    (∀ lvl, lvl ≤ 6 → e.fits lvl → T e lvl) ∧ (∀ k, k ≤ 5 → e.fits k → C e k) ∧ (e.fits 6 → U e) :=
  ⟨(prec_all e).1, (prec_all e).2.1, (prec_all e).2.2.1⟩


/-! ### the whole parser -/

/-- the tree behind the written expression: parentheses removed -/
inductive ET where
  | path (code : List PI)      -- a location path: what it compiles to (its predicates' texts may differ in parentheses)
  | num (x : SF) | lit (s : List Rune) | neg (e : ET) | bin (op : BinOp) (a b : ET) | union (a b : ET)
  | call0 (fn : Fn) | call1 (fn : Fn) (a : ET) | call2 (fn : Fn) (a b : ET) | call3 (fn : Fn) (a b c : ET)
  deriving Repr, DecidableEq

def PE.tree : PE → ET
  | .path root steps => .path (pathCode root steps)
  | .num x => .num x
  | .lit s => .lit s
  | .paren e => e.tree
  | .neg e => .neg e.tree
  | .bin op a b => .bin op a.tree b.tree
  | .union a b => .union a.tree b.tree
  | .call0 fn => .call0 fn
  | .call1 fn a => .call1 fn a.tree
  | .call2 fn a b => .call2 fn a.tree b.tree
  | .call3 fn a b c => .call3 fn a.tree b.tree c.tree

def ET.code : ET → List PI
  | .path c => c
  | .num x => [.num x]
  | .lit s => [.lit s]
  | .neg e => e.code ++ [.negate]
  | .bin op a b => a.code ++ b.code ++ [binPI op]
  | .union a b => a.code ++ b.code ++ [.union]
  | .call0 fn => [.bltin fn]
  | .call1 fn a => a.code ++ [.bltin fn]
  | .call2 fn a b => a.code ++ b.code ++ [.bltin fn]
  | .call3 fn a b c => a.code ++ b.code ++ c.code ++ [.bltin fn]

theorem code_tree (e : PE) : e.code = e.tree.code := by
  induction e with
  | path root steps => rfl
  | num x => rfl
  | lit s => rfl
  | paren e ih => simpa [PE.code, PE.tree] using ih
  | neg e ih => simp [PE.code, PE.tree, ET.code, ih]
  | bin op a b iha ihb => simp [PE.code, PE.tree, ET.code, iha, ihb]
  | union a b iha ihb => simp [PE.code, PE.tree, ET.code, iha, ihb]
  | call0 fn => rfl
  | call1 fn a iha => simp [PE.code, PE.tree, ET.code, iha]
  | call2 fn a b iha ihb => simp [PE.code, PE.tree, ET.code, iha, ihb]
  | call3 fn a b c iha ihb ihc => simp [PE.code, PE.tree, ET.code, iha, ihb, ihc]

/-- `parseExprToks` on the tokens of a written expression (followed by the end-of-input token): the
    program is the postfix code of the tree, then `store` -/
theorem parseExprToks_spec (e : PE) (hf : e.fits 0) (toks : List LexedTok)
    (ht : toks.map (·.tok) = e.toks ++ [.eof]) :
    ∃ s', parseExprToks false toks = .ok s' ∧ s'.out.reverse = e.tree.code ++ [.store] ∧ s'.perr = none := by
  have hT := (prec_main e).1 0 (by omega) hf
  have hlen : toks.length = e.toks.length + 1 := by
    have := congrArg List.length ht; simpa using this
  have h := hT (24 * toks.length + 24) { toks := toks, strict := false } [.eof]
    (by simp only [B]; omega) ht
    ⟨fun j _ => by rcases j with _ | _ | _ | _ | _ | _ | j <;> simp [binOpAt], by simp, by simp, by simp, by simp, rfl⟩ rfl
  refine ⟨emit (done e { toks := toks, strict := false }) .store, ?_, ?_, rfl⟩
  · unfold parseExprToks
    rw [h, ok_bind]
    have : peekTok (done e { toks := toks, strict := false }) = .eof := by
      rw [peek_done e { toks := toks, strict := false } [.eof] ht]; rfl
    simp only [this, ↓reduceIte]
    rfl
  · simp [emit, done, code_tree]

/-- every written expression can stand in a predicate: predicates nest to any depth -/
theorem blk_of (e : PE) (hf : e.fits 0) : BlkOK ⟨e.toks, e.code⟩ := by
  intro f s rest hfu ht hs hst
  have hT := (prec_main e).1 0 (by omega) hf
  exact hT f s rest (by simp only [B]; simp only at hfu; omega) ht hs hst

end YV.XP
