/-
  Proofs.YCycle — the chain-remembering walk reports a cycle only if one exists (soundness: an acyclic
  set of definitions — diamonds included — is never rejected).
-/
import YV.Model.YCycle
namespace YV.Cyc

variable {α : Type} [DecidableEq α]

theorem Path.append {succ : α → List α} {a b c : α} {p q : List α}
    (h1 : Path succ a p b) (h2 : Path succ b q c) : Path succ a (p ++ q) c := by
  induction h1 with
  | nil n => simpa using h2
  | cons hm _ ih => exact .cons hm (ih h2)

/-- `ChainOK succ chain n`: the chain is a path of references ending at `n`'s predecessor: every element
    of the chain reaches `n` by a non-empty path -/
def ChainOK (succ : α → List α) (chain : List α) (n : α) : Prop :=
  ∀ c ∈ chain, ∃ p, p ≠ [] ∧ Path succ c p n

mutual
theorem walk_cycle_sound (succ : α → List α) : ∀ (fuel : Nat) (chain : List α) (n : α),
    ChainOK succ chain n → walk succ fuel chain n = .cycle → ReachesCycle succ n
  | 0, _, _, _, h => by simp [walk] at h
  | fuel + 1, chain, n, hc, h => by
    simp only [walk] at h
    by_cases hn : n ∈ chain
    · -- n is on the chain: the chain gives a non-empty path n → … → n
      obtain ⟨p, hp, hpath⟩ := hc n hn
      exact ⟨n, [], p, .nil n, hp, hpath⟩
    · simp only [hn, if_false] at h
      have hc' : ∀ m ∈ succ n, ChainOK succ (n :: chain) m := by
        intro m hm c hcm
        simp only [List.mem_cons] at hcm
        rcases hcm with rfl | hcm
        · exact ⟨[m], by simp, .cons hm (.nil m)⟩
        · obtain ⟨p, hp, hpath⟩ := hc c hcm
          exact ⟨p ++ [m], by simp, hpath.append (.cons hm (.nil m))⟩
      obtain ⟨m, hm, hr⟩ := walkAll_cycle_sound succ fuel (n :: chain) (succ n) (fun m hm => hc' m hm) h
      obtain ⟨x, p, q, hp, hq, hqq⟩ := hr
      exact ⟨x, m :: p, q, .cons hm hp, hq, hqq⟩
theorem walkAll_cycle_sound (succ : α → List α) : ∀ (fuel : Nat) (chain : List α) (l : List α),
    (∀ m ∈ l, ChainOK succ chain m) → walkAll succ fuel chain l = .cycle → ∃ m ∈ l, ReachesCycle succ m
  | 0, _, _, _, h => by simp [walkAll] at h
  | fuel + 1, chain, [], _, h => by simp [walkAll] at h
  | fuel + 1, chain, m :: r, hc, h => by
    simp only [walkAll] at h
    cases hw : walk succ fuel chain m with
    | ok =>
      simp only [hw] at h
      obtain ⟨m', hm', hr⟩ := walkAll_cycle_sound succ fuel chain r (fun x hx => hc x (by simp [hx])) h
      exact ⟨m', by simp [hm'], hr⟩
    | cycle => exact ⟨m, by simp, walk_cycle_sound succ fuel chain m (hc m (by simp)) hw⟩
    | outOfFuel => simp [hw] at h
end

/-- **soundness.** Started with an empty chain, the walk says "cycle" only when the definition really
    reaches a cycle of references: no acyclic input — however many definitions share a dependency — is
    rejected -/
theorem walk_sound (succ : α → List α) (fuel : Nat) (n : α) (h : walk succ fuel [] n = .cycle) :
    ReachesCycle succ n :=
  walk_cycle_sound succ fuel [] n (by intro c hc; simp at hc) h

theorem walkAll_ok (succ : α → List α) : ∀ (fuel : Nat) (chain l : List α),
    walkAll succ fuel chain l = .ok → ∀ m ∈ l, ∃ f, walk succ f chain m = .ok
  | 0, _, _, h => by simp [walkAll] at h
  | fuel + 1, chain, [], _ => by intro m hm; simp at hm
  | fuel + 1, chain, x :: r, h => by
    simp only [walkAll] at h
    cases hw : walk succ fuel chain x with
    | ok =>
      simp only [hw] at h
      intro m hm
      simp only [List.mem_cons] at hm
      rcases hm with rfl | hm
      · exact ⟨fuel, hw⟩
      · exact walkAll_ok succ fuel chain r h m hm
    | cycle => simp [hw] at h
    | outOfFuel => simp [hw] at h

/-- unfolding an accepting walk: the node is not on the chain and every successor is accepted -/
theorem walk_ok_step (succ : α → List α) (fuel : Nat) (chain : List α) (n : α) (h : walk succ fuel chain n = .ok) :
    n ∉ chain ∧ ∀ m ∈ succ n, ∃ f, walk succ f (n :: chain) m = .ok := by
  cases fuel with
  | zero => simp [walk] at h
  | succ fuel =>
    simp only [walk] at h
    by_cases hn : n ∈ chain
    · simp [hn] at h
    · simp only [hn, if_false] at h
      exact ⟨hn, walkAll_ok succ fuel (n :: chain) (succ n) h⟩

/-- when the walk accepts `n`, no non-empty path from `n` comes back to `n` or to the chain -/
theorem walk_ok_no_return (succ : α → List α) {n z : α} {p : List α} (hp : Path succ n p z) :
    ∀ (fuel : Nat) (chain : List α), walk succ fuel chain n = .ok → p ≠ [] → z ∉ n :: chain := by
  induction hp with
  | nil n => intro _ _ _ hne; exact absurd rfl hne
  | @cons n m z p' hm hrest ih =>
    intro fuel chain h _
    obtain ⟨hn, hall⟩ := walk_ok_step succ fuel chain n h
    obtain ⟨f, hf⟩ := hall m hm
    by_cases hp' : p' = []
    · subst hp'
      cases hrest
      exact (walk_ok_step succ f (n :: chain) m hf).1
    · have := ih f (n :: chain) hf hp'
      intro hz; exact this (by simp [hz])

/-- **completeness.** When the walk accepts a definition, no cycle of references can be reached from it -/
theorem walk_ok_acyclic (succ : α → List α) (fuel : Nat) (chain : List α) (n : α)
    (h : walk succ fuel chain n = .ok) : ¬ ReachesCycle succ n := by
  rintro ⟨x, p, q, hp, hq, hqq⟩
  induction hp generalizing fuel chain with
  | nil n => exact walk_ok_no_return succ hqq fuel chain h hq (by simp)
  | @cons n m z p' hm hrest ih =>
    obtain ⟨_, hall⟩ := walk_ok_step succ fuel chain n h
    obtain ⟨f, hf⟩ := hall m hm
    exact ih f (n :: chain) hf hqq

/-- a self reference is found at depth two -/
theorem walk_self (succ : α → List α) (n : α) (h : n ∈ succ n) (fuel : Nat) :
    walk succ (fuel + 3) [] n = .cycle ∨ ∃ m ∈ succ n, walk succ (fuel + 1) [n] m ≠ .ok := by
  by_cases hc : walk succ (fuel + 3) [] n = .cycle
  · exact .inl hc
  · right
    refine ⟨n, h, ?_⟩
    simp [walk]

end YV.Cyc
